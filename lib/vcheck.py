#!/usr/bin/env python3
"""vcheck — orchestration shared by every property check (see DESIGN.md §2.2).

One run of `bin/check Cxx --tier T`:
  1. translator regenerates coq/gen/*.v from /repo's working tree
  2. make (full .vo) of the property's cone under a shell timeout; Print Assumptions captured
  3. extraction of the executable model + OCaml driver build
  4. go build of the harness binary against /repo (tags purego,verif), run it: it drives the
     implementation, evaluates the extracted model on the same cases, applies relation R
  5. evidence/Cxx.json, replay files, VIOLATION / KNOWN-FINDING lines, exit code
"""
import fcntl
import hashlib
import json
import os
import re
import subprocess
import sys
import time

ROOT = os.path.dirname(os.path.dirname(os.path.abspath(__file__)))
REPO = os.environ.get("VERIF_REPO", "/repo")
COQ = os.path.join(ROOT, "coq")
GO = "go1.26"
COQ_DIRS = ["base", "gen", "model", "mc", "proofs", "props"]

TRUSTED_BASE = [
    "Coq 8.16.1 kernel (coqc full .vo build, no -vos); vm_compute in Examples and finite sweeps; no native_compute",
    "no Axiom/Parameter/Conjecture/Admitted/admit, no Variable/Hypothesis outside sections, no unset guard/positivity/universe checks (grep gate in bin/check)",
    "translator /verif/translator (go/ast -> coq/gen/*.v): trusted to render the accepted statement forms faithfully",
    "extraction: ExtrOcamlBasic + ExtrOcamlZBigInt standard directives only (bool option unit list prod sumbool; positive N Z => Big_int_Z), OCaml 4.13.1, zarith 1.12",
    "correspondence harness /verif/harness (Go): case generation, canonical text, comparison; Go standard-library hashes (sha3/sha256/sha512) applied to model byte streams",
    "idealisations written as definitions: hash/XOF outputs as injective functions of their input; prime-order groups as Z_q in the exponent",
]


def goenv():
    e = dict(os.environ)
    e.update({
        "GOFLAGS": "-mod=mod", "GOPROXY": "off", "GOSUMDB": "off", "GOTOOLCHAIN": "local",
        "GOCACHE": os.environ.get("GOCACHE_SHARED") or os.path.join(ROOT, ".cache", "go-build"),
        "CGO_ENABLED": e.get("CGO_ENABLED", "0"),
        "VERIF_ROOT": ROOT,
    })
    return e


def sh(cmd, cwd=None, timeout=1800, env=None, stdin=None):
    """run a command, return (rc, combined output)"""
    try:
        p = subprocess.run(cmd, cwd=cwd, env=env, input=stdin, stdout=subprocess.PIPE, stderr=subprocess.STDOUT,
                           timeout=timeout, shell=isinstance(cmd, str), text=True, errors="replace")
        return p.returncode, p.stdout
    except subprocess.TimeoutExpired as ex:
        out = ex.stdout or ""
        if isinstance(out, bytes):
            out = out.decode(errors="replace")
        return 124, out + "\n[timeout after %ss]" % timeout


class Lock:
    def __init__(self, name="build"):
        os.makedirs(os.path.join(ROOT, ".cache"), exist_ok=True)
        self.path = os.path.join(ROOT, ".cache", name + ".lock")

    def __enter__(self):
        self.f = open(self.path, "w")
        fcntl.flock(self.f, fcntl.LOCK_EX)
        return self

    def __exit__(self, *a):
        fcntl.flock(self.f, fcntl.LOCK_UN)
        self.f.close()


# ---------------------------------------------------------------- translator

def build_translator():
    src = os.path.join(ROOT, "translator")
    binp = os.path.join(src, "translator")
    newest = max(os.path.getmtime(os.path.join(src, f)) for f in os.listdir(src) if f.endswith(".go") or f == "go.mod")
    if os.path.exists(binp) and os.path.getmtime(binp) >= newest:
        return 0, ""
    return sh([GO, "build", "-o", "translator", "."], cwd=src, env=goenv(), timeout=600)


def run_translator():
    """returns (status dict unit->'ok'|'failed: ..', hashes dict, log)"""
    rc, out = build_translator()
    if rc != 0:
        return {"_build": "failed: " + out[-2000:]}, {}, out
    rc, out = sh([os.path.join(ROOT, "translator", "translator"), "-repo", REPO, "-out", os.path.join(COQ, "gen")], timeout=300)
    status, hashes = {}, {}
    mpath = os.path.join(COQ, "gen", "manifest.json")
    if os.path.exists(mpath):
        try:
            m = json.load(open(mpath))
            status = m.get("_status", {})
            hashes = {k: v for k, v in m.items() if k != "_status"}
        except Exception as ex:  # noqa
            status = {"_manifest": "failed: %s" % ex}
    for line in out.splitlines():
        mm = re.match(r"UNTRANSLATABLE (\w+): (.*)", line)
        if mm:
            status[mm.group(1)] = "failed: " + mm.group(2)
    if rc not in (0, 2):
        status["_run"] = "failed: rc=%d %s" % (rc, out[-1000:])
    return status, hashes, out


# ---------------------------------------------------------------- coq

def coq_files():
    fs = []
    for d in COQ_DIRS:
        p = os.path.join(COQ, d)
        if os.path.isdir(p):
            for f in sorted(os.listdir(p)):
                if f.endswith(".v"):
                    fs.append(d + "/" + f)
    return fs


def coq_project():
    content = "-Q . V\n-arg -w -arg -notation-overridden,-deprecated-hint-without-locality,-ambiguous-paths,-non-recursive\n" + "\n".join(coq_files()) + "\n"
    p = os.path.join(COQ, "_CoqProject")
    old = open(p).read() if os.path.exists(p) else None
    if old != content or not os.path.exists(os.path.join(COQ, "Makefile")):
        open(p, "w").write(content)
        rc, out = sh(["coq_makefile", "-f", "_CoqProject", "-o", "Makefile"], cwd=COQ, timeout=120)
        if rc != 0:
            raise RuntimeError("coq_makefile failed: " + out)


def grep_gate():
    """no Admitted/admit/Axiom/Parameter/Conjecture/unset checks anywhere in the development"""
    bad = []
    pat = re.compile(r"\b(Admitted|admit|Axiom|Axioms|Parameter|Parameters|Conjecture|Abort All|bypass_check|Admit Obligations)\b|Unset\s+(Guard|Positivity|Universe)|type-in-type|impredicative-set")
    for d in COQ_DIRS + ["extract"]:
        p = os.path.join(COQ, d)
        if not os.path.isdir(p):
            continue
        for f in sorted(os.listdir(p)):
            if not f.endswith(".v"):
                continue
            txt = open(os.path.join(p, f)).read()
            txt = re.sub(r"\(\*.*?\*\)", "", txt, flags=re.S)
            for i, line in enumerate(txt.splitlines(), 1):
                if pat.search(line):
                    bad.append("%s/%s:%d: %s" % (d, f, i, line.strip()))
    return bad


def coq_make(targets, timeout=1500, jobs=16):
    coq_project()
    cmd = ["make", "-j%d" % jobs, "-k"] + targets
    rc, out = sh(cmd, cwd=COQ, timeout=timeout)
    return rc, out, " ".join(cmd)


def failed_files(makelog):
    fs = set()
    for m in re.finditer(r'File "\./([^"]+\.v)", line \d+, characters [\d-]+:\nError', makelog):
        fs.add(m.group(1))
    for m in re.finditer(r"make.*\*\*\* \[[^\]]*?([\w/]+\.vo)\]", makelog):
        fs.add(m.group(1)[:-1])
    return sorted(fs)


def cone(vfile, seen=None):
    """dependency cone (our own files) of a .v file, by Require Import V.x.y scanning"""
    seen = seen if seen is not None else set()
    if vfile in seen:
        return seen
    seen.add(vfile)
    p = os.path.join(COQ, vfile)
    if not os.path.exists(p):
        return seen
    txt = open(p).read()
    for m in re.finditer(r"\bV\.(\w+)\.(\w+)", txt):
        cone("%s/%s.v" % (m.group(1), m.group(2)), seen)
    return seen


def count_obligations(files):
    """(total, per-file dict) of Theorem/Lemma/Corollary/Example/Fact statements"""
    per = {}
    for f in files:
        p = os.path.join(COQ, f)
        if not os.path.exists(p):
            continue
        txt = re.sub(r"\(\*.*?\*\)", "", open(p).read(), flags=re.S)
        per[f] = len(re.findall(r"^\s*(?:Local\s+|Global\s+|#\[[^\]]*\]\s*)?(?:Theorem|Lemma|Corollary|Example|Fact|Proposition|Remark)\s+\w+", txt, flags=re.M))
    return sum(per.values()), per


def theorem_names(propfile):
    p = os.path.join(COQ, propfile)
    if not os.path.exists(p):
        return []
    txt = re.sub(r"\(\*.*?\*\)", "", open(p).read(), flags=re.S)
    return re.findall(r"^\s*(?:Theorem|Example)\s+(\w+)", txt, flags=re.M)


def print_assumptions(propfile):
    """re-run coqc on the (tiny) props file to capture Print Assumptions output"""
    rc, out = sh(["coqc", "-Q", ".", "V", "-w", "-notation-overridden,-deprecated-hint-without-locality", propfile], cwd=COQ, timeout=600)
    axioms = set()
    closed = out.count("Closed under the global context")
    blocks = re.findall(r"Axioms:\n((?:.+\n?)+?)(?=\n\S|\Z)", out)
    for b in blocks:
        for line in b.splitlines():
            m = re.match(r"^(\S+)\s*:", line)
            if m:
                axioms.add(m.group(1))
    for m in re.finditer(r"^([\w.]+)\s+:.*$", out, flags=re.M):
        pass
    return rc, out, closed, sorted(axioms)


# ---------------------------------------------------------------- ocaml / go

def build_driver(name, extract_v):
    """extract model (cwd = ocaml/<name>) and build ocaml/<name>/driver"""
    d = os.path.join(ROOT, "ocaml", name)
    os.makedirs(d, exist_ok=True)
    rc, out = sh(["coqc", "-Q", COQ, "V", "-w", "-extraction-opaque-accessed,-extraction-reserved-identifier,-notation-overridden", os.path.join(COQ, "extract", extract_v)], cwd=d, timeout=900)
    if rc != 0:
        return rc, "extraction failed:\n" + out
    helpers = open(os.path.join(ROOT, "ocaml", "common", "helpers.ml")).read()
    hp = os.path.join(d, "helpers.ml")
    if not os.path.exists(hp) or open(hp).read() != helpers:
        open(hp, "w").write(helpers)
    stamp = os.path.join(d, ".stamp")
    h = hashlib.sha256()
    for f in ["model.ml", "model.mli", "helpers.ml", "driver.ml"]:
        h.update(open(os.path.join(d, f), "rb").read())
    if os.path.exists(stamp) and open(stamp).read() == h.hexdigest() and os.path.exists(os.path.join(d, "driver")):
        return 0, ""
    rc, out = sh(["ocamlfind", "ocamlopt", "-inline", "50", "-package", "zarith", "-linkpkg", "-w", "-a",
                  "model.mli", "model.ml", "helpers.ml", "driver.ml", "-o", "driver"], cwd=d, timeout=900)
    if rc == 0:
        open(stamp, "w").write(h.hexdigest())
    return rc, out


def build_harness(name):
    hd = os.path.join(ROOT, "harness")
    # keep go.sum in step with the repository's
    try:
        rs = open(os.path.join(REPO, "go.sum")).read()
        p = os.path.join(hd, "go.sum")
        if not os.path.exists(p) or open(p).read() != rs:
            open(p, "w").write(rs)
    except OSError:
        pass
    os.makedirs(os.path.join(hd, "bin"), exist_ok=True)
    return sh([GO, "build", "-tags", "purego,verif", "-o", "bin/" + name, "./cmd/" + name], cwd=hd, env=goenv(), timeout=1500)


def run_harness(name, seed, tier, extra=None, timeout=3000):
    os.makedirs(os.path.join(ROOT, "run"), exist_ok=True)
    out = os.path.join(ROOT, "run", "%s-%s-%d.result.json" % (name.upper(), tier, os.getpid()))
    if os.path.exists(out):
        os.remove(out)
    cmd = [os.path.join(ROOT, "harness", "bin", name), "-seed", str(seed), "-tier", tier,
           "-driver", os.path.join(ROOT, "ocaml", name, "driver"), "-out", out] + (extra or [])
    rc, log = sh(cmd, cwd=ROOT, env=goenv(), timeout=timeout)
    res = None
    if os.path.exists(out):
        try:
            res = json.load(open(out))
        except Exception:  # noqa
            res = None
        os.remove(out)
    return rc, log, res


# ---------------------------------------------------------------- known findings

def known_findings(prop):
    """[(key, text)] for open findings of this property"""
    p = os.path.join(ROOT, "known_findings.txt")
    res = []
    if not os.path.exists(p):
        return res
    for line in open(p):
        line = line.strip()
        if not line or line.startswith("#") or line.startswith("fixed:"):
            continue
        m = re.match(r"property=(\w+)\s+key=(\S+)\s+(.*)", line)
        if m and m.group(1) == prop:
            res.append((m.group(2), m.group(3)))
    return res


# ---------------------------------------------------------------- the check

def write_replay(prop, seed, idx, fields):
    os.makedirs(os.path.join(ROOT, "replay"), exist_ok=True)
    p = os.path.join(ROOT, "replay", "%s-%s-%d.txt" % (prop, seed, idx))
    with open(p, "w") as f:
        f.write("property: %s\nseed: %s\n" % (prop, seed))
        for k, v in fields.items():
            f.write("%s: %s\n" % (k, v))
    return p


def check(spec, tier="quick", seed=1, replay=None):
    """spec: dict with id, props (file), gen (list of translator units), extract (file),
    name (driver/harness dir name), partial (list of str), notes"""
    t0 = time.time()
    prop = spec["id"]
    name = spec["name"]
    violations = []   # (replayfields, no_input_found)
    notes = []
    proof_broken = []  # names of theorems / files that no longer check
    tie_broken = []
    checker_cmds = []
    assumptions_out = ""
    axioms = []
    closed = 0

    with Lock("coq"):
        # 1. translator
        status, hashes, tlog = run_translator()
        for unit in spec.get("gen", []):
            st = status.get(unit, "missing")
            if st != "ok":
                tie_broken.append("translator unit %s: %s" % (unit, st))
        for k in ("_build", "_run", "_manifest"):
            if k in status:
                tie_broken.append("translator %s" % status[k])
        # 2. proofs
        bad = grep_gate()
        if bad:
            proof_broken.append("grep gate: " + "; ".join(bad[:5]))
        propfile = spec["props"]
        files = sorted(cone(propfile))
        # the extraction file may use model files outside the theorems' cone (thin instantiation
        # wrappers): build them too, so that a fresh checkout (no .vo anywhere) extracts
        ext_deps = sorted(f for f in cone("extract/" + spec["extract"]) if not f.startswith("extract/")) if spec.get("extract") else []
        targets = [propfile + "o"] + [f + "o" for f in spec.get("extra_vo", [])]
        targets += [f + "o" for f in ext_deps if f + "o" not in targets and os.path.exists(os.path.join(COQ, f))]
        rc, mlog, mcmd = coq_make(targets)
        checker_cmds.append("cd /verif/coq && " + mcmd)
        total_ob, per = count_obligations(files)
        discharged = sum(n for f, n in per.items() if os.path.exists(os.path.join(COQ, f + "o"))
                         and os.path.getmtime(os.path.join(COQ, f + "o")) >= os.path.getmtime(os.path.join(COQ, f)))
        if rc != 0:
            ff = failed_files(mlog)
            broken_thms = theorem_names(propfile)
            proof_broken.append("make failed in %s (property theorems no longer checked: %s): %s" % (
                ", ".join(ff) or "?", ", ".join(broken_thms), mlog[-1500:].replace("\n", " | ")))
        else:
            prc, assumptions_out, closed, axioms = print_assumptions(propfile)
            checker_cmds.append("cd /verif/coq && coqc -Q . V " + propfile + "   # Print Assumptions")
            if prc != 0:
                proof_broken.append("coqc %s failed: %s" % (propfile, assumptions_out[-800:]))
        if tier == "thorough" and rc == 0 and os.environ.get("VERIF_COQCHK", "1") != "0":
            crc, cout = sh("coqchk -silent -o -Q . V " + " ".join("V." + f[:-2].replace("/", ".") for f in [propfile]),
                           cwd=COQ, timeout=3600)
            checker_cmds.append("cd /verif/coq && coqchk -silent -o -Q . V V." + propfile[:-2].replace("/", "."))
            notes.append("coqchk rc=%d: %s" % (crc, cout[-1200:].replace("\n", " | ")))
            if crc != 0:
                proof_broken.append("coqchk failed: " + cout[-600:])
    with Lock("prop-" + name):
        # 3. model driver (per-property lock: independent of other properties' builds)
        drc, dlog = (0, "")
        if spec.get("extract"):
            drc, dlog = build_driver(name, spec["extract"])
            if drc != 0:
                tie_broken.append("model extraction/driver build failed: " + dlog[-1200:].replace("\n", " | "))
        # 4. harness
        hrc, hlog = build_harness(name)
        if hrc != 0:
            tie_broken.append("harness does not build against the current tree: " + hlog[-1500:].replace("\n", " | "))

    res = None
    proplock = Lock("prop-" + name)
    proplock.__enter__()
    if hrc == 0 and drc == 0:
        extra = []
        if replay:
            extra = ["-replay", replay]
        elif proof_broken or tie_broken:
            extra = []  # normal run first; a search run follows below
        rc2, rlog, res = run_harness(name, seed, tier, extra)
        if res is None:
            tie_broken.append("harness run failed rc=%d: %s" % (rc2, rlog[-1500:].replace("\n", " | ")))
        if (proof_broken or tie_broken) and res is not None and not any(m.get("propfail") for m in (res.get("mismatches") or [])) and not replay:
            rc3, rlog3, res3 = run_harness(name, seed, tier, ["-search"])
            if res3 is not None:
                res["mismatches"] = (res.get("mismatches") or []) + (res3.get("mismatches") or [])
                res["evaluations"] += res3.get("evaluations", 0)
                res["distinct_nontrivial"] += res3.get("distinct_nontrivial", 0)
                for k, v in (res3.get("distribution") or {}).items():
                    res["distribution"]["search:" + k] = v

    proplock.__exit__()
    # 5. verdict
    known = known_findings(prop)
    known_hit = {}
    mism = (res or {}).get("mismatches") or []
    fresh = []
    for m in mism:
        hit = [k for k in known if k[0] == m.get("key")]
        if hit:
            known_hit[hit[0][0]] = hit[0][1]
        else:
            fresh.append(m)
    out_lines = []
    for k, text in sorted(known_hit.items()):
        out_lines.append("KNOWN-FINDING: property=%s %s [%s]" % (prop, text, k))
    idx = 0
    # group fresh mismatches by key: one VIOLATION per key, shortest case as replay
    bykey = {}
    for m in fresh:
        bykey.setdefault((m.get("key"), m.get("kind")), []).append(m)
    any_propfail = any(m.get("propfail") for m in fresh)
    for (key, kind), ms in sorted(bykey.items(), key=lambda kv: str(kv[0])):
        ms.sort(key=lambda m: (not m.get("propfail"), len(m.get("case", ""))))
        m = ms[0]
        p = write_replay(prop, seed, idx, {
            "kind": kind, "key": key, "what": m.get("what", ""), "case": m.get("case", ""),
            "detail": m.get("detail", ""), "tier": tier, "count": len(ms),
            "failing-input": "yes: the property's own predicate fails on the implementation for this case" if m.get("propfail")
            else "no: model and implementation disagree on this case, no input on which the property itself fails was found"})
        idx += 1
        suffix = "" if m.get("propfail") else " no-failing-input-found"
        out_lines.append("VIOLATION property=%s replay=%s%s" % (prop, p, suffix))
    if (proof_broken or tie_broken) and not any_propfail:
        p = write_replay(prop, seed, idx, {
            "kind": "proof" if proof_broken else "tie",
            "what": " || ".join(proof_broken + tie_broken),
            "case": "(none found: search over %d cases)" % ((res or {}).get("evaluations", 0)),
            "tier": tier})
        idx += 1
        out_lines.append("VIOLATION property=%s replay=%s no-failing-input-found" % (prop, p))
    elif (proof_broken or tie_broken):
        notes.append("proof/tie broken as well: " + " || ".join(proof_broken + tie_broken)[:1500])

    nviol = sum(1 for l in out_lines if l.startswith("VIOLATION"))
    # evidence
    ev = {
        "property_id": prop, "tier": tier, "seed": int(seed), "level": "proof",
        "coverage": {
            "obligations": max(total_ob, 1), "discharged": discharged if not proof_broken else min(discharged, max(total_ob - 1, 0)),
            "checker_cmd": " ; ".join(checker_cmds),
            "trusted_base": TRUSTED_BASE + spec.get("trusted_extra", []) + ["axioms reported by Print Assumptions in this run: " + (", ".join(axioms) if axioms else "none (all %d property theorems closed under the global context)" % closed)],
            "theorems": theorem_names(propfile),
            "partial": spec.get("partial", []),
            "files_in_cone": files,
            "evaluations": (res or {}).get("evaluations", 0),
            "distinct_nontrivial": (res or {}).get("distinct_nontrivial", 0),
            "traces_validated_against_impl": (res or {}).get("evaluations", 0),
            "rule": (res or {}).get("rule", ""),
            "samples": (res or {}).get("samples", []) or ["(no harness result)"],
            "input_distribution": (res or {}).get("distribution", {}),
            "translator_hashes": {u: hashes.get(u, {}) for u in spec.get("gen", [])},
            "known_findings_hit": sorted(known_hit),
            "harness_notes": (res or {}).get("notes") or [],
            "notes": notes,
        },
        "assumptions": spec.get("assumptions", []),
        "wall_s": round(time.time() - t0, 2),
        "violations": nviol,
    }
    os.makedirs(os.path.join(ROOT, "evidence"), exist_ok=True)
    with open(os.path.join(ROOT, "evidence", prop + ".json"), "w") as f:
        json.dump(ev, f, indent=1)
        f.write("\n")
    for l in out_lines:
        print(l)
    print("%s %s: obligations %d discharged %d; %d cases (%d distinct non-trivial); %d violation(s); %.1fs" % (
        prop, tier, ev["coverage"]["obligations"], ev["coverage"]["discharged"], ev["coverage"]["evaluations"],
        ev["coverage"]["distinct_nontrivial"], nviol, time.time() - t0))
    return 1 if nviol else 0
