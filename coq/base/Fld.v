(* Fld.v — fields as a record of operations (executable), their laws as a separate
   record (for proofs: registers ring/field), and the executable instance Z_p. *)
From Coq Require Import ZArith Znumtheory Lia Field Ring List Bool.
Import ListNotations.

Record fops (F : Type) := mk_fops {
  f0 : F; f1 : F;
  fadd : F -> F -> F; fmul : F -> F -> F; fsub : F -> F -> F; fopp : F -> F;
  finv : F -> F;                (* total; finv 0 = 0 by convention, callers test for zero first *)
  fdiv : F -> F -> F;
  feqb : F -> F -> bool
}.
Arguments f0 {F} _. Arguments f1 {F} _. Arguments fadd {F} _. Arguments fmul {F} _.
Arguments fsub {F} _. Arguments fopp {F} _. Arguments finv {F} _. Arguments fdiv {F} _.
Arguments feqb {F} _.

Definition fis0 {F} (K : fops F) (x : F) : bool := feqb K x (f0 K).

(* what proofs assume about a field *)
Record flaws {F} (K : fops F) : Prop := mk_flaws {
  fl_theory : field_theory (f0 K) (f1 K) (fadd K) (fmul K) (fsub K) (fopp K) (fdiv K) (finv K) (@eq F);
  fl_eqb : forall x y, feqb K x y = true <-> x = y
}.

(* ---- Z_p : canonical representatives in [0,p) -------------------------------- *)

(* modular inverse by the extended Euclidean algorithm on (a, p); fuel = bit length bound *)
Fixpoint egcd (fuel : nat) (a b : Z) : Z * Z * Z :=     (* returns (g, x, y) with a*x + b*y = g *)
  match fuel with
  | O => (a, 1, 0)%Z
  | S k =>
      if (b =? 0)%Z then (a, 1, 0)%Z
      else let '(g, x, y) := egcd k b (a mod b) in (g, y, x - (a / b) * y)%Z
  end.

Definition zp_inv (p a : Z) : Z :=
  let '(g, x, _) := egcd (S (Z.to_nat (Z.log2_up p) * 2 + 2)) (a mod p) p in
  if (g =? 1)%Z then (x mod p)%Z else 0%Z.

Definition Zp (p : Z) : fops Z := {|
  f0 := 0%Z; f1 := (1 mod p)%Z;
  fadd := fun a b => ((a + b) mod p)%Z;
  fmul := fun a b => ((a * b) mod p)%Z;
  fsub := fun a b => ((a - b) mod p)%Z;
  fopp := fun a => ((- a) mod p)%Z;
  finv := zp_inv p;
  fdiv := fun a b => ((a * zp_inv p b) mod p)%Z;
  feqb := Z.eqb
|}.

(* modular exponentiation (square and multiply on the binary expansion of e) *)
Definition zp_pow (p a : Z) (e : Z) : Z :=
  match e with
  | Zpos n => Pos.iter_op (fun x y => (x * y) mod p)%Z n (a mod p)%Z
  | _ => (1 mod p)%Z
  end.

Definition in_Zp (p x : Z) : Prop := (0 <= x < p)%Z.
