(* Bytes.v — byte strings as lists of N (each < 256), fixed-width big-endian
   integers as Go's binary.BigEndian.AppendUint64 produces them.
   Executable definitions + the lemmas every framing proof uses. *)
From Coq Require Import List NArith ZArith Lia Bool.
From Coq Require Import ZifyN ZifyNat ZifyBool.
Import ListNotations.
Local Open Scope N_scope.

Definition byte := N.
Definition bytes := list N.

Definition is_byte (b : N) : Prop := b < 256.
Definition wf_bytes (l : bytes) : Prop := Forall is_byte l.

Definition len {A} (l : list A) : N := N.of_nat (length l).

(* big-endian, exactly k bytes, of (n mod 256^k) — uint truncation is explicit *)
Fixpoint be_bytes (k : nat) (n : N) : bytes :=
  match k with
  | O => []
  | S k' => be_bytes k' (n / 256) ++ [n mod 256]
  end.

Definition be_value (l : bytes) : N :=
  fold_left (fun acc b => acc * 256 + b) l 0.

Definition be64 (n : N) : bytes := be_bytes 8 n.
Definition be32 (n : N) : bytes := be_bytes 4 n.
Definition be16 (n : N) : bytes := be_bytes 2 n.

(* little endian variants (used by scalar sampling, ed25519) *)
Fixpoint le_bytes (k : nat) (n : N) : bytes :=
  match k with
  | O => []
  | S k' => (n mod 256) :: le_bytes k' (n / 256)
  end.

Fixpoint le_value (l : bytes) : N :=
  match l with
  | [] => 0
  | b :: r => b + 256 * le_value r
  end.

Lemma be_bytes_length k n : length (be_bytes k n) = k.
Proof.
  revert n; induction k as [|k IH]; intros n; cbn [be_bytes]; [reflexivity|].
  rewrite app_length, IH; cbn; lia.
Qed.

Lemma be64_length n : length (be64 n) = 8%nat.
Proof. apply be_bytes_length. Qed.

Lemma be_bytes_wf k n : wf_bytes (be_bytes k n).
Proof.
  revert n; induction k as [|k IH]; intros n; cbn [be_bytes]; [constructor|].
  apply Forall_app; split; [apply IH|].
  constructor; [|constructor]. unfold is_byte. apply N.mod_lt. lia.
Qed.

Lemma app_inj_length {A} (a c b d : list A) :
  length a = length c -> a ++ b = c ++ d -> a = c /\ b = d.
Proof.
  revert c; induction a as [|x a IH]; intros [|y c] Hl H; cbn in *; try discriminate.
  - split; [reflexivity|exact H].
  - injection H as -> H. injection Hl as Hl.
    destruct (IH c Hl H) as [-> ->]. split; reflexivity.
Qed.

Lemma app_inj_tail_length {A} (a c b d : list A) :
  length b = length d -> a ++ b = c ++ d -> a = c /\ b = d.
Proof.
  intros Hl H.
  assert (Hlen : length a = length c).
  { apply (f_equal (@length A)) in H. rewrite !app_length in H. lia. }
  apply app_inj_length; assumption.
Qed.

Lemma be_bytes_inj k n m :
  n < 256 ^ N.of_nat k -> m < 256 ^ N.of_nat k -> be_bytes k n = be_bytes k m -> n = m.
Proof.
  revert n m; induction k as [|k IH]; intros n m Hn Hm H.
  - cbn in Hn, Hm. lia.
  - cbn [be_bytes] in H.
    apply app_inj_tail_length in H; [|reflexivity].
    destruct H as [H1 H2]. injection H2 as H2.
    assert (Hp : 256 ^ N.of_nat (S k) = 256 * 256 ^ N.of_nat k).
    { rewrite Nat2N.inj_succ, N.pow_succ_r'. reflexivity. }
    rewrite Hp in Hn, Hm.
    assert (n / 256 = m / 256).
    { apply IH; [| |exact H1].
      - apply N.div_lt_upper_bound; lia.
      - apply N.div_lt_upper_bound; lia. }
    rewrite (N.div_mod n 256), (N.div_mod m 256) by lia. congruence.
Qed.

Lemma be64_inj n m : n < 2^64 -> m < 2^64 -> be64 n = be64 m -> n = m.
Proof.
  intros Hn Hm. apply be_bytes_inj; cbn; assumption.
Qed.

Lemma be_value_app l b : be_value (l ++ [b]) = be_value l * 256 + b.
Proof. unfold be_value. rewrite fold_left_app. reflexivity. Qed.

Lemma be_value_be_bytes k n : n < 256 ^ N.of_nat k -> be_value (be_bytes k n) = n.
Proof.
  revert n; induction k as [|k IH]; intros n Hn.
  - cbn in *. lia.
  - cbn [be_bytes]. rewrite be_value_app.
    assert (Hp : 256 ^ N.of_nat (S k) = 256 * 256 ^ N.of_nat k).
    { rewrite Nat2N.inj_succ, N.pow_succ_r'. reflexivity. }
    rewrite Hp in Hn.
    rewrite IH by (apply N.div_lt_upper_bound; lia).
    rewrite (N.div_mod n 256) at 3 by lia. lia.
Qed.

Lemma len_app {A} (a b : list A) : len (a ++ b) = len a + len b.
Proof. unfold len. rewrite app_length. lia. Qed.

Lemma len_inj {A} (a b : list A) : len a = len b -> length a = length b.
Proof. unfold len. lia. Qed.

(* Prefix-freeness helper: a code word [a ++ rest] whose length is determined by
   a fixed-length header.  Used through app_inj_length. *)
Lemma firstn_app_exact {A} (a b : list A) : firstn (length a) (a ++ b) = a.
Proof.
  rewrite firstn_app, Nat.sub_diag, firstn_all. cbn. apply app_nil_r.
Qed.

Lemma skipn_app_exact {A} (a b : list A) : skipn (length a) (a ++ b) = b.
Proof.
  rewrite skipn_app, Nat.sub_diag, skipn_all. reflexivity.
Qed.
