(* ZpField.v — the prime field Z_p as an executable [fops] instance WITH proved laws.

   [Fld.Zp p : fops Z] works on raw integers; its field laws hold only on canonical
   representatives in [0,p).  This file packages those representatives as a type and
   proves the laws there, axiom-free.

   What is here
   ------------
   * [zp_canon p x : bool]      x is canonical ([x mod p =? x]); for 0 < p this is
                                [in_Zp p x], see [zp_canon_iff].
   * [ZpT p : Type]             { x : Z | zp_canon p x = true }   (the carrier).
   * [zp_of p Hp x : ZpT p]     reduction of an integer ([proj1_sig] is [x mod p]),
     [zp_val a : Z]             the representative (= [proj1_sig a]).
   * [zpT_eq]                   a = b as soon as the representatives are equal
                                (proof-irrelevant, no axiom: UIP on bool).
   * [ZpS p Hp : fops (ZpT p)]  (Hp : 0 < p) every operation applies the matching raw
                                operation of [Zp p] to the representatives and re-wraps.
   * [ZpS_flaws_pos : forall p (Hpos : 0 < p), prime p -> flaws (ZpS p Hpos)]
     [ZpS_flaws     : forall p (Hp : prime p), flaws (ZpS p (prime_gt0 p Hp))]
   * [ZpS_proj_add/mul/sub/opp/inv/div/eqb/0/1]   (all by reflexivity)
         proj1_sig (fadd (ZpS p Hp) a b) = fadd (Zp p) (proj1_sig a) (proj1_sig b)  etc.
   * [Zp_closed_add/mul/sub/opp/inv/div/0/1]  each raw op of [Zp p] lands in [in_Zp p] (0 < p).
   * [egcd_bezout], [egcd_gcd], [zp_inv_correct], [zp_inv_0]: correctness of the extended
     Euclid inverse of Fld.v including the fuel-sufficiency argument.
   * [Zp_raw_*]: the raw field laws of [Zp p] relativised to [in_Zp p] inputs.

   How to use a generic theorem at Z_p
   -----------------------------------
   Given   Theorem T : forall F (K : fops F), flaws K -> forall x y : F, P K x y.
   and raw canonical inputs  x y : Z  with  in_Zp p x, in_Zp p y  and  Hp : prime p :
     pose (Hpos := prime_gt0 p Hp).
     pose proof (T _ (ZpS p Hpos) (ZpS_flaws_pos p Hpos Hp) (zp_of p Hpos x) (zp_of p Hpos y)).
   then push [proj1_sig] through with [ZpS_proj_*] (or [f_equal]/[zp_val]) and
   [zp_of_val_small : in_Zp p x -> proj1_sig (zp_of p Hp x) = x] to obtain the statement
   about [Zp p] on x, y.  Conversely a raw value known canonical is lifted with [zp_of]
   and [zp_of_proj : zp_of p Hp (proj1_sig a) = a]. *)
From Coq Require Import ZArith Znumtheory Lia Field Ring List Bool Eqdep_dec.
Require Import V.base.Fld.
Local Open Scope Z_scope.

(* ---------------------------------------------------------------------------------- *)
(* 1. extended Euclid: Bezout invariant and gcd with sufficient fuel                    *)
(* ---------------------------------------------------------------------------------- *)

Lemma egcd_bezout : forall fuel a b,
  let '(g, x, y) := egcd fuel a b in a * x + b * y = g.
Proof.
  induction fuel as [|k IH]; intros a b; cbn [egcd].
  - ring.
  - destruct (b =? 0) eqn:Hb.
    + ring.
    + specialize (IH b (a mod b)).
      destruct (egcd k b (a mod b)) as [[g x] y].
      apply Z.eqb_neq in Hb.
      rewrite <- IH.
      rewrite (Z.div_mod a b Hb) at 1. ring.
Qed.

Definition egcd_g (fuel : nat) (a b : Z) : Z := fst (fst (egcd fuel a b)).

Lemma egcd_g_S : forall k a b,
  egcd_g (S k) a b = if b =? 0 then a else egcd_g k b (a mod b).
Proof.
  intros k a b. unfold egcd_g. cbn [egcd].
  destruct (b =? 0); [reflexivity|].
  destruct (egcd k b (a mod b)) as [[g x] y]. reflexivity.
Qed.

Lemma egcd_g_0 : forall a b, egcd_g O a b = a.
Proof. reflexivity. Qed.

(* two Euclid steps more than halve the second argument *)
Lemma mod_mod_half : forall b r, 0 < r < b -> 2 * (b mod r) < b.
Proof.
  intros b r Hr.
  pose proof (Z.mod_pos_bound b r (proj1 Hr)) as Hm.
  pose proof (Z.div_mod b r ltac:(lia)) as Hd.
  assert (Hq : 1 <= b / r) by (apply Z.div_le_lower_bound; lia).
  nia.
Qed.

(* fuel sufficiency: second argument below 2^n  ==>  2n steps are enough *)
Lemma egcd_g_gcd : forall n fuel a b,
  0 <= a -> 0 <= b < 2 ^ Z.of_nat n -> (2 * n <= fuel)%nat ->
  egcd_g fuel a b = Z.gcd a b.
Proof.
  induction n as [|n IH]; intros fuel a b Ha Hb Hf.
  - assert (b = 0) by (change (2 ^ Z.of_nat 0) with 1 in Hb; lia). subst b.
    rewrite Z.gcd_0_r, Z.abs_eq by assumption.
    destruct fuel; [apply egcd_g_0 | rewrite egcd_g_S; reflexivity].
  - destruct fuel as [|[|fuel]]; try lia.
    rewrite egcd_g_S.
    destruct (b =? 0) eqn:Hb0.
    + apply Z.eqb_eq in Hb0. subst b. rewrite Z.gcd_0_r, Z.abs_eq; auto.
    + apply Z.eqb_neq in Hb0.
      assert (Hbpos : 0 < b) by lia.
      pose proof (Z.mod_pos_bound a b Hbpos) as Hr.
      rewrite egcd_g_S.
      destruct (a mod b =? 0) eqn:Hr0.
      * apply Z.eqb_eq in Hr0.
        rewrite <- (Z.gcd_comm b a), <- (Z.gcd_mod a b Hb0), Hr0.
        rewrite Z.gcd_0_l, Z.abs_eq; lia.
      * apply Z.eqb_neq in Hr0.
        assert (Hrpos : 0 < a mod b) by lia.
        rewrite IH.
        -- rewrite (Z.gcd_comm (a mod b)), (Z.gcd_mod b (a mod b) Hr0).
           rewrite (Z.gcd_mod a b Hb0). apply Z.gcd_comm.
        -- lia.
        -- pose proof (Z.mod_pos_bound b (a mod b) Hrpos) as Hr2.
           pose proof (mod_mod_half b (a mod b) ltac:(lia)) as Hh.
           rewrite Nat2Z.inj_succ, Z.pow_succ_r in Hb by lia.
           lia.
        -- lia.
Qed.

Definition zp_fuel (p : Z) : nat := S (Z.to_nat (Z.log2_up p) * 2 + 2).

Lemma zp_fuel_enough : forall p, 0 < p ->
  exists n, p < 2 ^ Z.of_nat n /\ (2 * n <= zp_fuel p)%nat.
Proof.
  intros p Hp. exists (S (Z.to_nat (Z.log2_up p))). split.
  - rewrite Nat2Z.inj_succ, Z2Nat.id by apply Z.log2_up_nonneg.
    rewrite Z.pow_succ_r by apply Z.log2_up_nonneg.
    destruct (Z.eq_dec p 1) as [->|Hne].
    + cbn. lia.
    + pose proof (Z.log2_up_spec p ltac:(lia)) as [_ Hle].
      assert (0 < 2 ^ Z.log2_up p) by (apply Z.pow_pos_nonneg; [lia|apply Z.log2_up_nonneg]).
      lia.
  - unfold zp_fuel. lia.
Qed.

(* the call made by [zp_inv]: gcd, for every a and every positive modulus *)
Theorem egcd_gcd : forall p a, 0 < p ->
  egcd_g (zp_fuel p) (a mod p) p = Z.gcd (a mod p) p.
Proof.
  intros p a Hp.
  destruct (zp_fuel_enough p Hp) as [n [Hn Hf]].
  apply (egcd_g_gcd n); auto.
  - apply Z.mod_pos_bound; assumption.
  - lia.
Qed.

Lemma zp_inv_unfold : forall p a,
  zp_inv p a =
  let '(g, x, _) := egcd (zp_fuel p) (a mod p) p in if g =? 1 then x mod p else 0.
Proof. reflexivity. Qed.

Lemma one_mod_prime : forall p, prime p -> 1 mod p = 1.
Proof. intros p Hp. pose proof (prime_ge_2 p Hp). apply Z.mod_small. lia. Qed.

Definition prime_gt0 (p : Z) (Hp : prime p) : 0 < p.
Proof. pose proof (prime_ge_2 p Hp). lia. Qed.

(* whenever gcd(a,p) = 1 the result is an inverse (p need not be prime) *)
Theorem zp_inv_correct_gcd : forall p a, 0 < p -> Z.gcd (a mod p) p = 1 ->
  (a * zp_inv p a) mod p = 1 mod p.
Proof.
  intros p a Hp Hg.
  rewrite zp_inv_unfold.
  pose proof (egcd_gcd p a Hp) as Hgcd. unfold egcd_g in Hgcd.
  pose proof (egcd_bezout (zp_fuel p) (a mod p) p) as Hbz.
  destruct (egcd (zp_fuel p) (a mod p) p) as [[g x] y].
  cbn [fst] in Hgcd. rewrite Hg in Hgcd. subst g.
  rewrite Z.eqb_refl.
  rewrite Zmult_mod_idemp_r.
  rewrite <- Hbz.
  rewrite (Z.mul_comm p y), Z_mod_plus_full.
  rewrite Zmult_mod_idemp_l. reflexivity.
Qed.

Theorem zp_inv_correct : forall p a, prime p -> 0 < a < p ->
  (a * zp_inv p a) mod p = 1.
Proof.
  intros p a Hp Ha.
  rewrite zp_inv_correct_gcd.
  - apply one_mod_prime; assumption.
  - lia.
  - rewrite Z.mod_small by lia.
    apply Zgcd_1_rel_prime. apply rel_prime_le_prime; [assumption|lia].
Qed.

(* without primality: non-invertible residues map to 0 *)
Theorem zp_inv_0 : forall p, 1 < p -> zp_inv p 0 = 0.
Proof.
  intros p Hp.
  rewrite zp_inv_unfold.
  pose proof (egcd_gcd p 0 ltac:(lia)) as Hgcd. unfold egcd_g in Hgcd.
  destruct (egcd (zp_fuel p) (0 mod p) p) as [[g x] y].
  cbn [fst] in Hgcd.
  rewrite Zmod_0_l, Z.gcd_0_l, Z.abs_eq in Hgcd by lia. subst g.
  destruct (p =? 1) eqn:E; [apply Z.eqb_eq in E; lia | reflexivity].
Qed.

Lemma zp_inv_range : forall p a, 0 < p -> 0 <= zp_inv p a < p.
Proof.
  intros p a Hp. rewrite zp_inv_unfold.
  destruct (egcd (zp_fuel p) (a mod p) p) as [[g x] y].
  destruct (g =? 1); [apply Z.mod_pos_bound; assumption | lia].
Qed.

(* ---------------------------------------------------------------------------------- *)
(* 2. closure of the raw operations of [Zp p]                                          *)
(* ---------------------------------------------------------------------------------- *)

Section Closed.
  Variable p : Z.
  Hypothesis Hp : 0 < p.

  Lemma Zp_closed_0 : in_Zp p (f0 (Zp p)).
  Proof. unfold in_Zp. cbn [f0 Zp]. lia. Qed.
  Lemma Zp_closed_1 : in_Zp p (f1 (Zp p)).
  Proof. unfold in_Zp. cbn [f1 Zp]. apply Z.mod_pos_bound; assumption. Qed.
  Lemma Zp_closed_add : forall a b, in_Zp p (fadd (Zp p) a b).
  Proof. intros. unfold in_Zp. cbn [fadd Zp]. apply Z.mod_pos_bound; assumption. Qed.
  Lemma Zp_closed_mul : forall a b, in_Zp p (fmul (Zp p) a b).
  Proof. intros. unfold in_Zp. cbn [fmul Zp]. apply Z.mod_pos_bound; assumption. Qed.
  Lemma Zp_closed_sub : forall a b, in_Zp p (fsub (Zp p) a b).
  Proof. intros. unfold in_Zp. cbn [fsub Zp]. apply Z.mod_pos_bound; assumption. Qed.
  Lemma Zp_closed_opp : forall a, in_Zp p (fopp (Zp p) a).
  Proof. intros. unfold in_Zp. cbn [fopp Zp]. apply Z.mod_pos_bound; assumption. Qed.
  Lemma Zp_closed_inv : forall a, in_Zp p (finv (Zp p) a).
  Proof. intros. unfold in_Zp. cbn [finv Zp]. apply zp_inv_range; assumption. Qed.
  Lemma Zp_closed_div : forall a b, in_Zp p (fdiv (Zp p) a b).
  Proof. intros. unfold in_Zp. cbn [fdiv Zp]. apply Z.mod_pos_bound; assumption. Qed.
End Closed.

(* ---------------------------------------------------------------------------------- *)
(* 3. the carrier of canonical representatives                                         *)
(* ---------------------------------------------------------------------------------- *)

Definition zp_canon (p x : Z) : bool := (x mod p =? x)%Z.
Definition ZpT (p : Z) : Type := { x : Z | zp_canon p x = true }.
Definition zp_val {p : Z} (a : ZpT p) : Z := proj1_sig a.

Lemma zp_canon_iff : forall p x, 0 < p -> zp_canon p x = true <-> in_Zp p x.
Proof.
  intros p x Hp. unfold zp_canon, in_Zp. rewrite Z.eqb_eq.
  rewrite Z.mod_small_iff by lia. lia.
Qed.

Lemma zp_canon_mod : forall p x, zp_canon p (x mod p) = true.
Proof. intros p x. unfold zp_canon. apply Z.eqb_eq. apply Zmod_mod. Qed.

Lemma zp_canon_0 : forall p, zp_canon p 0 = true.
Proof. intros p. unfold zp_canon. apply Z.eqb_eq. apply Zmod_0_l. Qed.

Lemma zp_canon_inv : forall p x, zp_canon p (zp_inv p x) = true.
Proof.
  intros p x. rewrite zp_inv_unfold.
  destruct (egcd (zp_fuel p) (x mod p) p) as [[g u] v].
  destruct (g =? 1); [apply zp_canon_mod | apply zp_canon_0].
Qed.

Theorem zpT_eq : forall p (a b : ZpT p), proj1_sig a = proj1_sig b -> a = b.
Proof.
  intros p [x Hx] [y Hy] H. cbn [proj1_sig] in H. subst y.
  f_equal. apply UIP_dec. apply bool_dec.
Qed.

Lemma zpT_eq_iff : forall p (a b : ZpT p), a = b <-> proj1_sig a = proj1_sig b.
Proof. intros p a b. split; [intros ->; reflexivity | apply zpT_eq]. Qed.

Lemma zpT_mod : forall p (a : ZpT p), proj1_sig a mod p = proj1_sig a.
Proof. intros p [x Hx]. cbn [proj1_sig]. apply Z.eqb_eq. exact Hx. Qed.

Lemma zpT_range : forall p (a : ZpT p), 0 < p -> in_Zp p (proj1_sig a).
Proof. intros p [x Hx] Hp. cbn [proj1_sig]. apply zp_canon_iff; assumption. Qed.

Definition zp_of (p : Z) (Hp : 0 < p) (x : Z) : ZpT p :=
  exist _ (x mod p) (zp_canon_mod p x).

Lemma zp_of_val : forall p Hp x, proj1_sig (zp_of p Hp x) = x mod p.
Proof. reflexivity. Qed.

Lemma zp_of_val_small : forall p Hp x, in_Zp p x -> proj1_sig (zp_of p Hp x) = x.
Proof. intros p Hp x Hx. cbn [zp_of proj1_sig]. apply Z.mod_small. exact Hx. Qed.

Lemma zp_of_proj : forall p Hp (a : ZpT p), zp_of p Hp (proj1_sig a) = a.
Proof. intros p Hp a. apply zpT_eq. cbn [zp_of proj1_sig]. apply zpT_mod. Qed.

(* ---------------------------------------------------------------------------------- *)
(* 4. the field structure on the carrier                                               *)
(* ---------------------------------------------------------------------------------- *)

Definition ZpS (p : Z) (Hp : 0 < p) : fops (ZpT p) := {|
  f0 := exist _ (f0 (Zp p)) (zp_canon_0 p);
  f1 := exist _ (f1 (Zp p)) (zp_canon_mod p 1);
  fadd := fun a b => exist _ (fadd (Zp p) (proj1_sig a) (proj1_sig b))
                             (zp_canon_mod p (proj1_sig a + proj1_sig b));
  fmul := fun a b => exist _ (fmul (Zp p) (proj1_sig a) (proj1_sig b))
                             (zp_canon_mod p (proj1_sig a * proj1_sig b));
  fsub := fun a b => exist _ (fsub (Zp p) (proj1_sig a) (proj1_sig b))
                             (zp_canon_mod p (proj1_sig a - proj1_sig b));
  fopp := fun a => exist _ (fopp (Zp p) (proj1_sig a)) (zp_canon_mod p (- proj1_sig a));
  finv := fun a => exist _ (finv (Zp p) (proj1_sig a)) (zp_canon_inv p (proj1_sig a));
  fdiv := fun a b => exist _ (fdiv (Zp p) (proj1_sig a) (proj1_sig b))
                             (zp_canon_mod p (proj1_sig a * zp_inv p (proj1_sig b)));
  feqb := fun a b => feqb (Zp p) (proj1_sig a) (proj1_sig b)
|}.

Section Proj.
  Variable p : Z.
  Variable Hp : 0 < p.
  Implicit Types a b : ZpT p.

  Lemma ZpS_proj_0 : proj1_sig (f0 (ZpS p Hp)) = f0 (Zp p).
  Proof. reflexivity. Qed.
  Lemma ZpS_proj_1 : proj1_sig (f1 (ZpS p Hp)) = f1 (Zp p).
  Proof. reflexivity. Qed.
  Lemma ZpS_proj_add : forall a b,
    proj1_sig (fadd (ZpS p Hp) a b) = fadd (Zp p) (proj1_sig a) (proj1_sig b).
  Proof. reflexivity. Qed.
  Lemma ZpS_proj_mul : forall a b,
    proj1_sig (fmul (ZpS p Hp) a b) = fmul (Zp p) (proj1_sig a) (proj1_sig b).
  Proof. reflexivity. Qed.
  Lemma ZpS_proj_sub : forall a b,
    proj1_sig (fsub (ZpS p Hp) a b) = fsub (Zp p) (proj1_sig a) (proj1_sig b).
  Proof. reflexivity. Qed.
  Lemma ZpS_proj_opp : forall a,
    proj1_sig (fopp (ZpS p Hp) a) = fopp (Zp p) (proj1_sig a).
  Proof. reflexivity. Qed.
  Lemma ZpS_proj_inv : forall a,
    proj1_sig (finv (ZpS p Hp) a) = finv (Zp p) (proj1_sig a).
  Proof. reflexivity. Qed.
  Lemma ZpS_proj_div : forall a b,
    proj1_sig (fdiv (ZpS p Hp) a b) = fdiv (Zp p) (proj1_sig a) (proj1_sig b).
  Proof. reflexivity. Qed.
  Lemma ZpS_proj_eqb : forall a b,
    feqb (ZpS p Hp) a b = feqb (Zp p) (proj1_sig a) (proj1_sig b).
  Proof. reflexivity. Qed.
  Lemma ZpS_proj_is0 : forall a,
    fis0 (ZpS p Hp) a = fis0 (Zp p) (proj1_sig a).
  Proof. reflexivity. Qed.

  (* [zp_of] is a ring homomorphism from Z *)
  Lemma zp_of_add : forall x y,
    zp_of p Hp (x + y) = fadd (ZpS p Hp) (zp_of p Hp x) (zp_of p Hp y).
  Proof. intros. apply zpT_eq. cbn [zp_of ZpS Zp fadd proj1_sig]. apply Zplus_mod. Qed.
  Lemma zp_of_mul : forall x y,
    zp_of p Hp (x * y) = fmul (ZpS p Hp) (zp_of p Hp x) (zp_of p Hp y).
  Proof. intros. apply zpT_eq. cbn [zp_of ZpS Zp fmul proj1_sig]. apply Zmult_mod. Qed.
  Lemma zp_of_sub : forall x y,
    zp_of p Hp (x - y) = fsub (ZpS p Hp) (zp_of p Hp x) (zp_of p Hp y).
  Proof. intros. apply zpT_eq. cbn [zp_of ZpS Zp fsub proj1_sig]. apply Zminus_mod. Qed.
  Lemma zp_of_opp : forall x,
    zp_of p Hp (- x) = fopp (ZpS p Hp) (zp_of p Hp x).
  Proof.
    intros. apply zpT_eq. cbn [zp_of ZpS Zp fopp proj1_sig].
    rewrite <- (Z.sub_0_l x), <- (Z.sub_0_l (x mod p)).
    rewrite Zminus_mod_idemp_r. reflexivity.
  Qed.
  Lemma zp_of_0 : zp_of p Hp 0 = f0 (ZpS p Hp).
  Proof. apply zpT_eq. cbn [zp_of ZpS Zp f0 proj1_sig]. apply Zmod_0_l. Qed.
  Lemma zp_of_1 : zp_of p Hp 1 = f1 (ZpS p Hp).
  Proof. apply zpT_eq. reflexivity. Qed.
End Proj.

(* ---------------------------------------------------------------------------------- *)
(* 5. the laws                                                                         *)
(* ---------------------------------------------------------------------------------- *)

Section Laws.
  Variable p : Z.
  Variable Hpos : 0 < p.
  Hypothesis Hp : prime p.
  Let K := ZpS p Hpos.

  Ltac zp_start :=
    intros; apply zpT_eq; cbn [K ZpS Zp f0 f1 fadd fmul fsub fopp finv fdiv proj1_sig].

  Lemma ZpS_ring : ring_theory (f0 K) (f1 K) (fadd K) (fmul K) (fsub K) (fopp K) (@eq (ZpT p)).
  Proof.
    constructor.
    - (* 0 + x = x *) intros x; zp_start. rewrite Z.add_0_l. apply zpT_mod.
    - (* comm *) intros x y; zp_start. f_equal; ring.
    - (* assoc *) intros x y z; zp_start.
      rewrite Zplus_mod_idemp_r, Zplus_mod_idemp_l. f_equal; ring.
    - (* 1 * x = x *) intros x; zp_start.
      rewrite Zmult_mod_idemp_l, Z.mul_1_l. apply zpT_mod.
    - (* comm *) intros x y; zp_start. f_equal; ring.
    - (* assoc *) intros x y z; zp_start.
      rewrite Zmult_mod_idemp_r, Zmult_mod_idemp_l. f_equal; ring.
    - (* distr *) intros x y z; zp_start.
      rewrite Zmult_mod_idemp_l, <- Zplus_mod. f_equal; ring.
    - (* sub *) intros x y; zp_start.
      rewrite Zplus_mod_idemp_r. f_equal; ring.
    - (* opp *) intros x; zp_start.
      rewrite Zplus_mod_idemp_r, Z.add_opp_diag_r. apply Zmod_0_l.
  Qed.

  Lemma ZpS_1_neq_0 : f1 K <> f0 K.
  Proof.
    intros H. apply (f_equal (@proj1_sig _ _)) in H.
    cbn [K ZpS Zp f0 f1 proj1_sig] in H.
    rewrite one_mod_prime in H by assumption. discriminate.
  Qed.

  Lemma ZpS_inv_l : forall x, x <> f0 K -> fmul K (finv K x) x = f1 K.
  Proof.
    intros x Hx. zp_start.
    rewrite Z.mul_comm, one_mod_prime by assumption.
    apply zp_inv_correct; [assumption|].
    pose proof (zpT_range p x Hpos) as Hr. unfold in_Zp in Hr.
    assert (proj1_sig x <> 0).
    { intros H0. apply Hx. apply zpT_eq. cbn [K ZpS Zp f0 proj1_sig]. exact H0. }
    lia.
  Qed.

  Lemma ZpS_field :
    field_theory (f0 K) (f1 K) (fadd K) (fmul K) (fsub K) (fopp K) (fdiv K) (finv K) (@eq (ZpT p)).
  Proof.
    constructor.
    - exact ZpS_ring.
    - exact ZpS_1_neq_0.
    - intros x y. zp_start. reflexivity.
    - exact ZpS_inv_l.
  Qed.

  Lemma ZpS_eqb : forall x y : ZpT p, feqb K x y = true <-> x = y.
  Proof.
    intros x y. cbn [K ZpS Zp feqb]. rewrite Z.eqb_eq. symmetry. apply zpT_eq_iff.
  Qed.

  Theorem ZpS_flaws_pos : flaws (ZpS p Hpos).
  Proof. constructor; [exact ZpS_field | exact ZpS_eqb]. Qed.
End Laws.

Theorem ZpS_flaws : forall p (Hp : prime p), flaws (ZpS p (prime_gt0 p Hp)).
Proof. intros p Hp. apply ZpS_flaws_pos. exact Hp. Qed.

(* ---------------------------------------------------------------------------------- *)
(* 6. the same laws for the raw model [Zp p], relativised to canonical inputs          *)
(* ---------------------------------------------------------------------------------- *)

Section Raw.
  Variable p : Z.
  Hypothesis Hp : prime p.
  Let Hpos : 0 < p := prime_gt0 p Hp.
  Let R := Zp p.

  Lemma Zp_raw_inv_l : forall a, in_Zp p a -> a <> 0 -> fmul R (finv R a) a = f1 R.
  Proof.
    intros a Ha Hne. cbn [R Zp fmul finv f1].
    rewrite Z.mul_comm, one_mod_prime by assumption.
    apply zp_inv_correct; [assumption|]. unfold in_Zp in Ha. lia.
  Qed.

  Lemma Zp_raw_inv_r : forall a, in_Zp p a -> a <> 0 -> fmul R a (finv R a) = f1 R.
  Proof.
    intros a Ha Hne. cbn [R Zp fmul finv f1].
    rewrite one_mod_prime by assumption.
    apply zp_inv_correct; [assumption|]. unfold in_Zp in Ha. lia.
  Qed.

  Lemma Zp_raw_div_def : forall a b, fdiv R a b = fmul R a (finv R b).
  Proof. reflexivity. Qed.

  Lemma Zp_raw_inv_0 : finv R 0 = 0.
  Proof. cbn [R Zp finv]. apply zp_inv_0. pose proof (prime_ge_2 p Hp). lia. Qed.

  Lemma Zp_raw_1 : f1 R = 1.
  Proof. cbn [R Zp f1]. apply one_mod_prime; assumption. Qed.

  Lemma Zp_raw_eqb : forall a b, feqb R a b = true <-> a = b.
  Proof. intros. cbn [R Zp feqb]. apply Z.eqb_eq. Qed.

  (* a raw computation equals the projection of the structured one *)
  Lemma Zp_raw_lift : forall a, in_Zp p a -> exists a' : ZpT p, proj1_sig a' = a.
  Proof. intros a Ha. exists (zp_of p Hpos a). apply zp_of_val_small. exact Ha. Qed.
End Raw.

(* ---------------------------------------------------------------------------------- *)
(* 7. non-vacuity                                                                      *)
(* ---------------------------------------------------------------------------------- *)

Lemma prime_7 : prime 7.
Proof.
  apply prime_alt. split; [lia|].
  intros n Hn [k Hk].
  assert (Hc : n = 2 \/ n = 3 \/ n = 4 \/ n = 5 \/ n = 6) by lia.
  destruct Hc as [-> | [-> | [-> | [-> | ->]]]]; lia.
Qed.

Example ZpS_7_flaws : flaws (ZpS 7 (prime_gt0 7 prime_7)).
Proof. exact (ZpS_flaws 7 prime_7). Qed.

Example ZpS_7_inv_3 :
  proj1_sig (finv (ZpS 7 (prime_gt0 7 prime_7)) (zp_of 7 (prime_gt0 7 prime_7) 3)) = 5.
Proof. vm_compute. reflexivity. Qed.

Print Assumptions ZpS_flaws.
Print Assumptions ZpS_7_flaws.
