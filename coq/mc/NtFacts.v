(* MathComp bridge for C16 (Paillier): Euler's theorem at p and p^2
   (solvable/cyclic.v, Euler_exp_totient) transported to Z / Znumtheory.prime. *)
Set Warnings "-notation-overridden,-ambiguous-paths".
From Coq Require Import ZArith Znumtheory Zpow_facts Lia.
From mathcomp Require Import all_ssreflect cyclic.
Set Implicit Arguments.
Unset Strict Implicit.
Unset Printing Implicit Defensive.

(* ---- nat: ssrnat operations are the stdlib ones ---------------------------------------- *)

Lemma modn_modulo (m d : nat) : (0 < d)%N -> modn m d = Nat.modulo m d.
Proof.
  move=> d0. apply: (@Nat.mod_unique m d (divn m d) (modn m d)).
  - apply/ltP. by rewrite ltn_pmod.
  - rewrite {1}(divn_eq m d). by rewrite mulnC.
Qed.

Lemma pow_expn (a n : nat) : Nat.pow a n = (a ^ n)%N.
Proof. elim: n => [|n IH] //=. by rewrite IH expnS. Qed.

Lemma euler_p2_nat (p a : nat) : prime p -> ~~ (p %| a) ->
  modn (a ^ (p * p.-1)) (p * p) = 1%N.
Proof.
  move=> pp npa.
  have cop : coprime a (p ^ 2) by rewrite coprime_pexpr // coprime_sym prime_coprime.
  have := Euler_exp_totient cop.
  rewrite totient_pfactor // expn1 -mulnn (mulnC p.-1).
  move=> ->. rewrite modn_small //. by rewrite -[1%N]/(1 * 1)%N ltn_mul // prime_gt1.
Qed.

Lemma fermat_nat (p a : nat) : prime p -> ~~ (p %| a) -> modn (a ^ p.-1) p = 1%N.
Proof.
  move=> pp npa.
  have cop : coprime a p by rewrite coprime_sym prime_coprime.
  have tp : totient p = p.-1 by rewrite -{1}(expn1 p) totient_pfactor // expn0 muln1.
  have := Euler_exp_totient cop. rewrite tp.
  move=> ->. by rewrite modn_small // prime_gt1.
Qed.

(* ---- Znumtheory.prime on Z.of_nat is ssreflect's prime --------------------------------- *)

Lemma Zprime_prime (n : nat) : Znumtheory.prime (Z.of_nat n) -> prime n.
Proof.
  move=> [n1 hrel]. have hp : Znumtheory.prime (Z.of_nat n) by split.
  apply/primeP; split; first by apply/ltP; lia.
  move=> d /dvdnP [k nk].
  have hd : (Z.of_nat d | Z.of_nat n)%Z.
    exists (Z.of_nat k). by rewrite nk Nat2Z.inj_mul.
  case: (prime_divisors _ hp _ hd) => [h|[h|[h|h]]].
  - lia.
  - have -> : d = 1%N by lia. by rewrite eqxx.
  - have -> : d = n by lia. by rewrite eqxx orbT.
  - lia.
Qed.

Lemma Zdvd_of_dvdn (d n : nat) : d %| n -> (Z.of_nat d | Z.of_nat n)%Z.
Proof. move=> /dvdnP [k ->]. exists (Z.of_nat k). by rewrite Nat2Z.inj_mul. Qed.

Lemma dvdn_of_Zdvd (d n : nat) : (Z.of_nat d | Z.of_nat n)%Z -> d %| n.
Proof.
  move=> [c hc]. apply/dvdnP. exists (Z.to_nat c).
  case: (Z_lt_le_dec c 0) => hc0.
  - have : (Z.of_nat n <= 0)%Z by rewrite hc; nia. move=> hn.
    have n0 : n = 0%N by lia. have : (c * Z.of_nat d = 0)%Z by lia.
    move=> /Z.mul_eq_0 [h|h]; first lia. have -> : d = 0%N by lia. by rewrite n0 muln0.
  - apply: Nat2Z.inj. by rewrite hc -[in LHS](Z2Nat.id c) // -Nat2Z.inj_mul.
Qed.

Lemma prime_Zprime (n : nat) : prime n -> Znumtheory.prime (Z.of_nat n).
Proof.
  move=> pn. have n1 : (1 < n)%N by apply: prime_gt1.
  apply (proj1 (prime_alt _)). split; first by move/ltP: n1; lia.
  move=> d [d1 dn] hd.
  have hd' : (Z.of_nat (Z.to_nat d) | Z.of_nat n)%Z by rewrite Z2Nat.id; [exact: hd | lia].
  move/dvdn_of_Zdvd: hd'. move/primeP: pn => [_ h] /h /orP [/eqP e|/eqP e]; lia.
Qed.

(* concrete primes for the non-vacuity example of props/C16.v *)
Lemma Zprime_1031 : Znumtheory.prime 1031%Z.
Proof. by apply: (prime_Zprime (n := 1031)). Qed.
Lemma Zprime_1049 : Znumtheory.prime 1049%Z.
Proof. by apply: (prime_Zprime (n := 1049)). Qed.

(* ---- Z statements ------------------------------------------------------------------------ *)

Local Open Scope Z_scope.

Lemma Zgcd_prime_ndiv (p a : Z) : Znumtheory.prime p -> Z.gcd a p = 1 -> ~ (p | a).
Proof.
  move=> pp g d. have p1 : 1 < p by case: pp.
  have : (p | Z.gcd a p) by apply: Z.gcd_greatest => //; exists 1; lia.
  rewrite g => /Z.divide_1_r_nonneg h. lia.
Qed.

Lemma Z_fermat_nonneg (p a : Z) : Znumtheory.prime p -> 0 <= a -> Z.gcd a p = 1 ->
  a ^ (p - 1) mod p = 1.
Proof.
  move=> pp a0 g. have p1 : 1 < p by case: pp.
  set P := Z.to_nat p. set A := Z.to_nat a.
  have hP : p = Z.of_nat P by rewrite /P Z2Nat.id; lia.
  have hA : a = Z.of_nat A by rewrite /A Z2Nat.id; lia.
  have ppn : prime P by apply: Zprime_prime; rewrite -hP.
  have nd : ~~ (P %| A)%N.
    apply/negP => /Zdvd_of_dvdn. rewrite -hP -hA. exact: Zgcd_prime_ndiv.
  have := fermat_nat ppn nd. rewrite modn_modulo; last by apply/ltP; lia.
  move=> h. have hp1 : p - 1 = Z.of_nat P.-1 by lia.
  by rewrite hp1 hA hP -Nat2Z.inj_pow -Nat2Z.inj_mod pow_expn h.
Qed.

Lemma Z_euler_p2_nonneg (p a : Z) : Znumtheory.prime p -> 0 <= a -> Z.gcd a p = 1 ->
  a ^ (p * (p - 1)) mod (p * p) = 1.
Proof.
  move=> pp a0 g. have p1 : 1 < p by case: pp.
  set P := Z.to_nat p. set A := Z.to_nat a.
  have hP : p = Z.of_nat P by rewrite /P Z2Nat.id; lia.
  have hA : a = Z.of_nat A by rewrite /A Z2Nat.id; lia.
  have ppn : prime P by apply: Zprime_prime; rewrite -hP.
  have nd : ~~ (P %| A)%N.
    apply/negP => /Zdvd_of_dvdn. rewrite -hP -hA. exact: Zgcd_prime_ndiv.
  have := euler_p2_nat ppn nd. rewrite modn_modulo; last first.
    apply/ltP. have : (0 < P)%coq_nat by lia. move=> /ltP P0. apply/ltP. by rewrite muln_gt0 P0.
  move=> h. have hp1 : p - 1 = Z.of_nat P.-1 by lia.
  by rewrite hp1 hA hP -!Nat2Z.inj_mul -Nat2Z.inj_pow -Nat2Z.inj_mod pow_expn h.
Qed.

Lemma Z_fermat : forall p a : Z, Znumtheory.prime p -> Z.gcd a p = 1 -> a ^ (p - 1) mod p = 1.
Proof.
  move=> p a pp g. have p1 : 1 < p by case: pp.
  rewrite Zpower_mod; last lia.
  apply: Z_fermat_nonneg => //.
  - by case: (Z.mod_pos_bound a p); lia.
  - by rewrite Z.gcd_mod; [rewrite Z.gcd_comm | lia].
Qed.

Lemma Z_euler_p2 : forall p a : Z, Znumtheory.prime p -> Z.gcd a p = 1 ->
  a ^ (p * (p - 1)) mod (p * p) = 1.
Proof.
  move=> p a pp g. have p1 : 1 < p by case: pp.
  rewrite Zpower_mod; last nia.
  apply: Z_euler_p2_nonneg => //.
  - by case: (Z.mod_pos_bound a (p * p)); nia.
  - rewrite Z.gcd_comm -Z.gcd_mod; last lia.
    have -> : (a mod (p * p)) mod p = a mod p.
      rewrite {1}(Z.mod_eq a (p * p)); last nia.
      have -> : a - p * p * (a / (p * p)) = a + (- (p * (a / (p * p)))) * p by ring.
      by rewrite Z_mod_plus_full.
    by rewrite Z.gcd_mod; [rewrite Z.gcd_comm | lia].
Qed.
