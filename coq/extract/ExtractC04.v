(* Extraction of the executable part of the C04 model: the classification table
   classify : protocol -> round -> broadcast? -> wire path -> class.
   Only the standard directives of ExtrOcamlBasic / ExtrOcamlZBigInt are used.
   Compiled with cwd = /verif/ocaml/c04 so that model.ml lands there. *)
From Coq Require Import Extraction ExtrOcamlBasic ExtrOcamlZBigInt.
Require Import V.model.Deviate.
Extraction Blacklist List String Nat.
Extraction "model.ml" classify fnv.
