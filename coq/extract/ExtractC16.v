(* Extraction of the executable C16 model (Paillier on Z, ElGamal in the exponent)
   for the correspondence check.  Only the standard directives of ExtrOcamlBasic /
   ExtrOcamlZBigInt are used.  Compiled with cwd = /verif/ocaml/c16. *)
From Coq Require Import Extraction ExtrOcamlBasic ExtrOcamlZBigInt.
Require Import V.model.Paillier V.model.ElGamal.
Extraction Blacklist List String Nat Z.
Extraction "model.ml"
  modexp modinv bitlen plaintext_from_nat plaintext_symmetric normalise pt_add pt_neg pt_scale
  representative noise cmul enc pk_representative_ring pk_enc_ring shift_ring pt_add_ring pt_scale_ring sk_enc_ring textbook cinv cscale shift rerandomise
  nonce_mul nonce_inv nonce_scale unit_from
  new_secret_key new_public_key precompute decrypt decrypt_checked open_ct sk_N
  sk_noise sk_cmul sk_enc sk_cscale sk_cinv sk_shift sk_rerandomise
  sk_nonce_mul sk_nonce_inv sk_nonce_scale
  eg_new_secret_key eg_public eg_new_public_key eg_representative eg_noise eg_sk_noise eg_op
  eg_enc eg_sk_enc eg_decrypt eg_inv eg_scale eg_shift eg_rerandomise eg_sk_rerandomise
  eg_pt_op eg_pt_inv eg_pt_scale eg_nonce_op eg_nonce_inv eg_nonce_scale.
