(* Extraction of the executable C15 models (ECDSA, Schnorr-like, BLS in the exponent)
   for the correspondence check.  Only the standard directives of ExtrOcamlBasic /
   ExtrOcamlZBigInt are used.  Compiled with cwd = /verif/ocaml/c15. *)
From Coq Require Import Extraction ExtrOcamlBasic ExtrOcamlZBigInt.
Require Import V.base.Fld V.model.Ecdsa V.model.Schnorr V.model.Bls.
Extraction Blacklist List String Nat.
Extraction "model.ml" ecdsa_sign ecdsa_verify recover normalise flip compute_recovery_id new_signature
  gen_sign gen_verify bip_sign bip_verify mina_sign mina_verify bip_verify_wire mina_verify_wire bip_batch_verify gen_batch_verify xo full
  bls_sign bls_verify aggregate_verify aggregate_signatures aggregate_sign_value pop_verify core_verify
  form_eqb fadd fscale fbasis fgen fsum.
