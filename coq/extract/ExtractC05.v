(* Extraction of the executable C05 model (VSS in the exponent over the C02 MSP models).
   Only the standard directives of ExtrOcamlBasic / ExtrOcamlZBigInt are used.
   Compiled with cwd = /verif/ocaml/c05. *)
From Coq Require Import Extraction ExtrOcamlBasic ExtrOcamlZBigInt.
Require Import V.base.Fld V.model.LinAlg V.model.Access V.model.Msp V.model.Kw V.model.Vss.
Extraction Blacklist List String Nat.
Extraction "model.ml" Zp thr_new una_new cnf_new hier_new gate_new induced msp_holders accepts
  new_vv vv_op feldman_verify base_shard_ok lifted_share recon_exp pedersen_verify.
