(* Extraction of the executable C13 model (point / scalar codecs) for the correspondence
   check.  Only the standard directives of ExtrOcamlBasic / ExtrOcamlZBigInt are used.
   Compiled with cwd = /verif/ocaml/c13 so that model.ml lands there. *)
From Coq Require Import Extraction ExtrOcamlBasic ExtrOcamlZBigInt.
Require Import V.base.Fld V.model.CurveParams V.model.Curve V.model.PointCodec.
Extraction Blacklist List String Nat.
Extraction "model.ml"
  k256_codec_f p256_codec_f pallas_codec_f vesta_codec_f blsg1_codec_f ed25519_codec_f curve25519_params_f blsg2_codec_f
  blsg2_dec_c blsg2_enc_c blsg2_dec_u blsg2_enc_u blsg2_from_affine gt_from_bytes gt_bytes gt_coeffs
  sec1_dec_c sec1_enc_c sec1_dec_u sec1_enc_u
  pasta_dec_c pasta_enc_c pasta_dec_u pasta_enc_u
  blsg1_dec_c blsg1_enc_c blsg1_dec_u blsg1_enc_u blsg1_from_affine blsg1_from_affine_x
  w_from_affine w_from_affine_x w_torsion_free
  ed_dec_c ed_enc_c ed_dec_u ed_enc_u ed_from_affine edp_dec_c edp_dec_u edp_from_affine e_torsion_free
  x_dec_c x_enc_c x_dec_u x_enc_u x_from_affine xp_dec_c xp_dec_u x_affine_u x_affine_v
  fld_from_bytes fld_from_wide fld_enc fld25519_from_bytes fld25519_from_wide
  wc_p ec_p euler m_to_ed m_of_ed.
