(* Extraction of the executable C20 model (linear algebra, polynomials, interpolation)
   for the correspondence check.  Only the standard directives of ExtrOcamlBasic /
   ExtrOcamlZBigInt are used.  Compiled with cwd = /verif/ocaml/c20 so that model.ml
   lands there.  The driver instantiates everything at [Zp p] (and the module-valued
   functions at [self_module (Zp p)]: a group element is represented by its exponent). *)
From Coq Require Import Extraction ExtrOcamlBasic ExtrOcamlZBigInt.
Require Import V.base.Fld V.model.LinAlg V.model.Poly V.model.Interp.
Extraction Blacklist List String Nat.
Extraction "model.ml"
  Zp zp_pow
  solve_augmented solve_right solve_left try_inv determinant try_mul mmul mvec vecm
  transpose augment col_vector identity dot minor set_column
  lift left_action right_action try_left_action try_right_action self_module
  peval pdegree pderiv lift_poly gpeval gpderiv
  basis_at lagrange_interpolate_at lagrange_interpolate_in_exponent_at
  build_vandermonde vandermonde_interpolate
  build_birkhoff phi birkhoff_interpolate birkhoff_interpolate_in_exponent
  wf_matrixb.
