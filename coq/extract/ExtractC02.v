(* Extraction of the executable C02 model (access structures, MSPs, KW and the dedicated
   schemes) for the correspondence check.  Only the standard directives of ExtrOcamlBasic /
   ExtrOcamlZBigInt are used.  Compiled with cwd = /verif/ocaml/c02. *)
From Coq Require Import Extraction ExtrOcamlBasic ExtrOcamlZBigInt.
Require Import V.base.Fld V.model.LinAlg V.model.Access V.model.Msp V.model.Kw V.model.Schemes.
Extraction Blacklist List String Nat.
Extraction "model.ml" Zp thr_new una_new cnf_new hier_new gate_new is_qualified shareholders
  induced msp_holders accepts recon_vector recon_coeffs deal reconstruct to_additive share_add share_scale
  shamir_deal shamir_reconstruct shamir_to_additive sum_to_secret additive_reconstruct
  isn_deal isn_reconstruct isn_to_additive tassa_deal tassa_reconstruct.
