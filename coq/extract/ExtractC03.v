(* Extraction of the executable C03 model (DKG protocols over an abstract linear sharing,
   instantiated at Z_q with the rows of a labelled matrix).  Only the standard directives
   of ExtrOcamlBasic / ExtrOcamlZBigInt.  Compiled with cwd = /verif/ocaml/c03. *)
From Coq Require Import Extraction ExtrOcamlBasic ExtrOcamlZBigInt.
Require Import V.base.Fld V.model.Dkg.
Extraction Blacklist List String Nat.
Extraction "model.ml"
  zq_gennaro_run zq_gennaro_msgs zq_canetti_run zq_dealer_run zq_secret_sum zq_recon zq_tamper sample.
