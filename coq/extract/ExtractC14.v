(* Extraction of the executable C14 model (affine curve groups, window scalar multiplication,
   bucket MSM, Z_p / F_p2 field operations) for the correspondence check.
   Only the standard directives of ExtrOcamlBasic / ExtrOcamlZBigInt are used.
   Compiled with cwd = /verif/ocaml/c14 so that model.ml lands there. *)
From Coq Require Import Extraction ExtrOcamlBasic ExtrOcamlZBigInt.
Require Import V.base.Fld V.model.CurveParams V.model.Curve V.model.ScalarMul V.model.C14Model.
Extraction Blacklist List String Nat.
Extraction "model.ml"
  k256_params p256_params pallas_params vesta_params bls12381g1_params bls12381g2_params
  ed25519_params curve25519_params
  w_add w_double w_neg w_sub w_mul w_msm w_eqb w_on_curve w_gen w_smw w_msm_code w_msm_buckets
  w2_add w2_double w2_neg w2_sub w2_mul w2_msm w2_eqb w2_on_curve w2_gen w2_smw w2_msm_code
  e_add e_double e_neg e_sub e_mul e_msm e_eqb e_on_curve e_gen e_smw e_msm_code e_is_zero
  m_add m_double m_neg m_mul m_on_curve m_of_ed m_to_ed m_gen m_smw
  zp_add zp_sub zp_mul zp_neg zp_inv_opt zp_sqrt zp_is_square zp_from_wide_be
  fp2_add fp2_sub fp2_mulz fp2_neg fp2_inv_opt.
