(* Extraction of the executable C01 models for the correspondence check.
   Only the standard directives of ExtrOcamlBasic / ExtrOcamlZBigInt are used.
   Compiled with cwd = /verif/ocaml/c01 so that model.ml lands there. *)
From Coq Require Import Extraction ExtrOcamlBasic ExtrOcamlZBigInt.
Require Import V.base.Fld V.base.Bytes V.model.SignDkls V.model.SignLindell22 V.model.SignBls V.model.SignLindell17 V.model.SignCggmp.
Extraction Blacklist List String Nat.
Extraction "model.ml" scalar_of_tape dkls_inputs_Z dkls_run_Z l22_inputs_Z l22_run_Z bls_run_Z l17_inputs_Z l17_run_Z cggmp_inputs_Z cggmp_run_Z.
