(* Extraction of the executable C09 model (OT extension, bf128, base OTs in the
   exponent, random VOLE) for the correspondence check.  Only the standard directives
   of ExtrOcamlBasic / ExtrOcamlZBigInt are used.  Compiled with cwd = /verif/ocaml/c09. *)
From Coq Require Import Extraction ExtrOcamlBasic ExtrOcamlZBigInt.
Require Import V.base.Bytes V.base.Fld V.model.Ot V.model.Vole.
Extraction Blacklist List String Nat.
Extraction "model.ml" Zp bf_mul bf128 emb128 bytes_of_bits bits_of_bytes run_extension verify_dots sel_pattern
  vsot_bigA vsot_recv_key vsot_send_keys popf_program popf_eval ec_recv ec_send
  bob_b ot_gamma alice_round3 bob_round4 bob_muprime alice_c bob_d alice_atilde.
