(* Extraction of the executable C10 model (session setup, contexts, zero shares) for
   the correspondence check.  Only the standard directives of ExtrOcamlBasic /
   ExtrOcamlZBigInt are used.  Compiled with cwd = /verif/ocaml/c10. *)
From Coq Require Import Extraction ExtrOcamlBasic ExtrOcamlZBigInt.
Require Import V.base.Bytes V.gen.Hagrid V.model.Transcript V.gen.SessionConsts V.model.Session V.model.Przs.
Extraction Blacklist List String Nat.
Extraction "model.ml" party_run new_context sub_context ctx_extract seed_read isort zq_zero_share zq_sum_shares ctx_zero_share.
