(* Extraction of the executable C12 model (CBOR codec + typed layer) for the correspondence
   check.  Only the standard directives of ExtrOcamlBasic / ExtrOcamlZBigInt are used.
   Compiled with cwd = /verif/ocaml/c12 so that model.ml lands there. *)
From Coq Require Import Extraction ExtrOcamlBasic ExtrOcamlZBigInt.
Require Import V.base.Bytes V.model.Cbor V.model.Schema.
Extraction Blacklist List String Nat.
Extraction "model.ml" encode decode canon within malformed_reason serde_limits classify decode_typed encode_typed.
