(* Extraction of the executable C06 model (linear sharing, HJKY zero sharing, redistribution
   rounds, history machine) for the correspondence check.  Only the standard directives of
   ExtrOcamlBasic / ExtrOcamlZBigInt are used.  Compiled with cwd = /verif/ocaml/c06. *)
From Coq Require Import Extraction ExtrOcamlBasic ExtrOcamlZBigInt.
Require Import V.base.Fld V.model.Zero V.model.Redist.
Extraction Blacklist List String Nat.
Extraction "model.ml" Zp scalar_of_read scalars_of_reads genesis_of_tape trace_history reconstruct
  mixed_recon share_in hjky_cols hjky_party reconstructs_b recon share_of verify
  round2 round3 r3_inbox rnd_of.
