(* Extraction of the executable C08 model (sigma protocols in the exponent, compilers
   as transcript operations) for the correspondence check.  Standard directives only.
   Compiled with cwd = /verif/ocaml/c08. *)
From Coq Require Import Extraction ExtrOcamlBasic ExtrOcamlZBigInt.
Require Import V.base.Bytes V.gen.Hagrid V.model.Transcript V.model.Sigma V.model.Compilers.
Extraction Blacklist List String Nat.
Extraction "model.ml" fs_challenge_call fs_accept fischlin_params fi_key_call fischlin_accept
  rf_crs_call randfischlin_accept
  lin_commit lin_respond lin_verify lin_simulate lin_extract lin_proto
  batch_respond batch_verify batch_simulate and2 andn_verify or_verify or_prove.
