(* Extraction of the executable C19 model for the correspondence check.
   Only the standard directives of ExtrOcamlBasic / ExtrOcamlZBigInt are used.
   Compiled with cwd = /verif/ocaml/c19 so that model.ml lands there. *)
From Coq Require Import Extraction ExtrOcamlBasic ExtrOcamlZBigInt.
Require Import V.base.Bytes V.gen.Hagrid V.model.Transcript V.model.H2c V.model.H2cMap.
Extraction Blacklist List String Nat.
Extraction "model.ml" crun new_transcript expand_message_xmd expand_message_xof hash_to_field_from_uniform
  hash_to_field ws_h2f ws_map ws_to_affine ws_hash_to_curve ws_encode_to_curve ws_on_curve ws_in_subgroup
  k256_suite p256_suite bls12381g1_suite pallas_suite vesta_suite
  ed_h2f ed_map ed_to_affine ed_hash_to_curve ed_on_curve ed_in_subgroup
  g2_h2f g2_map g2_to_affine g2_hash_to_curve g2_on_curve g2_in_subgroup
  ws_iso_identity g2_iso_identity.
