(* Extraction of the executable C19 model for the correspondence check.
   Only the standard directives of ExtrOcamlBasic / ExtrOcamlZBigInt are used.
   Compiled with cwd = /verif/ocaml/c19 so that model.ml lands there. *)
From Coq Require Import Extraction ExtrOcamlBasic ExtrOcamlZBigInt.
Require Import V.base.Bytes V.gen.Hagrid V.model.Transcript V.model.H2c.
Extraction Blacklist List String Nat.
Extraction "model.ml" crun new_transcript expand_message_xmd expand_message_xof hash_to_field_from_uniform.
