(* Extraction of the executable C07 model (samplers, tape layout, draw specifications,
   joint values) for the correspondence check.  Only the standard directives of
   ExtrOcamlBasic / ExtrOcamlZBigInt are used.  Compiled with cwd = /verif/ocaml/c07. *)
From Coq Require Import Extraction ExtrOcamlBasic ExtrOcamlZBigInt.
Require Import V.base.Bytes V.model.Draws.
Extraction Blacklist List String Nat.
Extraction "model.ml" wide_len sample_scalar party_values first_msg draws draws_rows total_len joint_sum joint_prod zero_share sid_term retry_site discarded_site.
