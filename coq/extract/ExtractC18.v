(* Extraction of the executable C18 model (commitments) for the correspondence check.
   Only the standard directives of ExtrOcamlBasic / ExtrOcamlZBigInt are used.
   Compiled with cwd = /verif/ocaml/c18 so that model.ml lands there. *)
From Coq Require Import Extraction ExtrOcamlBasic ExtrOcamlZBigInt.
Require Import V.base.Bytes V.gen.Hagrid V.gen.Hashcom V.model.Transcript V.model.Commit.
Extraction Blacklist List String Nat.
Extraction "model.ml" hashcom_hash_key hashcom_input hashcom_commit hashcom_open
  ped_new_key ped_std_key ped_commit ped_open ped_new_tkey ped_export ped_tcommit ped_equivocate
  int_commit int_open int_equivocate_ok int_witness_in_range
  eg_enc eg_open hrun ped_scheme int_scheme eg_scheme
  ped_key_eqb ped_tkey_eqb int_key_eqb int_tkey_eqb eg_key_eqb lf_eqb lf_norm bytes_eqb
  crun new_transcript extract_call.
