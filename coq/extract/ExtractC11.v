(* Extraction of the executable C11 model (router transition system, namespace
   prefixing, echo rounds) for the correspondence check.  Only the standard
   directives of ExtrOcamlBasic / ExtrOcamlZBigInt are used.
   Compiled with cwd = /verif/ocaml/c11 so that model.ml lands there. *)
From Coq Require Import Extraction ExtrOcamlBasic ExtrOcamlZBigInt.
Require Import V.base.Bytes V.gen.RouterConsts V.model.Router V.model.Echo.
Extraction Blacklist List String Nat.
Extraction "model.ml" init step run find_box recv_full send_full maxReceiveBufferSize notifyCapacity
  round1 round2 round3.
