(* Extraction of the executable C17 model (number theory) for the correspondence
   check.  Only the standard directives of ExtrOcamlBasic / ExtrOcamlZBigInt.
   Compiled with cwd = /verif/ocaml/c17 so that model.ml lands there. *)
From Coq Require Import Extraction ExtrOcamlBasic ExtrOcamlZBigInt.
Require Import V.base.Bytes V.model.NumTheory.
Extraction Blacklist List String Nat.
Extraction "model.ml" opcode table eval.
