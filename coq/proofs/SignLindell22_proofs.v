(* SignLindell22_proofs.v — proofs about model/SignLindell22.v (Lindell22 threshold Schnorr in
   the exponent, flavours Vanilla / BIP-340 / Mina) over an arbitrary field (flaws K):
     - the partial responses sum to the single-party response for the corrected key and nonce,
     - the non-cosigning aggregator returns the closed-form signature and it verifies,
     - the cosigning aggregator returns the same signature (it parity-corrects the aggregate
       nonce commitment as well; without that correction Mina with an odd R is rejected),
     - all parties compute the same challenge; both aggregators return the same signature. *)
From Coq Require Import List Arith Bool Lia Field Ring ZArith.
Import ListNotations.
Require Import V.base.Fld V.model.SignLindell22.

Section L22Proofs.
Context {F : Type} (K : fops F) (HK : flaws K) {M : Type}.
Variable odd : F -> bool.
Variable xo : F -> F.
Variable chal : F -> F -> M -> F.
Hypothesis odd_neg : forall k, k <> f0 K -> odd (fopp K k) = negb (odd k).
Hypothesis xo_neg : forall k, xo (fopp K k) = xo k.

Add Field Kfield_l22 : (fl_theory K HK).

Local Infix "+" := (fadd K).
Local Infix "*" := (fmul K).
Local Infix "-" := (fsub K).

(* the condition under which no step of the honest run returns an error *)
Definition guard (fl : flavour) (inp : inputs) (m : M) (x : F) : Prop :=
  big_r K inp <> f0 K /\ x <> f0 K /\
  (forall i, (i < in_n inp)%nat -> eff_share K inp i <> f0 K) /\
  expected_s K odd xo chal fl inp m x <> f0 K.

(* ---- field facts -------------------------------------------------------------------- *)

Lemma feqb_refl : forall x, feqb K x x = true.
Proof. intros x. apply (fl_eqb K HK). reflexivity. Qed.

Lemma feqb_false : forall x y, x <> y -> feqb K x y = false.
Proof.
  intros x y H. destruct (feqb K x y) eqn:E; [|reflexivity].
  apply (fl_eqb K HK) in E. contradiction.
Qed.

Lemma fis0_false : forall x, x <> f0 K -> fis0 K x = false.
Proof. intros x H. unfold fis0. apply feqb_false. exact H. Qed.

Lemma fopp_nz : forall a, a <> f0 K -> fopp K a <> f0 K.
Proof.
  intros a Ha H. apply Ha.
  assert (E : a = fopp K (fopp K a)) by ring.
  rewrite E, H. ring.
Qed.

(* ---- sum_over ----------------------------------------------------------------------- *)

Lemma sum_over_nil : forall f, sum_over K [] f = f0 K.
Proof. reflexivity. Qed.

Lemma sum_over_cons : forall a l f, sum_over K (a :: l) f = f a + sum_over K l f.
Proof. reflexivity. Qed.

Lemma sum_over_ext : forall l f g,
  (forall i, In i l -> f i = g i) -> sum_over K l f = sum_over K l g.
Proof.
  induction l as [|a l IH]; intros f g H; [reflexivity|].
  rewrite !sum_over_cons. rewrite (H a (or_introl eq_refl)). f_equal.
  apply IH. intros i Hi. apply H. right. exact Hi.
Qed.

Lemma sum_over_add : forall l f g,
  sum_over K l (fun i => f i + g i) = sum_over K l f + sum_over K l g.
Proof.
  induction l as [|a l IH]; intros f g.
  - rewrite !sum_over_nil. ring.
  - rewrite !sum_over_cons, IH. ring.
Qed.

Lemma sum_over_opp : forall l f,
  sum_over K l (fun i => fopp K (f i)) = fopp K (sum_over K l f).
Proof.
  induction l as [|a l IH]; intros f.
  - rewrite !sum_over_nil. ring.
  - rewrite !sum_over_cons, IH. ring.
Qed.

Lemma in_parties : forall n i, In i (parties n) <-> (i < n)%nat.
Proof. intros n i. unfold parties. rewrite in_seq. split; [intros [_ H]; exact H|]. intros H. split; [apply Nat.le_0_l|exact H]. Qed.

(* ---- linearity of the parity corrections and of the response ------------------------ *)

Lemma correct_share_sum : forall fl x l f,
  sum_over K l (fun i => correct_share K odd fl x (f i)) = correct_share K odd fl x (sum_over K l f).
Proof.
  intros fl x l f. destruct fl as [neg| |]; cbn [correct_share]; try reflexivity.
  destruct (odd x); [apply sum_over_opp|reflexivity].
Qed.

Lemma correct_nonce_sum : forall fl r l f,
  sum_over K l (fun i => correct_nonce K odd fl r (f i)) = correct_nonce K odd fl r (sum_over K l f).
Proof.
  intros fl r l f. destruct fl as [neg| |]; cbn [correct_nonce]; try reflexivity;
    (destruct (odd r); [apply sum_over_opp|reflexivity]).
Qed.

Lemma response_sum : forall fl e l (f g : nat -> F),
  sum_over K l (fun i => response K fl (f i) (g i) e) =
  response K fl (sum_over K l f) (sum_over K l g) e.
Proof.
  intros fl e l f g. induction l as [|a l IH].
  - rewrite !sum_over_nil. destruct fl as [[|]| |]; cbn [response]; ring.
  - rewrite !sum_over_cons, IH. destruct fl as [[|]| |]; cbn [response]; ring.
Qed.

Lemma sum_eff_share : forall inp x,
  sum_over K (parties (in_n inp)) (in_a inp) = x ->
  sum_over K (parties (in_n inp)) (in_z inp) = f0 K ->
  sum_over K (parties (in_n inp)) (eff_share K inp) = x.
Proof.
  intros inp x Ha Hz. unfold eff_share. rewrite sum_over_add, Ha, Hz. ring.
Qed.

Lemma sum_responses : forall fl inp x e,
  sum_over K (parties (in_n inp)) (in_a inp) = x ->
  sum_over K (parties (in_n inp)) (in_z inp) = f0 K ->
  sum_over K (parties (in_n inp))
    (fun i => response K fl (correct_share K odd fl x (eff_share K inp i))
                            (correct_nonce K odd fl (big_r K inp) (in_k inp i)) e) =
  response K fl (correct_share K odd fl x x)
                (correct_nonce K odd fl (big_r K inp) (big_r K inp)) e.
Proof.
  intros fl inp x e Ha Hz.
  rewrite (response_sum fl e (parties (in_n inp))
             (fun i => correct_share K odd fl x (eff_share K inp i))
             (fun i => correct_nonce K odd fl (big_r K inp) (in_k inp i))).
  rewrite correct_share_sum, correct_nonce_sum.
  rewrite (sum_eff_share inp x Ha Hz). reflexivity.
Qed.

(* ---- the closed forms --------------------------------------------------------------- *)

Lemma correct_nonce_nz : forall fl r k, k <> f0 K -> correct_nonce K odd fl r k <> f0 K.
Proof.
  intros fl r k Hk. destruct fl as [neg| |]; cbn [correct_nonce]; try exact Hk;
    (destruct (odd r); [apply fopp_nz; exact Hk|exact Hk]).
Qed.

Lemma expected_r_nz : forall fl inp, big_r K inp <> f0 K -> expected_r K odd fl inp <> f0 K.
Proof. intros fl inp HR. unfold expected_r. apply correct_nonce_nz. exact HR. Qed.

Lemma enc_r_correct_nonce : forall fl r, enc_r xo fl (correct_nonce K odd fl r r) = enc_r xo fl r.
Proof.
  intros fl r. destruct fl as [neg| |]; cbn [enc_r correct_nonce]; try reflexivity;
    (destruct (odd r); [apply xo_neg|reflexivity]).
Qed.

Lemma challenge_expected_r : forall fl inp x m,
  challenge xo chal fl (expected_r K odd fl inp) x m = challenge xo chal fl (big_r K inp) x m.
Proof.
  intros fl inp x m. unfold challenge, expected_r. rewrite enc_r_correct_nonce. reflexivity.
Qed.

Lemma odd_correct_nonce : forall fl r, (forall neg, fl <> Vanilla neg) -> r <> f0 K ->
  odd (correct_nonce K odd fl r r) = false.
Proof.
  intros fl r Hfl Hr. destruct fl as [neg| |]; [exfalso; apply (Hfl neg); reflexivity| |];
    cbn [correct_nonce]; (destruct (odd r) eqn:E; [rewrite (odd_neg r Hr), E; reflexivity|exact E]).
Qed.

(* the partial signature party i outputs in the honest run *)
Definition psig_of (fl : flavour) (inp : inputs) (m : M) (x : F) (i : nat) : F * F * F :=
  (challenge xo chal fl (big_r K inp) x m,
   correct_nonce K odd fl (big_r K inp) (in_k inp i),
   response K fl (correct_share K odd fl x (eff_share K inp i))
                 (correct_nonce K odd fl (big_r K inp) (in_k inp i))
                 (challenge xo chal fl (big_r K inp) x m)).

Lemma existsb_false : forall {A} (f : A -> bool) l,
  (forall i, In i l -> f i = false) -> existsb f l = false.
Proof.
  intros A f l. induction l as [|a l IH]; intros H; [reflexivity|].
  cbn [existsb]. rewrite (H a (or_introl eq_refl)), IH; [reflexivity|].
  intros i Hi. apply H. right. exact Hi.
Qed.

Lemma round3_ok : forall fl inp m x i, guard fl inp m x ->
  round3 K odd xo chal fl inp m x i = Some (psig_of fl inp m x i).
Proof.
  intros fl inp m x i (HR & Hx & Heff & _). unfold round3. cbv zeta.
  assert (E1 : existsb (fun j => fis0 K (eff_share K inp j)) (parties (in_n inp)) = false).
  { apply existsb_false. intros j Hj. apply in_parties in Hj. apply fis0_false, Heff, Hj. }
  rewrite E1, (fis0_false _ HR), andb_false_r.
  destruct fl as [neg| |]; try reflexivity.
  rewrite (fis0_false _ Hx). reflexivity.
Qed.

Lemma round3_some_inv : forall fl inp m x i p,
  round3 K odd xo chal fl inp m x i = Some p -> p = psig_of fl inp m x i.
Proof.
  intros fl inp m x i p H. unfold round3 in H. cbv zeta in H.
  destruct (existsb (fun j => fis0 K (eff_share K inp j)) (parties (in_n inp))); [discriminate|].
  destruct ((match fl with Vanilla _ => false | _ => true end) && fis0 K (big_r K inp));
    [discriminate|].
  destruct (match fl with Bip340 => fis0 K x | _ => false end); [discriminate|].
  injection H as <-. reflexivity.
Qed.

(* ---- all_some ----------------------------------------------------------------------- *)

Lemma all_some_map : forall {A} (f : nat -> option A) (g : nat -> A) l,
  (forall i, In i l -> f i = Some (g i)) -> all_some (map f l) = Some (map g l).
Proof.
  intros A f g l. induction l as [|a l IH]; intros H; [reflexivity|].
  cbn [map all_some]. rewrite (H a (or_introl eq_refl)).
  rewrite IH by (intros i Hi; apply H; right; exact Hi). reflexivity.
Qed.

Lemma all_some_map_inv : forall {A} (f : nat -> option A) (g : nat -> A) l ps,
  all_some (map f l) = Some ps ->
  (forall i p, In i l -> f i = Some p -> p = g i) -> ps = map g l.
Proof.
  intros A f g l. induction l as [|a l IH]; intros ps H Hg.
  - cbn [map all_some] in H. injection H as <-. reflexivity.
  - cbn [map all_some] in H. destruct (f a) as [pa|] eqn:Ea; [|discriminate].
    destruct (all_some (map f l)) as [t|] eqn:Et; [|discriminate].
    injection H as <-. cbn [map]. f_equal.
    + apply Hg; [left; reflexivity|exact Ea].
    + apply IH; [reflexivity|]. intros i p Hi. apply Hg. right. exact Hi.
Qed.

(* ---- aggregation -------------------------------------------------------------------- *)

Lemma fold_s_map : forall (g : nat -> F * F * F) l,
  fold_right (fun p acc => snd p + acc) (f0 K) (map g l) = sum_over K l (fun i => snd (g i)).
Proof.
  intros g l. induction l as [|a l IH]; [reflexivity|].
  cbn [map fold_right]. rewrite IH. reflexivity.
Qed.

Lemma fold_r_map : forall (g : nat -> F * F * F) l,
  fold_right (fun p acc => snd (fst p) + acc) (f0 K) (map g l) =
  sum_over K l (fun i => snd (fst (g i))).
Proof.
  intros g l. induction l as [|a l IH]; [reflexivity|].
  cbn [map fold_right]. rewrite IH. reflexivity.
Qed.

Lemma fold_s_psig : forall fl inp m x,
  sum_over K (parties (in_n inp)) (in_a inp) = x ->
  sum_over K (parties (in_n inp)) (in_z inp) = f0 K ->
  fold_right (fun p acc => snd p + acc) (f0 K) (map (psig_of fl inp m x) (parties (in_n inp))) =
  expected_s K odd xo chal fl inp m x.
Proof.
  intros fl inp m x Ha Hz. rewrite fold_s_map. unfold psig_of. cbn [snd].
  rewrite (sum_responses fl inp x _ Ha Hz). reflexivity.
Qed.

Lemma fold_r_psig : forall fl inp m x,
  fold_right (fun p acc => snd (fst p) + acc) (f0 K)
    (map (psig_of fl inp m x) (parties (in_n inp))) = expected_r K odd fl inp.
Proof.
  intros fl inp m x. rewrite fold_r_map. unfold psig_of. cbn [fst snd].
  rewrite correct_nonce_sum. reflexivity.
Qed.

Lemma forallb_fst_psig : forall fl inp m x l,
  forallb (fun p : F * F * F => feqb K (fst (fst p)) (challenge xo chal fl (big_r K inp) x m))
          (map (psig_of fl inp m x) l) = true.
Proof.
  intros fl inp m x l. apply forallb_forall. intros p Hp. apply in_map_iff in Hp.
  destruct Hp as (i & <- & _). apply feqb_refl.
Qed.

(* anything the aggregator returns has this shape and passed the verifier *)
Lemma aggregate_some_inv : forall fl cos inp m x ps sg,
  aggregate K odd xo chal fl cos inp m x ps = Some sg ->
  let r := if cos then expected_r K odd fl inp
           else fold_right (fun p acc => snd (fst p) + acc) (f0 K) ps in
  let s := fold_right (fun p acc => snd p + acc) (f0 K) ps in
  sg = (challenge xo chal fl r x m, r, s) /\ verify K odd xo chal fl x m sg = true.
Proof.
  intros fl cos inp m x ps sg H. unfold aggregate in H. cbv zeta in H. cbv zeta.
  match type of H with (if ?c then None else _) = _ => destruct c; [discriminate|] end.
  match type of H with (if ?c then None else _) = _ => destruct c; [discriminate|] end.
  match type of H with (if ?c then None else _) = _ => destruct c; [discriminate|] end.
  match type of H with (if ?c then None else _) = _ => destruct c; [discriminate|] end.
  match type of H with (if ?c then _ else None) = _ => destruct c eqn:Ev; [|discriminate] end.
  injection H as <-. split; [reflexivity|exact Ev].
Qed.

(* ---- the verifiers accept the closed form ------------------------------------------- *)

Lemma xo_lift : forall x, xo (if odd x then fopp K x else x) = xo x.
Proof. intros x. destruct (odd x); [apply xo_neg|reflexivity]. Qed.

Lemma verify_expected_r : forall fl inp m x e0, guard fl inp m x ->
  verify K odd xo chal fl x m
    (e0, expected_r K odd fl inp, expected_s K odd xo chal fl inp m x) = true.
Proof.
  intros fl inp m x e0 (HR & Hx & _ & Hs).
  pose proof (expected_r_nz fl inp HR) as Hr.
  destruct fl as [neg| |].
  - unfold verify, verify_generic.
    rewrite (fis0_false _ Hx), (fis0_false _ Hs), (fis0_false _ Hr), challenge_expected_r.
    cbn [negb andb]. apply (fl_eqb K HK).
    unfold expected_s, expected_r. cbn [correct_share correct_nonce response].
    destruct neg; reflexivity.
  - unfold verify, verify_bip340.
    set (d := if odd x then fopp K x else x).
    set (e := challenge xo chal Bip340 (big_r K inp) x m).
    assert (Ee : challenge xo chal Bip340 (expected_r K odd Bip340 inp) d m = e).
    { unfold e. rewrite <- (challenge_expected_r Bip340 inp x m).
      unfold challenge. cbn [enc_r enc_p]. unfold d. rewrite xo_lift. reflexivity. }
    assert (Er : expected_s K odd xo chal Bip340 inp m x - e * d = expected_r K odd Bip340 inp).
    { unfold expected_s. cbn [response correct_share]. fold e. fold d. ring. }
    cbv zeta. rewrite Ee, Er.
    rewrite (fis0_false _ Hx), (fis0_false _ Hs), (fis0_false _ Hr).
    unfold expected_r. rewrite (odd_correct_nonce Bip340 (big_r K inp)) by (try discriminate; exact HR).
    rewrite feqb_refl. reflexivity.
  - unfold verify, verify_generic.
    rewrite (fis0_false _ Hx), (fis0_false _ Hs), (fis0_false _ Hr), challenge_expected_r.
    cbn [negb andb]. apply (fl_eqb K HK).
    unfold expected_s. cbn [correct_share response]. reflexivity.
Qed.

(* the uncorrected aggregate R is accepted too, unless the flavour is Mina and R is odd *)
Lemma verify_big_r : forall fl inp m x e0, guard fl inp m x ->
  (fl = Mina -> odd (big_r K inp) = false) ->
  verify K odd xo chal fl x m (e0, big_r K inp, expected_s K odd xo chal fl inp m x) = true.
Proof.
  intros fl inp m x e0 Hg Hmina. destruct fl as [neg| |].
  - exact (verify_expected_r (Vanilla neg) inp m x e0 Hg).
  - destruct Hg as (HR & Hx & _ & Hs).
    pose proof (expected_r_nz Bip340 inp HR) as Hr.
    unfold verify, verify_bip340.
    set (d := if odd x then fopp K x else x).
    set (e := challenge xo chal Bip340 (big_r K inp) x m).
    assert (Ee : challenge xo chal Bip340 (big_r K inp) d m = e).
    { unfold e, challenge. cbn [enc_r enc_p]. unfold d. rewrite xo_lift. reflexivity. }
    assert (Er : expected_s K odd xo chal Bip340 inp m x - e * d = expected_r K odd Bip340 inp).
    { unfold expected_s. cbn [response correct_share]. fold e. fold d. ring. }
    cbv zeta. rewrite Ee, Er.
    rewrite (fis0_false _ Hx), (fis0_false _ Hs), (fis0_false _ Hr), (fis0_false _ HR).
    unfold expected_r. rewrite (odd_correct_nonce Bip340 (big_r K inp)) by (try discriminate; exact HR).
    pose proof (enc_r_correct_nonce Bip340 (big_r K inp)) as Hx'. cbn [enc_r] in Hx'.
    rewrite Hx', feqb_refl. reflexivity.
  - pose proof (verify_expected_r Mina inp m x e0 Hg) as Hv.
    assert (E : expected_r K odd Mina inp = big_r K inp).
    { unfold expected_r. cbn [correct_nonce]. rewrite (Hmina eq_refl). reflexivity. }
    rewrite E in Hv. exact Hv.
Qed.

(* ---- the honest run, non-cosigning aggregator --------------------------------------- *)

Theorem lindell22_signature_valid : forall fl inp m x,
  sum_over K (parties (in_n inp)) (in_a inp) = x      (* C02 to_additive_sums *) ->
  sum_over K (parties (in_n inp)) (in_z inp) = f0 K   (* hjky zero sharing *) ->
  guard fl inp m x ->
  let sg := (challenge xo chal fl (big_r K inp) x m, expected_r K odd fl inp,
             expected_s K odd xo chal fl inp m x) in
  sign K odd xo chal fl false inp m x = Some sg /\ verify K odd xo chal fl x m sg = true.
Proof.
  intros fl inp m x Ha Hz Hg sg.
  pose proof (verify_expected_r fl inp m x (challenge xo chal fl (big_r K inp) x m) Hg) as Hv.
  split; [|exact Hv].
  pose proof Hg as (HR & Hx & _ & Hs).
  unfold sign. unfold psig.
  rewrite (all_some_map _ (psig_of fl inp m x) _ (fun i _ => round3_ok fl inp m x i Hg)).
  unfold aggregate. unfold psig. cbn [andb]. cbv zeta.
  rewrite fold_r_psig, (fold_s_psig fl inp m x Ha Hz), challenge_expected_r.
  rewrite (fis0_false _ (expected_r_nz fl inp HR)), andb_false_r.
  rewrite forallb_fst_psig. cbn [negb].
  rewrite (fis0_false _ Hs), Hv. reflexivity.
Qed.

(* ---- the cosigning aggregator -------------------------------------------------------- *)

Lemma combine_map_self : forall {A} (g : nat -> A) l,
  combine l (map g l) = map (fun i => (i, g i)) l.
Proof.
  intros A g l. induction l as [|a l IH]; [reflexivity|]. cbn [map combine]. rewrite IH. reflexivity.
Qed.

Lemma psig_ok_all : forall fl inp m x,
  (forall i, (i < in_n inp)%nat -> eff_share K inp i <> f0 K) ->
  (forall i, (i < in_n inp)%nat ->
     in_k inp i <> f0 K /\
     response K fl (correct_share K odd fl x (eff_share K inp i))
                   (correct_nonce K odd fl (big_r K inp) (in_k inp i))
                   (challenge xo chal fl (big_r K inp) x m) <> f0 K) ->
  forallb (fun ip : nat * (F * F * F) => psig_ok K odd fl inp x (fst ip) (snd ip))
          (combine (parties (in_n inp)) (map (psig_of fl inp m x) (parties (in_n inp)))) = true.
Proof.
  intros fl inp m x Heff Hks. rewrite combine_map_self.
  apply forallb_forall. intros ip Hip. apply in_map_iff in Hip. destruct Hip as (i & <- & Hi).
  apply in_parties in Hi. destruct (Hks i Hi) as [Hk Hresp].
  cbn [fst snd]. unfold psig_ok, psig_of.
  rewrite !feqb_refl, (fis0_false _ (Heff i Hi)), (fis0_false _ Hresp).
  rewrite (fis0_false _ (correct_nonce_nz fl (big_r K inp) _ Hk)). reflexivity.
Qed.

Theorem lindell22_cosigning_valid : forall fl inp m x,
  sum_over K (parties (in_n inp)) (in_a inp) = x ->
  sum_over K (parties (in_n inp)) (in_z inp) = f0 K ->
  guard fl inp m x ->
  (forall i, (i < in_n inp)%nat ->
     in_k inp i <> f0 K /\
     response K fl (correct_share K odd fl x (eff_share K inp i))
                   (correct_nonce K odd fl (big_r K inp) (in_k inp i))
                   (challenge xo chal fl (big_r K inp) x m) <> f0 K) ->
  let sg := (challenge xo chal fl (big_r K inp) x m, expected_r K odd fl inp,
             expected_s K odd xo chal fl inp m x) in
  sign K odd xo chal fl true inp m x = Some sg /\ verify K odd xo chal fl x m sg = true.
Proof.
  intros fl inp m x Ha Hz Hg Hks sg.
  pose proof (verify_expected_r fl inp m x (challenge xo chal fl (big_r K inp) x m) Hg) as Hv.
  split; [|exact Hv].
  pose proof Hg as (HR & Hx & Heff & Hs).
  unfold sign. unfold psig.
  rewrite (all_some_map _ (psig_of fl inp m x) _ (fun i _ => round3_ok fl inp m x i Hg)).
  unfold aggregate. unfold psig.
  rewrite (psig_ok_all fl inp m x Heff Hks). cbn [andb negb]. cbv zeta.
  change (correct_nonce K odd fl (big_r K inp) (big_r K inp)) with (expected_r K odd fl inp).
  rewrite (fold_s_psig fl inp m x Ha Hz), challenge_expected_r.
  rewrite (fis0_false _ (expected_r_nz fl inp HR)), andb_false_r.
  rewrite forallb_fst_psig. cbn [negb].
  rewrite (fis0_false _ Hs), Hv. reflexivity.
Qed.

(* why the aggregate R has to be parity-corrected by the cosigning aggregator too (it was not
   before fix 087e5ff): for Mina with an odd aggregate nonce commitment the responses use the
   negated nonces, and the signature with the uncorrected R is rejected *)
Theorem lindell22_mina_uncorrected_R_rejected : forall inp m x,
  odd (big_r K inp) = true ->
  fadd K (big_r K inp) (big_r K inp) <> f0 K ->
  verify K odd xo chal Mina x m
    (challenge xo chal Mina (big_r K inp) x m, big_r K inp,
     expected_s K odd xo chal Mina inp m x) = false.
Proof.
  intros inp m x Hodd H2. unfold verify, verify_generic.
  assert (E : feqb K (expected_s K odd xo chal Mina inp m x)
                (big_r K inp + challenge xo chal Mina (big_r K inp) x m * x) = false).
  { apply feqb_false. intros Hv.
    unfold expected_s, expected_r in Hv. cbn [response correct_share correct_nonce] in Hv.
    rewrite Hodd in Hv.
    set (R := big_r K inp) in *. set (e := challenge xo chal Mina R x m) in *.
    apply H2.
    assert (E : R + R = (R + e * x) - (fopp K R + e * x)) by ring.
    rewrite E, <- Hv. ring. }
  rewrite E. apply andb_false_r.
Qed.

(* ---- agreement ---------------------------------------------------------------------- *)

Lemma all_round3_inv : forall fl inp m x ps,
  all_some (map (round3 K odd xo chal fl inp m x) (parties (in_n inp))) = Some ps ->
  ps = map (psig_of fl inp m x) (parties (in_n inp)).
Proof.
  intros fl inp m x ps H. apply (all_some_map_inv _ _ _ _ H).
  intros i p _ Hp. apply (round3_some_inv fl inp m x i p Hp).
Qed.

Theorem lindell22_all_parties_agree : forall fl inp m x ps,
  all_some (map (round3 K odd xo chal fl inp m x) (parties (in_n inp))) = Some ps ->
  forall p, In p ps -> fst (fst p) = challenge xo chal fl (big_r K inp) x m.
Proof.
  intros fl inp m x ps H p Hp. apply all_round3_inv in H. subst ps.
  apply in_map_iff in Hp. destruct Hp as (i & <- & _). reflexivity.
Qed.

(* both aggregators output the identical triple *)
Theorem lindell22_aggregators_agree : forall fl inp m x sg1 sg2,
  sign K odd xo chal fl false inp m x = Some sg1 ->
  sign K odd xo chal fl true inp m x = Some sg2 ->
  sg1 = sg2.
Proof.
  intros fl inp m x sg1 sg2 H1 H2. unfold sign in H1, H2.
  destruct (all_some (map (round3 K odd xo chal fl inp m x) (parties (in_n inp)))) as [ps|] eqn:E;
    [|discriminate].
  apply all_round3_inv in E. subst ps.
  apply aggregate_some_inv in H1. apply aggregate_some_inv in H2. cbv zeta in H1, H2.
  destruct H1 as [-> _]. destruct H2 as [-> _].
  rewrite fold_r_psig. reflexivity.
Qed.

Corollary lindell22_aggregators_agree_wire : forall fl inp m x sg1 sg2,
  sign K odd xo chal fl false inp m x = Some sg1 ->
  sign K odd xo chal fl true inp m x = Some sg2 ->
  wire xo fl sg1 = wire xo fl sg2.
Proof.
  intros fl inp m x sg1 sg2 H1 H2.
  rewrite (lindell22_aggregators_agree fl inp m x sg1 sg2 H1 H2). reflexivity.
Qed.

End L22Proofs.
