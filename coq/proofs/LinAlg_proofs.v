(* LinAlg_proofs.v — lemmas about model/LinAlg.v over an arbitrary field (flaws K). *)
From Coq Require Import List Arith Bool Lia Field Ring.
Import ListNotations.
Require Import V.base.Fld V.model.LinAlg.

(* ---- generic list helpers ------------------------------------------------------- *)

Lemma upd_length : forall {A} i (x : A) l, length (upd i x l) = length l.
Proof. intros A i x l; revert i; induction l as [|h t IH]; intros [|i]; cbn; auto. Qed.

Lemma nth_upd : forall {A} (l : list A) i k x d,
  nth k (upd i x l) d = if Nat.eqb k i then (if Nat.ltb i (length l) then x else d) else nth k l d.
Proof.
  intros A l; induction l as [|h t IH]; intros i k x d.
  - cbn [upd length]. replace (i <? 0) with false by (symmetry; apply Nat.ltb_ge; lia).
    destruct k; destruct (Nat.eqb _ i); reflexivity.
  - destruct i as [|i]; destruct k as [|k]; cbn [upd nth length]; try reflexivity.
    rewrite IH. cbn [Nat.eqb]. destruct (Nat.eqb k i); [|reflexivity].
    change (S i <? S (length t)) with (i <? length t). reflexivity.
Qed.

Lemma nth_upd_same : forall {A} (l : list A) i x d, i < length l -> nth i (upd i x l) d = x.
Proof. intros. rewrite nth_upd, Nat.eqb_refl. apply Nat.ltb_lt in H. now rewrite H. Qed.

Lemma nth_upd_other : forall {A} (l : list A) i k x d, k <> i -> nth k (upd i x l) d = nth k l d.
Proof. intros. rewrite nth_upd. apply Nat.eqb_neq in H. now rewrite H. Qed.

Lemma mapi_from_length : forall {A B} (f : nat -> A -> B) l k, length (mapi_from k f l) = length l.
Proof. intros A B f l; induction l; intros; cbn; auto. Qed.

Lemma mapi_length : forall {A B} (f : nat -> A -> B) l, length (mapi f l) = length l.
Proof. intros; apply mapi_from_length. Qed.

Lemma nth_mapi_from : forall {A B} (f : nat -> A -> B) l k i da db,
  i < length l -> nth i (mapi_from k f l) db = f (k + i) (nth i l da).
Proof.
  intros A B f l; induction l as [|h t IH]; intros k i da db Hi; cbn in Hi; [lia|].
  destruct i; cbn [mapi_from nth].
  - now rewrite Nat.add_0_r.
  - rewrite (IH (S k) i da db) by lia. f_equal. lia.
Qed.

Lemma nth_mapi : forall {A B} (f : nat -> A -> B) l i da db,
  i < length l -> nth i (mapi f l) db = f i (nth i l da).
Proof. intros. unfold mapi. now rewrite (nth_mapi_from f l 0 i da db). Qed.

Lemma mapi_from_ext : forall {A B} (f g : nat -> A -> B) l k,
  (forall i a, f i a = g i a) -> mapi_from k f l = mapi_from k g l.
Proof. intros A B f g l; induction l; intros; cbn; f_equal; auto. Qed.

Lemma nth_ext_eq : forall {A} (l1 l2 : list A) d, length l1 = length l2 ->
  (forall i, i < length l1 -> nth i l1 d = nth i l2 d) -> l1 = l2.
Proof. intros. apply (nth_ext l1 l2 d d); auto. Qed.

Section LinAlgProofs.
Context {F : Type} (K : fops F) (HK : flaws K).

Add Field Kfield : (fl_theory K HK).

Notation "0" := (f0 K).
Notation "1" := (f1 K).
Infix "+" := (fadd K).
Infix "*" := (fmul K).
Infix "-" := (fsub K).

Lemma fis0_true : forall x, fis0 K x = true <-> x = 0.
Proof. intros. unfold fis0. apply (fl_eqb K HK). Qed.

Lemma fis0_false : forall x, fis0 K x = false <-> x <> 0.
Proof.
  intros. split; intro H.
  - intro E. apply fis0_true in E. congruence.
  - destruct (fis0 K x) eqn:E; auto. apply fis0_true in E. contradiction.
Qed.

Lemma f1_neq_0 : 1 <> 0.
Proof. exact (F_1_neq_0 (fl_theory K HK)). Qed.

Lemma finv_l : forall x, x <> 0 -> finv K x * x = 1.
Proof. exact (Finv_l (fl_theory K HK)). Qed.

Lemma fdiv_def : forall x y, fdiv K x y = x * finv K y.
Proof. exact (Fdiv_def (fl_theory K HK)). Qed.

Lemma fmul_eq_0 : forall x y, x * y = 0 -> x = 0 \/ y = 0.
Proof.
  intros x y H. destruct (fis0 K x) eqn:E.
  - left. now apply fis0_true.
  - right. apply fis0_false in E.
    assert (finv K x * (x * y) = y) as <- by (field; auto).
    rewrite H. ring.
Qed.

Lemma wf_matrixb_iff : forall r c (M : @matrix F), wf_matrixb r c M = true <-> wf_matrix r c M.
Proof.
  intros r c M. unfold wf_matrixb, wf_matrix.
  rewrite andb_true_iff, Nat.eqb_eq, forallb_forall, Forall_forall.
  split; intros [H1 H2]; split; auto; intros x Hx; apply Nat.eqb_eq; auto.
Qed.

(* ---- dot ---------------------------------------------------------------------------- *)

Lemma dot_fold_acc : forall (l : list (F * F)) a,
  fold_left (fun acc ab => acc + fst ab * snd ab) l a =
  a + fold_left (fun acc ab => acc + fst ab * snd ab) l 0.
Proof.
  induction l as [|h t IH]; intros a; cbn [fold_left].
  - ring.
  - rewrite IH. rewrite (IH (0 + _)). ring.
Qed.

Lemma dot_nil_l : forall v, dot K [] v = 0.
Proof. reflexivity. Qed.

Lemma dot_nil_r : forall u, dot K u [] = 0.
Proof. intros [|a u]; reflexivity. Qed.

Lemma dot_cons : forall a u b v, dot K (a :: u) (b :: v) = a * b + dot K u v.
Proof.
  intros. unfold dot. cbn [combine fold_left fst snd]. rewrite dot_fold_acc. ring.
Qed.

Lemma dot_comm : forall u v, dot K u v = dot K v u.
Proof.
  induction u as [|a u IH]; intros [|b v]; try reflexivity.
  rewrite !dot_cons, IH. ring.
Qed.

Lemma dot_app : forall u1 v1 u2 v2, length u1 = length v1 ->
  dot K (u1 ++ u2) (v1 ++ v2) = dot K u1 v1 + dot K u2 v2.
Proof.
  induction u1 as [|a u1 IH]; intros [|b v1] u2 v2 H; cbn in H; try lia.
  - cbn [app]. rewrite dot_nil_l. ring.
  - cbn [app]. rewrite !dot_cons, IH by lia. ring.
Qed.

Lemma dot_vscale_l : forall c r v, dot K (vscale K c r) v = dot K r v * c.
Proof.
  induction r as [|a r IH]; intros [|b v]; cbn [vscale map]; rewrite ?dot_nil_l, ?dot_nil_r; try ring.
  rewrite !dot_cons. fold (vscale K c r). rewrite IH. ring.
Qed.

Lemma vsubmul_length : forall f p r, length p = length r -> length (vsubmul K f p r) = length r.
Proof. intros. unfold vsubmul. rewrite map_length, combine_length. lia. Qed.

Lemma dot_vsubmul_l : forall f p r v, length p = length r ->
  dot K (vsubmul K f p r) v = dot K r v - f * dot K p v.
Proof.
  intros f p r; revert p; induction r as [|a r IH]; intros [|b p] v H; cbn in H; try lia.
  - unfold vsubmul. cbn [combine map]. rewrite !dot_nil_l. ring.
  - destruct v as [|c v].
    + rewrite !dot_nil_r. ring.
    + unfold vsubmul. cbn [combine map fst snd]. fold (vsubmul K f p r).
      rewrite !dot_cons, IH by lia. ring.
Qed.

Lemma nth_vscale : forall c r j, nth j (vscale K c r) 0 = nth j r 0 * c.
Proof.
  induction r as [|a r IH]; intros [|j]; cbn [vscale map nth]; try ring.
  apply IH.
Qed.

Lemma nth_vsubmul : forall f p r j, length p = length r ->
  nth j (vsubmul K f p r) 0 = nth j r 0 - f * nth j p 0.
Proof.
  intros f p r; revert p; induction r as [|a r IH]; intros [|b p] j H; cbn in H; try lia.
  - destruct j; cbn; ring.
  - unfold vsubmul. cbn [combine map fst snd]. fold (vsubmul K f p r).
    destruct j; cbn [nth]; [ring|]. apply IH; lia.
Qed.

Lemma dot_zero_l : forall n v, dot K (zero_vec K n) v = 0.
Proof.
  induction n as [|n IH]; intros [|b v]; cbn [zero_vec repeat]; rewrite ?dot_nil_l, ?dot_nil_r; auto.
  rewrite dot_cons. fold (zero_vec K n). rewrite IH. ring.
Qed.

Lemma dot_zero_r : forall n v, dot K v (zero_vec K n) = 0.
Proof. intros. rewrite dot_comm. apply dot_zero_l. Qed.

(* all pointwise products vanish except at position k *)
Lemma dot_single : forall u v k,
  (forall j, j <> k -> nth j u 0 * nth j v 0 = 0) ->
  dot K u v = nth k u 0 * nth k v 0.
Proof.
  induction u as [|a u IH]; intros v k H.
  - rewrite dot_nil_l. destruct k; cbn; ring.
  - destruct v as [|b v].
    + rewrite dot_nil_r. destruct k; cbn; ring.
    + rewrite dot_cons. destruct k as [|k]; cbn [nth].
      * rewrite (IH v (length u)).
        -- rewrite (nth_overflow u) by lia. ring.
        -- intros j Hj. apply (H (S j)). lia.
      * rewrite (IH v k).
        -- specialize (H O). cbn [nth] in H. rewrite H by lia. ring.
        -- intros j Hj. apply (H (S j)). lia.
Qed.

Lemma dot_all_zero : forall u v, (forall j, nth j u 0 * nth j v 0 = 0) -> dot K u v = 0.
Proof.
  intros u v H. rewrite (dot_single u v (length u)).
  - rewrite (nth_overflow u) by lia. ring.
  - intros; apply H.
Qed.


(* ---- rows, entries and the elementary row operations -------------------------------- *)

Lemma wf_row_length : forall r c (M : @matrix F) k, wf_matrix r c M -> k < r -> length (row k M) = c.
Proof.
  intros r c M k [HL HF] Hk. unfold row. rewrite Forall_forall in HF. apply HF. apply nth_In. lia.
Qed.

Lemma row_overflow : forall (M : @matrix F) k, length M <= k -> row k M = [].
Proof. intros. unfold row. now apply nth_overflow. Qed.

Lemma entry_row : forall (M : @matrix F) k j, entry K k j M = nth j (row k M) 0.
Proof. reflexivity. Qed.

Lemma wf_upd : forall r c (M : @matrix F) i x, wf_matrix r c M -> length x = c -> wf_matrix r c (upd i x M).
Proof.
  intros r c M i x [HL HF] Hx. split; [now rewrite upd_length|].
  clear HL. revert i. induction HF as [|h t Hh Ht IH]; intros [|i]; cbn [upd]; constructor; auto.
Qed.

(* swap *)
Definition swap_idx (a b k : nat) : nat := if Nat.eqb k a then b else if Nat.eqb k b then a else k.

Lemma row_swap_rows : forall (M : @matrix F) a b k, a < length M -> b < length M ->
  row k (swap_rows a b M) = row (swap_idx a b k) M.
Proof.
  intros M a b k Ha Hb. unfold swap_rows, row, swap_idx.
  rewrite nth_upd, upd_length. apply Nat.ltb_lt in Ha as Ha'. rewrite Ha'.
  destruct (Nat.eqb k a) eqn:E1; [reflexivity|].
  rewrite nth_upd. apply Nat.ltb_lt in Hb as Hb'. rewrite Hb'. destruct (Nat.eqb k b); reflexivity.
Qed.

Lemma wf_swap_rows : forall r c (M : @matrix F) a b, wf_matrix r c M -> a < r -> b < r ->
  wf_matrix r c (swap_rows a b M).
Proof.
  intros r c M a b H Ha Hb. unfold swap_rows.
  apply wf_upd; [apply wf_upd; auto|]; eapply wf_row_length; eauto.
Qed.

(* scale *)
Lemma row_scale_row : forall (M : @matrix F) a c k,
  row k (scale_row K a c M) = if Nat.eqb k a then vscale K c (row k M) else row k M.
Proof.
  intros M a c k. unfold scale_row, row. rewrite nth_upd.
  destruct (Nat.eqb k a) eqn:E; [|reflexivity].
  apply Nat.eqb_eq in E; subst k.
  destruct (Nat.ltb a (length M)) eqn:E2; [reflexivity|].
  apply Nat.ltb_ge in E2. rewrite (nth_overflow M) by lia. reflexivity.
Qed.

Lemma wf_scale_row : forall r c (M : @matrix F) a x, wf_matrix r c M -> wf_matrix r c (scale_row K a x M).
Proof.
  intros r c M a x H. destruct (Nat.ltb a r) eqn:E.
  - apply Nat.ltb_lt in E. unfold scale_row. apply wf_upd; auto.
    unfold vscale. rewrite map_length. eapply wf_row_length; eauto.
  - apply Nat.ltb_ge in E. unfold scale_row.
    replace (upd a (vscale K x (row a M)) M) with M; auto.
    destruct H as [HL _]. clear -HL E. revert a r HL E.
    induction M as [|h t IH]; intros [|a] r HL E; cbn [upd]; auto.
    + cbn in HL. lia.
    + f_equal. cbn in HL. apply (IH a (pred r)); lia.
Qed.

(* eliminate *)
Lemma row_eliminate_by : forall (M : @matrix F) fs p k, k < length M ->
  row k (eliminate_by K fs p M) =
  if Nat.eqb k p then row k M
  else if fis0 K (nth k fs 0) then row k M else vsubmul K (nth k fs 0) (row p M) (row k M).
Proof.
  intros M fs p k Hk. unfold eliminate_by, row.
  rewrite (nth_mapi _ M k [] []) by auto. reflexivity.
Qed.

Lemma eliminate_by_length : forall (M : @matrix F) fs p, length (eliminate_by K fs p M) = length M.
Proof. intros. unfold eliminate_by. apply mapi_length. Qed.

Lemma row_eliminate_by_overflow : forall (M : @matrix F) fs p k, length M <= k ->
  row k (eliminate_by K fs p M) = [].
Proof. intros. apply row_overflow. now rewrite eliminate_by_length. Qed.

Lemma wf_eliminate_by : forall r c (M : @matrix F) fs p, wf_matrix r c M -> p < r ->
  wf_matrix r c (eliminate_by K fs p M).
Proof.
  intros r c M fs p H Hp. pose proof H as [HL HF]. split; [now rewrite eliminate_by_length|].
  apply Forall_forall. intros x Hx.
  destruct (In_nth _ _ [] Hx) as [k [Hk Hnth]]. rewrite eliminate_by_length in Hk.
  fold (row k (eliminate_by K fs p M)) in Hnth. rewrite row_eliminate_by in Hnth by auto.
  subst x. assert (Hrk : length (row k M) = c) by (eapply wf_row_length; eauto; lia).
  destruct (Nat.eqb k p); auto. destruct (fis0 K _); auto.
  rewrite vsubmul_length; auto. rewrite Hrk. eapply wf_row_length; eauto.
Qed.

(* the value of [dot (row k M') v] after each operation *)
Lemma dot_row_eliminate_by : forall r c (M : @matrix F) fs p k v, wf_matrix r c M -> p < r -> k < r ->
  dot K (row k (eliminate_by K fs p M)) v =
  if Nat.eqb k p then dot K (row k M) v else dot K (row k M) v - nth k fs 0 * dot K (row p M) v.
Proof.
  intros r c M fs p k v H Hp Hk. pose proof H as [HL _].
  rewrite row_eliminate_by by lia. destruct (Nat.eqb k p); auto.
  destruct (fis0 K (nth k fs 0)) eqn:E.
  - apply fis0_true in E. rewrite E. ring.
  - apply dot_vsubmul_l. rewrite (wf_row_length r c M p), (wf_row_length r c M k); auto.
Qed.

Lemma entry_eliminate_by : forall r c (M : @matrix F) fs p k j, wf_matrix r c M -> p < r -> k < r ->
  entry K k j (eliminate_by K fs p M) =
  if Nat.eqb k p then entry K k j M else entry K k j M - nth k fs 0 * entry K p j M.
Proof.
  intros r c M fs p k j H Hp Hk. pose proof H as [HL _].
  rewrite !entry_row, row_eliminate_by by lia. destruct (Nat.eqb k p); auto.
  destruct (fis0 K (nth k fs 0)) eqn:E.
  - apply fis0_true in E. rewrite E. ring.
  - apply nth_vsubmul. rewrite (wf_row_length r c M p), (wf_row_length r c M k); auto.
Qed.

Lemma entry_scale_row : forall (M : @matrix F) a x k j,
  entry K k j (scale_row K a x M) = if Nat.eqb k a then entry K k j M * x else entry K k j M.
Proof.
  intros. rewrite !entry_row, row_scale_row. destruct (Nat.eqb k a); auto. apply nth_vscale.
Qed.

Lemma entry_swap_rows : forall (M : @matrix F) a b k j, a < length M -> b < length M ->
  entry K k j (swap_rows a b M) = entry K (swap_idx a b k) j M.
Proof. intros. rewrite !entry_row, row_swap_rows; auto. Qed.

Lemma entry_overflow : forall (M : @matrix F) k j, length M <= k -> entry K k j M = 0.
Proof. intros. rewrite entry_row, row_overflow by auto. destruct j; reflexivity. Qed.

Lemma nth_col : forall (M : @matrix F) j k, nth k (col K j M) 0 = entry K k j M.
Proof.
  intros M j k. unfold col, entry.
  destruct (Nat.ltb k (length M)) eqn:E.
  - apply Nat.ltb_lt in E. rewrite (nth_indep _ 0 (nth j [] 0)) by (rewrite map_length; auto).
    rewrite (map_nth (fun r => nth j r 0) M [] k). reflexivity.
  - apply Nat.ltb_ge in E. rewrite nth_overflow by (rewrite map_length; auto).
    rewrite (nth_overflow M) by auto. destruct j; reflexivity.
Qed.

Lemma col_length : forall (M : @matrix F) j, length (col K j M) = length M.
Proof. intros. unfold col. apply map_length. Qed.

(* ---- kernel: [ker M v] = every row of M is orthogonal to v ----------------------------- *)

Definition ker (M : @matrix F) (v : list F) : Prop := forall k, dot K (row k M) v = 0.

Lemma ker_swap_rows : forall (M : @matrix F) a b v, a < length M -> b < length M ->
  (ker (swap_rows a b M) v <-> ker M v).
Proof.
  intros M a b v Ha Hb. unfold ker. split; intros H k.
  - specialize (H (swap_idx a b k)). rewrite row_swap_rows in H by auto.
    replace (swap_idx a b (swap_idx a b k)) with k in H; auto.
    unfold swap_idx.
    destruct (Nat.eqb k a) eqn:E1; destruct (Nat.eqb k b) eqn:E2;
      repeat (rewrite ?Nat.eqb_refl; try match goal with
              | H : Nat.eqb _ _ = true |- _ => apply Nat.eqb_eq in H; subst
              end); auto.
    + destruct (Nat.eqb b a) eqn:E3; auto. apply Nat.eqb_eq in E3; auto.
    + rewrite E1, E2. reflexivity.
  - rewrite row_swap_rows by auto. apply H.
Qed.

Lemma ker_scale_row : forall (M : @matrix F) a x v, x <> 0 ->
  (ker (scale_row K a x M) v <-> ker M v).
Proof.
  intros M a x v Hx. unfold ker. split; intros H k; specialize (H k); rewrite row_scale_row in *.
  - destruct (Nat.eqb k a); auto. rewrite dot_vscale_l in H.
    apply fmul_eq_0 in H. destruct H; [auto|contradiction].
  - destruct (Nat.eqb k a); auto. rewrite dot_vscale_l, H. ring.
Qed.

Lemma ker_eliminate_by : forall r c (M : @matrix F) fs p v, wf_matrix r c M -> p < r ->
  (ker (eliminate_by K fs p M) v <-> ker M v).
Proof.
  intros r c M fs p v HW Hp. pose proof HW as [HL _]. unfold ker. split; intros H k.
  - destruct (Nat.ltb k r) eqn:E.
    + apply Nat.ltb_lt in E.
      pose proof (H p) as Hpp. rewrite (dot_row_eliminate_by r c) in Hpp by auto.
      rewrite Nat.eqb_refl in Hpp.
      specialize (H k). rewrite (dot_row_eliminate_by r c) in H by auto.
      destruct (Nat.eqb k p) eqn:E2; auto. rewrite Hpp in H.
      rewrite <- H. ring.
    + apply Nat.ltb_ge in E. rewrite row_overflow by lia. apply dot_nil_l.
  - destruct (Nat.ltb k r) eqn:E.
    + apply Nat.ltb_lt in E. rewrite (dot_row_eliminate_by r c) by auto.
      destruct (Nat.eqb k p); auto. rewrite (H k), (H p). ring.
    + apply Nat.ltb_ge in E. rewrite row_eliminate_by_overflow by lia. apply dot_nil_l.
Qed.


(* ---- pivot search ---------------------------------------------------------------------- *)

Lemma nth_skipn_add : forall {A} (l : list A) n i d, nth i (skipn n l) d = nth (n + i)%nat l d.
Proof.
  intros A l; induction l as [|h t IH]; intros n i d.
  - rewrite skipn_nil. destruct i; destruct (n + _)%nat; reflexivity.
  - destruct n; cbn [skipn Nat.add]; auto. cbn [nth]. apply IH.
Qed.

Lemma find_pivot_spec : forall pc rows start,
  match find_pivot K pc start rows with
  | None => forall i, nth pc (nth i rows []) 0 = 0
  | Some p => start <= p /\ p < (start + length rows)%nat /\ nth pc (nth (p - start) rows []) 0 <> 0
  end.
Proof.
  intros pc rows; induction rows as [|h t IH]; intros start; cbn [find_pivot].
  - intros i. destruct i; destruct pc; reflexivity.
  - destruct (fis0 K (nth pc h 0)) eqn:E.
    + specialize (IH (S start)). destruct (find_pivot K pc (S start) t) as [p|].
      * destruct IH as (H1 & H2 & H3). cbn [length]. repeat split; try lia.
        replace (p - start)%nat with (S (p - S start)) by lia. exact H3.
      * intros [|i]; cbn [nth]; auto. now apply fis0_true.
    + cbn [length]. repeat split; try lia. rewrite Nat.sub_diag. cbn [nth]. now apply fis0_false.
Qed.

Lemma find_pivot_row_spec : forall pc pr (M : @matrix F),
  match find_pivot_row K pc pr M with
  | None => forall k, pr <= k -> entry K k pc M = 0
  | Some p => pr <= p /\ p < length M /\ entry K p pc M <> 0
  end.
Proof.
  intros pc pr M. unfold find_pivot_row. pose proof (find_pivot_spec pc (skipn pr M) pr) as H.
  destruct (find_pivot K pc pr (skipn pr M)) as [p|].
  - destruct H as (H1 & H2 & H3). rewrite skipn_length in H2. rewrite nth_skipn_add in H3.
    replace (pr + (p - pr))%nat with p in H3 by lia.
    repeat split; auto.
    destruct (Nat.ltb p (length M)) eqn:E; [now apply Nat.ltb_lt in E|].
    apply Nat.ltb_ge in E. lia.
  - intros k Hk. specialize (H (k - pr)%nat). rewrite nth_skipn_add in H.
    replace (pr + (k - pr))%nat with k in H by lia. exact H.
Qed.

(* ---- the Gauss–Jordan invariant ----------------------------------------------------------- *)

Record gj_inv (r c pc : nat) (M : @matrix F) (pr : nat) (pivs : list nat) : Prop := mk_gj_inv {
  gi_wf : wf_matrix r c M;
  gi_len : pr = length pivs;
  gi_le : pr <= r;
  gi_lt : forall l, l < pr -> nth l pivs O < pc;
  gi_unit : forall l k, l < pr -> entry K k (nth l pivs O) M = if Nat.eqb k l then 1 else 0;
  gi_zero : forall k j, pr <= k -> j < pc -> entry K k j M = 0
}.

Lemma swap_idx_ge : forall a b k, a <= b -> a <= k -> a <= swap_idx a b k.
Proof. intros. unfold swap_idx. destruct (Nat.eqb k a); [lia|]. destruct (Nat.eqb k b); lia. Qed.

Lemma swap_idx_lt : forall a b k, a <= b -> k < a -> swap_idx a b k = k.
Proof.
  intros. unfold swap_idx.
  destruct (Nat.eqb k a) eqn:E1; [apply Nat.eqb_eq in E1; lia|].
  destruct (Nat.eqb k b) eqn:E2; [apply Nat.eqb_eq in E2; lia|]. reflexivity.
Qed.

(* the matrix after the (conditional) swap *)
Definition gj_swapped (pr p : nat) (M : @matrix F) : matrix := if Nat.eqb p pr then M else swap_rows pr p M.

Lemma entry_gj_swapped : forall (M : @matrix F) pr p k j, pr < length M -> p < length M ->
  entry K k j (gj_swapped pr p M) = entry K (swap_idx pr p k) j M.
Proof.
  intros M pr p k j H1 H2. unfold gj_swapped. destruct (Nat.eqb p pr) eqn:E.
  - apply Nat.eqb_eq in E; subst p. unfold swap_idx.
    destruct (Nat.eqb k pr) eqn:E2; [apply Nat.eqb_eq in E2; subst; reflexivity|reflexivity].
  - apply entry_swap_rows; auto.
Qed.

Lemma gj_inv_swapped : forall r c pc M pr pivs p, gj_inv r c pc M pr pivs -> pr <= p -> p < r ->
  gj_inv r c pc (gj_swapped pr p M) pr pivs.
Proof.
  intros r c pc M pr pivs p [Hwf Hlen Hle Hlt Hunit Hzero] Hp Hpr. pose proof Hwf as [HL _].
  assert (Hent : forall k j, entry K k j (gj_swapped pr p M) = entry K (swap_idx pr p k) j M)
    by (intros; apply entry_gj_swapped; lia).
  constructor; auto.
  - unfold gj_swapped. destruct (Nat.eqb p pr); auto. apply wf_swap_rows; auto; lia.
  - intros l k Hl. rewrite Hent, Hunit by auto.
    destruct (Nat.ltb k pr) eqn:E.
    + apply Nat.ltb_lt in E. rewrite swap_idx_lt by lia. reflexivity.
    + apply Nat.ltb_ge in E. pose proof (swap_idx_ge pr p k Hp E).
      replace (Nat.eqb (swap_idx pr p k) l) with false by (symmetry; apply Nat.eqb_neq; lia).
      replace (Nat.eqb k l) with false by (symmetry; apply Nat.eqb_neq; lia). reflexivity.
  - intros k j Hk Hj. rewrite Hent. apply Hzero; auto. apply swap_idx_ge; auto.
Qed.

Lemma ker_gj_swapped : forall (M : @matrix F) pr p v, pr < length M -> p < length M ->
  (ker (gj_swapped pr p M) v <-> ker M v).
Proof.
  intros. unfold gj_swapped. destruct (Nat.eqb p pr); [tauto|]. apply ker_swap_rows; auto.
Qed.

Lemma finv_neq_0 : forall x, x <> 0 -> finv K x <> 0.
Proof.
  intros x Hx E. pose proof (finv_l x Hx) as H. rewrite E in H.
  apply f1_neq_0. rewrite <- H. ring.
Qed.

(* scale the pivot row and clear the pivot column *)
Lemma gj_inv_reduce : forall r c pc M pr pivs,
  gj_inv r c pc M pr pivs -> pr < r -> entry K pr pc M <> 0 ->
  gj_inv r c (S pc) (eliminate K pr pc (scale_row K pr (finv K (entry K pr pc M)) M)) (S pr) (pivs ++ [pc]).
Proof.
  intros r c pc M pr pivs [Hwf Hlen Hle Hlt Hunit Hzero] Hpr He.
  set (x := finv K (entry K pr pc M)).
  set (M2 := scale_row K pr x M).
  assert (Hwf2 : wf_matrix r c M2) by (apply wf_scale_row; auto).
  assert (E2 : forall k j, entry K k j M2 = if Nat.eqb k pr then entry K k j M * x else entry K k j M)
    by (intros; apply entry_scale_row).
  assert (Epiv : entry K pr pc M2 = 1).
  { rewrite E2, Nat.eqb_refl. unfold x. rewrite <- (finv_l _ He). ring. }
  assert (E3 : forall k j, k < r -> entry K k j (eliminate K pr pc M2) =
             if Nat.eqb k pr then entry K k j M2 else entry K k j M2 - entry K k pc M2 * entry K pr j M2).
  { intros k j Hk. unfold eliminate. rewrite (entry_eliminate_by r c) by auto.
    rewrite nth_col. reflexivity. }
  assert (Eov : forall k j, r <= k -> entry K k j (eliminate K pr pc M2) = 0).
  { intros k j Hk. apply entry_overflow. unfold eliminate. rewrite eliminate_by_length.
    destruct Hwf2 as [HL2 _]. lia. }
  assert (Hnm : nth pr (pivs ++ [pc]) O = pc) by (rewrite Hlen; apply nth_middle).
  constructor.
  - unfold eliminate. apply wf_eliminate_by; auto.
  - rewrite app_length. cbn [length]. lia.
  - lia.
  - intros l Hl. destruct (Nat.eqb l pr) eqn:E.
    + apply Nat.eqb_eq in E; subst l. rewrite Hnm. lia.
    + apply Nat.eqb_neq in E. rewrite app_nth1 by lia. assert (l < pr) by lia. specialize (Hlt l H). lia.
  - intros l k Hl. destruct (Nat.ltb k r) eqn:Ek.
    2:{ apply Nat.ltb_ge in Ek. rewrite Eov by auto.
        replace (Nat.eqb k l) with false by (symmetry; apply Nat.eqb_neq; lia). reflexivity. }
    apply Nat.ltb_lt in Ek. rewrite E3 by auto.
    destruct (Nat.eqb l pr) eqn:E.
    + apply Nat.eqb_eq in E; subst l. rewrite Hnm.
      destruct (Nat.eqb k pr) eqn:Ek2.
      * apply Nat.eqb_eq in Ek2; subst k. exact Epiv.
      * rewrite Epiv. ring.
    + apply Nat.eqb_neq in E. assert (Hl' : l < pr) by lia.
      rewrite app_nth1 by lia.
      assert (Hcol : forall k', entry K k' (nth l pivs O) M2 = if Nat.eqb k' l then 1 else 0).
      { intros k'. rewrite E2, Hunit by auto. destruct (Nat.eqb k' pr) eqn:E4; auto.
        apply Nat.eqb_eq in E4; subst k'.
        replace (Nat.eqb pr l) with false by (symmetry; apply Nat.eqb_neq; lia). ring. }
      rewrite !Hcol.
      replace (Nat.eqb pr l) with false by (symmetry; apply Nat.eqb_neq; lia).
      destruct (Nat.eqb k pr) eqn:Ek2.
      * apply Nat.eqb_eq in Ek2; subst k.
        replace (Nat.eqb pr l) with false by (symmetry; apply Nat.eqb_neq; lia). reflexivity.
      * ring.
  - intros k j Hk Hj. destruct (Nat.ltb k r) eqn:Ek.
    2:{ apply Nat.ltb_ge in Ek. apply Eov; auto. }
    apply Nat.ltb_lt in Ek. rewrite E3 by auto.
    replace (Nat.eqb k pr) with false by (symmetry; apply Nat.eqb_neq; lia).
    destruct (Nat.eqb j pc) eqn:Ej.
    + apply Nat.eqb_eq in Ej; subst j. rewrite Epiv. ring.
    + apply Nat.eqb_neq in Ej. assert (Hj' : j < pc) by lia.
      rewrite !E2. replace (Nat.eqb k pr) with false by (symmetry; apply Nat.eqb_neq; lia).
      rewrite Nat.eqb_refl. rewrite (Hzero k j) by lia. rewrite (Hzero pr j) by lia. ring.
Qed.

Lemma ker_gj_reduce : forall r c pc (M : @matrix F) pr v, wf_matrix r c M -> pr < r -> entry K pr pc M <> 0 ->
  (ker (eliminate K pr pc (scale_row K pr (finv K (entry K pr pc M)) M)) v <-> ker M v).
Proof.
  intros r c pc M pr v Hwf Hpr He. unfold eliminate.
  rewrite (ker_eliminate_by r c) by (auto using wf_scale_row).
  apply ker_scale_row. now apply finv_neq_0.
Qed.

(* one iteration of the column loop *)
Lemma gj_step_inv : forall r c pc st,
  gj_inv r c pc (gj_M st) (gj_pr st) (gj_pivs st) -> gj_pr st < r ->
  gj_inv r c (S pc) (gj_M (gj_step K pc st)) (gj_pr (gj_step K pc st)) (gj_pivs (gj_step K pc st))
  /\ (forall v, ker (gj_M (gj_step K pc st)) v <-> ker (gj_M st) v).
Proof.
  intros r c pc [M pr pivs] Hinv Hpr. cbn [gj_M gj_pr gj_pivs] in *.
  pose proof (gi_wf _ _ _ _ _ _ Hinv) as [HL HF].
  unfold gj_step. cbn [gj_M gj_pr gj_pivs].
  pose proof (find_pivot_row_spec pc pr M) as Hfp.
  destruct (find_pivot_row K pc pr M) as [p|]; cbn [gj_M gj_pr gj_pivs].
  - destruct Hfp as (Hp1 & Hp2 & Hp3).
    fold (gj_swapped pr p M).
    assert (Hinv1 : gj_inv r c pc (gj_swapped pr p M) pr pivs) by (apply gj_inv_swapped; auto; lia).
    assert (He : entry K pr pc (gj_swapped pr p M) <> 0).
    { rewrite entry_gj_swapped by lia. unfold swap_idx. rewrite Nat.eqb_refl. exact Hp3. }
    split.
    + apply gj_inv_reduce; auto.
    + intros v. rewrite (ker_gj_reduce r c) by (auto; apply (gi_wf _ _ _ _ _ _ Hinv1)).
      apply ker_gj_swapped; lia.
  - split; [|tauto]. destruct Hinv as [Hwf Hlen Hle Hlt Hunit Hzero]. constructor; auto.
    { intros l Hl. specialize (Hlt l Hl). lia. }
    intros k j Hk Hj. destruct (Nat.eqb j pc) eqn:E.
    + apply Nat.eqb_eq in E; subst j. apply Hfp; auto.
    + apply Nat.eqb_neq in E. apply Hzero; auto. lia.
Qed.

Lemma gj_loop_inv : forall r c todo pc st,
  gj_inv r c pc (gj_M st) (gj_pr st) (gj_pivs st) ->
  let st' := gj_loop K todo pc st in
  (exists pc', gj_inv r c pc' (gj_M st') (gj_pr st') (gj_pivs st') /\ pc' <= (pc + todo)%nat /\
               (pc' = (pc + todo)%nat \/ gj_pr st' = r))
  /\ (forall v, ker (gj_M st') v <-> ker (gj_M st) v).
Proof.
  intros r c todo; induction todo as [|t IH]; intros pc st Hinv; cbn [gj_loop].
  - split; [|tauto]. exists pc. split; auto. split; [lia|]. left; lia.
  - pose proof (gi_wf _ _ _ _ _ _ Hinv) as [HL _]. pose proof (gi_le _ _ _ _ _ _ Hinv) as Hle.
    unfold nrows. rewrite HL.
    destruct (Nat.ltb (gj_pr st) r) eqn:E.
    + apply Nat.ltb_lt in E. destruct (gj_step_inv r c pc st Hinv E) as [Hinv' Hker'].
      specialize (IH (S pc) _ Hinv'). cbv zeta in IH. destruct IH as [(pc' & H1 & H2 & H3) Hk].
      split.
      * exists pc'. split; auto. split; [lia|]. destruct H3; [left; lia|right; auto].
      * intros v. rewrite Hk. apply Hker'.
    + apply Nat.ltb_ge in E. split; [|tauto]. exists pc. split; auto. split; [lia|]. right. lia.
Qed.


(* ---- extraction of the solution -------------------------------------------------------------- *)

Section Extract.
Variables (n : nat) (M : @matrix F).
Let fx := (fun (sol : list F) (ip : nat * nat) => upd (snd ip) (entry K (fst ip) n M) sol).

Lemma extract_fold_length : forall ps sol0, length (fold_left fx ps sol0) = length sol0.
Proof.
  induction ps as [|[i c0] ps IH]; intros sol0; cbn [fold_left]; auto.
  rewrite IH. unfold fx. apply upd_length.
Qed.

Lemma extract_fold_notin : forall ps sol0 j, ~ In j (map snd ps) ->
  nth j (fold_left fx ps sol0) 0 = nth j sol0 0.
Proof.
  induction ps as [|[i c0] ps IH]; intros sol0 j Hn; cbn [fold_left]; auto.
  cbn [map snd In] in Hn. rewrite IH by tauto. unfold fx. cbn [fst snd].
  apply nth_upd_other. intro; subst; tauto.
Qed.

Lemma extract_fold_in : forall ps sol0 i j, NoDup (map snd ps) -> In (i, j) ps -> j < length sol0 ->
  nth j (fold_left fx ps sol0) 0 = entry K i n M.
Proof.
  induction ps as [|[i0 c0] ps IH]; intros sol0 i j Hnd Hin Hj; cbn [fold_left]; [destruct Hin|].
  cbn [map snd] in Hnd. inversion Hnd as [|? ? Hnotin Hnd']; subst.
  destruct Hin as [Heq|Hin].
  - inversion Heq; subst. rewrite extract_fold_notin by auto. unfold fx. cbn [fst snd].
    apply nth_upd_same; auto.
  - apply IH; auto. unfold fx. now rewrite upd_length.
Qed.
End Extract.

Lemma zero_vec_length : forall n, length (zero_vec K n) = n.
Proof. intros. apply repeat_length. Qed.

Lemma nth_zero_vec : forall n j, nth j (zero_vec K n) 0 = 0.
Proof. induction n as [|n IH]; intros [|j]; cbn [zero_vec repeat nth]; auto. Qed.

Lemma map_snd_combine_seq : forall (l : list nat) s, map snd (combine (seq s (length l)) l) = l.
Proof. induction l as [|h t IH]; intros s; cbn; f_equal; auto. Qed.

Lemma in_combine_seq : forall (l : list nat) s i, i < length l -> In ((s + i)%nat, nth i l O) (combine (seq s (length l)) l).
Proof.
  induction l as [|h t IH]; intros s i Hi; cbn in Hi; [lia|].
  cbn [length seq combine]. destruct i.
  - left. rewrite Nat.add_0_r. reflexivity.
  - right. replace (s + S i)%nat with (S s + i)%nat by lia. apply IH. lia.
Qed.

Lemma extract_solution_length : forall n M pivs, length (extract_solution K n M pivs) = n.
Proof. intros. unfold extract_solution. rewrite extract_fold_length. apply zero_vec_length. Qed.

Lemma extract_solution_pivot : forall n M pivs l, NoDup pivs -> l < length pivs -> nth l pivs O < n ->
  nth (nth l pivs O) (extract_solution K n M pivs) 0 = entry K l n M.
Proof.
  intros n M pivs l Hnd Hl Hlt. unfold extract_solution.
  apply extract_fold_in.
  - now rewrite map_snd_combine_seq.
  - apply (in_combine_seq pivs O l Hl).
  - now rewrite zero_vec_length.
Qed.

Lemma extract_solution_free : forall n M pivs j, ~ In j pivs ->
  nth j (extract_solution K n M pivs) 0 = 0.
Proof.
  intros n M pivs j Hn. unfold extract_solution.
  rewrite extract_fold_notin by now rewrite map_snd_combine_seq. apply nth_zero_vec.
Qed.

(* ---- consistency scan ------------------------------------------------------------------------- *)

Lemma scan_true_iff : forall n pr (M : @matrix F),
  forallb (fun r => fis0 K (nth n r 0)) (skipn pr M) = true <-> (forall k, pr <= k -> entry K k n M = 0).
Proof.
  intros n pr M. rewrite forallb_forall. split.
  - intros H k Hk. destruct (Nat.ltb k (length M)) eqn:E.
    + apply Nat.ltb_lt in E. apply fis0_true. apply H.
      replace (nth k M []) with (nth (k - pr) (skipn pr M) []).
      * apply nth_In. rewrite skipn_length. lia.
      * rewrite nth_skipn_add. f_equal. lia.
    + apply Nat.ltb_ge in E. apply entry_overflow; auto.
  - intros H x Hx. destruct (In_nth _ _ [] Hx) as [i [Hi Hnth]]. subst x.
    rewrite nth_skipn_add. apply fis0_true. apply (H (pr + i)%nat). lia.
Qed.

Lemma list_split_last : forall (l : list F) n, length l = S n -> l = firstn n l ++ [nth n l 0].
Proof.
  induction l as [|h t IH]; intros n H; cbn in H; [lia|].
  destruct n.
  - destruct t; [reflexivity|cbn in H; lia].
  - cbn [firstn nth app]. f_equal. apply IH. lia.
Qed.

Lemma nth_firstn_lt : forall (l : list F) n j, j < n -> nth j (firstn n l) 0 = nth j l 0.
Proof.
  induction l as [|h t IH]; intros n j H.
  - rewrite firstn_nil. reflexivity.
  - destruct n; [lia|]. destruct j; cbn [firstn nth]; auto. apply IH. lia.
Qed.

Lemma fopp_1_mul : forall e, e * fopp K 1 = 0 -> e = 0.
Proof. intros e H. assert (e = fopp K (e * fopp K 1)) as -> by ring. rewrite H. ring. Qed.

(* ---- solve_augmented: sound and complete ---------------------------------------------------------- *)

Lemma gj_inv_init : forall r n (aug : @matrix F), wf_matrix r (S n) aug -> gj_inv r (S n) 0 aug 0 [].
Proof. intros. constructor; auto; try lia; intros; lia. Qed.

Lemma gj_inv_NoDup : forall r c pc M pr pivs, gj_inv r c pc M pr pivs -> NoDup pivs.
Proof.
  intros r c pc M pr pivs [Hwf Hlen Hle Hlt Hunit Hzero].
  apply (NoDup_nth pivs O). intros i j Hi Hj E.
  destruct (Nat.eq_dec i j) as [|Hne]; auto. exfalso.
  pose proof (Hunit i i ltac:(lia)) as H1. pose proof (Hunit j i ltac:(lia)) as H2.
  rewrite Nat.eqb_refl in H1. rewrite <- E in H2.
  replace (Nat.eqb i j) with false in H2 by (symmetry; apply Nat.eqb_neq; lia).
  apply f1_neq_0. rewrite <- H1, H2. reflexivity.
Qed.

Lemma ncols_wf : forall r c (M : @matrix F), wf_matrix r c M -> 0 < r -> ncols M = c.
Proof.
  intros r c [|h t] [HL HF] Hr; cbn in HL; [lia|]. cbn. now inversion HF.
Qed.

Theorem solve_augmented_sound : forall r n (aug : @matrix F) x,
  wf_matrix r (S n) aug -> 0 < r -> solve_augmented K aug = Some x ->
  length x = n /\ ker aug (x ++ [fopp K 1]).
Proof.
  intros r n aug x Hwf Hr Hsol. unfold solve_augmented in Hsol.
  rewrite (ncols_wf r (S n) aug Hwf Hr) in Hsol. cbn [pred] in Hsol.
  pose proof (gj_loop_inv r (S n) n 0 (mk_gj aug 0 []) (gj_inv_init r n aug Hwf)) as Hloop.
  cbv zeta in Hloop. cbn [gj_M] in Hloop.
  set (st := gj_loop K n 0 (mk_gj aug 0 [])) in *.
  destruct Hloop as [(pc' & Hinv & Hpc & Hend) Hker].
  destruct (forallb _ _) eqn:Hscan in Hsol; [|discriminate]. inversion Hsol; subst x; clear Hsol.
  rewrite scan_true_iff in Hscan.
  pose proof (gj_inv_NoDup _ _ _ _ _ _ Hinv) as Hnd.
  destruct Hinv as [HwfM Hlen Hle Hlt Hunit Hzero].
  set (M := gj_M st) in *. set (pr := gj_pr st) in *. set (pivs := gj_pivs st) in *.
  set (x := extract_solution K n M pivs).
  assert (Hxl : length x = n) by apply extract_solution_length.
  split; auto. apply Hker. intros k.
  destruct (Nat.ltb k r) eqn:Ek.
  2:{ apply Nat.ltb_ge in Ek. rewrite row_overflow; [apply dot_nil_l|]. destruct HwfM; lia. }
  apply Nat.ltb_lt in Ek.
  assert (Hrl : length (row k M) = S n) by (eapply wf_row_length; eauto).
  destruct (Nat.ltb k pr) eqn:Ekp.
  - apply Nat.ltb_lt in Ekp.
    rewrite (list_split_last (row k M) n Hrl).
    rewrite dot_app by (rewrite firstn_length; lia).
    rewrite dot_cons, dot_nil_l.
    assert (Hpk : nth k pivs O < n) by (specialize (Hlt k Ekp); lia).
    rewrite (dot_single _ _ (nth k pivs O)).
    + rewrite nth_firstn_lt by auto. rewrite <- !entry_row.
      rewrite Hunit, Nat.eqb_refl by auto.
      unfold x. rewrite extract_solution_pivot by (auto; lia).
      ring.
    + intros j Hj. destruct (Nat.ltb j n) eqn:Ejn.
      2:{ apply Nat.ltb_ge in Ejn. rewrite (nth_overflow x) by lia. ring. }
      apply Nat.ltb_lt in Ejn. rewrite nth_firstn_lt by auto.
      destruct (in_dec Nat.eq_dec j pivs) as [Hin|Hnin].
      * destruct (In_nth _ _ O Hin) as [l [Hl Hjl]]. subst j.
        rewrite <- entry_row. rewrite Hunit by lia.
        replace (Nat.eqb k l) with false by (symmetry; apply Nat.eqb_neq; intro; subst l; apply Hj; reflexivity). ring.
      * unfold x. rewrite extract_solution_free by auto. ring.
  - apply Nat.ltb_ge in Ekp. destruct Hend as [Hend|Hend]; [|lia].
    apply dot_all_zero. intros j. rewrite <- entry_row.
    destruct (Nat.ltb j n) eqn:Ejn.
    + apply Nat.ltb_lt in Ejn. rewrite Hzero by lia. ring.
    + apply Nat.ltb_ge in Ejn. destruct (Nat.eq_dec j n) as [->|Hne].
      * rewrite Hscan by auto. ring.
      * rewrite entry_row. rewrite (nth_overflow (row k M)) by lia. ring.
Qed.

Theorem solve_augmented_complete : forall r n (aug : @matrix F) y,
  wf_matrix r (S n) aug -> 0 < r -> length y = n -> ker aug (y ++ [fopp K 1]) ->
  solve_augmented K aug <> None.
Proof.
  intros r n aug y Hwf Hr Hy Hk. unfold solve_augmented.
  rewrite (ncols_wf r (S n) aug Hwf Hr). cbn [pred].
  pose proof (gj_loop_inv r (S n) n 0 (mk_gj aug 0 []) (gj_inv_init r n aug Hwf)) as Hloop.
  cbv zeta in Hloop. cbn [gj_M] in Hloop.
  set (st := gj_loop K n 0 (mk_gj aug 0 [])) in *.
  destruct Hloop as [(pc' & Hinv & Hpc & Hend) Hker].
  destruct Hinv as [HwfM Hlen Hle Hlt Hunit Hzero].
  replace (forallb _ _) with true; [discriminate|]. symmetry. apply scan_true_iff.
  intros k Hkp. destruct (Nat.ltb k r) eqn:Ek.
  2:{ apply Nat.ltb_ge in Ek. apply entry_overflow. destruct HwfM; lia. }
  apply Nat.ltb_lt in Ek. destruct Hend as [Hend|Hend]; [|lia].
  apply Hker in Hk. specialize (Hk k).
  rewrite (dot_single _ _ n) in Hk.
  - rewrite app_nth2, Hy, Nat.sub_diag in Hk by lia. cbn [nth] in Hk.
    apply fopp_1_mul. exact Hk.
  - intros j Hj. rewrite <- entry_row.
    destruct (Nat.ltb j n) eqn:Ejn.
    + apply Nat.ltb_lt in Ejn. rewrite Hzero by lia. ring.
    + apply Nat.ltb_ge in Ejn. rewrite (nth_overflow (y ++ _)); [ring|].
      rewrite app_length. cbn [length]. lia.
Qed.


(* ---- SolveRight / SolveLeft ------------------------------------------------------------------------ *)

Lemma row_augment_col : forall (M : @matrix F) b k, k < length M -> length b = length M ->
  row k (augment M (col_vector b)) = row k M ++ [nth k b 0].
Proof.
  induction M as [|h t IH]; intros b k Hk Hb; cbn in Hk; [lia|].
  destruct b as [|b0 b]; cbn in Hb; [lia|].
  destruct k; cbn [augment col_vector map combine fst snd row nth]; auto.
  apply (IH b k); lia.
Qed.

Lemma augment_col_length : forall (M : @matrix F) b, length b = length M -> length (augment M (col_vector b)) = length M.
Proof.
  intros. unfold augment, col_vector. rewrite map_length, combine_length, map_length. lia.
Qed.

Lemma wf_augment_col : forall r c (M : @matrix F) b, wf_matrix r c M -> length b = r ->
  wf_matrix r (S c) (augment M (col_vector b)).
Proof.
  intros r c M b Hwf Hb. pose proof Hwf as [HL HF]. split.
  - rewrite augment_col_length; lia.
  - apply Forall_forall. intros x Hx. destruct (In_nth _ _ [] Hx) as [k [Hk Hnth]].
    rewrite augment_col_length in Hk by lia. fold (row k (augment M (col_vector b))) in Hnth.
    rewrite row_augment_col in Hnth by lia. subst x.
    rewrite app_length, (wf_row_length r c M k) by (auto; lia). cbn [length]. lia.
Qed.

Lemma mvec_length : forall (M : @matrix F) x, length (mvec K M x) = length M.
Proof. intros. unfold mvec. apply map_length. Qed.

Lemma nth_mvec : forall (M : @matrix F) x k, nth k (mvec K M x) 0 = dot K (row k M) x.
Proof.
  intros M x k. unfold mvec, row.
  destruct (Nat.ltb k (length M)) eqn:E.
  - apply Nat.ltb_lt in E. rewrite (nth_indep _ 0 (dot K [] x)) by (rewrite map_length; auto).
    apply (map_nth (fun r => dot K r x)).
  - apply Nat.ltb_ge in E. rewrite nth_overflow by (rewrite map_length; auto).
    rewrite (nth_overflow M) by auto. reflexivity.
Qed.

Lemma ker_augment_iff : forall r c (M : @matrix F) b x, wf_matrix r c M -> length b = r -> length x = c ->
  (ker (augment M (col_vector b)) (x ++ [fopp K 1]) <-> mvec K M x = b).
Proof.
  intros r c M b x Hwf Hb Hx. pose proof Hwf as [HL HF].
  assert (Hrow : forall k, k < r -> dot K (row k (augment M (col_vector b))) (x ++ [fopp K 1])
                                   = dot K (row k M) x - nth k b 0).
  { intros k Hk. rewrite row_augment_col by lia.
    rewrite dot_app by (rewrite (wf_row_length r c M k); auto; lia).
    rewrite dot_cons, dot_nil_l. ring. }
  split.
  - intros H. apply (nth_ext_eq _ _ 0); [rewrite mvec_length; lia|].
    intros k Hk. rewrite mvec_length in Hk. rewrite nth_mvec.
    specialize (H k). rewrite Hrow in H by lia.
    assert (dot K (row k M) x = (dot K (row k M) x - nth k b 0) + nth k b 0) as -> by ring.
    rewrite H. ring.
  - intros H k. destruct (Nat.ltb k r) eqn:E.
    + apply Nat.ltb_lt in E. rewrite Hrow by auto. rewrite <- H, nth_mvec. ring.
    + apply Nat.ltb_ge in E. rewrite row_overflow; [apply dot_nil_l|].
      rewrite augment_col_length; lia.
Qed.

Theorem solve_right_sound : forall r c (M : @matrix F) b x,
  wf_matrix r c M -> 0 < r -> 0 < c -> length b = r ->
  solve_right K M b = Some x -> length x = c /\ mvec K M x = b.
Proof.
  intros r c M b x Hwf Hr Hc Hb Hs. unfold solve_right in Hs.
  destruct (Nat.eqb _ _); [|discriminate].
  destruct (solve_augmented_sound r c _ x (wf_augment_col r c M b Hwf Hb) Hr Hs) as [Hl Hk].
  split; auto. now apply (ker_augment_iff r c M b x Hwf Hb Hl).
Qed.

Theorem solve_right_complete : forall r c (M : @matrix F) b y,
  wf_matrix r c M -> 0 < r -> 0 < c -> length b = r -> length y = c ->
  mvec K M y = b -> solve_right K M b <> None.
Proof.
  intros r c M b y Hwf Hr Hc Hb Hy Hm. unfold solve_right.
  destruct Hwf as [HL HF]. unfold nrows. rewrite HL, Hb, Nat.eqb_refl.
  apply (solve_augmented_complete r c _ y (wf_augment_col r c M b (conj HL HF) Hb) Hr Hy).
  now apply (ker_augment_iff r c M b y (conj HL HF) Hb Hy).
Qed.

(* failure is reported exactly when no solution exists *)
Corollary solve_right_none_iff : forall r c (M : @matrix F) b,
  wf_matrix r c M -> 0 < r -> 0 < c -> length b = r ->
  (solve_right K M b = None <-> ~ exists y, length y = c /\ mvec K M y = b).
Proof.
  intros r c M b Hwf Hr Hc Hb. split.
  - intros Hn [y [Hy Hm]]. now apply (solve_right_complete r c M b y).
  - intros Hne. destruct (solve_right K M b) as [x|] eqn:E; auto.
    exfalso. apply Hne. exists x. now apply (solve_right_sound r c M b x).
Qed.

(* transpose *)
Lemma transpose_length : forall (M : @matrix F), length (transpose K M) = ncols M.
Proof. intros. unfold transpose. now rewrite map_length, seq_length. Qed.

Lemma row_transpose : forall (M : @matrix F) j, j < ncols M -> row j (transpose K M) = col K j M.
Proof.
  intros M j Hj. unfold row, transpose.
  rewrite (nth_indep _ [] (col K (nth j (seq 0 (ncols M)) O) M)) by now rewrite map_length, seq_length.
  rewrite (map_nth (fun j => col K j M)). now rewrite seq_nth.
Qed.

Lemma wf_transpose : forall r c (M : @matrix F), wf_matrix r c M -> 0 < r -> wf_matrix c r (transpose K M).
Proof.
  intros r c M Hwf Hr. pose proof (ncols_wf r c M Hwf Hr) as Hnc. destruct Hwf as [HL HF]. split.
  - now rewrite transpose_length.
  - apply Forall_forall. intros x Hx. unfold transpose in Hx. apply in_map_iff in Hx.
    destruct Hx as [j [<- _]]. now rewrite col_length.
Qed.

Lemma mvec_transpose : forall (M : @matrix F) x, mvec K (transpose K M) x = vecm K x M.
Proof.
  intros. unfold mvec, transpose, vecm. rewrite map_map. apply map_ext. intros. apply dot_comm.
Qed.

Theorem solve_left_sound : forall r c (M : @matrix F) rv x,
  wf_matrix r c M -> 0 < r -> 0 < c -> length rv = c ->
  solve_left K M rv = Some x -> length x = r /\ vecm K x M = rv.
Proof.
  intros r c M rv x Hwf Hr Hc Hrv Hs. unfold solve_left in Hs.
  destruct (Nat.eqb _ _); [|discriminate].
  pose proof (wf_transpose r c M Hwf Hr) as HwfT.
  destruct (solve_augmented_sound c r _ x (wf_augment_col c r _ rv HwfT Hrv) Hc Hs) as [Hl Hk].
  split; auto. rewrite <- mvec_transpose. now apply (ker_augment_iff c r _ rv x HwfT Hrv Hl).
Qed.

Theorem solve_left_complete : forall r c (M : @matrix F) rv y,
  wf_matrix r c M -> 0 < r -> 0 < c -> length rv = c -> length y = r ->
  vecm K y M = rv -> solve_left K M rv <> None.
Proof.
  intros r c M rv y Hwf Hr Hc Hrv Hy Hm. unfold solve_left.
  rewrite (ncols_wf r c M Hwf Hr), Hrv, Nat.eqb_refl.
  pose proof (wf_transpose r c M Hwf Hr) as HwfT.
  apply (solve_augmented_complete c r _ y (wf_augment_col c r _ rv HwfT Hrv) Hc Hy).
  apply (ker_augment_iff c r _ rv y HwfT Hrv Hy). now rewrite mvec_transpose.
Qed.

Corollary solve_left_none_iff : forall r c (M : @matrix F) rv,
  wf_matrix r c M -> 0 < r -> 0 < c -> length rv = c ->
  (solve_left K M rv = None <-> ~ exists y, length y = r /\ vecm K y M = rv).
Proof.
  intros r c M rv Hwf Hr Hc Hrv. split.
  - intros Hn [y [Hy Hm]]. now apply (solve_left_complete r c M rv y).
  - intros Hne. destruct (solve_left K M rv) as [x|] eqn:E; auto.
    exfalso. apply Hne. exists x. now apply (solve_left_sound r c M rv x).
Qed.

End LinAlgProofs.
