(* LinAlg_proofs.v — lemmas about model/LinAlg.v over an arbitrary field (flaws K). *)
From Coq Require Import List Arith Bool Lia Field Ring.
Import ListNotations.
Require Import V.base.Fld V.model.LinAlg.

(* ---- generic list helpers ------------------------------------------------------- *)

Lemma upd_length : forall {A} i (x : A) l, length (upd i x l) = length l.
Proof. intros A i x l; revert i; induction l as [|h t IH]; intros [|i]; cbn; auto. Qed.

Lemma nth_upd : forall {A} (l : list A) i k x d,
  nth k (upd i x l) d = if Nat.eqb k i then (if Nat.ltb i (length l) then x else d) else nth k l d.
Proof.
  intros A l; induction l as [|h t IH]; intros i k x d.
  - cbn [upd length]. replace (i <? 0) with false by (symmetry; apply Nat.ltb_ge; lia).
    destruct k; destruct (Nat.eqb _ i); reflexivity.
  - destruct i as [|i]; destruct k as [|k]; cbn [upd nth length]; try reflexivity.
    rewrite IH. cbn [Nat.eqb]. destruct (Nat.eqb k i); [|reflexivity].
    change (S i <? S (length t)) with (i <? length t). reflexivity.
Qed.

Lemma nth_upd_same : forall {A} (l : list A) i x d, i < length l -> nth i (upd i x l) d = x.
Proof. intros. rewrite nth_upd, Nat.eqb_refl. apply Nat.ltb_lt in H. now rewrite H. Qed.

Lemma nth_upd_other : forall {A} (l : list A) i k x d, k <> i -> nth k (upd i x l) d = nth k l d.
Proof. intros. rewrite nth_upd. apply Nat.eqb_neq in H. now rewrite H. Qed.

Lemma mapi_from_length : forall {A B} (f : nat -> A -> B) l k, length (mapi_from k f l) = length l.
Proof. intros A B f l; induction l; intros; cbn; auto. Qed.

Lemma mapi_length : forall {A B} (f : nat -> A -> B) l, length (mapi f l) = length l.
Proof. intros; apply mapi_from_length. Qed.

Lemma nth_mapi_from : forall {A B} (f : nat -> A -> B) l k i da db,
  i < length l -> nth i (mapi_from k f l) db = f (k + i) (nth i l da).
Proof.
  intros A B f l; induction l as [|h t IH]; intros k i da db Hi; cbn in Hi; [lia|].
  destruct i; cbn [mapi_from nth].
  - now rewrite Nat.add_0_r.
  - rewrite (IH (S k) i da db) by lia. f_equal. lia.
Qed.

Lemma nth_mapi : forall {A B} (f : nat -> A -> B) l i da db,
  i < length l -> nth i (mapi f l) db = f i (nth i l da).
Proof. intros. unfold mapi. now rewrite (nth_mapi_from f l 0 i da db). Qed.

Lemma mapi_from_ext : forall {A B} (f g : nat -> A -> B) l k,
  (forall i a, f i a = g i a) -> mapi_from k f l = mapi_from k g l.
Proof. intros A B f g l; induction l; intros; cbn; f_equal; auto. Qed.

Lemma nth_ext_eq : forall {A} (l1 l2 : list A) d, length l1 = length l2 ->
  (forall i, i < length l1 -> nth i l1 d = nth i l2 d) -> l1 = l2.
Proof. intros. apply (nth_ext l1 l2 d d); auto. Qed.

Section LinAlgProofs.
Context {F : Type} (K : fops F) (HK : flaws K).

Add Field Kfield : (fl_theory K HK).

Notation "0" := (f0 K).
Notation "1" := (f1 K).
Infix "+" := (fadd K).
Infix "*" := (fmul K).
Infix "-" := (fsub K).

Lemma fis0_true : forall x, fis0 K x = true <-> x = 0.
Proof. intros. unfold fis0. apply (fl_eqb K HK). Qed.

Lemma fis0_false : forall x, fis0 K x = false <-> x <> 0.
Proof.
  intros. split; intro H.
  - intro E. apply fis0_true in E. congruence.
  - destruct (fis0 K x) eqn:E; auto. apply fis0_true in E. contradiction.
Qed.

Lemma f1_neq_0 : 1 <> 0.
Proof. exact (F_1_neq_0 (fl_theory K HK)). Qed.

Lemma finv_l : forall x, x <> 0 -> finv K x * x = 1.
Proof. exact (Finv_l (fl_theory K HK)). Qed.

Lemma fdiv_def : forall x y, fdiv K x y = x * finv K y.
Proof. exact (Fdiv_def (fl_theory K HK)). Qed.

Lemma fmul_eq_0 : forall x y, x * y = 0 -> x = 0 \/ y = 0.
Proof.
  intros x y H. destruct (fis0 K x) eqn:E.
  - left. now apply fis0_true.
  - right. apply fis0_false in E.
    assert (finv K x * (x * y) = y) as <- by (field; auto).
    rewrite H. ring.
Qed.

Lemma wf_matrixb_iff : forall r c (M : @matrix F), wf_matrixb r c M = true <-> wf_matrix r c M.
Proof.
  intros r c M. unfold wf_matrixb, wf_matrix.
  rewrite andb_true_iff, Nat.eqb_eq, forallb_forall, Forall_forall.
  split; intros [H1 H2]; split; auto; intros x Hx; apply Nat.eqb_eq; auto.
Qed.

(* ---- dot ---------------------------------------------------------------------------- *)

Lemma dot_fold_acc : forall (l : list (F * F)) a,
  fold_left (fun acc ab => acc + fst ab * snd ab) l a =
  a + fold_left (fun acc ab => acc + fst ab * snd ab) l 0.
Proof.
  induction l as [|h t IH]; intros a; cbn [fold_left].
  - ring.
  - rewrite IH. rewrite (IH (0 + _)). ring.
Qed.

Lemma dot_nil_l : forall v, dot K [] v = 0.
Proof. reflexivity. Qed.

Lemma dot_nil_r : forall u, dot K u [] = 0.
Proof. intros [|a u]; reflexivity. Qed.

Lemma dot_cons : forall a u b v, dot K (a :: u) (b :: v) = a * b + dot K u v.
Proof.
  intros. unfold dot. cbn [combine fold_left fst snd]. rewrite dot_fold_acc. ring.
Qed.

Lemma dot_comm : forall u v, dot K u v = dot K v u.
Proof.
  induction u as [|a u IH]; intros [|b v]; try reflexivity.
  rewrite !dot_cons, IH. ring.
Qed.

Lemma dot_app : forall u1 v1 u2 v2, length u1 = length v1 ->
  dot K (u1 ++ u2) (v1 ++ v2) = dot K u1 v1 + dot K u2 v2.
Proof.
  induction u1 as [|a u1 IH]; intros [|b v1] u2 v2 H; cbn in H; try lia.
  - cbn [app]. rewrite dot_nil_l. ring.
  - cbn [app]. rewrite !dot_cons, IH by lia. ring.
Qed.

Lemma dot_vscale_l : forall c r v, dot K (vscale K c r) v = dot K r v * c.
Proof.
  induction r as [|a r IH]; intros [|b v]; cbn [vscale map]; rewrite ?dot_nil_l, ?dot_nil_r; try ring.
  rewrite !dot_cons. fold (vscale K c r). rewrite IH. ring.
Qed.

Lemma vsubmul_length : forall f p r, length p = length r -> length (vsubmul K f p r) = length r.
Proof. intros. unfold vsubmul. rewrite map_length, combine_length. lia. Qed.

Lemma dot_vsubmul_l : forall f p r v, length p = length r ->
  dot K (vsubmul K f p r) v = dot K r v - f * dot K p v.
Proof.
  intros f p r; revert p; induction r as [|a r IH]; intros [|b p] v H; cbn in H; try lia.
  - unfold vsubmul. cbn [combine map]. rewrite !dot_nil_l. ring.
  - destruct v as [|c v].
    + rewrite !dot_nil_r. ring.
    + unfold vsubmul. cbn [combine map fst snd]. fold (vsubmul K f p r).
      rewrite !dot_cons, IH by lia. ring.
Qed.

Lemma nth_vscale : forall c r j, nth j (vscale K c r) 0 = nth j r 0 * c.
Proof.
  induction r as [|a r IH]; intros [|j]; cbn [vscale map nth]; try ring.
  apply IH.
Qed.

Lemma nth_vsubmul : forall f p r j, length p = length r ->
  nth j (vsubmul K f p r) 0 = nth j r 0 - f * nth j p 0.
Proof.
  intros f p r; revert p; induction r as [|a r IH]; intros [|b p] j H; cbn in H; try lia.
  - destruct j; cbn; ring.
  - unfold vsubmul. cbn [combine map fst snd]. fold (vsubmul K f p r).
    destruct j; cbn [nth]; [ring|]. apply IH; lia.
Qed.

Lemma dot_zero_l : forall n v, dot K (zero_vec K n) v = 0.
Proof.
  induction n as [|n IH]; intros [|b v]; cbn [zero_vec repeat]; rewrite ?dot_nil_l, ?dot_nil_r; auto.
  rewrite dot_cons. fold (zero_vec K n). rewrite IH. ring.
Qed.

Lemma dot_zero_r : forall n v, dot K v (zero_vec K n) = 0.
Proof. intros. rewrite dot_comm. apply dot_zero_l. Qed.

(* all pointwise products vanish except at position k *)
Lemma dot_single : forall u v k,
  (forall j, j <> k -> nth j u 0 * nth j v 0 = 0) ->
  dot K u v = nth k u 0 * nth k v 0.
Proof.
  induction u as [|a u IH]; intros v k H.
  - rewrite dot_nil_l. destruct k; cbn; ring.
  - destruct v as [|b v].
    + rewrite dot_nil_r. destruct k; cbn; ring.
    + rewrite dot_cons. destruct k as [|k]; cbn [nth].
      * rewrite (IH v (length u)).
        -- rewrite (nth_overflow u) by lia. ring.
        -- intros j Hj. apply (H (S j)). lia.
      * rewrite (IH v k).
        -- specialize (H O). cbn [nth] in H. rewrite H by lia. ring.
        -- intros j Hj. apply (H (S j)). lia.
Qed.

Lemma dot_all_zero : forall u v, (forall j, nth j u 0 * nth j v 0 = 0) -> dot K u v = 0.
Proof.
  intros u v H. rewrite (dot_single u v (length u)).
  - rewrite (nth_overflow u) by lia. ring.
  - intros; apply H.
Qed.

End LinAlgProofs.
