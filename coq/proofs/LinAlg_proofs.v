(* LinAlg_proofs.v — lemmas about model/LinAlg.v over an arbitrary field (flaws K). *)
From Coq Require Import List Arith Bool Lia Field Ring.
Import ListNotations.
Require Import V.base.Fld V.model.LinAlg.

(* ---- generic list helpers ------------------------------------------------------- *)

Lemma upd_length : forall {A} i (x : A) l, length (upd i x l) = length l.
Proof. intros A i x l; revert i; induction l as [|h t IH]; intros [|i]; cbn; auto. Qed.

Lemma nth_upd : forall {A} (l : list A) i k x d,
  nth k (upd i x l) d = if Nat.eqb k i then (if Nat.ltb i (length l) then x else d) else nth k l d.
Proof.
  intros A l; induction l as [|h t IH]; intros i k x d.
  - cbn [upd length]. replace (i <? 0) with false by (symmetry; apply Nat.ltb_ge; lia).
    destruct k; destruct (Nat.eqb _ i); reflexivity.
  - destruct i as [|i]; destruct k as [|k]; cbn [upd nth length]; try reflexivity.
    rewrite IH. cbn [Nat.eqb]. destruct (Nat.eqb k i); [|reflexivity].
    change (S i <? S (length t)) with (i <? length t). reflexivity.
Qed.

Lemma nth_upd_same : forall {A} (l : list A) i x d, i < length l -> nth i (upd i x l) d = x.
Proof. intros. rewrite nth_upd, Nat.eqb_refl. apply Nat.ltb_lt in H. now rewrite H. Qed.

Lemma nth_upd_other : forall {A} (l : list A) i k x d, k <> i -> nth k (upd i x l) d = nth k l d.
Proof. intros. rewrite nth_upd. apply Nat.eqb_neq in H. now rewrite H. Qed.

Lemma mapi_from_length : forall {A B} (f : nat -> A -> B) l k, length (mapi_from k f l) = length l.
Proof. intros A B f l; induction l; intros; cbn; auto. Qed.

Lemma mapi_length : forall {A B} (f : nat -> A -> B) l, length (mapi f l) = length l.
Proof. intros; apply mapi_from_length. Qed.

Lemma nth_mapi_from : forall {A B} (f : nat -> A -> B) l k i da db,
  i < length l -> nth i (mapi_from k f l) db = f (k + i) (nth i l da).
Proof.
  intros A B f l; induction l as [|h t IH]; intros k i da db Hi; cbn in Hi; [lia|].
  destruct i; cbn [mapi_from nth].
  - now rewrite Nat.add_0_r.
  - rewrite (IH (S k) i da db) by lia. f_equal. lia.
Qed.

Lemma nth_mapi : forall {A B} (f : nat -> A -> B) l i da db,
  i < length l -> nth i (mapi f l) db = f i (nth i l da).
Proof. intros. unfold mapi. now rewrite (nth_mapi_from f l 0 i da db). Qed.

Lemma mapi_from_ext : forall {A B} (f g : nat -> A -> B) l k,
  (forall i a, f i a = g i a) -> mapi_from k f l = mapi_from k g l.
Proof. intros A B f g l; induction l; intros; cbn; f_equal; auto. Qed.

Lemma nth_ext_eq : forall {A} (l1 l2 : list A) d, length l1 = length l2 ->
  (forall i, i < length l1 -> nth i l1 d = nth i l2 d) -> l1 = l2.
Proof. intros. apply (nth_ext l1 l2 d d); auto. Qed.

Section LinAlgProofs.
Context {F : Type} (K : fops F) (HK : flaws K).

Add Field Kfield : (fl_theory K HK).

Notation "0" := (f0 K).
Notation "1" := (f1 K).
Infix "+" := (fadd K).
Infix "*" := (fmul K).
Infix "-" := (fsub K).

Lemma fis0_true : forall x, fis0 K x = true <-> x = 0.
Proof. intros. unfold fis0. apply (fl_eqb K HK). Qed.

Lemma fis0_false : forall x, fis0 K x = false <-> x <> 0.
Proof.
  intros. split; intro H.
  - intro E. apply fis0_true in E. congruence.
  - destruct (fis0 K x) eqn:E; auto. apply fis0_true in E. contradiction.
Qed.

Lemma f1_neq_0 : 1 <> 0.
Proof. exact (F_1_neq_0 (fl_theory K HK)). Qed.

Lemma finv_l : forall x, x <> 0 -> finv K x * x = 1.
Proof. exact (Finv_l (fl_theory K HK)). Qed.

Lemma fdiv_def : forall x y, fdiv K x y = x * finv K y.
Proof. exact (Fdiv_def (fl_theory K HK)). Qed.

Lemma fmul_eq_0 : forall x y, x * y = 0 -> x = 0 \/ y = 0.
Proof.
  intros x y H. destruct (fis0 K x) eqn:E.
  - left. now apply fis0_true.
  - right. apply fis0_false in E.
    assert (finv K x * (x * y) = y) as <- by (field; auto).
    rewrite H. ring.
Qed.

Lemma wf_matrixb_iff : forall r c (M : @matrix F), wf_matrixb r c M = true <-> wf_matrix r c M.
Proof.
  intros r c M. unfold wf_matrixb, wf_matrix.
  rewrite andb_true_iff, Nat.eqb_eq, forallb_forall, Forall_forall.
  split; intros [H1 H2]; split; auto; intros x Hx; apply Nat.eqb_eq; auto.
Qed.

(* ---- dot ---------------------------------------------------------------------------- *)

Lemma dot_fold_acc : forall (l : list (F * F)) a,
  fold_left (fun acc ab => acc + fst ab * snd ab) l a =
  a + fold_left (fun acc ab => acc + fst ab * snd ab) l 0.
Proof.
  induction l as [|h t IH]; intros a; cbn [fold_left].
  - ring.
  - rewrite IH. rewrite (IH (0 + _)). ring.
Qed.

Lemma dot_nil_l : forall v, dot K [] v = 0.
Proof. reflexivity. Qed.

Lemma dot_nil_r : forall u, dot K u [] = 0.
Proof. intros [|a u]; reflexivity. Qed.

Lemma dot_cons : forall a u b v, dot K (a :: u) (b :: v) = a * b + dot K u v.
Proof.
  intros. unfold dot. cbn [combine fold_left fst snd]. rewrite dot_fold_acc. ring.
Qed.

Lemma dot_comm : forall u v, dot K u v = dot K v u.
Proof.
  induction u as [|a u IH]; intros [|b v]; try reflexivity.
  rewrite !dot_cons, IH. ring.
Qed.

Lemma dot_app : forall u1 v1 u2 v2, length u1 = length v1 ->
  dot K (u1 ++ u2) (v1 ++ v2) = dot K u1 v1 + dot K u2 v2.
Proof.
  induction u1 as [|a u1 IH]; intros [|b v1] u2 v2 H; cbn in H; try lia.
  - cbn [app]. rewrite dot_nil_l. ring.
  - cbn [app]. rewrite !dot_cons, IH by lia. ring.
Qed.

Lemma dot_vscale_l : forall c r v, dot K (vscale K c r) v = dot K r v * c.
Proof.
  induction r as [|a r IH]; intros [|b v]; cbn [vscale map]; rewrite ?dot_nil_l, ?dot_nil_r; try ring.
  rewrite !dot_cons. fold (vscale K c r). rewrite IH. ring.
Qed.

Lemma vsubmul_length : forall f p r, length p = length r -> length (vsubmul K f p r) = length r.
Proof. intros. unfold vsubmul. rewrite map_length, combine_length. lia. Qed.

Lemma dot_vsubmul_l : forall f p r v, length p = length r ->
  dot K (vsubmul K f p r) v = dot K r v - f * dot K p v.
Proof.
  intros f p r; revert p; induction r as [|a r IH]; intros [|b p] v H; cbn in H; try lia.
  - unfold vsubmul. cbn [combine map]. rewrite !dot_nil_l. ring.
  - destruct v as [|c v].
    + rewrite !dot_nil_r. ring.
    + unfold vsubmul. cbn [combine map fst snd]. fold (vsubmul K f p r).
      rewrite !dot_cons, IH by lia. ring.
Qed.

Lemma nth_vscale : forall c r j, nth j (vscale K c r) 0 = nth j r 0 * c.
Proof.
  induction r as [|a r IH]; intros [|j]; cbn [vscale map nth]; try ring.
  apply IH.
Qed.

Lemma nth_vsubmul : forall f p r j, length p = length r ->
  nth j (vsubmul K f p r) 0 = nth j r 0 - f * nth j p 0.
Proof.
  intros f p r; revert p; induction r as [|a r IH]; intros [|b p] j H; cbn in H; try lia.
  - destruct j; cbn; ring.
  - unfold vsubmul. cbn [combine map fst snd]. fold (vsubmul K f p r).
    destruct j; cbn [nth]; [ring|]. apply IH; lia.
Qed.

Lemma dot_zero_l : forall n v, dot K (zero_vec K n) v = 0.
Proof.
  induction n as [|n IH]; intros [|b v]; cbn [zero_vec repeat]; rewrite ?dot_nil_l, ?dot_nil_r; auto.
  rewrite dot_cons. fold (zero_vec K n). rewrite IH. ring.
Qed.

Lemma dot_zero_r : forall n v, dot K v (zero_vec K n) = 0.
Proof. intros. rewrite dot_comm. apply dot_zero_l. Qed.

(* all pointwise products vanish except at position k *)
Lemma dot_single : forall u v k,
  (forall j, j <> k -> nth j u 0 * nth j v 0 = 0) ->
  dot K u v = nth k u 0 * nth k v 0.
Proof.
  induction u as [|a u IH]; intros v k H.
  - rewrite dot_nil_l. destruct k; cbn; ring.
  - destruct v as [|b v].
    + rewrite dot_nil_r. destruct k; cbn; ring.
    + rewrite dot_cons. destruct k as [|k]; cbn [nth].
      * rewrite (IH v (length u)).
        -- rewrite (nth_overflow u) by lia. ring.
        -- intros j Hj. apply (H (S j)). lia.
      * rewrite (IH v k).
        -- specialize (H O). cbn [nth] in H. rewrite H by lia. ring.
        -- intros j Hj. apply (H (S j)). lia.
Qed.

Lemma dot_all_zero : forall u v, (forall j, nth j u 0 * nth j v 0 = 0) -> dot K u v = 0.
Proof.
  intros u v H. rewrite (dot_single u v (length u)).
  - rewrite (nth_overflow u) by lia. ring.
  - intros; apply H.
Qed.


(* ---- rows, entries and the elementary row operations -------------------------------- *)

Lemma wf_row_length : forall r c (M : @matrix F) k, wf_matrix r c M -> k < r -> length (row k M) = c.
Proof.
  intros r c M k [HL HF] Hk. unfold row. rewrite Forall_forall in HF. apply HF. apply nth_In. lia.
Qed.

Lemma row_overflow : forall (M : @matrix F) k, length M <= k -> row k M = [].
Proof. intros. unfold row. now apply nth_overflow. Qed.

Lemma entry_row : forall (M : @matrix F) k j, entry K k j M = nth j (row k M) 0.
Proof. reflexivity. Qed.

Lemma wf_upd : forall r c (M : @matrix F) i x, wf_matrix r c M -> length x = c -> wf_matrix r c (upd i x M).
Proof.
  intros r c M i x [HL HF] Hx. split; [now rewrite upd_length|].
  clear HL. revert i. induction HF as [|h t Hh Ht IH]; intros [|i]; cbn [upd]; constructor; auto.
Qed.

(* swap *)
Definition swap_idx (a b k : nat) : nat := if Nat.eqb k a then b else if Nat.eqb k b then a else k.

Lemma row_swap_rows : forall (M : @matrix F) a b k, a < length M -> b < length M ->
  row k (swap_rows a b M) = row (swap_idx a b k) M.
Proof.
  intros M a b k Ha Hb. unfold swap_rows, row, swap_idx.
  rewrite nth_upd, upd_length. apply Nat.ltb_lt in Ha as Ha'. rewrite Ha'.
  destruct (Nat.eqb k a) eqn:E1; [reflexivity|].
  rewrite nth_upd. apply Nat.ltb_lt in Hb as Hb'. rewrite Hb'. destruct (Nat.eqb k b); reflexivity.
Qed.

Lemma wf_swap_rows : forall r c (M : @matrix F) a b, wf_matrix r c M -> a < r -> b < r ->
  wf_matrix r c (swap_rows a b M).
Proof.
  intros r c M a b H Ha Hb. unfold swap_rows.
  apply wf_upd; [apply wf_upd; auto|]; eapply wf_row_length; eauto.
Qed.

(* scale *)
Lemma row_scale_row : forall (M : @matrix F) a c k,
  row k (scale_row K a c M) = if Nat.eqb k a then vscale K c (row k M) else row k M.
Proof.
  intros M a c k. unfold scale_row, row. rewrite nth_upd.
  destruct (Nat.eqb k a) eqn:E; [|reflexivity].
  apply Nat.eqb_eq in E; subst k.
  destruct (Nat.ltb a (length M)) eqn:E2; [reflexivity|].
  apply Nat.ltb_ge in E2. rewrite (nth_overflow M) by lia. reflexivity.
Qed.

Lemma wf_scale_row : forall r c (M : @matrix F) a x, wf_matrix r c M -> wf_matrix r c (scale_row K a x M).
Proof.
  intros r c M a x H. destruct (Nat.ltb a r) eqn:E.
  - apply Nat.ltb_lt in E. unfold scale_row. apply wf_upd; auto.
    unfold vscale. rewrite map_length. eapply wf_row_length; eauto.
  - apply Nat.ltb_ge in E. unfold scale_row.
    replace (upd a (vscale K x (row a M)) M) with M; auto.
    destruct H as [HL _]. clear -HL E. revert a r HL E.
    induction M as [|h t IH]; intros [|a] r HL E; cbn [upd]; auto.
    + cbn in HL. lia.
    + f_equal. cbn in HL. apply (IH a (pred r)); lia.
Qed.

(* eliminate *)
Lemma row_eliminate_by : forall (M : @matrix F) fs p k, k < length M ->
  row k (eliminate_by K fs p M) =
  if Nat.eqb k p then row k M
  else if fis0 K (nth k fs 0) then row k M else vsubmul K (nth k fs 0) (row p M) (row k M).
Proof.
  intros M fs p k Hk. unfold eliminate_by, row.
  rewrite (nth_mapi _ M k [] []) by auto. reflexivity.
Qed.

Lemma eliminate_by_length : forall (M : @matrix F) fs p, length (eliminate_by K fs p M) = length M.
Proof. intros. unfold eliminate_by. apply mapi_length. Qed.

Lemma row_eliminate_by_overflow : forall (M : @matrix F) fs p k, length M <= k ->
  row k (eliminate_by K fs p M) = [].
Proof. intros. apply row_overflow. now rewrite eliminate_by_length. Qed.

Lemma wf_eliminate_by : forall r c (M : @matrix F) fs p, wf_matrix r c M -> p < r ->
  wf_matrix r c (eliminate_by K fs p M).
Proof.
  intros r c M fs p H Hp. pose proof H as [HL HF]. split; [now rewrite eliminate_by_length|].
  apply Forall_forall. intros x Hx.
  destruct (In_nth _ _ [] Hx) as [k [Hk Hnth]]. rewrite eliminate_by_length in Hk.
  fold (row k (eliminate_by K fs p M)) in Hnth. rewrite row_eliminate_by in Hnth by auto.
  subst x. assert (Hrk : length (row k M) = c) by (eapply wf_row_length; eauto; lia).
  destruct (Nat.eqb k p); auto. destruct (fis0 K _); auto.
  rewrite vsubmul_length; auto. rewrite Hrk. eapply wf_row_length; eauto.
Qed.

(* the value of [dot (row k M') v] after each operation *)
Lemma dot_row_eliminate_by : forall r c (M : @matrix F) fs p k v, wf_matrix r c M -> p < r -> k < r ->
  dot K (row k (eliminate_by K fs p M)) v =
  if Nat.eqb k p then dot K (row k M) v else dot K (row k M) v - nth k fs 0 * dot K (row p M) v.
Proof.
  intros r c M fs p k v H Hp Hk. pose proof H as [HL _].
  rewrite row_eliminate_by by lia. destruct (Nat.eqb k p); auto.
  destruct (fis0 K (nth k fs 0)) eqn:E.
  - apply fis0_true in E. rewrite E. ring.
  - apply dot_vsubmul_l. rewrite (wf_row_length r c M p), (wf_row_length r c M k); auto.
Qed.

Lemma entry_eliminate_by : forall r c (M : @matrix F) fs p k j, wf_matrix r c M -> p < r -> k < r ->
  entry K k j (eliminate_by K fs p M) =
  if Nat.eqb k p then entry K k j M else entry K k j M - nth k fs 0 * entry K p j M.
Proof.
  intros r c M fs p k j H Hp Hk. pose proof H as [HL _].
  rewrite !entry_row, row_eliminate_by by lia. destruct (Nat.eqb k p); auto.
  destruct (fis0 K (nth k fs 0)) eqn:E.
  - apply fis0_true in E. rewrite E. ring.
  - apply nth_vsubmul. rewrite (wf_row_length r c M p), (wf_row_length r c M k); auto.
Qed.

Lemma entry_scale_row : forall (M : @matrix F) a x k j,
  entry K k j (scale_row K a x M) = if Nat.eqb k a then entry K k j M * x else entry K k j M.
Proof.
  intros. rewrite !entry_row, row_scale_row. destruct (Nat.eqb k a); auto. apply nth_vscale.
Qed.

Lemma entry_swap_rows : forall (M : @matrix F) a b k j, a < length M -> b < length M ->
  entry K k j (swap_rows a b M) = entry K (swap_idx a b k) j M.
Proof. intros. rewrite !entry_row, row_swap_rows; auto. Qed.

Lemma entry_overflow : forall (M : @matrix F) k j, length M <= k -> entry K k j M = 0.
Proof. intros. rewrite entry_row, row_overflow by auto. destruct j; reflexivity. Qed.

Lemma nth_col : forall (M : @matrix F) j k, nth k (col K j M) 0 = entry K k j M.
Proof.
  intros M j k. unfold col, entry.
  destruct (Nat.ltb k (length M)) eqn:E.
  - apply Nat.ltb_lt in E. rewrite (nth_indep _ 0 (nth j [] 0)) by (rewrite map_length; auto).
    rewrite (map_nth (fun r => nth j r 0) M [] k). reflexivity.
  - apply Nat.ltb_ge in E. rewrite nth_overflow by (rewrite map_length; auto).
    rewrite (nth_overflow M) by auto. destruct j; reflexivity.
Qed.

Lemma col_length : forall (M : @matrix F) j, length (col K j M) = length M.
Proof. intros. unfold col. apply map_length. Qed.

(* ---- kernel: [ker M v] = every row of M is orthogonal to v ----------------------------- *)

Definition ker (M : @matrix F) (v : list F) : Prop := forall k, dot K (row k M) v = 0.

Lemma ker_swap_rows : forall (M : @matrix F) a b v, a < length M -> b < length M ->
  (ker (swap_rows a b M) v <-> ker M v).
Proof.
  intros M a b v Ha Hb. unfold ker. split; intros H k.
  - specialize (H (swap_idx a b k)). rewrite row_swap_rows in H by auto.
    replace (swap_idx a b (swap_idx a b k)) with k in H; auto.
    unfold swap_idx.
    destruct (Nat.eqb k a) eqn:E1; destruct (Nat.eqb k b) eqn:E2;
      repeat (rewrite ?Nat.eqb_refl; try match goal with
              | H : Nat.eqb _ _ = true |- _ => apply Nat.eqb_eq in H; subst
              end); auto.
    + destruct (Nat.eqb b a) eqn:E3; auto. apply Nat.eqb_eq in E3; auto.
    + rewrite E1, E2. reflexivity.
  - rewrite row_swap_rows by auto. apply H.
Qed.

Lemma ker_scale_row : forall (M : @matrix F) a x v, x <> 0 ->
  (ker (scale_row K a x M) v <-> ker M v).
Proof.
  intros M a x v Hx. unfold ker. split; intros H k; specialize (H k); rewrite row_scale_row in *.
  - destruct (Nat.eqb k a); auto. rewrite dot_vscale_l in H.
    apply fmul_eq_0 in H. destruct H; [auto|contradiction].
  - destruct (Nat.eqb k a); auto. rewrite dot_vscale_l, H. ring.
Qed.

Lemma ker_eliminate_by : forall r c (M : @matrix F) fs p v, wf_matrix r c M -> p < r ->
  (ker (eliminate_by K fs p M) v <-> ker M v).
Proof.
  intros r c M fs p v HW Hp. pose proof HW as [HL _]. unfold ker. split; intros H k.
  - destruct (Nat.ltb k r) eqn:E.
    + apply Nat.ltb_lt in E.
      pose proof (H p) as Hpp. rewrite (dot_row_eliminate_by r c) in Hpp by auto.
      rewrite Nat.eqb_refl in Hpp.
      specialize (H k). rewrite (dot_row_eliminate_by r c) in H by auto.
      destruct (Nat.eqb k p) eqn:E2; auto. rewrite Hpp in H.
      rewrite <- H. ring.
    + apply Nat.ltb_ge in E. rewrite row_overflow by lia. apply dot_nil_l.
  - destruct (Nat.ltb k r) eqn:E.
    + apply Nat.ltb_lt in E. rewrite (dot_row_eliminate_by r c) by auto.
      destruct (Nat.eqb k p); auto. rewrite (H k), (H p). ring.
    + apply Nat.ltb_ge in E. rewrite row_eliminate_by_overflow by lia. apply dot_nil_l.
Qed.


(* ---- pivot search ---------------------------------------------------------------------- *)

Lemma nth_skipn_add : forall {A} (l : list A) n i d, nth i (skipn n l) d = nth (n + i)%nat l d.
Proof.
  intros A l; induction l as [|h t IH]; intros n i d.
  - rewrite skipn_nil. destruct i; destruct (n + _)%nat; reflexivity.
  - destruct n; cbn [skipn Nat.add]; auto. cbn [nth]. apply IH.
Qed.

Lemma find_pivot_spec : forall pc rows start,
  match find_pivot K pc start rows with
  | None => forall i, nth pc (nth i rows []) 0 = 0
  | Some p => start <= p /\ p < (start + length rows)%nat /\ nth pc (nth (p - start) rows []) 0 <> 0
  end.
Proof.
  intros pc rows; induction rows as [|h t IH]; intros start; cbn [find_pivot].
  - intros i. destruct i; destruct pc; reflexivity.
  - destruct (fis0 K (nth pc h 0)) eqn:E.
    + specialize (IH (S start)). destruct (find_pivot K pc (S start) t) as [p|].
      * destruct IH as (H1 & H2 & H3). cbn [length]. repeat split; try lia.
        replace (p - start)%nat with (S (p - S start)) by lia. exact H3.
      * intros [|i]; cbn [nth]; auto. now apply fis0_true.
    + cbn [length]. repeat split; try lia. rewrite Nat.sub_diag. cbn [nth]. now apply fis0_false.
Qed.

Lemma find_pivot_row_spec : forall pc pr (M : @matrix F),
  match find_pivot_row K pc pr M with
  | None => forall k, pr <= k -> entry K k pc M = 0
  | Some p => pr <= p /\ p < length M /\ entry K p pc M <> 0
  end.
Proof.
  intros pc pr M. unfold find_pivot_row. pose proof (find_pivot_spec pc (skipn pr M) pr) as H.
  destruct (find_pivot K pc pr (skipn pr M)) as [p|].
  - destruct H as (H1 & H2 & H3). rewrite skipn_length in H2. rewrite nth_skipn_add in H3.
    replace (pr + (p - pr))%nat with p in H3 by lia.
    repeat split; auto.
    destruct (Nat.ltb p (length M)) eqn:E; [now apply Nat.ltb_lt in E|].
    apply Nat.ltb_ge in E. lia.
  - intros k Hk. specialize (H (k - pr)%nat). rewrite nth_skipn_add in H.
    replace (pr + (k - pr))%nat with k in H by lia. exact H.
Qed.

(* ---- the Gauss–Jordan invariant ----------------------------------------------------------- *)

Record gj_inv (r c pc : nat) (M : @matrix F) (pr : nat) (pivs : list nat) : Prop := mk_gj_inv {
  gi_wf : wf_matrix r c M;
  gi_len : pr = length pivs;
  gi_le : pr <= r;
  gi_lt : forall l, l < pr -> nth l pivs O < pc;
  gi_unit : forall l k, l < pr -> entry K k (nth l pivs O) M = if Nat.eqb k l then 1 else 0;
  gi_zero : forall k j, pr <= k -> j < pc -> entry K k j M = 0
}.

Lemma swap_idx_ge : forall a b k, a <= b -> a <= k -> a <= swap_idx a b k.
Proof. intros. unfold swap_idx. destruct (Nat.eqb k a); [lia|]. destruct (Nat.eqb k b); lia. Qed.

Lemma swap_idx_lt : forall a b k, a <= b -> k < a -> swap_idx a b k = k.
Proof.
  intros. unfold swap_idx.
  destruct (Nat.eqb k a) eqn:E1; [apply Nat.eqb_eq in E1; lia|].
  destruct (Nat.eqb k b) eqn:E2; [apply Nat.eqb_eq in E2; lia|]. reflexivity.
Qed.

(* the matrix after the (conditional) swap *)
Definition gj_swapped (pr p : nat) (M : @matrix F) : matrix := if Nat.eqb p pr then M else swap_rows pr p M.

Lemma entry_gj_swapped : forall (M : @matrix F) pr p k j, pr < length M -> p < length M ->
  entry K k j (gj_swapped pr p M) = entry K (swap_idx pr p k) j M.
Proof.
  intros M pr p k j H1 H2. unfold gj_swapped. destruct (Nat.eqb p pr) eqn:E.
  - apply Nat.eqb_eq in E; subst p. unfold swap_idx.
    destruct (Nat.eqb k pr) eqn:E2; [apply Nat.eqb_eq in E2; subst; reflexivity|reflexivity].
  - apply entry_swap_rows; auto.
Qed.

Lemma gj_inv_swapped : forall r c pc M pr pivs p, gj_inv r c pc M pr pivs -> pr <= p -> p < r ->
  gj_inv r c pc (gj_swapped pr p M) pr pivs.
Proof.
  intros r c pc M pr pivs p [Hwf Hlen Hle Hlt Hunit Hzero] Hp Hpr. pose proof Hwf as [HL _].
  assert (Hent : forall k j, entry K k j (gj_swapped pr p M) = entry K (swap_idx pr p k) j M)
    by (intros; apply entry_gj_swapped; lia).
  constructor; auto.
  - unfold gj_swapped. destruct (Nat.eqb p pr); auto. apply wf_swap_rows; auto; lia.
  - intros l k Hl. rewrite Hent, Hunit by auto.
    destruct (Nat.ltb k pr) eqn:E.
    + apply Nat.ltb_lt in E. rewrite swap_idx_lt by lia. reflexivity.
    + apply Nat.ltb_ge in E. pose proof (swap_idx_ge pr p k Hp E).
      replace (Nat.eqb (swap_idx pr p k) l) with false by (symmetry; apply Nat.eqb_neq; lia).
      replace (Nat.eqb k l) with false by (symmetry; apply Nat.eqb_neq; lia). reflexivity.
  - intros k j Hk Hj. rewrite Hent. apply Hzero; auto. apply swap_idx_ge; auto.
Qed.

Lemma ker_gj_swapped : forall (M : @matrix F) pr p v, pr < length M -> p < length M ->
  (ker (gj_swapped pr p M) v <-> ker M v).
Proof.
  intros. unfold gj_swapped. destruct (Nat.eqb p pr); [tauto|]. apply ker_swap_rows; auto.
Qed.

Lemma finv_neq_0 : forall x, x <> 0 -> finv K x <> 0.
Proof.
  intros x Hx E. pose proof (finv_l x Hx) as H. rewrite E in H.
  apply f1_neq_0. rewrite <- H. ring.
Qed.

(* scale the pivot row and clear the pivot column *)
Lemma gj_inv_reduce : forall r c pc M pr pivs,
  gj_inv r c pc M pr pivs -> pr < r -> entry K pr pc M <> 0 ->
  gj_inv r c (S pc) (eliminate K pr pc (scale_row K pr (finv K (entry K pr pc M)) M)) (S pr) (pivs ++ [pc]).
Proof.
  intros r c pc M pr pivs [Hwf Hlen Hle Hlt Hunit Hzero] Hpr He.
  set (x := finv K (entry K pr pc M)).
  set (M2 := scale_row K pr x M).
  assert (Hwf2 : wf_matrix r c M2) by (apply wf_scale_row; auto).
  assert (E2 : forall k j, entry K k j M2 = if Nat.eqb k pr then entry K k j M * x else entry K k j M)
    by (intros; apply entry_scale_row).
  assert (Epiv : entry K pr pc M2 = 1).
  { rewrite E2, Nat.eqb_refl. unfold x. rewrite <- (finv_l _ He). ring. }
  assert (E3 : forall k j, k < r -> entry K k j (eliminate K pr pc M2) =
             if Nat.eqb k pr then entry K k j M2 else entry K k j M2 - entry K k pc M2 * entry K pr j M2).
  { intros k j Hk. unfold eliminate. rewrite (entry_eliminate_by r c) by auto.
    rewrite nth_col. reflexivity. }
  assert (Eov : forall k j, r <= k -> entry K k j (eliminate K pr pc M2) = 0).
  { intros k j Hk. apply entry_overflow. unfold eliminate. rewrite eliminate_by_length.
    destruct Hwf2 as [HL2 _]. lia. }
  assert (Hnm : nth pr (pivs ++ [pc]) O = pc) by (rewrite Hlen; apply nth_middle).
  constructor.
  - unfold eliminate. apply wf_eliminate_by; auto.
  - rewrite app_length. cbn [length]. lia.
  - lia.
  - intros l Hl. destruct (Nat.eqb l pr) eqn:E.
    + apply Nat.eqb_eq in E; subst l. rewrite Hnm. lia.
    + apply Nat.eqb_neq in E. rewrite app_nth1 by lia. assert (l < pr) by lia. specialize (Hlt l H). lia.
  - intros l k Hl. destruct (Nat.ltb k r) eqn:Ek.
    2:{ apply Nat.ltb_ge in Ek. rewrite Eov by auto.
        replace (Nat.eqb k l) with false by (symmetry; apply Nat.eqb_neq; lia). reflexivity. }
    apply Nat.ltb_lt in Ek. rewrite E3 by auto.
    destruct (Nat.eqb l pr) eqn:E.
    + apply Nat.eqb_eq in E; subst l. rewrite Hnm.
      destruct (Nat.eqb k pr) eqn:Ek2.
      * apply Nat.eqb_eq in Ek2; subst k. exact Epiv.
      * rewrite Epiv. ring.
    + apply Nat.eqb_neq in E. assert (Hl' : l < pr) by lia.
      rewrite app_nth1 by lia.
      assert (Hcol : forall k', entry K k' (nth l pivs O) M2 = if Nat.eqb k' l then 1 else 0).
      { intros k'. rewrite E2, Hunit by auto. destruct (Nat.eqb k' pr) eqn:E4; auto.
        apply Nat.eqb_eq in E4; subst k'.
        replace (Nat.eqb pr l) with false by (symmetry; apply Nat.eqb_neq; lia). ring. }
      rewrite !Hcol.
      replace (Nat.eqb pr l) with false by (symmetry; apply Nat.eqb_neq; lia).
      destruct (Nat.eqb k pr) eqn:Ek2.
      * apply Nat.eqb_eq in Ek2; subst k.
        replace (Nat.eqb pr l) with false by (symmetry; apply Nat.eqb_neq; lia). reflexivity.
      * ring.
  - intros k j Hk Hj. destruct (Nat.ltb k r) eqn:Ek.
    2:{ apply Nat.ltb_ge in Ek. apply Eov; auto. }
    apply Nat.ltb_lt in Ek. rewrite E3 by auto.
    replace (Nat.eqb k pr) with false by (symmetry; apply Nat.eqb_neq; lia).
    destruct (Nat.eqb j pc) eqn:Ej.
    + apply Nat.eqb_eq in Ej; subst j. rewrite Epiv. ring.
    + apply Nat.eqb_neq in Ej. assert (Hj' : j < pc) by lia.
      rewrite !E2. replace (Nat.eqb k pr) with false by (symmetry; apply Nat.eqb_neq; lia).
      rewrite Nat.eqb_refl. rewrite (Hzero k j) by lia. rewrite (Hzero pr j) by lia. ring.
Qed.

Lemma ker_gj_reduce : forall r c pc (M : @matrix F) pr v, wf_matrix r c M -> pr < r -> entry K pr pc M <> 0 ->
  (ker (eliminate K pr pc (scale_row K pr (finv K (entry K pr pc M)) M)) v <-> ker M v).
Proof.
  intros r c pc M pr v Hwf Hpr He. unfold eliminate.
  rewrite (ker_eliminate_by r c) by (auto using wf_scale_row).
  apply ker_scale_row. now apply finv_neq_0.
Qed.

(* one iteration of the column loop *)
Lemma gj_step_inv : forall r c pc st,
  gj_inv r c pc (gj_M st) (gj_pr st) (gj_pivs st) -> gj_pr st < r ->
  gj_inv r c (S pc) (gj_M (gj_step K pc st)) (gj_pr (gj_step K pc st)) (gj_pivs (gj_step K pc st))
  /\ (forall v, ker (gj_M (gj_step K pc st)) v <-> ker (gj_M st) v).
Proof.
  intros r c pc [M pr pivs] Hinv Hpr. cbn [gj_M gj_pr gj_pivs] in *.
  pose proof (gi_wf _ _ _ _ _ _ Hinv) as [HL HF].
  unfold gj_step. cbn [gj_M gj_pr gj_pivs].
  pose proof (find_pivot_row_spec pc pr M) as Hfp.
  destruct (find_pivot_row K pc pr M) as [p|]; cbn [gj_M gj_pr gj_pivs].
  - destruct Hfp as (Hp1 & Hp2 & Hp3).
    fold (gj_swapped pr p M).
    assert (Hinv1 : gj_inv r c pc (gj_swapped pr p M) pr pivs) by (apply gj_inv_swapped; auto; lia).
    assert (He : entry K pr pc (gj_swapped pr p M) <> 0).
    { rewrite entry_gj_swapped by lia. unfold swap_idx. rewrite Nat.eqb_refl. exact Hp3. }
    split.
    + apply gj_inv_reduce; auto.
    + intros v. rewrite (ker_gj_reduce r c) by (auto; apply (gi_wf _ _ _ _ _ _ Hinv1)).
      apply ker_gj_swapped; lia.
  - split; [|tauto]. destruct Hinv as [Hwf Hlen Hle Hlt Hunit Hzero]. constructor; auto.
    { intros l Hl. specialize (Hlt l Hl). lia. }
    intros k j Hk Hj. destruct (Nat.eqb j pc) eqn:E.
    + apply Nat.eqb_eq in E; subst j. apply Hfp; auto.
    + apply Nat.eqb_neq in E. apply Hzero; auto. lia.
Qed.

Lemma gj_loop_inv : forall r c todo pc st,
  gj_inv r c pc (gj_M st) (gj_pr st) (gj_pivs st) ->
  let st' := gj_loop K todo pc st in
  (exists pc', gj_inv r c pc' (gj_M st') (gj_pr st') (gj_pivs st') /\ pc' <= (pc + todo)%nat /\
               (pc' = (pc + todo)%nat \/ gj_pr st' = r))
  /\ (forall v, ker (gj_M st') v <-> ker (gj_M st) v).
Proof.
  intros r c todo; induction todo as [|t IH]; intros pc st Hinv; cbn [gj_loop].
  - split; [|tauto]. exists pc. split; auto. split; [lia|]. left; lia.
  - pose proof (gi_wf _ _ _ _ _ _ Hinv) as [HL _]. pose proof (gi_le _ _ _ _ _ _ Hinv) as Hle.
    unfold nrows. rewrite HL.
    destruct (Nat.ltb (gj_pr st) r) eqn:E.
    + apply Nat.ltb_lt in E. destruct (gj_step_inv r c pc st Hinv E) as [Hinv' Hker'].
      specialize (IH (S pc) _ Hinv'). cbv zeta in IH. destruct IH as [(pc' & H1 & H2 & H3) Hk].
      split.
      * exists pc'. split; auto. split; [lia|]. destruct H3; [left; lia|right; auto].
      * intros v. rewrite Hk. apply Hker'.
    + apply Nat.ltb_ge in E. split; [|tauto]. exists pc. split; auto. split; [lia|]. right. lia.
Qed.


(* ---- extraction of the solution -------------------------------------------------------------- *)

Section Extract.
Variables (n : nat) (M : @matrix F).
Let fx := (fun (sol : list F) (ip : nat * nat) => upd (snd ip) (entry K (fst ip) n M) sol).

Lemma extract_fold_length : forall ps sol0, length (fold_left fx ps sol0) = length sol0.
Proof.
  induction ps as [|[i c0] ps IH]; intros sol0; cbn [fold_left]; auto.
  rewrite IH. unfold fx. apply upd_length.
Qed.

Lemma extract_fold_notin : forall ps sol0 j, ~ In j (map snd ps) ->
  nth j (fold_left fx ps sol0) 0 = nth j sol0 0.
Proof.
  induction ps as [|[i c0] ps IH]; intros sol0 j Hn; cbn [fold_left]; auto.
  cbn [map snd In] in Hn. rewrite IH by tauto. unfold fx. cbn [fst snd].
  apply nth_upd_other. intro; subst; tauto.
Qed.

Lemma extract_fold_in : forall ps sol0 i j, NoDup (map snd ps) -> In (i, j) ps -> j < length sol0 ->
  nth j (fold_left fx ps sol0) 0 = entry K i n M.
Proof.
  induction ps as [|[i0 c0] ps IH]; intros sol0 i j Hnd Hin Hj; cbn [fold_left]; [destruct Hin|].
  cbn [map snd] in Hnd. inversion Hnd as [|? ? Hnotin Hnd']; subst.
  destruct Hin as [Heq|Hin].
  - inversion Heq; subst. rewrite extract_fold_notin by auto. unfold fx. cbn [fst snd].
    apply nth_upd_same; auto.
  - apply IH; auto. unfold fx. now rewrite upd_length.
Qed.
End Extract.

Lemma zero_vec_length : forall n, length (zero_vec K n) = n.
Proof. intros. apply repeat_length. Qed.

Lemma nth_zero_vec : forall n j, nth j (zero_vec K n) 0 = 0.
Proof. induction n as [|n IH]; intros [|j]; cbn [zero_vec repeat nth]; auto. Qed.

Lemma map_snd_combine_seq : forall (l : list nat) s, map snd (combine (seq s (length l)) l) = l.
Proof. induction l as [|h t IH]; intros s; cbn; f_equal; auto. Qed.

Lemma in_combine_seq : forall (l : list nat) s i, i < length l -> In ((s + i)%nat, nth i l O) (combine (seq s (length l)) l).
Proof.
  induction l as [|h t IH]; intros s i Hi; cbn in Hi; [lia|].
  cbn [length seq combine]. destruct i.
  - left. rewrite Nat.add_0_r. reflexivity.
  - right. replace (s + S i)%nat with (S s + i)%nat by lia. apply IH. lia.
Qed.

Lemma extract_solution_length : forall n M pivs, length (extract_solution K n M pivs) = n.
Proof. intros. unfold extract_solution. rewrite extract_fold_length. apply zero_vec_length. Qed.

Lemma extract_solution_pivot : forall n M pivs l, NoDup pivs -> l < length pivs -> nth l pivs O < n ->
  nth (nth l pivs O) (extract_solution K n M pivs) 0 = entry K l n M.
Proof.
  intros n M pivs l Hnd Hl Hlt. unfold extract_solution.
  apply extract_fold_in.
  - now rewrite map_snd_combine_seq.
  - apply (in_combine_seq pivs O l Hl).
  - now rewrite zero_vec_length.
Qed.

Lemma extract_solution_free : forall n M pivs j, ~ In j pivs ->
  nth j (extract_solution K n M pivs) 0 = 0.
Proof.
  intros n M pivs j Hn. unfold extract_solution.
  rewrite extract_fold_notin by now rewrite map_snd_combine_seq. apply nth_zero_vec.
Qed.

(* ---- consistency scan ------------------------------------------------------------------------- *)

Lemma scan_true_iff : forall n pr (M : @matrix F),
  forallb (fun r => fis0 K (nth n r 0)) (skipn pr M) = true <-> (forall k, pr <= k -> entry K k n M = 0).
Proof.
  intros n pr M. rewrite forallb_forall. split.
  - intros H k Hk. destruct (Nat.ltb k (length M)) eqn:E.
    + apply Nat.ltb_lt in E. apply fis0_true. apply H.
      replace (nth k M []) with (nth (k - pr) (skipn pr M) []).
      * apply nth_In. rewrite skipn_length. lia.
      * rewrite nth_skipn_add. f_equal. lia.
    + apply Nat.ltb_ge in E. apply entry_overflow; auto.
  - intros H x Hx. destruct (In_nth _ _ [] Hx) as [i [Hi Hnth]]. subst x.
    rewrite nth_skipn_add. apply fis0_true. apply (H (pr + i)%nat). lia.
Qed.

Lemma list_split_last : forall (l : list F) n, length l = S n -> l = firstn n l ++ [nth n l 0].
Proof.
  induction l as [|h t IH]; intros n H; cbn in H; [lia|].
  destruct n.
  - destruct t; [reflexivity|cbn in H; lia].
  - cbn [firstn nth app]. f_equal. apply IH. lia.
Qed.

Lemma nth_firstn_lt : forall (l : list F) n j, j < n -> nth j (firstn n l) 0 = nth j l 0.
Proof.
  induction l as [|h t IH]; intros n j H.
  - rewrite firstn_nil. reflexivity.
  - destruct n; [lia|]. destruct j; cbn [firstn nth]; auto. apply IH. lia.
Qed.

Lemma fopp_1_mul : forall e, e * fopp K 1 = 0 -> e = 0.
Proof. intros e H. assert (e = fopp K (e * fopp K 1)) as -> by ring. rewrite H. ring. Qed.

(* ---- solve_augmented: sound and complete ---------------------------------------------------------- *)

Lemma gj_inv_init : forall r n (aug : @matrix F), wf_matrix r (S n) aug -> gj_inv r (S n) 0 aug 0 [].
Proof. intros. constructor; auto; try lia; intros; lia. Qed.

Lemma gj_inv_NoDup : forall r c pc M pr pivs, gj_inv r c pc M pr pivs -> NoDup pivs.
Proof.
  intros r c pc M pr pivs [Hwf Hlen Hle Hlt Hunit Hzero].
  apply (NoDup_nth pivs O). intros i j Hi Hj E.
  destruct (Nat.eq_dec i j) as [|Hne]; auto. exfalso.
  pose proof (Hunit i i ltac:(lia)) as H1. pose proof (Hunit j i ltac:(lia)) as H2.
  rewrite Nat.eqb_refl in H1. rewrite <- E in H2.
  replace (Nat.eqb i j) with false in H2 by (symmetry; apply Nat.eqb_neq; lia).
  apply f1_neq_0. rewrite <- H1, H2. reflexivity.
Qed.

Lemma ncols_wf : forall r c (M : @matrix F), wf_matrix r c M -> 0 < r -> ncols M = c.
Proof.
  intros r c [|h t] [HL HF] Hr; cbn in HL; [lia|]. cbn. now inversion HF.
Qed.

Theorem solve_augmented_sound : forall r n (aug : @matrix F) x,
  wf_matrix r (S n) aug -> 0 < r -> solve_augmented K aug = Some x ->
  length x = n /\ ker aug (x ++ [fopp K 1]).
Proof.
  intros r n aug x Hwf Hr Hsol. unfold solve_augmented in Hsol.
  rewrite (ncols_wf r (S n) aug Hwf Hr) in Hsol. cbn [pred] in Hsol.
  pose proof (gj_loop_inv r (S n) n 0 (mk_gj aug 0 []) (gj_inv_init r n aug Hwf)) as Hloop.
  cbv zeta in Hloop. cbn [gj_M] in Hloop.
  set (st := gj_loop K n 0 (mk_gj aug 0 [])) in *.
  destruct Hloop as [(pc' & Hinv & Hpc & Hend) Hker].
  destruct (forallb _ _) eqn:Hscan in Hsol; [|discriminate]. inversion Hsol; subst x; clear Hsol.
  rewrite scan_true_iff in Hscan.
  pose proof (gj_inv_NoDup _ _ _ _ _ _ Hinv) as Hnd.
  destruct Hinv as [HwfM Hlen Hle Hlt Hunit Hzero].
  set (M := gj_M st) in *. set (pr := gj_pr st) in *. set (pivs := gj_pivs st) in *.
  set (x := extract_solution K n M pivs).
  assert (Hxl : length x = n) by apply extract_solution_length.
  split; auto. apply Hker. intros k.
  destruct (Nat.ltb k r) eqn:Ek.
  2:{ apply Nat.ltb_ge in Ek. rewrite row_overflow; [apply dot_nil_l|]. destruct HwfM; lia. }
  apply Nat.ltb_lt in Ek.
  assert (Hrl : length (row k M) = S n) by (eapply wf_row_length; eauto).
  destruct (Nat.ltb k pr) eqn:Ekp.
  - apply Nat.ltb_lt in Ekp.
    rewrite (list_split_last (row k M) n Hrl).
    rewrite dot_app by (rewrite firstn_length; lia).
    rewrite dot_cons, dot_nil_l.
    assert (Hpk : nth k pivs O < n) by (specialize (Hlt k Ekp); lia).
    rewrite (dot_single _ _ (nth k pivs O)).
    + rewrite nth_firstn_lt by auto. rewrite <- !entry_row.
      rewrite Hunit, Nat.eqb_refl by auto.
      unfold x. rewrite extract_solution_pivot by (auto; lia).
      ring.
    + intros j Hj. destruct (Nat.ltb j n) eqn:Ejn.
      2:{ apply Nat.ltb_ge in Ejn. rewrite (nth_overflow x) by lia. ring. }
      apply Nat.ltb_lt in Ejn. rewrite nth_firstn_lt by auto.
      destruct (in_dec Nat.eq_dec j pivs) as [Hin|Hnin].
      * destruct (In_nth _ _ O Hin) as [l [Hl Hjl]]. subst j.
        rewrite <- entry_row. rewrite Hunit by lia.
        replace (Nat.eqb k l) with false by (symmetry; apply Nat.eqb_neq; intro; subst l; apply Hj; reflexivity). ring.
      * unfold x. rewrite extract_solution_free by auto. ring.
  - apply Nat.ltb_ge in Ekp. destruct Hend as [Hend|Hend]; [|lia].
    apply dot_all_zero. intros j. rewrite <- entry_row.
    destruct (Nat.ltb j n) eqn:Ejn.
    + apply Nat.ltb_lt in Ejn. rewrite Hzero by lia. ring.
    + apply Nat.ltb_ge in Ejn. destruct (Nat.eq_dec j n) as [->|Hne].
      * rewrite Hscan by auto. ring.
      * rewrite entry_row. rewrite (nth_overflow (row k M)) by lia. ring.
Qed.

Theorem solve_augmented_complete : forall r n (aug : @matrix F) y,
  wf_matrix r (S n) aug -> 0 < r -> length y = n -> ker aug (y ++ [fopp K 1]) ->
  solve_augmented K aug <> None.
Proof.
  intros r n aug y Hwf Hr Hy Hk. unfold solve_augmented.
  rewrite (ncols_wf r (S n) aug Hwf Hr). cbn [pred].
  pose proof (gj_loop_inv r (S n) n 0 (mk_gj aug 0 []) (gj_inv_init r n aug Hwf)) as Hloop.
  cbv zeta in Hloop. cbn [gj_M] in Hloop.
  set (st := gj_loop K n 0 (mk_gj aug 0 [])) in *.
  destruct Hloop as [(pc' & Hinv & Hpc & Hend) Hker].
  destruct Hinv as [HwfM Hlen Hle Hlt Hunit Hzero].
  replace (forallb _ _) with true; [discriminate|]. symmetry. apply scan_true_iff.
  intros k Hkp. destruct (Nat.ltb k r) eqn:Ek.
  2:{ apply Nat.ltb_ge in Ek. apply entry_overflow. destruct HwfM; lia. }
  apply Nat.ltb_lt in Ek. destruct Hend as [Hend|Hend]; [|lia].
  apply Hker in Hk. specialize (Hk k).
  rewrite (dot_single _ _ n) in Hk.
  - rewrite app_nth2, Hy, Nat.sub_diag in Hk by lia. cbn [nth] in Hk.
    apply fopp_1_mul. exact Hk.
  - intros j Hj. rewrite <- entry_row.
    destruct (Nat.ltb j n) eqn:Ejn.
    + apply Nat.ltb_lt in Ejn. rewrite Hzero by lia. ring.
    + apply Nat.ltb_ge in Ejn. rewrite (nth_overflow (y ++ _)); [ring|].
      rewrite app_length. cbn [length]. lia.
Qed.


(* ---- SolveRight / SolveLeft ------------------------------------------------------------------------ *)

Lemma row_augment_col : forall (M : @matrix F) b k, k < length M -> length b = length M ->
  row k (augment M (col_vector b)) = row k M ++ [nth k b 0].
Proof.
  induction M as [|h t IH]; intros b k Hk Hb; cbn in Hk; [lia|].
  destruct b as [|b0 b]; cbn in Hb; [lia|].
  destruct k; cbn [augment col_vector map combine fst snd row nth]; auto.
  apply (IH b k); lia.
Qed.

Lemma augment_col_length : forall (M : @matrix F) b, length b = length M -> length (augment M (col_vector b)) = length M.
Proof.
  intros. unfold augment, col_vector. rewrite map_length, combine_length, map_length. lia.
Qed.

Lemma wf_augment_col : forall r c (M : @matrix F) b, wf_matrix r c M -> length b = r ->
  wf_matrix r (S c) (augment M (col_vector b)).
Proof.
  intros r c M b Hwf Hb. pose proof Hwf as [HL HF]. split.
  - rewrite augment_col_length; lia.
  - apply Forall_forall. intros x Hx. destruct (In_nth _ _ [] Hx) as [k [Hk Hnth]].
    rewrite augment_col_length in Hk by lia. fold (row k (augment M (col_vector b))) in Hnth.
    rewrite row_augment_col in Hnth by lia. subst x.
    rewrite app_length, (wf_row_length r c M k) by (auto; lia). cbn [length]. lia.
Qed.

Lemma mvec_length : forall (M : @matrix F) x, length (mvec K M x) = length M.
Proof. intros. unfold mvec. apply map_length. Qed.

Lemma nth_mvec : forall (M : @matrix F) x k, nth k (mvec K M x) 0 = dot K (row k M) x.
Proof.
  intros M x k. unfold mvec, row.
  destruct (Nat.ltb k (length M)) eqn:E.
  - apply Nat.ltb_lt in E. rewrite (nth_indep _ 0 (dot K [] x)) by (rewrite map_length; auto).
    apply (map_nth (fun r => dot K r x)).
  - apply Nat.ltb_ge in E. rewrite nth_overflow by (rewrite map_length; auto).
    rewrite (nth_overflow M) by auto. reflexivity.
Qed.

Lemma ker_augment_iff : forall r c (M : @matrix F) b x, wf_matrix r c M -> length b = r -> length x = c ->
  (ker (augment M (col_vector b)) (x ++ [fopp K 1]) <-> mvec K M x = b).
Proof.
  intros r c M b x Hwf Hb Hx. pose proof Hwf as [HL HF].
  assert (Hrow : forall k, k < r -> dot K (row k (augment M (col_vector b))) (x ++ [fopp K 1])
                                   = dot K (row k M) x - nth k b 0).
  { intros k Hk. rewrite row_augment_col by lia.
    rewrite dot_app by (rewrite (wf_row_length r c M k); auto; lia).
    rewrite dot_cons, dot_nil_l. ring. }
  split.
  - intros H. apply (nth_ext_eq _ _ 0); [rewrite mvec_length; lia|].
    intros k Hk. rewrite mvec_length in Hk. rewrite nth_mvec.
    specialize (H k). rewrite Hrow in H by lia.
    assert (dot K (row k M) x = (dot K (row k M) x - nth k b 0) + nth k b 0) as -> by ring.
    rewrite H. ring.
  - intros H k. destruct (Nat.ltb k r) eqn:E.
    + apply Nat.ltb_lt in E. rewrite Hrow by auto. rewrite <- H, nth_mvec. ring.
    + apply Nat.ltb_ge in E. rewrite row_overflow; [apply dot_nil_l|].
      rewrite augment_col_length; lia.
Qed.

Theorem solve_right_sound : forall r c (M : @matrix F) b x,
  wf_matrix r c M -> 0 < r -> 0 < c -> length b = r ->
  solve_right K M b = Some x -> length x = c /\ mvec K M x = b.
Proof.
  intros r c M b x Hwf Hr Hc Hb Hs. unfold solve_right in Hs.
  destruct (Nat.eqb _ _); [|discriminate].
  destruct (solve_augmented_sound r c _ x (wf_augment_col r c M b Hwf Hb) Hr Hs) as [Hl Hk].
  split; auto. now apply (ker_augment_iff r c M b x Hwf Hb Hl).
Qed.

Theorem solve_right_complete : forall r c (M : @matrix F) b y,
  wf_matrix r c M -> 0 < r -> 0 < c -> length b = r -> length y = c ->
  mvec K M y = b -> solve_right K M b <> None.
Proof.
  intros r c M b y Hwf Hr Hc Hb Hy Hm. unfold solve_right.
  destruct Hwf as [HL HF]. unfold nrows. rewrite HL, Hb, Nat.eqb_refl.
  apply (solve_augmented_complete r c _ y (wf_augment_col r c M b (conj HL HF) Hb) Hr Hy).
  now apply (ker_augment_iff r c M b y (conj HL HF) Hb Hy).
Qed.

(* failure is reported exactly when no solution exists *)
Corollary solve_right_none_iff : forall r c (M : @matrix F) b,
  wf_matrix r c M -> 0 < r -> 0 < c -> length b = r ->
  (solve_right K M b = None <-> ~ exists y, length y = c /\ mvec K M y = b).
Proof.
  intros r c M b Hwf Hr Hc Hb. split.
  - intros Hn [y [Hy Hm]]. now apply (solve_right_complete r c M b y).
  - intros Hne. destruct (solve_right K M b) as [x|] eqn:E; auto.
    exfalso. apply Hne. exists x. now apply (solve_right_sound r c M b x).
Qed.

(* transpose *)
Lemma transpose_length : forall (M : @matrix F), length (transpose K M) = ncols M.
Proof. intros. unfold transpose. now rewrite map_length, seq_length. Qed.

Lemma row_transpose : forall (M : @matrix F) j, j < ncols M -> row j (transpose K M) = col K j M.
Proof.
  intros M j Hj. unfold row, transpose.
  rewrite (nth_indep _ [] (col K (nth j (seq 0 (ncols M)) O) M)) by now rewrite map_length, seq_length.
  rewrite (map_nth (fun j => col K j M)). now rewrite seq_nth.
Qed.

Lemma wf_transpose : forall r c (M : @matrix F), wf_matrix r c M -> 0 < r -> wf_matrix c r (transpose K M).
Proof.
  intros r c M Hwf Hr. pose proof (ncols_wf r c M Hwf Hr) as Hnc. destruct Hwf as [HL HF]. split.
  - now rewrite transpose_length.
  - apply Forall_forall. intros x Hx. unfold transpose in Hx. apply in_map_iff in Hx.
    destruct Hx as [j [<- _]]. now rewrite col_length.
Qed.

Lemma mvec_transpose : forall (M : @matrix F) x, mvec K (transpose K M) x = vecm K x M.
Proof.
  intros. unfold mvec, transpose, vecm. rewrite map_map. apply map_ext. intros. apply dot_comm.
Qed.

Theorem solve_left_sound : forall r c (M : @matrix F) rv x,
  wf_matrix r c M -> 0 < r -> 0 < c -> length rv = c ->
  solve_left K M rv = Some x -> length x = r /\ vecm K x M = rv.
Proof.
  intros r c M rv x Hwf Hr Hc Hrv Hs. unfold solve_left in Hs.
  destruct (Nat.eqb _ _); [|discriminate].
  pose proof (wf_transpose r c M Hwf Hr) as HwfT.
  destruct (solve_augmented_sound c r _ x (wf_augment_col c r _ rv HwfT Hrv) Hc Hs) as [Hl Hk].
  split; auto. rewrite <- mvec_transpose. now apply (ker_augment_iff c r _ rv x HwfT Hrv Hl).
Qed.

Theorem solve_left_complete : forall r c (M : @matrix F) rv y,
  wf_matrix r c M -> 0 < r -> 0 < c -> length rv = c -> length y = r ->
  vecm K y M = rv -> solve_left K M rv <> None.
Proof.
  intros r c M rv y Hwf Hr Hc Hrv Hy Hm. unfold solve_left.
  rewrite (ncols_wf r c M Hwf Hr), Hrv, Nat.eqb_refl.
  pose proof (wf_transpose r c M Hwf Hr) as HwfT.
  apply (solve_augmented_complete c r _ y (wf_augment_col c r _ rv HwfT Hrv) Hc Hy).
  apply (ker_augment_iff c r _ rv y HwfT Hrv Hy). now rewrite mvec_transpose.
Qed.

Corollary solve_left_none_iff : forall r c (M : @matrix F) rv,
  wf_matrix r c M -> 0 < r -> 0 < c -> length rv = c ->
  (solve_left K M rv = None <-> ~ exists y, length y = r /\ vecm K y M = rv).
Proof.
  intros r c M rv Hwf Hr Hc Hrv. split.
  - intros Hn [y [Hy Hm]]. now apply (solve_left_complete r c M rv y).
  - intros Hne. destruct (solve_left K M rv) as [x|] eqn:E; auto.
    exfalso. apply Hne. exists x. now apply (solve_left_sound r c M rv x).
Qed.


(* ---- TryInv ------------------------------------------------------------------------------------------ *)

(* joint kernel of the pair (a | out) *)
Definition ker2 (a out : @matrix F) (u w : list F) : Prop :=
  forall i, dot K (row i a) u + dot K (row i out) w = 0.

Lemma ker2_swap_rows : forall (a out : @matrix F) x y u w,
  x < length a -> y < length a -> length out = length a ->
  (ker2 (swap_rows x y a) (swap_rows x y out) u w <-> ker2 a out u w).
Proof.
  intros a out x y u w Hx Hy Hl. unfold ker2. split; intros H i.
  - specialize (H (swap_idx x y i)). rewrite !row_swap_rows in H by lia.
    replace (swap_idx x y (swap_idx x y i)) with i in H; auto.
    unfold swap_idx.
    destruct (Nat.eqb i x) eqn:E1; destruct (Nat.eqb i y) eqn:E2;
      repeat (rewrite ?Nat.eqb_refl; try match goal with
              | H : Nat.eqb _ _ = true |- _ => apply Nat.eqb_eq in H; subst
              end); auto.
    + destruct (Nat.eqb y x) eqn:E3; auto. apply Nat.eqb_eq in E3; auto.
    + rewrite E1, E2. reflexivity.
  - rewrite !row_swap_rows by lia. apply H.
Qed.

Lemma ker2_scale_row : forall (a out : @matrix F) p x u w, x <> 0 ->
  (ker2 (scale_row K p x a) (scale_row K p x out) u w <-> ker2 a out u w).
Proof.
  intros a out p x u w Hx. unfold ker2. split; intros H i; specialize (H i); rewrite !row_scale_row in *.
  - destruct (Nat.eqb i p); auto. rewrite !dot_vscale_l in H.
    assert (E : (dot K (row i a) u + dot K (row i out) w) * x = 0) by (rewrite <- H; ring).
    apply fmul_eq_0 in E. destruct E; [auto|contradiction].
  - destruct (Nat.eqb i p); auto. rewrite !dot_vscale_l.
    assert (dot K (row i a) u * x + dot K (row i out) w * x = (dot K (row i a) u + dot K (row i out) w) * x) as -> by ring.
    rewrite H. ring.
Qed.

Lemma ker2_eliminate_by : forall n (a out : @matrix F) fs p u w,
  wf_matrix n n a -> wf_matrix n n out -> p < n ->
  (ker2 (eliminate_by K fs p a) (eliminate_by K fs p out) u w <-> ker2 a out u w).
Proof.
  intros n a out fs p u w Ha Ho Hp. pose proof Ha as [HLa _]. pose proof Ho as [HLo _].
  unfold ker2. split; intros H i.
  - destruct (Nat.ltb i n) eqn:E.
    + apply Nat.ltb_lt in E.
      pose proof (H p) as Hpp. rewrite !(dot_row_eliminate_by n n) in Hpp by auto.
      rewrite Nat.eqb_refl in Hpp.
      specialize (H i). rewrite !(dot_row_eliminate_by n n) in H by auto.
      destruct (Nat.eqb i p) eqn:E2; auto.
      assert (dot K (row i a) u + dot K (row i out) w =
              (dot K (row i a) u - nth i fs 0 * dot K (row p a) u + (dot K (row i out) w - nth i fs 0 * dot K (row p out) w))
              + nth i fs 0 * (dot K (row p a) u + dot K (row p out) w)) as -> by ring.
      rewrite H, Hpp. ring.
    + apply Nat.ltb_ge in E. rewrite !row_overflow by lia. rewrite !dot_nil_l. ring.
  - destruct (Nat.ltb i n) eqn:E.
    + apply Nat.ltb_lt in E. rewrite !(dot_row_eliminate_by n n) by auto.
      destruct (Nat.eqb i p); auto.
      assert (dot K (row i a) u - nth i fs 0 * dot K (row p a) u + (dot K (row i out) w - nth i fs 0 * dot K (row p out) w)
              = (dot K (row i a) u + dot K (row i out) w) - nth i fs 0 * (dot K (row p a) u + dot K (row p out) w)) as -> by ring.
      rewrite (H i), (H p). ring.
    + apply Nat.ltb_ge in E. rewrite !row_eliminate_by_overflow by lia. rewrite !dot_nil_l. ring.
Qed.

Record inv_inv (n k : nat) (a out : @matrix F) : Prop := mk_inv_inv {
  ii_wfa : wf_matrix n n a;
  ii_wfo : wf_matrix n n out;
  ii_unit : forall l i, l < k -> entry K i l a = if Nat.eqb i l then 1 else 0
}.

Lemma inv_step_spec : forall n k a out, inv_inv n k a out -> k < n ->
  match inv_step K k (a, out) with
  | None => forall i, k <= i -> entry K i k a = 0
  | Some st' => inv_inv n (S k) (fst st') (snd st') /\
                (forall u w, ker2 (fst st') (snd st') u w <-> ker2 a out u w)
  end.
Proof.
  intros n k a out [Hwa Hwo Hunit] Hk. pose proof Hwa as [HLa _]. pose proof Hwo as [HLo _].
  unfold inv_step. cbn [fst snd].
  pose proof (find_pivot_row_spec k k a) as Hfp.
  destruct (find_pivot_row K k k a) as [p|]; [|exact Hfp].
  destruct Hfp as (Hp1 & Hp2 & Hp3).
  fold (gj_swapped k p a). fold (gj_swapped k p out). cbn [fst snd].
  set (a1 := gj_swapped k p a). set (o1 := gj_swapped k p out).
  assert (Ha1 : forall i j, entry K i j a1 = entry K (swap_idx k p i) j a)
    by (intros; apply entry_gj_swapped; lia).
  assert (Hwa1 : wf_matrix n n a1).
  { unfold a1, gj_swapped. destruct (Nat.eqb p k); auto. apply wf_swap_rows; auto; lia. }
  assert (Hwo1 : wf_matrix n n o1).
  { unfold o1, gj_swapped. destruct (Nat.eqb p k); auto. apply wf_swap_rows; auto; lia. }
  assert (Hk1 : forall u w, ker2 a1 o1 u w <-> ker2 a out u w).
  { intros. unfold a1, o1, gj_swapped. destruct (Nat.eqb p k); [tauto|]. apply ker2_swap_rows; lia. }
  assert (Hunit1 : forall l i, l < k -> entry K i l a1 = if Nat.eqb i l then 1 else 0).
  { intros l i Hl. rewrite Ha1, Hunit by auto.
    destruct (Nat.ltb i k) eqn:E.
    + apply Nat.ltb_lt in E. rewrite swap_idx_lt by lia. reflexivity.
    + apply Nat.ltb_ge in E. pose proof (swap_idx_ge k p i Hp1 E).
      replace (Nat.eqb (swap_idx k p i) l) with false by (symmetry; apply Nat.eqb_neq; lia).
      replace (Nat.eqb i l) with false by (symmetry; apply Nat.eqb_neq; lia). reflexivity. }
  assert (He : entry K k k a1 <> 0).
  { rewrite Ha1. unfold swap_idx. rewrite Nat.eqb_refl. exact Hp3. }
  set (e := entry K k k a1) in *. set (x := fdiv K 1 e).
  assert (Hx : x <> 0).
  { unfold x. rewrite fdiv_def. intro E. apply (finv_neq_0 e He).
    rewrite <- E. ring. }
  assert (Hxe : e * x = 1).
  { unfold x. rewrite fdiv_def. transitivity (finv K e * e); [ring|apply finv_l; auto]. }
  set (a2 := scale_row K k x a1). set (o2 := scale_row K k x o1).
  assert (Hwa2 : wf_matrix n n a2) by (apply wf_scale_row; auto).
  assert (Hwo2 : wf_matrix n n o2) by (apply wf_scale_row; auto).
  assert (E2 : forall i j, entry K i j a2 = if Nat.eqb i k then entry K i j a1 * x else entry K i j a1)
    by (intros; apply entry_scale_row).
  assert (Epiv : entry K k k a2 = 1) by (rewrite E2, Nat.eqb_refl; exact Hxe).
  split.
  - constructor.
    + apply wf_eliminate_by; auto.
    + apply wf_eliminate_by; auto.
    + intros l i Hl. destruct (Nat.ltb i n) eqn:Ei.
      2:{ apply Nat.ltb_ge in Ei. rewrite entry_overflow by (rewrite eliminate_by_length; destruct Hwa2; lia).
          replace (Nat.eqb i l) with false by (symmetry; apply Nat.eqb_neq; lia). reflexivity. }
      apply Nat.ltb_lt in Ei. rewrite (entry_eliminate_by n n) by auto. rewrite nth_col.
      destruct (Nat.eqb l k) eqn:El.
      * apply Nat.eqb_eq in El; subst l. destruct (Nat.eqb i k) eqn:Eik.
        -- apply Nat.eqb_eq in Eik; subst i. exact Epiv.
        -- rewrite Epiv. ring.
      * apply Nat.eqb_neq in El. assert (Hl' : l < k) by lia.
        assert (Hcol : forall i', entry K i' l a2 = if Nat.eqb i' l then 1 else 0).
        { intros i'. rewrite E2, Hunit1 by auto. destruct (Nat.eqb i' k) eqn:E4; auto.
          apply Nat.eqb_eq in E4; subst i'.
          replace (Nat.eqb k l) with false by (symmetry; apply Nat.eqb_neq; lia). ring. }
        rewrite !Hcol. replace (Nat.eqb k l) with false by (symmetry; apply Nat.eqb_neq; lia).
        destruct (Nat.eqb i k) eqn:Eik.
        -- apply Nat.eqb_eq in Eik; subst i.
           replace (Nat.eqb k l) with false by (symmetry; apply Nat.eqb_neq; lia). reflexivity.
        -- ring.
  - intros u w. rewrite (ker2_eliminate_by n) by auto.
    unfold a2, o2. rewrite ker2_scale_row by auto. apply Hk1.
Qed.

Lemma inv_loop_spec : forall n todo k a out, inv_inv n k a out -> (k + todo)%nat = n ->
  match inv_loop K todo k (a, out) with
  | None => exists k' a' out', k' < n /\ inv_inv n k' a' out' /\ (forall i, k' <= i -> entry K i k' a' = 0) /\
            (forall u w, ker2 a' out' u w <-> ker2 a out u w)
  | Some st' => inv_inv n n (fst st') (snd st') /\
                (forall u w, ker2 (fst st') (snd st') u w <-> ker2 a out u w)
  end.
Proof.
  intros n todo; induction todo as [|t IH]; intros k a out Hinv Hkn; cbn [inv_loop].
  - cbn [fst snd]. assert (k = n) by lia. subst k. split; [auto|tauto].
  - pose proof (inv_step_spec n k a out Hinv ltac:(lia)) as Hs.
    destruct (inv_step K k (a, out)) as [[a' out']|].
    + cbn [fst snd] in Hs. destruct Hs as [Hinv' Hk'].
      specialize (IH (S k) a' out' Hinv' ltac:(lia)).
      destruct (inv_loop K t (S k) (a', out')) as [st'|].
      * destruct IH as [H1 H2]. split; auto. intros u w. rewrite H2. apply Hk'.
      * destruct IH as (k' & a'' & out'' & H1 & H2 & H3 & H4).
        exists k', a'', out''. split; [auto|split; [auto|split; [auto|]]].
        intros u w. rewrite H4. apply Hk'.
    + exists k, a, out. split; [lia|split; [auto|split; [auto|tauto]]].
Qed.

(* identity matrix facts *)
Lemma identity_length : forall n, length (identity K n) = n.
Proof. intros. unfold identity. now rewrite map_length, seq_length. Qed.

Lemma row_identity : forall n i, i < n -> row i (identity K n) = unit_vec K n i.
Proof.
  intros n i Hi. unfold row, identity.
  rewrite (nth_indep _ [] ((fun i => map (fun j => if Nat.eqb i j then 1 else 0) (seq 0 n)) (nth i (seq 0 n) O)))
    by now rewrite map_length, seq_length.
  rewrite (map_nth (fun i => map (fun j => if Nat.eqb i j then 1 else 0) (seq 0 n))).
  now rewrite seq_nth.
Qed.

Lemma unit_vec_length : forall n i, length (unit_vec K n i) = n.
Proof. intros. unfold unit_vec. now rewrite map_length, seq_length. Qed.

Lemma nth_unit_vec : forall n i j, j < n -> nth j (unit_vec K n i) 0 = if Nat.eqb i j then 1 else 0.
Proof.
  intros n i j Hj. unfold unit_vec.
  rewrite (nth_indep _ 0 ((fun j => if Nat.eqb i j then 1 else 0) (nth j (seq 0 n) O)))
    by now rewrite map_length, seq_length.
  rewrite (map_nth (fun j => if Nat.eqb i j then 1 else 0)). now rewrite seq_nth.
Qed.

Lemma wf_identity : forall n, wf_matrix n n (identity K n).
Proof.
  intros n. split; [apply identity_length|]. apply Forall_forall. intros x Hx.
  unfold identity in Hx. apply in_map_iff in Hx. destruct Hx as [i [<- _]].
  now rewrite map_length, seq_length.
Qed.

Lemma dot_unit_vec_l : forall n i v, i < n -> dot K (unit_vec K n i) v = nth i v 0.
Proof.
  intros n i v Hi. rewrite (dot_single _ _ i).
  - rewrite nth_unit_vec, Nat.eqb_refl by auto. ring.
  - intros j Hj. destruct (Nat.ltb j n) eqn:E.
    + apply Nat.ltb_lt in E. rewrite nth_unit_vec by auto.
      replace (Nat.eqb i j) with false by (symmetry; apply Nat.eqb_neq; lia). ring.
    + apply Nat.ltb_ge in E. rewrite nth_overflow by (rewrite unit_vec_length; auto). ring.
Qed.

Lemma dot_unit_vec_r : forall n i v, i < n -> dot K v (unit_vec K n i) = nth i v 0.
Proof. intros. rewrite dot_comm. now apply dot_unit_vec_l. Qed.

(* a square matrix whose entries are the Kronecker delta acts as the identity *)
Lemma dot_row_delta : forall n (a : @matrix F) i u, wf_matrix n n a -> i < n ->
  (forall l i', l < n -> entry K i' l a = if Nat.eqb i' l then 1 else 0) ->
  dot K (row i a) u = nth i u 0.
Proof.
  intros n a i u Hwf Hi Hd. rewrite (dot_single _ _ i).
  - rewrite <- entry_row, Hd, Nat.eqb_refl by auto. ring.
  - intros j Hj. destruct (Nat.ltb j n) eqn:E.
    + apply Nat.ltb_lt in E. rewrite <- entry_row, Hd by auto.
      replace (Nat.eqb i j) with false by (symmetry; apply Nat.eqb_neq; lia). ring.
    + apply Nat.ltb_ge in E. rewrite (nth_overflow (row i a)); [ring|].
      rewrite (wf_row_length n n a i); auto.
Qed.

Lemma entry_identity : forall n i j, i < n -> j < n -> entry K i j (identity K n) = if Nat.eqb i j then 1 else 0.
Proof. intros. rewrite entry_row, row_identity by auto. now apply nth_unit_vec. Qed.

Lemma nth_vopp : forall (l : list F) i, nth i (map (fopp K) l) 0 = fopp K (nth i l 0).
Proof.
  induction l as [|h t IH]; intros [|i]; cbn [map nth]; try ring. apply IH.
Qed.

Lemma dot_vopp_r : forall u v, dot K u (map (fopp K) v) = fopp K (dot K u v).
Proof.
  induction u as [|a u IH]; intros [|b v]; cbn [map]; rewrite ?dot_nil_l, ?dot_nil_r; try ring.
  rewrite !dot_cons, IH. ring.
Qed.

Lemma mvec_vopp : forall (M : @matrix F) v, mvec K M (map (fopp K) v) = map (fopp K) (mvec K M v).
Proof.
  intros. unfold mvec. rewrite map_map. apply map_ext. intros. apply dot_vopp_r.
Qed.

(* what the final state of TryInv says: N = out satisfies  M (N w) = w  and  N (M u) = u *)
Lemma try_inv_action : forall n (M N : @matrix F), wf_matrix n n M ->
  try_inv K M = Some N ->
  wf_matrix n n N /\
  (forall w, length w = n -> mvec K M (mvec K N w) = w) /\
  (forall u, length u = n -> mvec K N (mvec K M u) = u).
Proof.
  intros n M N Hwf Ht. pose proof Hwf as [HL _]. unfold try_inv in Ht. unfold nrows in Ht. rewrite HL in Ht.
  assert (Hinit : inv_inv n 0 M (identity K n)).
  { constructor; auto using wf_identity. intros; lia. }
  pose proof (inv_loop_spec n n 0 M (identity K n) Hinit ltac:(lia)) as Hs.
  destruct (inv_loop K n 0 (M, identity K n)) as [[a out]|]; [|discriminate].
  inversion Ht; subst N; clear Ht. cbn [fst snd] in *.
  destruct Hs as [[Hwa Hwo Hunit] Hk]. pose proof Hwo as [HLo _].
  assert (Hfin : forall u w i, i < n -> dot K (row i a) u + dot K (row i out) w = nth i u 0 + nth i (mvec K out w) 0).
  { intros u w i Hi. rewrite (dot_row_delta n a i u Hwa Hi) by (intros; apply Hunit; auto).
    rewrite nth_mvec. reflexivity. }
  assert (Hini : forall u w i, i < n -> dot K (row i M) u + dot K (row i (identity K n)) w = nth i (mvec K M u) 0 + nth i w 0).
  { intros u w i Hi. rewrite row_identity, dot_unit_vec_l, nth_mvec by auto. reflexivity. }
  assert (Hov : forall (X Y : @matrix F) u w i, length X = n -> length Y = n -> n <= i ->
                dot K (row i X) u + dot K (row i Y) w = 0).
  { intros X Y u w i HX HY Hi. rewrite !row_overflow by lia. rewrite !dot_nil_l. ring. }
  split; auto. split.
  - intros w Hw. set (u := map (fopp K) (mvec K out w)).
    assert (Hu : forall i, nth i u 0 = fopp K (nth i (mvec K out w) 0)).
    { intros i. unfold u. destruct (Nat.ltb i (length (mvec K out w))) eqn:E.
      - apply Nat.ltb_lt in E. rewrite (nth_indep _ 0 (fopp K 0)) by (rewrite map_length; auto).
        apply (map_nth (fopp K)).
      - apply Nat.ltb_ge in E. rewrite !nth_overflow by (rewrite ?map_length; auto). ring. }
    assert (H1 : ker2 a out u w).
    { intros i. destruct (Nat.ltb i n) eqn:E.
      - apply Nat.ltb_lt in E. rewrite Hfin, Hu by auto. ring.
      - apply Nat.ltb_ge in E. apply Hov; destruct Hwa; auto. }
    apply Hk in H1.
    apply (nth_ext_eq _ _ 0); [rewrite mvec_length; lia|].
    intros i Hi. rewrite mvec_length in Hi. rewrite HL in Hi.
    specialize (H1 i). rewrite Hini in H1 by auto.
    assert (Hmu : mvec K M u = map (fopp K) (mvec K M (mvec K out w))) by (unfold u; apply mvec_vopp).
    rewrite Hmu in H1.
    rewrite nth_vopp in H1.
    assert (nth i w 0 = (fopp K (nth i (mvec K M (mvec K out w)) 0) + nth i w 0) + nth i (mvec K M (mvec K out w)) 0) as Hw' by ring.
    rewrite H1 in Hw'. rewrite Hw'. ring.
  - intros u Hu. set (w := map (fopp K) (mvec K M u)).
    assert (Hwn : forall i, nth i w 0 = fopp K (nth i (mvec K M u) 0)).
    { intros i. unfold w. destruct (Nat.ltb i (length (mvec K M u))) eqn:E.
      - apply Nat.ltb_lt in E. rewrite (nth_indep _ 0 (fopp K 0)) by (rewrite map_length; auto).
        apply (map_nth (fopp K)).
      - apply Nat.ltb_ge in E. rewrite !nth_overflow by (rewrite ?map_length; auto). ring. }
    assert (H1 : ker2 M (identity K n) u w).
    { intros i. destruct (Nat.ltb i n) eqn:E.
      - apply Nat.ltb_lt in E. rewrite Hini, Hwn by auto. ring.
      - apply Nat.ltb_ge in E. apply Hov; auto using identity_length. }
    apply Hk in H1.
    apply (nth_ext_eq _ _ 0); [rewrite mvec_length; lia|].
    intros i Hi. rewrite mvec_length in Hi. rewrite HLo in Hi.
    specialize (H1 i). rewrite Hfin in H1 by auto.
    assert (Hmw : mvec K out w = map (fopp K) (mvec K out (mvec K M u))) by (unfold w; apply mvec_vopp).
    rewrite Hmw in H1.
    rewrite nth_vopp in H1.
    assert (nth i u 0 = (nth i u 0 + fopp K (nth i (mvec K out (mvec K M u)) 0)) + nth i (mvec K out (mvec K M u)) 0) as Hu' by ring.
    rewrite H1 in Hu'. rewrite Hu'. ring.
Qed.


(* ---- products, transposes: entries and extensionality --------------------------------------------- *)

Lemma matrix_ext : forall r c (X Y : @matrix F), wf_matrix r c X -> wf_matrix r c Y ->
  (forall i j, i < r -> j < c -> entry K i j X = entry K i j Y) -> X = Y.
Proof.
  intros r c X Y HX HY H. pose proof HX as [HLX _]. pose proof HY as [HLY _].
  apply (nth_ext_eq _ _ []); [lia|]. intros i Hi. rewrite HLX in Hi.
  fold (row i X). fold (row i Y).
  apply (nth_ext_eq _ _ 0).
  - rewrite (wf_row_length r c X i), (wf_row_length r c Y i); auto.
  - intros j Hj. rewrite (wf_row_length r c X i) in Hj by auto. rewrite <- !entry_row. apply H; auto.
Qed.

Lemma vecm_length : forall x (B : @matrix F), length (vecm K x B) = ncols B.
Proof. intros. unfold vecm. now rewrite map_length, seq_length. Qed.

Lemma nth_vecm : forall x (B : @matrix F) j, j < ncols B -> nth j (vecm K x B) 0 = dot K x (col K j B).
Proof.
  intros x B j Hj. unfold vecm.
  rewrite (nth_indep _ 0 ((fun j => dot K x (col K j B)) (nth j (seq 0 (ncols B)) O)))
    by now rewrite map_length, seq_length.
  rewrite (map_nth (fun j => dot K x (col K j B))). now rewrite seq_nth.
Qed.

Lemma mmul_length : forall (A B : @matrix F), length (mmul K A B) = length A.
Proof. intros. unfold mmul. apply map_length. Qed.

Lemma row_mmul : forall (A B : @matrix F) i, i < length A -> row i (mmul K A B) = vecm K (row i A) B.
Proof.
  intros A B i Hi. unfold row, mmul.
  rewrite (nth_indep _ [] (vecm K [] B)) by now rewrite map_length.
  apply (map_nth (fun r => vecm K r B)).
Qed.

Lemma wf_mmul : forall r m c (A B : @matrix F), wf_matrix r m A -> wf_matrix m c B -> 0 < m ->
  wf_matrix r c (mmul K A B).
Proof.
  intros r m c A B [HLA _] HB Hm. split; [now rewrite mmul_length|].
  apply Forall_forall. intros x Hx. unfold mmul in Hx. apply in_map_iff in Hx.
  destruct Hx as [rw [<- _]]. rewrite vecm_length. now apply (ncols_wf m c B).
Qed.

Lemma entry_mmul : forall (A B : @matrix F) i j, i < length A -> j < ncols B ->
  entry K i j (mmul K A B) = dot K (row i A) (col K j B).
Proof. intros. rewrite entry_row, row_mmul, nth_vecm; auto. Qed.

Lemma entry_transpose : forall (M : @matrix F) i j, i < ncols M -> entry K i j (transpose K M) = entry K j i M.
Proof. intros. rewrite entry_row, row_transpose, nth_col; auto. Qed.

Lemma col_transpose : forall r c (M : @matrix F) i, wf_matrix r c M -> 0 < r -> i < r ->
  col K i (transpose K M) = row i M.
Proof.
  intros r c M i Hwf Hr Hi. pose proof (ncols_wf r c M Hwf Hr) as Hnc.
  apply (nth_ext_eq _ _ 0).
  - rewrite col_length, transpose_length, (wf_row_length r c M i); auto.
  - intros j Hj. rewrite col_length, transpose_length in Hj.
    rewrite nth_col, entry_transpose by auto. apply entry_row.
Qed.

Lemma mvec_unit_vec : forall r c (N : @matrix F) j, wf_matrix r c N -> j < c ->
  mvec K N (unit_vec K c j) = col K j N.
Proof.
  intros r c N j Hwf Hj. apply (nth_ext_eq _ _ 0); [now rewrite mvec_length, col_length|].
  intros i Hi. rewrite nth_mvec, nth_col, dot_unit_vec_r by auto. symmetry. apply entry_row.
Qed.

(* (d) TryInv is sound: the returned matrix is a two-sided inverse *)
Theorem try_inv_sound : forall n (M N : @matrix F), wf_matrix n n M -> 0 < n ->
  try_inv K M = Some N ->
  wf_matrix n n N /\ mmul K M N = identity K n /\ mmul K N M = identity K n.
Proof.
  intros n M N Hwf Hn Ht. destruct (try_inv_action n M N Hwf Ht) as (HwN & H1 & H2).
  pose proof Hwf as [HLM _]. pose proof HwN as [HLN _].
  split; auto. split.
  - apply (matrix_ext n n); auto using wf_identity. { apply (wf_mmul n n n); auto. }
    intros i j Hi Hj. rewrite entry_mmul by (rewrite ?(ncols_wf n n N); auto; lia).
    rewrite <- (mvec_unit_vec n n N j) by auto. rewrite <- nth_mvec.
    rewrite H1 by apply unit_vec_length. rewrite nth_unit_vec, entry_identity by auto.
    rewrite Nat.eqb_sym. reflexivity.
  - apply (matrix_ext n n); auto using wf_identity. { apply (wf_mmul n n n); auto. }
    intros i j Hi Hj. rewrite entry_mmul by (rewrite ?(ncols_wf n n M); auto; lia).
    rewrite <- (mvec_unit_vec n n M j) by auto. rewrite <- nth_mvec.
    rewrite H2 by apply unit_vec_length. rewrite nth_unit_vec, entry_identity by auto.
    rewrite Nat.eqb_sym. reflexivity.
Qed.


(* ---- finite sums over indices --------------------------------------------------------------------- *)

Fixpoint bsum (n : nat) (f : nat -> F) : F :=
  match n with O => 0 | S m => bsum m f + f m end.

Lemma bsum_ext : forall n f g, (forall i, i < n -> f i = g i) -> bsum n f = bsum n g.
Proof.
  induction n as [|n IH]; intros f g H; cbn [bsum]; auto.
  rewrite (IH f g) by (intros; apply H; lia). rewrite (H n) by lia. reflexivity.
Qed.

Lemma bsum_zero : forall n f, (forall i, i < n -> f i = 0) -> bsum n f = 0.
Proof.
  induction n as [|n IH]; intros f H; cbn [bsum]; auto.
  rewrite IH by (intros; apply H; lia). rewrite (H n) by lia. ring.
Qed.

Lemma bsum_add : forall n f g, bsum n (fun i => f i + g i) = bsum n f + bsum n g.
Proof. induction n as [|n IH]; intros; cbn [bsum]; [ring|]. rewrite IH. ring. Qed.

Lemma bsum_mul_l : forall n c f, c * bsum n f = bsum n (fun i => c * f i).
Proof. induction n as [|n IH]; intros; cbn [bsum]; [ring|]. rewrite <- IH. ring. Qed.

Lemma bsum_mul_r : forall n c f, bsum n f * c = bsum n (fun i => f i * c).
Proof. induction n as [|n IH]; intros; cbn [bsum]; [ring|]. rewrite <- IH. ring. Qed.

Lemma bsum_exchange : forall n m (f : nat -> nat -> F),
  bsum n (fun i => bsum m (fun j => f i j)) = bsum m (fun j => bsum n (fun i => f i j)).
Proof.
  induction n as [|n IH]; intros m f; cbn [bsum].
  - symmetry. apply bsum_zero. auto.
  - rewrite IH. rewrite <- bsum_add. reflexivity.
Qed.

Lemma bsum_shift : forall n f, bsum (S n) f = f O + bsum n (fun i => f (S i)).
Proof.
  induction n as [|n IH]; intros f.
  - cbn [bsum]. ring.
  - change (bsum (S (S n)) f) with (bsum (S n) f + f (S n)). rewrite IH. cbn [bsum]. ring.
Qed.

Lemma bsum_delta : forall n i g, i < n -> bsum n (fun l => (if Nat.eqb i l then 1 else 0) * g l) = g i.
Proof.
  induction n as [|n IH]; intros i g Hi; [lia|]. cbn [bsum].
  destruct (Nat.eqb i n) eqn:E.
  - apply Nat.eqb_eq in E; subst i. rewrite bsum_zero; [ring|].
    intros l Hl. replace (Nat.eqb n l) with false by (symmetry; apply Nat.eqb_neq; lia). ring.
  - apply Nat.eqb_neq in E. rewrite IH by lia. ring.
Qed.

Lemma dot_bsum : forall u v n, length u <= n \/ length v <= n ->
  dot K u v = bsum n (fun i => nth i u 0 * nth i v 0).
Proof.
  induction u as [|a u IH]; intros v n H.
  - rewrite dot_nil_l. symmetry. apply bsum_zero. intros i _. destruct i; cbn [nth]; ring.
  - destruct v as [|b v].
    + rewrite dot_nil_r. symmetry. apply bsum_zero. intros i _. destruct i; cbn [nth]; ring.
    + destruct n as [|n]; [cbn [length] in H; lia|].
      rewrite dot_cons, bsum_shift. cbn [nth]. rewrite (IH v n) by (cbn [length] in H; lia). reflexivity.
Qed.

Lemma entry_mmul_bsum : forall r m c (A B : @matrix F) i j,
  wf_matrix r m A -> wf_matrix m c B -> 0 < m -> i < r -> j < c ->
  entry K i j (mmul K A B) = bsum m (fun l => entry K i l A * entry K l j B).
Proof.
  intros r m c A B i j HA HB Hm Hi Hj. pose proof HA as [HLA _].
  rewrite entry_mmul by (rewrite ?(ncols_wf m c B); auto; lia).
  rewrite (dot_bsum _ _ m) by (left; rewrite (wf_row_length r m A i); auto).
  apply bsum_ext. intros l Hl. rewrite nth_col. reflexivity.
Qed.

(* (e) associativity of the matrix product *)
Theorem mmul_assoc : forall r m p q (A B C : @matrix F),
  wf_matrix r m A -> wf_matrix m p B -> wf_matrix p q C -> 0 < m -> 0 < p ->
  mmul K (mmul K A B) C = mmul K A (mmul K B C).
Proof.
  intros r m p q A B C HA HB HC Hm Hp.
  assert (HAB : wf_matrix r p (mmul K A B)) by (apply (wf_mmul r m p); auto).
  assert (HBC : wf_matrix m q (mmul K B C)) by (apply (wf_mmul m p q); auto).
  apply (matrix_ext r q).
  - apply (wf_mmul r p q); auto.
  - apply (wf_mmul r m q); auto.
  - intros i j Hi Hj.
    rewrite (entry_mmul_bsum r p q) by auto. rewrite (entry_mmul_bsum r m q) by auto.
    transitivity (bsum p (fun k => bsum m (fun l => entry K i l A * entry K l k B * entry K k j C))).
    + apply bsum_ext. intros k Hk. rewrite (entry_mmul_bsum r m p) by auto. apply bsum_mul_r.
    + rewrite bsum_exchange. apply bsum_ext. intros l Hl.
      rewrite (entry_mmul_bsum m p q) by auto. rewrite bsum_mul_l.
      apply bsum_ext. intros k Hk. ring.
Qed.

(* (A·B)^T = B^T·A^T *)
Theorem transpose_mul : forall r m c (A B : @matrix F),
  wf_matrix r m A -> wf_matrix m c B -> 0 < r -> 0 < m -> 0 < c ->
  transpose K (mmul K A B) = mmul K (transpose K B) (transpose K A).
Proof.
  intros r m c A B HA HB Hr Hm Hc.
  assert (HAB : wf_matrix r c (mmul K A B)) by (apply (wf_mmul r m c); auto).
  assert (HAt : wf_matrix m r (transpose K A)) by (apply wf_transpose; auto).
  assert (HBt : wf_matrix c m (transpose K B)) by (apply wf_transpose; auto).
  apply (matrix_ext c r).
  - apply wf_transpose; auto.
  - apply (wf_mmul c m r); auto.
  - intros i j Hi Hj.
    rewrite entry_transpose by (rewrite (ncols_wf r c _ HAB); auto).
    rewrite (entry_mmul_bsum r m c) by auto. rewrite (entry_mmul_bsum c m r) by auto.
    apply bsum_ext. intros l Hl.
    rewrite entry_transpose by (rewrite (ncols_wf m c B); auto).
    rewrite entry_transpose by (rewrite (ncols_wf r m A); auto). ring.
Qed.

Theorem transpose_involutive : forall r c (M : @matrix F), wf_matrix r c M -> 0 < r -> 0 < c ->
  transpose K (transpose K M) = M.
Proof.
  intros r c M HM Hr Hc. pose proof (wf_transpose r c M HM Hr) as HT.
  apply (matrix_ext r c); auto. { apply wf_transpose; auto. }
  intros i j Hi Hj. rewrite entry_transpose by (rewrite (ncols_wf c r _ HT); auto).
  apply entry_transpose. rewrite (ncols_wf r c M); auto.
Qed.

(* (A·B)·x = A·(B·x) *)
Theorem mvec_mmul : forall r m c (A B : @matrix F) x,
  wf_matrix r m A -> wf_matrix m c B -> 0 < m -> length x = c ->
  mvec K (mmul K A B) x = mvec K A (mvec K B x).
Proof.
  intros r m c A B x HA HB Hm Hx. pose proof HA as [HLA _]. pose proof HB as [HLB _].
  assert (HAB : wf_matrix r c (mmul K A B)) by (apply (wf_mmul r m c); auto).
  apply (nth_ext_eq _ _ 0); [now rewrite !mvec_length, mmul_length|].
  intros i Hi. rewrite mvec_length, mmul_length, HLA in Hi.
  rewrite !nth_mvec.
  rewrite (dot_bsum _ _ c) by (right; lia).
  rewrite (dot_bsum _ _ m) by (left; rewrite (wf_row_length r m A i); auto).
  transitivity (bsum c (fun k => bsum m (fun l => entry K i l A * entry K l k B * nth k x 0))).
  - apply bsum_ext. intros k Hk. rewrite <- entry_row, (entry_mmul_bsum r m c) by auto. apply bsum_mul_r.
  - rewrite bsum_exchange. apply bsum_ext. intros l Hl.
    rewrite nth_mvec, (dot_bsum _ _ c) by (right; lia). rewrite <- entry_row, bsum_mul_l.
    apply bsum_ext. intros k Hk. rewrite <- entry_row. ring.
Qed.

Theorem mmul_identity_l : forall r c (M : @matrix F), wf_matrix r c M -> 0 < r -> mmul K (identity K r) M = M.
Proof.
  intros r c M HM Hr. apply (matrix_ext r c); auto. { apply (wf_mmul r r c); auto using wf_identity. }
  intros i j Hi Hj. rewrite (entry_mmul_bsum r r c) by auto using wf_identity.
  rewrite (bsum_ext r _ (fun l => (if Nat.eqb i l then 1 else 0) * entry K l j M)).
  - now apply bsum_delta.
  - intros l Hl. now rewrite entry_identity.
Qed.

Theorem mmul_identity_r : forall r c (M : @matrix F), wf_matrix r c M -> 0 < c -> mmul K M (identity K c) = M.
Proof.
  intros r c M HM Hc. apply (matrix_ext r c); auto. { apply (wf_mmul r c c); auto using wf_identity. }
  intros i j Hi Hj. rewrite (entry_mmul_bsum r c c) by auto using wf_identity.
  rewrite (bsum_ext c _ (fun l => (if Nat.eqb j l then 1 else 0) * entry K i l M)).
  - now apply bsum_delta.
  - intros l Hl. rewrite entry_identity by auto. rewrite Nat.eqb_sym. ring.
Qed.

Lemma mvec_identity : forall n x, length x = n -> mvec K (identity K n) x = x.
Proof.
  intros n x Hx. apply (nth_ext_eq _ _ 0); [now rewrite mvec_length, identity_length|].
  intros i Hi. rewrite mvec_length, identity_length in Hi.
  rewrite nth_mvec, row_identity, dot_unit_vec_l; auto.
Qed.

Lemma mvec_zero_vec : forall (M : @matrix F) n, mvec K M (zero_vec K n) = zero_vec K (length M).
Proof.
  intros. apply (nth_ext_eq _ _ 0); [now rewrite mvec_length, zero_vec_length|].
  intros i Hi. now rewrite nth_mvec, dot_zero_r, nth_zero_vec.
Qed.

(* (d) TryInv is complete: it fails only on matrices without a (left, hence two-sided) inverse *)
Theorem try_inv_complete : forall n (M : @matrix F), wf_matrix n n M -> 0 < n ->
  try_inv K M = None -> ~ exists N, wf_matrix n n N /\ mmul K N M = identity K n.
Proof.
  intros n M Hwf Hn Ht [N [HwN HNM]]. pose proof Hwf as [HL _].
  unfold try_inv in Ht. unfold nrows in Ht. rewrite HL in Ht.
  assert (Hinit : inv_inv n 0 M (identity K n)).
  { constructor; auto using wf_identity. intros; lia. }
  pose proof (inv_loop_spec n n 0 M (identity K n) Hinit ltac:(lia)) as Hs.
  destruct (inv_loop K n 0 (M, identity K n)) as [st|]; [discriminate|].
  destruct Hs as (k & a & out & Hk & [Hwa Hwo Hunit] & Hz & Hker).
  pose proof Hwa as [HLa _]. pose proof Hwo as [HLo _].
  set (uf := fun j => if Nat.ltb j k then fopp K (entry K j k a) else if Nat.eqb j k then 1 else 0).
  set (u := map uf (seq 0 n)).
  assert (Hul : length u = n) by (unfold u; now rewrite map_length, seq_length).
  assert (Hun : forall j, j < n -> nth j u 0 = uf j).
  { intros j Hj. unfold u. rewrite (nth_indep _ 0 (uf (nth j (seq 0 n) O))) by now rewrite map_length, seq_length.
    rewrite (map_nth uf). now rewrite seq_nth. }
  assert (H1 : ker2 a out u (zero_vec K n)).
  { intros i. rewrite dot_zero_r.
    destruct (Nat.ltb i n) eqn:Ei.
    2:{ apply Nat.ltb_ge in Ei. rewrite row_overflow by lia. rewrite dot_nil_l. ring. }
    apply Nat.ltb_lt in Ei.
    rewrite (dot_bsum _ _ n) by (right; lia).
    rewrite (bsum_ext n _ (fun j => (if Nat.eqb i j then 1 else 0) * (if Nat.ltb j k then fopp K (entry K j k a) else 0)
                                     + (if Nat.eqb k j then 1 else 0) * entry K i k a)).
    - rewrite bsum_add, !bsum_delta by auto.
      destruct (Nat.ltb i k) eqn:Eik; [ring|]. apply Nat.ltb_ge in Eik. rewrite (Hz i Eik). ring.
    - intros j Hj. rewrite Hun by auto. unfold uf. rewrite <- entry_row.
      destruct (Nat.ltb j k) eqn:Ejk.
      + apply Nat.ltb_lt in Ejk. rewrite Hunit by auto.
        replace (Nat.eqb k j) with false by (symmetry; apply Nat.eqb_neq; lia). ring.
      + apply Nat.ltb_ge in Ejk. rewrite (Nat.eqb_sym k j). destruct (Nat.eqb j k) eqn:Ej2.
        * apply Nat.eqb_eq in Ej2; subst j. ring.
        * ring. }
  apply Hker in H1.
  assert (HMu : mvec K M u = zero_vec K n).
  { apply (nth_ext_eq _ _ 0); [now rewrite mvec_length, zero_vec_length|].
    intros i Hi. rewrite mvec_length, HL in Hi. rewrite nth_mvec, nth_zero_vec.
    specialize (H1 i). rewrite dot_zero_r in H1. rewrite <- H1. ring. }
  assert (Hu0 : u = zero_vec K n).
  { rewrite <- (mvec_identity n u Hul), <- HNM.
    rewrite (mvec_mmul n n n) by auto. rewrite HMu, mvec_zero_vec. destruct HwN as [-> _]. reflexivity. }
  assert (Hk1 : nth k u 0 = 1).
  { rewrite Hun by auto. unfold uf. rewrite Nat.ltb_irrefl, Nat.eqb_refl. reflexivity. }
  rewrite Hu0, nth_zero_vec in Hk1. apply f1_neq_0. auto.
Qed.

Corollary try_inv_none_iff : forall n (M : @matrix F), wf_matrix n n M -> 0 < n ->
  (try_inv K M = None <-> ~ exists N, wf_matrix n n N /\ mmul K M N = identity K n /\ mmul K N M = identity K n).
Proof.
  intros n M Hwf Hn. split.
  - intros Ht [N (H1 & H2 & H3)]. apply (try_inv_complete n M Hwf Hn Ht). exists N; auto.
  - intros Hne. destruct (try_inv K M) as [N|] eqn:E; auto.
    exfalso. apply Hne. exists N. now apply try_inv_sound.
Qed.


(* ---- module-valued matrices: lifting commutes with the matrix action ------------------------------ *)

Section ModuleProofs.
Context {G : Type} (Mo : mops G F) (HM : mlaws K Mo).

Lemma gdot_fold_acc : forall (l : list (F * G)) acc,
  fold_left (fun acc ax => gadd Mo acc (gsmul Mo (snd ax) (fst ax))) l acc =
  gadd Mo acc (fold_left (fun acc ax => gadd Mo acc (gsmul Mo (snd ax) (fst ax))) l (g0 Mo)).
Proof.
  induction l as [|h t IH]; intros acc; cbn [fold_left].
  - rewrite (ml_add_comm K Mo HM), (ml_add_0_l K Mo HM). reflexivity.
  - rewrite IH. rewrite (IH (gadd Mo (g0 Mo) _)).
    rewrite (ml_add_0_l K Mo HM). symmetry. apply (ml_add_assoc K Mo HM).
Qed.

Lemma gdot_nil_l : forall xs, gdot Mo [] xs = g0 Mo.
Proof. reflexivity. Qed.

Lemma gdot_nil_r : forall a, gdot Mo a [] = g0 Mo.
Proof. intros [|a0 a]; reflexivity. Qed.

Lemma gdot_cons : forall a0 a x0 xs, gdot Mo (a0 :: a) (x0 :: xs) = gadd Mo (gsmul Mo x0 a0) (gdot Mo a xs).
Proof.
  intros. unfold gdot. cbn [combine fold_left fst snd]. rewrite gdot_fold_acc.
  rewrite (ml_add_0_l K Mo HM). reflexivity.
Qed.

(* Σ_k (v_k·g)·a_k = (Σ_k a_k v_k)·g *)
Lemma gdot_lift_vec : forall a v g, gdot Mo a (lift_vec Mo v g) = gsmul Mo g (dot K a v).
Proof.
  induction a as [|a0 a IH]; intros [|v0 v] g; cbn [lift_vec map];
    rewrite ?gdot_nil_l, ?gdot_nil_r, ?dot_nil_l, ?dot_nil_r, ?(ml_smul_0 K Mo HM); auto.
  rewrite gdot_cons, dot_cons. fold (lift_vec Mo v g). rewrite IH.
  rewrite (ml_smul_mul K Mo HM), (ml_smul_add_r K Mo HM).
  f_equal. f_equal. ring.
Qed.

Lemma nth_lift_vec : forall v g j, nth j (lift_vec Mo v g) (g0 Mo) = gsmul Mo g (nth j v 0).
Proof.
  induction v as [|v0 v IH]; intros g [|j]; cbn [lift_vec map nth]; rewrite ?(ml_smul_0 K Mo HM); auto.
  apply IH.
Qed.

Lemma gcol_lift : forall (X : @matrix F) g j, gcol Mo j (lift Mo X g) = lift_vec Mo (col K j X) g.
Proof.
  intros. unfold gcol, lift, col, lift_vec. rewrite !map_map. apply map_ext.
  intros r. apply nth_lift_vec.
Qed.

Lemma gncols_lift : forall (X : @matrix F) g, gncols (lift Mo X g) = ncols X.
Proof. intros [|r X] g; cbn; auto. unfold lift_vec. now rewrite map_length. Qed.

(* (e) LeftAction A (Lift X g) = Lift (A·X) g, for every A, X, g *)
Theorem lift_left_action : forall (A X : @matrix F) g,
  left_action Mo A (lift Mo X g) = lift Mo (mmul K A X) g.
Proof.
  intros A X g.
  change (lift Mo (mmul K A X) g) with (map (fun r => lift_vec Mo r g) (map (fun r => vecm K r X) A)).
  unfold left_action. rewrite map_map. apply map_ext. intros r.
  unfold vecm. rewrite gncols_lift.
  change (lift_vec Mo (map (fun j => dot K r (col K j X)) (seq 0 (ncols X))) g)
    with (map (fun c => gsmul Mo g c) (map (fun j => dot K r (col K j X)) (seq 0 (ncols X)))).
  rewrite map_map. apply map_ext. intros j.
  rewrite gcol_lift. apply gdot_lift_vec.
Qed.

(* RightAction (Lift X g) A = Lift (X·A) g *)
Theorem lift_right_action : forall (X A : @matrix F) g,
  right_action K Mo (lift Mo X g) A = lift Mo (mmul K X A) g.
Proof.
  intros X A g.
  change (lift Mo (mmul K X A) g) with (map (fun r => lift_vec Mo r g) (map (fun r => vecm K r A) X)).
  change (lift Mo X g) with (map (fun r => lift_vec Mo r g) X).
  unfold right_action. rewrite !map_map. apply map_ext. intros r.
  unfold vecm.
  change (lift_vec Mo (map (fun j => dot K r (col K j A)) (seq 0 (ncols A))) g)
    with (map (fun c => gsmul Mo g c) (map (fun j => dot K r (col K j A)) (seq 0 (ncols A)))).
  rewrite map_map. apply map_ext. intros j.
  rewrite gdot_lift_vec. f_equal. apply dot_comm.
Qed.

(* Lift is additive in the base element and compatible with scalars *)
Theorem lift_vec_gadd : forall v g h,
  lift_vec Mo v (gadd Mo g h) = map (fun p => gadd Mo (fst p) (snd p)) (combine (lift_vec Mo v g) (lift_vec Mo v h)).
Proof.
  induction v as [|v0 v IH]; intros g h; cbn [lift_vec map combine fst snd]; auto.
  rewrite (ml_smul_add_l K Mo HM). f_equal. apply IH.
Qed.

Theorem lift_vec_vscale : forall v c g, lift_vec Mo (vscale K c v) g = map (fun x => gsmul Mo x c) (lift_vec Mo v g).
Proof.
  intros. unfold lift_vec, vscale. rewrite !map_map. apply map_ext. intros a.
  now rewrite (ml_smul_mul K Mo HM).
Qed.

End ModuleProofs.


Theorem mmul_identity : forall r c (M : @matrix F), wf_matrix r c M -> 0 < r -> 0 < c ->
  mmul K (identity K r) M = M /\ mmul K M (identity K c) = M.
Proof. intros r c M H Hr Hc. split; [now apply (mmul_identity_l r c)|now apply (mmul_identity_r r c)]. Qed.

(* ---- Determinant: zero exactly on the singular matrices -------------------------------------------- *)

Lemma entry_det_elim : forall r c (M : @matrix F) k piv i j, wf_matrix r c M -> i < r -> j < c ->
  entry K i j (det_elim K k piv M) =
  if Nat.ltb k i
  then (if Nat.ltb k j then entry K i j M - fdiv K (entry K i k M) piv * entry K k j M
        else if Nat.eqb j k then 0 else entry K i j M)
  else entry K i j M.
Proof.
  intros r c M k piv i j Hwf Hi Hj. pose proof Hwf as [HL _].
  unfold entry at 1. unfold det_elim.
  rewrite (nth_mapi _ M i [] []) by lia.
  destruct (Nat.ltb k i); [|reflexivity].
  rewrite (nth_mapi _ _ j 0 0) by (fold (row i M); rewrite (wf_row_length r c M i); auto).
  reflexivity.
Qed.

Lemma wf_det_elim : forall r c (M : @matrix F) k piv, wf_matrix r c M -> wf_matrix r c (det_elim K k piv M).
Proof.
  intros r c M k piv [HL HF]. split.
  - unfold det_elim. now rewrite mapi_length.
  - apply Forall_forall. intros x Hx. destruct (In_nth _ _ [] Hx) as [i [Hi Hn]].
    unfold det_elim in Hi, Hn. rewrite mapi_length in Hi. rewrite (nth_mapi _ M i [] []) in Hn by auto.
    rewrite Forall_forall in HF. assert (length (nth i M []) = c) by (apply HF; apply nth_In; auto).
    subst x. destruct (Nat.ltb k i); auto. now rewrite mapi_length.
Qed.

(* the determinant run and the TryInv run agree on all rows from k on, hence find the same pivots *)
Definition rows_agree (k : nat) (D a : @matrix F) : Prop := forall i j, k <= i -> entry K i j D = entry K i j a.

Lemma find_pivot_row_agree : forall n k (D a : @matrix F), wf_matrix n n D -> wf_matrix n n a ->
  rows_agree k D a -> find_pivot_row K k k D = find_pivot_row K k k a.
Proof.
  intros n k D a [HLD _] [HLa _] Hag. unfold find_pivot_row.
  assert (Hgen : forall m s, (s + m)%nat = n -> k <= s ->
            find_pivot K k s (skipn s D) = find_pivot K k s (skipn s a)).
  { induction m as [|m IH]; intros s Hs Hks.
    - rewrite !skipn_all2 by lia. reflexivity.
    - assert (Hd : skipn s D = nth s D [] :: skipn (S s) D).
      { clear -HLD Hs. revert s HLD Hs. generalize n. induction D as [|h t IHD]; intros n0 s HL Hs; cbn in HL; [lia|].
        destruct s; [reflexivity|]. cbn [skipn nth]. apply (IHD (pred n0)); lia. }
      assert (Ha : skipn s a = nth s a [] :: skipn (S s) a).
      { clear -HLa Hs. revert s HLa Hs. generalize n. induction a as [|h t IHa]; intros n0 s HL Hs; cbn in HL; [lia|].
        destruct s; [reflexivity|]. cbn [skipn nth]. apply (IHa (pred n0)); lia. }
      rewrite Hd, Ha. cbn [find_pivot].
      pose proof (Hag s k Hks) as E. unfold entry in E. rewrite E.
      destruct (fis0 K _); auto. apply IH; lia. }
  destruct (Nat.le_gt_cases k n) as [Hkn|Hkn].
  - apply (Hgen (n - k)%nat k); lia.
  - rewrite !skipn_all2 by lia. reflexivity.
Qed.

Lemma det_inv_lockstep : forall n todo k D sg acc a out,
  wf_matrix n n D -> inv_inv n k a out -> rows_agree k D a -> (k + todo)%nat = n ->
  acc * sg <> 0 ->
  match det_loop K todo k (mk_det D sg acc), inv_loop K todo k (a, out) with
  | None, None => True
  | Some st, Some _ => det_acc st * det_sign st <> 0
  | _, _ => False
  end.
Proof.
  intros n todo; induction todo as [|t IH]; intros k D sg acc a out HwD Hinv Hag Hkn Hnz; cbn [det_loop inv_loop].
  - exact Hnz.
  - pose proof Hinv as [Hwa Hwo Hunit]. pose proof Hwa as [HLa _]. pose proof HwD as [HLD _].
    pose proof (inv_step_spec n k a out Hinv ltac:(lia)) as Hs.
    unfold det_step. cbn [det_M det_sign det_acc].
    unfold inv_step in *. cbn [fst snd] in *.
    rewrite (find_pivot_row_agree n k D a HwD Hwa Hag).
    pose proof (find_pivot_row_spec k k a) as Hfp.
    destruct (find_pivot_row K k k a) as [p|]; [|exact I].
    destruct Hfp as (Hp1 & Hp2 & Hp3).
    fold (gj_swapped k p D). fold (gj_swapped k p a) in *. fold (gj_swapped k p out) in *.
    cbn [fst snd] in Hs. destruct Hs as [Hinv' _].
    set (D1 := gj_swapped k p D). set (a1 := gj_swapped k p a) in *.
    assert (HwD1 : wf_matrix n n D1).
    { unfold D1, gj_swapped. destruct (Nat.eqb p k); auto. apply wf_swap_rows; auto; lia. }
    assert (Hwa1 : wf_matrix n n a1).
    { unfold a1, gj_swapped. destruct (Nat.eqb p k); auto. apply wf_swap_rows; auto; lia. }
    assert (Hag1 : rows_agree k D1 a1).
    { intros i j Hi. unfold D1, a1. rewrite !entry_gj_swapped by lia. apply Hag. apply swap_idx_ge; auto. }
    assert (Ha1k : forall j, j < k -> entry K k j a1 = 0).
    { intros j Hj. unfold a1. rewrite entry_gj_swapped by lia. unfold swap_idx. rewrite Nat.eqb_refl.
      rewrite Hunit by auto. replace (Nat.eqb p j) with false by (symmetry; apply Nat.eqb_neq; lia). reflexivity. }
    assert (Hpiv : entry K k k D1 = entry K k k a1) by (apply Hag1; lia).
    assert (He : entry K k k a1 <> 0).
    { unfold a1. rewrite entry_gj_swapped by lia. unfold swap_idx. rewrite Nat.eqb_refl. exact Hp3. }
    apply (IH (S k)); auto; try lia.
    + apply wf_det_elim; auto.
    + (* rows from k+1 on still agree *)
      intros i j Hi.
      destruct (Nat.ltb i n) eqn:Ei.
      2:{ apply Nat.ltb_ge in Ei. rewrite !entry_overflow; auto.
          - rewrite eliminate_by_length. unfold scale_row. rewrite upd_length. destruct Hwa1; lia.
          - unfold det_elim. rewrite mapi_length. destruct HwD1; lia. }
      apply Nat.ltb_lt in Ei.
      destruct (Nat.ltb j n) eqn:Ej.
      2:{ apply Nat.ltb_ge in Ej. rewrite !entry_row.
          rewrite !nth_overflow; auto.
          - rewrite (wf_row_length n n _ i); auto. apply wf_eliminate_by; auto. apply wf_scale_row; auto. lia.
          - rewrite (wf_row_length n n _ i); auto. apply wf_det_elim; auto. }
      apply Nat.ltb_lt in Ej.
      rewrite (entry_det_elim n n) by auto.
      replace (Nat.ltb k i) with true by (symmetry; apply Nat.ltb_lt; lia).
      rewrite (entry_eliminate_by n n) by (auto using wf_scale_row; lia).
      replace (Nat.eqb i k) with false by (symmetry; apply Nat.eqb_neq; lia).
      rewrite nth_col, !entry_scale_row, Nat.eqb_refl.
      replace (Nat.eqb i k) with false by (symmetry; apply Nat.eqb_neq; lia).
      rewrite !(Hag1 i) by lia. rewrite !(Hag1 k) by lia.
      rewrite !fdiv_def.
      destruct (Nat.ltb k j) eqn:Ekj.
      * ring.
      * apply Nat.ltb_ge in Ekj. destruct (Nat.eqb j k) eqn:Ejk.
        -- apply Nat.eqb_eq in Ejk; subst j.
           transitivity (entry K i k a1 - entry K i k a1 * (finv K (entry K k k a1) * entry K k k a1)); [|ring].
           rewrite finv_l by auto. ring.
        -- apply Nat.eqb_neq in Ejk. rewrite Ha1k by lia. ring.
    + (* accumulated product stays non-zero *)
      rewrite Hpiv. intro E.
      assert (E' : (acc * (if Nat.eqb p k then sg else fopp K sg)) * entry K k k a1 = 0) by (rewrite <- E; ring).
      apply fmul_eq_0 in E'. destruct E' as [E'|E']; [|contradiction].
      apply Hnz. destruct (Nat.eqb p k); auto.
      assert (acc * sg = fopp K (acc * fopp K sg)) as -> by ring. rewrite E'. ring.
Qed.

(* (g) det_zero_iff: Determinant returns zero exactly when TryInv reports "singular",
   i.e. (by try_inv_none_iff) exactly when the matrix has no inverse *)
Theorem det_zero_iff : forall n (M : @matrix F), wf_matrix n n M -> 0 < n ->
  (determinant K M = 0 <-> try_inv K M = None).
Proof.
  intros n M Hwf Hn. pose proof Hwf as [HL _].
  assert (Hinit : inv_inv n 0 M (identity K n)).
  { constructor; auto using wf_identity. intros; lia. }
  assert (Hnz : 1 * 1 <> 0) by (intro E; apply f1_neq_0; rewrite <- E; ring).
  pose proof (det_inv_lockstep n n 0 M 1 1 M (identity K n) Hwf Hinit ltac:(intros i j _; reflexivity) ltac:(lia) Hnz) as H.
  unfold determinant, try_inv. unfold nrows. rewrite HL.
  destruct (det_loop K n 0 (mk_det M 1 1)) as [st|]; destruct (inv_loop K n 0 (M, identity K n)) as [st'|];
    try contradiction.
  - split; [intro E; contradiction|discriminate].
  - split; auto.
Qed.

Corollary det_zero_iff_singular : forall n (M : @matrix F), wf_matrix n n M -> 0 < n ->
  (determinant K M = 0 <->
   ~ exists N, wf_matrix n n N /\ mmul K M N = identity K n /\ mmul K N M = identity K n).
Proof. intros n M Hwf Hn. rewrite (det_zero_iff n M Hwf Hn). now apply try_inv_none_iff. Qed.

End LinAlgProofs.
