(* Msp_proofs.v — generic theorems about monotone span programmes (model/Msp.v, model/Kw.v)
   over an arbitrary field (flaws K): every MSP, every labelling (ideal or not).

     accepts_iff_span     Accepts  <->  e0 is in the row span of the selected rows
     kernel_rejects       a kernel vector w of the selected rows with w_0 = 1 refutes Accepts
     rejects_kernel       ~Accepts (IDs known)  ->  such a w exists               (duality)
     monotone             Accepts S, S ⊆ S' (IDs known)  ->  Accepts S'
     privacy              ~Accepts S  ->  every other secret is consistent with the shares of S
     share_linear         dealing is linear (Share.Add / ScalarMul)                              *)
From Coq Require Import List NArith Arith Bool Lia Field Ring.
Import ListNotations.
Require Import V.base.Fld V.model.LinAlg V.model.Access V.model.Msp V.model.Kw.
Require Import V.proofs.LinAlg_proofs V.proofs.Span_proofs.

Section MspProofs.
Context {F : Type} (K : fops F) (HK : flaws K).
Implicit Type m : @msp F.
Implicit Type M : @matrix F.

Add Field Kfield3 : (fl_theory K HK).

Notation "0" := (f0 K).
Notation "1" := (f1 K).
Infix "+" := (fadd K).
Infix "*" := (fmul K).
Infix "-" := (fsub K).

Definition wf_msp (m : msp (F:=F)) : Prop :=
  exists n d, wf_matrix n d (msp_M m) /\ length (msp_lab m) = n /\ (0 < d)%nat /\ (0 < n)%nat.

(* ---- selected rows ------------------------------------------------------------------------ *)

Definition sel_filter (m : msp (F:=F)) (ids : list N) : list nat :=
  filter (fun i => memN (nth i (msp_lab m) 0%N) ids) (seq 0 (length (msp_lab m))).

Lemma sel_rows_some : forall m ids rows, sel_rows m ids = Some rows ->
  rows = sel_filter m ids /\ rows <> [] /\ forallb (fun id => memN id (msp_lab m)) ids = true.
Proof.
  intros m ids rows H. unfold sel_rows in H. fold (sel_filter m ids) in H.
  destruct (forallb _ ids) eqn:E; [|discriminate].
  destruct (sel_filter m ids) as [|r rs] eqn:E2; [discriminate|]. inversion H; subst.
  repeat split; auto. discriminate.
Qed.

Lemma sel_filter_lt : forall m ids i, In i (sel_filter m ids) -> (i < length (msp_lab m))%nat.
Proof.
  intros m ids i H. unfold sel_filter in H. apply filter_In in H. destruct H as [H _].
  apply in_seq in H. lia.
Qed.

Lemma memN_In : forall x l, memN x l = true <-> In x l.
Proof.
  intros. unfold memN. rewrite existsb_exists. split.
  - intros [y [Hy E]]. apply N.eqb_eq in E. now subst.
  - intros H. exists x. split; auto. apply N.eqb_refl.
Qed.

Lemma in_sel_filter : forall m ids i, In i (sel_filter m ids) <->
  (i < length (msp_lab m))%nat /\ In (nth i (msp_lab m) 0%N) ids.
Proof.
  intros. unfold sel_filter. rewrite filter_In, in_seq, memN_In. intuition lia.
Qed.

Lemma sub_rows_wf : forall n d (M : @matrix F) rows, wf_matrix n d M -> Forall (fun i => (i < n)%nat) rows ->
  wf_matrix (length rows) d (sub_rows M rows).
Proof.
  intros n d M rows Hwf Hr. split.
  - unfold sub_rows. now rewrite map_length.
  - unfold sub_rows. apply Forall_forall. intros r Hin. apply in_map_iff in Hin.
    destruct Hin as [i [<- Hi]]. rewrite Forall_forall in Hr.
    apply (wf_row_length n d M i Hwf). now apply Hr.
Qed.

Lemma msp_D_wf : forall m n d, wf_matrix n d (msp_M m) -> (0 < n)%nat -> msp_D m = d.
Proof. intros. unfold msp_D. now apply (ncols_wf n d). Qed.

Lemma target_length : forall m, length (target K m) = msp_D m.
Proof. intros. unfold target. apply unit_vec_length. Qed.

Lemma dot_target : forall m w, (0 < msp_D m)%nat -> dot K (target K m) w = nth 0 w 0.
Proof.
  intros m w Hd. rewrite (dot_comm K HK). unfold target. apply (dot_unit_r K HK). exact Hd.
Qed.

(* ---- Accepts <-> span ------------------------------------------------------------------------ *)

Theorem accepts_iff_span : forall m ids, wf_msp m ->
  (accepts K m ids = true <->
   exists rows, sel_rows m ids = Some rows /\
                in_span K (msp_D m) (sub_rows (msp_M m) rows) (target K m)).
Proof.
  intros m ids [n [d [Hwf [Hlab [Hd Hn0]]]]]. unfold accepts, recon_vector, recon_for_rows.
  destruct (sel_rows m ids) as [rows|] eqn:Es.
  2:{ split; [discriminate|]. intros [rows [H _]]. discriminate. }
  destruct (sel_rows_some m ids rows Es) as [Hrows [Hne _]].
  assert (Hlt : Forall (fun i => (i < n)%nat) rows).
  { apply Forall_forall. intros i Hi. rewrite Hrows in Hi. apply sel_filter_lt in Hi. lia. }
  assert (Hn : (0 < n)%nat).
  { destruct rows as [|i rs]; [congruence|]. inversion Hlt; lia. }
  assert (HD : msp_D m = d) by now apply (msp_D_wf m n d).
  pose proof (sub_rows_wf n d _ rows Hwf Hlt) as HwfS.
  assert (Hr : (0 < length rows)%nat) by (destruct rows; [congruence|cbn; lia]).
  assert (Ht : length (target K m) = d) by now rewrite target_length.
  split.
  - destruct (solve_left K (sub_rows (msp_M m) rows) (target K m)) as [y|] eqn:E; [|discriminate].
    intros _. exists rows. split; auto.
    destruct (solve_left_sound K HK _ _ _ _ y HwfS Hr Hd Ht E) as [Hy Hv].
    exists y. split.
    + destruct HwfS as [HL _]. lia.
    + rewrite HD. rewrite <- (vecm_lincomb K HK _ _ _ y HwfS Hr Hy). exact Hv.
  - intros [rows' [Hs [y [Hy Hl]]]]. inversion Hs; subst rows'.
    destruct HwfS as [HL HF].
    assert (Hy' : length y = length rows) by lia.
    rewrite HD in Hl. rewrite <- (vecm_lincomb K HK _ _ _ y (conj HL HF) Hr Hy') in Hl.
    pose proof (solve_left_complete K HK _ _ _ _ y (conj HL HF) Hr Hd Ht Hy' Hl) as Hc.
    destruct (solve_left K _ _); [reflexivity|congruence].
Qed.

(* a kernel vector with first coordinate 1 refutes acceptance *)
Theorem kernel_rejects : forall m ids rows w, wf_msp m ->
  sel_rows m ids = Some rows ->
  in_ker K (sub_rows (msp_M m) rows) w -> nth 0 w 0 = 1 ->
  accepts K m ids = false.
Proof.
  intros m ids rows w Hwf Hs Hk Hw0.
  destruct (accepts K m ids) eqn:E; [|reflexivity]. exfalso.
  apply (accepts_iff_span m ids Hwf) in E. destruct E as [rows' [Hs' Hspan]].
  rewrite Hs in Hs'. inversion Hs'; subst rows'.
  destruct Hwf as [n [d [Hwf [Hlab [Hd Hn0]]]]].
  destruct (sel_rows_some m ids rows Hs) as [Hrows [Hne _]].
  assert (Hlt : Forall (fun i => (i < n)%nat) rows).
  { apply Forall_forall. intros i Hi. rewrite Hrows in Hi. apply sel_filter_lt in Hi. lia. }
  assert (Hn : (0 < n)%nat).
  { destruct rows as [|i rs]; [congruence|]. inversion Hlt; lia. }
  assert (HD : msp_D m = d) by now apply (msp_D_wf m n d).
  destruct (sub_rows_wf n d _ rows Hwf Hlt) as [_ HF].
  rewrite HD in Hspan.
  pose proof (span_kernel_excl K HK d _ _ w HF Hspan Hk) as Hz.
  rewrite dot_target in Hz by lia. rewrite Hw0 in Hz.
  now apply (f1_neq_0 K HK).
Qed.

(* duality: a rejected set of known IDs has such a kernel vector *)
Theorem rejects_kernel : forall m ids rows, wf_msp m ->
  sel_rows m ids = Some rows -> accepts K m ids = false ->
  exists w, length w = msp_D m /\ in_ker K (sub_rows (msp_M m) rows) w /\ nth 0 w 0 = 1.
Proof.
  intros m ids rows Hwf Hs Hacc.
  pose proof Hwf as [n [d [Hwfm [Hlab [Hd Hn0]]]]].
  destruct (sel_rows_some m ids rows Hs) as [Hrows [Hne _]].
  assert (Hlt : Forall (fun i => (i < n)%nat) rows).
  { apply Forall_forall. intros i Hi. rewrite Hrows in Hi. apply sel_filter_lt in Hi. lia. }
  assert (Hn : (0 < n)%nat).
  { destruct rows as [|i rs]; [congruence|]. inversion Hlt; lia. }
  assert (HD : msp_D m = d) by now apply (msp_D_wf m n d).
  destruct (sub_rows_wf n d _ rows Hwfm Hlt) as [_ HF].
  assert (Ht : length (target K m) = d) by now rewrite target_length.
  destruct (span_or_kernel K HK d _ (target K m) HF Ht) as [Hspan | [w [Hw [Hk Hd1]]]].
  - exfalso. assert (accepts K m ids = true); [|congruence].
    apply (accepts_iff_span m ids Hwf). exists rows. split; auto. now rewrite HD.
  - exists w. rewrite HD. repeat split; auto. rewrite dot_target in Hd1 by lia. exact Hd1.
Qed.

(* ---- monotonicity ------------------------------------------------------------------------------- *)

Lemma in_ker_sub : forall (M : @matrix F) rows rows' w, incl rows rows' ->
  in_ker K (sub_rows M rows') w -> in_ker K (sub_rows M rows) w.
Proof.
  intros M rows rows' w Hi Hk. unfold in_ker, sub_rows in *. rewrite Forall_forall in *.
  intros a Ha. apply in_map_iff in Ha. destruct Ha as [i [<- Hin]].
  apply Hk. apply in_map_iff. exists i. split; auto.
Qed.

Theorem monotone : forall m ids ids', wf_msp m ->
  incl ids ids' -> (forall id, In id ids' -> In id (msp_lab m)) ->
  accepts K m ids = true -> accepts K m ids' = true.
Proof.
  intros m ids ids' Hwf Hincl Hknown Hacc.
  destruct (accepts K m ids') eqn:E; [reflexivity|]. exfalso.
  pose proof (proj1 (accepts_iff_span m ids Hwf) Hacc) as [rows [Hs _]].
  destruct (sel_rows_some m ids rows Hs) as [Hrows [Hne Hall]].
  (* ids' selects rows too *)
  assert (Hs' : exists rows', sel_rows m ids' = Some rows' /\ incl rows rows').
  { unfold sel_rows. fold (sel_filter m ids').
    assert (Hall' : forallb (fun id => memN id (msp_lab m)) ids' = true).
    { apply forallb_forall. intros id Hid. apply memN_In. now apply Hknown. }
    rewrite Hall'.
    assert (Hinc : incl rows (sel_filter m ids')).
    { intros i Hi. rewrite Hrows in Hi. apply in_sel_filter in Hi. apply in_sel_filter.
      destruct Hi; split; auto. }
    destruct (sel_filter m ids') as [|r rs] eqn:E2.
    - destruct rows as [|i rs]; [congruence|]. exfalso. apply (Hinc i). now left.
    - exists (r :: rs). split; auto. }
  destruct Hs' as [rows' [Hs' Hinc]].
  destruct (rejects_kernel m ids' rows' Hwf Hs' E) as [w [Hw [Hk Hw0]]].
  pose proof (kernel_rejects m ids rows w Hwf Hs (in_ker_sub _ rows rows' w Hinc Hk) Hw0). congruence.
Qed.

(* ---- dealing --------------------------------------------------------------------------------------- *)

Lemma rows_of_in : forall m id i, In i (rows_of m id) <->
  (i < length (msp_lab m))%nat /\ nth i (msp_lab m) 0%N = id.
Proof.
  intros. unfold rows_of. rewrite filter_In, in_seq, N.eqb_eq. intuition lia.
Qed.

(* privacy: the shares of a rejected set of known holders are consistent with every secret *)
Theorem privacy : forall m ids r s', wf_msp m ->
  (forall id, In id ids -> In id (msp_lab m)) ->
  accepts K m ids = false -> length r = msp_D m ->
  exists r', length r' = msp_D m /\ nth 0 r' 0 = s' /\
    forall id, In id ids ->
      share_of K m (mvec K (msp_M m) r') id = share_of K m (mvec K (msp_M m) r) id.
Proof.
  intros m ids r s' Hwf Hknown Hacc Hr.
  pose proof Hwf as [n [d [Hwfm [Hlab [Hd Hn0]]]]].
  destruct ids as [|id0 ids0].
  { (* no holder at all: change the secret coordinate *)
    assert (HD : msp_D m = d) by now apply (msp_D_wf m n d).
    destruct r as [|r0 rt]; [cbn in Hr; lia|].
    exists (s' :: rt). split; [exact Hr|]. split; [reflexivity|]. intros id []. }
  remember (id0 :: ids0) as ids eqn:Eids.
  assert (Hs : exists rows, sel_rows m ids = Some rows).
  { unfold sel_rows. fold (sel_filter m ids).
    assert (Hall : forallb (fun id => memN id (msp_lab m)) ids = true).
    { apply forallb_forall. intros id Hid. apply memN_In. now apply Hknown. }
    rewrite Hall.
    destruct (sel_filter m ids) as [|i rs] eqn:E2; [|eauto]. exfalso.
    assert (Hin : In id0 (msp_lab m)) by (apply Hknown; subst; now left).
    apply (In_nth _ _ 0%N) in Hin. destruct Hin as [i [Hi Hnth]].
    assert (In i (sel_filter m ids)).
    { apply in_sel_filter. split; auto. rewrite Hnth. subst; now left. }
    rewrite E2 in H. contradiction. }
  destruct Hs as [rows Hs].
  destruct (rejects_kernel m ids rows Hwf Hs Hacc) as [w [Hw [Hk Hw0]]].
  destruct (sel_rows_some m ids rows Hs) as [Hrows _].
  set (c := s' - nth 0 r 0).
  exists (vadd K r (smul K c w)).
  assert (Hlen : length r = length (smul K c w)) by (rewrite smul_length; lia).
  split; [rewrite vadd_length; auto|]. split.
  - rewrite (nth_vadd K HK) by auto. rewrite (nth_smul K HK), Hw0. unfold c. ring.
  - intros id Hid. unfold share_of. f_equal. apply map_ext_in. intros i Hi.
    rewrite (mvec_vadd K HK) by auto. rewrite (mvec_smul K HK).
    rewrite (nth_vadd K HK) by (rewrite smul_length, !mvec_length; auto).
    rewrite (nth_smul K HK). rewrite !(nth_mvec K).
    assert (Hz : dot K (row i (msp_M m)) w = 0).
    { apply rows_of_in in Hi. destruct Hi as [Hil Hie].
      unfold in_ker in Hk. rewrite Forall_forall in Hk. apply Hk.
      unfold sub_rows. apply in_map_iff. exists i. split; auto.
      rewrite Hrows. apply in_sel_filter. split; auto. now rewrite Hie. }
    rewrite Hz. ring.
Qed.

(* linearity of dealing: Share.Add / Share.ScalarMul of dealt shares are the dealt shares of the
   sum / multiple of the random columns (hence of the secrets) *)
Theorem share_linear_add : forall m r1 r2 id, length r1 = length r2 ->
  share_add K (share_of K m (mvec K (msp_M m) r1) id) (share_of K m (mvec K (msp_M m) r2) id)
  = Some (share_of K m (mvec K (msp_M m) (vadd K r1 r2)) id).
Proof.
  intros m r1 r2 id Hl. unfold share_add, share_of. cbn [fst snd].
  rewrite N.eqb_refl, !map_length, Nat.eqb_refl. cbn [andb]. f_equal. f_equal.
  rewrite (mvec_vadd K HK) by auto.
  induction (rows_of m id) as [|i rs IH]; [reflexivity|].
  cbn [map combine fst snd]. rewrite IH. f_equal.
  rewrite (nth_vadd K HK) by (rewrite !mvec_length; auto). reflexivity.
Qed.

Theorem share_linear_scale : forall m r c id,
  share_scale K c (share_of K m (mvec K (msp_M m) r) id)
  = share_of K m (mvec K (msp_M m) (smul K c r)) id.
Proof.
  intros m r c id. unfold share_scale, share_of. cbn [fst snd]. f_equal.
  rewrite map_map. apply map_ext. intros i.
  rewrite (mvec_smul K HK), (nth_smul K HK). ring.
Qed.

End MspProofs.
