(* Curve_proofs.v — proofs about the REGENERATED straight-line programs of coq/gen/Formulas.v
   (weierstrass.go / edwards.go / quadratic.go / cubic.go of the current source tree), over an
   arbitrary field [K] with laws [flaws K] and arbitrary curve parameters:

   short Weierstrass (Renes–Costello–Batina complete formulas, a b arbitrary)
     add_preserves_curve dbl_preserves_curve add_generic_agrees add_doubling_agrees
     add_inverse_gives_infinity add_identity_left add_identity_right add_nondegenerate
     neg_agrees equal_iff_same_affine set_affine_iff_on_curve to_affine_spec
     w_add_correct / w_double_correct : the projective program followed by ToAffine equals
     the chord–tangent law [waff_add] of model/Curve.v on all valid inputs
   twisted Edwards (extended coordinates)
     ed_add_preserves_curve ed_add_agrees ed_double_agrees ed_add_complete e_add_correct
   towers
     quad_mul_schoolbook quad_square_is_mul cubic_mul_schoolbook cubic_square_is_mul

   Named hypotheses that stay visible in props/C14.v: [no_two_torsion] (x^3+ax+b has no root),
   [two_nz], [three_nz] (characteristic not 2, 3), [d_nonsquare], [a_square] for Edwards.
   Associativity of the elliptic-curve law is neither proved nor used here. *)
From Coq Require Import ZArith Field Ring Nsatz Bool List.
Require Import V.base.Fld V.gen.Formulas V.model.Curve.

Section FieldFacts.
  Context {F : Type} (K : fops F) (HK : flaws K).
  Local Notation "0" := (f0 K).
  Local Notation "1" := (f1 K).
  Local Infix "+" := (fadd K).
  Local Infix "*" := (fmul K).
  Local Infix "-" := (fsub K).
  Local Infix "/" := (fdiv K).
  Local Notation "- x" := (fopp K x).

  Add Field Ffield : (fl_theory K HK).

  Lemma tup2 : forall (A : Type) (a a' b b' : A), a = a' -> b = b' -> (a, b) = (a', b').
  Proof. intros; subst; reflexivity. Qed.
  Lemma tup3 : forall (A : Type) (a a' b b' c c' : A), a = a' -> b = b' -> c = c' -> (a, b, c) = (a', b', c').
  Proof. intros; subst; reflexivity. Qed.
  Lemma tup4 : forall (A : Type) (a a' b b' c c' e e' : A),
    a = a' -> b = b' -> c = c' -> e = e' -> (a, b, c, e) = (a', b', c', e').
  Proof. intros; subst; reflexivity. Qed.


  Lemma feqb_eq : forall x y, feqb K x y = true <-> x = y.
  Proof. exact (fl_eqb K HK). Qed.

  Lemma feqb_neq : forall x y, feqb K x y = false <-> x <> y.
  Proof.
    intros x y. split.
    - intros E Hc. apply feqb_eq in Hc. congruence.
    - intros Hn. destruct (feqb K x y) eqn:E; [|reflexivity]. apply feqb_eq in E. contradiction.
  Qed.

  Lemma fis0_eq : forall x, fis0 K x = true <-> x = 0.
  Proof. intro x. unfold fis0. apply feqb_eq. Qed.

  Lemma fis0_neq : forall x, fis0 K x = false <-> x <> 0.
  Proof. intro x. unfold fis0. apply feqb_neq. Qed.

  Lemma f_integral : forall x y : F, x * y = 0 -> x = 0 \/ y = 0.
  Proof.
    intros x y H. destruct (feqb K x 0) eqn:E.
    - left. apply feqb_eq. exact E.
    - right. apply feqb_neq in E.
      transitivity (finv K x * (x * y)). { field. exact E. } rewrite H. ring.
  Qed.

  Lemma f_1_neq_0 : 1 <> 0.
  Proof. exact (F_1_neq_0 (fl_theory K HK)). Qed.

  Lemma nz_mul : forall x y, x <> 0 -> y <> 0 -> x * y <> 0.
  Proof. intros x y Hx Hy H. destruct (f_integral _ _ H); contradiction. Qed.

  Lemma nz_opp : forall x, x <> 0 -> - x <> 0.
  Proof. intros x Hx H. apply Hx. transitivity (- - x). ring. rewrite H. ring. Qed.

  Lemma finv_r : forall x, x <> 0 -> x * finv K x = 1.
  Proof. intros x Hx. field. exact Hx. Qed.

  Lemma fdiv_mul : forall x y, x / y = x * finv K y.
  Proof. intros. apply (Fdiv_def (fl_theory K HK)). Qed.

  Lemma sub_eq0 : forall x y, x - y = 0 -> x = y.
  Proof. intros x y H. transitivity (x - y + y). ring. rewrite H. ring. Qed.

  Lemma neq_sub : forall x y, x <> y -> y - x <> 0.
  Proof. intros x y H Hc. apply H. symmetry. apply sub_eq0. exact Hc. Qed.

  (* nsatz needs the Ncring / Cring / Integral_domain class instances *)
  Instance F_ops : @Ring_ops F 0 1 (fadd K) (fmul K) (fsub K) (fopp K) (@eq F) := {}.
  Instance F_ring : Ring (Ro := F_ops).
  Proof.
    constructor;
      unfold equality, addition, multiplication, subtraction, opposite, zero, one, eq_notation,
        add_notation, mul_notation, sub_notation, opp_notation, zero_notation, one_notation, F_ops;
      try (intros; ring); try exact eq_equivalence; try (repeat intro; subst; reflexivity).
  Qed.
  Instance F_cring : Cring (Rr := F_ring).
  Proof. intros x y. unfold equality, multiplication, eq_notation, mul_notation, F_ops. ring. Qed.
  Instance F_id : Integral_domain (Rcr := F_cring).
  Proof. constructor. exact f_integral. exact f_1_neq_0. Qed.

  (* the integer side conditions nsatz leaves ("c <> 0" for the leading coefficient c of its
     certificate) are discharged from: characteristic not 2, not 3 *)
  Section Char.
    Hypothesis two_nz : 1 + 1 <> 0.
    Hypothesis three_nz : 1 + 1 + 1 <> 0.
    Lemma three_nz' : 1 + (1 + 1) <> 0.
    Proof. intro H. apply three_nz. rewrite <- H. ring. Qed.
  End Char.

  Ltac fold_ops H :=
    cbn in H;
    cbv [equality eq_notation addition add_notation multiplication mul_notation subtraction
         sub_notation opposite opp_notation zero zero_notation one one_notation R2 F_ops] in H.

  (* solves  ~ interpret3 (PEc c) l == zero  for c = +-2^i 3^j *)
  Ltac nz_side two_nz three_nz :=
    let Hc := fresh "Hc" in
    intro Hc; fold_ops Hc; revert Hc;
    repeat first [ exact two_nz | exact (three_nz' three_nz) | exact three_nz | exact f_1_neq_0
                 | apply nz_opp | apply nz_mul ].

  (* every nsatz call is bounded: on a mutated program a Groebner computation that cannot succeed
     must fail the build instead of running for the whole make timeout *)
  Ltac nsatzT := timeout 300 nsatz.
  Ltac nsatz23 two_nz three_nz := nsatzT; try (nz_side two_nz three_nz).

  (* ================================================================================== *)
  (*  short Weierstrass: weierstrass.go                                                  *)
  (* ================================================================================== *)
  Section Weierstrass.
    Variables a b : F.

    Definition proj_on (P : F * F * F) : Prop :=
      let '(X, Y, Z) := P in Y * Y * Z = X * X * X + a * X * Z * Z + b * Z * Z * Z.
    Definition aff_on (x y : F) : Prop := y * y = x * x * x + a * x + b.

    (* a projective point: on the curve and not (0,0,0) *)
    Definition valid (P : F * F * F) : Prop := proj_on P /\ P <> (0, 0, 0).

    Definition proj_add (P Q : F * F * F) : F * F * F :=
      let '(X1, Y1, Z1) := P in let '(X2, Y2, Z2) := Q in W_Add K a b X1 Y1 Z1 X2 Y2 Z2.
    Definition proj_double (P : F * F * F) : F * F * F :=
      let '(X1, Y1, Z1) := P in W_Double K a b X1 Y1 Z1.
    Definition proj_neg (P : F * F * F) : F * F * F :=
      let '(X1, Y1, Z1) := P in W_Neg K X1 Y1 Z1.
    Definition proj_sub (P Q : F * F * F) : F * F * F :=
      let '(X1, Y1, Z1) := P in let '(X2, Y2, Z2) := Q in W_Sub K a b X1 Y1 Z1 X2 Y2 Z2.
    Definition proj_equal (P Q : F * F * F) : bool :=
      let '(X1, Y1, Z1) := P in let '(X2, Y2, Z2) := Q in W_Equal K X2 Y2 Z2 X1 Y1 Z1.

    (* ToAffine as the code does it (ok, x, y) turned into the model's option *)
    Definition w_to_affine (P : F * F * F) : option (F * F) :=
      let '(X, Y, Z) := P in
      let '(ok, x, y) := W_ToAffine K 0 0 X Y Z in
      if ok then Some (x, y) else None.

    Lemma w_to_affine_eq : forall X Y Z,
      w_to_affine (X, Y, Z) = if fis0 K Z then None else Some (X * finv K Z, Y * finv K Z).
    Proof. intros. unfold w_to_affine. cbv [W_ToAffine]. destruct (fis0 K Z); reflexivity. Qed.

    (* ---- the curve equation is preserved ------------------------------------------- *)
    Lemma add_preserves_curve : forall P Q, proj_on P -> proj_on Q -> proj_on (proj_add P Q).
    Proof.
      intros [[X1 Y1] Z1] [[X2 Y2] Z2]. unfold proj_on, proj_add. cbv [W_Add]. intros H1 H2. nsatzT.
    Qed.

    Lemma dbl_preserves_curve : forall P, proj_on P -> proj_on (proj_double P).
    Proof.
      intros [[X1 Y1] Z1]. unfold proj_on, proj_double. cbv [W_Double]. intros H1. nsatzT.
    Qed.

    (* ---- homogeneity: the programs are bihomogeneous of degree (2,2) / 4 ---------------- *)
    Lemma add_homog : forall x1 y1 z1 x2 y2 z2 : F,
      W_Add K a b (x1 * z1) (y1 * z1) z1 (x2 * z2) (y2 * z2) z2 =
      let '(X, Y, Z) := W_Add K a b x1 y1 1 x2 y2 1 in
      let c := (z1 * z2) * (z1 * z2) in (c * X, c * Y, c * Z).
    Proof. intros. cbv [W_Add]. apply tup3; ring. Qed.

    Lemma dbl_homog : forall x1 y1 z1 : F,
      W_Double K a b (x1 * z1) (y1 * z1) z1 =
      let '(X, Y, Z) := W_Double K a b x1 y1 1 in
      let c := (z1 * z1) * (z1 * z1) in (c * X, c * Y, c * Z).
    Proof. intros. cbv [W_Double]. apply tup3; ring. Qed.

    (* ---- agreement with the chord / tangent formulas, cross-multiplied ----------------------- *)
    (* generic case x1 <> x2: di is the inverse of x2 - x1 (projective inputs follow by add_homog) *)
    Lemma add_generic_agrees : forall x1 y1 x2 y2 l di X3 Y3 Z3 : F,
      aff_on x1 y1 -> aff_on x2 y2 -> (x2 - x1) * di = 1 -> l = (y2 - y1) * di ->
      W_Add K a b x1 y1 1 x2 y2 1 = (X3, Y3, Z3) ->
      X3 = (l * l - x1 - x2) * Z3 /\ Y3 = (l * (x1 - (l * l - x1 - x2)) - y1) * Z3.
    Proof.
      unfold aff_on. intros x1 y1 x2 y2 l di X3 Y3 Z3 H1 H2 Hd Hl HA. cbv [W_Add] in HA.
      injection HA as HX HY HZ. subst X3 Y3 Z3. split; nsatzT.
    Qed.

    Section CharNot23.
      Hypothesis two_nz : 1 + 1 <> 0.
      Hypothesis three_nz : 1 + 1 + 1 <> 0.

      (* doubling case P = Q through the ADDITION program: di is the inverse of 2y *)
      Lemma add_doubling_agrees : forall x y l di X3 Y3 Z3 : F,
        aff_on x y -> (y + y) * di = 1 -> l = (x * x + x * x + x * x + a) * di ->
        W_Add K a b x y 1 x y 1 = (X3, Y3, Z3) ->
        X3 = (l * l - x - x) * Z3 /\ Y3 = (l * (x - (l * l - x - x)) - y) * Z3 /\
        Z3 = (y + y) * (y + y) * (y + y).
      Proof.
        unfold aff_on. intros x y l di X3 Y3 Z3 H1 Hd Hl HA. cbv [W_Add] in HA.
        injection HA as HX HY HZ. subst X3 Y3 Z3. split; [|split].
        - nsatz23 two_nz three_nz.
        - nsatz23 two_nz three_nz.
        - nsatz23 two_nz three_nz.
      Qed.

      (* the dedicated doubling program *)
      Lemma dbl_agrees : forall x y l di X3 Y3 Z3 : F,
        aff_on x y -> (y + y) * di = 1 -> l = (x * x + x * x + x * x + a) * di ->
        W_Double K a b x y 1 = (X3, Y3, Z3) ->
        X3 = (l * l - x - x) * Z3 /\ Y3 = (l * (x - (l * l - x - x)) - y) * Z3 /\
        Z3 = (y + y) * (y + y) * (y + y).
      Proof.
        unfold aff_on. intros x y l di X3 Y3 Z3 H1 Hd Hl HA. cbv [W_Double] in HA.
        injection HA as HX HY HZ. subst X3 Y3 Z3. split; [|split].
        - nsatz23 two_nz three_nz.
        - nsatz23 two_nz three_nz.
        - nsatz23 two_nz three_nz.
      Qed.
    End CharNot23.

    Lemma neg_agrees : forall P, w_to_affine (proj_neg P) = waff_neg K (w_to_affine P).
    Proof.
      intros [[X Y] Z]. unfold proj_neg. cbv [W_Neg]. rewrite !w_to_affine_eq.
      destruct (fis0 K Z); [reflexivity|]. cbn [waff_neg]. f_equal. f_equal. ring.
    Qed.

    Lemma neg_preserves_curve : forall P, proj_on P -> proj_on (proj_neg P).
    Proof. intros [[X Y] Z]. unfold proj_on, proj_neg. cbv [W_Neg]. intro H. nsatzT. Qed.

    (* ---- identity operands: the program scales the other operand by Y1^2*Y2 ------------------- *)
    Lemma add_identity_left : forall Y1 X2 Y2 Z2 : F,
      W_Add K a b 0 Y1 0 X2 Y2 Z2 = ((Y1 * Y1 * Y2) * X2, (Y1 * Y1 * Y2) * Y2, (Y1 * Y1 * Y2) * Z2).
    Proof. intros. cbv [W_Add]. apply tup3; ring. Qed.

    Lemma add_identity_right : forall X1 Y1 Z1 Y2 : F,
      W_Add K a b X1 Y1 Z1 0 Y2 0 = ((Y1 * Y2 * Y2) * X1, (Y1 * Y2 * Y2) * Y1, (Y1 * Y2 * Y2) * Z1).
    Proof. intros. cbv [W_Add]. apply tup3; ring. Qed.

    (* ---- opposite operands: X3 = Z3 = 0 identically ------------------------------------------- *)
    Lemma add_inverse_gives_infinity : forall x y : F,
      let '(X3, Y3, Z3) := W_Add K a b x y 1 x (- y) 1 in X3 = 0 /\ Z3 = 0.
    Proof. intros. cbv [W_Add]. split; ring. Qed.

    Lemma dbl_identity : forall Y : F, W_Double K a b 0 Y 0 = (0, Y * Y * (Y * Y), 0).
    Proof. intros. cbv [W_Double]. apply tup3; ring. Qed.

    Definition no_two_torsion : Prop := forall x : F, x * x * x + a * x + b <> 0.

    Lemma y_nonzero : no_two_torsion -> forall x y, aff_on x y -> y <> 0.
    Proof.
      intros H2 x y Hon Hy. apply (H2 x). unfold aff_on in Hon. rewrite <- Hon, Hy. ring.
    Qed.

    Section CharNot23'.
      Hypothesis two_nz : 1 + 1 <> 0.
      Hypothesis three_nz : 1 + 1 + 1 <> 0.

    (* ---- completeness: the output is never (0,0,0) ---------------------------------------------- *)
    (* generic case: if all three outputs vanished, x(P - Q) would be a root of the cubic *)
      Lemma add_nondegenerate : no_two_torsion ->
      forall x1 y1 x2 y2 : F, aff_on x1 y1 -> aff_on x2 y2 -> x1 <> x2 ->
      W_Add K a b x1 y1 1 x2 y2 1 <> (0, 0, 0).
    Proof.
      intros H2 x1 y1 x2 y2 H1 H2' Hne HA.
      pose (di := finv K (x2 - x1)).
      assert (Hd : (x2 - x1) * di = 1) by (apply finv_r, neq_sub; exact Hne).
      apply (H2 (((y1 + y2) * di) * ((y1 + y2) * di) - x1 - x2)).
      unfold aff_on in *. cbv [W_Add] in HA. injection HA as HX HY HZ. clearbody di. nsatz23 two_nz three_nz.
    Qed.


      Lemma yy_nonzero : no_two_torsion -> forall x y, aff_on x y -> y + y <> 0.
      Proof.
        intros H2 x y Hon H. apply (y_nonzero H2 x y Hon).
        assert (E : (1 + 1) * y = 0) by (rewrite <- H; ring).
        destruct (f_integral _ _ E); [contradiction | assumption].
      Qed.

      (* opposite operands: Y3 = 0 would make x(2P) a root of the cubic *)
      Lemma add_inverse_nondegenerate : no_two_torsion ->
        forall x y Y3 : F, aff_on x y -> W_Add K a b x y 1 x (- y) 1 = (0, Y3, 0) -> Y3 <> 0.
      Proof.
        intros H2 x y Y3 Hon HA HY0.
        pose (di := finv K (y + y)).
        assert (Hd : (y + y) * di = 1) by (apply finv_r, (yy_nonzero H2 x y Hon)).
        pose (l := (x * x + x * x + x * x + a) * di).
        apply (H2 (l * l - x - x)).
        unfold aff_on in *. cbv [W_Add] in HA. injection HA as HX HY HZ. subst Y3. clear HX HZ.
        subst l. clearbody di. nsatz23 two_nz three_nz.
      Qed.

      (* ---- the projective programs + ToAffine = the chord-tangent law of model/Curve.v ----------- *)
      Lemma valid_inf : forall X Y, valid (X, Y, 0) -> X = 0 /\ Y <> 0.
      Proof.
        intros X Y [Hon Hne]. unfold proj_on in Hon.
        assert (HX : X * X * X = 0).
        { transitivity (Y * Y * 0 - a * X * 0 * 0 - b * 0 * 0 * 0). rewrite Hon. ring. ring. }
        assert (HX0 : X = 0).
        { destruct (f_integral _ _ HX) as [H | H]; [destruct (f_integral _ _ H)|]; assumption. }
        split; [assumption|]. intro HY. apply Hne. rewrite HX0, HY. reflexivity.
      Qed.

      Lemma valid_aff : forall X Y Z, Z <> 0 -> proj_on (X, Y, Z) ->
        aff_on (X * finv K Z) (Y * finv K Z).
      Proof.
        intros X Y Z HZ Hon. unfold proj_on in Hon. unfold aff_on.
        pose (zi := finv K Z). assert (Hzi : Z * zi = 1) by (apply finv_r; exact HZ).
        fold zi. clearbody zi. nsatzT.
      Qed.

      Lemma to_affine_scale : forall c X Y Z, c <> 0 ->
        w_to_affine (c * X, c * Y, c * Z) = w_to_affine (X, Y, Z).
      Proof.
        intros c X Y Z Hc. rewrite !w_to_affine_eq. destruct (fis0 K Z) eqn:EZ.
        - apply fis0_eq in EZ. replace (fis0 K (c * Z)) with true; [reflexivity|].
          symmetry. apply fis0_eq. rewrite EZ. ring.
        - apply fis0_neq in EZ. replace (fis0 K (c * Z)) with false.
          + f_equal. f_equal; field; split; assumption.
          + symmetry. apply fis0_neq. apply nz_mul; assumption.
      Qed.

      Lemma scale_nonzero : forall c X Y Z, c <> 0 -> (X, Y, Z) <> (0, 0, 0) ->
        (c * X, c * Y, c * Z) <> (0, 0, 0).
      Proof.
        intros c X Y Z Hc Hne H. injection H as HX HY HZ. apply Hne.
        destruct (f_integral _ _ HX) as [|HX']; [contradiction|].
        destruct (f_integral _ _ HY) as [|HY']; [contradiction|].
        destruct (f_integral _ _ HZ) as [|HZ']; [contradiction|].
        rewrite HX', HY', HZ'. reflexivity.
      Qed.

      Lemma opp_of_square_eq : forall y1 y2, y1 * y1 = y2 * y2 -> y1 <> y2 -> y2 = - y1.
      Proof.
        intros y1 y2 H Hne.
        assert (E : (y1 - y2) * (y1 + y2) = 0).
        { transitivity (y1 * y1 - y2 * y2). ring. rewrite H. ring. }
        destruct (f_integral _ _ E) as [E1 | E1].
        - exfalso. apply Hne. apply sub_eq0. exact E1.
        - transitivity (y1 + y2 - y1). ring. rewrite E1. ring.
      Qed.

      (* affine inputs (Z1 = Z2 = 1): every case of the chord-tangent law *)
      Lemma add_affine_correct : no_two_torsion ->
        forall x1 y1 x2 y2, aff_on x1 y1 -> aff_on x2 y2 ->
        W_Add K a b x1 y1 1 x2 y2 1 <> (0, 0, 0) /\
        w_to_affine (W_Add K a b x1 y1 1 x2 y2 1) = waff_add K a (Some (x1, y1)) (Some (x2, y2)).
      Proof.
        intros H2 x1 y1 x2 y2 Hon1 Hon2.
        destruct (W_Add K a b x1 y1 1 x2 y2 1) as [[X3 Y3] Z3] eqn:HA.
        cbn [waff_add]. destruct (feqb K x1 x2) eqn:Ex.
        - apply feqb_eq in Ex. subst x2. destruct (feqb K y1 y2) eqn:Ey.
          + (* doubling *)
            apply feqb_eq in Ey. subst y2.
            pose proof (yy_nonzero H2 x1 y1 Hon1) as Hyy.
            pose proof (y_nonzero H2 x1 y1 Hon1) as Hy.
            destruct (add_doubling_agrees two_nz three_nz x1 y1 _ (finv K (y1 + y1)) X3 Y3 Z3 Hon1
                        (finv_r _ Hyy) eq_refl HA) as (HX & HY & HZ).
            assert (HZ3 : Z3 <> 0) by (rewrite HZ; repeat apply nz_mul; exact Hyy).
            split.
            * intro H. injection H as _ _ H. contradiction.
            * rewrite w_to_affine_eq. cbn [waff_double].
              apply fis0_neq in HZ3. rewrite HZ3. apply fis0_neq in HZ3.
              apply fis0_neq in Hy. rewrite Hy. cbv zeta. rewrite fdiv_mul.
              rewrite HX, HY. f_equal. f_equal; field; repeat split; assumption.
          + (* opposite points *)
            apply feqb_neq in Ey.
            assert (Hy2 : y2 = - y1).
            { apply opp_of_square_eq; [|exact Ey]. unfold aff_on in *. rewrite Hon1, Hon2. reflexivity. }
            subst y2. pose proof (add_inverse_gives_infinity x1 y1) as Hinf. rewrite HA in Hinf.
            destruct Hinf as [HX HZ]. subst X3 Z3.
            pose proof (add_inverse_nondegenerate H2 x1 y1 Y3 Hon1 HA) as HY.
            split.
            * intro H. injection H as H. contradiction.
            * rewrite w_to_affine_eq. replace (fis0 K 0) with true; [reflexivity|].
              symmetry. apply fis0_eq. reflexivity.
        - (* generic *)
          apply feqb_neq in Ex.
          pose proof (neq_sub _ _ Ex) as Hd.
          destruct (add_generic_agrees x1 y1 x2 y2 _ (finv K (x2 - x1)) X3 Y3 Z3 Hon1 Hon2
                      (finv_r _ Hd) eq_refl HA) as (HX & HY).
          assert (HZ3 : Z3 <> 0).
          { intro HZ0. apply (add_nondegenerate H2 x1 y1 x2 y2 Hon1 Hon2 Ex).
            rewrite HA, HX, HY, HZ0. f_equal; try f_equal; ring. }
          split.
          + intro H. injection H as _ _ H. contradiction.
          + rewrite w_to_affine_eq. apply fis0_neq in HZ3. rewrite HZ3. apply fis0_neq in HZ3.
            cbv zeta. rewrite fdiv_mul. rewrite HX, HY. f_equal. f_equal; field; repeat split; assumption.
      Qed.

      Lemma proj_of_affine : forall X Y Z, Z <> 0 ->
        (X, Y, Z) = ((X * finv K Z) * Z, (Y * finv K Z) * Z, Z).
      Proof. intros. f_equal; try f_equal; field; assumption. Qed.

      Theorem w_add_correct : no_two_torsion -> forall P Q, valid P -> valid Q ->
        valid (proj_add P Q) /\
        w_to_affine (proj_add P Q) = waff_add K a (w_to_affine P) (w_to_affine Q).
      Proof.
        intros H2 [[X1 Y1] Z1] [[X2 Y2] Z2] V1 V2.
        assert (Hon : proj_on (proj_add (X1, Y1, Z1) (X2, Y2, Z2))).
        { apply add_preserves_curve; [apply V1 | apply V2]. }
        destruct (fis0 K Z1) eqn:E1; destruct (fis0 K Z2) eqn:E2.
        - (* both at infinity *)
          apply fis0_eq in E1, E2. subst Z1 Z2.
          destruct (valid_inf _ _ V1) as [HX1 HY1]. destruct (valid_inf _ _ V2) as [HX2 HY2]. subst X1 X2.
          unfold valid. unfold proj_add in *. rewrite add_identity_left in *. split; [split; [exact Hon|]|].
          + apply scale_nonzero; [repeat apply nz_mul; assumption|].
            intro H. injection H as H. contradiction.
          + rewrite to_affine_scale by (repeat apply nz_mul; assumption).
            rewrite !w_to_affine_eq. replace (fis0 K 0) with true; [reflexivity|].
            symmetry. apply fis0_eq. reflexivity.
        - (* P at infinity *)
          apply fis0_eq in E1. apply fis0_neq in E2. subst Z1.
          destruct (valid_inf _ _ V1) as [HX1 HY1]. subst X1.
          assert (HY2 : Y2 <> 0).
          { intro HY2. apply (y_nonzero H2 _ _ (valid_aff _ _ _ E2 (proj1 V2))). rewrite HY2. ring. }
          unfold valid. unfold proj_add in *. rewrite add_identity_left in *. split; [split; [exact Hon|]|].
          + apply scale_nonzero; [repeat apply nz_mul; assumption | apply V2].
          + rewrite to_affine_scale by (repeat apply nz_mul; assumption).
            rewrite (w_to_affine_eq 0 Y1 0). replace (fis0 K 0) with true; [reflexivity|].
            symmetry. apply fis0_eq. reflexivity.
        - (* Q at infinity *)
          apply fis0_eq in E2. apply fis0_neq in E1. subst Z2.
          destruct (valid_inf _ _ V2) as [HX2 HY2]. subst X2.
          assert (HY1 : Y1 <> 0).
          { intro HY1. apply (y_nonzero H2 _ _ (valid_aff _ _ _ E1 (proj1 V1))). rewrite HY1. ring. }
          unfold valid. unfold proj_add in *. rewrite add_identity_right in *. split; [split; [exact Hon|]|].
          + apply scale_nonzero; [repeat apply nz_mul; assumption | apply V1].
          + rewrite to_affine_scale by (repeat apply nz_mul; assumption).
            rewrite (w_to_affine_eq 0 Y2 0). replace (fis0 K 0) with true.
            2:{ symmetry. apply fis0_eq. reflexivity. }
            rewrite w_to_affine_eq. apply fis0_neq in E1. rewrite E1. reflexivity.
        - (* both affine: reduce to Z = 1 by homogeneity *)
          apply fis0_neq in E1, E2.
          pose proof (valid_aff _ _ _ E1 (proj1 V1)) as A1.
          pose proof (valid_aff _ _ _ E2 (proj1 V2)) as A2.
          destruct (add_affine_correct H2 _ _ _ _ A1 A2) as [Hnz Haff].
          assert (Hc : (Z1 * Z2) * (Z1 * Z2) <> 0) by (repeat apply nz_mul; assumption).
          unfold valid. unfold proj_add in *.
          rewrite (w_to_affine_eq X1 Y1 Z1), (w_to_affine_eq X2 Y2 Z2).
          apply fis0_neq in E1, E2. rewrite E1, E2. apply fis0_neq in E1, E2.
          rewrite <- Haff.
          assert (EQ : W_Add K a b X1 Y1 Z1 X2 Y2 Z2 =
                       W_Add K a b (X1 * finv K Z1 * Z1) (Y1 * finv K Z1 * Z1) Z1
                                   (X2 * finv K Z2 * Z2) (Y2 * finv K Z2 * Z2) Z2).
          { f_equal; field; assumption. }
          rewrite EQ in *. rewrite add_homog in *.
          destruct (W_Add K a b (X1 * finv K Z1) (Y1 * finv K Z1) 1 (X2 * finv K Z2) (Y2 * finv K Z2) 1)
            as [[X3 Y3] Z3].
          cbv zeta in *. split; [split; [exact Hon|]|].
          + apply scale_nonzero; assumption.
          + apply to_affine_scale. exact Hc.
      Qed.

      Theorem w_double_correct : no_two_torsion -> forall P, valid P ->
        valid (proj_double P) /\ w_to_affine (proj_double P) = waff_double K a (w_to_affine P).
      Proof.
        intros H2 [[X1 Y1] Z1] V1.
        assert (Hon : proj_on (proj_double (X1, Y1, Z1))) by (apply dbl_preserves_curve, V1).
        destruct (fis0 K Z1) eqn:E1.
        - apply fis0_eq in E1. subst Z1. destruct (valid_inf _ _ V1) as [HX1 HY1]. subst X1.
          unfold valid, proj_double in *. rewrite dbl_identity in *. split; [split; [exact Hon|]|].
          + intro H. injection H as H. revert H. repeat apply nz_mul; assumption.
          + rewrite !w_to_affine_eq. replace (fis0 K 0) with true; [reflexivity|].
            symmetry. apply fis0_eq. reflexivity.
        - apply fis0_neq in E1.
          pose proof (valid_aff _ _ _ E1 (proj1 V1)) as A1.
          pose proof (yy_nonzero H2 _ _ A1) as Hyy. pose proof (y_nonzero H2 _ _ A1) as Hy.
          assert (Hc : (Z1 * Z1) * (Z1 * Z1) <> 0) by (repeat apply nz_mul; assumption).
          assert (HYY : Y1 + Y1 <> 0).
          { intro H. apply Hyy. transitivity ((Y1 + Y1) * finv K Z1). ring. rewrite H. ring. }
          unfold valid, proj_double in *.
          assert (EQ : W_Double K a b X1 Y1 Z1 =
                       W_Double K a b (X1 * finv K Z1 * Z1) (Y1 * finv K Z1 * Z1) Z1).
          { f_equal; field; assumption. }
          rewrite EQ in *. rewrite dbl_homog in *.
          destruct (W_Double K a b (X1 * finv K Z1) (Y1 * finv K Z1) 1) as [[X3 Y3] Z3] eqn:HD.
          destruct (dbl_agrees two_nz three_nz _ _ _ (finv K (Y1 * finv K Z1 + Y1 * finv K Z1)) X3 Y3 Z3 A1
                      (finv_r _ Hyy) eq_refl HD) as (HX & HY & HZ).
          assert (HZ3 : Z3 <> 0) by (rewrite HZ; repeat apply nz_mul; exact Hyy).
          cbv zeta in *. split; [split; [exact Hon|]|].
          + apply scale_nonzero; [exact Hc|]. intro H. injection H as _ _ H. contradiction.
          + rewrite to_affine_scale by exact Hc.
            rewrite (w_to_affine_eq X1 Y1 Z1). apply fis0_neq in E1. rewrite E1. apply fis0_neq in E1.
            cbn [waff_double]. apply fis0_neq in Hy. rewrite Hy. apply fis0_neq in Hy.
            rewrite w_to_affine_eq. apply fis0_neq in HZ3. rewrite HZ3. apply fis0_neq in HZ3.
            cbv zeta. rewrite fdiv_mul. rewrite HX, HY. f_equal. f_equal; field; repeat split; assumption.
      Qed.
      (* Sub = Add after Neg (as regenerated: W_Sub calls W_Neg then W_Add) *)
      Theorem w_sub_correct : no_two_torsion -> forall P Q, valid P -> valid Q ->
        valid (proj_sub P Q) /\
        w_to_affine (proj_sub P Q) = waff_sub K a (w_to_affine P) (w_to_affine Q).
      Proof.
        intros H2 P [[X2 Y2] Z2] V1 V2.
        assert (VN : valid (proj_neg (X2, Y2, Z2))).
        { split.
          - apply neg_preserves_curve. apply V2.
          - unfold proj_neg. cbv [W_Neg]. intro H. injection H as HX HY HZ. apply (proj2 V2).
            assert (Y2 = 0) by (transitivity (- - Y2); [ring | rewrite HY; ring]).
            subst. reflexivity. }
        replace (proj_sub P (X2, Y2, Z2)) with (proj_add P (proj_neg (X2, Y2, Z2))).
        - destruct (w_add_correct H2 P _ V1 VN) as [HV HA]. split; [exact HV|].
          rewrite HA, neg_agrees. reflexivity.
        - destruct P as [[X1 Y1] Z1]. reflexivity.
      Qed.
    End CharNot23'.

    (* ---- Neg, Equal, IsZero, SetAffine, ToAffine, SetZero ------------------------------------------ *)
    Lemma is_zero_spec : forall Z, W_IsZero K Z = true <-> Z = 0.
    Proof. intro Z. cbv [W_IsZero]. apply fis0_eq. Qed.

    Lemma set_zero_spec : W_SetZero K = (0, 1, 0).
    Proof. reflexivity. Qed.

    Lemma set_affine_iff_on_curve : forall x y pX pY pZ,
      W_SetAffine K a b x y pX pY pZ =
      if feqb K (y * y) ((x * x + a) * x + b) then (true, x, y, 1) else (false, pX, pY, pZ).
    Proof. intros. cbv [W_SetAffine]. destruct (feqb K (y * y) ((x * x + a) * x + b)); reflexivity. Qed.

    Lemma set_affine_ok_iff : forall x y pX pY pZ,
      fst (fst (fst (W_SetAffine K a b x y pX pY pZ))) = true <-> aff_on x y.
    Proof.
      intros. rewrite set_affine_iff_on_curve. unfold aff_on.
      destruct (feqb K (y * y) ((x * x + a) * x + b)) eqn:E; cbn [fst].
      - apply feqb_eq in E. split; [intros _|reflexivity]. rewrite E. ring.
      - apply feqb_neq in E. split; [discriminate|]. intro H. exfalso. apply E. rewrite H. ring.
    Qed.

    Lemma to_affine_spec : forall X Y Z xo yo,
      W_ToAffine K xo yo X Y Z =
      if fis0 K Z then (false, xo, yo) else (true, X * finv K Z, Y * finv K Z).
    Proof. intros. cbv [W_ToAffine]. destruct (fis0 K Z); reflexivity. Qed.

    (* Equal compares the cross products; on valid projective points this is equality of the
       affine points (and of "being the point at infinity") *)
    Theorem equal_iff_same_affine : forall P Q, valid P -> valid Q ->
      (proj_equal P Q = true <-> w_to_affine P = w_to_affine Q).
    Proof.
      intros [[X1 Y1] Z1] [[X2 Y2] Z2] V1 V2. unfold proj_equal. cbv [W_Equal].
      rewrite !w_to_affine_eq. rewrite andb_true_iff, !feqb_eq.
      destruct (fis0 K Z1) eqn:E1; destruct (fis0 K Z2) eqn:E2.
      - apply fis0_eq in E1, E2. subst. split; [reflexivity|]. intros _. split; ring.
      - apply fis0_eq in E1. apply fis0_neq in E2. subst Z1. split; [|discriminate].
        intros [_ H]. exfalso.
        assert (HX : X1 * X1 * X1 = 0).
        { destruct V1 as [Hon _]. unfold proj_on in Hon.
          transitivity (Y1 * Y1 * 0 - a * X1 * 0 * 0 - b * 0 * 0 * 0). rewrite Hon. ring. ring. }
        assert (HX0 : X1 = 0).
        { destruct (f_integral _ _ HX) as [H' | H']; [destruct (f_integral _ _ H')|]; assumption. }
        assert (HY : Y1 <> 0).
        { intro HY. destruct V1 as [_ Hne]. apply Hne. rewrite HX0, HY. reflexivity. }
        assert (E : Y1 * Z2 = 0) by (rewrite H; ring).
        destruct (f_integral _ _ E); contradiction.
      - apply fis0_eq in E2. apply fis0_neq in E1. subst Z2. split; [|discriminate].
        intros [_ H]. exfalso.
        assert (HX : X2 * X2 * X2 = 0).
        { destruct V2 as [Hon _]. unfold proj_on in Hon.
          transitivity (Y2 * Y2 * 0 - a * X2 * 0 * 0 - b * 0 * 0 * 0). rewrite Hon. ring. ring. }
        assert (HX0 : X2 = 0).
        { destruct (f_integral _ _ HX) as [H' | H']; [destruct (f_integral _ _ H')|]; assumption. }
        assert (HY : Y2 <> 0).
        { intro HY. destruct V2 as [_ Hne]. apply Hne. rewrite HX0, HY. reflexivity. }
        assert (E : Y2 * Z1 = 0) by (rewrite <- H; ring).
        destruct (f_integral _ _ E); contradiction.
      - apply fis0_neq in E1, E2. split.
        + intros [HX HY]. f_equal. f_equal.
          * transitivity (X1 * Z2 * (finv K Z1 * finv K Z2)). field; split; assumption.
            rewrite HX. field; split; assumption.
          * transitivity (Y1 * Z2 * (finv K Z1 * finv K Z2)). field; split; assumption.
            rewrite HY. field; split; assumption.
        + intros H. injection H as HX HY. split.
          * transitivity (X1 * finv K Z1 * (Z1 * Z2)). field; assumption.
            rewrite HX. field; assumption.
          * transitivity (Y1 * finv K Z1 * (Z1 * Z2)). field; assumption.
            rewrite HY. field; assumption.
    Qed.
  End Weierstrass.

  (* ================================================================================== *)
  (*  twisted Edwards, extended coordinates (X, Y, T, Z), T*Z = X*Y : edwards.go          *)
  (* ================================================================================== *)
  Section Edwards.
    Variables a d : F.
    Local Notation pt := (F * F * F * F)%type.

    Definition e_proj_on (P : pt) : Prop :=
      let '(X, Y, T, Z) := P in a * X * X + Y * Y = Z * Z + d * T * T /\ T * Z = X * Y.
    Definition e_aff_on (x y : F) : Prop := a * x * x + y * y = 1 + d * x * x * y * y.
    Definition e_valid (P : pt) : Prop := e_proj_on P /\ snd P <> 0.

    Definition e_add (P Q : pt) : pt :=
      let '(X1, Y1, T1, Z1) := P in let '(X2, Y2, T2, Z2) := Q in E_Add K a d X1 Y1 T1 Z1 X2 Y2 T2 Z2.
    Definition e_double (P : pt) : pt :=
      let '(X1, Y1, T1, Z1) := P in E_Double K a X1 Y1 T1 Z1.
    Definition e_neg (P : pt) : pt := let '(X1, Y1, T1, Z1) := P in E_Neg K X1 Y1 T1 Z1.
    Definition e_sub (P Q : pt) : pt :=
      let '(X1, Y1, T1, Z1) := P in let '(X2, Y2, T2, Z2) := Q in E_Sub K a d X1 Y1 T1 Z1 X2 Y2 T2 Z2.
    Definition e_equal (P Q : pt) : bool :=
      let '(X1, Y1, T1, Z1) := P in let '(X2, Y2, T2, Z2) := Q in E_Equal K X2 Y2 T2 Z2 X1 Y1 Z1.
    Definition e_is_zero (P : pt) : bool := let '(X1, Y1, T1, Z1) := P in E_IsZero K X1 Y1 Z1.
    Definition e_to_affine (P : pt) : F * F :=
      let '(X, Y, T, Z) := P in let '(ok, x, y) := E_ToAffine K 0 0 X Y Z in (x, y).

    Lemma e_to_affine_eq : forall X Y T Z, Z <> 0 ->
      e_to_affine (X, Y, T, Z) = (X * finv K Z, Y * finv K Z).
    Proof.
      intros X Y T Z HZ. unfold e_to_affine. cbv [E_ToAffine]. apply fis0_neq in HZ. rewrite HZ. reflexivity.
    Qed.

    Lemma ed_add_preserves_curve : forall P Q, e_proj_on P -> e_proj_on Q -> e_proj_on (e_add P Q).
    Proof.
      intros [[[X1 Y1] T1] Z1] [[[X2 Y2] T2] Z2]. unfold e_proj_on, e_add. cbv [E_Add].
      intros [H1 H1'] [H2 H2']. split; nsatzT.
    Qed.

    Lemma ed_double_preserves_curve : forall P, e_proj_on P -> e_proj_on (e_double P).
    Proof.
      intros [[[X1 Y1] T1] Z1]. unfold e_proj_on, e_double. cbv [E_Double].
      intros [H1 H1']. split; nsatzT.
    Qed.

    (* the unified addition on affine inputs, every coordinate written out (no curve equation needed) *)
    Lemma ed_add_agrees : forall x1 y1 x2 y2 : F,
      let t := d * ((x1 * x2) * (y1 * y2)) in
      E_Add K a d x1 y1 (x1 * y1) 1 x2 y2 (x2 * y2) 1 =
      ((x1 * y2 + x2 * y1) * (1 - t), (y1 * y2 - a * (x1 * x2)) * (1 + t),
       (x1 * y2 + x2 * y1) * (y1 * y2 - a * (x1 * x2)), (1 - t) * (1 + t)).
    Proof. intros. cbv [E_Add]. subst t. apply tup4; ring. Qed.

    Lemma ed_add_homog : forall x1 y1 z1 x2 y2 z2 : F,
      E_Add K a d (x1 * z1) (y1 * z1) (x1 * y1 * z1) z1 (x2 * z2) (y2 * z2) (x2 * y2 * z2) z2 =
      let '(X, Y, T, Z) := E_Add K a d x1 y1 (x1 * y1) 1 x2 y2 (x2 * y2) 1 in
      let c := (z1 * z2) * (z1 * z2) in (c * X, c * Y, c * T, c * Z).
    Proof. intros. cbv [E_Add]. apply tup4; ring. Qed.

    (* the doubling program on an affine point of the curve: a x^2 + y^2 = 1 + t gives F = -(1 - t), G = 1 + t *)
    Lemma ed_double_agrees : forall x y : F, e_aff_on x y ->
      let t := d * ((x * x) * (y * y)) in
      E_Double K a x y (x * y) 1 =
      ((x * y + x * y) * (- (1 - t)), (1 + t) * (a * (x * x) - y * y),
       (x * y + x * y) * (a * (x * x) - y * y), (- (1 - t)) * (1 + t)).
    Proof.
      unfold e_aff_on. intros x y H. cbv [E_Double]. cbv zeta. apply tup4; nsatzT.
    Qed.

    Lemma ed_double_homog : forall x1 y1 z1 : F,
      E_Double K a (x1 * z1) (y1 * z1) (x1 * y1 * z1) z1 =
      let '(X, Y, T, Z) := E_Double K a x1 y1 (x1 * y1) 1 in
      let c := (z1 * z1) * (z1 * z1) in (c * X, c * Y, c * T, c * Z).
    Proof. intros. cbv [E_Double]. apply tup4; ring. Qed.

    (* ---- completeness: d a non-square, a a square ------------------------------------------------- *)
    Section Complete.
      Hypothesis two_nz : 1 + 1 <> 0.
      Hypothesis three_nz : 1 + 1 + 1 <> 0.
      Hypothesis d_nonsquare : forall r : F, r * r <> d.
      Variable s : F.
      Hypothesis a_square : s * s = a.

      Lemma ed_t_not_unit : forall x1 y1 x2 y2, e_aff_on x1 y1 -> e_aff_on x2 y2 ->
        let t := d * ((x1 * x2) * (y1 * y2)) in t * t <> 1.
      Proof.
        unfold e_aff_on. intros x1 y1 x2 y2 H1 H2. cbv zeta. set (t := d * (x1 * x2 * (y1 * y2))). intro Ht.
        pose (w1 := x1 * y1 * (s * x2 + y2)). pose (w2 := x1 * y1 * (s * x2 - y2)).
        assert (I1 : d * (w1 * w1) = (s * x1 + t * y1) * (s * x1 + t * y1)) by (subst w1 t; nsatzT).
        assert (I2 : d * (w2 * w2) = (s * x1 - t * y1) * (s * x1 - t * y1)) by (subst w2 t; nsatzT).
        destruct (feqb K w1 0) eqn:E1.
        - destruct (feqb K w2 0) eqn:E2.
          + apply feqb_eq in E1, E2.
            assert (E : (1 + 1) * t = 0) by (subst w1 w2 t; nsatzT).
            destruct (f_integral _ _ E) as [|Ht0]; [contradiction|].
            apply f_1_neq_0. rewrite <- Ht, Ht0. ring.
          + apply feqb_neq in E2. apply (d_nonsquare ((s * x1 - t * y1) * finv K w2)).
            transitivity ((s * x1 - t * y1) * (s * x1 - t * y1) * (finv K w2 * finv K w2)). ring.
            rewrite <- I2. field. exact E2.
        - apply feqb_neq in E1. apply (d_nonsquare ((s * x1 + t * y1) * finv K w1)).
          transitivity ((s * x1 + t * y1) * (s * x1 + t * y1) * (finv K w1 * finv K w1)). ring.
          rewrite <- I1. field. exact E1.
      Qed.

      Lemma ed_add_complete : forall x1 y1 x2 y2, e_aff_on x1 y1 -> e_aff_on x2 y2 ->
        let t := d * ((x1 * x2) * (y1 * y2)) in 1 - t <> 0 /\ 1 + t <> 0.
      Proof.
        intros x1 y1 x2 y2 H1 H2 t. pose proof (ed_t_not_unit x1 y1 x2 y2 H1 H2) as Hu. fold t in Hu.
        split; intro H; apply Hu.
        - assert (E : t = 1) by (symmetry; apply sub_eq0; exact H). rewrite E. ring.
        - assert (E : t = - (1)) by (transitivity (1 + t - 1); [ring | rewrite H; ring]). rewrite E. ring.
      Qed.

      Lemma e_valid_aff : forall X Y T Z, e_valid (X, Y, T, Z) ->
        e_aff_on (X * finv K Z) (Y * finv K Z) /\ T = (X * finv K Z) * (Y * finv K Z) * Z.
      Proof.
        intros X Y T Z [[H1 H2] HZ]. cbn [snd] in HZ. unfold e_aff_on.
        pose (zi := finv K Z). assert (Hzi : Z * zi = 1) by (apply finv_r; exact HZ).
        fold zi. clearbody zi. split; nsatzT.
      Qed.

      Theorem e_add_correct : forall P Q, e_valid P -> e_valid Q ->
        e_valid (e_add P Q) /\ e_to_affine (e_add P Q) = eaff_add K a d (e_to_affine P) (e_to_affine Q).
      Proof.
        intros [[[X1 Y1] T1] Z1] [[[X2 Y2] T2] Z2] V1 V2.
        assert (Hon : e_proj_on (e_add (X1, Y1, T1, Z1) (X2, Y2, T2, Z2))).
        { apply ed_add_preserves_curve; [apply V1 | apply V2]. }
        destruct (e_valid_aff _ _ _ _ V1) as [A1 HT1]. destruct (e_valid_aff _ _ _ _ V2) as [A2 HT2].
        pose proof (proj2 V1) as HZ1. pose proof (proj2 V2) as HZ2. cbn [snd] in HZ1, HZ2.
        destruct (ed_add_complete _ _ _ _ A1 A2) as [Hm Hp].
        assert (Hc : (Z1 * Z2) * (Z1 * Z2) <> 0) by (repeat apply nz_mul; assumption).
        rewrite (e_to_affine_eq X1 Y1 T1 Z1 HZ1), (e_to_affine_eq X2 Y2 T2 Z2 HZ2).
        unfold e_valid, e_add in *.
        assert (EQ : E_Add K a d X1 Y1 T1 Z1 X2 Y2 T2 Z2 =
                     E_Add K a d (X1 * finv K Z1 * Z1) (Y1 * finv K Z1 * Z1) (X1 * finv K Z1 * (Y1 * finv K Z1) * Z1) Z1
                                 (X2 * finv K Z2 * Z2) (Y2 * finv K Z2 * Z2) (X2 * finv K Z2 * (Y2 * finv K Z2) * Z2) Z2).
        { rewrite <- HT1, <- HT2. f_equal; field; assumption. }
        rewrite EQ in *. rewrite ed_add_homog in *. rewrite ed_add_agrees in *. cbv zeta in *.
        set (x1 := X1 * finv K Z1) in *. set (y1 := Y1 * finv K Z1) in *.
        set (x2 := X2 * finv K Z2) in *. set (y2 := Y2 * finv K Z2) in *.
        set (t := d * (x1 * x2 * (y1 * y2))) in *.
        assert (HZ3 : (Z1 * Z2) * (Z1 * Z2) * ((1 - t) * (1 + t)) <> 0) by (repeat apply nz_mul; assumption).
        split; [split; [exact Hon | exact HZ3]|].
        rewrite e_to_affine_eq by exact HZ3. cbn [eaff_add]. fold t. rewrite !fdiv_mul.
        f_equal; field; repeat split; assumption.
      Qed.

      Theorem e_double_correct : forall P, e_valid P ->
        e_valid (e_double P) /\ e_to_affine (e_double P) = eaff_double K a d (e_to_affine P).
      Proof.
        intros [[[X1 Y1] T1] Z1] V1.
        assert (Hon : e_proj_on (e_double (X1, Y1, T1, Z1))) by (apply ed_double_preserves_curve, V1).
        destruct (e_valid_aff _ _ _ _ V1) as [A1 HT1].
        pose proof (proj2 V1) as HZ1. cbn [snd] in HZ1.
        destruct (ed_add_complete _ _ _ _ A1 A1) as [Hm Hp].
        assert (Hc : (Z1 * Z1) * (Z1 * Z1) <> 0) by (repeat apply nz_mul; assumption).
        rewrite (e_to_affine_eq X1 Y1 T1 Z1 HZ1).
        unfold e_valid, e_double in *.
        assert (EQ : E_Double K a X1 Y1 T1 Z1 =
                     E_Double K a (X1 * finv K Z1 * Z1) (Y1 * finv K Z1 * Z1) (X1 * finv K Z1 * (Y1 * finv K Z1) * Z1) Z1).
        { rewrite <- HT1. f_equal; field; assumption. }
        rewrite EQ in *. rewrite ed_double_homog in *.
        set (x := X1 * finv K Z1) in *. set (y := Y1 * finv K Z1) in *.
        set (t := d * (x * x * (y * y))) in *.
        pose proof (ed_double_agrees x y A1) as HD. cbv zeta in HD. fold t in HD.
        rewrite HD in *. cbv zeta in *.
        assert (Hm' : - (1 - t) <> 0) by (apply nz_opp; exact Hm).
        assert (HZ3 : (Z1 * Z1) * (Z1 * Z1) * ((- (1 - t)) * (1 + t)) <> 0).
        { repeat apply nz_mul; assumption. }
        split; [split; [exact Hon | exact HZ3]|].
        rewrite e_to_affine_eq by exact HZ3. unfold eaff_double. cbn [eaff_add]. fold t. rewrite !fdiv_mul.
        f_equal; field; repeat split; assumption.
      Qed.
      Lemma ed_neg_valid : forall P, e_valid P -> e_valid (e_neg P).
      Proof.
        intros [[[X Y] T] Z] [[H1 H2'] HZ]. unfold e_valid, e_proj_on, e_neg in *. cbv [E_Neg]. cbn [snd] in *.
        split; [split; nsatzT | exact HZ].
      Qed.

      Lemma ed_neg_agrees' : forall P, snd P <> 0 -> e_to_affine (e_neg P) = eaff_neg K (e_to_affine P).
      Proof.
        intros [[[X Y] T] Z] HZ. cbn [snd] in HZ. unfold e_neg. cbv [E_Neg].
        rewrite !e_to_affine_eq by exact HZ. cbn [eaff_neg]. f_equal. ring.
      Qed.

      Theorem e_sub_correct : forall P Q, e_valid P -> e_valid Q ->
        e_valid (e_sub P Q) /\ e_to_affine (e_sub P Q) = eaff_sub K a d (e_to_affine P) (e_to_affine Q).
      Proof.
        intros P [[[X2 Y2] T2] Z2] V1 V2.
        pose proof (ed_neg_valid _ V2) as VN.
        replace (e_sub P (X2, Y2, T2, Z2)) with (e_add P (e_neg (X2, Y2, T2, Z2))).
        - destruct (e_add_correct P _ V1 VN) as [HV HA]. split; [exact HV|].
          rewrite HA, ed_neg_agrees' by (apply V2). reflexivity.
        - destruct P as [[[X1 Y1] T1] Z1]. reflexivity.
      Qed.
    End Complete.

    Lemma ed_neg_agrees : forall P, snd P <> 0 -> e_to_affine (e_neg P) = eaff_neg K (e_to_affine P).
    Proof.
      intros [[[X Y] T] Z] HZ. cbn [snd] in HZ. unfold e_neg. cbv [E_Neg].
      rewrite !e_to_affine_eq by exact HZ. cbn [eaff_neg]. f_equal. ring.
    Qed.

    Lemma ed_set_zero_spec : E_SetZero K = (0, 1, 0, 1).
    Proof. reflexivity. Qed.

    Theorem ed_equal_iff_same_affine : forall P Q, snd P <> 0 -> snd Q <> 0 ->
      (e_equal P Q = true <-> e_to_affine P = e_to_affine Q).
    Proof.
      intros [[[X1 Y1] T1] Z1] [[[X2 Y2] T2] Z2] HZ1 HZ2. cbn [snd] in *. unfold e_equal. cbv [E_Equal].
      rewrite !e_to_affine_eq by assumption. rewrite andb_true_iff, !feqb_eq. split.
      - intros [HX HY]. f_equal.
        + transitivity (X1 * Z2 * (finv K Z1 * finv K Z2)). field; split; assumption.
          rewrite HX. field; split; assumption.
        + transitivity (Y1 * Z2 * (finv K Z1 * finv K Z2)). field; split; assumption.
          rewrite HY. field; split; assumption.
      - intros H. injection H as HX HY. split.
        + transitivity (X1 * finv K Z1 * (Z1 * Z2)). field; assumption. rewrite HX. field; assumption.
        + transitivity (Y1 * finv K Z1 * (Z1 * Z2)). field; assumption. rewrite HY. field; assumption.
    Qed.

    Theorem ed_is_zero_iff : forall P, snd P <> 0 ->
      (e_is_zero P = true <-> e_to_affine P = eaff_zero K).
    Proof.
      intros [[[X Y] T] Z] HZ. cbn [snd] in HZ. unfold e_is_zero, eaff_zero. cbv [E_IsZero].
      rewrite e_to_affine_eq by exact HZ. rewrite andb_true_iff, fis0_eq, feqb_eq. split.
      - intros [HX HY]. subst X Y. f_equal; field; assumption.
      - intros H. injection H as HX HY. split.
        + transitivity (X * finv K Z * Z). field; assumption. rewrite HX. ring.
        + transitivity (Y * finv K Z * Z). field; assumption. rewrite HY. ring.
    Qed.
  End Edwards.

  (* ================================================================================== *)
  (*  extension towers: quadratic.go, cubic.go                                            *)
  (* ================================================================================== *)
  Section Towers.
    (* F[u]/(u^2 - beta): (a0 + a1 u)(b0 + b1 u) = (a0 b0 + beta a1 b1) + (a0 b1 + a1 b0) u *)
    Theorem quad_mul_schoolbook : forall beta a0 a1 b0 b1 : F,
      Q_Mul K beta a0 a1 b0 b1 = (a0 * b0 + beta * (a1 * b1), a0 * b1 + a1 * b0).
    Proof. intros. cbv [Q_Mul]. apply tup2; ring. Qed.

    Theorem quad_square_is_mul : forall beta a0 a1 : F,
      Q_Square K beta a0 a1 = Q_Mul K beta a0 a1 a0 a1.
    Proof. intros. cbv [Q_Square Q_Mul]. apply tup2; ring. Qed.

    Theorem quad_add_sub_neg_double : forall a0 a1 b0 b1 : F,
      Q_Add K a0 a1 b0 b1 = (a0 + b0, a1 + b1) /\ Q_Sub K a0 a1 b0 b1 = (a0 - b0, a1 - b1) /\
      Q_Neg K a0 a1 = (- a0, - a1) /\ Q_Double K a0 a1 = (a0 + a0, a1 + a1).
    Proof. intros. repeat split. Qed.

    (* F[v]/(v^3 - xi) *)
    Theorem cubic_mul_schoolbook : forall xi a0 a1 a2 b0 b1 b2 : F,
      C_Mul K xi a0 a1 a2 b0 b1 b2 =
      (a0 * b0 + xi * (a1 * b2 + a2 * b1),
       a0 * b1 + a1 * b0 + xi * (a2 * b2),
       a0 * b2 + a1 * b1 + a2 * b0).
    Proof. intros. cbv [C_Mul]. apply tup3; ring. Qed.

    Theorem cubic_square_is_mul : forall xi a0 a1 a2 : F,
      C_Square K xi a0 a1 a2 = C_Mul K xi a0 a1 a2 a0 a1 a2.
    Proof. intros. cbv [C_Square C_Mul]. apply tup3; ring. Qed.

    Theorem cubic_add_sub_neg_double : forall a0 a1 a2 b0 b1 b2 : F,
      C_Add K a0 a1 a2 b0 b1 b2 = (a0 + b0, a1 + b1, a2 + b2) /\
      C_Sub K a0 a1 a2 b0 b1 b2 = (a0 - b0, a1 - b1, a2 - b2) /\
      C_Neg K a0 a1 a2 = (- a0, - a1, - a2) /\ C_Double K a0 a1 a2 = (a0 + a0, a1 + a1, a2 + a2).
    Proof. intros. repeat split. Qed.
  End Towers.
End FieldFacts.
