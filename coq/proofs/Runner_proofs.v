(* Runner_proofs.v — runner_refines_rounds for the abstract skeleton (model/Runner.v):
   if every inbox a runner uses is the result of a COMPLETED receive of the router model on the
   round's correlation id, requested from the other parties, on a router whose filed deposits
   under that id carry what the sender's round function produced for this party (authentic
   transport; the id is used for this one exchange; retransmissions are identical), then the
   runner's states and inboxes equal those of the round-by-round drive — for every schedule
   in which the receives complete.  Uses recv_exact. *)
From Coq Require Import List NArith Bool Lia.
Import ListNotations.
Require Import V.base.Bytes V.gen.RouterConsts V.model.Router V.proofs.Router_proofs.
Require Import V.model.Echo V.proofs.Echo_proofs V.model.Runner.

Lemma dedup_NoDup_id l : NoDup l -> dedup l = l.
Proof.
  induction l as [|x l IH]; intros H; [reflexivity|]. inversion H as [|? ? Hn Hd]; subst.
  cbn [dedup]. replace (mem x l) with false; [rewrite IH by exact Hd; reflexivity|].
  symmetry. apply mem_false. exact Hn.
Qed.

Lemma others_NoDup self quorum : NoDup quorum -> NoDup (others self quorum).
Proof. intros H. unfold others. apply NoDup_filter. exact H. Qed.

Lemma pick_exact (fs : list N) (g : N -> option bytes) (res : list (N * bytes)) :
  map fst res = fs -> (forall f pl, In (f, pl) res -> g f = Some pl) -> res = pick fs g.
Proof.
  revert fs. induction res as [|[f pl] res IH]; intros fs Hk Hv; cbn [map fst] in Hk; subst fs; [reflexivity|].
  cbn [pick]. rewrite (Hv f pl) by (left; reflexivity). f_equal. apply IH; [reflexivity|].
  intros f' pl' Hin. apply Hv. right. exact Hin.
Qed.

Lemma pick_ext (fs : list N) (g h : N -> option bytes) :
  (forall f, In f fs -> g f = h f) -> pick fs g = pick fs h.
Proof.
  induction fs as [|f r IH]; intros H; [reflexivity|]. cbn [pick].
  rewrite (H f) by (left; reflexivity). rewrite IH by (intros x Hx; apply H; right; exact Hx). reflexivity.
Qed.

Section RunnerFacts.
  Context {St : Type}.
  Variable parties : list N.
  Variable rf : nat -> N -> St -> list (N * bytes) -> St * list (N * bytes).
  Variable init : N -> St.
  Variable cid_of : nat -> cid.

  (* [res] is what party p's router returned for the round's id *)
  Definition router_inbox (c : cid) (p : N) (sentk : N -> option bytes) (res : list (N * bytes)) : Prop :=
    exists q tr s s',
      reach q tr s /\ step s (RecvCheck c) = (s', ORecvOk res) /\
      entered_r tr c = Some (others p parties) /\
      (forall f pl d, In (Deposit f c pl, ODep d) tr -> filed d = true -> sentk f = Some pl).

  Lemma router_inbox_exact c p sentk res :
    NoDup parties -> router_inbox c p sentk res -> res = pick (others p parties) sentk.
  Proof.
    intros Hnd (q & tr & s & s' & Hr & Hs & He & Ht).
    destruct (recv_exact q tr s c s' res Hr Hs) as (froms & He' & Hk & _ & _ & Hv).
    rewrite He in He'. injection He' as <-.
    rewrite dedup_NoDup_id in Hk by (apply others_NoDup; exact Hnd).
    apply pick_exact; [exact Hk|].
    intros f pl Hin. destruct (Hv f pl Hin) as (_ & _ & d & Hd & Hf). eapply Ht; eauto.
  Qed.

  Variable rin : nat -> N -> list (N * bytes).

  Lemma runner_refines_rounds :
    NoDup parties ->
    (forall k p, In p parties ->
       router_inbox (cid_of k) p
         (fun f => sent rf k (fst (runner rf init rin k)) (snd (runner rf init rin k)) f p) (rin k p)) ->
    forall n p, In p parties ->
      fst (runner rf init rin n) p = fst (rounds parties rf init n) p /\
      snd (runner rf init rin n) p = snd (rounds parties rf init n) p.
  Proof.
    intros Hnd Hin n. induction n as [|k IH]; intros p Hp; [split; reflexivity|].
    cbn [runner rounds fst snd]. destruct (IH p Hp) as [Hst Hib]. split.
    - rewrite Hst, Hib. reflexivity.
    - rewrite (router_inbox_exact _ _ _ _ Hnd (Hin k p Hp)).
      apply pick_ext. intros f Hf. apply others_In in Hf as [Hf _].
      unfold sent. destruct (IH f Hf) as [Hsf Hif]. rewrite Hsf, Hif. reflexivity.
  Qed.
End RunnerFacts.
