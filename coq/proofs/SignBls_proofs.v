(* SignBls_proofs.v — proofs about model/SignBls.v (Boldyreva threshold BLS) over an arbitrary
   field (flaws K):
     - the honest run returns the signature (and proof of possession) with coefficient x and the
       single-party verifier accepts it,
     - the result does not depend on the quorum,
     - the explicit refusals (empty message, zero share component) make sign return an error. *)
From Coq Require Import List Arith Bool Lia Field Ring ZArith.
Import ListNotations.
Require Import V.base.Fld V.model.SignBls.

Section BlsProofs.
Context {F : Type} (K : fops F) (HK : flaws K) {Msg Hin : Type}.
Variable hin_eqb : Hin -> Hin -> bool.
Hypothesis hin_eqb_spec : forall a b, hin_eqb a b = true <-> a = b.
Variable hmsg : rogue_mode -> key_size -> F -> Msg -> Hin.
Variable hpop : key_size -> F -> Hin.
Variable msg_empty : Msg -> bool.

Add Field Kfield_bls : (fl_theory K HK).

Local Infix "+" := (fadd K).
Local Infix "*" := (fmul K).

(* ---- field facts -------------------------------------------------------------------- *)

Lemma feqb_refl : forall x, feqb K x x = true.
Proof. intros x. apply (fl_eqb K HK). reflexivity. Qed.

Lemma fis0_false : forall x, x <> f0 K -> fis0 K x = false.
Proof.
  intros x H. unfold fis0. destruct (feqb K x (f0 K)) eqn:E; [|reflexivity].
  apply (fl_eqb K HK) in E. contradiction.
Qed.

Lemma fis0_0 : fis0 K (f0 K) = true.
Proof. unfold fis0. apply feqb_refl. Qed.

Lemma hin_eqb_refl : forall a, hin_eqb a a = true.
Proof. intros a. apply hin_eqb_spec. reflexivity. Qed.

(* ---- the partial signature of an honest holder -------------------------------------- *)

Definition psig_of (md : rogue_mode) (ks : key_size) (x : F) (m : Msg) (h : holder (F:=F))
  : psig (F:=F) (Hin:=Hin) :=
  mk_psig (map (fun l => (hmsg md ks x m, l)) (h_rows h))
          (match md with POP => map (fun l => (hpop ks x, l)) (h_rows h) | _ => [] end).

Lemma existsb_false : forall {A} (f : A -> bool) l,
  (forall i, In i l -> f i = false) -> existsb f l = false.
Proof.
  intros A f l. induction l as [|a l IH]; intros H; [reflexivity|].
  cbn [existsb]. rewrite (H a (or_introl eq_refl)), IH; [reflexivity|].
  intros i Hi. apply H. right. exact Hi.
Qed.

Lemma produce_ok : forall md ks x m h, msg_empty m = false ->
  (forall l, In l (h_rows h) -> l <> f0 K) ->
  produce K hmsg hpop msg_empty md ks x m h = Some (psig_of md ks x m h).
Proof.
  intros md ks x m h Hm Hl. unfold produce. rewrite Hm.
  rewrite existsb_false by (intros l Hlin; apply fis0_false, Hl, Hlin). reflexivity.
Qed.

Lemma all_some_map : forall {A B} (f : A -> option B) (g : A -> B) l,
  (forall i, In i l -> f i = Some (g i)) -> all_some (map f l) = Some (map g l).
Proof.
  intros A B f g l. induction l as [|a l IH]; intros H; [reflexivity|].
  cbn [map all_some]. rewrite (H a (or_introl eq_refl)).
  rewrite IH by (intros i Hi; apply H; right; exact Hi). reflexivity.
Qed.

Lemma all_some_none : forall {A B} (f : A -> option B) l a,
  In a l -> f a = None -> all_some (map f l) = None.
Proof.
  intros A B f l a. induction l as [|b l IH]; intros Hal Hf; [destruct Hal|].
  cbn [map all_some]. destruct Hal as [->|Hal].
  - rewrite Hf. reflexivity.
  - rewrite (IH Hal Hf). destruct (f b); reflexivity.
Qed.

(* ---- the aggregator's checks -------------------------------------------------------- *)

Lemma comps_ok_map : forall i ls, (forall l, In l ls -> l <> f0 K) ->
  comps_ok K hin_eqb i ls (map (fun l => (i, l)) ls) = true.
Proof.
  intros i ls. induction ls as [|l ls IH]; intros H; [reflexivity|].
  cbn [map comps_ok]. rewrite IH by (intros l' Hl'; apply H; right; exact Hl').
  unfold comp_ok, sgel_eqb. cbn [fst snd].
  rewrite (fis0_false l (H l (or_introl eq_refl))), hin_eqb_refl, feqb_refl. reflexivity.
Qed.

Lemma sender_ok_psig_of : forall md ks x m h,
  h_rows h <> [] -> (forall l, In l (h_rows h) -> l <> f0 K) ->
  sender_ok K hin_eqb hmsg hpop md ks x m h (psig_of md ks x m h) = true.
Proof.
  intros md ks x m h Hne Hl. unfold sender_ok, psig_of. cbn [sigma_i sigma_pop_i].
  rewrite comps_ok_map by exact Hl.
  destruct md; rewrite ?comps_ok_map by exact Hl; rewrite !map_length, !Nat.eqb_refl;
    (destruct (h_rows h) as [|l0 ls]; [congruence|reflexivity]).
Qed.

Lemma combine_map_self : forall {A B} (g : A -> B) l,
  combine l (map g l) = map (fun i => (i, g i)) l.
Proof.
  intros A B g l. induction l as [|a l IH]; [reflexivity|]. cbn [map combine]. rewrite IH. reflexivity.
Qed.

(* the inner sum of [recon] *)
Fixpoint dot (cs ls : list F) : F :=
  match cs, ls with c :: cs', l :: ls' => c * l + dot cs' ls' | _, _ => f0 K end.

Lemma recon_dot : forall hs,
  recon K hs = fold_right (fun h acc => dot (h_coefs h) (h_rows h) + acc) (f0 K) hs.
Proof. reflexivity. Qed.

Lemma lin_map : forall (i : Hin) cs ls, lin K cs (map (fun l => (i, l)) ls) = dot cs ls.
Proof.
  intros i cs. induction cs as [|c cs IH]; intros ls; [reflexivity|].
  destruct ls as [|l ls]; [reflexivity|]. cbn [map lin dot snd]. rewrite IH. reflexivity.
Qed.

Lemma fold_lin_sigma : forall md ks x m hs,
  fold_right (fun (hp : holder * psig) acc => lin K (h_coefs (fst hp)) (sigma_i (snd hp)) + acc) (f0 K)
    (map (fun h => (h, psig_of md ks x m h)) hs) = recon K hs.
Proof.
  intros md ks x m hs. rewrite recon_dot. induction hs as [|h hs IH]; [reflexivity|].
  cbn [map fold_right fst snd]. rewrite IH. unfold psig_of at 1. cbn [sigma_i].
  rewrite lin_map. reflexivity.
Qed.

Lemma fold_lin_sigma_pop : forall ks x m hs,
  fold_right (fun (hp : holder * psig) acc => lin K (h_coefs (fst hp)) (sigma_pop_i (snd hp)) + acc) (f0 K)
    (map (fun h => (h, psig_of POP ks x m h)) hs) = recon K hs.
Proof.
  intros ks x m hs. rewrite recon_dot. induction hs as [|h hs IH]; [reflexivity|].
  cbn [map fold_right fst snd]. rewrite IH. unfold psig_of at 1. cbn [sigma_pop_i].
  rewrite lin_map. reflexivity.
Qed.

(* ---- the honest run ----------------------------------------------------------------- *)

Theorem boldyreva_signature_valid : forall md ks x m hs,
  wf_holders hs ->
  recon K hs = x        (* C02 to_additive_sums / reconstruct_correct *) ->
  x <> f0 K ->
  msg_empty m = false ->
  (forall h, In h hs -> forall l, In l (h_rows h) -> l <> f0 K) ->
  let sg := ((hmsg md ks x m, x), match md with POP => Some (hpop ks x, x) | _ => None end) in
  sign K hin_eqb hmsg hpop msg_empty md ks x m hs = Some sg /\
  verify K hin_eqb hmsg hpop msg_empty md ks x m sg = true.
Proof.
  intros md ks x m hs Hwf Hrec Hx Hm Hl sg. split.
  - unfold sign.
    rewrite (all_some_map _ (psig_of md ks x m) hs)
      by (intros h Hh; apply produce_ok; [exact Hm|exact (Hl h Hh)]).
    unfold aggregate. rewrite Hm, map_length, Nat.eqb_refl. cbn [negb].
    rewrite combine_map_self.
    assert (Hall : forallb (fun hp : holder * psig =>
                      sender_ok K hin_eqb hmsg hpop md ks x m (fst hp) (snd hp))
                     (map (fun h => (h, psig_of md ks x m h)) hs) = true).
    { apply forallb_forall. intros hp Hhp. apply in_map_iff in Hhp.
      destruct Hhp as (h & <- & Hh). cbn [fst snd].
      unfold wf_holders in Hwf. rewrite Forall_forall in Hwf.
      apply sender_ok_psig_of; [apply (Hwf h Hh)|exact (Hl h Hh)]. }
    rewrite Hall. cbn [negb]. cbv zeta.
    rewrite fold_lin_sigma, Hrec, (fis0_false x Hx).
    destruct md; try reflexivity.
    rewrite fold_lin_sigma_pop, Hrec, (fis0_false x Hx). reflexivity.
  - unfold verify, sg, sgel_eqb. cbn [fst snd].
    rewrite (fis0_false x Hx), Hm, hin_eqb_refl, feqb_refl. cbn [negb andb].
    destruct md; try reflexivity.
    rewrite hin_eqb_refl, feqb_refl. reflexivity.
Qed.

Theorem boldyreva_quorum_independent : forall md ks x m hs1 hs2,
  wf_holders hs1 -> recon K hs1 = x -> x <> f0 K -> msg_empty m = false ->
  (forall h, In h hs1 -> forall l, In l (h_rows h) -> l <> f0 K) ->
  wf_holders hs2 -> recon K hs2 = x -> x <> f0 K -> msg_empty m = false ->
  (forall h, In h hs2 -> forall l, In l (h_rows h) -> l <> f0 K) ->
  sign K hin_eqb hmsg hpop msg_empty md ks x m hs1 =
  sign K hin_eqb hmsg hpop msg_empty md ks x m hs2.
Proof.
  intros md ks x m hs1 hs2 Hwf1 Hr1 Hx Hm Hl1 Hwf2 Hr2 _ _ Hl2.
  destruct (boldyreva_signature_valid md ks x m hs1 Hwf1 Hr1 Hx Hm Hl1) as [E1 _].
  destruct (boldyreva_signature_valid md ks x m hs2 Hwf2 Hr2 Hx Hm Hl2) as [E2 _].
  rewrite E1, E2. reflexivity.
Qed.

(* ---- the refusals ------------------------------------------------------------------- *)

(* no side condition on hs is needed: with an empty quorum and an empty message the
   aggregator itself refuses *)
Theorem boldyreva_refusals_strong : forall md ks x m hs,
  (msg_empty m = true \/ exists h, In h hs /\ In (f0 K) (h_rows h)) ->
  sign K hin_eqb hmsg hpop msg_empty md ks x m hs = None.
Proof.
  intros md ks x m hs [Hm | (h & Hh & H0)]; unfold sign.
  - destruct hs as [|h hs].
    + cbn [map all_some]. unfold aggregate. rewrite Hm. reflexivity.
    + rewrite (all_some_none _ (h :: hs) h (or_introl eq_refl)); [reflexivity|].
      unfold produce. rewrite Hm. reflexivity.
  - rewrite (all_some_none _ hs h Hh); [reflexivity|].
    unfold produce. destruct (msg_empty m); [reflexivity|].
    assert (E : existsb (fis0 K) (h_rows h) = true).
    { apply existsb_exists. exists (f0 K). split; [exact H0|apply fis0_0]. }
    rewrite E. reflexivity.
Qed.

Theorem boldyreva_refusals : forall md ks x m hs, hs <> [] ->
  (msg_empty m = true \/ exists h, In h hs /\ In (f0 K) (h_rows h)) ->
  sign K hin_eqb hmsg hpop msg_empty md ks x m hs = None.
Proof. intros md ks x m hs _ H. apply boldyreva_refusals_strong. exact H. Qed.

End BlsProofs.
