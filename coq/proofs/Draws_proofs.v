(* Draws_proofs.v — lemmas about the tape-functional protocol skeleton of model/Draws.v (C07). *)
From Coq Require Import List NArith ZArith Lia Bool Permutation.
From Coq Require Import ZifyN ZifyNat ZifyBool.
Import ListNotations.
Require Import V.base.Bytes V.model.Draws.
Local Open Scope N_scope.

(* ---- (1) non-interference: a party's first message is a function of its own tape ------- *)

Lemma run_cons q s specs t ts :
  run q (s :: specs) (t :: ts) = first_msg q s t :: run q specs ts.
Proof. reflexivity. Qed.

Lemma run_upd_other q specs : forall ts j t' i,
  i <> j -> nth i (run q specs (upd ts j t')) [] = nth i (run q specs ts) [].
Proof.
  induction specs as [|s specs IH]; intros ts j t' i Hij.
  - unfold run; cbn [combine map]. reflexivity.
  - destruct ts as [|t ts].
    + cbn [upd]. reflexivity.
    + destruct j as [|j'].
      * cbn [upd]. rewrite !run_cons. destruct i as [|i']; [congruence|]. reflexivity.
      * cbn [upd]. rewrite !run_cons. destruct i as [|i']; [reflexivity|].
        cbn [nth]. apply IH. congruence.
Qed.

Lemma run_upd_own q specs : forall ts j t',
  (j < length specs)%nat -> (j < length ts)%nat ->
  nth j (run q specs (upd ts j t')) [] = first_msg q (nth j specs []) t'.
Proof.
  induction specs as [|s specs IH]; intros ts j t' Hs Ht; [cbn in Hs; lia|].
  destruct ts as [|t ts]; [cbn in Ht; lia|].
  destruct j as [|j'].
  - cbn [upd]. rewrite run_cons. reflexivity.
  - cbn [upd]. rewrite run_cons. cbn [nth]. apply IH; cbn in Hs, Ht; lia.
Qed.

Lemma run_nth q specs : forall ts i,
  (i < length specs)%nat -> (i < length ts)%nat ->
  nth i (run q specs ts) [] = first_msg q (nth i specs []) (nth i ts []).
Proof.
  induction specs as [|s specs IH]; intros ts i Hs Ht; [cbn in Hs; lia|].
  destruct ts as [|t ts]; [cbn in Ht; lia|].
  rewrite run_cons. destruct i as [|i']; [reflexivity|].
  cbn [nth]. apply IH; cbn in Hs, Ht; lia.
Qed.

(* changing party j's tape leaves party i's (i <> j) first-round randomised fields
   unchanged, and party j's message becomes the model's function of the new tape *)
Lemma msgs_function_of_own_tape_lemma : forall q specs ts j t',
  (forall i, i <> j -> nth i (run q specs (upd ts j t')) [] = nth i (run q specs ts) []) /\
  ((j < length specs)%nat -> (j < length ts)%nat ->
   nth j (run q specs (upd ts j t')) [] = first_msg q (nth j specs []) t').
Proof.
  intros q specs ts j t'. split.
  - intros i Hij. apply run_upd_other; exact Hij.
  - apply run_upd_own.
Qed.

(* the values depend only on the bytes the draws cover *)
Lemma slice_firstn off len n (t : bytes) :
  (off + len <= n)%nat -> slice off len (firstn n t) = slice off len t.
Proof.
  intros H. unfold slice. rewrite skipn_firstn_comm, firstn_firstn.
  f_equal. lia.
Qed.

Lemma layout_values_prefix q t n : forall ds off,
  (off + N.to_nat (total_len ds) <= n)%nat ->
  map (value_at q (firstn n t)) (layout_from off ds) = map (value_at q t) (layout_from off ds).
Proof.
  induction ds as [|d ds IH]; intros off H; [reflexivity|].
  cbn [layout_from map]. cbn [total_len fold_right] in H.
  fold (total_len ds) in H.
  f_equal.
  - unfold value_at; cbn [fst snd]. rewrite slice_firstn; [reflexivity|lia].
  - apply IH. lia.
Qed.

Lemma party_values_prefix : forall q ds t n,
  (N.to_nat (total_len ds) <= n)%nat ->
  party_values q ds (firstn n t) = party_values q ds t.
Proof.
  intros q ds t n H. unfold party_values, layout. apply layout_values_prefix. lia.
Qed.

Lemma party_values_served : forall q ds t1 t2,
  firstn (N.to_nat (total_len ds)) t1 = firstn (N.to_nat (total_len ds)) t2 ->
  party_values q ds t1 = party_values q ds t2.
Proof.
  intros q ds t1 t2 H.
  rewrite <- (party_values_prefix q ds t1 (N.to_nat (total_len ds))) by lia.
  rewrite <- (party_values_prefix q ds t2 (N.to_nat (total_len ds))) by lia.
  rewrite H. reflexivity.
Qed.

(* ---- (2) the sampler ---------------------------------------------------------------------- *)

Lemma le_value_inj : forall b1 b2,
  wf_bytes b1 -> wf_bytes b2 -> length b1 = length b2 -> le_value b1 = le_value b2 -> b1 = b2.
Proof.
  induction b1 as [|a r IH]; intros b2 W1 W2 HL HV.
  - destruct b2; [reflexivity|cbn in HL; lia].
  - destruct b2 as [|b r2]; [cbn in HL; lia|].
    inversion W1 as [|? ? Ha Wr]; subst. inversion W2 as [|? ? Hb Wr2]; subst.
    cbn [le_value] in HV. unfold is_byte in Ha, Hb.
    assert (a = b /\ le_value r = le_value r2) as [E1 E2] by lia.
    subst b. f_equal. apply IH; auto.
Qed.

Lemma zmod_eq_iff (a b q : Z) : (q <> 0)%Z ->
  ((a mod q = b mod q) <-> ((a - b) mod q = 0))%Z.
Proof.
  intros Hq. split.
  - intros H. rewrite Zminus_mod, H, Z.sub_diag. apply Zmod_0_l.
  - intros H. apply Z.mod_divide in H; [|exact Hq].
    destruct H as [c Hc].
    replace a with (b + c * q)%Z by lia.
    apply Z_mod_plus_full.
Qed.

Lemma sample_scalar_eq_iff : forall q b1 b2, q <> 0 ->
  (sample_scalar q b1 = sample_scalar q b2 <->
   ((Z.of_N (le_value b1) - Z.of_N (le_value b2)) mod Z.of_N q = 0)%Z).
Proof.
  intros q b1 b2 Hq. unfold sample_scalar.
  rewrite <- zmod_eq_iff by lia.
  rewrite <- !N2Z.inj_mod by exact Hq.
  split; [intros H; rewrite H; reflexivity | apply N2Z.inj].
Qed.

(* the exact coincidence condition, at an offset of two tapes *)
Lemma sample_depends_on_tape_lemma : forall q t1 t2 off len, q <> 0 ->
  let s1 := slice off len t1 in
  let s2 := slice off len t2 in
  (sample_scalar q s1 = sample_scalar q s2 <->
   ((Z.of_N (le_value s1) - Z.of_N (le_value s2)) mod Z.of_N q = 0)%Z) /\
  (wf_bytes s1 -> wf_bytes s2 -> length s1 = length s2 -> le_value s1 = le_value s2 -> s1 = s2).
Proof.
  intros q t1 t2 off len Hq s1 s2. split.
  - apply sample_scalar_eq_iff; exact Hq.
  - apply le_value_inj.
Qed.

(* ---- (3) the first message is injective in the sampled values -------------------------------- *)

Lemma enc_value_inj v1 v2 : enc_value v1 = enc_value v2 -> v1 = v2.
Proof. destruct v1, v2; cbn; intros H; inversion H; reflexivity. Qed.

Lemma map_inj {A B} (f : A -> B) : (forall x y, f x = f y -> x = y) ->
  forall l1 l2, map f l1 = map f l2 -> l1 = l2.
Proof.
  intros Hf. induction l1 as [|a r IH]; intros [|b r2] H; cbn in H; try discriminate; [reflexivity|].
  inversion H as [[H1 H2]]. f_equal; [apply Hf; exact H1 | apply IH; exact H2].
Qed.

Lemma first_msg_injective_lemma : forall q ds t1 t2,
  first_msg q ds t1 = first_msg q ds t2 -> party_values q ds t1 = party_values q ds t2.
Proof. intros q ds t1 t2 H. unfold first_msg in H. eapply map_inj; [apply enc_value_inj|exact H]. Qed.

Lemma encoding_injective_lemma : forall vs1 vs2, map enc_value vs1 = map enc_value vs2 -> vs1 = vs2.
Proof. apply map_inj. apply enc_value_inj. Qed.

Lemma commit_term_inj : forall ck1 m1 w1 ck2 m2 w2,
  commit_term ck1 m1 w1 = commit_term ck2 m2 w2 -> ck1 = ck2 /\ m1 = m2 /\ w1 = w2.
Proof. intros ck1 m1 w1 ck2 m2 w2 H. unfold commit_term in H. inversion H. auto. Qed.

(* ---- (4) joint values ---------------------------------------------------------------------------- *)

Lemma joint_sum_lt q ks : q <> 0 -> joint_sum q ks < q.
Proof.
  intros Hq. destruct ks as [|k r]; cbn [joint_sum fold_right]; [lia|].
  apply N.mod_lt; exact Hq.
Qed.

Lemma joint_sum_upd : forall q ks j delta, q <> 0 -> (j < length ks)%nat ->
  joint_sum q (upd ks j ((nth j ks 0 + delta) mod q)) = (joint_sum q ks + delta) mod q.
Proof.
  intros q ks. induction ks as [|k r IH]; intros j delta Hq Hj; [cbn in Hj; lia|].
  destruct j as [|j'].
  - cbn [upd nth]. cbn [joint_sum fold_right]. fold (joint_sum q r).
    rewrite N.add_mod_idemp_l by exact Hq.
    rewrite N.add_mod_idemp_l by exact Hq.
    f_equal. lia.
  - cbn [upd nth]. cbn [joint_sum fold_right].
    fold (joint_sum q r). fold (joint_sum q (upd r j' ((nth j' r 0 + delta) mod q))).
    rewrite IH by (cbn in Hj; first [exact Hq | lia]).
    rewrite N.add_mod_idemp_r by exact Hq.
    rewrite N.add_mod_idemp_l by exact Hq.
    f_equal. lia.
Qed.

Lemma shift_mod_fix (J d q : N) : q <> 0 -> J < q -> (J + d) mod q = J -> d mod q = 0.
Proof.
  intros Hq HJ H.
  rewrite <- N.add_mod_idemp_r in H by exact Hq.
  pose proof (N.mod_lt d q Hq) as Hd.
  set (e := d mod q) in *.
  destruct (N.lt_ge_cases (J + e) q) as [Hs|Hs].
  - rewrite N.mod_small in H by exact Hs. lia.
  - assert ((J + e) mod q = J + e - q) as E.
    { symmetry. apply N.mod_unique with 1; lia. }
    rewrite E in H. lia.
Qed.

(* exactly one party's sample changes by delta: the sum changes by delta, hence changes
   iff delta is not 0 mod q *)
Lemma joint_sum_depends : forall q ks j delta, q <> 0 -> (j < length ks)%nat ->
  joint_sum q (upd ks j ((nth j ks 0 + delta) mod q)) = (joint_sum q ks + delta) mod q /\
  (delta mod q <> 0 -> joint_sum q (upd ks j ((nth j ks 0 + delta) mod q)) <> joint_sum q ks).
Proof.
  intros q ks j delta Hq Hj. split; [apply joint_sum_upd; assumption|].
  intros Hd E. rewrite joint_sum_upd in E by assumption.
  apply Hd. eapply shift_mod_fix; [exact Hq | apply joint_sum_lt; exact Hq | exact E].
Qed.

(* session id *)
Lemma insert_by_id_perm x l : Permutation (insert_by_id x l) (x :: l).
Proof.
  induction l as [|y r IH]; cbn [insert_by_id]; [apply Permutation_refl|].
  destruct (fst x <=? fst y); [apply Permutation_refl|].
  eapply Permutation_trans; [apply perm_skip; exact IH|]. apply perm_swap.
Qed.

Lemma sort_by_id_perm l : Permutation (sort_by_id l) l.
Proof.
  induction l as [|x r IH]; cbn [sort_by_id fold_right]; [apply Permutation_refl|].
  fold (sort_by_id r).
  eapply Permutation_trans; [apply insert_by_id_perm|]. apply perm_skip; exact IH.
Qed.

Lemma contribution_term_inj c1 c2 : contribution_term c1 = contribution_term c2 -> c1 = c2.
Proof.
  destruct c1 as [i1 b1], c2 as [i2 b2]. unfold contribution_term; cbn [fst snd].
  intros H; inversion H; reflexivity.
Qed.

Lemma sid_term_determines : forall cs cs', sid_term cs = sid_term cs' -> Permutation cs cs'.
Proof.
  intros cs cs' H. unfold sid_term in H. inversion H as [H1].
  apply (map_inj _ contribution_term_inj) in H1.
  eapply Permutation_trans; [apply Permutation_sym; apply sort_by_id_perm|].
  rewrite H1. apply sort_by_id_perm.
Qed.

Lemma nodup_fst_functional : forall (l : list (N * bytes)) i c c',
  NoDup (map fst l) -> In (i, c) l -> In (i, c') l -> c = c'.
Proof.
  induction l as [|[j d] r IH]; intros i c c' ND H1 H2; [contradiction|].
  cbn [map fst] in ND. inversion ND as [|? ? Hn ND']; subst.
  destruct H1 as [H1|H1], H2 as [H2|H2].
  - congruence.
  - inversion H1; subst. exfalso. apply Hn. apply (in_map fst) in H2. exact H2.
  - inversion H2; subst. exfalso. apply Hn. apply (in_map fst) in H1. exact H1.
  - eapply IH; eauto.
Qed.

(* one party's contribution changes (ids distinct): the session-id term changes *)
Lemma sid_term_depends : forall cs cs' i c c',
  NoDup (map fst cs) -> In (i, c) cs -> In (i, c') cs' -> c <> c' -> sid_term cs <> sid_term cs'.
Proof.
  intros cs cs' i c c' ND H1 H2 Hc E.
  apply sid_term_determines in E.
  apply Hc. eapply nodup_fst_functional; [exact ND | exact H1 |].
  eapply Permutation_in; [apply Permutation_sym; exact E | exact H2].
Qed.

(* sub-context seeds depend on the parent seed bytes (and on the sub-quorum) *)
Lemma sub_seed_depends : forall p1 q1 p2 q2,
  sub_seed_term p1 q1 = sub_seed_term p2 q2 -> p1 = p2 /\ q1 = q2.
Proof. intros p1 q1 p2 q2 H. unfold sub_seed_term in H. inversion H. auto. Qed.

(* zero shares *)
Local Open Scope Z_scope.

Lemma fold_diff (f f' : N -> Z) (a : N) : forall ids,
  (forall j, j <> a -> f' j = f j) ->
  NoDup ids ->
  fold_right (fun j acc => f' j + acc) 0 ids =
  fold_right (fun j acc => f j + acc) 0 ids + (if in_dec N.eq_dec a ids then f' a - f a else 0).
Proof.
  intros ids Hf ND. induction ids as [|x r IH]; [cbn; lia|].
  inversion ND as [|? ? Hn ND']; subst.
  cbn [fold_right]. rewrite IH by exact ND'.
  destruct (in_dec N.eq_dec a (x :: r)) as [Hin|Hnin];
    destruct (in_dec N.eq_dec a r) as [Hr|Hnr].
  - (* a in r, so x <> a *)
    assert (x <> a) by (intro; subst; contradiction).
    rewrite (Hf x) by assumption. lia.
  - destruct Hin as [Hx|Hx]; [subst x; lia|contradiction].
  - exfalso. apply Hnin. right. exact Hr.
  - assert (x <> a) by (intro; subst; apply Hnin; left; reflexivity).
    rewrite (Hf x) by assumption. lia.
Qed.

Lemma pterm_other s s' (a b j : N) :
  (forall x y, x <> a -> y <> a -> s' x y = s x y) -> b <> a -> j <> a -> pterm s' b j = pterm s b j.
Proof.
  intros H Hb Hj. unfold pterm.
  destruct (b <? j)%N; [apply H; assumption|].
  destruct (j <? b)%N; [rewrite H by assumption; reflexivity|reflexivity].
Qed.

(* the pairwise terms that involve party a change (its tape changed): the zero share of every
   peer b changes by exactly the signed difference of the term it shares with a *)
Lemma zero_share_depends : forall q s s' ids a b,
  NoDup ids -> In a ids -> b <> a ->
  (forall x y, x <> a -> y <> a -> s' x y = s x y) ->
  (zero_share q s' ids b - zero_share q s ids b - (pterm s' b a - pterm s b a)) mod q = 0.
Proof.
  intros q s s' ids a b ND Ha Hb Hs. unfold zero_share.
  rewrite (fold_diff (pterm s b) (pterm s' b) a ids) by
    (first [exact ND | intros j Hj; apply (pterm_other s s' a b j Hs Hb Hj)]).
  destruct (in_dec N.eq_dec a ids) as [_|Hn]; [|contradiction].
  set (X := fold_right (fun j acc => pterm s b j + acc) 0 ids).
  set (D := pterm s' b a - pterm s b a).
  replace ((X + D) mod q - X mod q - D) with ((X + D) mod q - (X mod q + D)) by lia.
  rewrite Zminus_mod, Zmod_mod, Zplus_mod_idemp_l, Z.sub_diag. apply Zmod_0_l.
Qed.

(* parties that are not peers of the changed pair keep their share *)
Lemma zero_share_unaffected : forall q s s' ids b,
  (forall j, pterm s' b j = pterm s b j) -> zero_share q s' ids b = zero_share q s ids b.
Proof.
  intros q s s' ids b H. unfold zero_share. f_equal.
  induction ids as [|x r IH]; cbn [fold_right]; [reflexivity|]. rewrite H, IH. reflexivity.
Qed.
Local Close Scope Z_scope.

(* the joint values depend on every party's sample *)
Lemma joint_value_depends_lemma :
  (forall q ks j delta, q <> 0 -> (j < length ks)%nat ->
     joint_sum q (upd ks j ((nth j ks 0 + delta) mod q)) = (joint_sum q ks + delta) mod q /\
     (delta mod q <> 0 -> joint_sum q (upd ks j ((nth j ks 0 + delta) mod q)) <> joint_sum q ks)) /\
  (forall cs cs' i c c',
     NoDup (map fst cs) -> In (i, c) cs -> In (i, c') cs' -> c <> c' -> sid_term cs <> sid_term cs') /\
  (forall q s s' ids a b,
     NoDup ids -> In a ids -> b <> a ->
     (forall x y, x <> a -> y <> a -> s' x y = s x y) ->
     ((zero_share q s' ids b - zero_share q s ids b - (pterm s' b a - pterm s b a)) mod q = 0)%Z).
Proof.
  split; [exact joint_sum_depends|]. split; [exact sid_term_depends|exact zero_share_depends].
Qed.

(* ---- (5) nonce commitments are fresh ------------------------------------------------------------- *)

Lemma nonce_commitment_inj : forall ck1 k1 w1 ck2 k2 w2,
  nonce_commitment ck1 k1 w1 = nonce_commitment ck2 k2 w2 -> ck1 = ck2 /\ k1 = k2 /\ w1 = w2.
Proof.
  intros ck1 k1 w1 ck2 k2 w2 H. unfold nonce_commitment in H.
  apply commit_term_inj in H. destruct H as [H1 [H2 H3]]. inversion H2. auto.
Qed.

(* sessions whose tapes give non-congruent nonce bytes (or different witnesses) have different
   nonce points and different nonce commitments, whatever the commitment keys *)
Lemma nonce_commitments_fresh_lemma : forall q ck1 ck2 s1 s2 w1 w2, q <> 0 ->
  ((Z.of_N (le_value s1) - Z.of_N (le_value s2)) mod Z.of_N q <> 0)%Z \/ w1 <> w2 ->
  nonce_commitment ck1 (sample_scalar q s1) w1 <> nonce_commitment ck2 (sample_scalar q s2) w2 /\
  (((Z.of_N (le_value s1) - Z.of_N (le_value s2)) mod Z.of_N q <> 0)%Z ->
   TExp (sample_scalar q s1) <> TExp (sample_scalar q s2)).
Proof.
  intros q ck1 ck2 s1 s2 w1 w2 Hq H. split.
  - intros E. apply nonce_commitment_inj in E. destruct E as [_ [Ek Ew]].
    destruct H as [H|H]; [|contradiction].
    apply H. apply sample_scalar_eq_iff; assumption.
  - intros Hn E. inversion E as [Ek]. apply Hn. apply sample_scalar_eq_iff; assumption.
Qed.

(* ---- the draw table is consistent with the samplers: a scalar draw reads wide_len bytes --------- *)

Lemma draws_scalar_len : forall p c r d,
  In d (draws p c r) -> d_kind d = KScalar -> d_len d = c_w c.
Proof.
  intros p c r d Hin Hk.
  assert (Hsc : forall s i, d_len (sc c s i) = c_w c) by reflexivity.
  assert (Hscs : forall s n x, In x (scs c s n) -> d_len x = c_w c).
  { intros s n x Hx. unfold scs in Hx. apply in_map_iff in Hx. destruct Hx as [i [<- _]]. reflexivity. }
  assert (Hrep : forall n (x y : draw), In y (rep n x) -> y = x).
  { intros n x y Hy. unfold rep in Hy. apply repeat_spec in Hy. exact Hy. }
  assert (Hraw : forall s i l, d = raw s i l -> False).
  { intros s i l E. subst d. cbn in Hk. discriminate. }
  destruct p; unfold draws in Hin;
    repeat match type of Hin with
           | In _ (match ?r with _ => _ end) => destruct r as [|?]; [contradiction|]
           | In _ (match ?r with xH => _ | xO _ => _ | xI _ => _ end) => destruct r
           end; try contradiction;
    repeat (first
      [ contradiction
      | match type of Hin with
        | In _ (_ ++ _) => apply in_app_or in Hin; destruct Hin as [Hin|Hin]
        | In _ (_ :: _) => destruct Hin as [Hin|Hin]
        | In _ [] => contradiction
        | In _ (scs _ _ _) => exact (Hscs _ _ _ Hin)
        | In _ (rep _ _) => apply Hrep in Hin; subst d; reflexivity
        | In _ (per_peer _ _) => unfold per_peer in Hin; apply in_flat_map in Hin; destruct Hin as [k [_ Hin]]
        | In _ (ot_receiver _ _) => unfold ot_receiver in Hin
        | In _ (map _ _) => apply in_map_iff in Hin; destruct Hin as [k [Hin _]]
        | _ = d => first [ subst d; reflexivity | exfalso; eapply Hraw; symmetry; exact Hin ]
        end ]).
Qed.

(* ---- the draw table read as offsets: which bytes become which first-round value ----------------- *)

(* Lindell22: the nonce point is the sample of the first wide_len bytes *)
Lemma lindell22_nonce_site : forall q c t,
  nth_error (first_msg q (draws PLindell22 c 1) t) 0 =
  Some (TExp (sample_scalar q (slice 0 (N.to_nat (c_w c)) t))).
Proof. intros. reflexivity. Qed.

(* DKLs23 round 1: r, the commitment witness and phi come from three consecutive, disjoint
   ranges of the tape (phi is not r) *)
Lemma dkls23_round1_sites : forall q c t,
  let W := N.to_nat (c_w c) in
  firstn 3 (party_values q (draws PDkls23Bbot c 1) t) =
  [VScalar (sample_scalar q (slice 0 W t)); VRaw (slice W (N.to_nat 32) t);
   VScalar (sample_scalar q (slice (W + N.to_nat 32) W t))].
Proof. intros. reflexivity. Qed.

(* session setup round 1: commitment key, contribution, witness are the raw 32-byte reads *)
Lemma session_round1_sites : forall q c t,
  first_msg q (draws PSession c 1) t =
  [TBytes (slice 0 (N.to_nat 32) t); TBytes (slice (N.to_nat 32) (N.to_nat 32) t);
   TBytes (slice (N.to_nat 32 + N.to_nat 32) (N.to_nat 32) t)].
Proof. intros. reflexivity. Qed.

(* SoftSpoken extension receiver: the sigma mask block of x' is the 16 bytes it draws *)
Lemma otext_sigma_site : forall q c t,
  first_msg q (draws POtExtReceiver c 1) t = [TBytes (slice 0 (N.to_nat 16) t)].
Proof. intros. reflexivity. Qed.

(* ---- examples (non-vacuity) ------------------------------------------------------------------------ *)

Definition ex_q : N := 101.
Definition ex_cfg : cfg := mkCfg 3 2 2 8 1 2 4.
Definition ex_specs : list (list draw) := [draws PLindell22 ex_cfg 1; draws PLindell22 ex_cfg 1; draws PLindell22 ex_cfg 1].
Definition ex_tapes : list bytes :=
  [[1;2;3;4;5;6;7;8;9;10;11;12;13;14;15;16;17;18;19;20;21;22;23;24;25;26;27;28;29;30;31;32;33;34;35;36;37;38;39;40];
   [7;7;7;7;7;7;7;7;9;10;11;12;13;14;15;16;17;18;19;20;21;22;23;24;25;26;27;28;29;30;31;32;33;34;35;36;37;38;39;40];
   [200;1;3;4;5;6;7;8;9;10;11;12;13;14;15;16;17;18;19;20;21;22;23;24;25;26;27;28;29;30;31;32;33;34;35;36;37;38;39;40]].

Example ex_noninterference :
  nth 0 (run ex_q ex_specs (upd ex_tapes 1 [9;9;9;9])) [] = nth 0 (run ex_q ex_specs ex_tapes) [] /\
  nth 1 (run ex_q ex_specs (upd ex_tapes 1 [9;9;9;9])) [] <> nth 1 (run ex_q ex_specs ex_tapes) [].
Proof. split; [vm_compute; reflexivity | vm_compute; discriminate]. Qed.

Example ex_sampler : sample_scalar ex_q [5; 1] = 59 /\ sample_scalar ex_q [106; 0] = sample_scalar ex_q [5; 0]
  /\ sample_scalar ex_q [5; 1] <> sample_scalar ex_q [5; 0].
Proof. vm_compute. repeat split; discriminate. Qed.

Example ex_joint_sum : joint_sum ex_q (upd [10; 20; 30] 1 ((20 + 7) mod ex_q)) = (joint_sum ex_q [10; 20; 30] + 7) mod ex_q
  /\ joint_sum ex_q (upd [10; 20; 30] 1 ((20 + 7) mod ex_q)) <> joint_sum ex_q [10; 20; 30].
Proof. vm_compute. split; [reflexivity|discriminate]. Qed.

Example ex_sid : sid_term [(2, [1]); (1, [2])] = sid_term [(1, [2]); (2, [1])]
  /\ sid_term [(2, [1]); (1, [2])] <> sid_term [(2, [9]); (1, [2])].
Proof. vm_compute. split; [reflexivity|discriminate]. Qed.

Example ex_zero : let s := fun a b => Z.of_N (a * 10 + b) in
  ((zero_share 101 s [1; 2; 3]%N 1%N + zero_share 101 s [1; 2; 3]%N 2%N + zero_share 101 s [1; 2; 3]%N 3%N) mod 101 = 0)%Z.
Proof. vm_compute. reflexivity. Qed.

Example ex_draws_bbot :
  map d_len (draws PDkls23Bbot (mkCfg 3 2 48 416 4 2 0) 1) = [48; 32; 48; 48; 48] /\
  total_len (draws PDkls23Bbot (mkCfg 3 2 48 416 4 2 0) 2) = 2 * (52 + 4992 * 48) /\
  wide_len 256 = 48 /\ wide_len 255 = 48 /\ wide_len 381 = 64.
Proof. vm_compute. repeat split; reflexivity. Qed.
