(* Przs_proofs.v — the zero shares of przs.SampleZeroShare sum to the identity, for every
   finite list of distinct IDs, every symmetric sampling function and every abelian group. *)
From Coq Require Import List NArith ZArith Lia Bool Permutation.
From Coq Require Import ZifyN ZifyNat ZifyBool.
Import ListNotations.
Require Import V.base.Bytes V.gen.SessionConsts V.model.Session V.model.Przs.
Local Open Scope N_scope.

Section PrzsProofs.
  Variable G : Type.
  Variable zero : G.
  Variable add : G -> G -> G.
  Variable neg : G -> G.
  Hypothesis add_assoc : forall a b c, add a (add b c) = add (add a b) c.
  Hypothesis add_comm : forall a b, add a b = add b a.
  Hypothesis add_0_l : forall a, add zero a = a.
  Hypothesis add_neg_r : forall a, add a (neg a) = zero.

  Lemma add_0_r a : add a zero = a.
  Proof. rewrite add_comm. apply add_0_l. Qed.

  Lemma add_neg_l a : add (neg a) a = zero.
  Proof. rewrite add_comm. apply add_neg_r. Qed.

  (* right-nested sum of f over a list *)
  Fixpoint sumr {A} (f : A -> G) (l : list A) : G :=
    match l with
    | [] => zero
    | x :: r => add (f x) (sumr f r)
    end.

  Lemma fold_left_add_acc {A} (f : A -> G) (l : list A) (acc : G) :
    fold_left (fun a x => add a (f x)) l acc = add acc (sumr f l).
  Proof.
    revert acc; induction l as [|x l IH]; intros acc; cbn [fold_left sumr].
    - symmetry. apply add_0_r.
    - rewrite IH. rewrite add_assoc. reflexivity.
  Qed.

  Lemma fold_left_add_sumr {A} (f : A -> G) (l : list A) :
    fold_left (fun a x => add a (f x)) l zero = sumr f l.
  Proof. rewrite fold_left_add_acc. apply add_0_l. Qed.

  Lemma fold_left_add_map {A} (f : A -> G) (l : list A) :
    fold_left add (map f l) zero = sumr f l.
  Proof.
    rewrite <- fold_left_add_sumr.
    generalize zero. induction l as [|x l IH]; intros acc; cbn [map fold_left]; [reflexivity|apply IH].
  Qed.

  Lemma sumr_add {A} (f g : A -> G) (l : list A) :
    sumr (fun x => add (f x) (g x)) l = add (sumr f l) (sumr g l).
  Proof.
    induction l as [|x l IH]; cbn [sumr].
    - symmetry. apply add_0_l.
    - rewrite IH.
      rewrite <- !add_assoc. f_equal.
      rewrite !add_assoc. rewrite (add_comm (g x) (sumr f l)). reflexivity.
  Qed.

  Lemma sumr_ext_in {A} (f g : A -> G) (l : list A) :
    (forall x, In x l -> f x = g x) -> sumr f l = sumr g l.
  Proof.
    induction l as [|x l IH]; intros H; cbn [sumr]; [reflexivity|].
    rewrite (H x (or_introl eq_refl)), IH; [reflexivity|].
    intros y Hy. apply H. right. exact Hy.
  Qed.

  Lemma sumr_zero {A} (f : A -> G) (l : list A) :
    (forall x, In x l -> f x = zero) -> sumr f l = zero.
  Proof.
    induction l as [|x l IH]; intros H; cbn [sumr]; [reflexivity|].
    rewrite (H x (or_introl eq_refl)), IH; [apply add_0_l|].
    intros y Hy. apply H. right. exact Hy.
  Qed.

  Variable R : N -> N -> G.

  Notation term := (term G neg R).
  Notation zero_share := (zero_share G zero add neg R).
  Notation sum_shares := (sum_shares G zero add neg R).

  Definition neq (i : N) : N -> bool := fun j => negb (j =? i).

  Lemma zero_share_sumr ids i : zero_share ids i = sumr (term i) (filter (neq i) ids).
  Proof. unfold Przs.zero_share. apply fold_left_add_sumr. Qed.

  Lemma sum_shares_sumr ids : sum_shares ids = sumr (zero_share ids) ids.
  Proof. unfold Przs.sum_shares. apply fold_left_add_map. Qed.

  (* the two ends of a pair contribute opposite elements *)
  Lemma term_antisym i j : i <> j -> add (term i j) (term j i) = zero.
  Proof.
    intros Hij. unfold Przs.term, signed.
    rewrite (N.min_comm j i), (N.max_comm j i).
    destruct (j <? i) eqn:Hji, (i <? j) eqn:Hij'; try lia.
    - apply add_neg_l.
    - apply add_neg_r.
  Qed.

  Lemma filter_neq_notin x l : ~ In x l -> filter (neq x) l = l.
  Proof.
    induction l as [|y l IH]; intros H; cbn [filter]; [reflexivity|].
    unfold neq at 1. destruct (y =? x) eqn:E.
    - exfalso. apply H. left. lia.
    - cbn [negb]. f_equal. apply IH. intros Hin. apply H. right. exact Hin.
  Qed.

  (* the double sum over a duplicate-free list *)
  Definition dsum (l : list N) : G := sumr (fun i => sumr (term i) (filter (neq i) l)) l.

  Lemma dsum_zero l : NoDup l -> dsum l = zero.
  Proof.
    induction l as [|x l IH]; intros Hnd; [reflexivity|].
    inversion Hnd as [|? ? Hx Hnd']; subst.
    unfold dsum. cbn [sumr].
    (* the head party *)
    assert (Hhead : filter (neq x) (x :: l) = l).
    { cbn [filter]. unfold neq at 1. rewrite N.eqb_refl. cbn [negb]. apply filter_neq_notin. exact Hx. }
    rewrite Hhead.
    (* every other party sees the new peer x first *)
    rewrite (sumr_ext_in (fun i => sumr (term i) (filter (neq i) (x :: l)))
                         (fun i => add (term i x) (sumr (term i) (filter (neq i) l))) l).
    2:{ intros i Hi. cbn [filter]. unfold neq at 1.
        destruct (x =? i) eqn:E.
        - exfalso. apply Hx. assert (x = i) by lia. subst. exact Hi.
        - cbn [negb sumr]. reflexivity. }
    rewrite sumr_add.
    fold (dsum l). rewrite (IH Hnd'), add_0_r.
    rewrite <- sumr_add.
    apply sumr_zero. intros i Hi. apply term_antisym.
    intros ->. apply Hx. exact Hi.
  Qed.

  Theorem przs_zero_sum (ids : list N) : NoDup ids -> sum_shares ids = zero.
  Proof.
    intros Hnd. rewrite sum_shares_sumr.
    rewrite (sumr_ext_in _ (fun i => sumr (term i) (filter (neq i) ids))).
    - apply dsum_zero. exact Hnd.
    - intros i _. apply zero_share_sumr.
  Qed.

  (* ---------- the code-shaped loop over a session context computes zero_share ---------- *)

  Variable sample : seed -> G.

  Lemma ctx_share_loop_spec (pairseed : N -> N -> seed) holder ids seeds acc :
    (forall id, In id ids -> id <> holder ->
                get id seeds = Some (pairseed (N.min holder id) (N.max holder id))) ->
    ctx_share_loop G add neg sample holder ids seeds acc =
    Some (fold_left (fun a j => add a (Przs.term G neg (fun a b => sample (pairseed a b)) holder j))
                    (filter (neq holder) ids) acc).
  Proof.
    revert acc; induction ids as [|id ids IH]; intros acc H; cbn [ctx_share_loop filter fold_left].
    - reflexivity.
    - unfold neq at 1. destruct (id =? holder) eqn:E; cbn [negb].
      + apply IH. intros j Hj. apply H. right. exact Hj.
      + rewrite (H id (or_introl eq_refl)) by lia.
        cbn [fold_left]. apply IH. intros j Hj. apply H. right. exact Hj.
  Qed.

  Theorem ctx_zero_share_spec (pairseed : N -> N -> seed) (c : context) :
    (forall id, In id (cx_quorum c) -> id <> cx_holder c ->
                get id (cx_seeds c) = Some (pairseed (N.min (cx_holder c) id) (N.max (cx_holder c) id))) ->
    ctx_zero_share G zero add neg sample c =
    Some (Przs.zero_share G zero add neg (fun a b => sample (pairseed a b)) (cx_quorum c) (cx_holder c)).
  Proof.
    intros H. unfold ctx_zero_share, Przs.zero_share.
    apply ctx_share_loop_spec. exact H.
  Qed.
End PrzsProofs.

(* the hypotheses are satisfiable by a non-trivial instance: Z_q *)
Lemma zq_instance_laws (q : Z) : (0 < q)%Z ->
  let add := fun a b => ((a + b) mod q)%Z in
  let neg := fun a => ((- a) mod q)%Z in
  forall a b c, (0 <= a < q)%Z ->
    add a (add b c) = add (add a b) c /\ add a b = add b a /\ add 0%Z a = a /\ add a (neg a) = 0%Z.
Proof.
  intros Hq add neg a b c Ha. unfold add, neg. repeat split.
  - rewrite Zplus_mod_idemp_r, Zplus_mod_idemp_l. f_equal. lia.
  - f_equal. lia.
  - cbn. apply Z.mod_small. lia.
  - rewrite Zplus_mod_idemp_r. replace (a + - a)%Z with 0%Z by lia. apply Z.mod_0_l. lia.
Qed.
