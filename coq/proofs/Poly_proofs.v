(* Poly_proofs.v — lemmas about model/Poly.v over an arbitrary field (flaws K):
   Horner = textbook recursion, append/padding, synthetic division (factor theorem),
   root counting (a polynomial with at least as many distinct roots as coefficients is zero,
   coefficient by coefficient), coefficient-list arithmetic (padd, pscale, psub, plin_mul,
   pprod_lin) with their evaluation/length lemmas. *)
From Coq Require Import List Arith Bool Lia Field Ring ZArith.
Import ListNotations.
Require Import V.base.Fld V.model.LinAlg V.model.Poly V.proofs.LinAlg_proofs.

(* ---- specification-side definitions (depend on the operations only) -------------- *)

Section PolyDefs.
Context {F : Type} (K : fops F).

Fixpoint fpow (x : F) (n : nat) : F :=
  match n with O => f1 K | S m => fmul K x (fpow x m) end.

(* Horner (synthetic-division) quotient of p by (X - a); one coefficient shorter than p *)
Fixpoint pquot (p : list F) (a : F) : list F :=
  match p with
  | [] => []
  | _ :: t => match t with [] => [] | _ :: _ => peval_r K t a :: pquot t a end
  end.

Fixpoint padd (p q : list F) : list F :=
  match p, q with
  | [], _ => q
  | _, [] => p
  | a :: p', b :: q' => fadd K a b :: padd p' q'
  end.

Definition pscale (c : F) (p : list F) : list F := map (fun a => fmul K c a) p.
Definition psub (p q : list F) : list F := padd p (pscale (fopp K (f1 K)) q).

(* (X - a) * q *)
Definition plin_mul (a : F) (q : list F) : list F := padd (f0 K :: q) (pscale (fopp K a) q).

(* prod_{a in l} (X - a)  as a coefficient list, and its value prod_{a in l} (x - a) *)
Fixpoint pprod_lin (l : list F) : list F :=
  match l with [] => [f1 K] | a :: t => plin_mul a (pprod_lin t) end.
Fixpoint fprod_sub (x : F) (l : list F) : F :=
  match l with [] => f1 K | a :: t => fmul K (fsub K x a) (fprod_sub x t) end.

Definition all0 (p : list F) : Prop := Forall (fun c => c = f0 K) p.

End PolyDefs.

Section PolyProofs.
Context {F : Type} (K : fops F) (HK : flaws K).

Add Field Kfield_poly : (fl_theory K HK).

Local Notation "0" := (f0 K).
Local Notation "1" := (f1 K).
Local Infix "+" := (fadd K).
Local Infix "*" := (fmul K).
Local Infix "-" := (fsub K).

(* ---- Horner as coded = textbook recursion ------------------------------------------ *)

Lemma peval_r_nil : forall x, peval_r K [] x = 0.
Proof. reflexivity. Qed.

Lemma peval_r_cons : forall c t x, peval_r K (c :: t) x = c + x * peval_r K t x.
Proof. reflexivity. Qed.

Lemma horner_fold : forall x p c,
  fold_left (fun out ci => out * x + ci) (rev p) c = peval_r K (p ++ [c]) x.
Proof.
  intros x p; induction p as [|a t IH]; intros c.
  - cbn [rev fold_left app peval_r]. ring.
  - cbn [rev]. rewrite fold_left_app. cbn [fold_left]. rewrite IH.
    cbn [app peval_r]. ring.
Qed.

Theorem peval_eq_peval_r : forall p x, peval K p x = peval_r K p x.
Proof.
  intros p x. unfold peval. destruct (rev p) as [|c rest] eqn:E.
  - assert (Hp : p = []).
    { rewrite <- (rev_involutive p), E. reflexivity. }
    subst p. reflexivity.
  - assert (Hp : p = rev rest ++ [c]).
    { rewrite <- (rev_involutive p), E. reflexivity. }
    rewrite Hp, <- horner_fold, rev_involutive. reflexivity.
Qed.

(* ---- append, padding -------------------------------------------------------------- *)

Lemma peval_r_app : forall p q x,
  peval_r K (p ++ q) x = peval_r K p x + fpow K x (length p) * peval_r K q x.
Proof.
  induction p as [|a p IH]; intros q x; cbn [app length fpow peval_r].
  - ring.
  - rewrite IH. ring.
Qed.

Lemma peval_r_snoc : forall p c x,
  peval_r K (p ++ [c]) x = peval_r K p x + fpow K x (length p) * c.
Proof. intros. rewrite peval_r_app. cbn [peval_r]. ring. Qed.

Lemma peval_r_repeat0 : forall k x, peval_r K (repeat 0 k) x = 0.
Proof.
  induction k as [|k IH]; intros x; cbn [repeat peval_r]; [reflexivity|].
  rewrite IH. ring.
Qed.

Lemma peval_r_pad : forall p k x, peval_r K (p ++ repeat 0 k) x = peval_r K p x.
Proof. intros. rewrite peval_r_app, peval_r_repeat0. ring. Qed.

Lemma peval_pad : forall p k x, peval K (p ++ repeat 0 k) x = peval K p x.
Proof. intros. rewrite !peval_eq_peval_r. apply peval_r_pad. Qed.

Lemma all0_peval_r : forall p x, all0 K p -> peval_r K p x = 0.
Proof.
  induction p as [|c t IH]; intros x H; [reflexivity|].
  inversion H as [|c' t' Hc Ht]; subst. cbn [peval_r]. rewrite (IH x Ht). ring.
Qed.

Lemma all0_repeat : forall k, all0 K (repeat 0 k).
Proof. induction k; cbn [repeat]; constructor; auto. Qed.

(* ---- synthetic division / factor theorem -------------------------------------------- *)

Lemma pquot_length : forall p a, length (pquot K p a) = pred (length p).
Proof.
  induction p as [|c t IH]; intros a; [reflexivity|].
  destruct t as [|d t']; [reflexivity|].
  change (pquot K (c :: d :: t') a) with (peval_r K (d :: t') a :: pquot K (d :: t') a).
  cbn [length pred]. rewrite IH. reflexivity.
Qed.

Theorem pquot_spec : forall p a x,
  peval_r K p x = (x - a) * peval_r K (pquot K p a) x + peval_r K p a.
Proof.
  induction p as [|c t IH]; intros a x.
  - cbn [pquot peval_r]. ring.
  - destruct t as [|d t'].
    + cbn [pquot peval_r]. ring.
    + change (pquot K (c :: d :: t') a) with (peval_r K (d :: t') a :: pquot K (d :: t') a).
      rewrite (peval_r_cons c (d :: t') x), (peval_r_cons c (d :: t') a).
      rewrite (peval_r_cons (peval_r K (d :: t') a)).
      rewrite (IH a x). ring.
Qed.

Corollary factor_theorem : forall p a, peval_r K p a = 0 ->
  forall x, peval_r K p x = (x - a) * peval_r K (pquot K p a) x.
Proof. intros p a H x. rewrite (pquot_spec p a x), H. ring. Qed.

(* the quotient and the remainder determine the coefficients: both zero -> p zero *)
Lemma pquot_all0 : forall p a, all0 K (pquot K p a) -> peval_r K p a = 0 -> all0 K p.
Proof.
  induction p as [|c t IH]; intros a HQ Hr; [constructor|].
  destruct t as [|d t'].
  - cbn [peval_r] in Hr. constructor; [|constructor].
    rewrite <- Hr. ring.
  - change (pquot K (c :: d :: t') a) with (peval_r K (d :: t') a :: pquot K (d :: t') a) in HQ.
    pose proof (Forall_inv HQ) as Hq0. pose proof (Forall_inv_tail HQ) as HQ'.
    cbv beta in Hq0.
    rewrite (peval_r_cons c (d :: t') a), Hq0 in Hr.
    constructor.
    + rewrite <- Hr. ring.
    + apply (IH a); assumption.
Qed.

Lemma fsub_eq_0 : forall x y, x - y = 0 -> x = y.
Proof. intros x y H. assert (E : x = (x - y) + y) by ring. rewrite E, H. ring. Qed.

(* ---- root counting ----------------------------------------------------------------- *)

(* strong form: every coefficient is zero *)
Theorem poly_roots_all0 : forall (roots : list F) (p : list F),
  NoDup roots -> (length p <= length roots)%nat ->
  (forall r, In r roots -> peval_r K p r = 0) -> all0 K p.
Proof.
  induction roots as [|a rs IH]; intros p Hnd Hlen Hroot.
  - destruct p; [constructor | cbn in Hlen; lia].
  - inversion Hnd as [|a' rs' Hnotin Hnd']; subst.
    assert (Ha : peval_r K p a = 0) by (apply Hroot; left; reflexivity).
    apply (pquot_all0 p a); [|exact Ha].
    apply IH; [exact Hnd'| |].
    + rewrite pquot_length. cbn [length] in Hlen. lia.
    + intros r Hr.
      assert (Hpr : peval_r K p r = 0) by (apply Hroot; right; exact Hr).
      rewrite (factor_theorem p a Ha r) in Hpr.
      destruct (fmul_eq_0 K HK _ _ Hpr) as [E|E]; [|exact E].
      exfalso. apply Hnotin. apply fsub_eq_0 in E. subst a. exact Hr.
Qed.

Theorem poly_roots_zero : forall (roots : list F) (p : list F),
  NoDup roots -> (length p <= length roots)%nat ->
  (forall r, In r roots -> peval_r K p r = 0) -> forall x, peval_r K p x = 0.
Proof.
  intros roots p Hnd Hlen Hroot x. apply all0_peval_r.
  exact (poly_roots_all0 roots p Hnd Hlen Hroot).
Qed.

(* ---- coefficient-list arithmetic ---------------------------------------------------- *)

Lemma padd_nil_r : forall p, padd K p [] = p.
Proof. destruct p; reflexivity. Qed.

Lemma peval_r_padd : forall p q x, peval_r K (padd K p q) x = peval_r K p x + peval_r K q x.
Proof.
  induction p as [|a p IH]; intros q x.
  - cbn [padd peval_r]. ring.
  - destruct q as [|b q].
    + cbn [padd peval_r]. ring.
    + cbn [padd peval_r]. rewrite IH. ring.
Qed.

Lemma padd_length : forall p q, length (padd K p q) = Nat.max (length p) (length q).
Proof.
  induction p as [|a p IH]; intros q.
  - reflexivity.
  - destruct q as [|b q]; [reflexivity|]. cbn [padd length Nat.max]. rewrite IH. reflexivity.
Qed.

Lemma peval_r_pscale : forall c p x, peval_r K (pscale K c p) x = c * peval_r K p x.
Proof.
  induction p as [|a p IH]; intros x; cbn [pscale map peval_r].
  - ring.
  - fold (pscale K c p). rewrite IH. ring.
Qed.

Lemma pscale_length : forall c p, length (pscale K c p) = length p.
Proof. intros. unfold pscale. apply map_length. Qed.

Lemma peval_r_psub : forall p q x, peval_r K (psub K p q) x = peval_r K p x - peval_r K q x.
Proof. intros. unfold psub. rewrite peval_r_padd, peval_r_pscale. ring. Qed.

Lemma psub_length : forall p q, length (psub K p q) = Nat.max (length p) (length q).
Proof. intros. unfold psub. rewrite padd_length, pscale_length. reflexivity. Qed.

Lemma psub_all0_eq : forall p q, length p = length q -> all0 K (psub K p q) -> p = q.
Proof.
  induction p as [|a p IH]; intros [|b q] Hlen H; cbn [length] in Hlen; try lia.
  - reflexivity.
  - unfold psub in H. cbn [pscale map padd] in H. fold (pscale K (fopp K 1) q) in H.
    inversion H as [|c r Hc Hr]; subst. f_equal.
    + apply fsub_eq_0. rewrite <- Hc. ring.
    + apply IH; [lia|exact Hr].
Qed.

(* two coefficient lists of the same length <= #nodes that agree on distinct nodes are equal *)
Theorem poly_agree_eq : forall (nodes p q : list F),
  NoDup nodes -> length p = length q -> (length p <= length nodes)%nat ->
  (forall r, In r nodes -> peval_r K p r = peval_r K q r) -> p = q.
Proof.
  intros nodes p q Hnd Hpq Hlen Hag. apply psub_all0_eq; [exact Hpq|].
  apply (poly_roots_all0 nodes); [exact Hnd| |].
  - rewrite psub_length. lia.
  - intros r Hr. rewrite peval_r_psub, (Hag r Hr). ring.
Qed.

Lemma peval_r_plin_mul : forall a q x, peval_r K (plin_mul K a q) x = (x - a) * peval_r K q x.
Proof.
  intros. unfold plin_mul. rewrite peval_r_padd, peval_r_pscale. cbn [peval_r]. ring.
Qed.

Lemma plin_mul_length : forall a q, length (plin_mul K a q) = S (length q).
Proof. intros. unfold plin_mul. rewrite padd_length, pscale_length. cbn [length]. lia. Qed.

Lemma peval_r_pprod_lin : forall l x, peval_r K (pprod_lin K l) x = fprod_sub K x l.
Proof.
  induction l as [|a t IH]; intros x; cbn [pprod_lin fprod_sub].
  - cbn [peval_r]. ring.
  - rewrite peval_r_plin_mul, IH. reflexivity.
Qed.

Lemma pprod_lin_length : forall l, length (pprod_lin K l) = S (length l).
Proof.
  induction l as [|a t IH]; cbn [pprod_lin length]; [reflexivity|].
  rewrite plin_mul_length, IH. reflexivity.
Qed.

(* in a field a product of (x - a_j) vanishes iff x is one of the a_j *)
Lemma fprod_sub_eq_0_iff : forall x l, fprod_sub K x l = 0 <-> In x l.
Proof.
  intros x; induction l as [|a t IH]; cbn [fprod_sub In].
  - split; [intro H; exfalso; exact (f1_neq_0 K HK H) | tauto].
  - split.
    + intro H. destruct (fmul_eq_0 K HK _ _ H) as [E|E].
      * left. symmetry. apply fsub_eq_0. exact E.
      * right. apply IH. exact E.
    + intros [E|Hin].
      * subst a. ring.
      * apply IH in Hin. rewrite Hin. ring.
Qed.

(* ---- powers (used by Vandermonde rows and phi) ------------------------------------- *)

Lemma peval_r_monomial : forall t x, peval_r K (repeat 0 t ++ [1]) x = fpow K x t.
Proof.
  intros. rewrite peval_r_snoc, peval_r_repeat0, repeat_length. ring.
Qed.

End PolyProofs.

(* ---- Examples (direct computations over Z_101) --------------------------------------------- *)

Example ex_peval_horner : peval (Zp 101) [3;5;7;2]%Z 77%Z = peval_r (Zp 101) [3;5;7;2]%Z 77%Z.
Proof. vm_compute. reflexivity. Qed.

Example ex_pquot :   (* p = (X - 4)(2X^2 + 15X + 67) + p(4) over Z_101 *)
  let K := Zp 101 in let p := [3;5;7;2]%Z in
  length (pquot K p 4%Z) = 3%nat /\
  peval_r K p 77%Z = fadd K (fmul K (fsub K 77 4)%Z (peval_r K (pquot K p 4%Z) 77%Z)) (peval_r K p 4%Z).
Proof. vm_compute. split; reflexivity. Qed.

Example ex_roots_nontrivial :   (* 3 distinct roots, 4 coefficients: non-zero polynomial exists, so the
                                   bound  length p <= length roots  in poly_roots_all0 is tight *)
  let K := Zp 101 in let p := pprod_lin K [4;9;1]%Z in
  length p = 4%nat /\ map (peval_r K p) [4;9;1]%Z = [0;0;0]%Z /\ peval_r K p 2%Z <> 0%Z.
Proof. vm_compute. repeat split; discriminate. Qed.
