(* Poly_proofs.v — lemmas about model/Poly.v over an arbitrary field (flaws K):
   Horner = textbook recursion, append/padding, synthetic division (factor theorem),
   root counting (a polynomial with at least as many distinct roots as coefficients is zero,
   coefficient by coefficient), coefficient-list arithmetic (padd, pscale, psub, plin_mul,
   pprod_lin) with their evaluation/length lemmas. *)
From Coq Require Import List Arith Bool Lia Field Ring ZArith.
Import ListNotations.
Require Import V.base.Fld V.model.LinAlg V.model.Poly V.proofs.LinAlg_proofs.

(* ---- specification-side definitions (depend on the operations only) -------------- *)

Section PolyDefs.
Context {F : Type} (K : fops F).

Fixpoint fpow (x : F) (n : nat) : F :=
  match n with O => f1 K | S m => fmul K x (fpow x m) end.

(* Horner (synthetic-division) quotient of p by (X - a); one coefficient shorter than p *)
Fixpoint pquot (p : list F) (a : F) : list F :=
  match p with
  | [] => []
  | _ :: t => match t with [] => [] | _ :: _ => peval_r K t a :: pquot t a end
  end.

Fixpoint padd (p q : list F) : list F :=
  match p, q with
  | [], _ => q
  | _, [] => p
  | a :: p', b :: q' => fadd K a b :: padd p' q'
  end.

Definition pscale (c : F) (p : list F) : list F := map (fun a => fmul K c a) p.
Definition psub (p q : list F) : list F := padd p (pscale (fopp K (f1 K)) q).

(* (X - a) * q *)
Definition plin_mul (a : F) (q : list F) : list F := padd (f0 K :: q) (pscale (fopp K a) q).

(* prod_{a in l} (X - a)  as a coefficient list, and its value prod_{a in l} (x - a) *)
Fixpoint pprod_lin (l : list F) : list F :=
  match l with [] => [f1 K] | a :: t => plin_mul a (pprod_lin t) end.
Fixpoint fprod_sub (x : F) (l : list F) : F :=
  match l with [] => f1 K | a :: t => fmul K (fsub K x a) (fprod_sub x t) end.

Definition all0 (p : list F) : Prop := Forall (fun c => c = f0 K) p.

(* formal derivative without the degree trimming of the code: c_i -> (i+1) c_{i+1} *)
Definition pderiv_r (p : list F) : list F := mapi (fun i c => fmul_nat K c (S i)) (tl p).

(* same coefficient function (equal up to trailing zeros) *)
Definition coeff_eq (p q : list F) : Prop := forall i, nth i p (f0 K) = nth i q (f0 K).

(* n.1 and the rising product (i+1)(i+2)...(i+j) in the field *)
Definition fnat (n : nat) : F := fmul_nat K (f1 K) n.
Fixpoint frising (i j : nat) : F :=
  match j with O => f1 K | S j' => fmul K (frising i j') (fnat (i + S j')) end.

End PolyDefs.

Section PolyProofs.
Context {F : Type} (K : fops F) (HK : flaws K).

Add Field Kfield_poly : (fl_theory K HK).

Local Notation "0" := (f0 K).
Local Notation "1" := (f1 K).
Local Infix "+" := (fadd K).
Local Infix "*" := (fmul K).
Local Infix "-" := (fsub K).

(* ---- Horner as coded = textbook recursion ------------------------------------------ *)

Lemma peval_r_nil : forall x, peval_r K [] x = 0.
Proof. reflexivity. Qed.

Lemma peval_r_cons : forall c t x, peval_r K (c :: t) x = c + x * peval_r K t x.
Proof. reflexivity. Qed.

Lemma horner_fold : forall x p c,
  fold_left (fun out ci => out * x + ci) (rev p) c = peval_r K (p ++ [c]) x.
Proof.
  intros x p; induction p as [|a t IH]; intros c.
  - cbn [rev fold_left app peval_r]. ring.
  - cbn [rev]. rewrite fold_left_app. cbn [fold_left]. rewrite IH.
    cbn [app peval_r]. ring.
Qed.

Theorem peval_eq_peval_r : forall p x, peval K p x = peval_r K p x.
Proof.
  intros p x. unfold peval. destruct (rev p) as [|c rest] eqn:E.
  - assert (Hp : p = []).
    { rewrite <- (rev_involutive p), E. reflexivity. }
    subst p. reflexivity.
  - assert (Hp : p = rev rest ++ [c]).
    { rewrite <- (rev_involutive p), E. reflexivity. }
    rewrite Hp, <- horner_fold, rev_involutive. reflexivity.
Qed.

(* ---- append, padding -------------------------------------------------------------- *)

Lemma peval_r_app : forall p q x,
  peval_r K (p ++ q) x = peval_r K p x + fpow K x (length p) * peval_r K q x.
Proof.
  induction p as [|a p IH]; intros q x; cbn [app length fpow peval_r].
  - ring.
  - rewrite IH. ring.
Qed.

Lemma peval_r_snoc : forall p c x,
  peval_r K (p ++ [c]) x = peval_r K p x + fpow K x (length p) * c.
Proof. intros. rewrite peval_r_app. cbn [peval_r]. ring. Qed.

Lemma peval_r_repeat0 : forall k x, peval_r K (repeat 0 k) x = 0.
Proof.
  induction k as [|k IH]; intros x; cbn [repeat peval_r]; [reflexivity|].
  rewrite IH. ring.
Qed.

Lemma peval_r_pad : forall p k x, peval_r K (p ++ repeat 0 k) x = peval_r K p x.
Proof. intros. rewrite peval_r_app, peval_r_repeat0. ring. Qed.

Lemma peval_pad : forall p k x, peval K (p ++ repeat 0 k) x = peval K p x.
Proof. intros. rewrite !peval_eq_peval_r. apply peval_r_pad. Qed.

Lemma all0_peval_r : forall p x, all0 K p -> peval_r K p x = 0.
Proof.
  induction p as [|c t IH]; intros x H; [reflexivity|].
  inversion H as [|c' t' Hc Ht]; subst. cbn [peval_r]. rewrite (IH x Ht). ring.
Qed.

Lemma all0_repeat : forall k, all0 K (repeat 0 k).
Proof. induction k; cbn [repeat]; constructor; auto. Qed.

(* ---- synthetic division / factor theorem -------------------------------------------- *)

Lemma pquot_length : forall p a, length (pquot K p a) = pred (length p).
Proof.
  induction p as [|c t IH]; intros a; [reflexivity|].
  destruct t as [|d t']; [reflexivity|].
  change (pquot K (c :: d :: t') a) with (peval_r K (d :: t') a :: pquot K (d :: t') a).
  cbn [length pred]. rewrite IH. reflexivity.
Qed.

Theorem pquot_spec : forall p a x,
  peval_r K p x = (x - a) * peval_r K (pquot K p a) x + peval_r K p a.
Proof.
  induction p as [|c t IH]; intros a x.
  - cbn [pquot peval_r]. ring.
  - destruct t as [|d t'].
    + cbn [pquot peval_r]. ring.
    + change (pquot K (c :: d :: t') a) with (peval_r K (d :: t') a :: pquot K (d :: t') a).
      rewrite (peval_r_cons c (d :: t') x), (peval_r_cons c (d :: t') a).
      rewrite (peval_r_cons (peval_r K (d :: t') a)).
      rewrite (IH a x). ring.
Qed.

Corollary factor_theorem : forall p a, peval_r K p a = 0 ->
  forall x, peval_r K p x = (x - a) * peval_r K (pquot K p a) x.
Proof. intros p a H x. rewrite (pquot_spec p a x), H. ring. Qed.

(* the quotient and the remainder determine the coefficients: both zero -> p zero *)
Lemma pquot_all0 : forall p a, all0 K (pquot K p a) -> peval_r K p a = 0 -> all0 K p.
Proof.
  induction p as [|c t IH]; intros a HQ Hr; [constructor|].
  destruct t as [|d t'].
  - cbn [peval_r] in Hr. constructor; [|constructor].
    rewrite <- Hr. ring.
  - change (pquot K (c :: d :: t') a) with (peval_r K (d :: t') a :: pquot K (d :: t') a) in HQ.
    pose proof (Forall_inv HQ) as Hq0. pose proof (Forall_inv_tail HQ) as HQ'.
    cbv beta in Hq0.
    rewrite (peval_r_cons c (d :: t') a), Hq0 in Hr.
    constructor.
    + rewrite <- Hr. ring.
    + apply (IH a); assumption.
Qed.

Lemma fsub_eq_0 : forall x y, x - y = 0 -> x = y.
Proof. intros x y H. assert (E : x = (x - y) + y) by ring. rewrite E, H. ring. Qed.

(* ---- root counting ----------------------------------------------------------------- *)

(* strong form: every coefficient is zero *)
Theorem poly_roots_all0 : forall (roots : list F) (p : list F),
  NoDup roots -> (length p <= length roots)%nat ->
  (forall r, In r roots -> peval_r K p r = 0) -> all0 K p.
Proof.
  induction roots as [|a rs IH]; intros p Hnd Hlen Hroot.
  - destruct p; [constructor | cbn in Hlen; lia].
  - inversion Hnd as [|a' rs' Hnotin Hnd']; subst.
    assert (Ha : peval_r K p a = 0) by (apply Hroot; left; reflexivity).
    apply (pquot_all0 p a); [|exact Ha].
    apply IH; [exact Hnd'| |].
    + rewrite pquot_length. cbn [length] in Hlen. lia.
    + intros r Hr.
      assert (Hpr : peval_r K p r = 0) by (apply Hroot; right; exact Hr).
      rewrite (factor_theorem p a Ha r) in Hpr.
      destruct (fmul_eq_0 K HK _ _ Hpr) as [E|E]; [|exact E].
      exfalso. apply Hnotin. apply fsub_eq_0 in E. subst a. exact Hr.
Qed.

Theorem poly_roots_zero : forall (roots : list F) (p : list F),
  NoDup roots -> (length p <= length roots)%nat ->
  (forall r, In r roots -> peval_r K p r = 0) -> forall x, peval_r K p x = 0.
Proof.
  intros roots p Hnd Hlen Hroot x. apply all0_peval_r.
  exact (poly_roots_all0 roots p Hnd Hlen Hroot).
Qed.

(* ---- coefficient-list arithmetic ---------------------------------------------------- *)

Lemma padd_nil_r : forall p, padd K p [] = p.
Proof. destruct p; reflexivity. Qed.

Lemma peval_r_padd : forall p q x, peval_r K (padd K p q) x = peval_r K p x + peval_r K q x.
Proof.
  induction p as [|a p IH]; intros q x.
  - cbn [padd peval_r]. ring.
  - destruct q as [|b q].
    + cbn [padd peval_r]. ring.
    + cbn [padd peval_r]. rewrite IH. ring.
Qed.

Lemma padd_length : forall p q, length (padd K p q) = Nat.max (length p) (length q).
Proof.
  induction p as [|a p IH]; intros q.
  - reflexivity.
  - destruct q as [|b q]; [reflexivity|]. cbn [padd length Nat.max]. rewrite IH. reflexivity.
Qed.

Lemma peval_r_pscale : forall c p x, peval_r K (pscale K c p) x = c * peval_r K p x.
Proof.
  induction p as [|a p IH]; intros x; cbn [pscale map peval_r].
  - ring.
  - fold (pscale K c p). rewrite IH. ring.
Qed.

Lemma pscale_length : forall c p, length (pscale K c p) = length p.
Proof. intros. unfold pscale. apply map_length. Qed.

Lemma peval_r_psub : forall p q x, peval_r K (psub K p q) x = peval_r K p x - peval_r K q x.
Proof. intros. unfold psub. rewrite peval_r_padd, peval_r_pscale. ring. Qed.

Lemma psub_length : forall p q, length (psub K p q) = Nat.max (length p) (length q).
Proof. intros. unfold psub. rewrite padd_length, pscale_length. reflexivity. Qed.

Lemma psub_all0_eq : forall p q, length p = length q -> all0 K (psub K p q) -> p = q.
Proof.
  induction p as [|a p IH]; intros [|b q] Hlen H; cbn [length] in Hlen; try lia.
  - reflexivity.
  - unfold psub in H. cbn [pscale map padd] in H. fold (pscale K (fopp K 1) q) in H.
    inversion H as [|c r Hc Hr]; subst. f_equal.
    + apply fsub_eq_0. rewrite <- Hc. ring.
    + apply IH; [lia|exact Hr].
Qed.

(* two coefficient lists of the same length <= #nodes that agree on distinct nodes are equal *)
Theorem poly_agree_eq : forall (nodes p q : list F),
  NoDup nodes -> length p = length q -> (length p <= length nodes)%nat ->
  (forall r, In r nodes -> peval_r K p r = peval_r K q r) -> p = q.
Proof.
  intros nodes p q Hnd Hpq Hlen Hag. apply psub_all0_eq; [exact Hpq|].
  apply (poly_roots_all0 nodes); [exact Hnd| |].
  - rewrite psub_length. lia.
  - intros r Hr. rewrite peval_r_psub, (Hag r Hr). ring.
Qed.

Lemma peval_r_plin_mul : forall a q x, peval_r K (plin_mul K a q) x = (x - a) * peval_r K q x.
Proof.
  intros. unfold plin_mul. rewrite peval_r_padd, peval_r_pscale. cbn [peval_r]. ring.
Qed.

Lemma plin_mul_length : forall a q, length (plin_mul K a q) = S (length q).
Proof. intros. unfold plin_mul. rewrite padd_length, pscale_length. cbn [length]. lia. Qed.

Lemma peval_r_pprod_lin : forall l x, peval_r K (pprod_lin K l) x = fprod_sub K x l.
Proof.
  induction l as [|a t IH]; intros x; cbn [pprod_lin fprod_sub].
  - cbn [peval_r]. ring.
  - rewrite peval_r_plin_mul, IH. reflexivity.
Qed.

Lemma pprod_lin_length : forall l, length (pprod_lin K l) = S (length l).
Proof.
  induction l as [|a t IH]; cbn [pprod_lin length]; [reflexivity|].
  rewrite plin_mul_length, IH. reflexivity.
Qed.

(* in a field a product of (x - a_j) vanishes iff x is one of the a_j *)
Lemma fprod_sub_eq_0_iff : forall x l, fprod_sub K x l = 0 <-> In x l.
Proof.
  intros x; induction l as [|a t IH]; cbn [fprod_sub In].
  - split; [intro H; exfalso; exact (f1_neq_0 K HK H) | tauto].
  - split.
    + intro H. destruct (fmul_eq_0 K HK _ _ H) as [E|E].
      * left. symmetry. apply fsub_eq_0. exact E.
      * right. apply IH. exact E.
    + intros [E|Hin].
      * subst a. ring.
      * apply IH in Hin. rewrite Hin. ring.
Qed.

(* ---- powers (used by Vandermonde rows and phi) ------------------------------------- *)

Lemma peval_r_monomial : forall t x, peval_r K (repeat 0 t ++ [1]) x = fpow K x t.
Proof.
  intros. rewrite peval_r_snoc, peval_r_repeat0, repeat_length. ring.
Qed.

(* ---- coefficient functions, trailing zeros ------------------------------------------- *)

Lemma coeff_all0 : forall q, (forall i, nth i q 0 = 0) -> all0 K q.
Proof.
  induction q as [|d u IH]; intros H; [constructor|].
  constructor; [exact (H O)|]. apply IH. intros i. exact (H (S i)).
Qed.

Lemma all0_nth : forall q i, all0 K q -> nth i q 0 = 0.
Proof.
  induction q as [|d u IH]; intros i H; [destruct i; reflexivity|].
  inversion H as [|d' u' Hd Hu]; subst. destruct i; cbn [nth]; [reflexivity|]. apply IH; exact Hu.
Qed.

Theorem peval_r_coeff_eq : forall p q, coeff_eq K p q -> forall x, peval_r K p x = peval_r K q x.
Proof.
  induction p as [|c t IH]; intros q H x.
  - rewrite (all0_peval_r q x); [reflexivity|].
    apply coeff_all0. intros i. rewrite <- (H i). destruct i; reflexivity.
  - destruct q as [|d u].
    + apply all0_peval_r. apply coeff_all0. intros i. rewrite (H i). destruct i; reflexivity.
    + cbn [peval_r]. pose proof (H O) as H0. cbn [nth] in H0. subst d.
      rewrite (IH u); [reflexivity|]. intros i. exact (H (S i)).
Qed.

Lemma nth_monomial : forall m c i, nth i (repeat 0 m ++ [c]) 0 = if Nat.eqb i m then c else 0.
Proof.
  intros m c i. destruct (Nat.eqb i m) eqn:E.
  - apply Nat.eqb_eq in E. subst i. rewrite app_nth2 by (rewrite repeat_length; lia).
    rewrite repeat_length, Nat.sub_diag. reflexivity.
  - apply Nat.eqb_neq in E. destruct (Nat.lt_ge_cases i m) as [Hlt|Hge].
    + rewrite app_nth1 by (rewrite repeat_length; exact Hlt). apply nth_repeat.
    + apply nth_overflow. rewrite app_length, repeat_length. cbn [length]. lia.
Qed.

Lemma peval_r_monomial_c : forall m c x, peval_r K (repeat 0 m ++ [c]) x = c * fpow K x m.
Proof. intros. rewrite peval_r_snoc, peval_r_repeat0, repeat_length. ring. Qed.

(* ---- Derivative ----------------------------------------------------------------------- *)

Lemma fmul_nat_0 : forall n, fmul_nat K 0 n = 0.
Proof. induction n as [|n IH]; cbn [fmul_nat]; [reflexivity|]. rewrite IH. ring. Qed.

Lemma fmul_nat_fnat : forall c n, fmul_nat K c n = c * fnat K n.
Proof.
  intros c; induction n as [|n IH]; unfold fnat in *; cbn [fmul_nat]; [ring|]. rewrite IH. ring.
Qed.

Lemma ptrim_len_nth0 : forall p i, (ptrim_len K p <= i)%nat -> nth i p 0 = 0.
Proof.
  induction p as [|c t IH]; intros i Hi; [destruct i; reflexivity|].
  cbn [ptrim_len] in Hi. destruct (ptrim_len K t) as [|n] eqn:E.
  - destruct i as [|i]; cbn [nth].
    + destruct (fis0 K c) eqn:Ec; [apply (fis0_true K HK); exact Ec | lia].
    + apply IH. lia.
  - destruct i as [|i]; [lia|]. cbn [nth]. apply IH. lia.
Qed.

Lemma nth_tl : forall (p : list F) i, nth i (tl p) 0 = nth (S i) p 0.
Proof. intros [|c t] i; [destruct i; reflexivity | reflexivity]. Qed.

Lemma nth_firstn_lt' : forall (l : list F) n j, (j < n)%nat -> nth j (firstn n l) 0 = nth j l 0.
Proof.
  induction l as [|h t IH]; intros n j Hj.
  - rewrite firstn_nil. reflexivity.
  - destruct n as [|n]; [lia|]. cbn [firstn]. destruct j as [|j]; cbn [nth]; [reflexivity|].
    apply IH. lia.
Qed.

Lemma nth_mapi_fmul_nat : forall (l : list F) i,
  nth i (mapi (fun i c => fmul_nat K c (S i)) l) 0 = fmul_nat K (nth i l 0) (S i).
Proof.
  intros l i. destruct (Nat.lt_ge_cases i (length l)) as [Hlt|Hge].
  - rewrite (nth_mapi (fun i c => fmul_nat K c (S i)) l i 0 0 Hlt). reflexivity.
  - rewrite nth_overflow by (rewrite mapi_length; exact Hge).
    rewrite (nth_overflow l) by exact Hge. symmetry. apply fmul_nat_0.
Qed.

Lemma pderiv_r_nth : forall p i, nth i (pderiv_r K p) 0 = fmul_nat K (nth (S i) p 0) (S i).
Proof. intros. unfold pderiv_r. rewrite nth_mapi_fmul_nat, nth_tl. reflexivity. Qed.

(* coefficient-level correctness of the coded Derivative (with its Degree-based trimming):
   coefficient i of p' is (i+1) * c_{i+1} *)
Theorem pderiv_nth : forall p i, nth i (pderiv K p) 0 = fmul_nat K (nth (S i) p 0) (S i).
Proof.
  intros p i. unfold pderiv, pdegree.
  destruct (ptrim_len K p) as [|[|d]] eqn:E.
  - rewrite (ptrim_len_nth0 p (S i)) by lia. rewrite fmul_nat_0.
    destruct i as [|[|i]]; reflexivity.
  - rewrite (ptrim_len_nth0 p (S i)) by lia. rewrite fmul_nat_0.
    destruct i as [|[|i]]; reflexivity.
  - rewrite nth_mapi_fmul_nat. destruct (Nat.lt_ge_cases i (S d)) as [Hlt|Hge].
    + rewrite nth_firstn_lt' by exact Hlt. rewrite nth_tl. reflexivity.
    + rewrite (nth_overflow (firstn (S d) (tl p))) by (rewrite firstn_length; lia).
      rewrite (ptrim_len_nth0 p (S i)) by lia. reflexivity.
Qed.

Corollary pderiv_coeff_eq : forall p, coeff_eq K (pderiv K p) (pderiv_r K p).
Proof. intros p i. rewrite pderiv_nth, pderiv_r_nth. reflexivity. Qed.

Corollary pderiv_eval : forall p x, peval K (pderiv K p) x = peval_r K (pderiv_r K p) x.
Proof. intros. rewrite peval_eq_peval_r. apply peval_r_coeff_eq. apply pderiv_coeff_eq. Qed.

Lemma peval_r_mapi_from_S : forall u k x,
  peval_r K (mapi_from (S k) (fun i c => fmul_nat K c (S i)) u) x =
  peval_r K u x + peval_r K (mapi_from k (fun i c => fmul_nat K c (S i)) u) x.
Proof.
  induction u as [|a u IH]; intros k x; cbn [mapi_from peval_r].
  - ring.
  - rewrite IH. cbn [fmul_nat]. ring.
Qed.

(* (c + X t)' = t + X t' *)
Theorem pderiv_r_cons : forall c t x,
  peval_r K (pderiv_r K (c :: t)) x = peval_r K t x + x * peval_r K (pderiv_r K t) x.
Proof.
  intros c t x. unfold pderiv_r, mapi. cbn [tl]. destruct t as [|d u].
  - cbn [mapi_from tl peval_r]. ring.
  - cbn [mapi_from tl peval_r]. rewrite peval_r_mapi_from_S. cbn [fmul_nat]. ring.
Qed.

(* algebraic characterisation: p'(a) is the value at a of the quotient of p(X) - p(a) by X - a *)
Theorem pderiv_r_quot : forall p a, peval_r K (pderiv_r K p) a = peval_r K (pquot K p a) a.
Proof.
  induction p as [|c t IH]; intros a; [reflexivity|].
  rewrite pderiv_r_cons. destruct t as [|d t'].
  - cbn [pquot pderiv_r tl mapi mapi_from peval_r]. ring.
  - change (pquot K (c :: d :: t') a) with (peval_r K (d :: t') a :: pquot K (d :: t') a).
    rewrite (peval_r_cons (peval_r K (d :: t') a)). rewrite (IH a). reflexivity.
Qed.

Theorem pderiv_quot : forall p a, peval K (pderiv K p) a = peval_r K (pquot K p a) a.
Proof. intros. rewrite pderiv_eval. apply pderiv_r_quot. Qed.

(* iterated derivative, coefficient level: coefficient i of p^(j) is (i+1)...(i+j) c_{i+j} *)
Theorem pderiv_iter_nth : forall j p i,
  nth i (pderiv_iter K j p) 0 = nth (i + j) p 0 * frising K i j.
Proof.
  induction j as [|j IH]; intros p i; cbn [pderiv_iter frising].
  - rewrite Nat.add_0_r. ring.
  - rewrite IH, pderiv_nth, fmul_nat_fnat.
    replace (S (i + j)) with (i + S j)%nat by lia. ring.
Qed.

End PolyProofs.

(* ---- Examples (direct computations over Z_101) --------------------------------------------- *)

Example ex_peval_horner : peval (Zp 101) [3;5;7;2]%Z 77%Z = peval_r (Zp 101) [3;5;7;2]%Z 77%Z.
Proof. vm_compute. reflexivity. Qed.

Example ex_pquot :   (* p = (X - 4)(2X^2 + 15X + 67) + p(4) over Z_101 *)
  let K := Zp 101 in let p := [3;5;7;2]%Z in
  length (pquot K p 4%Z) = 3%nat /\
  peval_r K p 77%Z = fadd K (fmul K (fsub K 77 4)%Z (peval_r K (pquot K p 4%Z) 77%Z)) (peval_r K p 4%Z).
Proof. vm_compute. split; reflexivity. Qed.

Example ex_roots_nontrivial :   (* 3 distinct roots, 4 coefficients: non-zero polynomial exists, so the
                                   bound  length p <= length roots  in poly_roots_all0 is tight *)
  let K := Zp 101 in let p := pprod_lin K [4;9;1]%Z in
  length p = 4%nat /\ map (peval_r K p) [4;9;1]%Z = [0;0;0]%Z /\ peval_r K p 2%Z <> 0%Z.
Proof. vm_compute. repeat split; discriminate. Qed.

Example ex_pderiv :
  pderiv (Zp 101) [3;5;7;2]%Z = [5;14;6]%Z /\ pderiv (Zp 101) [3;5;0;0]%Z = [5]%Z /\
  pderiv (Zp 101) [3]%Z = [0]%Z /\
  peval (Zp 101) (pderiv (Zp 101) [3;5;7;2]%Z) 4%Z = peval_r (Zp 101) (pquot (Zp 101) [3;5;7;2]%Z 4%Z) 4%Z.
Proof. vm_compute. repeat split; reflexivity. Qed.
