(* Interp_proofs.v — correctness of model/Interp.v over an arbitrary field (flaws K):
   Lagrange: closed form of the coded basis loop, error iff duplicate node, exact recovery of
   every polynomial of degree < #nodes at every point, commutation with lifting to a module
   ("in the exponent");  Vandermonde: row . coefficients = evaluation, exact recovery of the
   coefficient list (through solve_right soundness/completeness + root counting). *)
From Coq Require Import List Arith Bool Lia Field Ring NArith ZArith.
Import ListNotations.
Require Import V.base.Fld V.model.LinAlg V.model.Poly V.model.Interp.
Require Import V.proofs.LinAlg_proofs V.proofs.Poly_proofs.

(* ---- generic list facts ------------------------------------------------------------- *)

Lemma remove_nth_0 : forall {A} (h : A) t, remove_nth 0 (h :: t) = t.
Proof. reflexivity. Qed.

Lemma remove_nth_S : forall {A} (h : A) t i, remove_nth (S i) (h :: t) = h :: remove_nth i t.
Proof. reflexivity. Qed.

Lemma remove_nth_length : forall {A} (l : list A) i, i < length l ->
  length (remove_nth i l) = pred (length l).
Proof.
  intros A l i Hi. unfold remove_nth. rewrite app_length, firstn_length, skipn_length. lia.
Qed.

Lemma In_remove_nth : forall {A} (l : list A) i k d, k < length l -> k <> i ->
  In (nth k l d) (remove_nth i l).
Proof.
  intros A l; induction l as [|h t IH]; intros i k d Hk Hne; cbn [length] in Hk; [lia|].
  destruct i as [|i].
  - destruct k as [|k]; [lia|]. rewrite remove_nth_0. cbn [nth]. apply nth_In. lia.
  - rewrite remove_nth_S. destruct k as [|k]; cbn [nth].
    + left; reflexivity.
    + right. apply IH; lia.
Qed.

Lemma NoDup_remove_nth : forall {A} (l : list A) d,
  NoDup l <-> (forall i, i < length l -> ~ In (nth i l d) (remove_nth i l)).
Proof.
  intros A l d; induction l as [|h t IH].
  - split; [intros _ i Hi; cbn in Hi; lia | intros _; constructor].
  - split.
    + intros Hnd i Hi. inversion Hnd as [|h' t' Hnotin Hnd']; subst.
      destruct i as [|i].
      * rewrite remove_nth_0. exact Hnotin.
      * rewrite remove_nth_S. cbn [nth length] in *. intros [E|Hin].
        -- apply Hnotin. rewrite E. apply nth_In. lia.
        -- revert Hin. apply (proj1 IH Hnd'). lia.
    + intros H. constructor.
      * specialize (H O). rewrite remove_nth_0 in H. apply H. cbn; lia.
      * apply (proj2 IH). intros i Hi Hin.
        apply (H (S i)); [cbn [length]; lia|].
        rewrite remove_nth_S. cbn [nth]. right. exact Hin.
Qed.

Lemma sequence_opt_map_Some : forall {A} (l : list A), sequence_opt (map Some l) = Some l.
Proof. induction l as [|a l IH]; cbn [map sequence_opt]; [reflexivity|]. now rewrite IH. Qed.

Lemma sequence_opt_Some_inv : forall {A} (l : list (option A)) r,
  sequence_opt l = Some r -> l = map Some r.
Proof.
  induction l as [|a l IH]; intros r H; cbn [sequence_opt] in H.
  - inversion H; reflexivity.
  - destruct a as [a|]; [|discriminate].
    destruct (sequence_opt l) as [r'|] eqn:E; [|discriminate].
    inversion H; subst. cbn [map]. f_equal. apply IH. reflexivity.
Qed.

Lemma nth_map_Some : forall {A} (l : list A) i d, i < length l ->
  nth i (map Some l) None = Some (nth i l d).
Proof.
  intros A l i d Hi. rewrite (nth_indep _ None (Some d)) by (rewrite map_length; exact Hi).
  apply map_nth.
Qed.

(* ---- specification-side definitions -------------------------------------------------- *)

Section InterpDefs.
Context {F : Type} (K : fops F).

(* the list the coded loop "for j { if i == j continue; ... }" runs over, indices from k *)
Fixpoint skip_idx (k i : nat) (l : list F) : list F :=
  match l with
  | [] => []
  | h :: t => if Nat.eqb k i then skip_idx (S k) i t else h :: skip_idx (S k) i t
  end.

(* closed form of BasisAt:  b_i = prod_{j<>i}(at - x_j) / prod_{j<>i}(x_i - x_j) *)
Definition basis_coeffs (xs : list F) (at_ : F) : list F :=
  mapi (fun i xi => fdiv K (fprod_sub K at_ (remove_nth i xs)) (fprod_sub K xi (remove_nth i xs))) xs.

(* the i-th Lagrange basis polynomial as a coefficient list *)
Definition basis_poly (xs : list F) (i : nat) (xi : F) : list F :=
  pscale K (finv K (fprod_sub K xi (remove_nth i xs))) (pprod_lin K (remove_nth i xs)).
Definition basis_polys (xs : list F) : list (list F) := mapi (basis_poly xs) xs.

(* sum_i y_i * l_i as a coefficient list *)
Fixpoint plincomb (ps : list (list F)) (ys : list F) : list F :=
  match ps, ys with
  | l :: ps', y :: ys' => padd K (pscale K y l) (plincomb ps' ys')
  | _, _ => []
  end.

Definition vandermonde_matrix (xs : list F) (cols : nat) : list (list F) :=
  map (fun x => pow_row K x (f1 K) cols) xs.

End InterpDefs.

Section InterpProofs.
Context {F : Type} (K : fops F) (HK : flaws K).

Add Field Kfield_interp : (fl_theory K HK).

Local Notation "0" := (f0 K).
Local Notation "1" := (f1 K).
Local Infix "+" := (fadd K).
Local Infix "*" := (fmul K).
Local Infix "-" := (fsub K).

(* ---- the coded num/den loop in closed form ----------------------------------------- *)

Lemma skip_idx_gt : forall (l : list F) k i, (i < k)%nat -> skip_idx k i l = l.
Proof.
  induction l as [|h t IH]; intros k i Hlt; cbn [skip_idx]; [reflexivity|].
  assert (E : Nat.eqb k i = false) by (apply Nat.eqb_neq; lia).
  rewrite E, IH by lia. reflexivity.
Qed.

Lemma skip_idx_remove_nth : forall (l : list F) k i, (k <= i)%nat -> skip_idx k i l = remove_nth (i - k) l.
Proof.
  induction l as [|h t IH]; intros k i Hle; cbn [skip_idx].
  - unfold remove_nth. rewrite firstn_nil, skipn_nil. reflexivity.
  - destruct (Nat.eqb k i) eqn:E.
    + apply Nat.eqb_eq in E. subst i. rewrite Nat.sub_diag, remove_nth_0.
      apply skip_idx_gt. lia.
    + apply Nat.eqb_neq in E. replace (i - k)%nat with (S (i - S k)) by lia.
      rewrite remove_nth_S, IH by lia. reflexivity.
Qed.

Lemma basis_fold_gen : forall at_ i xi l k n d,
  fold_left (fun nd jx => if Nat.eqb (fst jx) i then nd
                          else (fst nd * (at_ - snd jx), snd nd * (xi - snd jx)))
            (combine (seq k (length l)) l) (n, d)
  = (n * fprod_sub K at_ (skip_idx k i l), d * fprod_sub K xi (skip_idx k i l)).
Proof.
  intros at_ i xi; induction l as [|h t IH]; intros k n d; cbn [length seq combine fold_left skip_idx].
  - cbn [fprod_sub]. f_equal; ring.
  - cbn [fst snd]. destruct (Nat.eqb k i) eqn:E.
    + apply IH.
    + rewrite IH. cbn [fprod_sub]. f_equal; ring.
Qed.

Theorem basis_num_den_eq : forall xs at_ i xi,
  basis_num_den K xs at_ i xi =
  (fprod_sub K at_ (remove_nth i xs), fprod_sub K xi (remove_nth i xs)).
Proof.
  intros. unfold basis_num_den. rewrite basis_fold_gen.
  rewrite skip_idx_remove_nth by lia. rewrite Nat.sub_0_r. f_equal; ring.
Qed.

Lemma basis_term_eq : forall xs at_ i xi,
  basis_term K xs at_ i xi =
  if fis0 K (fprod_sub K xi (remove_nth i xs)) then None
  else Some (fdiv K (fprod_sub K at_ (remove_nth i xs)) (fprod_sub K xi (remove_nth i xs))).
Proof. intros. unfold basis_term. rewrite basis_num_den_eq. reflexivity. Qed.

Lemma basis_term_None_iff : forall xs at_ i xi,
  basis_term K xs at_ i xi = None <-> In xi (remove_nth i xs).
Proof.
  intros. rewrite basis_term_eq.
  destruct (fis0 K (fprod_sub K xi (remove_nth i xs))) eqn:E.
  - apply (fis0_true K HK) in E. apply (fprod_sub_eq_0_iff K HK) in E. tauto.
  - apply (fis0_false K HK) in E. split; [discriminate|].
    intro Hin. exfalso. apply E. apply (fprod_sub_eq_0_iff K HK). exact Hin.
Qed.

(* ---- (a) BasisAt succeeds iff the nodes are pairwise distinct ------------------------ *)

Lemma basis_coeffs_length : forall xs at_, length (basis_coeffs K xs at_) = length xs.
Proof. intros. unfold basis_coeffs. apply mapi_length. Qed.

Theorem basis_at_NoDup : forall xs at_, NoDup xs ->
  basis_at K xs at_ = Some (basis_coeffs K xs at_).
Proof.
  intros xs at_ Hnd. unfold basis_at.
  assert (E : mapi (fun i xi => basis_term K xs at_ i xi) xs = map Some (basis_coeffs K xs at_)).
  { apply (nth_ext_eq _ _ None).
    - rewrite mapi_length, map_length, basis_coeffs_length. reflexivity.
    - intros i Hi. rewrite mapi_length in Hi.
      rewrite (nth_mapi _ xs i 0 None Hi).
      rewrite (nth_map_Some _ i 0) by (rewrite basis_coeffs_length; exact Hi).
      unfold basis_coeffs. rewrite (nth_mapi _ xs i 0 0 Hi).
      rewrite basis_term_eq.
      destruct (fis0 K (fprod_sub K (nth i xs 0) (remove_nth i xs))) eqn:E0; [|reflexivity].
      exfalso. apply (fis0_true K HK) in E0. apply (fprod_sub_eq_0_iff K HK) in E0.
      revert E0. apply (proj1 (NoDup_remove_nth xs 0) Hnd). exact Hi. }
  rewrite E. apply sequence_opt_map_Some.
Qed.

Theorem basis_at_Some_NoDup : forall xs at_ bs, basis_at K xs at_ = Some bs -> NoDup xs.
Proof.
  intros xs at_ bs H. unfold basis_at in H. apply sequence_opt_Some_inv in H.
  apply (proj2 (NoDup_remove_nth xs 0)). intros i Hi Hin.
  apply (basis_term_None_iff xs at_) in Hin.
  assert (Hlen : length bs = length xs).
  { rewrite <- (map_length Some bs), <- H, mapi_length. reflexivity. }
  assert (E : nth i (mapi (fun i xi => basis_term K xs at_ i xi) xs) None = Some (nth i bs 0)).
  { rewrite H. apply nth_map_Some. lia. }
  rewrite (nth_mapi _ xs i 0 None Hi) in E. congruence.
Qed.

Theorem basis_at_none_iff_dup : forall xs at_, basis_at K xs at_ = None <-> ~ NoDup xs.
Proof.
  intros xs at_. split.
  - intros H Hnd. rewrite (basis_at_NoDup xs at_ Hnd) in H. discriminate.
  - intros Hdup. destruct (basis_at K xs at_) as [bs|] eqn:E; [|reflexivity].
    exfalso. apply Hdup. exact (basis_at_Some_NoDup xs at_ bs E).
Qed.

Corollary basis_at_NoDup_ex : forall xs at_, NoDup xs ->
  exists bs, basis_at K xs at_ = Some bs /\ length bs = length xs.
Proof.
  intros xs at_ Hnd. exists (basis_coeffs K xs at_). split.
  - apply basis_at_NoDup; exact Hnd.
  - apply basis_coeffs_length.
Qed.

Theorem lagrange_dup_error : forall xs ys at_, length ys = length xs -> ~ NoDup xs ->
  lagrange_interpolate_at K xs ys at_ = Err ErrDiv.
Proof.
  intros xs ys at_ Hlen Hdup. unfold lagrange_interpolate_at.
  rewrite Hlen, Nat.eqb_refl. cbn [negb].
  rewrite (proj2 (basis_at_none_iff_dup xs at_) Hdup). reflexivity.
Qed.

Theorem lagrange_length_error : forall xs ys at_, length ys <> length xs ->
  lagrange_interpolate_at K xs ys at_ = Err ErrLength.
Proof.
  intros xs ys at_ Hlen. unfold lagrange_interpolate_at.
  assert (E : Nat.eqb (length xs) (length ys) = false) by (apply Nat.eqb_neq; lia).
  rewrite E. reflexivity.
Qed.

Theorem lagrange_ok_eq : forall xs ys at_, length ys = length xs -> NoDup xs ->
  lagrange_interpolate_at K xs ys at_ = Ok (dot K (basis_coeffs K xs at_) ys).
Proof.
  intros xs ys at_ Hlen Hnd. unfold lagrange_interpolate_at.
  rewrite Hlen, Nat.eqb_refl. cbn [negb]. rewrite (basis_at_NoDup xs at_ Hnd). reflexivity.
Qed.

(* ---- (b) the basis at the nodes: Kronecker delta -------------------------------------- *)

Lemma basis_coeffs_nth : forall xs at_ i, (i < length xs)%nat ->
  nth i (basis_coeffs K xs at_) 0 =
  fdiv K (fprod_sub K at_ (remove_nth i xs)) (fprod_sub K (nth i xs 0) (remove_nth i xs)).
Proof. intros xs at_ i Hi. unfold basis_coeffs. rewrite (nth_mapi _ xs i 0 0 Hi). reflexivity. Qed.

Lemma basis_den_nonzero : forall xs i, NoDup xs -> (i < length xs)%nat ->
  fprod_sub K (nth i xs 0) (remove_nth i xs) <> 0.
Proof.
  intros xs i Hnd Hi E. apply (fprod_sub_eq_0_iff K HK) in E.
  revert E. apply (proj1 (NoDup_remove_nth xs 0) Hnd). exact Hi.
Qed.

Lemma basis_coeffs_delta : forall xs k j, NoDup xs -> (k < length xs)%nat -> (j < length xs)%nat ->
  nth j (basis_coeffs K xs (nth k xs 0)) 0 = if Nat.eqb j k then 1 else 0.
Proof.
  intros xs k j Hnd Hk Hj. rewrite basis_coeffs_nth by exact Hj.
  pose proof (basis_den_nonzero xs j Hnd Hj) as Hden.
  destruct (Nat.eqb j k) eqn:E.
  - apply Nat.eqb_eq in E. subst j. field. exact Hden.
  - apply Nat.eqb_neq in E.
    assert (Hz : fprod_sub K (nth k xs 0) (remove_nth j xs) = 0).
    { apply (fprod_sub_eq_0_iff K HK). apply In_remove_nth; [exact Hk|intro E'; apply E; symmetry; exact E']. }
    rewrite Hz. field. exact Hden.
Qed.

Lemma nth_map_peval_r : forall p xs k, (k < length xs)%nat ->
  nth k (map (peval_r K p) xs) 0 = peval_r K p (nth k xs 0).
Proof.
  intros p xs k Hk.
  rewrite (nth_indep _ 0 (peval_r K p 0)) by (rewrite map_length; exact Hk).
  apply map_nth.
Qed.

(* at a node the coded interpolation returns the value given for that node (any values) *)
Lemma dot_basis_at_node : forall xs ys k, NoDup xs -> (k < length xs)%nat ->
  dot K (basis_coeffs K xs (nth k xs 0)) ys = nth k ys 0.
Proof.
  intros xs ys k Hnd Hk. rewrite (dot_single K HK _ _ k).
  - rewrite (basis_coeffs_delta xs k k Hnd Hk Hk), Nat.eqb_refl. ring.
  - intros j Hj. destruct (Nat.lt_ge_cases j (length xs)) as [Hlt|Hge].
    + rewrite (basis_coeffs_delta xs k j Hnd Hk Hlt).
      apply Nat.eqb_neq in Hj. rewrite Hj. ring.
    + rewrite (nth_overflow (basis_coeffs K xs (nth k xs 0))) by (rewrite basis_coeffs_length; lia).
      ring.
Qed.

Theorem lagrange_at_node : forall xs ys k, length ys = length xs -> NoDup xs -> (k < length xs)%nat ->
  lagrange_interpolate_at K xs ys (nth k xs 0) = Ok (nth k ys 0).
Proof.
  intros xs ys k Hlen Hnd Hk. rewrite (lagrange_ok_eq xs ys _ Hlen Hnd).
  rewrite (dot_basis_at_node xs ys k Hnd Hk). reflexivity.
Qed.

(* ---- (b) the interpolant as a coefficient list ---------------------------------------- *)

Lemma peval_r_plincomb : forall ps ys x,
  peval_r K (plincomb K ps ys) x = dot K (map (fun l => peval_r K l x) ps) ys.
Proof.
  induction ps as [|l ps IH]; intros ys x.
  - cbn [plincomb map]. rewrite (dot_nil_l K). reflexivity.
  - destruct ys as [|y ys].
    + cbn [plincomb]. rewrite (dot_nil_r K). reflexivity.
    + cbn [plincomb map]. rewrite (dot_cons K HK).
      rewrite (peval_r_padd K HK), (peval_r_pscale K HK), IH. ring.
Qed.

Lemma plincomb_length : forall n ps ys, (forall l, In l ps -> (length l <= n)%nat) ->
  (length (plincomb K ps ys) <= n)%nat.
Proof.
  intros n; induction ps as [|l ps IH]; intros ys H.
  - cbn [plincomb length]. lia.
  - destruct ys as [|y ys]; cbn [plincomb]; [cbn [length]; lia|].
    rewrite padd_length, pscale_length. apply Nat.max_lub.
    + apply H. left; reflexivity.
    + apply IH. intros l' Hl'. apply H. right; exact Hl'.
Qed.

Lemma basis_polys_length : forall xs, length (basis_polys K xs) = length xs.
Proof. intros. unfold basis_polys. apply mapi_length. Qed.

Lemma basis_polys_deg : forall xs l, In l (basis_polys K xs) -> (length l <= length xs)%nat.
Proof.
  intros xs l Hin. destruct (In_nth _ _ [] Hin) as [i [Hi E]].
  rewrite basis_polys_length in Hi. unfold basis_polys in E.
  rewrite (nth_mapi _ xs i 0 [] Hi) in E. subst l.
  unfold basis_poly. rewrite pscale_length, pprod_lin_length, remove_nth_length by exact Hi. lia.
Qed.

Lemma basis_polys_eval : forall xs x,
  map (fun l => peval_r K l x) (basis_polys K xs) = basis_coeffs K xs x.
Proof.
  intros xs x. apply (nth_ext_eq _ _ 0).
  - rewrite map_length, basis_polys_length, basis_coeffs_length. reflexivity.
  - intros i Hi. rewrite map_length, basis_polys_length in Hi.
    rewrite (basis_coeffs_nth xs x i Hi).
    replace (nth i (map (fun l => peval_r K l x) (basis_polys K xs)) 0)
      with (peval_r K (nth i (basis_polys K xs) []) x)
      by (symmetry; apply (map_nth (fun l => peval_r K l x) (basis_polys K xs) [] i)).
    unfold basis_polys. rewrite (nth_mapi _ xs i 0 [] Hi). unfold basis_poly.
    rewrite (peval_r_pscale K HK), (peval_r_pprod_lin K HK), (fdiv_def K HK). ring.
Qed.

(* the coded value, as a function of the evaluation point, is a polynomial of length <= n *)
Lemma lagrange_poly : forall xs ys x,
  peval_r K (plincomb K (basis_polys K xs) ys) x = dot K (basis_coeffs K xs x) ys.
Proof. intros. rewrite peval_r_plincomb, basis_polys_eval. reflexivity. Qed.

Theorem lagrange_dot_exact : forall xs p at_, NoDup xs -> (length p <= length xs)%nat ->
  dot K (basis_coeffs K xs at_) (map (peval_r K p) xs) = peval_r K p at_.
Proof.
  intros xs p at_ Hnd Hlen.
  set (ys := map (peval_r K p) xs).
  set (L := plincomb K (basis_polys K xs) ys).
  rewrite <- (lagrange_poly xs ys at_). fold L.
  apply (fsub_eq_0 K HK). rewrite <- (peval_r_psub K HK).
  apply (poly_roots_zero K HK xs); [exact Hnd| |].
  - rewrite psub_length. apply Nat.max_lub; [|exact Hlen].
    apply plincomb_length. apply basis_polys_deg.
  - intros r Hr. destruct (In_nth _ _ 0 Hr) as [k [Hk E]]. subst r.
    rewrite (peval_r_psub K HK). unfold L. rewrite lagrange_poly.
    rewrite (dot_basis_at_node xs ys k Hnd Hk). unfold ys.
    rewrite (nth_map_peval_r p xs k Hk). ring.
Qed.

Theorem lagrange_interp : forall xs p at_, NoDup xs -> (length p <= length xs)%nat ->
  lagrange_interpolate_at K xs (map (peval K p) xs) at_ = Ok (peval K p at_).
Proof.
  intros xs p at_ Hnd Hlen.
  rewrite (lagrange_ok_eq xs _ at_ (map_length _ _) Hnd).
  rewrite (map_ext (peval K p) (peval_r K p)) by (intro; apply (peval_eq_peval_r K HK)).
  rewrite (lagrange_dot_exact xs p at_ Hnd Hlen), (peval_eq_peval_r K HK). reflexivity.
Qed.

(* ---- (c) in the exponent --------------------------------------------------------------- *)

Section Exponent.
Context {G : Type} (Mo : mops G F) (HM : mlaws K Mo).

Lemma gdot_fold_acc : forall (l : list (F * G)) acc,
  fold_left (fun acc ax => gadd Mo acc (gsmul Mo (snd ax) (fst ax))) l acc =
  gadd Mo acc (fold_left (fun acc ax => gadd Mo acc (gsmul Mo (snd ax) (fst ax))) l (g0 Mo)).
Proof.
  induction l as [|h t IH]; intros acc; cbn [fold_left].
  - rewrite (ml_add_comm K Mo HM), (ml_add_0_l K Mo HM). reflexivity.
  - rewrite IH. rewrite (IH (gadd Mo (g0 Mo) _)).
    rewrite (ml_add_0_l K Mo HM), (ml_add_assoc K Mo HM). reflexivity.
Qed.

Lemma gdot_nil_l : forall Ys, gdot Mo [] Ys = g0 Mo.
Proof. reflexivity. Qed.

Lemma gdot_nil_r : forall bs, gdot Mo bs [] = g0 Mo.
Proof. intros [|b bs]; reflexivity. Qed.

Lemma gdot_cons : forall b bs Y Ys,
  gdot Mo (b :: bs) (Y :: Ys) = gadd Mo (gsmul Mo Y b) (gdot Mo bs Ys).
Proof.
  intros. unfold gdot. cbn [combine fold_left fst snd]. rewrite gdot_fold_acc.
  rewrite (ml_add_0_l K Mo HM). reflexivity.
Qed.

Theorem gdot_lift : forall g bs ys,
  gdot Mo bs (lift_vec Mo ys g) = gsmul Mo g (dot K bs ys).
Proof.
  intros g; induction bs as [|b bs IH]; intros ys.
  - rewrite gdot_nil_l, (dot_nil_l K). symmetry. apply (ml_smul_0 K Mo HM).
  - destruct ys as [|y ys].
    + cbn [lift_vec map]. rewrite gdot_nil_r, (dot_nil_r K). symmetry. apply (ml_smul_0 K Mo HM).
    + cbn [lift_vec map]. fold (lift_vec Mo ys g). rewrite gdot_cons, IH, (dot_cons K HK).
      rewrite (ml_smul_add_r K Mo HM), (ml_smul_mul K Mo HM).
      replace (y * b) with (b * y) by ring. reflexivity.
Qed.

Theorem lagrange_interp_in_exponent : forall xs ys g at_,
  lagrange_interpolate_in_exponent_at K Mo xs (map (fun y => gsmul Mo g y) ys) at_ =
  match lagrange_interpolate_at K xs ys at_ with Ok v => Ok (gsmul Mo g v) | Err e => Err e end.
Proof.
  intros xs ys g at_. unfold lagrange_interpolate_in_exponent_at, lagrange_interpolate_at.
  rewrite map_length. destruct (negb (Nat.eqb (length xs) (length ys))); [reflexivity|].
  destruct (basis_at K xs at_) as [bs|]; [|reflexivity].
  f_equal. apply (gdot_lift g bs ys).
Qed.

Theorem lagrange_interp_exponent_correct : forall xs p g at_,
  NoDup xs -> (length p <= length xs)%nat ->
  lagrange_interpolate_in_exponent_at K Mo xs
    (map (fun y => gsmul Mo g y) (map (peval K p) xs)) at_ = Ok (gsmul Mo g (peval K p at_)).
Proof.
  intros xs p g at_ Hnd Hlen.
  rewrite lagrange_interp_in_exponent, (lagrange_interp xs p at_ Hnd Hlen). reflexivity.
Qed.

End Exponent.

(* ---- (d) Vandermonde ------------------------------------------------------------------- *)

Lemma pow_row_length : forall x acc c, length (pow_row K x acc c) = c.
Proof. intros x acc c; revert acc; induction c as [|c IH]; intros acc; cbn [pow_row length]; auto. Qed.

Lemma dot_pow_row : forall c x acc co, length co = c ->
  dot K (pow_row K x acc c) co = acc * peval_r K co x.
Proof.
  induction c as [|c IH]; intros x acc co Hlen.
  - destruct co; [|discriminate]. cbn [pow_row peval_r]. rewrite (dot_nil_l K). ring.
  - destruct co as [|a co]; [discriminate|]. cbn [pow_row peval_r].
    rewrite (dot_cons K HK), IH by (cbn [length] in Hlen; lia). ring.
Qed.

Lemma pow_row_nth : forall c x acc j, (j < c)%nat -> nth j (pow_row K x acc c) 0 = acc * fpow K x j.
Proof.
  induction c as [|c IH]; intros x acc j Hj; [lia|].
  cbn [pow_row]. destruct j as [|j]; cbn [nth fpow].
  - ring.
  - rewrite IH by lia. ring.
Qed.

Lemma vandermonde_wf : forall xs c, wf_matrix (length xs) c (vandermonde_matrix K xs c).
Proof.
  intros xs c. unfold wf_matrix, vandermonde_matrix. split.
  - apply map_length.
  - apply Forall_forall. intros r Hr. apply in_map_iff in Hr. destruct Hr as [x [E _]].
    subst r. apply pow_row_length.
Qed.

Lemma build_vandermonde_eq : forall xs c, xs <> [] -> (0 < c)%nat ->
  build_vandermonde K xs c = Ok (vandermonde_matrix K xs c).
Proof.
  intros xs c Hxs Hc. destruct xs as [|x t]; [congruence|].
  destruct c as [|c]; [lia|]. reflexivity.
Qed.

(* row . coefficients = evaluation *)
Theorem vandermonde_mvec : forall xs co,
  mvec K (vandermonde_matrix K xs (length co)) co = map (peval_r K co) xs.
Proof.
  intros xs co. unfold mvec, vandermonde_matrix. rewrite map_map.
  apply map_ext. intros x. rewrite (dot_pow_row (length co) x 1 co eq_refl). ring.
Qed.

Lemma vandermonde_interpolate_eq : forall xs ys, xs <> [] -> length ys = length xs ->
  vandermonde_interpolate K xs ys =
  match solve_right K (vandermonde_matrix K xs (length xs)) ys with
  | None => Err ErrSingular
  | Some c => Ok c
  end.
Proof.
  intros xs ys Hxs Hlen. unfold vandermonde_interpolate.
  rewrite Hlen, Nat.eqb_refl. cbn [negb].
  assert (Hn : (0 < length xs)%nat) by (destruct xs; [congruence | cbn [length]; lia]).
  rewrite (build_vandermonde_eq xs (length xs) Hxs Hn).
  destruct xs; [congruence|reflexivity].
Qed.

Theorem vandermonde_interp : forall xs p, xs <> [] -> NoDup xs -> (length p <= length xs)%nat ->
  vandermonde_interpolate K xs (map (peval K p) xs) = Ok (p ++ repeat 0 (length xs - length p)).
Proof.
  intros xs p Hxs Hnd Hlen.
  rewrite (vandermonde_interpolate_eq xs _ Hxs (map_length _ _)).
  remember (length xs) as n eqn:En.
  assert (Hn : (0 < n)%nat) by (subst n; destruct xs; [congruence | cbn [length]; lia]).
  remember (p ++ repeat 0 (n - length p)) as pp eqn:Epp.
  assert (Hpp : length pp = n) by (subst pp; rewrite app_length, repeat_length; lia).
  remember (vandermonde_matrix K xs n) as V eqn:EV.
  assert (HV : wf_matrix n n V) by (subst V n; apply vandermonde_wf).
  remember (map (peval K p) xs) as b eqn:Eb.
  assert (Hb : length b = n) by (subst b n; apply map_length).
  assert (Hbpp : mvec K V pp = b).
  { subst V. rewrite <- Hpp. rewrite vandermonde_mvec. subst b pp.
    apply map_ext. intros x. rewrite (peval_r_pad K HK), (peval_eq_peval_r K HK). reflexivity. }
  destruct (solve_right K V b) as [c|] eqn:Es.
  - destruct (solve_right_sound K HK n n V b c HV Hn Hn Hb Es) as [Hc Hmv].
    f_equal. apply (poly_agree_eq K HK xs); [exact Hnd| lia | lia |].
    intros r Hr.
    assert (E : map (peval_r K c) xs = map (peval_r K pp) xs).
    { rewrite <- (vandermonde_mvec xs c), <- (vandermonde_mvec xs pp), Hc, Hpp.
      rewrite <- EV, Hmv, Hbpp. reflexivity. }
    destruct (In_nth _ _ 0 Hr) as [k [Hk Ek]]. subst r.
    rewrite <- (nth_map_peval_r c xs k Hk), <- (nth_map_peval_r pp xs k Hk), E. reflexivity.
  - exfalso. exact (solve_right_complete K HK n n V b pp HV Hn Hn Hb Hpp Hbpp Es).
Qed.

(* distinct nodes: the Vandermonde system is always solvable (never ErrSingular), for arbitrary
   values; the witness is the Lagrange interpolant *)
Theorem vandermonde_total : forall xs ys, xs <> [] -> NoDup xs -> length ys = length xs ->
  exists c, vandermonde_interpolate K xs ys = Ok c /\ length c = length xs /\
            map (peval K c) xs = ys.
Proof.
  intros xs ys Hxs Hnd Hlen.
  rewrite (vandermonde_interpolate_eq xs ys Hxs Hlen).
  remember (length xs) as n eqn:En.
  assert (Hn : (0 < n)%nat) by (subst n; destruct xs; [congruence | cbn [length]; lia]).
  set (L := plincomb K (basis_polys K xs) ys).
  assert (HL : (length L <= n)%nat).
  { subst n. apply plincomb_length. apply basis_polys_deg. }
  remember (L ++ repeat 0 (n - length L)) as pp eqn:Epp.
  assert (Hpp : length pp = n) by (subst pp; rewrite app_length, repeat_length; lia).
  remember (vandermonde_matrix K xs n) as V eqn:EV.
  assert (HV : wf_matrix n n V) by (subst V n; apply vandermonde_wf).
  assert (Hbpp : mvec K V pp = ys).
  { subst V. rewrite <- Hpp. rewrite vandermonde_mvec.
    apply (nth_ext_eq _ _ 0).
    - rewrite map_length. lia.
    - intros k Hk. rewrite map_length in Hk.
      rewrite (nth_map_peval_r pp xs k Hk). subst pp.
      rewrite (peval_r_pad K HK). unfold L. rewrite lagrange_poly.
      apply (dot_basis_at_node xs ys k Hnd Hk). }
  destruct (solve_right K V ys) as [c|] eqn:Es.
  - destruct (solve_right_sound K HK n n V ys c HV Hn Hn Hlen Es) as [Hc Hmv].
    exists c. split; [reflexivity|]. split; [exact Hc|].
    rewrite (map_ext (peval K c) (peval_r K c)) by (intro; apply (peval_eq_peval_r K HK)).
    rewrite <- (vandermonde_mvec xs c), Hc, <- EV. exact Hmv.
  - exfalso. exact (solve_right_complete K HK n n V ys pp HV Hn Hn Hlen Hpp Hbpp Es).
Qed.

(* the two interpolation routines agree: evaluating the Vandermonde coefficients at any point
   gives the Lagrange value *)
Theorem vandermonde_lagrange_agree : forall xs ys c at_, xs <> [] -> NoDup xs -> length ys = length xs ->
  vandermonde_interpolate K xs ys = Ok c ->
  lagrange_interpolate_at K xs ys at_ = Ok (peval K c at_).
Proof.
  intros xs ys c at_ Hxs Hnd Hlen Hv.
  destruct (vandermonde_total xs ys Hxs Hnd Hlen) as [c' [Hv' [Hc' Hev]]].
  rewrite Hv in Hv'. inversion Hv'; subst c'.
  rewrite <- Hev at 1. apply lagrange_interp; [exact Hnd|lia].
Qed.

(* ---- (e) Birkhoff: Phi(t, x, j) = (t-j+1)...(t) * x^(t-j), zero when j > t ------------------ *)

Theorem phi_eval : forall t x j, (N.to_nat j <= t)%nat ->
  phi K t x j = frising K (t - N.to_nat j) (N.to_nat j) * fpow K x (t - N.to_nat j).
Proof.
  intros t x j Hj. unfold phi.
  assert (E : N.ltb (N.of_nat t) j = false) by (apply N.ltb_ge; lia).
  rewrite E. rewrite (peval_eq_peval_r K HK).
  rewrite <- (peval_r_monomial_c K HK).
  apply (peval_r_coeff_eq K HK). intros i.
  rewrite (pderiv_iter_nth K HK), !(nth_monomial K).
  destruct (Nat.eqb i (t - N.to_nat j)) eqn:E1.
  - apply Nat.eqb_eq in E1. subst i.
    replace (t - N.to_nat j + N.to_nat j)%nat with t by lia. rewrite Nat.eqb_refl. ring.
  - apply Nat.eqb_neq in E1.
    assert (E2 : Nat.eqb (i + N.to_nat j) t = false) by (apply Nat.eqb_neq; lia).
    rewrite E2. ring.
Qed.

Theorem phi_gt : forall t x j, (t < N.to_nat j)%nat -> phi K t x j = 0.
Proof.
  intros t x j Hj. unfold phi.
  assert (E : N.ltb (N.of_nat t) j = true) by (apply N.ltb_lt; lia).
  rewrite E. reflexivity.
Qed.

Corollary phi_0 : forall t x, phi K t x 0%N = fpow K x t.
Proof.
  intros t x. rewrite phi_eval by (cbn; lia). cbn [N.to_nat frising]. rewrite Nat.sub_0_r. ring.
Qed.

(* row of the Birkhoff matrix for a plain evaluation constraint (j = 0) is the Vandermonde row *)
Lemma birkhoff_row_0 : forall x cols,
  map (fun c => phi K c x 0%N) (seq 0 cols) = pow_row K x 1 cols.
Proof.
  intros x cols. apply (nth_ext_eq _ _ 0).
  - rewrite map_length, seq_length, pow_row_length. reflexivity.
  - intros i Hi. rewrite map_length, seq_length in Hi.
    rewrite (nth_indep _ 0 (phi K 0%nat x 0%N)) by (rewrite map_length, seq_length; exact Hi).
    rewrite (map_nth (fun c => phi K c x 0%N) (seq 0 cols) 0%nat i).
    rewrite seq_nth by exact Hi. cbn [Nat.add]. rewrite phi_0, pow_row_nth by exact Hi. ring.
Qed.

End InterpProofs.

(* ---- Examples: the hypotheses are satisfiable (direct computations over Z_101) ----------- *)

Example ex_nodup_nodes : NoDup [4; 9; 1; 50]%Z.
Proof. repeat constructor; cbn [In]; intros H; repeat destruct H as [H|H]; try discriminate H; exact H. Qed.

Example ex_lagrange_cubic :
  lagrange_interpolate_at (Zp 101) [4;9;1;50]%Z (map (peval (Zp 101) [3;5;7;2]%Z) [4;9;1;50]%Z) 77%Z
  = Ok (peval (Zp 101) [3;5;7;2]%Z 77%Z).
Proof. vm_compute. reflexivity. Qed.

Example ex_lagrange_lowdeg :     (* degree 1 through 4 nodes *)
  lagrange_interpolate_at (Zp 101) [4;9;1;50]%Z (map (peval (Zp 101) [3;5]%Z) [4;9;1;50]%Z) 0%Z
  = Ok 3%Z.
Proof. vm_compute. reflexivity. Qed.

Example ex_lagrange_dup :
  lagrange_interpolate_at (Zp 101) [4;9;4;50]%Z [1;2;3;4]%Z 77%Z = Err ErrDiv.
Proof. vm_compute. reflexivity. Qed.

Example ex_lagrange_length :
  lagrange_interpolate_at (Zp 101) [4;9;1;50]%Z [1;2;3]%Z 77%Z = Err ErrLength.
Proof. vm_compute. reflexivity. Qed.

Example ex_lagrange_exponent :   (* the field acting on itself as the module, g = 5 *)
  lagrange_interpolate_in_exponent_at (Zp 101) (self_module (Zp 101)) [4;9;1;50]%Z
    (map (fun y => gsmul (self_module (Zp 101)) 5%Z y) (map (peval (Zp 101) [3;5;7;2]%Z) [4;9;1;50]%Z)) 77%Z
  = Ok (gsmul (self_module (Zp 101)) 5%Z (peval (Zp 101) [3;5;7;2]%Z 77%Z)).
Proof. vm_compute. reflexivity. Qed.

Example ex_vandermonde_cubic :
  vandermonde_interpolate (Zp 101) [4;9;1;50]%Z (map (peval (Zp 101) [3;5;7;2]%Z) [4;9;1;50]%Z)
  = Ok [3;5;7;2]%Z.
Proof. vm_compute. reflexivity. Qed.

Example ex_vandermonde_pad :     (* lower degree: recovered coefficients are zero-padded *)
  vandermonde_interpolate (Zp 101) [4;9;1;50]%Z (map (peval (Zp 101) [3;5]%Z) [4;9;1;50]%Z)
  = Ok ([3;5] ++ repeat 0 2)%Z.
Proof. vm_compute. reflexivity. Qed.

Example ex_basis_coeffs_closed_form :
  basis_at (Zp 101) [4;9;1;50]%Z 77%Z = Some (basis_coeffs (Zp 101) [4;9;1;50]%Z 77%Z).
Proof. vm_compute. reflexivity. Qed.

Example ex_phi : phi (Zp 101) 5 3%Z 2%N = 35%Z /\ phi (Zp 101) 2 3%Z 3%N = 0%Z /\ phi (Zp 101) 4 3%Z 0%N = 81%Z.
Proof. vm_compute. repeat split; reflexivity. Qed.
