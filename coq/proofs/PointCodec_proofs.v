(* PointCodec_proofs.v — lemmas about model/PointCodec.v (property C13).
   Part 1: byte strings, modular arithmetic, soundness of the decoders (every accepted
           string denotes a point of the curve / of the subgroup; wrong lengths and flag
           bytes are refused; field decoders reduce) — no number theory needed, the
           decoders re-check  s^2 = v  resp. the curve equation.
   Part 2: square roots (Tonelli–Shanks as coded) are complete for prime p — from Fermat's
           little theorem (mc/NtFacts.v, MathComp) — and the round-trip theorems. *)
From Coq Require Import ZArith Znumtheory Zpow_facts List Bool Lia Setoid Morphisms.
From Coq Require Import ZifyBool.
Require Import V.base.Fld V.base.ZpField V.model.CurveParams V.model.Curve V.gen.CodecConsts V.model.PointCodec.
Import ListNotations.
Local Open Scope Z_scope.

(* ---- byte strings ----------------------------------------------------------------------- *)

Lemma le_enc_length k n : length (le_enc k n) = k.
Proof. revert n; induction k as [|k IH]; intros n; cbn [le_enc length]; [reflexivity|]. now rewrite IH. Qed.

Lemma be_enc_length k n : length (be_enc k n) = k.
Proof. unfold be_enc. now rewrite rev_length, le_enc_length. Qed.

Lemma pow256_S k : 256 ^ Z.of_nat (S k) = 256 * 256 ^ Z.of_nat k.
Proof. rewrite Nat2Z.inj_succ, Z.pow_succ_r by lia. reflexivity. Qed.

Lemma pow256_pos k : 0 < 256 ^ Z.of_nat k.
Proof. apply Z.pow_pos_nonneg; lia. Qed.

Lemma le_val_le_enc_mod k n : le_val (le_enc k n) = n mod 256 ^ Z.of_nat k.
Proof.
  revert n; induction k as [|k IH]; intros n.
  - cbn [le_enc le_val]. change (256 ^ Z.of_nat 0) with 1. now rewrite Z.mod_1_r.
  - cbn [le_enc le_val]. rewrite IH, pow256_S.
    rewrite Z.rem_mul_r by (pose proof (pow256_pos k); lia). reflexivity.
Qed.

Lemma le_val_le_enc k n : 0 <= n < 256 ^ Z.of_nat k -> le_val (le_enc k n) = n.
Proof. intros H. rewrite le_val_le_enc_mod. now apply Z.mod_small. Qed.

Lemma be_val_be_enc k n : 0 <= n < 256 ^ Z.of_nat k -> be_val (be_enc k n) = n.
Proof. intros H. unfold be_val, be_enc. rewrite rev_involutive. now apply le_val_le_enc. Qed.

Lemma le_enc_inj k n m :
  0 <= n < 256 ^ Z.of_nat k -> 0 <= m < 256 ^ Z.of_nat k -> le_enc k n = le_enc k m -> n = m.
Proof. intros Hn Hm H. apply (f_equal le_val) in H. now rewrite !le_val_le_enc in H. Qed.

Lemma be_enc_inj k n m :
  0 <= n < 256 ^ Z.of_nat k -> 0 <= m < 256 ^ Z.of_nat k -> be_enc k n = be_enc k m -> n = m.
Proof. intros Hn Hm H. apply (f_equal be_val) in H. now rewrite !be_val_be_enc in H. Qed.

Lemma le_val_zeros k : le_val (zeros k) = 0.
Proof. induction k as [|k IH]; cbn [zeros repeat le_val]; [reflexivity|]. unfold zeros in IH. rewrite IH. reflexivity. Qed.

Lemma zeros_length k : length (zeros k) = k.
Proof. apply repeat_length. Qed.

Lemma rev_zeros k : rev (zeros k) = zeros k.
Proof.
  unfold zeros. induction k as [|k IH]; [reflexivity|].
  cbn [repeat rev]. rewrite IH. clear IH.
  induction k as [|k IH]; [reflexivity|]. cbn [repeat app]. now rewrite IH.
Qed.

Lemma be_val_zeros k : be_val (zeros k) = 0.
Proof. unfold be_val. now rewrite rev_zeros, le_val_zeros. Qed.

Lemma le_val_app a b : le_val (a ++ b) = le_val a + 256 ^ Z.of_nat (length a) * le_val b.
Proof.
  induction a as [|x a IH]; cbn [app le_val length].
  - change (256 ^ Z.of_nat 0) with 1. lia.
  - rewrite IH, pow256_S. ring.
Qed.

Lemma firstn_app_len {A} (a b : list A) n : length a = n -> firstn n (a ++ b) = a.
Proof. intros <-. rewrite firstn_app, Nat.sub_diag, firstn_all. cbn. apply app_nil_r. Qed.

Lemma skipn_app_len {A} (a b : list A) n : length a = n -> skipn n (a ++ b) = b.
Proof. intros <-. rewrite skipn_app, Nat.sub_diag, skipn_all. reflexivity. Qed.

(* ---- modular arithmetic ------------------------------------------------------------------- *)

(* congruence modulo p as a setoid: [zmod] proves  L mod p = R mod p  when L and R agree as
   polynomials after deleting every inner "mod p" *)
Definition eqm (p a b : Z) := a mod p = b mod p.
#[global] Instance eqm_equiv p : Equivalence (eqm p).
Proof. unfold eqm. split; [intros x; reflexivity | intros x y H; symmetry; exact H | intros x y z H1 H2; congruence]. Qed.
#[global] Instance add_eqm p : Proper (eqm p ==> eqm p ==> eqm p) Z.add.
Proof. unfold eqm. intros a b H c d H'. rewrite (Zplus_mod a c), (Zplus_mod b d), H, H'. reflexivity. Qed.
#[global] Instance sub_eqm p : Proper (eqm p ==> eqm p ==> eqm p) Z.sub.
Proof. unfold eqm. intros a b H c d H'. rewrite (Zminus_mod a c), (Zminus_mod b d), H, H'. reflexivity. Qed.
#[global] Instance mul_eqm p : Proper (eqm p ==> eqm p ==> eqm p) Z.mul.
Proof. unfold eqm. intros a b H c d H'. rewrite (Zmult_mod a c), (Zmult_mod b d), H, H'. reflexivity. Qed.
#[global] Instance opp_eqm p : Proper (eqm p ==> eqm p) Z.opp.
Proof. intros a b H. change (eqm p (0 - a) (0 - b)). rewrite H. reflexivity. Qed.
Lemma mod_eqm p a : eqm p (a mod p) a.
Proof. unfold eqm. apply Zmod_mod. Qed.
#[global] Typeclasses Opaque eqm.

Ltac zmod :=
  match goal with |- ?L mod ?p = ?R mod ?p =>
    change (eqm p L R);
    let Hq := fresh "Hq" in
    pose proof (mod_eqm p) as Hq; try (rewrite_strat (repeat (outermost Hq))); clear Hq
  end;
  unfold eqm; f_equal; ring.

Ltac unfold_m := cbv beta delta [w_rhs addm subm mulm negm] in *.

Lemma neg_sq p y : mulm p (negm p y) (negm p y) = mulm p y y.
Proof. unfold_m. zmod. Qed.

Lemma negm_range p y : 0 < p -> 0 <= negm p y < p.
Proof. intros. unfold negm. apply Z.mod_pos_bound. lia. Qed.

(* the code's  (x^2 + a) x + b  is the curve polynomial of Curve.on_curve *)
Lemma w_set_affine_on_curve c x y P :
  w_set_affine c x y = Some P -> P = Some (x, y) /\ w_on_curve (wc c) P = true.
Proof.
  unfold w_set_affine. destruct (mulm (wc_p c) y y =? wc_rhs c x) eqn:E; [|discriminate].
  intros [= <-]. split; [reflexivity|].
  apply Z.eqb_eq in E. unfold w_on_curve, on_curve. cbn [Zp feqb fmul fadd].
  apply Z.eqb_eq. unfold wc_rhs, wc_p in E. unfold_m. rewrite E. zmod.
Qed.

Lemma ts_sqrt_sound p e g rou v s : ts_sqrt p e g rou v = Some s -> mulm p s s = v mod p.
Proof.
  unfold ts_sqrt. cbv zeta.
  match goal with |- (if ?b then _ else _) = _ -> _ => destruct b eqn:E end; [|discriminate].
  intros [= <-]. now apply Z.eqb_eq in E.
Qed.

Lemma w_rhs_mod p a b x : (w_rhs p a b x) mod p = w_rhs p a b x.
Proof. unfold w_rhs, addm. apply Zmod_mod. Qed.

Lemma w_from_x_on_curve c x sign P :
  w_from_x c x sign = Some P -> exists y, P = Some (x, y) /\ w_on_curve (wc c) P = true.
Proof.
  unfold w_from_x. destruct (wc_sqrt c (wc_rhs c x)) as [y|] eqn:E; [|discriminate].
  intros [= <-]. unfold wc_sqrt in E. apply ts_sqrt_sound in E.
  unfold wc_rhs in E. rewrite w_rhs_mod in E.
  eexists; split; [reflexivity|].
  assert (H : mulm (wc_p c) (if y mod 2 =? sign then y else negm (wc_p c) y)
                   (if y mod 2 =? sign then y else negm (wc_p c) y) = mulm (wc_p c) y y).
  { destruct (y mod 2 =? sign); [reflexivity|apply neg_sq]. }
  unfold w_on_curve, on_curve. cbn [Zp feqb fmul fadd]. apply Z.eqb_eq.
  unfold wc_p in *. unfold mulm in H at 1. rewrite H, E. unfold_m. zmod.
Qed.

(* ---- soundness of the short-Weierstrass decoders ------------------------------------------- *)

Theorem sec1_dec_c_on_curve c bs P :
  sec1_dec_c c bs = Some P -> w_on_curve (wc c) P = true.
Proof.
  unfold sec1_dec_c. destruct (negb (Nat.eqb (length bs) (S (wc_len c)))); [discriminate|].
  destruct bs as [|tag xb]; [discriminate|].
  destruct (negb ((tag =? 2) || (tag =? 3))); [discriminate|].
  destruct (be_val xb mod wc_p c =? 0).
  - intros [= <-]. reflexivity.
  - intros H. apply w_from_x_on_curve in H. destruct H as [y [_ H]]. exact H.
Qed.

Theorem sec1_dec_u_on_curve c bs P :
  sec1_dec_u c bs = Some P -> w_on_curve (wc c) P = true.
Proof.
  unfold sec1_dec_u. destruct (negb (Nat.eqb (length bs) (S (2 * wc_len c)))); [discriminate|].
  destruct bs as [|tag r]; [discriminate|].
  destruct (negb (tag =? 4)); [discriminate|].
  match goal with |- (if ?b then _ else _) = _ -> _ => destruct b end.
  - intros [= <-]. reflexivity.
  - intros H. apply w_set_affine_on_curve in H. tauto.
Qed.

Theorem pasta_dec_c_on_curve c bs P :
  pasta_dec_c c bs = Some P -> w_on_curve (wc c) P = true.
Proof.
  unfold pasta_dec_c. destruct (negb (Nat.eqb (length bs) (wc_len c))); [discriminate|]. cbv zeta.
  match goal with |- (if ?b then _ else _) = _ -> _ => destruct b end.
  - intros [= <-]. reflexivity.
  - intros H. apply w_from_x_on_curve in H. destruct H as [y [_ H]]. exact H.
Qed.

Theorem pasta_dec_u_on_curve c bs P :
  pasta_dec_u c bs = Some P -> w_on_curve (wc c) P = true.
Proof.
  unfold pasta_dec_u. destruct (negb (Nat.eqb (length bs) (2 * wc_len c))); [discriminate|]. cbv zeta.
  match goal with |- (if ?b then _ else _) = _ -> _ => destruct b end.
  - intros [= <-]. reflexivity.
  - intros H. apply w_set_affine_on_curve in H. tauto.
Qed.

Definition w_in_subgroup (c : wcodec) (P : wpt) : Prop := w_mul (wc c) (wp_n (wc c)) P = None.

Lemma w_torsion_free_spec c P : w_torsion_free c P = true <-> w_in_subgroup c P.
Proof.
  unfold w_torsion_free, w_in_subgroup. destruct (w_mul (wc c) (wp_n (wc c)) P); split; congruence.
Qed.

Lemma iter_op_inf (K : fops Z) a q : Pos.iter_op (waff_add K a) q None = None.
Proof.
  induction q as [q IH|q IH|]; cbn [Pos.iter_op waff_add]; auto.
Qed.

Lemma w_mul_inf c k : w_mul c k None = None.
Proof.
  unfold w_mul, waff_mul. destruct k as [|q|q]; [reflexivity| |]; rewrite iter_op_inf; reflexivity.
Qed.

Theorem blsg1_dec_c_valid c bs P :
  blsg1_dec_c c bs = Some P -> w_on_curve (wc c) P = true /\ w_in_subgroup c P.
Proof.
  unfold blsg1_dec_c. destruct (negb (Nat.eqb (length bs) (wc_len c))); [discriminate|].
  destruct bs as [|b0 r]; [discriminate|].
  destruct (negb (flagC b0 =? 1)); [discriminate|].
  destruct (flagI b0 =? 1).
  - destruct (flagS b0 =? 1); [discriminate|].
    destruct ((b0 mod 32 =? 0) && all_zero r); [|discriminate].
    intros [= <-]. split; [reflexivity|apply w_mul_inf].
  - set (x := be_val (b0 mod 32 :: r) mod wc_p c).
    destruct (wc_sqrt c (wc_rhs c x)) as [y|] eqn:E; [|discriminate].
    match goal with |- (if w_torsion_free c ?Q then _ else _) = _ -> _ =>
      destruct (w_torsion_free c Q) eqn:T; [|discriminate] end.
    intros [= <-]. split; [|now apply w_torsion_free_spec].
    unfold wc_sqrt in E. apply ts_sqrt_sound in E. unfold wc_rhs in E. rewrite w_rhs_mod in E.
    match goal with |- w_on_curve _ (Some (x, ?y')) = true =>
      assert (H : mulm (wc_p c) y' y' = mulm (wc_p c) y y)
        by (destruct (xorb _ _); [apply neg_sq|reflexivity]) end.
    unfold w_on_curve, on_curve. cbn [Zp feqb fmul fadd]. apply Z.eqb_eq.
    unfold wc_p in *. unfold mulm in H at 1. rewrite H, E. unfold_m. zmod.
Qed.

Theorem blsg1_dec_u_valid c bs P :
  blsg1_dec_u c bs = Some P -> w_on_curve (wc c) P = true /\ w_in_subgroup c P.
Proof.
  unfold blsg1_dec_u. destruct (negb (Nat.eqb (length bs) (2 * wc_len c))); [discriminate|].
  destruct bs as [|b0 r]; [discriminate|].
  destruct (flagC b0 =? 1); [discriminate|]. destruct (flagS b0 =? 1); [discriminate|].
  destruct (flagI b0 =? 1).
  - destruct ((b0 mod 32 =? 0) && all_zero r); [|discriminate].
    intros [= <-]. split; [reflexivity|apply w_mul_inf].
  - cbv zeta. match goal with |- match ?e with _ => _ end = _ -> _ => destruct e as [Q|] eqn:E end; [|discriminate].
    destruct (w_torsion_free c Q) eqn:T; [|discriminate].
    intros [= <-]. apply w_set_affine_on_curve in E. split; [tauto|now apply w_torsion_free_spec].
Qed.

Theorem blsg1_from_affine_valid c x y P :
  blsg1_from_affine c x y = Some P -> P = Some (x, y) /\ w_on_curve (wc c) P = true /\ w_in_subgroup c P.
Proof.
  unfold blsg1_from_affine. destruct (w_set_affine c x y) as [Q|] eqn:E; [|discriminate].
  destruct (w_torsion_free c Q) eqn:T; [|discriminate].
  intros [= <-]. apply w_set_affine_on_curve in E. repeat split; try tauto. now apply w_torsion_free_spec.
Qed.

(* ---- twisted Edwards decoders --------------------------------------------------------------- *)

Lemma eqm_shift p A B C D : eqm p C D -> A - B = C - D -> eqm p A B.
Proof.
  intros H E. replace A with (B + (C - D)) by lia. rewrite H.
  unfold eqm. f_equal. ring.
Qed.

Lemma one_mod p : 1 < p -> 1 mod p = 1.
Proof. intros. apply Z.mod_small. lia. Qed.

Lemma e_set_affine_on_curve c x y P :
  e_set_affine c x y = Some P -> P = (x, y) /\ e_on_curve (ec c) P = true.
Proof.
  unfold e_set_affine. cbv zeta.
  match goal with |- (if ?b then _ else _) = _ -> _ => destruct b eqn:E end; [|discriminate].
  intros [= <-]. split; [reflexivity|]. apply Z.eqb_eq in E.
  unfold e_on_curve, eaff_on_curve. cbn [Zp feqb fmul fadd f1]. apply Z.eqb_eq.
  unfold ec_p in E. unfold_m. rewrite E. zmod.
Qed.

Lemma e_from_y_on_curve c y P :
  prime (ec_p c) -> e_from_y c y = Some P -> snd P = y /\ e_on_curve (ec c) P = true.
Proof.
  intros Hp. pose proof (prime_ge_2 _ Hp) as Hp2.
  unfold e_from_y. cbv zeta.
  set (p := ec_p c) in *. set (a := ep_a (ec c)). set (d := ep_d (ec c)).
  set (den := subm p a (mulm p d (mulm p y y))).
  destruct (den =? 0) eqn:Ed; [discriminate|]. apply Z.eqb_neq in Ed.
  destruct (ts_sqrt p (ec_e c) (ec_g c) (ec_rou c) _) as [x|] eqn:Es; [|discriminate].
  intros [= <-]. split; [reflexivity|].
  apply ts_sqrt_sound in Es.
  assert (Hden : 0 < den < p).
  { assert (0 <= den < p) by (unfold den, subm; apply Z.mod_pos_bound; lia). lia. }
  pose proof (zp_inv_correct p den Hp Hden) as Hi.
  assert (Hs : eqm p (x * x) ((1 - y * y) * zp_inv p den)).
  { unfold eqm. unfold_m. rewrite Es. zmod. }
  assert (Hd : eqm p den (a - d * (y * y))).
  { unfold eqm, den. unfold_m. zmod. }
  assert (Hi' : eqm p (den * zp_inv p den) 1).
  { unfold eqm. rewrite Hi. symmetry. apply one_mod. lia. }
  assert (K : eqm p (x * x * (a - d * (y * y))) (1 - y * y)).
  { rewrite <- Hd, Hs.
    replace ((1 - y * y) * zp_inv p den * den) with ((1 - y * y) * (den * zp_inv p den)) by ring.
    rewrite Hi'. unfold eqm. f_equal. ring. }
  unfold e_on_curve, eaff_on_curve. cbn [Zp feqb fmul fadd f1]. apply Z.eqb_eq.
  change (ep_p (ec c)) with p.
  match goal with |- ?L mod _ = ?R mod _ => change (eqm p L R) end.
  pose proof (mod_eqm p) as Hq. rewrite_strat (repeat (outermost Hq)). clear Hq.
  subst a d. apply (eqm_shift p _ _ _ _ K). ring.
Qed.

Definition e_in_subgroup (c : ecodec) (P : ept) : Prop :=
  e_mul (ec c) (ep_n (ec c)) P = (0, 1 mod ec_p c).

Lemma e_torsion_free_spec c P : e_torsion_free c P = true <-> e_in_subgroup c P.
Proof.
  unfold e_torsion_free, e_in_subgroup. destruct (e_mul (ec c) (ep_n (ec c)) P) as [x y].
  rewrite andb_true_iff, !Z.eqb_eq. split; [intros [-> ->]; reflexivity|intros [= -> ->]; auto].
Qed.

Lemma e_sub_spec c r P : e_sub c r = Some P -> r = Some P /\ e_in_subgroup c P.
Proof.
  unfold e_sub. destruct r as [Q|]; [|discriminate].
  destruct (e_torsion_free c Q) eqn:T; [|discriminate].
  intros [= <-]. split; [reflexivity|now apply e_torsion_free_spec].
Qed.

Theorem ed_dec_c_on_curve c bs P :
  prime (ec_p c) -> ed_dec_c c bs = Some P -> e_on_curve (ec c) P = true.
Proof.
  intros Hp. unfold ed_dec_c. destruct (negb (Nat.eqb (length bs) (ec_len c))); [discriminate|]. cbv zeta.
  destruct (e_from_y c _) as [[x y]|] eqn:E; [|discriminate].
  intros [= <-]. apply (e_from_y_on_curve c _ _ Hp) in E. destruct E as [_ E].
  destruct (x mod 2 =? _); [exact E|].
  revert E. unfold e_on_curve, eaff_on_curve. cbn [Zp feqb fmul fadd f1].
  rewrite !Z.eqb_eq. intros E. unfold negm.
  etransitivity; [|etransitivity; [exact E|]]; zmod.
Qed.

Theorem ed_dec_u_on_curve c bs P :
  ed_dec_u c bs = Some P -> e_on_curve (ec c) P = true.
Proof.
  unfold ed_dec_u. destruct (negb (Nat.eqb (length bs) (2 * ec_len c))); [discriminate|].
  destruct (e_fp_set_bytes c (skipn _ bs)) as [x|]; [|discriminate].
  destruct (e_fp_set_bytes c (firstn _ bs)) as [y|]; [|discriminate].
  intros H. apply e_set_affine_on_curve in H. tauto.
Qed.

Theorem edp_dec_c_valid c bs P :
  prime (ec_p c) -> edp_dec_c c bs = Some P -> e_on_curve (ec c) P = true /\ e_in_subgroup c P.
Proof.
  intros Hp H. apply e_sub_spec in H. destruct H as [H S]. split; [|exact S].
  now apply (ed_dec_c_on_curve c bs).
Qed.

Theorem edp_dec_u_valid c bs P :
  edp_dec_u c bs = Some P -> e_on_curve (ec c) P = true /\ e_in_subgroup c P.
Proof.
  intros H. apply e_sub_spec in H. destruct H as [H S]. split; [|exact S].
  now apply (ed_dec_u_on_curve c bs).
Qed.

Lemma e_identity_on_curve c : e_on_curve (ec c) (0, 1 mod ec_p c) = true.
Proof.
  unfold e_on_curve, eaff_on_curve. cbn [Zp feqb fmul fadd f1]. apply Z.eqb_eq. zmod.
Qed.

(* curve25519: every accepted u-coordinate denotes a point of the Edwards form of the curve *)
Theorem x_dec_c_on_curve c bs P :
  prime (ec_p c) -> x_dec_c c bs = Some P -> e_on_curve (ec c) P = true.
Proof.
  intros Hp. unfold x_dec_c. destruct (negb (Nat.eqb (length bs) (ec_len c))); [discriminate|].
  destruct (all_zero bs).
  - intros [= <-]. apply e_identity_on_curve.
  - destruct (e_fp_set_bytes c bs) as [u|]; [|discriminate]. cbv zeta.
    destruct (addm (ec_p c) u (1 mod ec_p c) =? 0); [discriminate|].
    intros H. apply (e_from_y_on_curve c _ _ Hp) in H. tauto.
Qed.

(* ---- wrong length / wrong flag bytes are refused ---------------------------------------------- *)

Theorem sec1_wrong_length c bs :
  (length bs <> S (wc_len c) -> sec1_dec_c c bs = None) /\
  (length bs <> S (2 * wc_len c) -> sec1_dec_u c bs = None).
Proof.
  split; intros H; [unfold sec1_dec_c|unfold sec1_dec_u];
    match goal with |- (if negb ?b then _ else _) = _ => destruct b eqn:E end; try reflexivity;
    apply Nat.eqb_eq in E; contradiction.
Qed.

Theorem sec1_wrong_tag c tag r :
  (tag <> 2 -> tag <> 3 -> sec1_dec_c c (tag :: r) = None) /\
  (tag <> 4 -> sec1_dec_u c (tag :: r) = None).
Proof.
  split.
  - intros H2 H3. unfold sec1_dec_c. destruct (negb _); [reflexivity|].
    apply Z.eqb_neq in H2, H3. rewrite H2, H3. reflexivity.
  - intros H4. unfold sec1_dec_u. destruct (negb (Nat.eqb _ _)); [reflexivity|].
    apply Z.eqb_neq in H4. rewrite H4. reflexivity.
Qed.

Theorem pasta_wrong_length c bs :
  (length bs <> wc_len c -> pasta_dec_c c bs = None) /\
  (length bs <> (2 * wc_len c)%nat -> pasta_dec_u c bs = None).
Proof.
  split; intros H; [unfold pasta_dec_c|unfold pasta_dec_u];
    match goal with |- (if negb ?b then _ else _) = _ => destruct b eqn:E end; try reflexivity;
    apply Nat.eqb_eq in E; contradiction.
Qed.

Theorem blsg1_wrong_length c bs :
  (length bs <> wc_len c -> blsg1_dec_c c bs = None) /\
  (length bs <> (2 * wc_len c)%nat -> blsg1_dec_u c bs = None).
Proof.
  split; intros H; [unfold blsg1_dec_c|unfold blsg1_dec_u];
    match goal with |- (if negb ?b then _ else _) = _ => destruct b eqn:E end; try reflexivity;
    apply Nat.eqb_eq in E; contradiction.
Qed.

(* compressed BLS: the compression flag is required; infinity admits no sort flag and no payload *)
Theorem blsg1_wrong_flags c b0 r :
  (flagC b0 <> 1 -> blsg1_dec_c c (b0 :: r) = None) /\
  (flagI b0 = 1 -> flagS b0 = 1 -> blsg1_dec_c c (b0 :: r) = None) /\
  (flagI b0 = 1 -> (b0 mod 32 <> 0 \/ all_zero r = false) -> blsg1_dec_c c (b0 :: r) = None).
Proof.
  repeat split.
  - intros H. unfold blsg1_dec_c. destruct (negb (Nat.eqb _ _)); [reflexivity|].
    apply Z.eqb_neq in H. rewrite H. reflexivity.
  - intros HI HS. unfold blsg1_dec_c. destruct (negb (Nat.eqb _ _)); [reflexivity|].
    destruct (negb (flagC b0 =? 1)); [reflexivity|]. rewrite HI, HS. reflexivity.
  - intros HI H. unfold blsg1_dec_c. destruct (negb (Nat.eqb _ _)); [reflexivity|].
    destruct (negb (flagC b0 =? 1)); [reflexivity|]. rewrite HI. cbn [Z.eqb Pos.eqb].
    destruct (flagS b0 =? 1); [reflexivity|].
    destruct H as [H|H]; [apply Z.eqb_neq in H; rewrite H|rewrite H, andb_false_r]; reflexivity.
Qed.

(* uncompressed BLS: no compression flag, no sort flag; infinity admits no payload *)
Theorem blsg1_wrong_flags_u c b0 r :
  (flagC b0 = 1 -> blsg1_dec_u c (b0 :: r) = None) /\
  (flagS b0 = 1 -> blsg1_dec_u c (b0 :: r) = None) /\
  (flagI b0 = 1 -> (b0 mod 32 <> 0 \/ all_zero r = false) -> blsg1_dec_u c (b0 :: r) = None).
Proof.
  repeat split.
  - intros H. unfold blsg1_dec_u. destruct (negb (Nat.eqb _ _)); [reflexivity|]. rewrite H. reflexivity.
  - intros H. unfold blsg1_dec_u. destruct (negb (Nat.eqb _ _)); [reflexivity|].
    destruct (flagC b0 =? 1); [reflexivity|]. rewrite H. reflexivity.
  - intros HI H. unfold blsg1_dec_u. destruct (negb (Nat.eqb _ _)); [reflexivity|].
    destruct (flagC b0 =? 1); [reflexivity|]. destruct (flagS b0 =? 1); [reflexivity|].
    rewrite HI. cbn [Z.eqb Pos.eqb].
    destruct H as [H|H]; [apply Z.eqb_neq in H; rewrite H|rewrite H, andb_false_r]; reflexivity.
Qed.

(* FromAffineX (with the subgroup test on the root before the sign is chosen): the result is on
   the curve; that negation preserves membership is part of C14's group laws, not shown here *)
Theorem blsg1_from_affine_x_on_curve c x odd P :
  blsg1_from_affine_x c x odd = Some P -> w_on_curve (wc c) P = true.
Proof.
  unfold blsg1_from_affine_x. destruct (wc_sqrt c (wc_rhs c x)) as [y|] eqn:E; [|discriminate].
  destruct (w_torsion_free c (Some (x, y))) eqn:T; [|discriminate].
  intros [= <-].
  unfold wc_sqrt in E. apply ts_sqrt_sound in E. unfold wc_rhs in E. rewrite w_rhs_mod in E.
  match goal with |- w_on_curve _ (Some (x, ?y')) = true =>
    assert (H : mulm (wc_p c) y' y' = mulm (wc_p c) y y)
      by (destruct (_ =? _); [reflexivity|apply neg_sq]) end.
  unfold w_on_curve, on_curve. cbn [Zp feqb fmul fadd]. apply Z.eqb_eq.
  unfold wc_p in *. unfold mulm in H at 1. rewrite H, E. unfold_m. zmod.
Qed.

Theorem ed_wrong_length c bs :
  (length bs <> ec_len c -> ed_dec_c c bs = None) /\
  (length bs <> (2 * ec_len c)%nat -> ed_dec_u c bs = None) /\
  (length bs <> ec_len c -> x_dec_c c bs = None).
Proof.
  repeat split; intros H; [unfold ed_dec_c|unfold ed_dec_u|unfold x_dec_c];
    match goal with |- (if negb ?b then _ else _) = _ => destruct b eqn:E end; try reflexivity;
    apply Nat.eqb_eq in E; contradiction.
Qed.

(* ---- scalars / field elements: accepted bytes denote their value modulo the order -------------- *)

Theorem fld_from_bytes_reduces q len bs v :
  fld_from_bytes q len bs = Some v -> length bs = len /\ v = be_val bs mod q.
Proof.
  unfold fld_from_bytes. destruct (Nat.eqb (length bs) len) eqn:E; [|discriminate].
  intros [= <-]. apply Nat.eqb_eq in E. auto.
Qed.

Lemma some_inj {A} (a b : A) : Some a = Some b -> a = b.
Proof. congruence. Qed.

Lemma firstn_skipn_val len l :
  le_val l = le_val (firstn len l) + 256 ^ Z.of_nat (length (firstn len l)) * le_val (skipn len l).
Proof. rewrite <- le_val_app, firstn_skipn. reflexivity. Qed.

Lemma le_val_pad l k : le_val (l ++ zeros k) = le_val l.
Proof. rewrite le_val_app, le_val_zeros. lia. Qed.

Theorem fld_from_wide_reduces q len bs v :
  fld_from_wide q len bs = Some v -> (length bs <= 2 * len)%nat /\ v = be_val bs mod q.
Proof.
  cbv beta delta [fld_from_wide]. destruct (Nat.leb (length bs) (2 * len)) eqn:E; [|discriminate].
  apply Nat.leb_le in E. cbv zeta. intros H. apply some_inj in H. subst v. split; [exact E|].
  set (le := rev bs ++ zeros (2 * len - length bs)).
  assert (Hl : length le = (2 * len)%nat).
  { unfold le. rewrite app_length, rev_length, zeros_length. lia. }
  assert (Hv : be_val bs = le_val le) by (unfold be_val, le; now rewrite le_val_pad).
  rewrite Hv, (firstn_skipn_val len le), firstn_length, Hl.
  replace (Nat.min len (2 * len)) with len by lia.
  replace (2 ^ (8 * Z.of_nat len)) with (256 ^ Z.of_nat len)
    by (rewrite Z.pow_mul_r by lia; reflexivity).
  unfold_m. zmod.
Qed.

Theorem fld25519_from_bytes_reduces p bs v :
  fld25519_from_bytes p bs = Some v -> length bs = 32%nat /\ be_val bs < 2 ^ 255 /\ v = be_val bs mod p.
Proof.
  unfold fld25519_from_bytes. destruct (Nat.eqb (length bs) 32) eqn:E; [|discriminate].
  cbv zeta. destruct (2 ^ 255 <=? be_val bs) eqn:E2; [discriminate|].
  intros [= <-]. apply Nat.eqb_eq in E. apply Z.leb_gt in E2. auto.
Qed.

(* ================================================================================================
   Part 2 — square roots and round trips
   ================================================================================================ *)
Require Import V.mc.NtFacts.

Lemma eqm_refl_eq p a b : a = b -> eqm p a b.
Proof. intros ->. reflexivity. Qed.

Lemma pow_eqm p a b e : 0 < p -> eqm p a b -> eqm p (a ^ e) (b ^ e).
Proof.
  intros Hp H. unfold eqm in *.
  rewrite (Zpower_mod a e p), (Zpower_mod b e p) by lia. now rewrite H.
Qed.

Lemma zp_pow_pos p a n : 0 < p ->
  Pos.iter_op (fun x y => (x * y) mod p) n (a mod p) = (a ^ Zpos n) mod p.
Proof.
  intros Hp. revert a. induction n as [n IH|n IH|]; intros a; cbn [Pos.iter_op].
  - rewrite <- Zmult_mod, IH.
    rewrite Pos2Z.inj_xI. rewrite Z.pow_add_r, Z.pow_1_r, Z.pow_mul_r, Z.pow_2_r by lia.
    rewrite Zmult_mod_idemp_r, Zmult_mod_idemp_l. f_equal. ring.
  - rewrite <- Zmult_mod, IH.
    rewrite Pos2Z.inj_xO, Z.pow_mul_r, Z.pow_2_r by lia. reflexivity.
  - now rewrite Z.pow_1_r.
Qed.

Lemma zp_pow_spec p a e : 0 < p -> 0 <= e -> zp_pow p a e = (a ^ e) mod p.
Proof.
  intros Hp He. unfold zp_pow. destruct e as [|n|n]; [reflexivity|now apply zp_pow_pos|lia].
Qed.

(* x^(2^n) by repeated squaring, without reduction *)
Fixpoint pw2 (x : Z) (n : nat) : Z := match n with O => x | S n' => pw2 (x * x) n' end.

Lemma pw2_pow x n : pw2 x n = x ^ (2 ^ Z.of_nat n).
Proof.
  revert x; induction n as [|n IH]; intros x; cbn [pw2].
  - change (2 ^ Z.of_nat 0) with 1. now rewrite Z.pow_1_r.
  - rewrite IH, Nat2Z.inj_succ, Z.pow_succ_r by lia.
    rewrite Z.pow_mul_r by (try apply Z.pow_nonneg; lia). now rewrite Z.pow_2_r.
Qed.

Lemma pw2_S x n : pw2 x (S n) = pw2 x n * pw2 x n.
Proof.
  revert x; induction n as [|n IH]; intros x; [reflexivity|].
  change (pw2 x (S (S n))) with (pw2 (x * x) (S n)). rewrite IH. reflexivity.
Qed.

Lemma pw2_mul x y n : pw2 (x * y) n = pw2 x n * pw2 y n.
Proof.
  revert x y; induction n as [|n IH]; intros x y; cbn [pw2]; [reflexivity|].
  rewrite <- IH. f_equal. ring.
Qed.

Lemma pw2_eqm p x y n : eqm p x y -> eqm p (pw2 x n) (pw2 y n).
Proof.
  revert x y; induction n as [|n IH]; intros x y H; cbn [pw2]; [exact H|].
  apply IH. now rewrite H.
Qed.

Lemma sq_iter_pw2 p n t : eqm p (sq_iter p n t) (pw2 t n).
Proof.
  revert t; induction n as [|n IH]; intros t; cbn [sq_iter pw2]; [reflexivity|].
  rewrite IH. apply pw2_eqm. unfold mulm. apply mod_eqm.
Qed.

Lemma sq_iter_range p n t : 0 < p -> 0 <= t < p -> 0 <= sq_iter p n t < p.
Proof.
  intros Hp. revert t; induction n as [|n IH]; intros t Ht; cbn [sq_iter]; [exact Ht|].
  apply IH. unfold mulm. apply Z.mod_pos_bound. lia.
Qed.

(* in a prime field x^2 = 1 has only the roots 1 and -1 *)
Lemma prime_sq_one p b : prime p -> 0 <= b < p -> eqm p (b * b) 1 -> b = 1 \/ b = p - 1.
Proof.
  intros Hp Hb H. pose proof (prime_ge_2 _ Hp).
  assert (D : (p | (b - 1) * (b + 1))).
  { apply Z.mod_divide; [lia|]. unfold eqm in H.
    replace ((b - 1) * (b + 1)) with (b * b - 1) by ring.
    rewrite Zminus_mod, H, Z.sub_diag. apply Zmod_0_l. }
  apply prime_mult in D; [|exact Hp]. destruct D as [[k D]|[k D]].
  - left. assert (k = 0) by nia. nia.
  - right. assert (k = 1 \/ k = 0) by nia. nia.
Qed.

Lemma prime_sq_eq p s y : prime p -> 0 <= s < p -> 0 <= y < p -> eqm p (s * s) (y * y) ->
  s = y \/ s = negm p y.
Proof.
  intros Hp Hs Hy H. pose proof (prime_ge_2 _ Hp).
  assert (D : (p | (s - y) * (s + y))).
  { apply Z.mod_divide; [lia|]. unfold eqm in H.
    replace ((s - y) * (s + y)) with (s * s - y * y) by ring.
    rewrite Zminus_mod, H, Z.sub_diag. apply Zmod_0_l. }
  apply prime_mult in D; [|exact Hp]. destruct D as [[k D]|[k D]].
  - left. assert (k = 0) by nia. nia.
  - right. unfold negm. assert (k = 1 \/ k = 0) by nia.
    apply Z.mod_unique with (q := if y =? 0 then 0 else -1); [lia|].
    destruct (y =? 0) eqn:E; [apply Z.eqb_eq in E|apply Z.eqb_neq in E]; nia.
Qed.

(* ---- Tonelli–Shanks as coded is complete ------------------------------------------------------- *)

Lemma p_odd_of_ts p e g : (1 <= e)%nat -> p - 1 = 2 ^ Z.of_nat e * (2 * g + 1) -> p mod 2 = 1.
Proof.
  intros He Hm. destruct e as [|k]; [lia|].
  assert (H : p - 1 = 2 * (2 ^ Z.of_nat k * (2 * g + 1))).
  { rewrite Hm at 1. rewrite Nat2Z.inj_succ, Z.pow_succ_r by lia. ring. }
  set (N := 2 ^ Z.of_nat k * _) in H.
  replace p with (1 + N * 2) by lia. rewrite Z_mod_plus_full. reflexivity.
Qed.

Section TonelliShanks.
  Variable p : Z.
  Variable e : nat.
  Variable g : Z.
  Variable rou : Z.
  Hypothesis Hp : prime p.
  (* p - 1 = 2^e * m with m = 2g+1 odd, g the progenitor exponent — checked per curve *)
  Hypothesis He : (1 <= e)%nat.
  Hypothesis Hm : p - 1 = 2 ^ Z.of_nat e * (2 * g + 1).
  Hypothesis Hg : 0 <= g.
  (* rou is a primitive 2^e-th root of unity: rou^(2^(e-1)) = -1 — checked per curve *)
  Hypothesis Hrou_c : sq_iter p (e - 1) rou = p - 1.

  Let Hp2 : 2 <= p := prime_ge_2 _ Hp.

  Lemma ts_p_odd : 3 <= p.
  Proof.
    destruct e as [|k]; [lia|].
    assert (H : p - 1 = 2 * (2 ^ Z.of_nat k * (2 * g + 1))).
    { rewrite Hm at 1. rewrite Nat2Z.inj_succ, Z.pow_succ_r by lia. ring. }
    set (N := 2 ^ Z.of_nat k * _) in H. lia.
  Qed.

  Lemma Hrou : eqm p (pw2 rou (e - 1)) (-1).
  Proof.
    rewrite <- sq_iter_pw2, Hrou_c. unfold eqm.
    replace (p - 1) with (-1 + 1 * p) by ring. apply Z_mod_plus_full.
  Qed.

  Lemma ts_p_odd2 : p mod 2 = 1.
  Proof.
    destruct e as [|k]; [lia|].
    assert (H : p - 1 = 2 * (2 ^ Z.of_nat k * (2 * g + 1))).
    { rewrite Hm at 1. rewrite Nat2Z.inj_succ, Z.pow_succ_r by lia. ring. }
    set (N := 2 ^ Z.of_nat k * _) in H.
    replace p with (1 + N * 2) by lia. rewrite Z_mod_plus_full. reflexivity.
  Qed.

  Lemma ts_loop_zero k t z : ts_loop p k 0 t z = 0.
  Proof.
    revert t z; induction k as [|k IH]; intros t z; [reflexivity|].
    cbn [ts_loop]. destruct k as [|k]; [reflexivity|]. cbv zeta.
    assert (mulm p 0 z = 0) by (unfold mulm; now rewrite Z.mul_0_l, Zmod_0_l).
    destruct (sq_iter p k t =? 1 mod p); [apply IH|rewrite H; apply IH].
  Qed.

  (* loop invariant: s^2 = t v, t^(2^(k-1)) = 1, z^(2^(k-1)) = -1 *)
  Lemma ts_loop_inv v k s t z :
    0 <= t < p ->
    eqm p (s * s) (t * v) ->
    eqm p (pw2 t k) 1 ->
    eqm p (pw2 z k) (-1) ->
    let r := ts_loop p (S k) s t z in eqm p (r * r) v.
  Proof.
    revert s t z; induction k as [|k IH]; intros s t z Ht H1 H2 H3; cbv zeta.
    - cbn [ts_loop]. cbn [pw2] in H2. rewrite H1, H2. apply eqm_refl_eq. ring.
    - change (ts_loop p (S (S k)) s t z) with
        (let b := sq_iter p k t in
         let isone := b =? 1 mod p in
         let s' := if isone then s else mulm p s z in
         let z' := mulm p z z in
         let t' := if isone then t else mulm p t z' in
         ts_loop p (S k) s' t' z').
      cbv zeta.
      assert (Hz' : eqm p (pw2 (mulm p z z) k) (-1)).
      { rewrite <- H3. change (pw2 z (S k)) with (pw2 (z * z) k). apply pw2_eqm. apply mod_eqm. }
      assert (Hb : eqm p (sq_iter p k t) (pw2 t k)) by apply sq_iter_pw2.
      assert (Hbb : eqm p (sq_iter p k t * sq_iter p k t) 1).
      { rewrite Hb, <- pw2_S. exact H2. }
      pose proof (sq_iter_range p k t ltac:(lia) Ht) as Hbr.
      destruct (prime_sq_one p _ Hp Hbr Hbb) as [B|B].
      + rewrite B, (one_mod p) by lia. cbn [Z.eqb Pos.eqb].
        apply IH; [exact Ht|exact H1| |exact Hz'].
        rewrite <- Hb, B. reflexivity.
      + assert (Hne : (sq_iter p k t =? 1 mod p) = false).
        { rewrite (one_mod p) by lia. apply Z.eqb_neq. pose proof ts_p_odd. lia. }
        rewrite Hne. apply IH.
        * unfold mulm. apply Z.mod_pos_bound. lia.
        * unfold mulm. repeat rewrite (mod_eqm p).
          replace (s * z * (s * z)) with (s * s * (z * z)) by ring. rewrite H1.
          apply eqm_refl_eq. ring.
        * unfold mulm at 1. rewrite (pw2_eqm p _ (t * mulm p z z) k (mod_eqm p _)).
          rewrite pw2_mul, Hz', <- Hb, B. unfold eqm.
          replace ((p - 1) * -1) with (1 + (-1) * p) by ring. now rewrite Z_mod_plus_full.
        * exact Hz'.
  Qed.

  Theorem ts_sqrt_complete w :
    0 <= w < p -> exists s, ts_sqrt p e g rou (mulm p w w) = Some s.
  Proof.
    intros Hw. set (v := mulm p w w).
    assert (Hv : 0 <= v < p) by (unfold v, mulm; apply Z.mod_pos_bound; lia).
    unfold ts_sqrt. cbv zeta.
    set (y := zp_pow p v g). set (s := mulm p y v). set (t := mulm p s y).
    set (r := ts_loop p e s t rou).
    assert (R : eqm p (r * r) v).
    { destruct (Z.eq_dec w 0) as [W|W].
      - (* v = 0: s = 0 and the loop keeps it *)
        assert (v = 0) by (unfold v, mulm; subst w; reflexivity).
        assert (s = 0) by (unfold s, mulm; subst v; rewrite H, Z.mul_0_r; apply Zmod_0_l).
        unfold r. rewrite H0, ts_loop_zero, H. reflexivity.
      - assert (Ek : e = S (e - 1)) by lia. set (k := (e - 1)%nat) in *.
        unfold r. rewrite Ek.
        assert (Hy : eqm p y (v ^ g)) by (unfold y; rewrite zp_pow_spec by lia; apply mod_eqm).
        assert (Hs : eqm p s (v ^ (g + 1))).
        { unfold s, mulm. rewrite (mod_eqm p), Hy, Z.pow_add_r, Z.pow_1_r by lia. reflexivity. }
        assert (Ht : eqm p t (v ^ (2 * g + 1))).
        { unfold t, mulm. rewrite (mod_eqm p), Hs, Hy.
          rewrite <- Z.pow_add_r by lia. apply eqm_refl_eq. f_equal. lia. }
        apply ts_loop_inv.
        + unfold t, mulm. apply Z.mod_pos_bound. lia.
        + rewrite Hs, Ht. rewrite <- Z.pow_add_r by lia.
          replace (v ^ (2 * g + 1) * v) with (v ^ (2 * g + 1) * v ^ 1) by (now rewrite Z.pow_1_r).
          rewrite <- Z.pow_add_r by lia. apply eqm_refl_eq. f_equal. lia.
        + (* t^(2^k) = v^(m 2^k) = w^(m 2^(k+1)) = w^(p-1) = 1 *)
          rewrite (pw2_eqm p _ _ k Ht), pw2_pow.
          rewrite <- Z.pow_mul_r by (try apply Z.pow_nonneg; lia).
          assert (Hvw : eqm p v (w * w)) by (unfold v, mulm; apply mod_eqm).
          rewrite (pow_eqm p _ _ _ ltac:(lia) Hvw).
          rewrite <- Z.pow_2_r, <- Z.pow_mul_r by (try apply Z.mul_nonneg_nonneg; try apply Z.pow_nonneg; lia).
          replace (2 * ((2 * g + 1) * 2 ^ Z.of_nat k)) with (p - 1).
          2:{ rewrite Hm. rewrite Ek at 1. rewrite Nat2Z.inj_succ, Z.pow_succ_r by lia. ring. }
          unfold eqm. rewrite Z_fermat; [symmetry; apply one_mod; lia|exact Hp|].
          apply Zgcd_1_rel_prime. apply rel_prime_le_prime; [exact Hp|lia].
        + exact Hrou. }
    unfold eqm in R. unfold mulm at 1.
    assert (E : (r * r) mod p =? v mod p = true) by (apply Z.eqb_eq; exact R).
    rewrite E. eexists; reflexivity.
  Qed.
End TonelliShanks.

Lemma firstn_repeat' {A} (a : A) n k : firstn n (repeat a k) = repeat a (Nat.min n k).
Proof.
  revert k; induction n as [|n IH]; intros [|k]; cbn [firstn repeat Nat.min]; try reflexivity.
  now rewrite IH.
Qed.

Lemma skipn_repeat' {A} (a : A) n k : skipn n (repeat a k) = repeat a (k - n).
Proof.
  revert k; induction n as [|n IH]; intros [|k]; cbn [skipn repeat Nat.sub]; try reflexivity.
  apply IH.
Qed.

Lemma ts_loop_range p k s t z : 0 < p -> 0 <= s < p -> 0 <= ts_loop p k s t z < p.
Proof.
  intros Hp. revert s t z; induction k as [|k IH]; intros s t z Hs; [exact Hs|].
  cbn [ts_loop]. destruct k as [|k]; [exact Hs|]. cbv zeta.
  apply IH. destruct (_ =? _); [exact Hs|]. unfold mulm. apply Z.mod_pos_bound. lia.
Qed.

Lemma ts_sqrt_range p e g rou v s : 0 < p -> ts_sqrt p e g rou v = Some s -> 0 <= s < p.
Proof.
  intros Hp. unfold ts_sqrt. cbv zeta.
  match goal with |- (if ?b then _ else _) = _ -> _ => destruct b end; [|discriminate].
  intros [= <-]. apply ts_loop_range; [exact Hp|]. unfold mulm. apply Z.mod_pos_bound. lia.
Qed.

Lemma negm_invol p y : 0 < p -> 0 <= y < p -> negm p (negm p y) = y.
Proof.
  intros Hp Hy. unfold negm.
  replace (- (- y mod p)) with (y + (- ((- y mod p) + y))) by ring.
  assert (D : (- y mod p + y) mod p = 0).
  { rewrite Zplus_mod_idemp_l. replace (- y + y) with 0 by ring. apply Zmod_0_l. }
  apply Z.mod_divide in D; [|lia]. destruct D as [k D].
  rewrite D. replace (y + - (k * p)) with (y + (- k) * p) by ring.
  rewrite Z_mod_plus_full. apply Z.mod_small. exact Hy.
Qed.

Lemma negm_nz p y : 0 < y < p -> negm p y = p - y.
Proof.
  intros Hy. unfold negm. symmetry. apply Z.mod_unique with (q := -1); lia.
Qed.

Lemma negm_0 p : negm p 0 = 0.
Proof. unfold negm. apply Zmod_0_l. Qed.

Lemma parity_flip p y : p mod 2 = 1 -> 0 < y < p -> (p - y) mod 2 <> y mod 2.
Proof.
  intros Hp Hy E.
  assert (H : (p - y + y) mod 2 = (y + y) mod 2) by (rewrite Zplus_mod, E, <- Zplus_mod; reflexivity).
  replace (p - y + y) with p in H by ring. rewrite Hp in H.
  replace (y + y) with (0 + y * 2) in H by ring. rewrite Z_mod_plus_full in H. discriminate.
Qed.

(* ---- round trips: short Weierstrass ------------------------------------------------------------ *)

(* what the theorems assume about a codec record: the modulus is prime, the Tonelli–Shanks
   constants are the right ones for it (three decidable equations, evaluated per curve), the
   coordinate size fits *)
Record wcodec_ok (c : wcodec) : Prop := mk_wcodec_ok {
  ok_prime : prime (wc_p c);
  ok_e : (1 <= wc_e c)%nat;
  ok_m : wc_p c - 1 = 2 ^ Z.of_nat (wc_e c) * (2 * wc_g c + 1);
  ok_g : 0 <= wc_g c;
  ok_rou : sq_iter (wc_p c) (wc_e c - 1) (wc_rou c) = wc_p c - 1;
  ok_len : wc_p c <= 256 ^ Z.of_nat (wc_len c)
}.

Definition w_canon (c : wcodec) (P : wpt) : Prop :=
  match P with None => True | Some (x, y) => 0 <= x < wc_p c /\ 0 <= y < wc_p c end.

Section WRoundTrip.
  Variable c : wcodec.
  Hypothesis OK : wcodec_ok c.
  Let p := wc_p c.
  Let Hp : prime p := ok_prime c OK.
  Let Hp2 : 2 <= p := prime_ge_2 _ Hp.
  Let Hodd : p mod 2 = 1 := p_odd_of_ts p (wc_e c) (wc_g c) (ok_e c OK) (ok_m c OK).

  Lemma on_curve_rhs x y : w_on_curve (wc c) (Some (x, y)) = true -> wc_rhs c x = mulm p y y.
  Proof.
    unfold w_on_curve, on_curve. cbn [Zp feqb fmul fadd]. rewrite Z.eqb_eq. intros E.
    unfold wc_rhs, p, wc_p. unfold_m. rewrite E. zmod.
  Qed.

  Lemma w_from_x_complete x y :
    w_on_curve (wc c) (Some (x, y)) = true -> 0 <= y < p ->
    w_from_x c x (y mod 2) = Some (Some (x, y)).
  Proof.
    intros Hc Hy. unfold w_from_x. rewrite (on_curve_rhs x y Hc).
    destruct (ts_sqrt_complete p (wc_e c) (wc_g c) (wc_rou c) Hp (ok_e c OK) (ok_m c OK) (ok_g c OK) (ok_rou c OK) y Hy)
      as [s Hs].
    unfold wc_sqrt. fold p. rewrite Hs.
    assert (Hp0 : 0 < p) by lia. pose proof (ts_sqrt_range p _ _ _ _ _ Hp0 Hs) as Hr.
    apply ts_sqrt_sound in Hs.
    assert (E : eqm p (s * s) (y * y)).
    { unfold eqm. unfold mulm in Hs. rewrite Hs. apply Zmod_mod. }
    destruct (prime_sq_eq p s y Hp Hr Hy E) as [-> | ->].
    - rewrite Z.eqb_refl. reflexivity.
    - destruct (Z.eq_dec y 0) as [->|Hy0].
      + rewrite negm_0. reflexivity.
      + rewrite (negm_nz p y) by lia.
        destruct ((p - y) mod 2 =? y mod 2) eqn:Epar.
        * apply Z.eqb_eq in Epar. exfalso. revert Epar. apply parity_flip; [exact Hodd|lia].
        * rewrite <- (negm_nz p y) by lia. rewrite negm_invol by lia. reflexivity.
  Qed.

  Lemma tag_ok y : ((2 + y mod 2 =? 2) || (2 + y mod 2 =? 3)) = true /\ (2 + y mod 2) mod 2 = y mod 2.
  Proof.
    pose proof (Z.mod_pos_bound y 2 ltac:(lia)) as B.
    assert (y mod 2 = 0 \/ y mod 2 = 1) as [-> | ->] by lia; split; reflexivity.
  Qed.

  Theorem sec1_roundtrip_c P :
    w_on_curve (wc c) P = true -> w_canon c P ->
    (forall y, P <> Some (0, y)) ->
    sec1_dec_c c (sec1_enc_c c P) = Some P.
  Proof.
    intros Hc Hr Hx. pose proof (ok_len c OK) as Hl. fold p in Hl. destruct P as [[x y]|].
    - cbn [w_canon] in Hr. destruct Hr as [Hxr Hyr]. fold p in Hxr, Hyr.
      unfold sec1_enc_c, sec1_dec_c. cbn [length]. rewrite be_enc_length, Nat.eqb_refl. cbn [negb].
      destruct (tag_ok y) as [T1 T2]. rewrite T1, T2. cbn [negb].
      rewrite be_val_be_enc by lia.
      fold p. rewrite Z.mod_small by lia.
      destruct (x =? 0) eqn:E0; [apply Z.eqb_eq in E0; subst x; exfalso; now apply (Hx y)|].
      now apply w_from_x_complete.
    - unfold sec1_enc_c, sec1_dec_c. cbn [length]. rewrite zeros_length, Nat.eqb_refl. cbn [negb Z.eqb Pos.eqb orb].
      rewrite be_val_zeros, Zmod_0_l. reflexivity.
  Qed.

  (* the reserved encodings: a point with x = 0 decodes to the identity instead *)
  Theorem sec1_x0_collides y :
    sec1_dec_c c (sec1_enc_c c (Some (0, y))) = Some None.
  Proof.
    unfold sec1_enc_c, sec1_dec_c. cbn [length]. rewrite be_enc_length, Nat.eqb_refl. cbn [negb].
    destruct (tag_ok y) as [T1 T2]. rewrite T1. cbn [negb].
    rewrite be_val_be_enc by (split; [lia|apply pow256_pos]).
    rewrite Zmod_0_l. reflexivity.
  Qed.

  Theorem sec1_roundtrip_u P :
    w_on_curve (wc c) P = true -> w_canon c P -> P <> Some (0, 0) ->
    sec1_dec_u c (sec1_enc_u c P) = Some P.
  Proof.
    intros Hc Hr Hx. pose proof (ok_len c OK) as Hl. fold p in Hl. destruct P as [[x y]|].
    - cbn [w_canon] in Hr. destruct Hr as [Hxr Hyr]. fold p in Hxr, Hyr.
      unfold sec1_enc_u, sec1_dec_u. cbn [length]. rewrite app_length, !be_enc_length.
      replace (wc_len c + wc_len c)%nat with (2 * wc_len c)%nat by lia.
      rewrite Nat.eqb_refl. cbn [negb Z.eqb Pos.eqb].
      rewrite firstn_app_len, skipn_app_len by apply be_enc_length.
      rewrite !be_val_be_enc by lia. fold p. rewrite !Z.mod_small by lia.
      destruct ((x =? 0) && (y =? 0)) eqn:E0.
      + apply andb_true_iff in E0. rewrite !Z.eqb_eq in E0. destruct E0; subst. now elim Hx.
      + unfold w_set_affine. fold p. rewrite (on_curve_rhs x y Hc), Z.eqb_refl. reflexivity.
    - unfold sec1_enc_u, sec1_dec_u. cbn [length]. rewrite zeros_length, Nat.eqb_refl. cbn [negb Z.eqb Pos.eqb].
      assert (Z0 : forall n, be_val (firstn n (zeros (2 * wc_len c))) = 0 /\ be_val (skipn n (zeros (2 * wc_len c))) = 0).
      { intros n. unfold zeros. rewrite firstn_repeat', skipn_repeat'. split; apply be_val_zeros. }
      destruct (Z0 (wc_len c)) as [-> ->]. rewrite Zmod_0_l. reflexivity.
  Qed.
End WRoundTrip.

(* injectivity off the reserved encodings follows from the round trip *)
Lemma roundtrip_injective {A B} (enc : A -> B) (dec : B -> option A) (good : A -> Prop) :
  (forall P, good P -> dec (enc P) = Some P) ->
  forall P Q, good P -> good Q -> enc P = enc Q -> P = Q.
Proof.
  intros H P Q HP HQ E. pose proof (H P HP) as H1. rewrite E, (H Q HQ) in H1. congruence.
Qed.

Definition sec1_good_c (c : wcodec) (P : wpt) : Prop :=
  w_on_curve (wc c) P = true /\ w_canon c P /\ (forall y, P <> Some (0, y)).
Definition sec1_good_u (c : wcodec) (P : wpt) : Prop :=
  w_on_curve (wc c) P = true /\ w_canon c P /\ P <> Some (0, 0).

Theorem sec1_encode_injective c : wcodec_ok c ->
  (forall P Q, sec1_good_c c P -> sec1_good_c c Q -> sec1_enc_c c P = sec1_enc_c c Q -> P = Q) /\
  (forall P Q, sec1_good_u c P -> sec1_good_u c Q -> sec1_enc_u c P = sec1_enc_u c Q -> P = Q).
Proof.
  intros OK. split.
  - apply (roundtrip_injective (sec1_enc_c c) (sec1_dec_c c)).
    intros P (H1 & H2 & H3). now apply sec1_roundtrip_c.
  - apply (roundtrip_injective (sec1_enc_u c) (sec1_dec_u c)).
    intros P (H1 & H2 & H3). now apply sec1_roundtrip_u.
Qed.

(* when b is a quadratic non-residue (Euler: b^((p-1)/2) = -1) no point has x = 0, so the
   compressed round trip holds for every point of the curve *)
Lemma no_point_x0 c y : wcodec_ok c ->
  euler (wc_p c) (wp_b (wc c)) = wc_p c - 1 ->
  0 <= y < wc_p c -> w_on_curve (wc c) (Some (0, y)) = true -> False.
Proof.
  intros OK He Hy Hc. pose proof (ok_prime c OK) as Hp. pose proof (prime_ge_2 _ Hp) as Hp2.
  pose proof (p_odd_of_ts _ _ _ (ok_e c OK) (ok_m c OK)) as Hodd.
  set (p := wc_p c) in *. set (b := wp_b (wc c)) in *.
  assert (Hh : 0 <= (p - 1) / 2) by (apply Z.div_pos; lia).
  unfold euler in He. rewrite zp_pow_spec in He by lia.
  assert (Hb : eqm p b (y * y)).
  { revert Hc. unfold w_on_curve, on_curve. cbn [Zp feqb fmul fadd]. rewrite Z.eqb_eq.
    intros E. unfold eqm, p, b, wc_p. symmetry. rewrite E. zmod. }
  assert (E1 : eqm p (b ^ ((p - 1) / 2)) (y ^ (p - 1))).
  { rewrite (pow_eqm p _ _ _ ltac:(lia) Hb), <- Z.pow_2_r, <- Z.pow_mul_r by lia.
    apply eqm_refl_eq. f_equal.
    pose proof (Z.div_mod (p - 1) 2 ltac:(lia)) as D.
    assert ((p - 1) mod 2 = 0).
    { replace (p - 1) with (p + (-1)) by ring. rewrite Zplus_mod, Hodd. reflexivity. }
    lia. }
  unfold eqm in E1. rewrite He in E1.
  assert (Hp3 : p <> 2) by (intros E; rewrite E in Hodd; discriminate).
  destruct (Z.eq_dec y 0) as [->|Hy0].
  - rewrite Z.pow_0_l, Zmod_0_l in E1 by lia. lia.
  - rewrite Z_fermat in E1; [lia|exact Hp|].
    apply Zgcd_1_rel_prime. apply rel_prime_le_prime; [exact Hp|lia].
Qed.

Theorem sec1_roundtrip_c_all c P : wcodec_ok c ->
  euler (wc_p c) (wp_b (wc c)) = wc_p c - 1 ->
  w_on_curve (wc c) P = true -> w_canon c P ->
  sec1_dec_c c (sec1_enc_c c P) = Some P.
Proof.
  intros OK He Hc Hr. apply sec1_roundtrip_c; try assumption.
  intros y ->. cbn [w_canon] in Hr. apply (no_point_x0 c y OK He); tauto.
Qed.

(* ---- pasta ------------------------------------------------------------------------------------- *)

Section PastaRoundTrip.
  Variable c : wcodec.
  Hypothesis OK : wcodec_ok c.
  Hypothesis Hlen1 : (1 <= wc_len c)%nat.
  Hypothesis Htop : wc_p c <= top_bit c.          (* the modulus leaves the top bit free *)
  Let p := wc_p c.
  Let Hp2 : 2 <= p := prime_ge_2 _ (ok_prime c OK).

  Lemma top_double : 2 * top_bit c = 256 ^ Z.of_nat (wc_len c).
  Proof.
    unfold top_bit. replace (256 ^ Z.of_nat (wc_len c)) with (2 ^ (8 * Z.of_nat (wc_len c))).
    2:{ rewrite Z.pow_mul_r by lia. reflexivity. }
    replace (8 * Z.of_nat (wc_len c)) with (Z.succ (8 * Z.of_nat (wc_len c) - 1)) at 2 by lia.
    rewrite Z.pow_succ_r by lia. reflexivity.
  Qed.

  Lemma top_pos : 0 < top_bit c.
  Proof. unfold top_bit. apply Z.pow_pos_nonneg; lia. Qed.

  Theorem pasta_roundtrip_c P :
    w_on_curve (wc c) P = true -> w_canon c P ->
    (forall y, P = Some (0, y) -> y mod 2 = 1) ->
    pasta_dec_c c (pasta_enc_c c P) = Some P.
  Proof.
    intros Hc Hr Hx. pose proof top_double as TD. pose proof top_pos as TP. fold p in Htop.
    destruct P as [[x y]|].
    - cbn [w_canon] in Hr. destruct Hr as [Hxr Hyr]. fold p in Hxr, Hyr.
      unfold pasta_enc_c, pasta_dec_c. rewrite le_enc_length, Nat.eqb_refl. cbn [negb]. cbv zeta.
      pose proof (Z.mod_pos_bound y 2 ltac:(lia)) as B.
      rewrite le_val_le_enc by nia.
      assert (Hs : (x + y mod 2 * top_bit c) / top_bit c = y mod 2).
      { rewrite Z.div_add by lia. rewrite Z.div_small by lia. lia. }
      assert (Hm : (x + y mod 2 * top_bit c) mod top_bit c = x).
      { rewrite Z_mod_plus_full. apply Z.mod_small. lia. }
      rewrite Hs, Hm. fold p. rewrite Z.mod_small by lia.
      destruct ((x =? 0) && (y mod 2 =? 0)) eqn:E0.
      + apply andb_true_iff in E0. rewrite !Z.eqb_eq in E0. destruct E0 as [-> E0].
        specialize (Hx y eq_refl). lia.
      + now apply w_from_x_complete.
    - unfold pasta_enc_c, pasta_dec_c. rewrite zeros_length, Nat.eqb_refl. cbn [negb]. cbv zeta.
      rewrite le_val_zeros, Z.div_0_l, !Zmod_0_l by lia. reflexivity.
  Qed.
End PastaRoundTrip.

Lemma fix_parity p s x : p mod 2 = 1 -> 0 <= x < p -> s = x \/ s = negm p x ->
  (if s mod 2 =? x mod 2 then s else negm p s) = x.
Proof.
  intros Hodd Hx [-> | ->].
  - now rewrite Z.eqb_refl.
  - destruct (Z.eq_dec x 0) as [->|Hx0]; [now rewrite negm_0|].
    rewrite (negm_nz p x) by lia.
    destruct ((p - x) mod 2 =? x mod 2) eqn:Epar.
    + apply Z.eqb_eq in Epar. exfalso. revert Epar. apply parity_flip; [exact Hodd|lia].
    + rewrite <- (negm_nz p x) by lia. apply negm_invol; lia.
Qed.

Theorem pasta_roundtrip_u c P : wcodec_ok c ->
  w_on_curve (wc c) P = true -> w_canon c P -> P <> Some (0, 0) ->
  pasta_dec_u c (pasta_enc_u c P) = Some P.
Proof.
  intros OK Hc Hr Hx. pose proof (ok_len c OK) as Hl. pose proof (prime_ge_2 _ (ok_prime c OK)) as Hp2.
  destruct P as [[x y]|].
  - cbn [w_canon] in Hr. destruct Hr as [Hxr Hyr].
    unfold pasta_enc_u, pasta_dec_u. rewrite app_length, !le_enc_length.
    replace (wc_len c + wc_len c)%nat with (2 * wc_len c)%nat by lia.
    rewrite Nat.eqb_refl. cbn [negb]. cbv zeta.
    rewrite firstn_app_len, skipn_app_len by apply le_enc_length.
    rewrite !le_val_le_enc by lia. rewrite !Z.mod_small by lia.
    destruct ((x =? 0) && (y =? 0)) eqn:E0.
    + apply andb_true_iff in E0. rewrite !Z.eqb_eq in E0. destruct E0; subst. now elim Hx.
    + unfold w_set_affine. rewrite (on_curve_rhs c x y Hc), Z.eqb_refl. reflexivity.
  - unfold pasta_enc_u, pasta_dec_u. rewrite zeros_length, Nat.eqb_refl. cbn [negb]. cbv zeta.
    unfold zeros. rewrite firstn_repeat', skipn_repeat'. fold (zeros (Nat.min (wc_len c) (2 * wc_len c))).
    fold (zeros (2 * wc_len c - wc_len c)). rewrite !le_val_zeros, Zmod_0_l. reflexivity.
Qed.

(* ---- edwards25519 ------------------------------------------------------------------------------ *)

Record ecodec_ok (c : ecodec) : Prop := mk_ecodec_ok {
  eok_prime : prime (ec_p c);
  eok_e : (1 <= ec_e c)%nat;
  eok_m : ec_p c - 1 = 2 ^ Z.of_nat (ec_e c) * (2 * ec_g c + 1);
  eok_g : 0 <= ec_g c;
  eok_rou : sq_iter (ec_p c) (ec_e c - 1) (ec_rou c) = ec_p c - 1;
  eok_len1 : (1 <= ec_len c)%nat;
  eok_top : ec_p c <= e_top c;
  eok_ad : (ep_a (ec c) - ep_d (ec c)) mod ec_p c <> 0
}.

Definition e_canon (c : ecodec) (P : ept) : Prop :=
  0 <= fst P < ec_p c /\ 0 <= snd P < ec_p c.

Section ERoundTrip.
  Variable c : ecodec.
  Hypothesis OK : ecodec_ok c.
  Let p := ec_p c.
  Let a := ep_a (ec c).
  Let d := ep_d (ec c).
  Let Hp : prime p := eok_prime c OK.
  Let Hp2 : 2 <= p := prime_ge_2 _ Hp.
  Let Hodd : p mod 2 = 1 :=
    p_odd_of_ts p (ec_e c) (ec_g c) (eok_e c OK) (eok_m c OK).

  Lemma e_curve_eq x y : e_on_curve (ec c) (x, y) = true ->
    eqm p (x * x * (a - d * (y * y))) (1 - y * y).
  Proof.
    unfold e_on_curve, eaff_on_curve. cbn [Zp feqb fmul fadd f1]. rewrite Z.eqb_eq.
    change (ep_p (ec c)) with p. change (ep_a (ec c)) with a. change (ep_d (ec c)) with d.
    intros E.
    assert (E' : eqm p (a * (x * x) + y * y) (1 + d * (x * x * (y * y)))).
    { unfold eqm. etransitivity; [|etransitivity; [exact E|]]; zmod. }
    apply (eqm_shift p _ _ _ _ E'). ring.
  Qed.

  Lemma e_from_y_complete x y :
    e_on_curve (ec c) (x, y) = true -> 0 <= x < p -> 0 <= y < p ->
    exists s, e_from_y c y = Some (s, y) /\ (s = x \/ s = negm p x).
  Proof.
    intros Hc Hx Hy. pose proof (e_curve_eq x y Hc) as K.
    unfold e_from_y. cbv zeta. change (ec_p c) with p. change (ep_a (ec c)) with a. change (ep_d (ec c)) with d.
    set (den := subm p a (mulm p d (mulm p y y))).
    assert (Hd : eqm p den (a - d * (y * y))) by (unfold eqm, den; unfold_m; zmod).
    assert (Hdr : 0 <= den < p) by (unfold den, subm; apply Z.mod_pos_bound; lia).
    destruct (den =? 0) eqn:Ed.
    - (* den = 0 forces y^2 = 1 and a = d *)
      exfalso. apply Z.eqb_eq in Ed. rewrite Ed in Hd.
      assert (Y : eqm p (y * y) 1).
      { rewrite <- Hd in K. apply (eqm_shift p _ _ _ _ K). ring. }
      apply (eok_ad c OK). change (ep_a (ec c)) with a. change (ep_d (ec c)) with d. change (ec_p c) with p.
      assert (Z0 : eqm p (a - d) 0).
      { transitivity (a - d * (y * y)); [|symmetry; exact Hd].
        rewrite Y. apply eqm_refl_eq. ring. }
      unfold eqm in Z0. rewrite Z0. apply Zmod_0_l.
    - apply Z.eqb_neq in Ed.
      pose proof (zp_inv_correct p den Hp ltac:(lia)) as Hi.
      assert (Hi' : eqm p (den * zp_inv p den) 1) by (unfold eqm; rewrite Hi; symmetry; apply one_mod; lia).
      assert (V : mulm p (subm p (1 mod p) (mulm p y y)) (zp_inv p den) = mulm p x x).
      { unfold_m.
        match goal with |- ?L mod _ = ?R mod _ => change (eqm p L R) end.
        pose proof (mod_eqm p) as Hq. rewrite_strat (repeat (outermost Hq)). clear Hq.
        rewrite <- K, <- Hd.
        replace (x * x * den * zp_inv p den) with (x * x * (den * zp_inv p den)) by ring.
        rewrite Hi'. apply eqm_refl_eq. ring. }
      rewrite V.
      destruct (ts_sqrt_complete p (ec_e c) (ec_g c) (ec_rou c) Hp (eok_e c OK) (eok_m c OK) (eok_g c OK) (eok_rou c OK) x Hx)
        as [s Hs].
      rewrite Hs. exists s. split; [reflexivity|].
      assert (Hp0 : 0 < p) by lia.
      pose proof (ts_sqrt_range p _ _ _ _ _ Hp0 Hs) as Hr. apply ts_sqrt_sound in Hs.
      apply prime_sq_eq; try assumption.
      unfold eqm. unfold mulm in Hs. rewrite Hs. apply Zmod_mod.
  Qed.

  Lemma e_top_double : 2 * e_top c = 256 ^ Z.of_nat (ec_len c).
  Proof.
    pose proof (eok_len1 c OK).
    unfold e_top. replace (256 ^ Z.of_nat (ec_len c)) with (2 ^ (8 * Z.of_nat (ec_len c))).
    2:{ rewrite Z.pow_mul_r by lia. reflexivity. }
    replace (8 * Z.of_nat (ec_len c)) with (Z.succ (8 * Z.of_nat (ec_len c) - 1)) at 2 by lia.
    rewrite Z.pow_succ_r by lia. reflexivity.
  Qed.

  Theorem ed_roundtrip_c P :
    e_on_curve (ec c) P = true -> e_canon c P -> ed_dec_c c (ed_enc_c c P) = Some P.
  Proof.
    destruct P as [x y]. intros Hc [Hx Hy]. cbn [fst snd] in Hx, Hy. fold p in Hx, Hy.
    pose proof e_top_double as TD. pose proof (eok_top c OK) as TT. fold p in TT.
    assert (TP : 0 < e_top c) by lia.
    unfold ed_enc_c, ed_dec_c. rewrite le_enc_length, Nat.eqb_refl. cbn [negb]. cbv zeta.
    pose proof (Z.mod_pos_bound x 2 ltac:(lia)) as B.
    rewrite le_val_le_enc by nia.
    assert (Hs : (y + x mod 2 * e_top c) / e_top c = x mod 2).
    { rewrite Z.div_add by lia. rewrite Z.div_small by lia. lia. }
    assert (Hm : (y + x mod 2 * e_top c) mod e_top c = y).
    { rewrite Z_mod_plus_full. apply Z.mod_small. lia. }
    rewrite Hs, Hm. fold p. rewrite Z.mod_small by lia.
    destruct (e_from_y_complete x y Hc Hx Hy) as [s [E S]]. rewrite E.
    rewrite (fix_parity p s x Hodd Hx S). reflexivity.
  Qed.

  Theorem ed_roundtrip_u P :
    e_on_curve (ec c) P = true -> e_canon c P -> ed_dec_u c (ed_enc_u c P) = Some P.
  Proof.
    destruct P as [x y]. intros Hc [Hx Hy]. cbn [fst snd] in Hx, Hy. fold p in Hx, Hy.
    pose proof e_top_double as TD. pose proof (eok_top c OK) as TT. fold p in TT.
    unfold ed_enc_u, ed_dec_u. rewrite app_length, !le_enc_length.
    replace (ec_len c + ec_len c)%nat with (2 * ec_len c)%nat by lia.
    rewrite Nat.eqb_refl. cbn [negb].
    rewrite firstn_app_len, skipn_app_len by apply le_enc_length.
    unfold e_fp_set_bytes. rewrite !le_enc_length, Nat.eqb_refl. cbn [negb]. cbv zeta.
    rewrite !le_val_le_enc by lia.
    assert (Lx : (e_top c <=? x) = false) by (apply Z.leb_gt; lia).
    assert (Ly : (e_top c <=? y) = false) by (apply Z.leb_gt; lia).
    rewrite Lx, Ly. fold p. rewrite !Z.mod_small by lia.
    revert Hc. unfold e_set_affine, e_on_curve, eaff_on_curve. cbn [Zp feqb fmul fadd f1]. cbv zeta.
    rewrite Z.eqb_eq. change (ep_p (ec c)) with p. intros E.
    match goal with |- (if ?b then _ else _) = _ => assert (Hb : b = true) end.
    { apply Z.eqb_eq. unfold_m. change (ec_p c) with p. rewrite E. zmod. }
    rewrite Hb. reflexivity.
  Qed.

  (* prime-subgroup type: members of the subgroup survive, by the same decoders *)
  Theorem edp_roundtrip P :
    e_on_curve (ec c) P = true -> e_canon c P -> e_in_subgroup c P ->
    edp_dec_c c (ed_enc_c c P) = Some P /\ edp_dec_u c (ed_enc_u c P) = Some P.
  Proof.
    intros Hc Hr Hs. unfold edp_dec_c, edp_dec_u.
    rewrite (ed_roundtrip_c P Hc Hr), (ed_roundtrip_u P Hc Hr). unfold e_sub.
    apply e_torsion_free_spec in Hs. rewrite Hs. auto.
  Qed.
End ERoundTrip.

(* ---- the concrete curves ------------------------------------------------------------------------
   Primality of the moduli is not proved (no certificate checker): it stays a hypothesis.  The
   other side conditions are closed equations on constants, decided by vm_compute. *)

Ltac codec_ok Hp :=
  constructor;
  [ exact Hp
  | vm_compute; repeat constructor
  | vm_compute; reflexivity
  | vm_compute; discriminate
  | vm_compute; reflexivity
  | vm_compute; discriminate ].

(* the constants regenerated from the field sources (gen/CodecConsts.v) are the ones the model's
   codec instances use: modulus, 2-adicity, progenitor exponent, root of unity, element size *)
Definition wcodec_tie (c : wcodec) (m : Z) (e : nat) (g rou : Z) (len : nat) : Prop :=
  wc_p c = m /\ wc_e c = e /\ wc_g c = g /\ wc_rou c = rou /\ wc_len c = len.

Lemma codec_consts_tie :
  wcodec_tie k256_codec k256_fp_modulus k256_fp_e k256_fp_progenitor k256_fp_rou k256_fp_bytes /\
  wcodec_tie p256_codec p256_fp_modulus p256_fp_e p256_fp_progenitor p256_fp_rou p256_fp_bytes /\
  wcodec_tie pallas_codec pallas_fp_modulus pallas_fp_e pallas_fp_progenitor pallas_fp_rou pallas_fp_bytes /\
  wcodec_tie vesta_codec vesta_fp_modulus vesta_fp_e vesta_fp_progenitor vesta_fp_rou vesta_fp_bytes /\
  wcodec_tie blsg1_codec bls12381_fp_modulus bls12381_fp_e bls12381_fp_progenitor bls12381_fp_rou bls12381_fp_bytes /\
  (ec_p ed25519_codec = ed25519_fp_modulus /\ ec_e ed25519_codec = ed25519_fp_e /\
   ec_g ed25519_codec = ed25519_fp_progenitor /\ ec_rou ed25519_codec = ed25519_fp_rou /\
   ec_len ed25519_codec = ed25519_fp_bytes).
Proof. unfold wcodec_tie. repeat apply conj; vm_compute; reflexivity. Qed.

Lemma codec_thunks_tie :
  k256_codec_f tt = k256_codec /\ p256_codec_f tt = p256_codec /\
  pallas_codec_f tt = pallas_codec /\ vesta_codec_f tt = vesta_codec /\
  blsg1_codec_f tt = blsg1_codec /\ ed25519_codec_f tt = ed25519_codec /\
  curve25519_params_f tt = curve25519_params /\ blsg2_codec_f tt = blsg2_codec.
Proof. repeat apply conj; vm_compute; reflexivity. Qed.

Lemma k256_codec_ok : prime (wp_p k256_params) -> wcodec_ok k256_codec.
Proof. intros Hp. codec_ok Hp. Qed.
Lemma p256_codec_ok : prime (wp_p p256_params) -> wcodec_ok p256_codec.
Proof. intros Hp. codec_ok Hp. Qed.
Lemma pallas_codec_ok : prime (wp_p pallas_params) -> wcodec_ok pallas_codec.
Proof. intros Hp. codec_ok Hp. Qed.
Lemma vesta_codec_ok : prime (wp_p vesta_params) -> wcodec_ok vesta_codec.
Proof. intros Hp. codec_ok Hp. Qed.
Lemma blsg1_codec_ok : prime bls12381_p -> wcodec_ok blsg1_codec.
Proof. intros Hp. codec_ok Hp. Qed.

Lemma ed25519_codec_ok : prime (ep_p ed25519_params) -> ecodec_ok ed25519_codec.
Proof.
  intros Hp. constructor;
  [ exact Hp
  | vm_compute; repeat constructor
  | vm_compute; reflexivity
  | vm_compute; discriminate
  | vm_compute; reflexivity
  | vm_compute; repeat constructor
  | vm_compute; discriminate
  | vm_compute; discriminate ].
Qed.

(* Euler's criterion on the curve constant b *)
Lemma k256_b_nonresidue : euler (wc_p k256_codec) (wp_b (wc k256_codec)) = wc_p k256_codec - 1.
Proof. vm_compute. reflexivity. Qed.
Lemma pallas_b_nonresidue : euler (wc_p pallas_codec) (wp_b (wc pallas_codec)) = wc_p pallas_codec - 1.
Proof. vm_compute. reflexivity. Qed.
Lemma vesta_b_nonresidue : euler (wc_p vesta_codec) (wp_b (wc vesta_codec)) = wc_p vesta_codec - 1.
Proof. vm_compute. reflexivity. Qed.
Lemma p256_b_residue : euler (wc_p p256_codec) (wp_b (wc p256_codec)) = 1.
Proof. vm_compute. reflexivity. Qed.

Theorem k256_roundtrip_all P : prime (wp_p k256_params) ->
  w_on_curve k256_params P = true -> w_canon k256_codec P ->
  sec1_dec_c k256_codec (sec1_enc_c k256_codec P) = Some P.
Proof.
  intros Hp. apply (sec1_roundtrip_c_all k256_codec); [now apply k256_codec_ok|exact k256_b_nonresidue].
Qed.

Lemma pasta_roundtrip_c_all c P : wcodec_ok c -> (1 <= wc_len c)%nat -> wc_p c <= top_bit c ->
  euler (wc_p c) (wp_b (wc c)) = wc_p c - 1 ->
  w_on_curve (wc c) P = true -> w_canon c P ->
  pasta_dec_c c (pasta_enc_c c P) = Some P.
Proof.
  intros OK L T He Hc Hr. apply pasta_roundtrip_c; try assumption.
  intros y ->. exfalso. cbn [w_canon] in Hr. apply (no_point_x0 c y OK He); tauto.
Qed.

Theorem pallas_roundtrip_all P : prime (wp_p pallas_params) ->
  w_on_curve pallas_params P = true -> w_canon pallas_codec P ->
  pasta_dec_c pallas_codec (pasta_enc_c pallas_codec P) = Some P.
Proof.
  intros Hp. apply (pasta_roundtrip_c_all pallas_codec);
    [now apply pallas_codec_ok|vm_compute; repeat constructor|vm_compute; discriminate|exact pallas_b_nonresidue].
Qed.

Theorem vesta_roundtrip_all P : prime (wp_p vesta_params) ->
  w_on_curve vesta_params P = true -> w_canon vesta_codec P ->
  pasta_dec_c vesta_codec (pasta_enc_c vesta_codec P) = Some P.
Proof.
  intros Hp. apply (pasta_roundtrip_c_all vesta_codec);
    [now apply vesta_codec_ok|vm_compute; repeat constructor|vm_compute; discriminate|exact vesta_b_nonresidue].
Qed.

(* P-256: b is a square, the two points (0, ±sqrt b) exist, and their compressed encodings are
   decoded as the identity (finding F2): the unrestricted round trip is FALSE of the code *)
Definition p256_sqrt_b : Z := 0x66485c780e2f83d72433bd5d84a06bb6541c2af31dae871728bf856a174f93f4.

Theorem p256_roundtrip_refuted :
  exists P, w_on_curve p256_params P = true /\ w_canon p256_codec P /\
            sec1_dec_c p256_codec (sec1_enc_c p256_codec P) <> Some P.
Proof.
  exists (Some (0, p256_sqrt_b)). split; [vm_compute; reflexivity|]. split.
  - vm_compute. repeat split; discriminate.
  - rewrite sec1_x0_collides. discriminate.
Qed.

Theorem p256_encode_not_injective :
  exists P Q, P <> Q /\ w_on_curve p256_params P = true /\ w_on_curve p256_params Q = true /\
              sec1_enc_c p256_codec P = sec1_enc_c p256_codec Q.
Proof.
  exists (Some (0, p256_sqrt_b)), None. apply conj; [discriminate|]. repeat apply conj; vm_compute; reflexivity.
Qed.

(* ---- BLS12-381 G1 (ZCash flags) ---------------------------------------------------------------- *)

Lemma le_enc_snoc k n : le_enc (S k) n = le_enc k n ++ [(n / 256 ^ Z.of_nat k) mod 256].
Proof.
  revert n; induction k as [|k IH]; intros n.
  - cbn [le_enc app]. change (256 ^ Z.of_nat 0) with 1. now rewrite Z.div_1_r.
  - change (le_enc (S (S k)) n) with ((n mod 256) :: le_enc (S k) (n / 256)).
    rewrite IH. cbn [le_enc app]. rewrite Z.div_div by (try apply pow256_pos; lia).
    rewrite <- pow256_S. reflexivity.
Qed.

Lemma be_enc_cons k n : be_enc (S k) n = ((n / 256 ^ Z.of_nat k) mod 256) :: be_enc k n.
Proof. unfold be_enc. rewrite le_enc_snoc, rev_app_distr. reflexivity. Qed.

Lemma be_val_cons a l : be_val (a :: l) = be_val l + 256 ^ Z.of_nat (length l) * a.
Proof.
  unfold be_val. cbn [rev]. rewrite le_val_app, rev_length. cbn [le_val]. ring.
Qed.

Lemma be_val_be_enc_mod k n : be_val (be_enc k n) = n mod 256 ^ Z.of_nat k.
Proof. unfold be_val, be_enc. rewrite rev_involutive. apply le_val_le_enc_mod. Qed.

Lemma is_neg_flip p y : p mod 2 = 1 -> 0 < y < p -> is_neg p (negm p y) = negb (is_neg p y).
Proof.
  intros Hodd Hy. unfold is_neg. rewrite negm_invol by lia. rewrite (negm_nz p y) by lia.
  assert (p - y <> y).
  { intros E. assert (p = y * 2) by lia. subst p. rewrite Z_mod_mult in Hodd. discriminate. }
  destruct (y <? p - y) eqn:A, (p - y <? y) eqn:B; try reflexivity;
    [apply Z.ltb_lt in A; apply Z.ltb_lt in B|apply Z.ltb_ge in A; apply Z.ltb_ge in B]; lia.
Qed.

Lemma fix_sign p s y : p mod 2 = 1 -> 0 <= y < p -> s = y \/ s = negm p y ->
  (if xorb (is_neg p s) (is_neg p y) then negm p s else s) = y.
Proof.
  intros Hodd Hy [-> | ->].
  - now rewrite xorb_nilpotent.
  - destruct (Z.eq_dec y 0) as [->|Hy0].
    + rewrite negm_0. now rewrite xorb_nilpotent.
    + rewrite is_neg_flip by lia. destruct (is_neg p y); cbn [negb xorb]; apply negm_invol; lia.
Qed.

Lemma le_enc_mult k a : le_enc k (a * 256 ^ Z.of_nat k) = zeros k.
Proof.
  revert a; induction k as [|k IH]; intros a; [reflexivity|].
  cbn [le_enc zeros repeat]. rewrite pow256_S.
  replace (a * (256 * 256 ^ Z.of_nat k)) with (a * 256 ^ Z.of_nat k * 256) by ring.
  rewrite Z_mod_mult, Z.div_mul by lia. f_equal. apply IH.
Qed.

Lemma all_zero_zeros k : all_zero (zeros k) = true.
Proof. unfold all_zero, zeros. induction k; [reflexivity|]. cbn [repeat forallb Z.eqb andb]. assumption. Qed.

Section BlsRoundTrip.
  Variable c : wcodec.
  Hypothesis OK : wcodec_ok c.
  Hypothesis Hlen1 : (1 <= wc_len c)%nat.
  (* the modulus leaves the three flag bits free *)
  Hypothesis Hflags : 8 * wc_p c <= 256 ^ Z.of_nat (wc_len c).
  Let p := wc_p c.
  Let Hp2 : 2 <= p := prime_ge_2 _ (ok_prime c OK).
  Let Hodd : p mod 2 = 1 :=
    p_odd_of_ts p (wc_e c) (wc_g c) (ok_e c OK) (ok_m c OK).

  Lemma w_sqrt_complete x y :
    w_on_curve (wc c) (Some (x, y)) = true -> 0 <= y < p ->
    exists s, wc_sqrt c (wc_rhs c x) = Some s /\ (s = y \/ s = negm p y).
  Proof.
    intros Hc Hy. rewrite (on_curve_rhs c x y Hc). fold p.
    destruct (ts_sqrt_complete p (wc_e c) (wc_g c) (wc_rou c) (ok_prime c OK) (ok_e c OK) (ok_m c OK) (ok_g c OK) (ok_rou c OK) y Hy)
      as [s Hs].
    exists s. unfold wc_sqrt. fold p. split; [exact Hs|].
    assert (Hp0 : 0 < p) by lia.
    pose proof (ts_sqrt_range p _ _ _ _ _ Hp0 Hs) as Hr. apply ts_sqrt_sound in Hs.
    apply prime_sq_eq; try assumption; [exact (ok_prime c OK)|].
    unfold eqm. unfold mulm in Hs. rewrite Hs. apply Zmod_mod.
  Qed.

  Theorem blsg1_roundtrip_c P :
    w_on_curve (wc c) P = true -> w_canon c P -> w_in_subgroup c P ->
    blsg1_dec_c c (blsg1_enc_c c P) = Some P.
  Proof.
    intros Hc Hr Hs.
    assert (Ek : exists k, wc_len c = S k) by (exists (wc_len c - 1)%nat; lia).
    destruct Ek as [k Ek].
    set (N := 256 ^ Z.of_nat k).
    assert (HN : 0 < N) by apply pow256_pos.
    assert (Hhi : 2 ^ (8 * Z.of_nat (wc_len c) - 1) = 128 * N).
    { rewrite Ek, Nat2Z.inj_succ. replace (8 * Z.succ (Z.of_nat k) - 1) with (7 + 8 * Z.of_nat k) by lia.
      rewrite Z.pow_add_r, Z.pow_mul_r by lia. reflexivity. }
    assert (HpN : p <= 32 * N).
    { fold p in Hflags. rewrite Ek, pow256_S in Hflags. fold N in Hflags. lia. }
    unfold blsg1_enc_c, blsg1_dec_c. cbv zeta. rewrite Hhi.
    replace (128 * N / 2) with (64 * N) by (replace (128 * N) with (64 * N * 2) by ring; now rewrite Z.div_mul).
    replace (128 * N / 4) with (32 * N) by (replace (128 * N) with (32 * N * 4) by ring; now rewrite Z.div_mul).
    destruct P as [[x y]|].
    - cbn [w_canon] in Hr. destruct Hr as [Hx Hy]. fold p in Hx, Hy.
      set (f := if is_neg (wc_p c) y then 32 * N else 0).
      rewrite be_enc_length, Nat.eqb_refl. cbn [negb]. rewrite Ek, be_enc_cons. fold N.
      set (fb := if is_neg (wc_p c) y then 1 else 0).
      assert (Hf : f = fb * 32 * N) by (unfold f, fb; destruct (is_neg _ _); ring).
      assert (Hfb : fb = 0 \/ fb = 1) by (unfold fb; destruct (is_neg _ _); auto).
      assert (Hdiv : (x + 128 * N + f) / N = x / N + (128 + 32 * fb)).
      { rewrite Hf. replace (x + 128 * N + fb * 32 * N) with (x + (128 + 32 * fb) * N) by ring.
        now rewrite Z.div_add by lia. }
      assert (Hxt : 0 <= x / N < 32).
      { split; [apply Z.div_pos; lia|apply Z.div_lt_upper_bound; lia]. }
      set (t := x / N) in *.
      assert (Htop : ((x + 128 * N + f) / N) mod 256 = 128 + 32 * fb + t).
      { rewrite Hdiv. rewrite Z.mod_small by lia. ring. }
      rewrite Htop.
      assert (FC : flagC (128 + 32 * fb + t) = 1).
      { unfold flagC. replace (128 + 32 * fb + t) with ((32 * fb + t) + 1 * 128) by ring.
        rewrite Z.div_add, Z.div_small by lia. reflexivity. }
      assert (FI : flagI (128 + 32 * fb + t) = 0).
      { unfold flagI. replace (128 + 32 * fb + t) with ((32 * fb + t) + 2 * 64) by ring.
        rewrite Z.div_add, Z.div_small by lia. reflexivity. }
      assert (FS : flagS (128 + 32 * fb + t) = fb).
      { unfold flagS. replace (128 + 32 * fb + t) with (t + (4 + fb) * 32) by ring.
        rewrite Z.div_add, Z.div_small by lia. destruct Hfb as [-> | ->]; reflexivity. }
      assert (FM : (128 + 32 * fb + t) mod 32 = t).
      { replace (128 + 32 * fb + t) with (t + (4 + fb) * 32) by ring.
        rewrite Z_mod_plus_full. apply Z.mod_small. lia. }
      rewrite FC, FI, FS, FM. cbn [Z.eqb Pos.eqb negb].
      rewrite be_val_cons, be_enc_length, be_val_be_enc_mod. fold N.
      assert (Hxv : (x + 128 * N + f) mod N + N * t = x).
      { rewrite Hf. replace (x + 128 * N + fb * 32 * N) with (x + (128 + 32 * fb) * N) by ring.
        rewrite Z_mod_plus_full. unfold t. pose proof (Z.div_mod x N ltac:(lia)). lia. }
      rewrite Hxv. fold p. rewrite (Z.mod_small x p) by lia.
      destruct (w_sqrt_complete x y Hc Hy) as [s [Es Ss]]. rewrite Es.
      assert (Sg : (fb =? 1) = is_neg p y).
      { unfold fb. fold p. destruct (is_neg p y); reflexivity. }
      rewrite Sg, (fix_sign p s y Hodd Hy Ss).
      apply w_torsion_free_spec in Hs. rewrite Hs. reflexivity.
    - rewrite be_enc_length, Nat.eqb_refl. cbn [negb]. rewrite Ek, be_enc_cons. fold N.
      replace (128 * N + 64 * N) with (0 + 192 * N) by ring.
      rewrite Z.div_add, Z.div_0_l by lia. cbn [Z.add]. change (192 mod 256) with 192.
      change (flagC 192) with 1. change (flagI 192) with 1. change (flagS 192) with 0.
      cbn [Z.eqb Pos.eqb negb]. change (192 mod 32) with 0. cbn [Z.eqb andb].
      assert (AZ : all_zero (be_enc k (192 * N)) = true).
      { unfold N, be_enc. rewrite le_enc_mult, rev_zeros. apply all_zero_zeros. }
      rewrite AZ. reflexivity.
  Qed.

  Theorem blsg1_roundtrip_u P :
    w_on_curve (wc c) P = true -> w_canon c P -> w_in_subgroup c P ->
    blsg1_dec_u c (blsg1_enc_u c P) = Some P.
  Proof.
    intros Hc Hr Hs.
    assert (Ek : exists k, wc_len c = S k) by (exists (wc_len c - 1)%nat; lia).
    destruct Ek as [k Ek].
    set (N := 256 ^ Z.of_nat k).
    assert (HN : 0 < N) by apply pow256_pos.
    assert (HpN : p <= 32 * N).
    { fold p in Hflags. rewrite Ek, pow256_S in Hflags. fold N in Hflags. lia. }
    unfold blsg1_enc_u, blsg1_dec_u. destruct P as [[x y]|].
    - cbn [w_canon] in Hr. destruct Hr as [Hx Hy]. fold p in Hx, Hy.
      rewrite app_length, !be_enc_length.
      replace (wc_len c + wc_len c)%nat with (2 * wc_len c)%nat by lia.
      rewrite Nat.eqb_refl. cbn [negb]. rewrite Ek at 1. rewrite be_enc_cons. fold N. cbn [app].
      assert (Hxt : 0 <= x / N < 32).
      { split; [apply Z.div_pos; lia|apply Z.div_lt_upper_bound; lia]. }
      set (t := x / N) in *.
      rewrite (Z.mod_small t 256) by lia.
      assert (FI : flagI t = 0) by (unfold flagI; rewrite Z.div_small by lia; reflexivity).
      assert (FC : flagC t = 0) by (unfold flagC; rewrite Z.div_small by lia; reflexivity).
      assert (FS : flagS t = 0) by (unfold flagS; rewrite Z.div_small by lia; reflexivity).
      rewrite FI, FC, FS. cbn [Z.eqb]. cbv zeta.
      rewrite (Z.mod_small t 32) by lia.
      replace (wc_len c - 1)%nat with k by lia.
      rewrite firstn_app_len, skipn_app_len by apply be_enc_length.
      rewrite be_val_cons, be_enc_length, be_val_be_enc_mod. fold N.
      assert (Hxv : x mod N + N * t = x) by (unfold t; pose proof (Z.div_mod x N ltac:(lia)); lia).
      rewrite Hxv. pose proof (ok_len c OK) as Hl. fold p in Hl.
      rewrite be_val_be_enc by lia. fold p. rewrite !Z.mod_small by lia.
      unfold w_set_affine. fold p. rewrite (on_curve_rhs c x y Hc). fold p. rewrite Z.eqb_refl.
      apply w_torsion_free_spec in Hs. rewrite Hs. reflexivity.
    - cbn [length]. rewrite zeros_length. replace (S (2 * wc_len c - 1)) with (2 * wc_len c)%nat by lia.
      rewrite Nat.eqb_refl. cbn [negb]. change (flagC 64) with 0. change (flagS 64) with 0.
      change (flagI 64) with 1. cbn [Z.eqb Pos.eqb]. change (64 mod 32) with 0. cbn [Z.eqb andb].
      rewrite all_zero_zeros. reflexivity.
  Qed.
End BlsRoundTrip.

Lemma blsg1_flag_room : 8 * wc_p blsg1_codec <= 256 ^ Z.of_nat (wc_len blsg1_codec).
Proof. vm_compute. discriminate. Qed.

Theorem blsg1_roundtrip_instance P : prime bls12381_p ->
  w_on_curve (wc blsg1_codec) P = true -> w_canon blsg1_codec P -> w_in_subgroup blsg1_codec P ->
  blsg1_dec_c blsg1_codec (blsg1_enc_c blsg1_codec P) = Some P /\
  blsg1_dec_u blsg1_codec (blsg1_enc_u blsg1_codec P) = Some P.
Proof.
  intros Hp Hc Hr Hs. pose proof (blsg1_codec_ok Hp) as OK.
  assert (L : (1 <= wc_len blsg1_codec)%nat) by (vm_compute; repeat constructor).
  split; [apply blsg1_roundtrip_c|apply blsg1_roundtrip_u]; auto using blsg1_flag_room.
Qed.


(* ---- edwards25519 base field, wide reduction by hand (Fp.SetBytesWide) -------------------------- *)

Lemma le_val_bound l : is_bytes l -> 0 <= le_val l < 256 ^ Z.of_nat (length l).
Proof.
  induction 1 as [|b l Hb Hl IH]; cbn [le_val length].
  - change (256 ^ Z.of_nat 0) with 1. lia.
  - rewrite pow256_S. lia.
Qed.

Lemma is_bytes_app a b : is_bytes a -> is_bytes b -> is_bytes (a ++ b).
Proof. intros. apply Forall_app. auto. Qed.

Lemma is_bytes_zeros k : is_bytes (zeros k).
Proof. unfold zeros. induction k; constructor; [lia|assumption]. Qed.

Lemma is_bytes_rev l : is_bytes l -> is_bytes (rev l).
Proof. intros H. apply Forall_rev. exact H. Qed.

Lemma is_bytes_firstn n l : is_bytes l -> is_bytes (firstn n l).
Proof.
  revert l; induction n as [|n IH]; intros [|x l] H; cbn [firstn]; try constructor;
    inversion H; subst; auto. apply IH; assumption.
Qed.

Lemma is_bytes_skipn n l : is_bytes l -> is_bytes (skipn n l).
Proof.
  revert l; induction n as [|n IH]; intros [|x l] H; cbn [skipn]; try assumption.
  inversion H; subst. apply IH; assumption.
Qed.

Theorem fld25519_from_wide_reduces p bs v :
  p = 2 ^ 255 - 19 -> is_bytes bs ->
  fld25519_from_wide p bs = Some v -> (length bs <= 64)%nat /\ v = be_val bs mod p.
Proof.
  intros Hp Hb. cbv beta delta [fld25519_from_wide].
  destruct (Nat.leb (length bs) 64) eqn:E; [|discriminate]. apply Nat.leb_le in E.
  cbv zeta. intros H. apply some_inj in H. subst v. split; [exact E|].
  set (le := rev bs ++ zeros (64 - length bs)).
  assert (Hl : length le = 64%nat) by (unfold le; rewrite app_length, rev_length, zeros_length; lia).
  assert (Hle : is_bytes le) by (unfold le; apply is_bytes_app; [now apply is_bytes_rev|apply is_bytes_zeros]).
  assert (Hv : be_val bs = le_val le) by (unfold be_val, le; now rewrite le_val_pad).
  rewrite Hv, (firstn_skipn_val 32 le), firstn_length, Hl.
  change (Nat.min 32 64) with 32%nat.
  set (w0 := le_val (firstn 32 le)). set (w1 := le_val (skipn 32 le)).
  assert (B0 : 0 <= w0 < 2 ^ 256).
  { pose proof (le_val_bound (firstn 32 le) (is_bytes_firstn 32 le Hle)) as B.
    rewrite firstn_length, Hl in B. exact B. }
  assert (B1 : 0 <= w1 < 2 ^ 256).
  { pose proof (le_val_bound (skipn 32 le) (is_bytes_skipn 32 le Hle)) as B.
    rewrite skipn_length, Hl in B. exact B. }
  assert (T : 2 ^ 256 = 2 * 2 ^ 255) by reflexivity.
  pose proof (Z.div_mod w0 (2 ^ 255) ltac:(lia)) as D0.
  pose proof (Z.div_mod w1 (2 ^ 255) ltac:(lia)) as D1.
  pose proof (Z.mod_pos_bound w0 (2 ^ 255) ltac:(lia)) as M0.
  pose proof (Z.mod_pos_bound w1 (2 ^ 255) ltac:(lia)) as M1.
  set (q0 := w0 / 2 ^ 255) in *. set (r0 := w0 mod 2 ^ 255) in *.
  set (q1 := w1 / 2 ^ 255) in *. set (r1 := w1 mod 2 ^ 255) in *.
  assert (Q0 : q0 = 0 \/ q0 = 1) by nia.
  assert (Q1 : q1 = 0 \/ q1 = 1) by nia.
  assert (P255 : eqm p (2 ^ 255) 19).
  { unfold eqm. replace (2 ^ 255) with (19 + 1 * p) by lia. apply Z_mod_plus_full. }
  assert (E0 : eqm p (if q0 =? 1 then 19 else 0) (q0 * 2 ^ 255)).
  { destruct Q0 as [-> | ->]; cbn [Z.eqb Pos.eqb]; [reflexivity|]. rewrite P255. reflexivity. }
  assert (E1 : eqm p (if q1 =? 1 then 722 else 0) (q1 * 2 ^ 255 * 2 ^ 256)).
  { destruct Q1 as [-> | ->]; cbn [Z.eqb Pos.eqb]; [reflexivity|].
    rewrite T, P255. reflexivity. }
  change (256 ^ Z.of_nat 32) with (2 ^ 256).
  unfold_m.
  match goal with |- ?L mod _ = ?R mod _ => change (eqm p L R) end.
  pose proof (mod_eqm p) as Hq. rewrite_strat (repeat (outermost Hq)). clear Hq.
  rewrite E0, E1.
  assert (P256 : eqm p 38 (2 ^ 256)).
  { rewrite T, P255. reflexivity. }
  rewrite P256. rewrite D0, D1.
  set (A := 2 ^ 255). set (B := 2 ^ 256). apply eqm_refl_eq. ring.
Qed.

(* ---- BLS12-381 G2 ------------------------------------------------------------------------------ *)

Definition w2_in_subgroup (c : w2codec) (P : w2pt) : Prop := w2_mul (w2c c) (w2_n (w2c c)) P = None.

Lemma w2_torsion_free_spec c P : w2_torsion_free c P = true <-> w2_in_subgroup c P.
Proof.
  unfold w2_torsion_free, w2_in_subgroup. destruct (w2_mul (w2c c) (w2_n (w2c c)) P); split; congruence.
Qed.

Lemma iter_op_inf2 (K : fops z2) a q : Pos.iter_op (waff_add K a) q None = None.
Proof. induction q as [q IH|q IH|]; cbn [Pos.iter_op waff_add]; auto. Qed.

Lemma w2_mul_inf c k : w2_mul c k None = None.
Proof.
  unfold w2_mul, waff_mul. destruct k as [|q|q]; [reflexivity| |]; rewrite iter_op_inf2; reflexivity.
Qed.

(* the code's  x^2 * x + b  is the curve polynomial of Curve.on_curve when a = 0 (AddA is the
   identity in g2_params.go) *)
Lemma w2_set_affine_on_curve c x y P : w2_a (w2c c) = (0, 0) ->
  w2_set_affine c x y = Some P -> P = Some (x, y) /\ w2_on_curve (w2c c) P = true.
Proof.
  intros Ha. unfold w2_set_affine. destruct (feqb (K2 c) _ _) eqn:E; [|discriminate].
  intros [= <-]. split; [reflexivity|].
  unfold w2_on_curve, on_curve. rewrite Ha. unfold w2_rhs, K2, w2c_p in E.
  destruct x as [x0 x1], y as [y0 y1]. destruct (w2_b (w2c c)) as [b0 b1].
  revert E. cbn [Fp2 feqb fmul fadd fp2_mul fst snd].
  rewrite !andb_true_iff, !Z.eqb_eq. intros [E0 E1]. rewrite E0, E1.
  split; zmod.
Qed.

Theorem blsg2_dec_u_valid c bs P : w2_a (w2c c) = (0, 0) ->
  blsg2_dec_u c bs = Some P -> w2_on_curve (w2c c) P = true /\ w2_in_subgroup c P.
Proof.
  intros Ha. unfold blsg2_dec_u. destruct (negb (Nat.eqb (length bs) (4 * w2c_len c))); [discriminate|].
  destruct bs as [|b0 r]; [discriminate|].
  destruct (flagC b0 =? 1); [discriminate|]. destruct (flagS b0 =? 1); [discriminate|].
  destruct (flagI b0 =? 1).
  - destruct ((b0 mod 32 =? 0) && all_zero r); [|discriminate].
    intros [= <-]. split; [reflexivity|apply w2_mul_inf].
  - cbv zeta. match goal with |- match ?e with _ => _ end = _ -> _ => destruct e as [Q|] eqn:E end; [|discriminate].
    destruct (w2_torsion_free c Q) eqn:T; [|discriminate].
    intros [= <-]. apply (w2_set_affine_on_curve c _ _ _ Ha) in E. split; [tauto|now apply w2_torsion_free_spec].
Qed.

Theorem blsg2_from_affine_valid c x y P : w2_a (w2c c) = (0, 0) ->
  blsg2_from_affine c x y = Some P ->
  P = Some (x, y) /\ w2_on_curve (w2c c) P = true /\ w2_in_subgroup c P.
Proof.
  intros Ha. unfold blsg2_from_affine. destruct (w2_set_affine c x y) as [Q|] eqn:E; [|discriminate].
  destruct (w2_torsion_free c Q) eqn:T; [|discriminate].
  intros [= <-]. apply (w2_set_affine_on_curve c _ _ _ Ha) in E. repeat split; try tauto. now apply w2_torsion_free_spec.
Qed.

Theorem blsg2_wrong_length c bs :
  (length bs <> (2 * w2c_len c)%nat -> blsg2_dec_c c bs = None) /\
  (length bs <> (4 * w2c_len c)%nat -> blsg2_dec_u c bs = None).
Proof.
  split; intros H; [unfold blsg2_dec_c|unfold blsg2_dec_u];
    match goal with |- (if negb ?b then _ else _) = _ => destruct b eqn:E end; try reflexivity;
    apply Nat.eqb_eq in E; contradiction.
Qed.

Theorem blsg2_wrong_flags c b0 r :
  (flagC b0 <> 1 -> blsg2_dec_c c (b0 :: r) = None) /\
  (flagI b0 = 1 -> flagS b0 = 1 -> blsg2_dec_c c (b0 :: r) = None) /\
  (flagI b0 = 1 -> (b0 mod 32 <> 0 \/ all_zero r = false) -> blsg2_dec_c c (b0 :: r) = None) /\
  (flagC b0 = 1 -> blsg2_dec_u c (b0 :: r) = None) /\
  (flagS b0 = 1 -> blsg2_dec_u c (b0 :: r) = None) /\
  (flagI b0 = 1 -> (b0 mod 32 <> 0 \/ all_zero r = false) -> blsg2_dec_u c (b0 :: r) = None).
Proof.
  repeat apply conj.
  - intros H. unfold blsg2_dec_c. destruct (negb (Nat.eqb _ _)); [reflexivity|].
    apply Z.eqb_neq in H. rewrite H. reflexivity.
  - intros HI HS. unfold blsg2_dec_c. destruct (negb (Nat.eqb _ _)); [reflexivity|].
    destruct (negb (flagC b0 =? 1)); [reflexivity|]. rewrite HI, HS. reflexivity.
  - intros HI H. unfold blsg2_dec_c. destruct (negb (Nat.eqb _ _)); [reflexivity|].
    destruct (negb (flagC b0 =? 1)); [reflexivity|]. rewrite HI. cbn [Z.eqb Pos.eqb].
    destruct (flagS b0 =? 1); [reflexivity|].
    destruct H as [H|H]; [apply Z.eqb_neq in H; rewrite H|rewrite H, andb_false_r]; reflexivity.
  - intros H. unfold blsg2_dec_u. destruct (negb (Nat.eqb _ _)); [reflexivity|]. rewrite H. reflexivity.
  - intros H. unfold blsg2_dec_u. destruct (negb (Nat.eqb _ _)); [reflexivity|].
    destruct (flagC b0 =? 1); [reflexivity|]. rewrite H. reflexivity.
  - intros HI H. unfold blsg2_dec_u. destruct (negb (Nat.eqb _ _)); [reflexivity|].
    destruct (flagC b0 =? 1); [reflexivity|]. destruct (flagS b0 =? 1); [reflexivity|].
    rewrite HI. cbn [Z.eqb Pos.eqb].
    destruct H as [H|H]; [apply Z.eqb_neq in H; rewrite H|rewrite H, andb_false_r]; reflexivity.
Qed.

(* ---- GT ------------------------------------------------------------------------------------------ *)

Theorem gt_from_bytes_valid p r len bs x :
  gt_from_bytes p r len bs = Some x ->
  length bs = (12 * len)%nat /\
  gt_coeffs x = map (fun ch => be_val ch mod p) (chunks len 12 bs) /\
  fp12_eqb p (fp12_pow p x r) (fp12_one p) = true.
Proof.
  cbv beta delta [gt_from_bytes]. destruct (Nat.eqb (length bs) (12 * len)) eqn:E; [|discriminate].
  cbn [negb]. apply Nat.eqb_eq in E.
  destruct (gt_of_coeffs _) as [y|] eqn:G; [|discriminate].
  destruct (fp12_eqb p (fp12_pow p y r) (fp12_one p)) eqn:M; [|discriminate].
  intros H. apply some_inj in H. subst y. repeat split; [exact E| |exact M].
  revert G. generalize (map (fun ch : list Z => be_val ch mod p) (chunks len 12 bs)). intros l.
  unfold gt_of_coeffs.
  do 12 (destruct l as [|? l]; [discriminate|]). destruct l; [|discriminate].
  intros H. apply some_inj in H. subst x. reflexivity.
Qed.

(* ---- Fp2 square root (the library's algorithm) is sound ---------------------------------------- *)

Lemma fp2_sqrt_general_alg p v0 v1 rt r0 H I s :
  eqm p (rt * rt) (v0 * v0 + v1 * v1) ->
  eqm p (r0 * r0) ((v0 + s * rt) * H) -> s * s = 1 ->
  eqm p (2 * H) 1 -> eqm p ((r0 + r0) * I) 1 ->
  eqm p (r0 * r0 - (I * v1) * (I * v1)) v0 /\ eqm p (r0 * (I * v1) + (I * v1) * r0) v1.
Proof.
  intros E1 E2 Hs E3 E4. split.
  - set (A := r0 * r0 - I * v1 * (I * v1)).
    assert (K1 : eqm p (4 * (r0 * r0) * (r0 * r0) - v1 * v1) (4 * (r0 * r0) * v0)).
    { rewrite E2.
      replace (4 * ((v0 + s * rt) * H) * ((v0 + s * rt) * H)) with ((2 * H) * (2 * H) * ((v0 + s * rt) * (v0 + s * rt))) by ring.
      replace (4 * ((v0 + s * rt) * H) * v0) with (2 * (2 * H) * ((v0 + s * rt) * v0)) by ring.
      rewrite E3.
      replace (1 * 1 * ((v0 + s * rt) * (v0 + s * rt)) - v1 * v1)
        with (v0 * v0 + 2 * s * v0 * rt + (s * s) * (rt * rt) - v1 * v1) by ring.
      rewrite Hs, E1. apply eqm_refl_eq. ring. }
    assert (S1 : eqm p ((r0 + r0) * (r0 + r0) * A) ((r0 + r0) * (r0 + r0) * v0)).
    { unfold A.
      replace ((r0 + r0) * (r0 + r0) * (r0 * r0 - I * v1 * (I * v1)))
        with (4 * (r0 * r0) * (r0 * r0) - ((r0 + r0) * I) * ((r0 + r0) * I) * (v1 * v1)) by ring.
      rewrite E4. replace (4 * (r0 * r0) * (r0 * r0) - 1 * 1 * (v1 * v1)) with (4 * (r0 * r0) * (r0 * r0) - v1 * v1) by ring.
      rewrite K1. apply eqm_refl_eq. ring. }
    transitivity (((r0 + r0) * I) * ((r0 + r0) * I) * A).
    { rewrite E4. apply eqm_refl_eq. ring. }
    replace ((r0 + r0) * I * ((r0 + r0) * I) * A) with (I * I * ((r0 + r0) * (r0 + r0) * A)) by ring.
    rewrite S1.
    replace (I * I * ((r0 + r0) * (r0 + r0) * v0)) with (((r0 + r0) * I) * ((r0 + r0) * I) * v0) by ring.
    rewrite E4. apply eqm_refl_eq. ring.
  - replace (r0 * (I * v1) + I * v1 * r0) with (((r0 + r0) * I) * v1) by ring.
    rewrite E4. apply eqm_refl_eq. ring.
Qed.

Lemma ts_sqrt_eqm p e g rou v s : ts_sqrt p e g rou v = Some s -> eqm p (s * s) v.
Proof. intros H. apply ts_sqrt_sound in H. unfold eqm. unfold mulm in H. exact H. Qed.

Theorem fp2_sqrt_sound c v y : prime (w2c_p c) -> 2 < w2c_p c ->
  fp2_sqrt c v = Some y ->
  fmul (K2 c) y y = (fst v mod w2c_p c, snd v mod w2c_p c).
Proof.
  intros Hp Hp2. unfold fp2_sqrt. set (p := w2c_p c). destruct v as [v0 v1]. cbn [fst snd].
  destruct (v1 =? 0) eqn:Ev.
  - apply Z.eqb_eq in Ev. subst v1.
    destruct (w2c_sqrt_p c v0) as [s0|] eqn:E0.
    + intros [= <-]. apply ts_sqrt_eqm in E0. fold p in E0.
      unfold K2. fold p. cbn [Fp2 fmul fp2_mul]. f_equal.
      * unfold eqm in E0. rewrite <- E0. zmod.
      * rewrite Zmod_0_l. rewrite Z.mul_0_r, Z.mul_0_l. reflexivity.
    + destruct (w2c_sqrt_p c (negm p v0)) as [s1|] eqn:E1; [|discriminate].
      intros [= <-]. apply ts_sqrt_eqm in E1. fold p in E1.
      unfold K2. fold p. cbn [Fp2 fmul fp2_mul]. f_equal.
      * assert (E : eqm p (0 * 0 - s1 * s1) v0).
        { rewrite E1. unfold negm. rewrite (mod_eqm p). apply eqm_refl_eq. ring. }
        exact E.
      * rewrite Zmod_0_l, Z.mul_0_l, Z.mul_0_r. reflexivity.
  - apply Z.eqb_neq in Ev.
    destruct (w2c_sqrt_p c (addm p (mulm p v0 v0) (mulm p v1 v1))) as [rt|] eqn:Er; [|discriminate].
    cbv zeta. set (H := zp_inv p (2 mod p)).
    assert (E1 : eqm p (rt * rt) (v0 * v0 + v1 * v1)).
    { apply ts_sqrt_eqm in Er. fold p in Er. rewrite Er. unfold_m.
      pose proof (mod_eqm p) as Hq. rewrite_strat (repeat (outermost Hq)). reflexivity. }
    assert (E3 : eqm p (2 * H) 1).
    { unfold eqm, H. rewrite <- (Zmult_mod_idemp_l 2).
      rewrite (zp_inv_correct p (2 mod p) Hp); [symmetry; apply one_mod; lia|].
      rewrite Z.mod_small by lia. lia. }
    assert (Fin : forall r0 s, s * s = 1 ->
              eqm p (r0 * r0) ((v0 + s * rt) * H) ->
              (if addm p r0 r0 =? 0 then None else Some (r0, mulm p (zp_inv p (addm p r0 r0)) v1)) = Some y ->
              fmul (K2 c) y y = (v0 mod p, v1 mod p)).
    { intros r0 s Hs E2. destruct (addm p r0 r0 =? 0) eqn:Ec; [discriminate|]. apply Z.eqb_neq in Ec.
      intros [= <-]. set (I := zp_inv p (addm p r0 r0)).
      assert (E4 : eqm p ((r0 + r0) * I) 1).
      { assert (R : 0 < addm p r0 r0 < p).
        { assert (0 <= addm p r0 r0 < p) by (unfold addm; apply Z.mod_pos_bound; lia). lia. }
        pose proof (zp_inv_correct p _ Hp R) as Hi. fold I in Hi.
        unfold eqm. rewrite <- Hi. unfold addm. zmod. }
      destruct (fp2_sqrt_general_alg p v0 v1 rt r0 H I s E1 E2 Hs E3 E4) as [G0 G1].
      unfold K2. fold p. cbn [Fp2 fmul fp2_mul]. unfold mulm. f_equal.
      - unfold eqm in G0. rewrite <- G0. zmod.
      - unfold eqm in G1. rewrite <- G1. zmod. }
    destruct (w2c_sqrt_p c (mulm p (subm p v0 rt) H)) as [sn|] eqn:En.
    + apply (Fin sn (-1)); [reflexivity|].
      apply ts_sqrt_eqm in En. fold p in En. rewrite En. unfold_m.
      pose proof (mod_eqm p) as Hq. rewrite_strat (repeat (outermost Hq)). apply eqm_refl_eq. ring.
    + destruct (w2c_sqrt_p c (mulm p (addm p v0 rt) H)) as [sp|] eqn:Ep; [|discriminate].
      apply (Fin sp 1); [reflexivity|].
      apply ts_sqrt_eqm in Ep. fold p in Ep. rewrite Ep. unfold_m.
      pose proof (mod_eqm p) as Hq. rewrite_strat (repeat (outermost Hq)). apply eqm_refl_eq. ring.
Qed.

Lemma fp2_neg_sq p y : fp2_mul p (fopp (Fp2 p) y) (fopp (Fp2 p) y) = fp2_mul p y y.
Proof. destruct y as [y0 y1]. cbn [Fp2 fopp fp2_mul fst snd]. f_equal; zmod. Qed.

Lemma w2_on_curve_of_sq c x y : w2_a (w2c c) = (0, 0) ->
  fmul (K2 c) y y = w2_rhs c x -> w2_on_curve (w2c c) (Some (x, y)) = true.
Proof.
  intros Ha E.
  assert (S : w2_set_affine c x y = Some (Some (x, y))).
  { unfold w2_set_affine. rewrite E. destruct (w2_rhs c x) as [a0 a1].
    unfold K2. cbn [Fp2 feqb fst snd]. now rewrite !Z.eqb_refl. }
  apply (w2_set_affine_on_curve c _ _ _ Ha) in S. tauto.
Qed.

Theorem blsg2_dec_c_valid c bs P : prime (w2c_p c) -> 2 < w2c_p c -> w2_a (w2c c) = (0, 0) ->
  blsg2_dec_c c bs = Some P -> w2_on_curve (w2c c) P = true /\ w2_in_subgroup c P.
Proof.
  intros Hp Hp2 Ha. unfold blsg2_dec_c. destruct (negb (Nat.eqb (length bs) (2 * w2c_len c))); [discriminate|].
  destruct bs as [|b0 r]; [discriminate|].
  destruct (negb (flagC b0 =? 1)); [discriminate|].
  destruct (flagI b0 =? 1).
  - destruct (flagS b0 =? 1); [discriminate|].
    destruct ((b0 mod 32 =? 0) && all_zero r); [|discriminate].
    intros [= <-]. split; [reflexivity|apply w2_mul_inf].
  - cbv zeta. set (x := (_, _)).
    destruct (fp2_sqrt c (w2_rhs c x)) as [y|] eqn:E; [|discriminate].
    match goal with |- (if w2_torsion_free c ?Q then _ else _) = _ -> _ =>
      destruct (w2_torsion_free c Q) eqn:T; [|discriminate] end.
    intros [= <-]. split; [|now apply w2_torsion_free_spec].
    apply (fp2_sqrt_sound c _ _ Hp Hp2) in E.
    assert (Hr : (fst (w2_rhs c x) mod w2c_p c, snd (w2_rhs c x) mod w2c_p c) = w2_rhs c x).
    { unfold w2_rhs, K2. cbn [Fp2 fadd fst snd]. now rewrite !Zmod_mod. }
    rewrite Hr in E.
    destruct (xorb _ _).
    + apply (w2_on_curve_of_sq c x _ Ha).
      change (fp2_mul (w2c_p c) (fopp (Fp2 (w2c_p c)) y) (fopp (Fp2 (w2c_p c)) y) = w2_rhs c x).
      rewrite fp2_neg_sq. exact E.
    + apply (w2_on_curve_of_sq c x _ Ha). exact E.
Qed.

(* ---- Fp2 square root is complete (p = 3 mod 4: -1 is a non-residue) ----------------------------- *)

Lemma neg1_nonresidue p s : prime p -> p mod 4 = 3 -> ~ eqm p (s * s) (-1).
Proof.
  intros Hp H4 E. pose proof (prime_ge_2 _ Hp) as Hp2.
  pose proof (Z.div_mod p 4 ltac:(lia)) as D. rewrite H4 in D. set (k := p / 4) in *.
  assert (Hk : 0 <= k) by (unfold k; apply Z.div_pos; lia).
  destruct (Z.eq_dec (s mod p) 0) as [S0|S0].
  - assert (E0 : eqm p (s * s) 0).
    { unfold eqm. rewrite Zmult_mod, S0. reflexivity. }
    rewrite E0 in E. unfold eqm in E. rewrite Zmod_0_l in E.
    replace (-1) with (p - 1 + (-1) * p) in E by ring. rewrite Z_mod_plus_full, Z.mod_small in E by lia. lia.
  - assert (F : (s mod p) ^ (p - 1) mod p = 1).
    { apply Z_fermat; [exact Hp|]. apply Zgcd_1_rel_prime. apply rel_prime_le_prime; [exact Hp|].
      pose proof (Z.mod_pos_bound s p ltac:(lia)). lia. }
    rewrite <- Zpower_mod in F by lia.
    replace (p - 1) with (2 * (2 * k + 1)) in F by lia.
    rewrite Z.pow_mul_r, Z.pow_2_r in F by lia.
    assert (E' : eqm p ((s * s) ^ (2 * k + 1)) ((-1) ^ (2 * k + 1))) by (apply pow_eqm; [lia|exact E]).
    unfold eqm in E'. rewrite F in E'.
    replace ((-1) ^ (2 * k + 1)) with (-1) in E'.
    2:{ rewrite Z.pow_add_r, Z.pow_mul_r, Z.pow_1_r by lia. change ((-1) ^ 2) with 1. rewrite Z.pow_1_l by lia. reflexivity. }
    replace (-1) with (p - 1 + (-1) * p) in E' by ring. rewrite Z_mod_plus_full, Z.mod_small in E' by lia. lia.
Qed.

(* a non-zero multiple of -1 times a square is not a square *)
Lemma neg_sq_nonresidue p w s : prime p -> p mod 4 = 3 -> 0 < w < p -> ~ eqm p (s * s) (- (w * w)).
Proof.
  intros Hp H4 Hw E. pose proof (zp_inv_correct p w Hp Hw) as Hi. set (i := zp_inv p w) in *.
  assert (Hi' : eqm p (w * i) 1).
  { unfold eqm. rewrite Hi. symmetry. apply one_mod. pose proof (prime_ge_2 _ Hp). lia. }
  apply (neg1_nonresidue p (s * i) Hp H4).
  replace (s * i * (s * i)) with (s * s * (i * i)) by ring. rewrite E.
  replace (- (w * w) * (i * i)) with (- ((w * i) * (w * i))) by ring. rewrite Hi'. reflexivity.
Qed.

Record w2codec_ok (c : w2codec) : Prop := mk_w2codec_ok {
  ok2_prime : prime (w2c_p c);
  ok2_p4 : w2c_p c mod 4 = 3;
  ok2_e : (1 <= w2c_e c)%nat;
  ok2_m : w2c_p c - 1 = 2 ^ Z.of_nat (w2c_e c) * (2 * w2c_g c + 1);
  ok2_g : 0 <= w2c_g c;
  ok2_rou : sq_iter (w2c_p c) (w2c_e c - 1) (w2c_rou c) = w2c_p c - 1;
  ok2_len : w2c_p c <= 256 ^ Z.of_nat (w2c_len c);
  ok2_a : w2_a (w2c c) = (0, 0)
}.

Definition z2_canon (p : Z) (y : z2) : Prop := 0 <= fst y < p /\ 0 <= snd y < p.

Lemma mulm_range p a b : 0 < p -> 0 <= mulm p a b < p.
Proof. intros. unfold mulm. apply Z.mod_pos_bound. lia. Qed.

Section Fp2Sqrt.
  Variable c : w2codec.
  Hypothesis OK : w2codec_ok c.
  Let p := w2c_p c.
  Let Hp : prime p := ok2_prime c OK.
  Let Hp2 : 2 <= p := prime_ge_2 _ Hp.
  Let H4 : p mod 4 = 3 := ok2_p4 c OK.

  Lemma p_gt2 : 2 < p.
  Proof. destruct (Z.eq_dec p 2) as [E|E]; [|lia]. pose proof H4 as H. rewrite E in H. discriminate. Qed.

  (* base-field square root: finds a root of w^2, which is w or -w; fails on non-squares *)
  Lemma sqp_complete w : 0 <= w < p ->
    exists s, w2c_sqrt_p c (mulm p w w) = Some s /\ (s = w \/ s = negm p w).
  Proof.
    intros Hw.
    destruct (ts_sqrt_complete p (w2c_e c) (w2c_g c) (w2c_rou c) Hp (ok2_e c OK) (ok2_m c OK) (ok2_g c OK) (ok2_rou c OK) w Hw)
      as [s Hs].
    exists s. split; [exact Hs|].
    assert (Hp0 : 0 < p) by lia.
    pose proof (ts_sqrt_range p _ _ _ _ _ Hp0 Hs) as Hr. apply ts_sqrt_eqm in Hs.
    apply prime_sq_eq; try assumption. rewrite Hs. unfold mulm. apply mod_eqm.
  Qed.

  Lemma sqp_of_eqm w v : 0 <= w < p -> 0 <= v < p -> eqm p v (w * w) ->
    exists s, w2c_sqrt_p c v = Some s /\ (s = w \/ s = negm p w).
  Proof.
    intros Hw Hv E. assert (v = mulm p w w).
    { unfold mulm. unfold eqm in E. rewrite <- E. symmetry. apply Z.mod_small. exact Hv. }
    subst v. now apply sqp_complete.
  Qed.

  Lemma sqp_none w v : 0 < w < p -> eqm p v (- (w * w)) -> w2c_sqrt_p c v = None.
  Proof.
    intros Hw E. destruct (w2c_sqrt_p c v) as [s|] eqn:Hs; [|reflexivity]. exfalso.
    apply ts_sqrt_eqm in Hs. fold p in Hs. rewrite E in Hs.
    exact (neg_sq_nonresidue p w s Hp H4 Hw Hs).
  Qed.

  Lemma negm_eqm x : eqm p (negm p x) (- x).
  Proof. unfold negm. apply mod_eqm. Qed.

  Lemma half_eqm : eqm p (2 * zp_inv p (2 mod p)) 1.
  Proof.
    pose proof p_gt2. unfold eqm. rewrite <- (Zmult_mod_idemp_l 2).
    rewrite (zp_inv_correct p (2 mod p) Hp); [symmetry; apply one_mod; lia|].
    rewrite Z.mod_small by lia. lia.
  Qed.

  Lemma prod_zero a b : 0 <= a < p -> 0 <= b < p -> eqm p (2 * a * b) 0 -> a = 0 \/ b = 0.
  Proof.
    intros Ha Hb E. pose proof p_gt2. unfold eqm in E. rewrite Zmod_0_l in E.
    apply Z.mod_divide in E; [|lia].
    replace (2 * a * b) with (2 * (a * b)) in E by ring.
    apply prime_mult in E; [|exact Hp]. destruct E as [E|E].
    - destruct E as [k E]. assert (k = 0) by nia. lia.
    - apply prime_mult in E; [|exact Hp]. destruct E as [[k E]|[k E]]; [left|right]; assert (k = 0) by nia; lia.
  Qed.

  Theorem fp2_sqrt_complete y : z2_canon p y ->
    exists s, fp2_sqrt c (fmul (K2 c) y y) = Some s /\ (s = y \/ s = fopp (K2 c) y).
  Proof.
    destruct y as [y0 y1]. intros [Hy0 Hy1]. cbn [fst snd] in Hy0, Hy1.
    pose proof p_gt2 as Hp3.
    unfold K2. fold p. cbn [Fp2 fmul fp2_mul fopp fst snd].
    set (v0 := (y0 * y0 - y1 * y1) mod p). set (v1 := (y0 * y1 + y1 * y0) mod p).
    assert (Hv0 : 0 <= v0 < p) by (apply Z.mod_pos_bound; lia).
    assert (Hv1 : 0 <= v1 < p) by (apply Z.mod_pos_bound; lia).
    assert (E0 : eqm p v0 (y0 * y0 - y1 * y1)) by apply mod_eqm.
    assert (E1 : eqm p v1 (2 * y0 * y1)).
    { unfold v1. rewrite (mod_eqm p). apply eqm_refl_eq. ring. }
    unfold fp2_sqrt. fold p.
    destruct (v1 =? 0) eqn:Ev.
    - apply Z.eqb_eq in Ev. rewrite Ev in E1. symmetry in E1.
      destruct (prod_zero y0 y1 Hy0 Hy1 E1) as [Z0|Z1].
      + (* y = y1 u *)
        subst y0. destruct (Z.eq_dec y1 0) as [->|N1].
        * (* y = 0 *)
          assert (v0 = 0) by (unfold v0; reflexivity). rewrite H.
          destruct (sqp_of_eqm 0 0 ltac:(lia) ltac:(lia) ltac:(reflexivity)) as [s [Hs S]]. rewrite Hs.
          exists (s, 0). split; [reflexivity|]. left. destruct S as [-> | ->]; [reflexivity|now rewrite negm_0].
        * assert (N : w2c_sqrt_p c v0 = None).
          { apply (sqp_none y1); [lia|]. rewrite E0. apply eqm_refl_eq. ring. }
          rewrite N.
          destruct (sqp_of_eqm y1 (negm p v0) Hy1 (negm_range p v0 ltac:(lia))) as [s [Hs S]].
          { rewrite negm_eqm, E0. apply eqm_refl_eq. ring. }
          rewrite Hs. exists (0, s). split; [reflexivity|].
          destruct S as [-> | ->]; [left; reflexivity|right]. unfold negm. now rewrite Zmod_0_l.
      + subst y1.
        destruct (sqp_of_eqm y0 v0 Hy0 Hv0) as [s [Hs S]].
        { rewrite E0. apply eqm_refl_eq. ring. }
        rewrite Hs. exists (s, 0). split; [reflexivity|].
        destruct S as [-> | ->]; [left; reflexivity|right]. unfold negm. now rewrite Zmod_0_l.
    - apply Z.eqb_neq in Ev.
      assert (N0 : y0 <> 0). { intros ->. apply Ev. unfold v1. now rewrite Z.mul_0_l, Z.mul_0_r, Zmod_0_l. }
      assert (N1 : y1 <> 0). { intros ->. apply Ev. unfold v1. now rewrite Z.mul_0_l, Z.mul_0_r, Zmod_0_l. }
      set (n := (y0 * y0 + y1 * y1) mod p).
      assert (Hn : 0 <= n < p) by (apply Z.mod_pos_bound; lia).
      destruct (sqp_of_eqm n (addm p (mulm p v0 v0) (mulm p v1 v1)) Hn) as [rt [Hrt Srt]].
      { unfold addm. apply Z.mod_pos_bound. lia. }
      { unfold_m. pose proof (mod_eqm p) as Hq. rewrite_strat (repeat (outermost Hq)). clear Hq.
        rewrite E0, E1. unfold n. rewrite (mod_eqm p). apply eqm_refl_eq. ring. }
      rewrite Hrt. cbv zeta. set (H := zp_inv p (2 mod p)). pose proof half_eqm as EH. fold H in EH.
      assert (En : eqm p n (y0 * y0 + y1 * y1)) by apply mod_eqm.
      (* the two candidates *)
      assert (Cands : (eqm p (mulm p (addm p v0 rt) H) (y0 * y0) /\ eqm p (mulm p (subm p v0 rt) H) (- (y1 * y1))) \/
                      (eqm p (mulm p (subm p v0 rt) H) (y0 * y0))).
      { destruct Srt as [-> | ->]; [left; split|right]; unfold_m;
          pose proof (mod_eqm p) as Hq; (rewrite_strat (repeat (outermost Hq))); clear Hq; rewrite E0, En.
        - replace ((y0 * y0 - y1 * y1 + (y0 * y0 + y1 * y1)) * H) with (y0 * y0 * (2 * H)) by ring.
          rewrite EH. apply eqm_refl_eq. ring.
        - replace ((y0 * y0 - y1 * y1 - (y0 * y0 + y1 * y1)) * H) with (- (y1 * y1) * (2 * H)) by ring.
          rewrite EH. apply eqm_refl_eq. ring.
        - replace ((y0 * y0 - y1 * y1 - - (y0 * y0 + y1 * y1)) * H) with (y0 * y0 * (2 * H)) by ring.
          rewrite EH. apply eqm_refl_eq. ring. }
      assert (Root : exists r0, (match w2c_sqrt_p c (mulm p (subm p v0 rt) H) with
                                 | Some sn => Some sn
                                 | None => w2c_sqrt_p c (mulm p (addm p v0 rt) H) end) = Some r0 /\
                                (r0 = y0 \/ r0 = negm p y0)).
      { destruct Cands as [[Cp Cn]|Cn].
        - assert (Hy1' : 0 < y1 < p) by lia.
          rewrite (sqp_none y1 (mulm p (subm p v0 rt) H) Hy1' Cn).
          apply (sqp_of_eqm y0); [exact Hy0|apply mulm_range; lia|exact Cp].
        - destruct (sqp_of_eqm y0 (mulm p (subm p v0 rt) H) Hy0 (mulm_range p _ _ ltac:(lia)) Cn) as [s [Hs S]].
          rewrite Hs. exists s. auto. }
      destruct Root as [r0 [Hr0 Sr0]]. rewrite Hr0.
      assert (Er : exists sg, sg * sg = 1 /\ eqm p r0 (sg * y0) /\
                   (sg = 1 /\ r0 = y0 \/ sg = -1 /\ r0 = negm p y0)).
      { destruct Sr0 as [-> | ->]; [exists 1|exists (-1)]; repeat split; auto.
        - apply eqm_refl_eq. ring.
        - rewrite negm_eqm. apply eqm_refl_eq. ring. }
      destruct Er as [sg [Hsg [Er Cases]]].
      assert (Hr0r : 0 < r0 < p).
      { destruct Cases as [[_ ->]|[_ ->]]; [lia|]. rewrite negm_nz by lia. lia. }
      assert (Hc2 : addm p r0 r0 <> 0).
      { unfold addm. intros Z. apply Z.mod_divide in Z; [|lia].
        replace (r0 + r0) with (2 * r0) in Z by ring.
        apply prime_mult in Z; [|exact Hp]. destruct Z as [[k Z]|[k Z]]; assert (k = 0) by nia; lia. }
      apply Z.eqb_neq in Hc2. rewrite Hc2. apply Z.eqb_neq in Hc2.
      set (I := zp_inv p (addm p r0 r0)).
      assert (E4 : eqm p ((r0 + r0) * I) 1).
      { assert (R : 0 < addm p r0 r0 < p).
        { assert (0 <= addm p r0 r0 < p) by (unfold addm; apply Z.mod_pos_bound; lia). lia. }
        pose proof (zp_inv_correct p _ Hp R) as Hi. fold I in Hi.
        unfold eqm. rewrite (one_mod p) by lia. rewrite <- Hi. unfold addm. zmod. }
      assert (EU : eqm p (mulm p I v1) (sg * y1)).
      { unfold mulm. rewrite (mod_eqm p), E1.
        replace (I * (2 * y0 * y1)) with ((sg * sg) * (I * (2 * y0 * y1))) by (rewrite Hsg; ring).
        replace (sg * sg * (I * (2 * y0 * y1))) with (((sg * y0 + sg * y0) * I) * (sg * y1)) by ring.
        rewrite <- Er, E4. apply eqm_refl_eq. ring. }
      eexists. split; [reflexivity|].
      destruct Cases as [[-> ->]|[-> ->]].
      + left. f_equal. unfold eqm in EU. rewrite Z.mul_1_l in EU.
        rewrite (Z.mod_small y1 p Hy1) in EU. rewrite <- EU. unfold mulm. now rewrite Zmod_mod.
      + right. f_equal. unfold eqm in EU. replace (- y1) with (-1 * y1) by ring.
        rewrite <- EU. unfold mulm. now rewrite Zmod_mod.
  Qed.
End Fp2Sqrt.

(* ---- G2 round trips ------------------------------------------------------------------------------ *)

Lemma is_neg_0 p : is_neg p 0 = false.
Proof. unfold is_neg. rewrite negm_0. reflexivity. Qed.

Lemma is_neg2_flip p y : p mod 2 = 1 -> 0 < p -> z2_canon p y -> y <> (0, 0) ->
  is_neg2 p (fopp (Fp2 p) y) = negb (is_neg2 p y).
Proof.
  intros Hodd Hp [H0 H1] Hn. destruct y as [y0 y1]. cbn [fst snd] in *.
  unfold is_neg2. cbn [Fp2 fopp fst snd]. fold (negm p y0). fold (negm p y1).
  destruct (Z.eq_dec y1 0) as [->|N1].
  - rewrite negm_0, is_neg_0. cbn [Z.eqb orb andb].
    assert (y0 <> 0) by (intros ->; now apply Hn).
    apply is_neg_flip; [exact Hodd|lia].
  - rewrite (is_neg_flip p y1 Hodd) by lia.
    assert (E1 : (y1 =? 0) = false) by (now apply Z.eqb_neq).
    assert (E2 : (negm p y1 =? 0) = false).
    { apply Z.eqb_neq. rewrite negm_nz by lia. lia. }
    rewrite E1, E2. cbn [andb]. now rewrite !orb_false_r.
Qed.

Lemma fopp2_invol p y : 0 < p -> z2_canon p y -> fopp (Fp2 p) (fopp (Fp2 p) y) = y.
Proof.
  intros Hp [H0 H1]. destruct y as [y0 y1]. cbn [Fp2 fopp fst snd] in *.
  fold (negm p y0). fold (negm p y1). fold (negm p (negm p y0)). fold (negm p (negm p y1)).
  now rewrite !negm_invol.
Qed.

Lemma fopp2_zero p : fopp (Fp2 p) (0, 0) = (0, 0).
Proof. cbn [Fp2 fopp fst snd]. now rewrite Zmod_0_l. Qed.

Lemma z2_eq_dec (a b : z2) : {a = b} + {a <> b}.
Proof. decide equality; apply Z.eq_dec. Qed.

Lemma fix_sign2 p s y : p mod 2 = 1 -> 0 < p -> z2_canon p y ->
  s = y \/ s = fopp (Fp2 p) y ->
  (if xorb (is_neg2 p s) (is_neg2 p y) then fopp (Fp2 p) s else s) = y.
Proof.
  intros Hodd Hp Hy [-> | ->].
  - now rewrite xorb_nilpotent.
  - destruct (z2_eq_dec y (0, 0)) as [->|N].
    + rewrite fopp2_zero, xorb_nilpotent. reflexivity.
    + rewrite is_neg2_flip by assumption.
      destruct (is_neg2 p y); cbn [negb xorb]; now apply fopp2_invol.
Qed.

Section G2RoundTrip.
  Variable c : w2codec.
  Hypothesis OK : w2codec_ok c.
  Hypothesis Hlen1 : (1 <= w2c_len c)%nat.
  Hypothesis Hflags : 8 * w2c_p c <= 256 ^ Z.of_nat (w2c_len c).
  Let p := w2c_p c.
  Let Hp : prime p := ok2_prime c OK.
  Let Hp2 : 2 <= p := prime_ge_2 _ Hp.
  Let Hodd : p mod 2 = 1 := p_odd_of_ts p (w2c_e c) (w2c_g c) (ok2_e c OK) (ok2_m c OK).

  Definition w2_canon (P : w2pt) : Prop :=
    match P with None => True | Some (x, y) => z2_canon p x /\ z2_canon p y end.

  Lemma on_curve2_rhs x y : w2_on_curve (w2c c) (Some (x, y)) = true -> fmul (K2 c) y y = w2_rhs c x.
  Proof.
    unfold w2_on_curve, on_curve. rewrite (ok2_a c OK). unfold w2_rhs, K2, w2c_p.
    destruct x as [x0 x1], y as [y0 y1]. destruct (w2_b (w2c c)) as [b0 b1].
    cbn [Fp2 feqb fmul fadd fp2_mul fst snd].
    rewrite !andb_true_iff, !Z.eqb_eq. intros [E0 E1]. f_equal; [rewrite E0|rewrite E1]; zmod.
  Qed.

  Theorem blsg2_roundtrip_u P :
    w2_on_curve (w2c c) P = true -> w2_canon P -> w2_in_subgroup c P ->
    blsg2_dec_u c (blsg2_enc_u c P) = Some P.
  Proof.
    intros Hc Hr Hs.
    assert (Ek : exists k, w2c_len c = S k) by (exists (w2c_len c - 1)%nat; lia).
    destruct Ek as [k Ek].
    set (N := 256 ^ Z.of_nat k).
    assert (HN : 0 < N) by apply pow256_pos.
    assert (HpN : p <= 32 * N).
    { fold p in Hflags. rewrite Ek, pow256_S in Hflags. fold N in Hflags. lia. }
    pose proof (ok2_len c OK) as Hl. fold p in Hl.
    unfold blsg2_enc_u, blsg2_dec_u. destruct P as [[[x0 x1] [y0 y1]]|].
    - destruct Hr as [[Hx0 Hx1] [Hy0 Hy1]]. cbn [fst snd] in *.
      rewrite !app_length, !be_enc_length.
      replace (w2c_len c + (w2c_len c + (w2c_len c + w2c_len c)))%nat with (4 * w2c_len c)%nat by lia.
      rewrite Nat.eqb_refl. cbn [negb]. rewrite Ek at 1. rewrite be_enc_cons. fold N. cbn [app].
      assert (Hxt : 0 <= x1 / N < 32).
      { split; [apply Z.div_pos; lia|apply Z.div_lt_upper_bound; lia]. }
      set (t := x1 / N) in *.
      rewrite (Z.mod_small t 256) by lia.
      assert (FI : flagI t = 0) by (unfold flagI; rewrite Z.div_small by lia; reflexivity).
      assert (FC : flagC t = 0) by (unfold flagC; rewrite Z.div_small by lia; reflexivity).
      assert (FS : flagS t = 0) by (unfold flagS; rewrite Z.div_small by lia; reflexivity).
      rewrite FI, FC, FS. cbn [Z.eqb]. cbv zeta.
      rewrite (Z.mod_small t 32) by lia.
      replace (w2c_len c - 1)%nat with k by lia.
      rewrite firstn_app_len, skipn_app_len by apply be_enc_length.
      rewrite firstn_app_len, skipn_app_len by apply be_enc_length.
      rewrite firstn_app_len, skipn_app_len by apply be_enc_length.
      rewrite be_val_cons, be_enc_length, (be_val_be_enc_mod k x1). fold N.
      assert (Hxv : x1 mod N + N * t = x1) by (unfold t; pose proof (Z.div_mod x1 N ltac:(lia)); lia).
      rewrite Hxv. rewrite !be_val_be_enc by lia. fold p. rewrite !Z.mod_small by lia.
      unfold w2_set_affine. rewrite (on_curve2_rhs _ _ Hc).
      destruct (w2_rhs c (x0, x1)) as [a0 a1]. unfold K2 at 1. cbn [Fp2 feqb fst snd]. rewrite !Z.eqb_refl. cbn [andb].
      match goal with |- (if ?b then _ else _) = _ =>
        replace b with true; [reflexivity|symmetry; apply w2_torsion_free_spec; exact Hs] end.
    - cbn [length]. rewrite zeros_length. replace (S (4 * w2c_len c - 1)) with (4 * w2c_len c)%nat by lia.
      rewrite Nat.eqb_refl. cbn [negb]. change (flagC 64) with 0. change (flagS 64) with 0.
      change (flagI 64) with 1. cbn [Z.eqb Pos.eqb]. change (64 mod 32) with 0. cbn [Z.eqb andb].
      rewrite all_zero_zeros. reflexivity.
  Qed.

  Theorem blsg2_roundtrip_c P :
    w2_on_curve (w2c c) P = true -> w2_canon P -> w2_in_subgroup c P ->
    blsg2_dec_c c (blsg2_enc_c c P) = Some P.
  Proof.
    intros Hc Hr Hs.
    assert (Ek : exists k, w2c_len c = S k) by (exists (w2c_len c - 1)%nat; lia).
    destruct Ek as [k Ek].
    set (N := 256 ^ Z.of_nat k).
    assert (HN : 0 < N) by apply pow256_pos.
    assert (Hhi : 2 ^ (8 * Z.of_nat (w2c_len c) - 1) = 128 * N).
    { rewrite Ek, Nat2Z.inj_succ. replace (8 * Z.succ (Z.of_nat k) - 1) with (7 + 8 * Z.of_nat k) by lia.
      rewrite Z.pow_add_r, Z.pow_mul_r by lia. reflexivity. }
    assert (HpN : p <= 32 * N).
    { fold p in Hflags. rewrite Ek, pow256_S in Hflags. fold N in Hflags. lia. }
    pose proof (ok2_len c OK) as Hl. fold p in Hl.
    unfold blsg2_enc_c, blsg2_dec_c. cbv zeta. rewrite Hhi.
    replace (128 * N / 2) with (64 * N) by (replace (128 * N) with (64 * N * 2) by ring; now rewrite Z.div_mul).
    replace (128 * N / 4) with (32 * N) by (replace (128 * N) with (32 * N * 4) by ring; now rewrite Z.div_mul).
    destruct P as [[[x0 x1] y]|].
    - destruct Hr as [[Hx0 Hx1] Hy]. cbn [fst snd] in Hx0, Hx1.
      set (f := if is_neg2 (w2c_p c) y then 32 * N else 0).
      rewrite app_length, !be_enc_length.
      replace (w2c_len c + w2c_len c)%nat with (2 * w2c_len c)%nat by lia.
      rewrite Nat.eqb_refl. cbn [negb]. rewrite Ek at 1. rewrite be_enc_cons. fold N. cbn [app].
      set (fb := if is_neg2 (w2c_p c) y then 1 else 0).
      assert (Hf : f = fb * 32 * N) by (unfold f, fb; destruct (is_neg2 _ _); ring).
      assert (Hfb : fb = 0 \/ fb = 1) by (unfold fb; destruct (is_neg2 _ _); auto).
      assert (Hdiv : (x1 + 128 * N + f) / N = x1 / N + (128 + 32 * fb)).
      { rewrite Hf. replace (x1 + 128 * N + fb * 32 * N) with (x1 + (128 + 32 * fb) * N) by ring.
        now rewrite Z.div_add by lia. }
      assert (Hxt : 0 <= x1 / N < 32).
      { split; [apply Z.div_pos; lia|apply Z.div_lt_upper_bound; lia]. }
      set (t := x1 / N) in *.
      assert (Htop : ((x1 + 128 * N + f) / N) mod 256 = 128 + 32 * fb + t).
      { rewrite Hdiv. rewrite Z.mod_small by lia. ring. }
      rewrite Htop.
      assert (FC : flagC (128 + 32 * fb + t) = 1).
      { unfold flagC. replace (128 + 32 * fb + t) with ((32 * fb + t) + 1 * 128) by ring.
        rewrite Z.div_add, Z.div_small by lia. reflexivity. }
      assert (FI : flagI (128 + 32 * fb + t) = 0).
      { unfold flagI. replace (128 + 32 * fb + t) with ((32 * fb + t) + 2 * 64) by ring.
        rewrite Z.div_add, Z.div_small by lia. reflexivity. }
      assert (FS : flagS (128 + 32 * fb + t) = fb).
      { unfold flagS. replace (128 + 32 * fb + t) with (t + (4 + fb) * 32) by ring.
        rewrite Z.div_add, Z.div_small by lia. destruct Hfb as [-> | ->]; reflexivity. }
      assert (FM : (128 + 32 * fb + t) mod 32 = t).
      { replace (128 + 32 * fb + t) with (t + (4 + fb) * 32) by ring.
        rewrite Z_mod_plus_full. apply Z.mod_small. lia. }
      rewrite FC, FI, FS, FM. cbn [Z.eqb Pos.eqb negb].
      replace (w2c_len c - 1)%nat with k by lia.
      rewrite firstn_app_len, skipn_app_len by apply be_enc_length.
      rewrite be_val_cons, be_enc_length, (be_val_be_enc_mod k). fold N.
      assert (Hxv : (x1 + 128 * N + f) mod N + N * t = x1).
      { rewrite Hf. replace (x1 + 128 * N + fb * 32 * N) with (x1 + (128 + 32 * fb) * N) by ring.
        rewrite Z_mod_plus_full. unfold t. pose proof (Z.div_mod x1 N ltac:(lia)). lia. }
      rewrite Hxv. rewrite be_val_be_enc by lia. fold p. rewrite !Z.mod_small by lia.
      rewrite <- (on_curve2_rhs _ _ Hc).
      destruct (fp2_sqrt_complete c OK y Hy) as [s [Es Ss]]. rewrite Es.
      assert (Sg : (fb =? 1) = is_neg2 p y).
      { unfold fb. fold p. destruct (is_neg2 p y); reflexivity. }
      rewrite Sg. unfold K2. fold p.
      pose proof (fix_sign2 p s y Hodd ltac:(lia) Hy Ss) as FS2.
      match goal with |- context [Some (x0, x1, ?Y)] => replace Y with y by (symmetry; exact FS2) end.
      match goal with |- (if ?b then _ else _) = _ =>
        replace b with true; [reflexivity|symmetry; apply w2_torsion_free_spec; exact Hs] end.
    - rewrite app_length, be_enc_length, zeros_length.
      replace (w2c_len c + w2c_len c)%nat with (2 * w2c_len c)%nat by lia.
      rewrite Nat.eqb_refl. cbn [negb]. rewrite Ek at 1. rewrite be_enc_cons. fold N. cbn [app].
      replace (128 * N + 64 * N) with (0 + 192 * N) by ring.
      rewrite Z.div_add, Z.div_0_l by lia. cbn [Z.add]. change (192 mod 256) with 192.
      change (flagC 192) with 1. change (flagI 192) with 1. change (flagS 192) with 0.
      cbn [Z.eqb Pos.eqb negb]. change (192 mod 32) with 0. cbn [Z.eqb andb].
      assert (AZ : all_zero (be_enc k (192 * N) ++ zeros (w2c_len c)) = true).
      { unfold N, be_enc. rewrite le_enc_mult, rev_zeros. unfold all_zero. rewrite forallb_app.
        fold (all_zero (zeros k)). fold (all_zero (zeros (w2c_len c))). now rewrite !all_zero_zeros. }
      rewrite AZ. reflexivity.
  Qed.
End G2RoundTrip.

Lemma blsg2_codec_ok : prime bls12381_p -> w2codec_ok blsg2_codec.
Proof.
  intros Hp. constructor;
  [ exact Hp
  | vm_compute; reflexivity
  | vm_compute; repeat constructor
  | vm_compute; reflexivity
  | vm_compute; discriminate
  | vm_compute; reflexivity
  | vm_compute; discriminate
  | reflexivity ].
Qed.

Theorem blsg2_roundtrip_instance P : prime bls12381_p ->
  w2_on_curve (w2c blsg2_codec) P = true -> w2_canon blsg2_codec P -> w2_in_subgroup blsg2_codec P ->
  blsg2_dec_c blsg2_codec (blsg2_enc_c blsg2_codec P) = Some P /\
  blsg2_dec_u blsg2_codec (blsg2_enc_u blsg2_codec P) = Some P.
Proof.
  intros Hp Hc Hr Hs. pose proof (blsg2_codec_ok Hp) as OK.
  assert (L : (1 <= w2c_len blsg2_codec)%nat) by (vm_compute; repeat constructor).
  assert (F : 8 * w2c_p blsg2_codec <= 256 ^ Z.of_nat (w2c_len blsg2_codec)) by (vm_compute; discriminate).
  split; [apply blsg2_roundtrip_c|apply blsg2_roundtrip_u]; auto.
Qed.

(* ---- non-vacuity: a toy curve over F_11 meets every hypothesis ---------------------------------- *)

Lemma prime_11 : prime 11.
Proof.
  apply prime_intro; [lia|]. intros n Hn. apply Zgcd_1_rel_prime.
  assert (n = 1 \/ n = 2 \/ n = 3 \/ n = 4 \/ n = 5 \/ n = 6 \/ n = 7 \/ n = 8 \/ n = 9 \/ n = 10) as H by lia.
  repeat (destruct H as [-> | H]; [reflexivity|]). subst n. reflexivity.
Qed.

Definition toy_codec : wcodec :=
  mk_wcodec (mk_wparams 11 0 7 5 0 12 1) 1 2 10 1.    (* y^2 = x^3 + 7 over F_11, 12 points *)

Lemma toy_codec_ok : wcodec_ok toy_codec.
Proof. codec_ok prime_11. Qed.

Lemma c13_nonvacuous :
  wcodec_ok toy_codec /\
  euler (wc_p toy_codec) (wp_b (wc toy_codec)) = wc_p toy_codec - 1 /\
  w_on_curve (wc toy_codec) (Some (5, 0)) = true /\
  sec1_dec_c toy_codec (sec1_enc_c toy_codec (Some (4, 4))) = Some (Some (4, 4)) /\
  sec1_dec_c k256_codec (sec1_enc_c k256_codec (w_gen k256_params)) = Some (w_gen k256_params) /\
  pasta_dec_c pallas_codec (pasta_enc_c pallas_codec (w_gen pallas_params)) = Some (w_gen pallas_params) /\
  ed_dec_c ed25519_codec (ed_enc_c ed25519_codec (e_gen ed25519_params)) = Some (e_gen ed25519_params) /\
  e_on_curve ed25519_params (e_gen ed25519_params) = true.
Proof.
  apply conj; [exact toy_codec_ok|]. repeat apply conj; vm_compute; reflexivity.
Qed.
