(* PointCodec_proofs.v — lemmas about model/PointCodec.v (property C13).
   Part 1: byte strings, modular arithmetic, soundness of the decoders (every accepted
           string denotes a point of the curve / of the subgroup; wrong lengths and flag
           bytes are refused; field decoders reduce) — no number theory needed, the
           decoders re-check  s^2 = v  resp. the curve equation.
   Part 2: square roots (Tonelli–Shanks as coded) are complete for prime p — from Fermat's
           little theorem (mc/NtFacts.v, MathComp) — and the round-trip theorems. *)
From Coq Require Import ZArith Znumtheory Zpow_facts List Bool Lia Setoid Morphisms.
From Coq Require Import ZifyBool.
Require Import V.base.Fld V.base.ZpField V.model.CurveParams V.model.Curve V.model.PointCodec.
Import ListNotations.
Local Open Scope Z_scope.

(* ---- byte strings ----------------------------------------------------------------------- *)

Lemma le_enc_length k n : length (le_enc k n) = k.
Proof. revert n; induction k as [|k IH]; intros n; cbn [le_enc length]; [reflexivity|]. now rewrite IH. Qed.

Lemma be_enc_length k n : length (be_enc k n) = k.
Proof. unfold be_enc. now rewrite rev_length, le_enc_length. Qed.

Lemma pow256_S k : 256 ^ Z.of_nat (S k) = 256 * 256 ^ Z.of_nat k.
Proof. rewrite Nat2Z.inj_succ, Z.pow_succ_r by lia. reflexivity. Qed.

Lemma pow256_pos k : 0 < 256 ^ Z.of_nat k.
Proof. apply Z.pow_pos_nonneg; lia. Qed.

Lemma le_val_le_enc_mod k n : le_val (le_enc k n) = n mod 256 ^ Z.of_nat k.
Proof.
  revert n; induction k as [|k IH]; intros n.
  - cbn [le_enc le_val]. change (256 ^ Z.of_nat 0) with 1. now rewrite Z.mod_1_r.
  - cbn [le_enc le_val]. rewrite IH, pow256_S.
    rewrite Z.rem_mul_r by (pose proof (pow256_pos k); lia). reflexivity.
Qed.

Lemma le_val_le_enc k n : 0 <= n < 256 ^ Z.of_nat k -> le_val (le_enc k n) = n.
Proof. intros H. rewrite le_val_le_enc_mod. now apply Z.mod_small. Qed.

Lemma be_val_be_enc k n : 0 <= n < 256 ^ Z.of_nat k -> be_val (be_enc k n) = n.
Proof. intros H. unfold be_val, be_enc. rewrite rev_involutive. now apply le_val_le_enc. Qed.

Lemma le_enc_inj k n m :
  0 <= n < 256 ^ Z.of_nat k -> 0 <= m < 256 ^ Z.of_nat k -> le_enc k n = le_enc k m -> n = m.
Proof. intros Hn Hm H. apply (f_equal le_val) in H. now rewrite !le_val_le_enc in H. Qed.

Lemma be_enc_inj k n m :
  0 <= n < 256 ^ Z.of_nat k -> 0 <= m < 256 ^ Z.of_nat k -> be_enc k n = be_enc k m -> n = m.
Proof. intros Hn Hm H. apply (f_equal be_val) in H. now rewrite !be_val_be_enc in H. Qed.

Lemma le_val_zeros k : le_val (zeros k) = 0.
Proof. induction k as [|k IH]; cbn [zeros repeat le_val]; [reflexivity|]. unfold zeros in IH. rewrite IH. reflexivity. Qed.

Lemma zeros_length k : length (zeros k) = k.
Proof. apply repeat_length. Qed.

Lemma rev_zeros k : rev (zeros k) = zeros k.
Proof.
  unfold zeros. induction k as [|k IH]; [reflexivity|].
  cbn [repeat rev]. rewrite IH. clear IH.
  induction k as [|k IH]; [reflexivity|]. cbn [repeat app]. now rewrite IH.
Qed.

Lemma be_val_zeros k : be_val (zeros k) = 0.
Proof. unfold be_val. now rewrite rev_zeros, le_val_zeros. Qed.

Lemma le_val_app a b : le_val (a ++ b) = le_val a + 256 ^ Z.of_nat (length a) * le_val b.
Proof.
  induction a as [|x a IH]; cbn [app le_val length].
  - change (256 ^ Z.of_nat 0) with 1. lia.
  - rewrite IH, pow256_S. ring.
Qed.

Lemma firstn_app_len {A} (a b : list A) n : length a = n -> firstn n (a ++ b) = a.
Proof. intros <-. rewrite firstn_app, Nat.sub_diag, firstn_all. cbn. apply app_nil_r. Qed.

Lemma skipn_app_len {A} (a b : list A) n : length a = n -> skipn n (a ++ b) = b.
Proof. intros <-. rewrite skipn_app, Nat.sub_diag, skipn_all. reflexivity. Qed.

(* ---- modular arithmetic ------------------------------------------------------------------- *)

(* congruence modulo p as a setoid: [zmod] proves  L mod p = R mod p  when L and R agree as
   polynomials after deleting every inner "mod p" *)
Definition eqm (p a b : Z) := a mod p = b mod p.
#[global] Instance eqm_equiv p : Equivalence (eqm p).
Proof. unfold eqm. split; [intros x; reflexivity | intros x y H; symmetry; exact H | intros x y z H1 H2; congruence]. Qed.
#[global] Instance add_eqm p : Proper (eqm p ==> eqm p ==> eqm p) Z.add.
Proof. unfold eqm. intros a b H c d H'. rewrite (Zplus_mod a c), (Zplus_mod b d), H, H'. reflexivity. Qed.
#[global] Instance sub_eqm p : Proper (eqm p ==> eqm p ==> eqm p) Z.sub.
Proof. unfold eqm. intros a b H c d H'. rewrite (Zminus_mod a c), (Zminus_mod b d), H, H'. reflexivity. Qed.
#[global] Instance mul_eqm p : Proper (eqm p ==> eqm p ==> eqm p) Z.mul.
Proof. unfold eqm. intros a b H c d H'. rewrite (Zmult_mod a c), (Zmult_mod b d), H, H'. reflexivity. Qed.
#[global] Instance opp_eqm p : Proper (eqm p ==> eqm p) Z.opp.
Proof. intros a b H. change (eqm p (0 - a) (0 - b)). rewrite H. reflexivity. Qed.
Lemma mod_eqm p a : eqm p (a mod p) a.
Proof. unfold eqm. apply Zmod_mod. Qed.
#[global] Typeclasses Opaque eqm.

Ltac zmod :=
  match goal with |- ?L mod ?p = ?R mod ?p =>
    change (eqm p L R);
    let Hq := fresh "Hq" in
    pose proof (mod_eqm p) as Hq; try (rewrite_strat (repeat (outermost Hq))); clear Hq
  end;
  unfold eqm; f_equal; ring.

Ltac unfold_m := unfold w_rhs, addm, subm, mulm, negm in *.

Lemma neg_sq p y : mulm p (negm p y) (negm p y) = mulm p y y.
Proof. unfold_m. zmod. Qed.

Lemma negm_range p y : 0 < p -> 0 <= negm p y < p.
Proof. intros. unfold negm. apply Z.mod_pos_bound. lia. Qed.

(* the code's  (x^2 + a) x + b  is the curve polynomial of Curve.on_curve *)
Lemma w_set_affine_on_curve c x y P :
  w_set_affine c x y = Some P -> P = Some (x, y) /\ w_on_curve (wc c) P = true.
Proof.
  unfold w_set_affine. destruct (mulm (wc_p c) y y =? wc_rhs c x) eqn:E; [|discriminate].
  intros [= <-]. split; [reflexivity|].
  apply Z.eqb_eq in E. unfold w_on_curve, on_curve. cbn [Zp feqb fmul fadd].
  apply Z.eqb_eq. unfold wc_rhs, wc_p in E. unfold_m. rewrite E. zmod.
Qed.

Lemma ts_sqrt_sound p e rou v s : ts_sqrt p e rou v = Some s -> mulm p s s = v mod p.
Proof.
  unfold ts_sqrt. cbv zeta.
  match goal with |- (if ?b then _ else _) = _ -> _ => destruct b eqn:E end; [|discriminate].
  intros [= <-]. now apply Z.eqb_eq in E.
Qed.

Lemma w_rhs_mod p a b x : (w_rhs p a b x) mod p = w_rhs p a b x.
Proof. unfold w_rhs, addm. apply Zmod_mod. Qed.

Lemma w_from_x_on_curve c x sign P :
  w_from_x c x sign = Some P -> exists y, P = Some (x, y) /\ w_on_curve (wc c) P = true.
Proof.
  unfold w_from_x. destruct (wc_sqrt c (wc_rhs c x)) as [y|] eqn:E; [|discriminate].
  intros [= <-]. unfold wc_sqrt in E. apply ts_sqrt_sound in E.
  unfold wc_rhs in E. rewrite w_rhs_mod in E.
  eexists; split; [reflexivity|].
  assert (H : mulm (wc_p c) (if y mod 2 =? sign then y else negm (wc_p c) y)
                   (if y mod 2 =? sign then y else negm (wc_p c) y) = mulm (wc_p c) y y).
  { destruct (y mod 2 =? sign); [reflexivity|apply neg_sq]. }
  unfold w_on_curve, on_curve. cbn [Zp feqb fmul fadd]. apply Z.eqb_eq.
  unfold wc_p in *. unfold mulm in H at 1. rewrite H, E. unfold_m. zmod.
Qed.

(* ---- soundness of the short-Weierstrass decoders ------------------------------------------- *)

Theorem sec1_dec_c_on_curve c bs P :
  sec1_dec_c c bs = Some P -> w_on_curve (wc c) P = true.
Proof.
  unfold sec1_dec_c. destruct (negb (Nat.eqb (length bs) (S (wc_len c)))); [discriminate|].
  destruct bs as [|tag xb]; [discriminate|].
  destruct (negb ((tag =? 2) || (tag =? 3))); [discriminate|].
  destruct (be_val xb mod wc_p c =? 0).
  - intros [= <-]. reflexivity.
  - intros H. apply w_from_x_on_curve in H. destruct H as [y [_ H]]. exact H.
Qed.

Theorem sec1_dec_u_on_curve c bs P :
  sec1_dec_u c bs = Some P -> w_on_curve (wc c) P = true.
Proof.
  unfold sec1_dec_u. destruct (negb (Nat.eqb (length bs) (S (2 * wc_len c)))); [discriminate|].
  destruct bs as [|tag r]; [discriminate|].
  destruct (negb (tag =? 4)); [discriminate|].
  match goal with |- (if ?b then _ else _) = _ -> _ => destruct b end.
  - intros [= <-]. reflexivity.
  - intros H. apply w_set_affine_on_curve in H. tauto.
Qed.

Theorem pasta_dec_c_on_curve c bs P :
  pasta_dec_c c bs = Some P -> w_on_curve (wc c) P = true.
Proof.
  unfold pasta_dec_c. destruct (negb (Nat.eqb (length bs) (wc_len c))); [discriminate|]. cbv zeta.
  match goal with |- (if ?b then _ else _) = _ -> _ => destruct b end.
  - intros [= <-]. reflexivity.
  - intros H. apply w_from_x_on_curve in H. destruct H as [y [_ H]]. exact H.
Qed.

Theorem pasta_dec_u_on_curve c bs P :
  pasta_dec_u c bs = Some P -> w_on_curve (wc c) P = true.
Proof.
  unfold pasta_dec_u. destruct (negb (Nat.eqb (length bs) (2 * wc_len c))); [discriminate|]. cbv zeta.
  match goal with |- (if ?b then _ else _) = _ -> _ => destruct b end.
  - intros [= <-]. reflexivity.
  - intros H. apply w_set_affine_on_curve in H. tauto.
Qed.

Definition w_in_subgroup (c : wcodec) (P : wpt) : Prop := w_mul (wc c) (wp_n (wc c)) P = None.

Lemma w_torsion_free_spec c P : w_torsion_free c P = true <-> w_in_subgroup c P.
Proof.
  unfold w_torsion_free, w_in_subgroup. destruct (w_mul (wc c) (wp_n (wc c)) P); split; congruence.
Qed.

Lemma iter_op_inf (K : fops Z) a q : Pos.iter_op (waff_add K a) q None = None.
Proof.
  induction q as [q IH|q IH|]; cbn [Pos.iter_op waff_add]; auto.
Qed.

Lemma w_mul_inf c k : w_mul c k None = None.
Proof.
  unfold w_mul, waff_mul. destruct k as [|q|q]; [reflexivity| |]; rewrite iter_op_inf; reflexivity.
Qed.

Theorem blsg1_dec_c_valid c bs P :
  blsg1_dec_c c bs = Some P -> w_on_curve (wc c) P = true /\ w_in_subgroup c P.
Proof.
  unfold blsg1_dec_c. destruct (negb (Nat.eqb (length bs) (wc_len c))); [discriminate|].
  destruct bs as [|b0 r]; [discriminate|].
  destruct (negb (flagC b0 =? 1)); [discriminate|].
  destruct (flagI b0 =? 1).
  - destruct (flagS b0 =? 1); [discriminate|].
    destruct ((b0 mod 32 =? 0) && all_zero r); [|discriminate].
    intros [= <-]. split; [reflexivity|apply w_mul_inf].
  - set (x := be_val (b0 mod 32 :: r) mod wc_p c).
    destruct (wc_sqrt c (wc_rhs c x)) as [y|] eqn:E; [|discriminate].
    match goal with |- (if w_torsion_free c ?Q then _ else _) = _ -> _ =>
      destruct (w_torsion_free c Q) eqn:T; [|discriminate] end.
    intros [= <-]. split; [|now apply w_torsion_free_spec].
    unfold wc_sqrt in E. apply ts_sqrt_sound in E. unfold wc_rhs in E. rewrite w_rhs_mod in E.
    match goal with |- w_on_curve _ (Some (x, ?y')) = true =>
      assert (H : mulm (wc_p c) y' y' = mulm (wc_p c) y y)
        by (destruct (xorb _ _); [apply neg_sq|reflexivity]) end.
    unfold w_on_curve, on_curve. cbn [Zp feqb fmul fadd]. apply Z.eqb_eq.
    unfold wc_p in *. unfold mulm in H at 1. rewrite H, E. unfold_m. zmod.
Qed.

Theorem blsg1_dec_u_valid c bs P :
  blsg1_dec_u c bs = Some P -> w_on_curve (wc c) P = true /\ w_in_subgroup c P.
Proof.
  unfold blsg1_dec_u. destruct (negb (Nat.eqb (length bs) (2 * wc_len c))); [discriminate|].
  destruct bs as [|b0 r]; [discriminate|].
  destruct (flagI b0 =? 1).
  - intros [= <-]. split; [reflexivity|apply w_mul_inf].
  - cbv zeta. match goal with |- match ?e with _ => _ end = _ -> _ => destruct e as [Q|] eqn:E end; [|discriminate].
    destruct (w_torsion_free c Q) eqn:T; [|discriminate].
    intros [= <-]. apply w_set_affine_on_curve in E. split; [tauto|now apply w_torsion_free_spec].
Qed.

Theorem blsg1_from_affine_valid c x y P :
  blsg1_from_affine c x y = Some P -> P = Some (x, y) /\ w_on_curve (wc c) P = true /\ w_in_subgroup c P.
Proof.
  unfold blsg1_from_affine. destruct (w_set_affine c x y) as [Q|] eqn:E; [|discriminate].
  destruct (w_torsion_free c Q) eqn:T; [|discriminate].
  intros [= <-]. apply w_set_affine_on_curve in E. repeat split; try tauto. now apply w_torsion_free_spec.
Qed.
