(* Lemmas about model/ElGamal.v (C16): ElGamal in the exponent. *)
From Coq Require Import ZArith Lia Morphisms Setoid.
Require Import V.model.ElGamal.
Local Open Scope Z_scope.

#[local] Existing Instances eqm_setoid Zplus_eqm Zmult_eqm Zminus_eqm Zopp_eqm.

(* a mod q = b mod q by stripping every inner reduction (Zdiv.eqm is a ring congruence) *)
Ltac zgoal :=
  match goal with |- ?a mod ?q = ?b mod ?q => change (eqm q a b) end;
  repeat setoid_rewrite (Zmod_eqm _);
  apply (f_equal2 Z.modulo); [ring | reflexivity].
Ltac eg_unfold := unfold eg_decrypt, eg_shift, eg_rerandomise, eg_sk_rerandomise, eg_sk_enc, eg_enc, eg_inv,
                    eg_scale, eg_op, eg_representative, eg_noise, eg_sk_noise, eg_public; cbn [fst snd].
Ltac eg_solve := eg_unfold; first [ apply f_equal2; zgoal | zgoal ].

(* the secret-key fast path of IdentityNoise / Encrypt / ReRandomise is the public one *)
Lemma eg_sk_noise_eq : forall q a r, eg_sk_noise q a r = eg_noise q (eg_public q a) r.
Proof. intros. eg_solve. Qed.

Lemma eg_sk_enc_eq : forall q a mu r, eg_sk_enc q a mu r = eg_enc q (eg_public q a) mu r.
Proof. intros. unfold eg_sk_enc, eg_enc. rewrite eg_sk_noise_eq. reflexivity. Qed.

Lemma eg_sk_rerandomise_eq : forall q a c r, eg_sk_rerandomise q a c r = eg_rerandomise q (eg_public q a) c r.
Proof. intros. unfold eg_sk_rerandomise, eg_rerandomise. rewrite eg_sk_noise_eq. reflexivity. Qed.

Lemma elgamal_decrypt_enc : forall q a mu r,
  eg_decrypt q a (eg_enc q (eg_public q a) mu r) = mu mod q.
Proof. intros. eg_solve. Qed.

Lemma elgamal_decrypt_sk_enc : forall q a mu r, eg_decrypt q a (eg_sk_enc q a mu r) = mu mod q.
Proof. intros. rewrite eg_sk_enc_eq. apply elgamal_decrypt_enc. Qed.

Lemma elgamal_op : forall q h m1 r1 m2 r2,
  eg_op q (eg_enc q h m1 r1) (eg_enc q h m2 r2) = eg_enc q h (m1 + m2) (r1 + r2).
Proof. intros. eg_solve. Qed.

Lemma elgamal_scale : forall q h m r s, eg_scale q (eg_enc q h m r) s = eg_enc q h (m * s) (r * s).
Proof. intros. eg_solve. Qed.

Lemma elgamal_inv : forall q h m r, eg_inv q (eg_enc q h m r) = eg_enc q h (- m) (- r).
Proof. intros. eg_solve. Qed.

Lemma elgamal_shift : forall q h m r d, eg_shift q (eg_enc q h m r) d = eg_enc q h (m + d) r.
Proof. intros. eg_solve. Qed.

Lemma elgamal_rerandomise : forall q h m r r',
  eg_rerandomise q h (eg_enc q h m r) r' = eg_enc q h m (r + r').
Proof. intros. eg_solve. Qed.

(* what the operations do to the decrypted plaintext *)
Lemma elgamal_homomorphic : forall q a m1 r1 m2 r2 s d,
  let h := eg_public q a in
  eg_decrypt q a (eg_op q (eg_enc q h m1 r1) (eg_enc q h m2 r2)) = (m1 + m2) mod q /\
  eg_decrypt q a (eg_scale q (eg_enc q h m1 r1) s) = (m1 * s) mod q /\
  eg_decrypt q a (eg_inv q (eg_enc q h m1 r1)) = (- m1) mod q /\
  eg_decrypt q a (eg_shift q (eg_enc q h m1 r1) d) = (m1 + d) mod q.
Proof.
  intros q a m1 r1 m2 r2 s d h. unfold h.
  rewrite elgamal_op, elgamal_scale, elgamal_inv, elgamal_shift, !elgamal_decrypt_enc. auto.
Qed.

Lemma elgamal_rerandomise_decrypt : forall q a m r r',
  let h := eg_public q a in
  eg_rerandomise q h (eg_enc q h m r) r' = eg_enc q h m (r + r') /\
  eg_sk_rerandomise q a (eg_enc q h m r) r' = eg_enc q h m (r + r') /\
  eg_decrypt q a (eg_rerandomise q h (eg_enc q h m r) r') = m mod q.
Proof.
  intros q a m r r' h. unfold h. rewrite eg_sk_rerandomise_eq, elgamal_rerandomise, elgamal_decrypt_enc. auto.
Qed.

(* key refusals: exponent 0 (identity public key) and 1 are never accepted *)
Lemma eg_new_secret_key_ok : forall q a a', eg_new_secret_key q a = Some a' ->
  a' = a mod q /\ a' <> 0 /\ a' <> 1.
Proof.
  intros q a a' H. unfold eg_new_secret_key in H.
  destruct (a mod q =? 0) eqn:E0; [discriminate|]. destruct (a mod q =? 1) eqn:E1; [discriminate|].
  cbn in H. inversion H. apply Z.eqb_neq in E0, E1. auto.
Qed.
