(* Cbor_proofs.v — machine-checked facts about the executable CBOR model (model/Cbor.v):
   round trip decode∘encode, injectivity / prefix-freeness of the deterministic encoding,
   totality of the decoder (never out of fuel), rejection of malformed input, the invariant
   of accepted items, canonical form, independence of map iteration order. *)
From Coq Require Import List NArith ZArith Lia Bool Arith.
From Coq Require Import ZifyN ZifyNat ZifyBool.
From Coq Require Import Permutation Sorted.
Import ListNotations.
Require Import V.base.Bytes V.model.Cbor.
Local Open Scope N_scope.

Local Notation W64 := 18446744073709551616.

Lemma W64_pow : 2 ^ 64 = W64.
Proof. reflexivity. Qed.

(* The heads carry 64-bit arguments, so limits beyond 2^64 are meaningless (and [wf] only
   bounds container sizes by the limits): the round-trip theorems assume sane limits. *)
Definition lim64 (L : limits) : Prop := max_arr L < W64 /\ max_map L < W64.

Lemma lim64_serde : lim64 serde_limits.
Proof. split; vm_compute; reflexivity. Qed.

(* ------------------------------------------------------------------ *)
(* induction principle for the nested inductive                         *)

Lemma item_ind' (P : item -> Prop) :
  (forall n, P (UInt n)) -> (forall n, P (NInt n)) ->
  (forall b, P (BStr b)) -> (forall b, P (TStr b)) ->
  (forall l, Forall P l -> P (Arr l)) ->
  (forall l, Forall (fun kv => P (fst kv) /\ P (snd kv)) l -> P (Map l)) ->
  (forall t x, P x -> P (Tag t x)) ->
  (forall v, P (Simple v)) ->
  forall x, P x.
Proof.
  intros HU HN HB HT HA HM HG HS.
  refine (fix IH (x : item) : P x :=
    match x with
    | UInt n => HU n
    | NInt n => HN n
    | BStr b => HB b
    | TStr b => HT b
    | Arr l => HA l ((fix go (l : list item) : Forall P l :=
                        match l with
                        | [] => Forall_nil _
                        | y :: l' => Forall_cons y (IH y) (go l')
                        end) l)
    | Map l => HM l ((fix go (l : list (item * item)) : Forall (fun kv => P (fst kv) /\ P (snd kv)) l :=
                        match l with
                        | [] => Forall_nil _
                        | kv :: l' => Forall_cons kv (conj (IH (fst kv)) (IH (snd kv))) (go l')
                        end) l)
    | Tag t y => HG t y (IH y)
    | Simple v => HS v
    end).
Qed.

(* ------------------------------------------------------------------ *)
(* bytewise lexicographic order                                         *)

Lemma lex_ltb_irrefl a : lex_ltb a a = false.
Proof.
  induction a as [|x a IH]; cbn [lex_ltb]; [reflexivity|].
  rewrite N.ltb_irrefl. exact IH.
Qed.

Lemma lex_ltb_trans a b c : lex_ltb a b = true -> lex_ltb b c = true -> lex_ltb a c = true.
Proof.
  revert b c; induction a as [|x a IH]; intros [|y b] [|z c]; cbn [lex_ltb]; try congruence.
  destruct (x <? y) eqn:E1, (y <? x) eqn:E2, (y <? z) eqn:E3, (z <? y) eqn:E4,
           (x <? z) eqn:E5, (z <? x) eqn:E6; try congruence; try lia.
  apply IH.
Qed.

Lemma lex_ltb_asym a b : lex_ltb a b = true -> lex_ltb b a = false.
Proof.
  intros H. destruct (lex_ltb b a) eqn:E; [|reflexivity].
  pose proof (lex_ltb_trans _ _ _ H E) as H1. rewrite lex_ltb_irrefl in H1. discriminate.
Qed.

Lemma lex_trichotomy a b : lex_ltb a b = false -> lex_ltb b a = false -> a = b.
Proof.
  revert b; induction a as [|x a IH]; intros [|y b]; cbn [lex_ltb]; try congruence.
  destruct (x <? y) eqn:E1, (y <? x) eqn:E2; try congruence.
  intros H1 H2. assert (x = y) by lia. subst y. f_equal. apply IH; assumption.
Qed.

Lemma lex_leb_refl a : lex_leb a a = true.
Proof. unfold lex_leb. rewrite lex_ltb_irrefl. reflexivity. Qed.

Lemma lex_ltb_leb a b : lex_ltb a b = true -> lex_leb a b = true.
Proof. intros H. unfold lex_leb. rewrite (lex_ltb_asym _ _ H). reflexivity. Qed.

Lemma lex_leb_total a b : lex_leb a b = false -> lex_ltb b a = true.
Proof. unfold lex_leb. destruct (lex_ltb b a); [reflexivity|discriminate]. Qed.

Lemma lex_leb_trans a b c : lex_leb a b = true -> lex_leb b c = true -> lex_leb a c = true.
Proof.
  unfold lex_leb. intros H1 H2.
  destruct (lex_ltb c a) eqn:E; [|reflexivity]. exfalso.
  destruct (lex_ltb b a) eqn:E1; [discriminate|].
  destruct (lex_ltb c b) eqn:E2; [discriminate|].
  destruct (lex_ltb a b) eqn:E3.
  - rewrite (lex_ltb_trans _ _ _ E E3) in E2. discriminate.
  - assert (a = b) by (apply lex_trichotomy; assumption). subst b. congruence.
Qed.

Lemma lex_leb_neq_ltb a b : lex_leb a b = true -> a <> b -> lex_ltb a b = true.
Proof.
  unfold lex_leb. intros H Hn. destruct (lex_ltb a b) eqn:E; [reflexivity|].
  destruct (lex_ltb b a) eqn:E1; [discriminate|]. exfalso. apply Hn. apply lex_trichotomy; assumption.
Qed.

Lemma bytes_eqb_eq a b : bytes_eqb a b = true <-> a = b.
Proof.
  revert b; induction a as [|x a IH]; intros [|y b]; cbn [bytes_eqb]; split; intros H;
    try reflexivity; try discriminate.
  - apply andb_true_iff in H. destruct H as [H1 H2]. apply N.eqb_eq in H1. apply IH in H2. congruence.
  - injection H as -> ->. rewrite N.eqb_refl. cbn. apply IH. reflexivity.
Qed.

Lemma bytes_eqb_refl a : bytes_eqb a a = true.
Proof. apply bytes_eqb_eq. reflexivity. Qed.

(* ------------------------------------------------------------------ *)
(* heads                                                                *)

Lemma hb_div mt a : a < 32 -> (mt * 32 + a) / 32 = mt.
Proof. intros H. symmetry. apply N.div_unique with (r := a); lia. Qed.

Lemma hb_mod mt a : a < 32 -> (mt * 32 + a) mod 32 = a.
Proof. intros H. symmetry. apply N.mod_unique with (q := mt); lia. Qed.

Lemma hb_small mt a : mt < 8 -> a < 32 -> (256 <=? mt * 32 + a) = false.
Proof. intros H1 H2. apply N.leb_gt. lia. Qed.

Definition kof (ai : N) : nat :=
  match ai with 24 => 1%nat | 25 => 2%nat | 26 => 4%nat | _ => 8%nat end.

Lemma read_head_small mt a r :
  mt < 8 -> a < 24 -> read_head ((mt * 32 + a) :: r) = Ok (mt, a, a, r).
Proof.
  intros Hm Ha. unfold read_head. cbv zeta.
  rewrite hb_small, hb_div, hb_mod by lia.
  destruct (a <? 24) eqn:E; [reflexivity|lia].
Qed.

Lemma read_head_ext mt a r :
  mt < 8 -> 24 <= a < 28 ->
  read_head ((mt * 32 + a) :: r) =
  match take (kof a) r with
  | Some (x, r') => if all_bytes x then Ok (mt, a, be_value x, r') else Err EReserved
  | None => Err ETrunc
  end.
Proof.
  intros Hm Ha. unfold read_head. cbv zeta.
  rewrite hb_small, hb_div, hb_mod by lia.
  destruct (a <? 24) eqn:E; [lia|].
  destruct (a <? 28) eqn:E1; [reflexivity|lia].
Qed.

Lemma take_app (k : nat) (a r : bytes) : length a = k -> take k (a ++ r) = Some (a, r).
Proof.
  revert k; induction a as [|x a IH]; intros k Hk; subst k; cbn [length take app]; [reflexivity|].
  rewrite (IH _ eq_refl). reflexivity.
Qed.

Lemma all_bytes_wf b : wf_bytes b -> all_bytes b = true.
Proof.
  unfold wf_bytes, all_bytes. intros H. apply forallb_forall. intros x Hx.
  rewrite Forall_forall in H. specialize (H x Hx). unfold is_byte in H. apply N.ltb_lt. exact H.
Qed.

Lemma all_bytes_be k n : all_bytes (be_bytes k n) = true.
Proof. apply all_bytes_wf, be_bytes_wf. Qed.

Definition ai_of (n : N) : N :=
  if n <? 24 then n else if n <? 256 then 24 else if n <? 65536 then 25
  else if n <? 4294967296 then 26 else 27.

Lemma ai_of_lt n : ai_of n < 28.
Proof.
  unfold ai_of.
  destruct (n <? 24) eqn:E1; [lia|]. destruct (n <? 256); [lia|].
  destruct (n <? 65536); [lia|]. destruct (n <? 4294967296); lia.
Qed.

Lemma read_head_head mt n rest :
  mt < 8 -> n < W64 ->
  read_head (head mt n ++ rest) = Ok (mt, ai_of n, n, rest).
Proof.
  intros Hm Hn. unfold head, ai_of.
  destruct (n <? 24) eqn:E1.
  { cbn [app]. apply read_head_small; lia. }
  destruct (n <? 256) eqn:E2.
  { cbn [app]. rewrite read_head_ext by lia. cbn [kof take].
    unfold all_bytes; cbn [forallb]. rewrite E2. cbn [andb].
    unfold be_value; cbn [fold_left]. do 4 f_equal. }
  destruct (n <? 65536) eqn:E3.
  { cbn [app]. rewrite read_head_ext by lia. cbn [kof].
    rewrite (take_app 2 _ _ (be_bytes_length 2 n)), all_bytes_be.
    rewrite be_value_be_bytes; [reflexivity|]. change (256 ^ N.of_nat 2) with 65536. lia. }
  destruct (n <? 4294967296) eqn:E4.
  { cbn [app]. rewrite read_head_ext by lia. cbn [kof].
    rewrite (take_app 4 _ _ (be_bytes_length 4 n)), all_bytes_be.
    rewrite be_value_be_bytes; [reflexivity|]. change (256 ^ N.of_nat 4) with 4294967296. lia. }
  cbn [app]. rewrite read_head_ext by lia. cbn [kof].
  rewrite (take_app 8 _ _ (be_bytes_length 8 n)), all_bytes_be.
  rewrite be_value_be_bytes; [reflexivity|]. change (256 ^ N.of_nat 8) with W64. lia.
Qed.

(* ------------------------------------------------------------------ *)
(* one decoding step, by major type                                     *)

Lemma dec_S_err L f depth bs e : read_head bs = Err e -> dec L (S f) depth bs = Err e.
Proof. intros H. cbn [dec]. rewrite H. reflexivity. Qed.

Lemma dec_S_uint L f depth bs ai n r :
  read_head bs = Ok (0, ai, n, r) -> dec L (S f) depth bs = Ok (UInt n, r).
Proof. intros H. cbn [dec]. rewrite H. reflexivity. Qed.

Lemma dec_S_nint L f depth bs ai n r :
  read_head bs = Ok (1, ai, n, r) -> dec L (S f) depth bs = Ok (NInt n, r).
Proof. intros H. cbn [dec]. rewrite H. reflexivity. Qed.

Lemma dec_S_bstr L f depth bs ai n r :
  read_head bs = Ok (2, ai, n, r) ->
  dec L (S f) depth bs =
  match take_n n r with
  | Some (a, r') => if all_bytes a then Ok (BStr a, r') else Err EReserved
  | None => Err ETrunc
  end.
Proof. intros H. cbn [dec]. rewrite H. reflexivity. Qed.

Lemma dec_S_tstr L f depth bs ai n r :
  read_head bs = Ok (3, ai, n, r) ->
  dec L (S f) depth bs =
  match take_n n r with
  | Some (a, r') => if all_bytes a then (if utf8_valid a then Ok (TStr a, r') else Err EUtf8) else Err EReserved
  | None => Err ETrunc
  end.
Proof. intros H. cbn [dec]. rewrite H. reflexivity. Qed.

Lemma dec_S_arr L f depth bs ai n r :
  read_head bs = Ok (4, ai, n, r) ->
  dec L (S f) depth bs =
  if max_arr L <? n then Err ESize else
  match depth with
  | O => Err EDepth
  | S d' => match dec_seq (dec L f d') (N.to_nat n) r with
            | Err e => Err e
            | Ok (xs, r') => Ok (Arr xs, r')
            end
  end.
Proof. intros H. cbn [dec]. rewrite H. reflexivity. Qed.

Lemma dec_S_map L f depth bs ai n r :
  read_head bs = Ok (5, ai, n, r) ->
  dec L (S f) depth bs =
  if max_map L <? n then Err ESize else
  match depth with
  | O => Err EDepth
  | S d' => match dec_pairs (dec L f d') (N.to_nat n) r with
            | Err e => Err e
            | Ok (ps, r') =>
                if has_dup (map (fun kv : item * item => encode (fst kv)) ps) then Err EDup
                else Ok (Map ps, r')
            end
  end.
Proof. intros H. cbn [dec]. rewrite H. reflexivity. Qed.

Lemma dec_S_tag L f depth bs ai n r :
  read_head bs = Ok (6, ai, n, r) ->
  dec L (S f) depth bs =
  if negb (tag_allowed n) then Err EBigTag else
  match dec L f depth r with
  | Err e => Err e
  | Ok (y, r') => Ok (Tag n y, r')
  end.
Proof. intros H. cbn [dec]. rewrite H. reflexivity. Qed.

Lemma dec_S_simple L f depth bs ai n r :
  read_head bs = Ok (7, ai, n, r) ->
  dec L (S f) depth bs =
  if ai <? 24 then Ok (Simple n, r)
  else if ai =? 24 then (if n <? 32 then Err ESimple else Ok (Simple n, r))
  else Err EFloat.
Proof. intros H. cbn [dec]. rewrite H. reflexivity. Qed.

(* ------------------------------------------------------------------ *)
(* lengths, heights                                                     *)

Lemma head_length_pos mt n : (1 <= length (head mt n))%nat.
Proof.
  unfold head.
  destruct (n <? 24); [cbn [length]; lia|]. destruct (n <? 256); [cbn [length]; lia|].
  destruct (n <? 65536); [cbn [length]; lia|]. destruct (n <? 4294967296); cbn [length]; lia.
Qed.

Lemma encode_length_pos x : (1 <= length (encode x))%nat.
Proof.
  destruct x as [n|n|b|b|l|l|t y|v]; cbn [encode]; rewrite ?app_length;
    try (pose proof (head_length_pos 0 n); pose proof (head_length_pos 1 n); lia).
  - pose proof (head_length_pos 2 (len b)); lia.
  - pose proof (head_length_pos 3 (len b)); lia.
  - pose proof (head_length_pos 4 (len l)); lia.
  - pose proof (head_length_pos 5 (len l)); lia.
  - pose proof (head_length_pos 6 t); lia.
  - destruct (v <? 24); cbn [length]; lia.
Qed.

Lemma in_concat_length {A} (f : A -> bytes) l y :
  In y l -> (length (f y) <= length (concat (map f l)))%nat.
Proof.
  induction l as [|a l IH]; intros Hy; [destruct Hy|].
  cbn [map concat]. rewrite app_length. destruct Hy as [->|Hy]; [lia|]. specialize (IH Hy). lia.
Qed.

Definition hmax (l : list item) : nat := fold_right (fun y m => Nat.max (height y) m) O l.
Definition hmaxp (l : list (item * item)) : nat :=
  fold_right (fun (kv : item * item) m => match kv with (k, v) => Nat.max (Nat.max (height k) (height v)) m end) O l.

Lemma height_arr l : height (Arr l) = S (hmax l).
Proof. reflexivity. Qed.

Lemma height_map l : height (Map l) = S (hmaxp l).
Proof. reflexivity. Qed.

Lemma hmax_in l y : In y l -> (height y <= hmax l)%nat.
Proof.
  induction l as [|a l IH]; intros Hy; [destruct Hy|].
  cbn [hmax fold_right]. fold (hmax l). destruct Hy as [->|Hy]; [lia|]. specialize (IH Hy). lia.
Qed.

Lemma hmaxp_in l kv : In kv l -> (height (fst kv) <= hmaxp l /\ height (snd kv) <= hmaxp l)%nat.
Proof.
  induction l as [|a l IH]; intros Hy; [destruct Hy|].
  cbn [hmaxp fold_right]. fold (hmaxp l). destruct a as [k v]. destruct Hy as [Hy|Hy]; [subst kv; cbn [fst snd]; lia|].
  specialize (IH Hy). lia.
Qed.

(* ------------------------------------------------------------------ *)
(* sorted keys                                                          *)

Lemma ss_tail a l : strictly_sorted (a :: l) = true -> strictly_sorted l = true.
Proof.
  destruct l as [|b l]; [reflexivity|]. cbn [strictly_sorted]. intros H.
  apply andb_true_iff in H. apply H.
Qed.

Lemma ss_head_lt a l : strictly_sorted (a :: l) = true -> Forall (fun b => lex_ltb a b = true) l.
Proof.
  revert a; induction l as [|b l IH]; intros a H; [constructor|].
  assert (Hab : lex_ltb a b = true /\ strictly_sorted (b :: l) = true).
  { cbn [strictly_sorted] in H. apply andb_true_iff in H. exact H. }
  destruct Hab as [Hab Hs]. constructor; [exact Hab|].
  specialize (IH b Hs). eapply Forall_impl; [|exact IH].
  intros c Hc. cbn beta in Hc. eapply lex_ltb_trans; eassumption.
Qed.

Lemma ss_cons a l :
  Forall (fun b => lex_ltb a b = true) l -> strictly_sorted l = true -> strictly_sorted (a :: l) = true.
Proof.
  intros Hf Hs. destruct l as [|b l]; [reflexivity|].
  change (lex_ltb a b && strictly_sorted (b :: l) = true).
  inversion Hf as [|? ? Hab _]; subst. rewrite Hab, Hs. reflexivity.
Qed.

Lemma lt_all_not_in a l : Forall (fun b => lex_ltb a b = true) l -> existsb (bytes_eqb a) l = false.
Proof.
  intros H. destruct (existsb (bytes_eqb a) l) eqn:E; [|reflexivity].
  apply existsb_exists in E. destruct E as (b & Hb & Hab). apply bytes_eqb_eq in Hab. subst b.
  rewrite Forall_forall in H. specialize (H a Hb). rewrite lex_ltb_irrefl in H. discriminate.
Qed.

Lemma ss_no_dup l : strictly_sorted l = true -> has_dup l = false.
Proof.
  induction l as [|a l IH]; intros H; [reflexivity|].
  cbn [has_dup]. rewrite (lt_all_not_in a l (ss_head_lt a l H)), (IH (ss_tail a l H)). reflexivity.
Qed.

Lemma sort_by_sorted {A} (m : list (bytes * A)) :
  strictly_sorted (map fst m) = true -> sort_by m = m.
Proof.
  induction m as [|p m IH]; intros H; [reflexivity|].
  cbn [sort_by]. cbn [map] in H. rewrite (IH (ss_tail _ _ H)).
  destruct m as [|q m]; [reflexivity|].
  cbn [insert_by]. cbn [map strictly_sorted] in H. apply andb_true_iff in H. destruct H as [H _].
  rewrite (lex_ltb_leb _ _ H). reflexivity.
Qed.

Definition enc_kv (kv : item * item) : bytes * bytes :=
  match kv with (k, v) => (encode k, encode v) end.

Lemma encode_map_unfold l :
  encode (Map l) =
  head 5 (len l) ++ concat (map (fun p : bytes * bytes => fst p ++ snd p) (sort_by (map enc_kv l))).
Proof. reflexivity. Qed.

Lemma map_fst_enc_kv l : map fst (map enc_kv l) = map (fun kv : item * item => encode (fst kv)) l.
Proof. rewrite map_map. apply map_ext. intros [k v]. reflexivity. Qed.

Lemma encode_map_sorted l :
  strictly_sorted (map (fun kv : item * item => encode (fst kv)) l) = true ->
  encode (Map l) =
  head 5 (len l) ++ concat (map (fun kv : item * item => encode (fst kv) ++ encode (snd kv)) l).
Proof.
  intros H. rewrite encode_map_unfold. f_equal.
  rewrite sort_by_sorted by (rewrite map_fst_enc_kv; exact H).
  rewrite map_map. f_equal. apply map_ext. intros [k v]. reflexivity.
Qed.

(* ------------------------------------------------------------------ *)
(* round trip                                                           *)

Lemma take_n_app (b rest : bytes) : take_n (len b) (b ++ rest) = Some (b, rest).
Proof.
  unfold take_n. rewrite len_app.
  destruct (len b <=? len b + len rest) eqn:E; [|lia].
  unfold len at 1. rewrite Nat2N.id. apply take_app. reflexivity.
Qed.

Lemma dec_seq_encode d l rest :
  Forall (fun y => forall rest, d (encode y ++ rest) = Ok (y, rest)) l ->
  dec_seq d (length l) (concat (map encode l) ++ rest) = Ok (l, rest).
Proof.
  induction 1 as [|y l Hy Hl IH]; [reflexivity|].
  cbn [length map concat dec_seq]. rewrite <- app_assoc, Hy, IH. reflexivity.
Qed.

Lemma dec_pairs_encode d l rest :
  Forall (fun kv : item * item =>
            scalar_key (fst kv) = true /\
            (forall rest, d (encode (fst kv) ++ rest) = Ok (fst kv, rest)) /\
            (forall rest, d (encode (snd kv) ++ rest) = Ok (snd kv, rest))) l ->
  dec_pairs d (length l)
    (concat (map (fun kv : item * item => encode (fst kv) ++ encode (snd kv)) l) ++ rest) = Ok (l, rest).
Proof.
  induction 1 as [|[k v] l (Hs & Hk & Hv) Hl IH]; [reflexivity|].
  cbn [fst snd] in *.
  cbn [length map concat dec_pairs fst snd]. rewrite <- !app_assoc, Hk, Hs. cbn [negb].
  rewrite Hv, IH. reflexivity.
Qed.

Theorem dec_encode L (HL : lim64 L) : forall x fuel depth rest,
  wf L x = true -> (height x <= depth)%nat -> (length (encode x) <= fuel)%nat ->
  dec L fuel depth (encode x ++ rest) = Ok (x, rest).
Proof.
  destruct HL as [HLa HLm].
  intros x; induction x as [n|n|b|b|l IH|l IH|t x IH|v] using item_ind';
    intros fuel depth rest Hwf Hh Hf;
    (destruct fuel as [|f]; [match type of Hf with (length (encode ?y) <= _)%nat =>
                                pose proof (encode_length_pos y) end; lia|]).
  - cbn [wf] in Hwf. apply N.ltb_lt in Hwf. cbn [encode].
    apply (dec_S_uint L f depth _ _ _ _ (read_head_head 0 n rest ltac:(lia) Hwf)).
  - cbn [wf] in Hwf. apply N.ltb_lt in Hwf. cbn [encode].
    apply (dec_S_nint L f depth _ _ _ _ (read_head_head 1 n rest ltac:(lia) Hwf)).
  - cbn [wf] in Hwf. apply andb_true_iff in Hwf. destruct Hwf as [Hb Hlen]. apply N.ltb_lt in Hlen.
    cbn [encode]. rewrite <- app_assoc.
    rewrite (dec_S_bstr L f depth _ _ _ _ (read_head_head 2 (len b) _ ltac:(lia) Hlen)).
    rewrite take_n_app, Hb. reflexivity.
  - cbn [wf] in Hwf. apply andb_true_iff in Hwf. destruct Hwf as [Hwf Hu].
    apply andb_true_iff in Hwf. destruct Hwf as [Hb Hlen]. apply N.ltb_lt in Hlen.
    cbn [encode]. rewrite <- app_assoc.
    rewrite (dec_S_tstr L f depth _ _ _ _ (read_head_head 3 (len b) _ ltac:(lia) Hlen)).
    rewrite take_n_app, Hb, Hu. reflexivity.
  - cbn [wf] in Hwf. apply andb_true_iff in Hwf. destruct Hwf as [Hlen Hall].
    rewrite height_arr in Hh. destruct depth as [|d']; [lia|].
    cbn [encode] in Hf |- *. rewrite app_length in Hf. pose proof (head_length_pos 4 (len l)) as Hp.
    rewrite <- app_assoc.
    rewrite (dec_S_arr L f (S d') _ _ _ _ (read_head_head 4 (len l) _ ltac:(lia) ltac:(lia))).
    destruct (max_arr L <? len l) eqn:E; [lia|].
    unfold len at 1. rewrite Nat2N.id.
    rewrite dec_seq_encode; [reflexivity|].
    rewrite Forall_forall in IH |- *. intros y Hy rest'. apply (IH y Hy).
    + rewrite forallb_forall in Hall. apply Hall, Hy.
    + pose proof (hmax_in l y Hy). lia.
    + pose proof (in_concat_length encode l y Hy). lia.
  - cbn [wf] in Hwf. apply andb_true_iff in Hwf. destruct Hwf as [Hwf Hss].
    apply andb_true_iff in Hwf. destruct Hwf as [Hlen Hall].
    rewrite height_map in Hh. destruct depth as [|d']; [lia|].
    rewrite (encode_map_sorted l Hss) in Hf |- *.
    rewrite app_length in Hf. pose proof (head_length_pos 5 (len l)) as Hp.
    rewrite <- app_assoc.
    rewrite (dec_S_map L f (S d') _ _ _ _ (read_head_head 5 (len l) _ ltac:(lia) ltac:(lia))).
    destruct (max_map L <? len l) eqn:E; [lia|].
    unfold len at 1. rewrite Nat2N.id.
    rewrite dec_pairs_encode.
    + rewrite (ss_no_dup _ Hss). reflexivity.
    + rewrite Forall_forall in IH |- *. intros kv Hkv.
      destruct (IH kv Hkv) as [IHk IHv].
      rewrite forallb_forall in Hall. specialize (Hall kv Hkv).
      destruct (hmaxp_in l kv Hkv) as [Hhk Hhv].
      pose proof (in_concat_length (fun kv : item * item => encode (fst kv) ++ encode (snd kv)) l kv Hkv) as Hl.
      cbn beta in Hl. rewrite app_length in Hl.
      destruct kv as [k v]. cbn [fst snd] in *.
      apply andb_true_iff in Hall. destruct Hall as [Hall Hwv].
      apply andb_true_iff in Hall. destruct Hall as [Hsk Hwk].
      match type of Hf with (_ + ?c <= _)%nat =>
        assert (Hl' : (length (encode k) + length (encode v) <= c)%nat) by exact Hl end.
      split; [exact Hsk|]. split; intros rest'.
      * apply IHk; [exact Hwk|lia|lia].
      * apply IHv; [exact Hwv|lia|lia].
  - cbn [wf] in Hwf. apply andb_true_iff in Hwf. destruct Hwf as [Hwf Hwx].
    apply andb_true_iff in Hwf. destruct Hwf as [Ht Hta]. apply N.ltb_lt in Ht.
    cbn [height] in Hh. cbn [encode] in Hf |- *. rewrite app_length in Hf.
    pose proof (head_length_pos 6 t) as Hp. rewrite <- app_assoc.
    rewrite (dec_S_tag L f depth _ _ _ _ (read_head_head 6 t _ ltac:(lia) Ht)).
    rewrite Hta. cbn [negb]. rewrite IH; [reflexivity|exact Hwx|exact Hh|lia].
  - cbn [wf] in Hwf. unfold simple_ok in Hwf. cbn [encode].
    destruct (v <? 24) eqn:E.
    + cbn [app]. change (224 + v) with (7 * 32 + v).
      rewrite (dec_S_simple L f depth _ _ _ _ (read_head_small 7 v rest ltac:(lia) ltac:(lia))).
      rewrite E. reflexivity.
    + cbn [app]. change 248 with (7 * 32 + 24).
      assert (Hv : 32 <= v < 256) by lia.
      assert (Hr : read_head ((7 * 32 + 24) :: v :: rest) = Ok (7, 24, v, rest)).
      { rewrite read_head_ext by lia. cbn [kof take]. unfold all_bytes; cbn [forallb].
        destruct (v <? 256) eqn:E1; [|lia]. cbn [andb]. unfold be_value; cbn [fold_left].
        do 4 f_equal. }
      rewrite (dec_S_simple L f depth _ _ _ _ Hr).
      change (24 <? 24) with false. change (24 =? 24) with true. cbv iota.
      destruct (v <? 32) eqn:E2; [lia|]. reflexivity.
Qed.

Theorem decode_encode L (HL : lim64 L) x : within L x = true -> decode L (encode x) = Ok x.
Proof.
  unfold within. intros H. apply andb_true_iff in H. destruct H as [Hwf Hh].
  apply Nat.leb_le in Hh. unfold decode.
  rewrite <- (app_nil_r (encode x)) at 2.
  rewrite (dec_encode L HL x _ _ [] Hwf Hh); [reflexivity|lia].
Qed.

(* ------------------------------------------------------------------ *)
(* injectivity, prefix-freeness                                         *)

Theorem encode_prefix_free L (HL : lim64 L) x y r1 r2 :
  wf L x = true -> wf L y = true -> encode x ++ r1 = encode y ++ r2 -> x = y /\ r1 = r2.
Proof.
  intros Hx Hy H.
  pose (fuel := Nat.max (length (encode x)) (length (encode y))).
  pose (depth := Nat.max (height x) (height y)).
  pose proof (dec_encode L HL x fuel depth r1 Hx ltac:(unfold depth; lia) ltac:(unfold fuel; lia)) as H1.
  pose proof (dec_encode L HL y fuel depth r2 Hy ltac:(unfold depth; lia) ltac:(unfold fuel; lia)) as H2.
  rewrite H, H2 in H1. injection H1 as -> ->. split; reflexivity.
Qed.

Theorem encode_injective L (HL : lim64 L) x y :
  wf L x = true -> wf L y = true -> encode x = encode y -> x = y.
Proof.
  intros Hx Hy H.
  apply (encode_prefix_free L HL x y [] [] Hx Hy). rewrite H. reflexivity.
Qed.

(* ------------------------------------------------------------------ *)
(* what a successfully read head guarantees                             *)

Lemma take_spec k bs a r : take k bs = Some (a, r) -> bs = a ++ r /\ length a = k.
Proof.
  revert bs a r; induction k as [|k IH]; intros bs a r H; cbn [take] in H.
  - injection H as <- <-. split; reflexivity.
  - destruct bs as [|b bs]; [discriminate|].
    destruct (take k bs) as [[a' r']|] eqn:E; [|discriminate].
    injection H as <- <-. destruct (IH _ _ _ E) as [-> <-]. split; reflexivity.
Qed.

Lemma take_n_spec n bs a r : take_n n bs = Some (a, r) -> bs = a ++ r /\ len a = n.
Proof.
  unfold take_n. destruct (n <=? len bs); [|discriminate]. intros H.
  apply take_spec in H. destruct H as [-> H]. split; [reflexivity|]. unfold len. lia.
Qed.

Lemma be_value_lt a : all_bytes a = true -> be_value a < 256 ^ len a.
Proof.
  induction a as [|b a IH] using rev_ind; intros H.
  - cbn. lia.
  - unfold all_bytes in H. rewrite forallb_app in H. apply andb_true_iff in H. destruct H as [Ha Hb].
    cbn [forallb] in Hb. rewrite andb_true_r in Hb. apply N.ltb_lt in Hb.
    specialize (IH Ha). rewrite be_value_app, len_app.
    change (len [b]) with 1. rewrite N.pow_add_r. change (256 ^ 1) with 256. nia.
Qed.

Lemma be_value_lt_k a k c :
  all_bytes a = true -> length a = k -> 256 ^ N.of_nat k = c -> be_value a < c.
Proof. intros Ha Hk Hc. subst c k. apply be_value_lt, Ha. Qed.

Lemma read_head_spec bs mt ai n r :
  read_head bs = Ok (mt, ai, n, r) ->
  (length r < length bs)%nat /\ mt < 8 /\ ai < 28 /\ n < W64 /\
  (ai < 24 -> n = ai) /\ (ai = 24 -> n < 256) /\
  exists b, b < 256 /\ mt = b / 32 /\ ai = b mod 32 /\
    exists c, bs = b :: c ++ r /\ forall r', read_head (b :: c ++ r') = Ok (mt, ai, n, r').
Proof.
  destruct bs as [|b r0]; [discriminate|].
  intros H. unfold read_head in H. cbv zeta in H.
  destruct (256 <=? b) eqn:Eb; [discriminate|].
  assert (Hb : b < 256) by lia.
  assert (Hmt : b / 32 < 8) by (apply N.div_lt_upper_bound; lia).
  pose proof (N.mod_lt b 32 ltac:(lia)) as Hai.
  remember (b mod 32) as a eqn:Ea.
  destruct (a <? 24) eqn:E1.
  { injection H as <- <- <- <-. cbn [length]. repeat split; try lia.
    exists b. repeat split; try assumption. exists []. split; [reflexivity|]. intros r'. cbn [app].
    unfold read_head. cbv zeta. rewrite Eb, <- Ea, E1. reflexivity. }
  destruct (a <? 28) eqn:E2.
  { destruct (take _ r0) as [[x r']|] eqn:Et; [|discriminate].
    destruct (all_bytes x) eqn:Ex; [|discriminate].
    injection H as <- <- <- <-.
    apply take_spec in Et. destruct Et as [-> Hk]. cbn [length]. rewrite app_length.
    assert (Hcases : a = 24 \/ a = 25 \/ a = 26 \/ a = 27) by lia.
    assert (Hx : be_value x < W64 /\ (a = 24 -> be_value x < 256) /\ (1 <= length x)%nat).
    { destruct Hcases as [->|[->|[->| ->]]].
      - pose proof (be_value_lt_k x 1 256 Ex Hk eq_refl). repeat split; lia.
      - pose proof (be_value_lt_k x 2 65536 Ex Hk eq_refl). repeat split; lia.
      - pose proof (be_value_lt_k x 4 4294967296 Ex Hk eq_refl). repeat split; lia.
      - pose proof (be_value_lt_k x 8 W64 Ex Hk eq_refl). repeat split; lia. }
    destruct Hx as (Hx1 & Hx2 & Hx3).
    repeat split; try lia.
    exists b. repeat split; try assumption. exists x. split; [reflexivity|]. intros r''.
    unfold read_head. cbv zeta. rewrite Eb, <- Ea, E1, E2. rewrite (take_app _ x r'' Hk), Ex. reflexivity. }
  destruct (a <? 31); [discriminate|].
  destruct (b / 32 =? 7); [discriminate|].
  destruct ((2 <=? b / 32) && (b / 32 <=? 5)); discriminate.
Qed.

Lemma read_head_consumes bs mt ai n r :
  read_head bs = Ok (mt, ai, n, r) -> (length r < length bs)%nat.
Proof. intros H. apply read_head_spec in H. apply H. Qed.

Lemma mt_cases mt : mt < 8 -> mt = 0 \/ mt = 1 \/ mt = 2 \/ mt = 3 \/ mt = 4 \/ mt = 5 \/ mt = 6 \/ mt = 7.
Proof. lia. Qed.

(* ------------------------------------------------------------------ *)
(* the decoder consumes input and never runs out of fuel                *)

Definition consuming (d : bytes -> res (item * bytes)) : Prop :=
  forall bs x r, d bs = Ok (x, r) -> (length r < length bs)%nat.

Lemma dec_seq_consumes d n : consuming d ->
  forall bs xs r, dec_seq d n bs = Ok (xs, r) -> (length r <= length bs)%nat.
Proof.
  intros Hd. induction n as [|n IH]; intros bs xs r H; cbn [dec_seq] in H.
  - injection H as <- <-. lia.
  - destruct (d bs) as [[x r0]|e] eqn:E; [|discriminate].
    destruct (dec_seq d n r0) as [[xs' r1]|e] eqn:E1; [|discriminate].
    injection H as <- <-. apply Hd in E. apply IH in E1. lia.
Qed.

Lemma dec_pairs_consumes d n : consuming d ->
  forall bs ps r, dec_pairs d n bs = Ok (ps, r) -> (length r <= length bs)%nat.
Proof.
  intros Hd. induction n as [|n IH]; intros bs ps r H; cbn [dec_pairs] in H.
  - injection H as <- <-. lia.
  - destruct (d bs) as [[k r0]|e] eqn:E; [|discriminate].
    destruct (negb (scalar_key k)); [discriminate|].
    destruct (d r0) as [[v r1]|e] eqn:E0; [|discriminate].
    destruct (dec_pairs d n r1) as [[ps' r2]|e] eqn:E1; [|discriminate].
    injection H as <- <-. apply Hd in E. apply Hd in E0. apply IH in E1. lia.
Qed.

Theorem dec_consumes L : forall fuel depth bs x r,
  dec L fuel depth bs = Ok (x, r) -> (length r < length bs)%nat.
Proof.
  induction fuel as [|f IH]; intros depth bs x r H; [discriminate|].
  destruct (read_head bs) as [[[[mt ai] n] r0]|e] eqn:Hr;
    [|rewrite (dec_S_err _ _ _ _ _ Hr) in H; discriminate].
  pose proof (read_head_spec _ _ _ _ _ Hr) as (Hlen & Hmt & _).
  destruct (mt_cases mt Hmt) as [->|[->|[->|[->|[->|[->|[->| ->]]]]]]].
  - rewrite (dec_S_uint _ _ _ _ _ _ _ Hr) in H. injection H as <- <-. exact Hlen.
  - rewrite (dec_S_nint _ _ _ _ _ _ _ Hr) in H. injection H as <- <-. exact Hlen.
  - rewrite (dec_S_bstr _ _ _ _ _ _ _ Hr) in H.
    destruct (take_n n r0) as [[a r']|] eqn:Et; [|discriminate].
    destruct (all_bytes a); [|discriminate]. injection H as <- <-.
    apply take_n_spec in Et. destruct Et as [-> _]. rewrite app_length in Hlen. lia.
  - rewrite (dec_S_tstr _ _ _ _ _ _ _ Hr) in H.
    destruct (take_n n r0) as [[a r']|] eqn:Et; [|discriminate].
    destruct (all_bytes a); [|discriminate]. destruct (utf8_valid a); [|discriminate].
    injection H as <- <-.
    apply take_n_spec in Et. destruct Et as [-> _]. rewrite app_length in Hlen. lia.
  - rewrite (dec_S_arr _ _ _ _ _ _ _ Hr) in H.
    destruct (max_arr L <? n); [discriminate|]. destruct depth as [|d']; [discriminate|].
    destruct (dec_seq (dec L f d') (N.to_nat n) r0) as [[xs r']|e] eqn:Es; [|discriminate].
    injection H as <- <-.
    apply (dec_seq_consumes _ _ (IH d')) in Es. lia.
  - rewrite (dec_S_map _ _ _ _ _ _ _ Hr) in H.
    destruct (max_map L <? n); [discriminate|]. destruct depth as [|d']; [discriminate|].
    destruct (dec_pairs (dec L f d') (N.to_nat n) r0) as [[ps r']|e] eqn:Es; [|discriminate].
    destruct (has_dup _); [discriminate|].
    injection H as <- <-.
    apply (dec_pairs_consumes _ _ (IH d')) in Es. lia.
  - rewrite (dec_S_tag _ _ _ _ _ _ _ Hr) in H.
    destruct (negb (tag_allowed n)); [discriminate|].
    destruct (dec L f depth r0) as [[y r']|e] eqn:Ed; [|discriminate].
    injection H as <- <-. apply IH in Ed. lia.
  - rewrite (dec_S_simple _ _ _ _ _ _ _ Hr) in H.
    destruct (ai <? 24); [injection H as <- <-; exact Hlen|].
    destruct (ai =? 24); [|discriminate].
    destruct (n <? 32); [discriminate|]. injection H as <- <-. exact Hlen.
Qed.

Lemma dec_seq_no_fuel d n : consuming d ->
  forall bs, (forall bs', (length bs' <= length bs)%nat -> d bs' <> Err EFuel) ->
  dec_seq d n bs <> Err EFuel.
Proof.
  intros Hd. induction n as [|n IH]; intros bs Hnf; cbn [dec_seq]; [discriminate|].
  destruct (d bs) as [[x r0]|e] eqn:E.
  - apply Hd in E.
    assert (Hr : dec_seq d n r0 <> Err EFuel).
    { apply IH. intros bs' Hb. apply Hnf. lia. }
    destruct (dec_seq d n r0) as [[xs r1]|e]; [discriminate|]. congruence.
  - specialize (Hnf bs (le_n _)). congruence.
Qed.

Lemma dec_pairs_no_fuel d n : consuming d ->
  forall bs, (forall bs', (length bs' <= length bs)%nat -> d bs' <> Err EFuel) ->
  dec_pairs d n bs <> Err EFuel.
Proof.
  intros Hd. induction n as [|n IH]; intros bs Hnf; cbn [dec_pairs]; [discriminate|].
  destruct (d bs) as [[k r0]|e] eqn:E.
  - apply Hd in E. destruct (negb (scalar_key k)); [discriminate|].
    destruct (d r0) as [[v r1]|e] eqn:E0.
    + apply Hd in E0.
      assert (Hr : dec_pairs d n r1 <> Err EFuel).
      { apply IH. intros bs' Hb. apply Hnf. lia. }
      destruct (dec_pairs d n r1) as [[ps r2]|e]; [discriminate|]. congruence.
    + assert (d r0 <> Err EFuel) by (apply Hnf; lia). congruence.
  - specialize (Hnf bs (le_n _)). congruence.
Qed.

Lemma dec_no_fuel L : forall fuel depth bs, (length bs < fuel)%nat -> dec L fuel depth bs <> Err EFuel.
Proof.
  induction fuel as [|f IH]; intros depth bs Hlt; [lia|].
  destruct (read_head bs) as [[[[mt ai] n] r0]|e] eqn:Hr.
  2:{ rewrite (dec_S_err _ _ _ _ _ Hr). intros H. injection H as ->.
      destruct bs as [|b r0]; [discriminate|]. unfold read_head in Hr. cbv zeta in Hr.
      destruct (256 <=? b); [discriminate|]. destruct (b mod 32 <? 24); [discriminate|].
      destruct (b mod 32 <? 28).
      - destruct (take _ r0) as [[x r']|]; [|discriminate]. destruct (all_bytes x); discriminate.
      - destruct (b mod 32 <? 31); [discriminate|]. destruct (b / 32 =? 7); [discriminate|].
        destruct ((2 <=? b / 32) && (b / 32 <=? 5)); discriminate. }
  pose proof (read_head_spec _ _ _ _ _ Hr) as (Hlen & Hmt & _).
  destruct (mt_cases mt Hmt) as [->|[->|[->|[->|[->|[->|[->| ->]]]]]]].
  - rewrite (dec_S_uint _ _ _ _ _ _ _ Hr). discriminate.
  - rewrite (dec_S_nint _ _ _ _ _ _ _ Hr). discriminate.
  - rewrite (dec_S_bstr _ _ _ _ _ _ _ Hr).
    destruct (take_n n r0) as [[a r']|]; [|discriminate]. destruct (all_bytes a); discriminate.
  - rewrite (dec_S_tstr _ _ _ _ _ _ _ Hr).
    destruct (take_n n r0) as [[a r']|]; [|discriminate]. destruct (all_bytes a); [|discriminate].
    destruct (utf8_valid a); discriminate.
  - rewrite (dec_S_arr _ _ _ _ _ _ _ Hr).
    destruct (max_arr L <? n); [discriminate|]. destruct depth as [|d']; [discriminate|].
    assert (Hs : dec_seq (dec L f d') (N.to_nat n) r0 <> Err EFuel).
    { apply dec_seq_no_fuel; [intros ? ? ?; apply dec_consumes|].
      intros bs' Hb. apply IH. lia. }
    destruct (dec_seq (dec L f d') (N.to_nat n) r0) as [[xs r']|e]; [discriminate|congruence].
  - rewrite (dec_S_map _ _ _ _ _ _ _ Hr).
    destruct (max_map L <? n); [discriminate|]. destruct depth as [|d']; [discriminate|].
    assert (Hs : dec_pairs (dec L f d') (N.to_nat n) r0 <> Err EFuel).
    { apply dec_pairs_no_fuel; [intros ? ? ?; apply dec_consumes|].
      intros bs' Hb. apply IH. lia. }
    destruct (dec_pairs (dec L f d') (N.to_nat n) r0) as [[ps r']|e]; [|congruence].
    destruct (has_dup _); discriminate.
  - rewrite (dec_S_tag _ _ _ _ _ _ _ Hr).
    destruct (negb (tag_allowed n)); [discriminate|].
    assert (Hs : dec L f depth r0 <> Err EFuel) by (apply IH; lia).
    destruct (dec L f depth r0) as [[y r']|e]; [discriminate|congruence].
  - rewrite (dec_S_simple _ _ _ _ _ _ _ Hr).
    destruct (ai <? 24); [discriminate|]. destruct (ai =? 24); [|discriminate].
    destruct (n <? 32); discriminate.
Qed.

Theorem decode_no_fuel L bs : decode L bs <> Err EFuel.
Proof.
  unfold decode.
  pose proof (dec_no_fuel L (S (length bs)) (max_depth L) bs ltac:(lia)) as H.
  destruct (dec L (S (length bs)) (max_depth L) bs) as [[x [|b r]]|e]; try discriminate. congruence.
Qed.

(* ------------------------------------------------------------------ *)
(* rejection of malformed input (at any position / at top level)        *)

Lemma read_head_31 mt r : mt < 8 ->
  read_head ((mt * 32 + 31) :: r) =
  if mt =? 7 then Err EBreak else if (2 <=? mt) && (mt <=? 5) then Err EIndef else Err EReserved.
Proof.
  intros Hm. unfold read_head. cbv zeta. rewrite hb_small, hb_div, hb_mod by lia.
  change (31 <? 24) with false. change (31 <? 28) with false. change (31 <? 31) with false.
  reflexivity.
Qed.

Theorem dec_rejects_indefinite L f depth mt rest :
  2 <= mt <= 5 -> dec L (S f) depth ((mt * 32 + 31) :: rest) = Err EIndef.
Proof.
  intros Hm. apply dec_S_err. rewrite read_head_31 by lia.
  destruct (mt =? 7) eqn:E; [lia|].
  destruct (2 <=? mt) eqn:E1; [|lia]. destruct (mt <=? 5) eqn:E2; [|lia]. reflexivity.
Qed.

Theorem decode_rejects_indefinite L mt rest :
  2 <= mt <= 5 -> decode L ((mt * 32 + 31) :: rest) = Err EIndef.
Proof. intros Hm. unfold decode. rewrite dec_rejects_indefinite by exact Hm. reflexivity. Qed.

Theorem dec_rejects_reserved L f depth b rest :
  b < 256 -> 28 <= b mod 32 <= 30 -> dec L (S f) depth (b :: rest) = Err EReserved.
Proof.
  intros Hb Hm. apply dec_S_err. unfold read_head. cbv zeta.
  destruct (256 <=? b) eqn:E; [lia|].
  destruct (b mod 32 <? 24) eqn:E1; [lia|]. destruct (b mod 32 <? 28) eqn:E2; [lia|].
  destruct (b mod 32 <? 31) eqn:E3; [reflexivity|lia].
Qed.

Theorem decode_rejects_reserved L b rest :
  b < 256 -> 28 <= b mod 32 <= 30 -> decode L (b :: rest) = Err EReserved.
Proof. intros Hb Hm. unfold decode. rewrite dec_rejects_reserved by assumption. reflexivity. Qed.

(* a "byte" that is not a byte is refused too *)
Theorem dec_rejects_nonbyte L f depth b rest : 256 <= b -> dec L (S f) depth (b :: rest) = Err EReserved.
Proof.
  intros Hb. apply dec_S_err. unfold read_head. destruct (256 <=? b) eqn:E; [reflexivity|lia].
Qed.

Theorem dec_rejects_break L f depth rest : dec L (S f) depth (255 :: rest) = Err EBreak.
Proof. apply dec_S_err. change 255 with (7 * 32 + 31). rewrite read_head_31 by lia. reflexivity. Qed.

Theorem decode_rejects_empty L : decode L [] = Err ETrunc.
Proof. reflexivity. Qed.

Theorem decode_rejects_trailing L (HL : lim64 L) x b rest :
  within L x = true -> decode L (encode x ++ b :: rest) = Err ETrailing.
Proof.
  unfold within. intros H. apply andb_true_iff in H. destruct H as [Hwf Hh]. apply Nat.leb_le in Hh.
  unfold decode. rewrite (dec_encode L HL x _ _ _ Hwf Hh); [reflexivity|].
  rewrite app_length. lia.
Qed.

Theorem decode_rejects_dup_key L (HL : lim64 L) k v1 v2 :
  within L (Map [(k, v1)]) = true -> wf L v2 = true -> (height v2 < max_depth L)%nat ->
  2 <= max_map L ->
  decode L (head 5 2 ++ encode k ++ encode v1 ++ encode k ++ encode v2) = Err EDup.
Proof.
  unfold within. intros H Hw2 Hh2 Hmm. apply andb_true_iff in H. destruct H as [Hwf Hh].
  apply Nat.leb_le in Hh. rewrite height_map in Hh. cbn [hmaxp fold_right] in Hh.
  cbn [wf forallb] in Hwf.
  apply andb_true_iff in Hwf. destruct Hwf as [Hwf _].
  apply andb_true_iff in Hwf. destruct Hwf as [_ Hwf]. rewrite andb_true_r in Hwf.
  apply andb_true_iff in Hwf. destruct Hwf as [Hwf Hw1].
  apply andb_true_iff in Hwf. destruct Hwf as [Hsk Hwk].
  unfold decode.
  remember (head 5 2 ++ encode k ++ encode v1 ++ encode k ++ encode v2) as bs eqn:Ebs.
  assert (Hlen : (length (encode k) + length (encode v1) + length (encode v2) <= length bs)%nat).
  { subst bs. rewrite !app_length. lia. }
  assert (Hr : read_head bs = Ok (5, ai_of 2, 2, encode k ++ encode v1 ++ encode k ++ encode v2)).
  { subst bs. apply read_head_head; lia. }
  rewrite (dec_S_map _ _ _ _ _ _ _ Hr).
  destruct (max_map L <? 2) eqn:E; [lia|].
  destruct (max_depth L) as [|d']; [lia|].
  change (N.to_nat 2) with 2%nat. cbn [dec_pairs].
  rewrite (dec_encode L HL k (length bs) d' _ Hwk ltac:(lia) ltac:(lia)). rewrite Hsk. cbn [negb].
  rewrite (dec_encode L HL v1 (length bs) d' _ Hw1 ltac:(lia) ltac:(lia)).
  rewrite (dec_encode L HL k (length bs) d' _ Hwk ltac:(lia) ltac:(lia)).
  rewrite <- (app_nil_r (encode v2)).
  rewrite (dec_encode L HL v2 (length bs) d' _ Hw2 ltac:(lia) ltac:(lia)).
  rewrite Hsk. cbn [negb map fst has_dup existsb]. rewrite bytes_eqb_refl. reflexivity.
Qed.

Lemma dec_rejects_deep L (Ha : 1 <= max_arr L) : forall depth fuel rest,
  (depth < fuel)%nat -> dec L fuel depth (repeat 129 (S depth) ++ rest) = Err EDepth.
Proof.
  induction depth as [|d IH]; intros fuel rest Hf; (destruct fuel as [|f]; [lia|]).
  - cbn [repeat app]. change 129 with (4 * 32 + 1).
    rewrite (dec_S_arr _ _ _ _ _ _ _ (read_head_small 4 1 rest ltac:(lia) ltac:(lia))).
    destruct (max_arr L <? 1) eqn:E; [lia|]. reflexivity.
  - change (repeat 129 (S (S d)) ++ rest) with ((4 * 32 + 1) :: (repeat 129 (S d) ++ rest)).
    rewrite (dec_S_arr _ _ _ _ _ _ _ (read_head_small 4 1 _ ltac:(lia) ltac:(lia))).
    destruct (max_arr L <? 1) eqn:E; [lia|].
    change (N.to_nat 1) with 1%nat. cbn [dec_seq]. rewrite IH by lia. reflexivity.
Qed.

Theorem decode_rejects_deep L : 1 <= max_arr L ->
  decode L (repeat 129 (S (max_depth L)) ++ [0]) = Err EDepth.
Proof.
  intros Ha. unfold decode. rewrite dec_rejects_deep; [reflexivity|exact Ha|].
  rewrite app_length, repeat_length. cbn [length]. lia.
Qed.

Theorem dec_rejects_bignum_tag L f depth t rest :
  t = 2 \/ t = 3 -> dec L (S f) depth (head 6 t ++ rest) = Err EBigTag.
Proof.
  intros Ht.
  rewrite (dec_S_tag _ _ _ _ _ _ _ (read_head_head 6 t rest ltac:(lia) ltac:(lia))).
  destruct Ht as [-> | ->]; reflexivity.
Qed.

Theorem decode_rejects_bignum_tag L t rest : t = 2 \/ t = 3 -> decode L (head 6 t ++ rest) = Err EBigTag.
Proof. intros Ht. unfold decode. rewrite dec_rejects_bignum_tag by exact Ht. reflexivity. Qed.

Theorem dec_rejects_bad_utf8 L f depth b rest :
  utf8_valid b = false -> all_bytes b = true -> len b < W64 ->
  dec L (S f) depth (head 3 (len b) ++ b ++ rest) = Err EUtf8.
Proof.
  intros Hu Hb Hl.
  rewrite (dec_S_tstr _ _ _ _ _ _ _ (read_head_head 3 (len b) _ ltac:(lia) Hl)).
  rewrite take_n_app, Hb, Hu. reflexivity.
Qed.

Theorem decode_rejects_bad_utf8 L b :
  utf8_valid b = false -> all_bytes b = true -> len b < W64 ->
  decode L (head 3 (len b) ++ b) = Err EUtf8.
Proof.
  intros Hu Hb Hl.
  pose proof (dec_rejects_bad_utf8 L (length (head 3 (len b) ++ b)) (max_depth L) b [] Hu Hb Hl) as H.
  rewrite app_nil_r in H. unfold decode. rewrite H. reflexivity.
Qed.

Theorem dec_rejects_oversize_arr L f depth n rest :
  max_arr L < n -> n < W64 -> dec L (S f) depth (head 4 n ++ rest) = Err ESize.
Proof.
  intros Hn Hl.
  rewrite (dec_S_arr _ _ _ _ _ _ _ (read_head_head 4 n rest ltac:(lia) Hl)).
  destruct (max_arr L <? n) eqn:E; [reflexivity|lia].
Qed.

Theorem dec_rejects_oversize_map L f depth n rest :
  max_map L < n -> n < W64 -> dec L (S f) depth (head 5 n ++ rest) = Err ESize.
Proof.
  intros Hn Hl.
  rewrite (dec_S_map _ _ _ _ _ _ _ (read_head_head 5 n rest ltac:(lia) Hl)).
  destruct (max_map L <? n) eqn:E; [reflexivity|lia].
Qed.

(* ------------------------------------------------------------------ *)
(* invariant of every accepted item                                     *)

Fixpoint wf_dec (L : limits) (x : item) : bool :=
  match x with
  | UInt n | NInt n => n <? W64
  | BStr b => all_bytes b && (len b <? W64)
  | TStr b => all_bytes b && (len b <? W64) && utf8_valid b
  | Arr l => (len l <=? max_arr L) && forallb (wf_dec L) l
  | Map l =>
      (len l <=? max_map L)
      && forallb (fun kv : item * item => match kv with (k, v) => scalar_key k && wf_dec L k && wf_dec L v end) l
      && negb (has_dup (map (fun kv : item * item => encode (fst kv)) l))
  | Tag t y => (t <? W64) && tag_allowed t && wf_dec L y
  | Simple v => simple_ok v
  end.

Lemma hmax_le l d : Forall (fun y => (height y <= d)%nat) l -> (hmax l <= d)%nat.
Proof.
  induction 1 as [|y l Hy Hl IH]; cbn [hmax fold_right]; [lia|]. fold (hmax l). lia.
Qed.

Lemma hmaxp_le l d :
  Forall (fun kv : item * item => (height (fst kv) <= d /\ height (snd kv) <= d)%nat) l -> (hmaxp l <= d)%nat.
Proof.
  induction 1 as [|[k v] l Hy Hl IH]; cbn [hmaxp fold_right]; [lia|]. fold (hmaxp l).
  cbn [fst snd] in Hy. lia.
Qed.

Lemma dec_seq_sound d n (P : item -> Prop) :
  (forall bs x r, d bs = Ok (x, r) -> P x) ->
  forall bs xs r, dec_seq d n bs = Ok (xs, r) -> Forall P xs /\ length xs = n.
Proof.
  intros Hd. induction n as [|n IH]; intros bs xs r H; cbn [dec_seq] in H.
  - injection H as <- <-. split; [constructor|reflexivity].
  - destruct (d bs) as [[x r0]|e] eqn:E; [|discriminate].
    destruct (dec_seq d n r0) as [[xs' r1]|e] eqn:E1; [|discriminate].
    injection H as <- <-. apply Hd in E. apply IH in E1. destruct E1 as [E1 E2].
    split; [constructor; assumption|cbn [length]; lia].
Qed.

Lemma dec_pairs_sound d n (P : item -> Prop) :
  (forall bs x r, d bs = Ok (x, r) -> P x) ->
  forall bs ps r, dec_pairs d n bs = Ok (ps, r) ->
  Forall (fun kv : item * item => scalar_key (fst kv) = true /\ P (fst kv) /\ P (snd kv)) ps /\ length ps = n.
Proof.
  intros Hd. induction n as [|n IH]; intros bs ps r H; cbn [dec_pairs] in H.
  - injection H as <- <-. split; [constructor|reflexivity].
  - destruct (d bs) as [[k r0]|e] eqn:E; [|discriminate].
    destruct (scalar_key k) eqn:Ek; cbn [negb] in H; [|discriminate].
    destruct (d r0) as [[v r1]|e] eqn:E0; [|discriminate].
    destruct (dec_pairs d n r1) as [[ps' r2]|e] eqn:E1; [|discriminate].
    injection H as <- <-. apply Hd in E. apply Hd in E0. apply IH in E1. destruct E1 as [E1 E2].
    split; [constructor; [cbn [fst snd]; auto|assumption]|cbn [length]; lia].
Qed.

Theorem dec_sound L : forall fuel depth bs x r,
  dec L fuel depth bs = Ok (x, r) -> wf_dec L x = true /\ (height x <= depth)%nat.
Proof.
  induction fuel as [|f IH]; intros depth bs x r H; [discriminate|].
  destruct (read_head bs) as [[[[mt ai] n] r0]|e] eqn:Hr;
    [|rewrite (dec_S_err _ _ _ _ _ Hr) in H; discriminate].
  pose proof (read_head_spec _ _ _ _ _ Hr) as (Hlen & Hmt & Hai & Hn & Hsm & H24 & _).
  destruct (mt_cases mt Hmt) as [-> |[-> |[-> |[-> |[-> |[-> |[-> | ->]]]]]]].
  - rewrite (dec_S_uint _ _ _ _ _ _ _ Hr) in H. injection H as <- <-.
    cbn [wf_dec height]. split; [apply N.ltb_lt; exact Hn|lia].
  - rewrite (dec_S_nint _ _ _ _ _ _ _ Hr) in H. injection H as <- <-.
    cbn [wf_dec height]. split; [apply N.ltb_lt; exact Hn|lia].
  - rewrite (dec_S_bstr _ _ _ _ _ _ _ Hr) in H.
    destruct (take_n n r0) as [[a r']|] eqn:Et; [|discriminate].
    destruct (all_bytes a) eqn:Ea; [|discriminate]. injection H as <- <-.
    apply take_n_spec in Et. destruct Et as [_ Hl].
    cbn [wf_dec height]. rewrite Ea. split; [|lia]. apply andb_true_iff. split; [reflexivity|].
    apply N.ltb_lt. lia.
  - rewrite (dec_S_tstr _ _ _ _ _ _ _ Hr) in H.
    destruct (take_n n r0) as [[a r']|] eqn:Et; [|discriminate].
    destruct (all_bytes a) eqn:Ea; [|discriminate]. destruct (utf8_valid a) eqn:Eu; [|discriminate].
    injection H as <- <-.
    apply take_n_spec in Et. destruct Et as [_ Hl].
    cbn [wf_dec height]. rewrite Ea, Eu. split; [|lia]. rewrite andb_true_r. cbn [andb].
    apply N.ltb_lt. lia.
  - rewrite (dec_S_arr _ _ _ _ _ _ _ Hr) in H.
    destruct (max_arr L <? n) eqn:Em; [discriminate|]. destruct depth as [|d']; [discriminate|].
    destruct (dec_seq (dec L f d') (N.to_nat n) r0) as [[xs r']|e] eqn:Es; [|discriminate].
    injection H as <- <-.
    apply (dec_seq_sound _ _ (fun y => wf_dec L y = true /\ (height y <= d')%nat) (IH d')) in Es.
    destruct Es as [Hall Hl]. rewrite height_arr. cbn [wf_dec]. split.
    + apply andb_true_iff. split; [unfold len; lia|].
      apply forallb_forall. intros y Hy. rewrite Forall_forall in Hall. apply (Hall y Hy).
    + apply le_n_S. apply hmax_le. eapply Forall_impl; [|exact Hall]. intros y Hy. apply Hy.
  - rewrite (dec_S_map _ _ _ _ _ _ _ Hr) in H.
    destruct (max_map L <? n) eqn:Em; [discriminate|]. destruct depth as [|d']; [discriminate|].
    destruct (dec_pairs (dec L f d') (N.to_nat n) r0) as [[ps r']|e] eqn:Es; [|discriminate].
    destruct (has_dup _) eqn:Edup; [discriminate|].
    injection H as <- <-.
    apply (dec_pairs_sound _ _ (fun y => wf_dec L y = true /\ (height y <= d')%nat) (IH d')) in Es.
    destruct Es as [Hall Hl]. rewrite height_map. cbn [wf_dec]. split.
    + rewrite Edup. rewrite andb_true_r. apply andb_true_iff. split; [unfold len; lia|].
      apply forallb_forall. intros [k v] Hkv. rewrite Forall_forall in Hall.
      destruct (Hall _ Hkv) as (Hs & [Hk _] & [Hv _]). cbn [fst snd] in *.
      rewrite Hs, Hk, Hv. reflexivity.
    + apply le_n_S. apply hmaxp_le. eapply Forall_impl; [|exact Hall].
      intros kv (_ & [_ Hk] & [_ Hv]). split; assumption.
  - rewrite (dec_S_tag _ _ _ _ _ _ _ Hr) in H.
    destruct (tag_allowed n) eqn:Eta; cbn [negb] in H; [|discriminate].
    destruct (dec L f depth r0) as [[y r']|e] eqn:Ed; [|discriminate].
    injection H as <- <-. apply IH in Ed. destruct Ed as [Hw Hh].
    cbn [wf_dec height]. rewrite Eta, Hw. split; [|exact Hh].
    rewrite !andb_true_r. apply N.ltb_lt. exact Hn.
  - rewrite (dec_S_simple _ _ _ _ _ _ _ Hr) in H.
    destruct (ai <? 24) eqn:E1.
    { injection H as <- <-. cbn [wf_dec height]. split; [|lia]. unfold simple_ok.
      rewrite (Hsm ltac:(lia)). rewrite E1. reflexivity. }
    destruct (ai =? 24) eqn:E2; [|discriminate].
    destruct (n <? 32) eqn:E3; [discriminate|]. injection H as <- <-.
    cbn [wf_dec height]. split; [|lia]. unfold simple_ok.
    specialize (H24 ltac:(lia)). apply orb_true_iff. right. lia.
Qed.

Theorem decode_sound L bs x :
  decode L bs = Ok x -> wf_dec L x = true /\ (height x <= max_depth L)%nat.
Proof.
  unfold decode. intros H.
  destruct (dec L (S (length bs)) (max_depth L) bs) as [[y [|b r]]|e] eqn:E; try discriminate.
  injection H as <-. apply dec_sound in E. exact E.
Qed.

(* ------------------------------------------------------------------ *)
(* insertion sort by an encoded key, generically                        *)

Section KeySort.
  Context {A : Type}.
  Variable key : A -> bytes.

  Fixpoint ins (p : A) (l : list A) : list A :=
    match l with
    | [] => [p]
    | q :: l' => if lex_leb (key p) (key q) then p :: l else q :: ins p l'
    end.

  Fixpoint srt (l : list A) : list A :=
    match l with
    | [] => []
    | p :: l' => ins p (srt l')
    end.

  Definition kle (a b : A) : Prop := lex_leb (key a) (key b) = true.

  Lemma ins_perm p l : Permutation (ins p l) (p :: l).
  Proof.
    induction l as [|q l IH]; cbn [ins]; [apply Permutation_refl|].
    destruct (lex_leb (key p) (key q)); [apply Permutation_refl|].
    eapply Permutation_trans; [apply perm_skip, IH|apply perm_swap].
  Qed.

  Lemma srt_perm l : Permutation (srt l) l.
  Proof.
    induction l as [|p l IH]; cbn [srt]; [constructor|].
    eapply Permutation_trans; [apply ins_perm|apply perm_skip, IH].
  Qed.

  Lemma ins_ssorted p l : StronglySorted kle l -> StronglySorted kle (ins p l).
  Proof.
    induction l as [|q l IH]; intros Hs; cbn [ins].
    - constructor; constructor.
    - inversion Hs as [|? ? Hs' Hq]; subst. destruct (lex_leb (key p) (key q)) eqn:E.
      + constructor; [exact Hs|]. constructor; [exact E|].
        eapply Forall_impl; [|exact Hq]. intros c Hc. unfold kle in *.
        eapply lex_leb_trans; eassumption.
      + constructor; [apply IH, Hs'|].
        apply Forall_forall. intros c Hc.
        apply (Permutation_in _ (ins_perm p l)) in Hc. destruct Hc as [<-|Hc].
        * unfold kle. apply lex_ltb_leb, lex_leb_total, E.
        * rewrite Forall_forall in Hq. apply Hq, Hc.
  Qed.

  Lemma srt_ssorted l : StronglySorted kle (srt l).
  Proof.
    induction l as [|p l IH]; cbn [srt]; [constructor|]. apply ins_ssorted, IH.
  Qed.

  Lemma srt_id_sorted l : Sorted kle l -> srt l = l.
  Proof.
    induction 1 as [|p l Hs IH Hd]; [reflexivity|].
    cbn [srt]. rewrite IH. destruct Hd as [|q l Hpq]; [reflexivity|].
    cbn [ins]. unfold kle in Hpq. rewrite Hpq. reflexivity.
  Qed.

  Lemma srt_idem l : srt (srt l) = srt l.
  Proof. apply srt_id_sorted, StronglySorted_Sorted, srt_ssorted. Qed.

  Lemma strict_Sorted l : strictly_sorted (map key l) = true -> Sorted kle l.
  Proof.
    induction l as [|p l IH]; intros H; [constructor|].
    cbn [map] in H. constructor; [apply IH, (ss_tail _ _ H)|].
    destruct l as [|q l]; [constructor|]. constructor.
    cbn [map strictly_sorted] in H. apply andb_true_iff in H. destruct H as [H _].
    unfold kle. apply lex_ltb_leb, H.
  Qed.

  Lemma srt_strict_id l : strictly_sorted (map key l) = true -> srt l = l.
  Proof. intros H. apply srt_id_sorted, strict_Sorted, H. Qed.

  Lemma ssorted_nodup_strict l :
    NoDup (map key l) -> StronglySorted kle l -> strictly_sorted (map key l) = true.
  Proof.
    induction l as [|p l IH]; intros Hn Hs; [reflexivity|].
    cbn [map] in Hn |- *. inversion Hn as [|? ? Hnin Hn']; subst.
    inversion Hs as [|? ? Hs' Hp]; subst.
    apply ss_cons; [|apply IH; assumption].
    apply Forall_forall. intros b Hb. apply in_map_iff in Hb. destruct Hb as (q & <- & Hq).
    rewrite Forall_forall in Hp. specialize (Hp q Hq). unfold kle in Hp.
    apply lex_leb_neq_ltb; [exact Hp|]. intros Heq. apply Hnin. rewrite Heq. apply in_map, Hq.
  Qed.

  Lemma srt_strict l : NoDup (map key l) -> strictly_sorted (map key (srt l)) = true.
  Proof.
    intros Hn. apply ssorted_nodup_strict; [|apply srt_ssorted].
    eapply Permutation_NoDup; [|exact Hn]. apply Permutation_map, Permutation_sym, srt_perm.
  Qed.

  Lemma strict_perm_eq : forall l l',
    Permutation l l' ->
    strictly_sorted (map key l) = true -> strictly_sorted (map key l') = true -> l = l'.
  Proof.
    induction l as [|p l IH]; intros [|q l'] Hp Hs Hs'.
    - reflexivity.
    - apply Permutation_nil in Hp. discriminate.
    - apply Permutation_sym, Permutation_nil in Hp. discriminate.
    - cbn [map] in Hs, Hs'.
      pose proof (ss_head_lt _ _ Hs) as Hl. pose proof (ss_head_lt _ _ Hs') as Hl'.
      rewrite Forall_forall in Hl, Hl'.
      assert (Hpq : p = q).
      { pose proof (Permutation_in p Hp (or_introl eq_refl)) as H1.
        pose proof (Permutation_in q (Permutation_sym Hp) (or_introl eq_refl)) as H2.
        destruct H1 as [H1|H1]; [congruence|]. destruct H2 as [H2|H2]; [congruence|].
        specialize (Hl' (key p) (in_map key _ _ H1)). specialize (Hl (key q) (in_map key _ _ H2)).
        rewrite (lex_ltb_asym _ _ Hl) in Hl'. discriminate. }
      subst q. f_equal. apply IH; [eapply Permutation_cons_inv; exact Hp| |].
      + apply (ss_tail _ _ Hs).
      + apply (ss_tail _ _ Hs').
  Qed.

  Lemma srt_perm_eq l l' : Permutation l l' -> NoDup (map key l) -> srt l = srt l'.
  Proof.
    intros Hp Hn. apply strict_perm_eq.
    - eapply Permutation_trans; [apply srt_perm|].
      eapply Permutation_trans; [exact Hp|apply Permutation_sym, srt_perm].
    - apply srt_strict, Hn.
    - apply srt_strict. eapply Permutation_NoDup; [|exact Hn]. apply Permutation_map, Hp.
  Qed.
End KeySort.

Lemma map_ins {A B} (k1 : A -> bytes) (k2 : B -> bytes) (f : A -> B) :
  (forall p, k2 (f p) = k1 p) -> forall p l, map f (ins k1 p l) = ins k2 (f p) (map f l).
Proof.
  intros Hk p l. induction l as [|q l IH]; cbn [ins map]; [reflexivity|].
  rewrite !Hk. destruct (lex_leb (k1 p) (k1 q)); cbn [map]; [reflexivity|]. rewrite IH. reflexivity.
Qed.

Lemma map_srt {A B} (k1 : A -> bytes) (k2 : B -> bytes) (f : A -> B) :
  (forall p, k2 (f p) = k1 p) -> forall l, map f (srt k1 l) = srt k2 (map f l).
Proof.
  intros Hk l. induction l as [|p l IH]; cbn [srt map]; [reflexivity|].
  rewrite (map_ins k1 k2 f Hk), IH. reflexivity.
Qed.

Definition ek (kv : item * item) : bytes := encode (fst kv).

Lemma insert_by_ins {A} (p : bytes * A) l : insert_by p l = ins fst p l.
Proof. induction l as [|q l IH]; cbn [insert_by ins]; [reflexivity|]. rewrite IH. reflexivity. Qed.

Lemma sort_by_srt {A} (l : list (bytes * A)) : sort_by l = srt fst l.
Proof. induction l as [|p l IH]; cbn [sort_by srt]; [reflexivity|]. rewrite insert_by_ins, IH. reflexivity. Qed.

Lemma insert_kv_ins p l : insert_kv p l = ins ek p l.
Proof. induction l as [|q l IH]; cbn [insert_kv ins]; [reflexivity|]. rewrite IH. reflexivity. Qed.

Lemma sort_kv_srt l : sort_kv l = srt ek l.
Proof. induction l as [|p l IH]; cbn [sort_kv srt]; [reflexivity|]. rewrite insert_kv_ins, IH. reflexivity. Qed.

Lemma ek_enc_kv p : fst (enc_kv p) = ek p.
Proof. destruct p as [k v]. reflexivity. Qed.

Lemma map_ek l : map ek l = map (fun kv : item * item => encode (fst kv)) l.
Proof. reflexivity. Qed.

Lemma has_dup_NoDup l : has_dup l = false -> NoDup l.
Proof.
  induction l as [|a l IH]; intros H; [constructor|].
  cbn [has_dup] in H. apply orb_false_iff in H. destruct H as [H1 H2].
  constructor; [|apply IH, H2]. intros Hin.
  assert (existsb (bytes_eqb a) l = true); [|congruence].
  apply existsb_exists. exists a. split; [exact Hin|apply bytes_eqb_refl].
Qed.

Lemma NoDup_has_dup l : NoDup l -> has_dup l = false.
Proof.
  induction 1 as [|a l Hn Hd IH]; [reflexivity|].
  cbn [has_dup]. rewrite IH, orb_false_r.
  destruct (existsb (bytes_eqb a) l) eqn:E; [|reflexivity].
  apply existsb_exists in E. destruct E as (b & Hb & Hab). apply bytes_eqb_eq in Hab. subst b.
  contradiction.
Qed.

(* ------------------------------------------------------------------ *)
(* canonical form                                                       *)

Definition ckv (kv : item * item) : item * item := match kv with (k, v) => (k, canon v) end.

Lemma canon_map_unfold l : canon (Map l) = Map (sort_kv (map ckv l)).
Proof. reflexivity. Qed.

Lemma canon_scalar k : scalar_key k = true -> canon k = k.
Proof. destruct k; try reflexivity; discriminate. Qed.

Lemma wf_dec_scalar L k : scalar_key k = true -> wf_dec L k = wf L k.
Proof. destruct k; try reflexivity; discriminate. Qed.

Lemma map_ek_ckv l : map ek (map ckv l) = map ek l.
Proof. rewrite map_map. apply map_ext. intros [k v]. reflexivity. Qed.

Lemma hmax_cons y l : hmax (y :: l) = Nat.max (height y) (hmax l).
Proof. reflexivity. Qed.

Lemma hmaxp_cons k v l : hmaxp ((k, v) :: l) = Nat.max (Nat.max (height k) (height v)) (hmaxp l).
Proof. reflexivity. Qed.

Lemma hmaxp_perm l l' : Permutation l l' -> hmaxp l = hmaxp l'.
Proof.
  induction 1 as [|[k v] l l' Hp IH|[k v] [k' v'] l|l l' l'' Hp IH Hp' IH'].
  - reflexivity.
  - rewrite !hmaxp_cons, IH. reflexivity.
  - rewrite !hmaxp_cons. lia.
  - congruence.
Qed.

Lemma map_id_in {A} (f : A -> A) l : (forall y, In y l -> f y = y) -> map f l = l.
Proof.
  intros H. rewrite <- (map_id l) at 2. apply map_ext_in. exact H.
Qed.

Theorem height_canon : forall x, height (canon x) = height x.
Proof.
  intros x; induction x as [n|n|b|b|l IH|l IH|t x IH|v] using item_ind'; try reflexivity.
  - cbn [canon]. rewrite !height_arr. f_equal.
    induction IH as [|y l Hy Hl IHl]; [reflexivity|].
    cbn [map]. rewrite !hmax_cons, Hy, IHl. reflexivity.
  - rewrite canon_map_unfold, !height_map. f_equal.
    rewrite sort_kv_srt, (hmaxp_perm _ _ (srt_perm ek (map ckv l))).
    induction IH as [|[k v] l [Hk Hv] Hl IHl]; [reflexivity|].
    cbn [map ckv]. rewrite !hmaxp_cons, IHl. cbn [snd] in Hv. rewrite Hv. reflexivity.
  - cbn [canon height]. exact IH.
Qed.

Theorem canon_wf L : forall x, wf_dec L x = true -> wf L (canon x) = true.
Proof.
  intros x; induction x as [n|n|b|b|l IH|l IH|t x IH|v] using item_ind'; intros H;
    try exact H.
  - cbn [wf_dec] in H. apply andb_true_iff in H. destruct H as [Hlen Hall].
    cbn [canon wf]. apply andb_true_iff. split.
    + unfold len in *. rewrite map_length. exact Hlen.
    + apply forallb_forall. intros y' Hy'. apply in_map_iff in Hy'. destruct Hy' as (y & <- & Hy).
      rewrite Forall_forall in IH. apply (IH y Hy).
      rewrite forallb_forall in Hall. apply Hall, Hy.
  - cbn [wf_dec] in H. apply andb_true_iff in H. destruct H as [H Hdup].
    apply andb_true_iff in H. destruct H as [Hlen Hall].
    apply negb_true_iff in Hdup.
    rewrite canon_map_unfold, sort_kv_srt. cbn [wf].
    pose proof (srt_perm ek (map ckv l)) as Hperm.
    apply andb_true_iff. split; [apply andb_true_iff; split|].
    + unfold len in *. rewrite (Permutation_length Hperm), map_length. exact Hlen.
    + apply forallb_forall. intros kv' Hkv'.
      apply (Permutation_in _ Hperm) in Hkv'. apply in_map_iff in Hkv'.
      destruct Hkv' as ([k v] & <- & Hkv). cbn [ckv].
      rewrite forallb_forall in Hall. specialize (Hall _ Hkv). cbn beta iota in Hall.
      apply andb_true_iff in Hall. destruct Hall as [Hall Hwv].
      apply andb_true_iff in Hall. destruct Hall as [Hsk Hwk].
      rewrite Forall_forall in IH. destruct (IH _ Hkv) as [_ IHv]. cbn [snd] in IHv.
      rewrite Hsk, (IHv Hwv). rewrite <- (wf_dec_scalar L k Hsk), Hwk. reflexivity.
    + change (strictly_sorted (map ek (srt ek (map ckv l))) = true).
      apply srt_strict. rewrite map_ek_ckv. apply has_dup_NoDup. exact Hdup.
  - cbn [wf_dec] in H. apply andb_true_iff in H. destruct H as [H Hw].
    cbn [canon wf]. rewrite H, (IH Hw). reflexivity.
Qed.

Theorem canon_within L x :
  wf_dec L x = true -> (height x <= max_depth L)%nat -> within L (canon x) = true.
Proof.
  intros Hw Hh. unfold within. rewrite (canon_wf L x Hw), height_canon. cbn [andb].
  apply Nat.leb_le. exact Hh.
Qed.

Theorem canon_idem L : forall x, wf L x = true -> canon x = x.
Proof.
  intros x; induction x as [n|n|b|b|l IH|l IH|t x IH|v] using item_ind'; intros H;
    try reflexivity.
  - cbn [wf] in H. apply andb_true_iff in H. destruct H as [_ Hall].
    cbn [canon]. f_equal. apply map_id_in. intros y Hy.
    rewrite Forall_forall in IH. apply (IH y Hy). rewrite forallb_forall in Hall. apply Hall, Hy.
  - cbn [wf] in H. apply andb_true_iff in H. destruct H as [H Hss].
    apply andb_true_iff in H. destruct H as [_ Hall].
    rewrite canon_map_unfold. f_equal.
    assert (Hid : map ckv l = l).
    { apply map_id_in. intros [k v] Hkv. cbn [ckv]. f_equal.
      rewrite Forall_forall in IH. destruct (IH _ Hkv) as [_ IHv]. cbn [snd] in IHv. apply IHv.
      rewrite forallb_forall in Hall. specialize (Hall _ Hkv). cbn beta iota in Hall.
      apply andb_true_iff in Hall. apply Hall. }
    rewrite Hid, sort_kv_srt. apply srt_strict_id. exact Hss.
  - cbn [wf] in H. apply andb_true_iff in H. destruct H as [_ Hw].
    cbn [canon]. f_equal. apply IH, Hw.
Qed.

(* the deterministic encoder sorts anyway: an item and its canonical form have the same
   encoding (no side condition) *)
Theorem encode_canon : forall x, encode (canon x) = encode x.
Proof.
  intros x; induction x as [n|n|b|b|l IH|l IH|t x IH|v] using item_ind'; try reflexivity.
  - cbn [canon encode]. unfold len. rewrite map_length, map_map. do 2 f_equal.
    apply map_ext_in. intros y Hy. rewrite Forall_forall in IH. apply (IH y Hy).
  - rewrite canon_map_unfold, !encode_map_unfold, sort_kv_srt, !sort_by_srt.
    rewrite (map_srt ek fst enc_kv ek_enc_kv), srt_idem.
    unfold len. rewrite (Permutation_length (srt_perm ek (map ckv l))), map_length.
    do 4 f_equal. rewrite map_map. apply map_ext_in. intros [k v] Hkv. cbn [ckv enc_kv].
    rewrite Forall_forall in IH. destruct (IH _ Hkv) as [_ IHv]. cbn [snd] in IHv. rewrite IHv. reflexivity.
  - cbn [canon encode]. rewrite IH. reflexivity.
Qed.

Lemma decode_reencode_lim L (HL : lim64 L) bs x :
  decode L bs = Ok x -> decode L (encode x) = Ok (canon x).
Proof.
  intros H. apply decode_sound in H. destruct H as [Hw Hh].
  rewrite <- encode_canon. apply (decode_encode L HL). apply canon_within; assumption.
Qed.

(* ------------------------------------------------------------------ *)
(* independence of the iteration order of Go maps                       *)

Theorem encode_map_order_independent l l' :
  Permutation l l' -> NoDup (map (fun kv : item * item => encode (fst kv)) l) ->
  encode (Map l) = encode (Map l').
Proof.
  intros Hp Hn. rewrite !encode_map_unfold, !sort_by_srt.
  unfold len. rewrite (Permutation_length Hp). do 3 f_equal.
  apply srt_perm_eq; [apply Permutation_map, Hp|].
  rewrite map_fst_enc_kv. exact Hn.
Qed.

Lemma ssorted_map {A} (key : A -> bytes) l :
  StronglySorted (kle key) l -> StronglySorted (fun a b => lex_leb a b = true) (map key l).
Proof.
  induction 1 as [|p l Hs IH Hp]; cbn [map]; constructor; [exact IH|].
  apply Forall_forall. intros b Hb. apply in_map_iff in Hb. destruct Hb as (q & <- & Hq).
  rewrite Forall_forall in Hp. apply (Hp q Hq).
Qed.

Theorem encode_map_keys_sorted l :
  exists ps : list (bytes * bytes),
    encode (Map l) = head 5 (len l) ++ concat (map (fun p => fst p ++ snd p) ps) /\
    Permutation ps (map (fun kv : item * item => (encode (fst kv), encode (snd kv))) l) /\
    StronglySorted (fun a b => lex_leb a b = true) (map fst ps).
Proof.
  exists (sort_by (map enc_kv l)). split; [apply encode_map_unfold|]. rewrite sort_by_srt. split.
  - eapply Permutation_trans; [apply srt_perm|].
    assert (He : map enc_kv l = map (fun kv : item * item => (encode (fst kv), encode (snd kv))) l).
    { apply map_ext. intros [k v]. reflexivity. }
    rewrite He. apply Permutation_refl.
  - apply ssorted_map, srt_ssorted.
Qed.

(* ------------------------------------------------------------------ *)
(* the decoder does not look beyond the item it returns; more fuel does
   not change a result; truncated encodings are refused                 *)

Definition stable {A} (d : bytes -> res (A * bytes)) : Prop :=
  forall bs x r, d bs = Ok (x, r) ->
  exists c, bs = c ++ r /\ forall r', d (c ++ r') = Ok (x, r').

Lemma read_head_stable bs mt ai n r :
  read_head bs = Ok (mt, ai, n, r) ->
  exists c, bs = c ++ r /\ forall r', read_head (c ++ r') = Ok (mt, ai, n, r').
Proof.
  intros H. apply read_head_spec in H.
  destruct H as (_ & _ & _ & _ & _ & _ & b & _ & _ & _ & c & Hbs & Hst).
  exists (b :: c). split; [exact Hbs|exact Hst].
Qed.

Lemma take_n_stable n bs a r :
  take_n n bs = Some (a, r) -> bs = a ++ r /\ forall r', take_n n (a ++ r') = Some (a, r').
Proof.
  intros H. apply take_n_spec in H. destruct H as [-> <-]. split; [reflexivity|].
  intros r'. apply take_n_app.
Qed.

Lemma dec_seq_stable d n : stable d -> stable (dec_seq d n).
Proof.
  intros Hd. induction n as [|n IH]; intros bs xs r H; cbn [dec_seq] in H.
  - injection H as <- <-. exists []. split; [reflexivity|]. intros r'. reflexivity.
  - destruct (d bs) as [[x r0]|e] eqn:E; [|discriminate].
    destruct (dec_seq d n r0) as [[xs' r1]|e] eqn:E1; [|discriminate].
    injection H as <- <-.
    destruct (Hd _ _ _ E) as (c1 & -> & H1). destruct (IH _ _ _ E1) as (c2 & -> & H2).
    exists (c1 ++ c2). split; [rewrite app_assoc; reflexivity|].
    intros r'. cbn [dec_seq]. rewrite <- app_assoc, H1, H2. reflexivity.
Qed.

Lemma dec_pairs_stable d n : stable d -> stable (dec_pairs d n).
Proof.
  intros Hd. induction n as [|n IH]; intros bs ps r H; cbn [dec_pairs] in H.
  - injection H as <- <-. exists []. split; [reflexivity|]. intros r'. reflexivity.
  - destruct (d bs) as [[k r0]|e] eqn:E; [|discriminate].
    destruct (negb (scalar_key k)) eqn:Ek; [discriminate|].
    destruct (d r0) as [[v r1]|e] eqn:E0; [|discriminate].
    destruct (dec_pairs d n r1) as [[ps' r2]|e] eqn:E1; [|discriminate].
    injection H as <- <-.
    destruct (Hd _ _ _ E) as (c1 & -> & H1). destruct (Hd _ _ _ E0) as (c2 & -> & H2).
    destruct (IH _ _ _ E1) as (c3 & -> & H3).
    exists (c1 ++ c2 ++ c3). split; [rewrite <- !app_assoc; reflexivity|].
    intros r'. cbn [dec_pairs]. rewrite <- !app_assoc, H1, Ek, H2, H3. reflexivity.
Qed.

Theorem dec_stable L : forall fuel depth, stable (dec L fuel depth).
Proof.
  induction fuel as [|f IH]; intros depth bs x r H; [discriminate|].
  destruct (read_head bs) as [[[[mt ai] n] r0]|e] eqn:Hr;
    [|rewrite (dec_S_err _ _ _ _ _ Hr) in H; discriminate].
  pose proof (read_head_spec _ _ _ _ _ Hr) as (_ & Hmt & _).
  destruct (read_head_stable _ _ _ _ _ Hr) as (hc & -> & Hst).
  destruct (mt_cases mt Hmt) as [-> |[-> |[-> |[-> |[-> |[-> |[-> | ->]]]]]]].
  - rewrite (dec_S_uint _ _ _ _ _ _ _ Hr) in H. injection H as <- <-.
    exists hc. split; [reflexivity|]. intros r'. apply (dec_S_uint _ _ _ _ _ _ _ (Hst r')).
  - rewrite (dec_S_nint _ _ _ _ _ _ _ Hr) in H. injection H as <- <-.
    exists hc. split; [reflexivity|]. intros r'. apply (dec_S_nint _ _ _ _ _ _ _ (Hst r')).
  - rewrite (dec_S_bstr _ _ _ _ _ _ _ Hr) in H.
    destruct (take_n n r0) as [[a r1]|] eqn:Et; [|discriminate].
    destruct (all_bytes a) eqn:Ea; [|discriminate]. injection H as <- <-.
    apply take_n_stable in Et. destruct Et as [-> Ht].
    exists (hc ++ a). split; [rewrite app_assoc; reflexivity|]. intros r'. rewrite <- app_assoc.
    rewrite (dec_S_bstr _ _ _ _ _ _ _ (Hst _)), Ht, Ea. reflexivity.
  - rewrite (dec_S_tstr _ _ _ _ _ _ _ Hr) in H.
    destruct (take_n n r0) as [[a r1]|] eqn:Et; [|discriminate].
    destruct (all_bytes a) eqn:Ea; [|discriminate]. destruct (utf8_valid a) eqn:Eu; [|discriminate].
    injection H as <- <-.
    apply take_n_stable in Et. destruct Et as [-> Ht].
    exists (hc ++ a). split; [rewrite app_assoc; reflexivity|]. intros r'. rewrite <- app_assoc.
    rewrite (dec_S_tstr _ _ _ _ _ _ _ (Hst _)), Ht, Ea, Eu. reflexivity.
  - rewrite (dec_S_arr _ _ _ _ _ _ _ Hr) in H.
    destruct (max_arr L <? n) eqn:Em; [discriminate|]. destruct depth as [|d']; [discriminate|].
    destruct (dec_seq (dec L f d') (N.to_nat n) r0) as [[xs r1]|e] eqn:Es; [|discriminate].
    injection H as <- <-.
    destruct (dec_seq_stable _ _ (IH d') _ _ _ Es) as (c & -> & Hs).
    exists (hc ++ c). split; [rewrite app_assoc; reflexivity|]. intros r'. rewrite <- app_assoc.
    rewrite (dec_S_arr _ _ _ _ _ _ _ (Hst _)), Em, Hs. reflexivity.
  - rewrite (dec_S_map _ _ _ _ _ _ _ Hr) in H.
    destruct (max_map L <? n) eqn:Em; [discriminate|]. destruct depth as [|d']; [discriminate|].
    destruct (dec_pairs (dec L f d') (N.to_nat n) r0) as [[ps r1]|e] eqn:Es; [|discriminate].
    destruct (has_dup _) eqn:Edup; [discriminate|].
    injection H as <- <-.
    destruct (dec_pairs_stable _ _ (IH d') _ _ _ Es) as (c & -> & Hs).
    exists (hc ++ c). split; [rewrite app_assoc; reflexivity|]. intros r'. rewrite <- app_assoc.
    rewrite (dec_S_map _ _ _ _ _ _ _ (Hst _)), Em, Hs, Edup. reflexivity.
  - rewrite (dec_S_tag _ _ _ _ _ _ _ Hr) in H.
    destruct (negb (tag_allowed n)) eqn:Eta; [discriminate|].
    destruct (dec L f depth r0) as [[y r1]|e] eqn:Ed; [|discriminate].
    injection H as <- <-.
    destruct (IH _ _ _ _ Ed) as (c & -> & Hs).
    exists (hc ++ c). split; [rewrite app_assoc; reflexivity|]. intros r'. rewrite <- app_assoc.
    rewrite (dec_S_tag _ _ _ _ _ _ _ (Hst _)), Eta, Hs. reflexivity.
  - rewrite (dec_S_simple _ _ _ _ _ _ _ Hr) in H.
    destruct (ai <? 24) eqn:E1.
    { injection H as <- <-. exists hc. split; [reflexivity|]. intros r'.
      rewrite (dec_S_simple _ _ _ _ _ _ _ (Hst _)), E1. reflexivity. }
    destruct (ai =? 24) eqn:E2; [|discriminate].
    destruct (n <? 32) eqn:E3; [discriminate|]. injection H as <- <-.
    exists hc. split; [reflexivity|]. intros r'.
    rewrite (dec_S_simple _ _ _ _ _ _ _ (Hst _)), E1, E2, E3. reflexivity.
Qed.

Definition res_le {A} (d d' : bytes -> res A) : Prop := forall bs v, d bs = Ok v -> d' bs = Ok v.

Lemma dec_seq_mono d d' n : res_le d d' -> res_le (dec_seq d n) (dec_seq d' n).
Proof.
  intros Hd. induction n as [|n IH]; intros bs v H; cbn [dec_seq] in H |- *; [exact H|].
  destruct (d bs) as [[x r0]|e] eqn:E; [|discriminate].
  destruct (dec_seq d n r0) as [[xs' r1]|e] eqn:E1; [|discriminate].
  rewrite (Hd _ _ E), (IH _ _ E1). exact H.
Qed.

Lemma dec_pairs_mono d d' n : res_le d d' -> res_le (dec_pairs d n) (dec_pairs d' n).
Proof.
  intros Hd. induction n as [|n IH]; intros bs v H; cbn [dec_pairs] in H |- *; [exact H|].
  destruct (d bs) as [[k r0]|e] eqn:E; [|discriminate].
  destruct (negb (scalar_key k)) eqn:Ek; [discriminate|].
  destruct (d r0) as [[v0 r1]|e] eqn:E0; [|discriminate].
  destruct (dec_pairs d n r1) as [[ps' r2]|e] eqn:E1; [|discriminate].
  rewrite (Hd _ _ E), Ek, (Hd _ _ E0), (IH _ _ E1). exact H.
Qed.

Theorem dec_fuel_mono L : forall f f' depth, (f <= f')%nat -> res_le (dec L f depth) (dec L f' depth).
Proof.
  induction f as [|f IH]; intros f' depth Hle bs v H; [discriminate|].
  destruct f' as [|f']; [lia|]. assert (Hle' : (f <= f')%nat) by lia.
  destruct (read_head bs) as [[[[mt ai] n] r0]|e] eqn:Hr;
    [|rewrite (dec_S_err _ _ _ _ _ Hr) in H; discriminate].
  pose proof (read_head_spec _ _ _ _ _ Hr) as (_ & Hmt & _).
  destruct (mt_cases mt Hmt) as [-> |[-> |[-> |[-> |[-> |[-> |[-> | ->]]]]]]].
  - rewrite (dec_S_uint L f _ _ _ _ _ Hr) in H. rewrite (dec_S_uint L f' _ _ _ _ _ Hr). exact H.
  - rewrite (dec_S_nint L f _ _ _ _ _ Hr) in H. rewrite (dec_S_nint L f' _ _ _ _ _ Hr). exact H.
  - rewrite (dec_S_bstr L f _ _ _ _ _ Hr) in H. rewrite (dec_S_bstr L f' _ _ _ _ _ Hr). exact H.
  - rewrite (dec_S_tstr L f _ _ _ _ _ Hr) in H. rewrite (dec_S_tstr L f' _ _ _ _ _ Hr). exact H.
  - rewrite (dec_S_arr L f _ _ _ _ _ Hr) in H. rewrite (dec_S_arr L f' _ _ _ _ _ Hr).
    destruct (max_arr L <? n); [discriminate|]. destruct depth as [|d']; [discriminate|].
    destruct (dec_seq (dec L f d') (N.to_nat n) r0) as [[xs r1]|e] eqn:Es; [|discriminate].
    rewrite (dec_seq_mono _ _ _ (IH f' d' Hle') _ _ Es). exact H.
  - rewrite (dec_S_map L f _ _ _ _ _ Hr) in H. rewrite (dec_S_map L f' _ _ _ _ _ Hr).
    destruct (max_map L <? n); [discriminate|]. destruct depth as [|d']; [discriminate|].
    destruct (dec_pairs (dec L f d') (N.to_nat n) r0) as [[ps r1]|e] eqn:Es; [|discriminate].
    rewrite (dec_pairs_mono _ _ _ (IH f' d' Hle') _ _ Es). exact H.
  - rewrite (dec_S_tag L f _ _ _ _ _ Hr) in H. rewrite (dec_S_tag L f' _ _ _ _ _ Hr).
    destruct (negb (tag_allowed n)); [discriminate|].
    destruct (dec L f depth r0) as [[y r1]|e] eqn:Ed; [|discriminate].
    rewrite (IH f' depth Hle' _ _ Ed). exact H.
  - rewrite (dec_S_simple L f _ _ _ _ _ Hr) in H. rewrite (dec_S_simple L f' _ _ _ _ _ Hr). exact H.
Qed.

(* the language the decoder accepts is prefix-free: for ANY input, accepted or not canonical *)
Theorem decode_prefix_free L p s x y :
  decode L p = Ok x -> decode L (p ++ s) = Ok y -> s = [] /\ x = y.
Proof.
  unfold decode. intros Hp Hps.
  destruct (dec L (S (length p)) (max_depth L) p) as [[x' [|b r]]|e] eqn:E; try discriminate.
  injection Hp as ->.
  destruct (dec_stable L _ _ _ _ _ E) as (c & Hc & Hst). rewrite app_nil_r in Hc. subst c.
  specialize (Hst s).
  apply (dec_fuel_mono L _ (S (length (p ++ s))) (max_depth L)) in Hst.
  2:{ rewrite app_length. lia. }
  rewrite Hst in Hps. destruct s as [|b s]; [|discriminate].
  injection Hps as ->. split; reflexivity.
Qed.

(* truncated encodings: every proper prefix of a valid encoding is refused, with ETrunc *)

Lemma take_short k bs : (length bs < k)%nat -> take k bs = None.
Proof.
  revert bs; induction k as [|k IH]; intros bs H; [lia|].
  destruct bs as [|b bs]; cbn [take]; [reflexivity|]. rewrite IH; [reflexivity|cbn [length] in H; lia].
Qed.

Lemma take_n_short n bs : len bs < n -> take_n n bs = None.
Proof. intros H. unfold take_n. destruct (n <=? len bs) eqn:E; [lia|reflexivity]. Qed.

Lemma head_shape mt n :
  exists body, head mt n = (mt * 32 + ai_of n) :: body /\
    ((n < 24 /\ body = []) \/ (24 <= ai_of n < 28 /\ length body = kof (ai_of n))).
Proof.
  unfold head, ai_of.
  destruct (n <? 24) eqn:E1. { eexists; split; [reflexivity|left; split; [lia|reflexivity]]. }
  destruct (n <? 256) eqn:E2. { eexists; split; [reflexivity|right; split; [lia|reflexivity]]. }
  destruct (n <? 65536) eqn:E3.
  { eexists; split; [reflexivity|right; split; [lia|exact (be_bytes_length 2 n)]]. }
  destruct (n <? 4294967296) eqn:E4.
  { eexists; split; [reflexivity|right; split; [lia|exact (be_bytes_length 4 n)]]. }
  eexists; split; [reflexivity|right; split; [lia|exact (be_bytes_length 8 n)]].
Qed.

Lemma app_split {A} (a b p s : list A) :
  a ++ b = p ++ s ->
  (exists s', a = p ++ s' /\ s' <> [] /\ s = s' ++ b) \/ (exists p', p = a ++ p' /\ b = p' ++ s).
Proof.
  revert p; induction a as [|x a IH]; intros p H.
  - right. exists p. split; [reflexivity|exact H].
  - destruct p as [|y p].
    + left. exists (x :: a). cbn [app] in H |- *. split; [reflexivity|]. split; [discriminate|].
      symmetry; exact H.
    + cbn [app] in H. injection H as -> H.
      destruct (IH p H) as [(s' & -> & Hs & ->)|(p' & -> & ->)].
      * left. exists s'. repeat split; [exact Hs].
      * right. exists p'. split; reflexivity.
Qed.

Lemma read_head_trunc mt n p s :
  mt < 8 -> head mt n = p ++ s -> s <> [] -> read_head p = Err ETrunc.
Proof.
  intros Hm H Hs. destruct p as [|b p']; [reflexivity|].
  destruct (head_shape mt n) as (body & Hh & Hb). rewrite Hh in H. cbn [app] in H.
  injection H as <- H. destruct Hb as [[Hn ->]|[Hai Hl]].
  - destruct p' as [|? ?]; [|discriminate]. cbn [app] in H. congruence.
  - rewrite read_head_ext by assumption. rewrite take_short; [reflexivity|].
    apply (f_equal (@length N)) in H. rewrite app_length in H.
    destruct s as [|? s]; [congruence|]. cbn [length] in H. lia.
Qed.

Definition trunc_ok (d : bytes -> res (item * bytes)) (B : nat) (y : item) : Prop :=
  (forall rest, (length (encode y) <= B)%nat -> d (encode y ++ rest) = Ok (y, rest)) /\
  (forall p s, encode y = p ++ s -> s <> [] -> (length p <= B)%nat -> d p = Err ETrunc).

Lemma dec_seq_trunc d B l :
  Forall (trunc_ok d B) l ->
  forall p s, concat (map encode l) = p ++ s -> s <> [] -> (length p <= B)%nat ->
  dec_seq d (length l) p = Err ETrunc.
Proof.
  induction 1 as [|y l [Hy1 Hy2] Hl IH]; intros p s H Hs Hp.
  - cbn [map concat] in H. destruct p; [|discriminate]. cbn [app] in H. congruence.
  - cbn [map concat] in H. cbn [length dec_seq].
    destruct (app_split _ _ _ _ H) as [(s' & Hy & Hs' & _)|(p' & -> & Hc)].
    + rewrite (Hy2 p s' Hy Hs' Hp). reflexivity.
    + rewrite app_length in Hp. rewrite Hy1 by lia. rewrite (IH p' s Hc Hs) by lia. reflexivity.
Qed.

Lemma dec_pairs_trunc d B l :
  Forall (fun kv : item * item =>
            scalar_key (fst kv) = true /\ trunc_ok d B (fst kv) /\ trunc_ok d B (snd kv)) l ->
  forall p s,
  concat (map (fun kv : item * item => encode (fst kv) ++ encode (snd kv)) l) = p ++ s ->
  s <> [] -> (length p <= B)%nat ->
  dec_pairs d (length l) p = Err ETrunc.
Proof.
  induction 1 as [|[k v] l (Hsk & [Hk1 Hk2] & [Hv1 Hv2]) Hl IH]; intros p s H Hs Hp.
  - cbn [map concat] in H. destruct p; [|discriminate]. cbn [app] in H. congruence.
  - cbn [fst snd] in *. cbn [map concat fst snd] in H. rewrite <- app_assoc in H.
    cbn [length dec_pairs].
    destruct (app_split _ _ _ _ H) as [(s' & Hy & Hs' & _)|(p1 & -> & Hc)].
    + rewrite (Hk2 p s' Hy Hs' Hp). reflexivity.
    + rewrite app_length in Hp. rewrite Hk1 by lia. rewrite Hsk. cbn [negb].
      destruct (app_split _ _ _ _ Hc) as [(s' & Hy & Hs' & _)|(p2 & -> & Hc2)].
      * rewrite (Hv2 p1 s' Hy Hs') by lia. reflexivity.
      * rewrite app_length in Hp. rewrite Hv1 by lia. rewrite (IH p2 s Hc2 Hs) by lia. reflexivity.
Qed.

Theorem dec_truncated L (HL : lim64 L) : forall x fuel depth p s,
  wf L x = true -> (height x <= depth)%nat -> (length p < fuel)%nat ->
  encode x = p ++ s -> s <> [] -> dec L fuel depth p = Err ETrunc.
Proof.
  pose proof HL as [HLa HLm].
  intros x; induction x as [n|n|b|b|l IH|l IH|t x IH|v] using item_ind';
    intros fuel depth p s Hwf Hh Hf H Hs; (destruct fuel as [|f]; [lia|]).
  - cbn [encode] in H. apply dec_S_err. apply (read_head_trunc 0 n p s); [lia|exact H|exact Hs].
  - cbn [encode] in H. apply dec_S_err. apply (read_head_trunc 1 n p s); [lia|exact H|exact Hs].
  - cbn [wf] in Hwf. apply andb_true_iff in Hwf. destruct Hwf as [Hb Hlen]. apply N.ltb_lt in Hlen.
    cbn [encode] in H.
    destruct (app_split _ _ _ _ H) as [(s' & Hy & Hs' & _)|(p' & -> & Hc)].
    + apply dec_S_err. apply (read_head_trunc 2 (len b) p s'); [lia|exact Hy|exact Hs'].
    + rewrite (dec_S_bstr _ _ _ _ _ _ _ (read_head_head 2 (len b) p' ltac:(lia) Hlen)).
      rewrite take_n_short; [reflexivity|]. subst b. rewrite len_app.
      destruct s as [|? s]; [congruence|]. unfold len; cbn [length]. lia.
  - cbn [wf] in Hwf. apply andb_true_iff in Hwf. destruct Hwf as [Hwf Hu].
    apply andb_true_iff in Hwf. destruct Hwf as [Hb Hlen]. apply N.ltb_lt in Hlen.
    cbn [encode] in H.
    destruct (app_split _ _ _ _ H) as [(s' & Hy & Hs' & _)|(p' & -> & Hc)].
    + apply dec_S_err. apply (read_head_trunc 3 (len b) p s'); [lia|exact Hy|exact Hs'].
    + rewrite (dec_S_tstr _ _ _ _ _ _ _ (read_head_head 3 (len b) p' ltac:(lia) Hlen)).
      rewrite take_n_short; [reflexivity|]. subst b. rewrite len_app.
      destruct s as [|? s]; [congruence|]. unfold len; cbn [length]. lia.
  - cbn [wf] in Hwf. apply andb_true_iff in Hwf. destruct Hwf as [Hlen Hall].
    rewrite height_arr in Hh. destruct depth as [|d']; [lia|].
    cbn [encode] in H.
    destruct (app_split _ _ _ _ H) as [(s' & Hy & Hs' & _)|(p' & -> & Hc)].
    + apply dec_S_err. apply (read_head_trunc 4 (len l) p s'); [lia|exact Hy|exact Hs'].
    + rewrite app_length in Hf. pose proof (head_length_pos 4 (len l)) as Hp.
      rewrite (dec_S_arr _ _ _ _ _ _ _ (read_head_head 4 (len l) p' ltac:(lia) ltac:(lia))).
      destruct (max_arr L <? len l) eqn:E; [lia|].
      unfold len at 1. rewrite Nat2N.id.
      assert (Hfa : Forall (trunc_ok (dec L f d') (length p')) l);
        [|rewrite (dec_seq_trunc _ _ l Hfa p' s Hc Hs (le_n _)); reflexivity].
      rewrite Forall_forall in IH |- *. intros y Hy.
      rewrite forallb_forall in Hall. specialize (Hall y Hy).
      pose proof (hmax_in l y Hy) as Hhy.
      split.
      * intros rest Hle. apply (dec_encode L HL); [exact Hall|lia|lia].
      * intros p'' s'' He Hs'' Hle. apply (IH y Hy f d' p'' s''); [exact Hall|lia|lia|exact He|exact Hs''].
  - cbn [wf] in Hwf. apply andb_true_iff in Hwf. destruct Hwf as [Hwf Hss].
    apply andb_true_iff in Hwf. destruct Hwf as [Hlen Hall].
    rewrite height_map in Hh. destruct depth as [|d']; [lia|].
    rewrite (encode_map_sorted l Hss) in H.
    destruct (app_split _ _ _ _ H) as [(s' & Hy & Hs' & _)|(p' & -> & Hc)].
    + apply dec_S_err. apply (read_head_trunc 5 (len l) p s'); [lia|exact Hy|exact Hs'].
    + rewrite app_length in Hf. pose proof (head_length_pos 5 (len l)) as Hp.
      rewrite (dec_S_map _ _ _ _ _ _ _ (read_head_head 5 (len l) p' ltac:(lia) ltac:(lia))).
      destruct (max_map L <? len l) eqn:E; [lia|].
      unfold len at 1. rewrite Nat2N.id.
      assert (Hfa : Forall (fun kv : item * item =>
                scalar_key (fst kv) = true /\ trunc_ok (dec L f d') (length p') (fst kv) /\
                trunc_ok (dec L f d') (length p') (snd kv)) l);
        [|rewrite (dec_pairs_trunc _ _ l Hfa p' s Hc Hs (le_n _)); reflexivity].
      rewrite Forall_forall in IH |- *. intros kv Hkv.
      destruct (IH kv Hkv) as [IHk IHv].
      rewrite forallb_forall in Hall. specialize (Hall kv Hkv).
      destruct (hmaxp_in l kv Hkv) as [Hhk Hhv].
      destruct kv as [k v]. cbn [fst snd] in *.
      apply andb_true_iff in Hall. destruct Hall as [Hall Hwv].
      apply andb_true_iff in Hall. destruct Hall as [Hsk Hwk].
      split; [exact Hsk|]. split; split.
      * intros rest Hle. apply (dec_encode L HL); [exact Hwk|lia|lia].
      * intros p'' s'' He Hs'' Hle. apply (IHk f d' p'' s''); [exact Hwk|lia|lia|exact He|exact Hs''].
      * intros rest Hle. apply (dec_encode L HL); [exact Hwv|lia|lia].
      * intros p'' s'' He Hs'' Hle. apply (IHv f d' p'' s''); [exact Hwv|lia|lia|exact He|exact Hs''].
  - cbn [wf] in Hwf. apply andb_true_iff in Hwf. destruct Hwf as [Hwf Hwx].
    apply andb_true_iff in Hwf. destruct Hwf as [Ht Hta]. apply N.ltb_lt in Ht.
    cbn [height] in Hh. cbn [encode] in H.
    destruct (app_split _ _ _ _ H) as [(s' & Hy & Hs' & _)|(p' & -> & Hc)].
    + apply dec_S_err. apply (read_head_trunc 6 t p s'); [lia|exact Hy|exact Hs'].
    + rewrite app_length in Hf. pose proof (head_length_pos 6 t) as Hp.
      rewrite (dec_S_tag _ _ _ _ _ _ _ (read_head_head 6 t p' ltac:(lia) Ht)).
      rewrite Hta. cbn [negb].
      rewrite (IH f depth p' s Hwx Hh ltac:(lia) Hc Hs). reflexivity.
  - cbn [encode] in H. destruct p as [|b0 p]; [reflexivity|].
    destruct (v <? 24) eqn:E.
    + cbn [app] in H. injection H as _ H. destruct p; [|discriminate]. cbn [app] in H. congruence.
    + cbn [app] in H. injection H as <- H. destruct p as [|b1 p].
      * apply dec_S_err. change 248 with (7 * 32 + 24). rewrite read_head_ext by lia. reflexivity.
      * cbn [app] in H. injection H as _ H. destruct p; [|discriminate]. cbn [app] in H. congruence.
Qed.

Theorem decode_rejects_truncated L (HL : lim64 L) x p s :
  within L x = true -> encode x = p ++ s -> s <> [] -> decode L p = Err ETrunc.
Proof.
  unfold within. intros Hw Hps Hs. apply andb_true_iff in Hw. destruct Hw as [Hwf Hh].
  apply Nat.leb_le in Hh. unfold decode.
  rewrite (dec_truncated L HL x (S (length p)) (max_depth L) p s Hwf Hh (Nat.lt_succ_diag_r _) Hps Hs).
  reflexivity.
Qed.

(* ------------------------------------------------------------------ *)
(* limits beyond 2^64 behave like 2^64-1 for the decoder, so the
   re-encoding theorem needs no assumption on the limits                *)

Definition cap (L : limits) : limits :=
  {| max_depth := max_depth L;
     max_arr := N.min (max_arr L) (W64 - 1);
     max_map := N.min (max_map L) (W64 - 1) |}.

Lemma lim64_cap L : lim64 (cap L).
Proof. unfold lim64, cap; cbn [max_arr max_map]. lia. Qed.

Lemma dec_seq_ext d d' n : (forall bs, d bs = d' bs) -> forall bs, dec_seq d n bs = dec_seq d' n bs.
Proof.
  intros Hd. induction n as [|n IH]; intros bs; cbn [dec_seq]; [reflexivity|].
  rewrite Hd. destruct (d' bs) as [[x r]|e]; [|reflexivity]. rewrite IH. reflexivity.
Qed.

Lemma dec_pairs_ext d d' n : (forall bs, d bs = d' bs) -> forall bs, dec_pairs d n bs = dec_pairs d' n bs.
Proof.
  intros Hd. induction n as [|n IH]; intros bs; cbn [dec_pairs]; [reflexivity|].
  rewrite Hd. destruct (d' bs) as [[k r]|e]; [|reflexivity].
  destruct (negb (scalar_key k)); [reflexivity|]. rewrite Hd.
  destruct (d' r) as [[v r1]|e]; [|reflexivity]. rewrite IH. reflexivity.
Qed.

Lemma dec_cap L : forall fuel depth bs, dec (cap L) fuel depth bs = dec L fuel depth bs.
Proof.
  induction fuel as [|f IH]; intros depth bs; [reflexivity|].
  destruct (read_head bs) as [[[[mt ai] n] r0]|e] eqn:Hr;
    [|rewrite !(dec_S_err _ _ _ _ _ Hr); reflexivity].
  pose proof (read_head_spec _ _ _ _ _ Hr) as (_ & Hmt & _ & Hn & _).
  destruct (mt_cases mt Hmt) as [-> |[-> |[-> |[-> |[-> |[-> |[-> | ->]]]]]]].
  - rewrite !(dec_S_uint _ _ _ _ _ _ _ Hr). reflexivity.
  - rewrite !(dec_S_nint _ _ _ _ _ _ _ Hr). reflexivity.
  - rewrite !(dec_S_bstr _ _ _ _ _ _ _ Hr). reflexivity.
  - rewrite !(dec_S_tstr _ _ _ _ _ _ _ Hr). reflexivity.
  - rewrite (dec_S_arr (cap L) _ _ _ _ _ _ Hr), (dec_S_arr L _ _ _ _ _ _ Hr).
    assert (He : (max_arr (cap L) <? n) = (max_arr L <? n)).
    { unfold cap; cbn [max_arr]. destruct (max_arr L <? n) eqn:E; lia. }
    rewrite He. destruct (max_arr L <? n); [reflexivity|]. destruct depth as [|d']; [reflexivity|].
    rewrite (dec_seq_ext _ _ _ (IH d')). reflexivity.
  - rewrite (dec_S_map (cap L) _ _ _ _ _ _ Hr), (dec_S_map L _ _ _ _ _ _ Hr).
    assert (He : (max_map (cap L) <? n) = (max_map L <? n)).
    { unfold cap; cbn [max_map]. destruct (max_map L <? n) eqn:E; lia. }
    rewrite He. destruct (max_map L <? n); [reflexivity|]. destruct depth as [|d']; [reflexivity|].
    rewrite (dec_pairs_ext _ _ _ (IH d')). reflexivity.
  - rewrite (dec_S_tag (cap L) _ _ _ _ _ _ Hr), (dec_S_tag L _ _ _ _ _ _ Hr).
    rewrite IH. reflexivity.
  - rewrite !(dec_S_simple _ _ _ _ _ _ _ Hr). reflexivity.
Qed.

Lemma decode_cap L bs : decode (cap L) bs = decode L bs.
Proof. unfold decode. change (max_depth (cap L)) with (max_depth L). rewrite dec_cap. reflexivity. Qed.

(* what the strict decoder accepts, re-encoded, decodes to the canonical form of the item:
   for every limit record, every byte string *)
Theorem decode_reencode L bs x : decode L bs = Ok x -> decode L (encode x) = Ok (canon x).
Proof.
  intros H. rewrite <- (decode_cap L bs) in H. rewrite <- (decode_cap L (encode x)).
  exact (decode_reencode_lim (cap L) (lim64_cap L) bs x H).
Qed.

(* ... and the re-encoding of an accepted stream is a fixed point: encode∘decode is idempotent *)
Corollary reencode_stable L bs x y :
  decode L bs = Ok x -> decode L (encode x) = Ok y -> encode y = encode x.
Proof.
  intros H1 H2. rewrite (decode_reencode L bs x H1) in H2. injection H2 as <-. apply encode_canon.
Qed.

(* ------------------------------------------------------------------ *)
(* summary: each class of malformed input is refused at top level with a
   reason of the "malformed" class                                      *)

Theorem decode_rejects_malformed L (HL : lim64 L) :
  (forall mt rest, 2 <= mt <= 5 ->
     exists e, decode L ((mt * 32 + 31) :: rest) = Err e /\ malformed_reason e = true) /\
  (forall b rest, b < 256 -> 28 <= b mod 32 <= 30 ->
     exists e, decode L (b :: rest) = Err e /\ malformed_reason e = true) /\
  (forall x b rest, within L x = true ->
     exists e, decode L (encode x ++ b :: rest) = Err e /\ malformed_reason e = true) /\
  (forall k v1 v2, within L (Map [(k, v1)]) = true -> wf L v2 = true ->
     (height v2 < max_depth L)%nat -> 2 <= max_map L ->
     exists e, decode L (head 5 2 ++ encode k ++ encode v1 ++ encode k ++ encode v2) = Err e /\
               malformed_reason e = true) /\
  (1 <= max_arr L ->
     exists e, decode L (repeat 129 (S (max_depth L)) ++ [0]) = Err e /\ malformed_reason e = true) /\
  (forall t rest, t = 2 \/ t = 3 ->
     exists e, decode L (head 6 t ++ rest) = Err e /\ malformed_reason e = true) /\
  (forall b, utf8_valid b = false -> all_bytes b = true -> len b < W64 ->
     exists e, decode L (head 3 (len b) ++ b) = Err e /\ malformed_reason e = true) /\
  (forall x p s, within L x = true -> encode x = p ++ s -> s <> [] ->
     exists e, decode L p = Err e /\ malformed_reason e = true).
Proof.
  repeat split.
  - intros mt rest H. eexists; split; [apply decode_rejects_indefinite, H|reflexivity].
  - intros b rest H1 H2. eexists; split; [apply decode_rejects_reserved; assumption|reflexivity].
  - intros x b rest H. eexists; split; [apply decode_rejects_trailing; assumption|reflexivity].
  - intros k v1 v2 H1 H2 H3 H4. eexists; split; [apply decode_rejects_dup_key; assumption|reflexivity].
  - intros H. eexists; split; [apply decode_rejects_deep, H|reflexivity].
  - intros t rest H. eexists; split; [apply decode_rejects_bignum_tag, H|reflexivity].
  - intros b H1 H2 H3. eexists; split; [apply decode_rejects_bad_utf8; assumption|reflexivity].
  - intros x p s H1 H2 H3. eexists; split; [apply (decode_rejects_truncated L HL x p s); assumption|reflexivity].
Qed.

(* ------------------------------------------------------------------ *)
(* every accepted stream consists of bytes (the decoder checks it)      *)

Definition bytes_checked {A} (d : bytes -> res (A * bytes)) : Prop :=
  forall bs x r, d bs = Ok (x, r) -> exists c, bs = c ++ r /\ all_bytes c = true.

Lemma all_bytes_app a b : all_bytes (a ++ b) = all_bytes a && all_bytes b.
Proof. unfold all_bytes. apply forallb_app. Qed.

Lemma read_head_bytes bs mt ai n r :
  read_head bs = Ok (mt, ai, n, r) -> exists c, bs = c ++ r /\ all_bytes c = true.
Proof.
  destruct bs as [|b r0]; [discriminate|]. unfold read_head. cbv zeta.
  destruct (256 <=? b) eqn:Eb; [discriminate|].
  assert (Hb : all_bytes [b] = true).
  { unfold all_bytes; cbn [forallb]. rewrite andb_true_r. apply N.ltb_lt. lia. }
  destruct (b mod 32 <? 24).
  { intros H. injection H as <- <- <- <-. exists [b]. split; [reflexivity|exact Hb]. }
  destruct (b mod 32 <? 28).
  { destruct (take _ r0) as [[x r']|] eqn:Et; [|discriminate].
    destruct (all_bytes x) eqn:Ex; [|discriminate].
    intros H. injection H as <- <- <- <-. apply take_spec in Et. destruct Et as [-> _].
    exists ([b] ++ x). split; [reflexivity|]. rewrite all_bytes_app, Hb, Ex. reflexivity. }
  destruct (b mod 32 <? 31); [discriminate|].
  destruct (b / 32 =? 7); [discriminate|].
  destruct ((2 <=? b / 32) && (b / 32 <=? 5)); discriminate.
Qed.

Lemma dec_seq_bytes d n : bytes_checked d -> bytes_checked (dec_seq d n).
Proof.
  intros Hd. induction n as [|n IH]; intros bs xs r H; cbn [dec_seq] in H.
  - injection H as <- <-. exists []. split; reflexivity.
  - destruct (d bs) as [[x r0]|e] eqn:E; [|discriminate].
    destruct (dec_seq d n r0) as [[xs' r1]|e] eqn:E1; [|discriminate].
    injection H as <- <-.
    destruct (Hd _ _ _ E) as (c1 & -> & H1). destruct (IH _ _ _ E1) as (c2 & -> & H2).
    exists (c1 ++ c2). split; [rewrite app_assoc; reflexivity|].
    rewrite all_bytes_app, H1, H2. reflexivity.
Qed.

Lemma dec_pairs_bytes d n : bytes_checked d -> bytes_checked (dec_pairs d n).
Proof.
  intros Hd. induction n as [|n IH]; intros bs ps r H; cbn [dec_pairs] in H.
  - injection H as <- <-. exists []. split; reflexivity.
  - destruct (d bs) as [[k r0]|e] eqn:E; [|discriminate].
    destruct (negb (scalar_key k)); [discriminate|].
    destruct (d r0) as [[v r1]|e] eqn:E0; [|discriminate].
    destruct (dec_pairs d n r1) as [[ps' r2]|e] eqn:E1; [|discriminate].
    injection H as <- <-.
    destruct (Hd _ _ _ E) as (c1 & -> & H1). destruct (Hd _ _ _ E0) as (c2 & -> & H2).
    destruct (IH _ _ _ E1) as (c3 & -> & H3).
    exists (c1 ++ c2 ++ c3). split; [rewrite <- !app_assoc; reflexivity|].
    rewrite !all_bytes_app, H1, H2, H3. reflexivity.
Qed.

Theorem dec_bytes L : forall fuel depth, bytes_checked (dec L fuel depth).
Proof.
  induction fuel as [|f IH]; intros depth bs x r H; [discriminate|].
  destruct (read_head bs) as [[[[mt ai] n] r0]|e] eqn:Hr;
    [|rewrite (dec_S_err _ _ _ _ _ Hr) in H; discriminate].
  pose proof (read_head_spec _ _ _ _ _ Hr) as (_ & Hmt & _).
  destruct (read_head_bytes _ _ _ _ _ Hr) as (hc & Hbs & Hhc).
  assert (Hgen : forall c, r0 = c ++ r -> all_bytes c = true ->
                 exists c', bs = c' ++ r /\ all_bytes c' = true).
  { intros c -> Hc. exists (hc ++ c). split; [rewrite Hbs, app_assoc; reflexivity|].
    rewrite all_bytes_app, Hhc, Hc. reflexivity. }
  destruct (mt_cases mt Hmt) as [-> |[-> |[-> |[-> |[-> |[-> |[-> | ->]]]]]]].
  - rewrite (dec_S_uint _ _ _ _ _ _ _ Hr) in H. injection H as <- <-. apply (Hgen []); reflexivity.
  - rewrite (dec_S_nint _ _ _ _ _ _ _ Hr) in H. injection H as <- <-. apply (Hgen []); reflexivity.
  - rewrite (dec_S_bstr _ _ _ _ _ _ _ Hr) in H.
    destruct (take_n n r0) as [[a r1]|] eqn:Et; [|discriminate].
    destruct (all_bytes a) eqn:Ea; [|discriminate]. injection H as <- <-.
    apply take_n_spec in Et. destruct Et as [Et _]. apply (Hgen a Et Ea).
  - rewrite (dec_S_tstr _ _ _ _ _ _ _ Hr) in H.
    destruct (take_n n r0) as [[a r1]|] eqn:Et; [|discriminate].
    destruct (all_bytes a) eqn:Ea; [|discriminate]. destruct (utf8_valid a); [|discriminate].
    injection H as <- <-.
    apply take_n_spec in Et. destruct Et as [Et _]. apply (Hgen a Et Ea).
  - rewrite (dec_S_arr _ _ _ _ _ _ _ Hr) in H.
    destruct (max_arr L <? n); [discriminate|]. destruct depth as [|d']; [discriminate|].
    destruct (dec_seq (dec L f d') (N.to_nat n) r0) as [[xs r1]|e] eqn:Es; [|discriminate].
    injection H as <- <-.
    destruct (dec_seq_bytes _ _ (IH d') _ _ _ Es) as (c & Hc1 & Hc2). apply (Hgen c Hc1 Hc2).
  - rewrite (dec_S_map _ _ _ _ _ _ _ Hr) in H.
    destruct (max_map L <? n); [discriminate|]. destruct depth as [|d']; [discriminate|].
    destruct (dec_pairs (dec L f d') (N.to_nat n) r0) as [[ps r1]|e] eqn:Es; [|discriminate].
    destruct (has_dup _); [discriminate|].
    injection H as <- <-.
    destruct (dec_pairs_bytes _ _ (IH d') _ _ _ Es) as (c & Hc1 & Hc2). apply (Hgen c Hc1 Hc2).
  - rewrite (dec_S_tag _ _ _ _ _ _ _ Hr) in H.
    destruct (negb (tag_allowed n)); [discriminate|].
    destruct (dec L f depth r0) as [[y r1]|e] eqn:Ed; [|discriminate].
    injection H as <- <-.
    destruct (IH _ _ _ _ Ed) as (c & Hc1 & Hc2). apply (Hgen c Hc1 Hc2).
  - rewrite (dec_S_simple _ _ _ _ _ _ _ Hr) in H.
    destruct (ai <? 24); [injection H as <- <-; apply (Hgen []); reflexivity|].
    destruct (ai =? 24); [|discriminate].
    destruct (n <? 32); [discriminate|]. injection H as <- <-. apply (Hgen []); reflexivity.
Qed.

Theorem decode_all_bytes L bs x : decode L bs = Ok x -> all_bytes bs = true.
Proof.
  unfold decode. intros H.
  destruct (dec L (S (length bs)) (max_depth L) bs) as [[y [|b r]]|e] eqn:E; try discriminate.
  destruct (dec_bytes L _ _ _ _ _ E) as (c & -> & Hc). rewrite app_nil_r. exact Hc.
Qed.

(* ------------------------------------------------------------------ *)
(* instances for the limits serde configures                            *)

Corollary decode_encode_serde x :
  within serde_limits x = true -> decode serde_limits (encode x) = Ok x.
Proof. apply decode_encode, lim64_serde. Qed.

Corollary encode_injective_serde x y :
  wf serde_limits x = true -> wf serde_limits y = true -> encode x = encode y -> x = y.
Proof. apply encode_injective, lim64_serde. Qed.
