(* Cbor_proofs.v — machine-checked facts about the executable CBOR model (model/Cbor.v):
   round trip decode∘encode, injectivity / prefix-freeness of the deterministic encoding,
   totality of the decoder (never out of fuel), rejection of malformed input, the invariant
   of accepted items, canonical form, independence of map iteration order. *)
From Coq Require Import List NArith ZArith Lia Bool Arith.
From Coq Require Import ZifyN ZifyNat ZifyBool.
From Coq Require Import Permutation Sorted.
Import ListNotations.
Require Import V.base.Bytes V.model.Cbor.
Local Open Scope N_scope.

Local Notation W64 := 18446744073709551616.

Lemma W64_pow : 2 ^ 64 = W64.
Proof. reflexivity. Qed.

(* The heads carry 64-bit arguments, so limits beyond 2^64 are meaningless (and [wf] only
   bounds container sizes by the limits): the round-trip theorems assume sane limits. *)
Definition lim64 (L : limits) : Prop := max_arr L < W64 /\ max_map L < W64.

Lemma lim64_serde : lim64 serde_limits.
Proof. unfold lim64, serde_limits; cbn [max_arr max_map]; lia. Qed.

(* ------------------------------------------------------------------ *)
(* induction principle for the nested inductive                         *)

Lemma item_ind' (P : item -> Prop) :
  (forall n, P (UInt n)) -> (forall n, P (NInt n)) ->
  (forall b, P (BStr b)) -> (forall b, P (TStr b)) ->
  (forall l, Forall P l -> P (Arr l)) ->
  (forall l, Forall (fun kv => P (fst kv) /\ P (snd kv)) l -> P (Map l)) ->
  (forall t x, P x -> P (Tag t x)) ->
  (forall v, P (Simple v)) ->
  forall x, P x.
Proof.
  intros HU HN HB HT HA HM HG HS.
  refine (fix IH (x : item) : P x :=
    match x with
    | UInt n => HU n
    | NInt n => HN n
    | BStr b => HB b
    | TStr b => HT b
    | Arr l => HA l ((fix go (l : list item) : Forall P l :=
                        match l with
                        | [] => Forall_nil _
                        | y :: l' => Forall_cons y (IH y) (go l')
                        end) l)
    | Map l => HM l ((fix go (l : list (item * item)) : Forall (fun kv => P (fst kv) /\ P (snd kv)) l :=
                        match l with
                        | [] => Forall_nil _
                        | kv :: l' => Forall_cons kv (conj (IH (fst kv)) (IH (snd kv))) (go l')
                        end) l)
    | Tag t y => HG t y (IH y)
    | Simple v => HS v
    end).
Qed.

(* ------------------------------------------------------------------ *)
(* bytewise lexicographic order                                         *)

Lemma lex_ltb_irrefl a : lex_ltb a a = false.
Proof.
  induction a as [|x a IH]; cbn [lex_ltb]; [reflexivity|].
  rewrite N.ltb_irrefl. exact IH.
Qed.

Lemma lex_ltb_trans a b c : lex_ltb a b = true -> lex_ltb b c = true -> lex_ltb a c = true.
Proof.
  revert b c; induction a as [|x a IH]; intros [|y b] [|z c]; cbn [lex_ltb]; try congruence.
  destruct (x <? y) eqn:E1, (y <? x) eqn:E2, (y <? z) eqn:E3, (z <? y) eqn:E4,
           (x <? z) eqn:E5, (z <? x) eqn:E6; try congruence; try lia.
  apply IH.
Qed.

Lemma lex_ltb_asym a b : lex_ltb a b = true -> lex_ltb b a = false.
Proof.
  intros H. destruct (lex_ltb b a) eqn:E; [|reflexivity].
  pose proof (lex_ltb_trans _ _ _ H E) as H1. rewrite lex_ltb_irrefl in H1. discriminate.
Qed.

Lemma lex_trichotomy a b : lex_ltb a b = false -> lex_ltb b a = false -> a = b.
Proof.
  revert b; induction a as [|x a IH]; intros [|y b]; cbn [lex_ltb]; try congruence.
  destruct (x <? y) eqn:E1, (y <? x) eqn:E2; try congruence.
  intros H1 H2. assert (x = y) by lia. subst y. f_equal. apply IH; assumption.
Qed.

Lemma lex_leb_refl a : lex_leb a a = true.
Proof. unfold lex_leb. rewrite lex_ltb_irrefl. reflexivity. Qed.

Lemma lex_ltb_leb a b : lex_ltb a b = true -> lex_leb a b = true.
Proof. intros H. unfold lex_leb. rewrite (lex_ltb_asym _ _ H). reflexivity. Qed.

Lemma lex_leb_total a b : lex_leb a b = false -> lex_ltb b a = true.
Proof. unfold lex_leb. destruct (lex_ltb b a); [reflexivity|discriminate]. Qed.

Lemma lex_leb_trans a b c : lex_leb a b = true -> lex_leb b c = true -> lex_leb a c = true.
Proof.
  unfold lex_leb. intros H1 H2.
  destruct (lex_ltb c a) eqn:E; [|reflexivity]. exfalso.
  destruct (lex_ltb b a) eqn:E1; [discriminate|].
  destruct (lex_ltb c b) eqn:E2; [discriminate|].
  destruct (lex_ltb a b) eqn:E3.
  - rewrite (lex_ltb_trans _ _ _ E E3) in E2. discriminate.
  - assert (a = b) by (apply lex_trichotomy; assumption). subst b. congruence.
Qed.

Lemma lex_leb_neq_ltb a b : lex_leb a b = true -> a <> b -> lex_ltb a b = true.
Proof.
  unfold lex_leb. intros H Hn. destruct (lex_ltb a b) eqn:E; [reflexivity|].
  destruct (lex_ltb b a) eqn:E1; [discriminate|]. exfalso. apply Hn. apply lex_trichotomy; assumption.
Qed.

Lemma bytes_eqb_eq a b : bytes_eqb a b = true <-> a = b.
Proof.
  revert b; induction a as [|x a IH]; intros [|y b]; cbn [bytes_eqb]; split; intros H;
    try reflexivity; try discriminate.
  - apply andb_true_iff in H. destruct H as [H1 H2]. apply N.eqb_eq in H1. apply IH in H2. congruence.
  - injection H as -> ->. rewrite N.eqb_refl. cbn. apply IH. reflexivity.
Qed.

Lemma bytes_eqb_refl a : bytes_eqb a a = true.
Proof. apply bytes_eqb_eq. reflexivity. Qed.

(* ------------------------------------------------------------------ *)
(* heads                                                                *)

Lemma hb_div mt a : a < 32 -> (mt * 32 + a) / 32 = mt.
Proof. intros H. symmetry. apply N.div_unique with (r := a); lia. Qed.

Lemma hb_mod mt a : a < 32 -> (mt * 32 + a) mod 32 = a.
Proof. intros H. symmetry. apply N.mod_unique with (q := mt); lia. Qed.

Lemma hb_small mt a : mt < 8 -> a < 32 -> (256 <=? mt * 32 + a) = false.
Proof. intros H1 H2. apply N.leb_gt. lia. Qed.

Definition kof (ai : N) : nat :=
  match ai with 24 => 1%nat | 25 => 2%nat | 26 => 4%nat | _ => 8%nat end.

Lemma read_head_small mt a r :
  mt < 8 -> a < 24 -> read_head ((mt * 32 + a) :: r) = Ok (mt, a, a, r).
Proof.
  intros Hm Ha. unfold read_head. cbv zeta.
  rewrite hb_small, hb_div, hb_mod by lia.
  destruct (a <? 24) eqn:E; [reflexivity|lia].
Qed.

Lemma read_head_ext mt a r :
  mt < 8 -> 24 <= a < 28 ->
  read_head ((mt * 32 + a) :: r) =
  match take (kof a) r with
  | Some (x, r') => if all_bytes x then Ok (mt, a, be_value x, r') else Err EReserved
  | None => Err ETrunc
  end.
Proof.
  intros Hm Ha. unfold read_head. cbv zeta.
  rewrite hb_small, hb_div, hb_mod by lia.
  destruct (a <? 24) eqn:E; [lia|].
  destruct (a <? 28) eqn:E1; [reflexivity|lia].
Qed.

Lemma take_app (k : nat) (a r : bytes) : length a = k -> take k (a ++ r) = Some (a, r).
Proof.
  revert k; induction a as [|x a IH]; intros k Hk; subst k; cbn [length take app]; [reflexivity|].
  rewrite (IH _ eq_refl). reflexivity.
Qed.

Lemma all_bytes_wf b : wf_bytes b -> all_bytes b = true.
Proof.
  unfold wf_bytes, all_bytes. intros H. apply forallb_forall. intros x Hx.
  rewrite Forall_forall in H. specialize (H x Hx). unfold is_byte in H. apply N.ltb_lt. exact H.
Qed.

Lemma all_bytes_be k n : all_bytes (be_bytes k n) = true.
Proof. apply all_bytes_wf, be_bytes_wf. Qed.

Definition ai_of (n : N) : N :=
  if n <? 24 then n else if n <? 256 then 24 else if n <? 65536 then 25
  else if n <? 4294967296 then 26 else 27.

Lemma ai_of_lt n : ai_of n < 28.
Proof.
  unfold ai_of.
  destruct (n <? 24) eqn:E1; [lia|]. destruct (n <? 256); [lia|].
  destruct (n <? 65536); [lia|]. destruct (n <? 4294967296); lia.
Qed.

Lemma read_head_head mt n rest :
  mt < 8 -> n < W64 ->
  read_head (head mt n ++ rest) = Ok (mt, ai_of n, n, rest).
Proof.
  intros Hm Hn. unfold head, ai_of.
  destruct (n <? 24) eqn:E1.
  { cbn [app]. apply read_head_small; lia. }
  destruct (n <? 256) eqn:E2.
  { cbn [app]. rewrite read_head_ext by lia. cbn [kof take].
    unfold all_bytes; cbn [forallb]. rewrite E2. cbn [andb].
    unfold be_value; cbn [fold_left]. do 4 f_equal. }
  destruct (n <? 65536) eqn:E3.
  { cbn [app]. rewrite read_head_ext by lia. cbn [kof].
    rewrite (take_app 2 _ _ (be_bytes_length 2 n)), all_bytes_be.
    rewrite be_value_be_bytes; [reflexivity|]. change (256 ^ N.of_nat 2) with 65536. lia. }
  destruct (n <? 4294967296) eqn:E4.
  { cbn [app]. rewrite read_head_ext by lia. cbn [kof].
    rewrite (take_app 4 _ _ (be_bytes_length 4 n)), all_bytes_be.
    rewrite be_value_be_bytes; [reflexivity|]. change (256 ^ N.of_nat 4) with 4294967296. lia. }
  cbn [app]. rewrite read_head_ext by lia. cbn [kof].
  rewrite (take_app 8 _ _ (be_bytes_length 8 n)), all_bytes_be.
  rewrite be_value_be_bytes; [reflexivity|]. change (256 ^ N.of_nat 8) with W64. lia.
Qed.

(* ------------------------------------------------------------------ *)
(* one decoding step, by major type                                     *)

Lemma dec_S_err L f depth bs e : read_head bs = Err e -> dec L (S f) depth bs = Err e.
Proof. intros H. cbn [dec]. rewrite H. reflexivity. Qed.

Lemma dec_S_uint L f depth bs ai n r :
  read_head bs = Ok (0, ai, n, r) -> dec L (S f) depth bs = Ok (UInt n, r).
Proof. intros H. cbn [dec]. rewrite H. reflexivity. Qed.

Lemma dec_S_nint L f depth bs ai n r :
  read_head bs = Ok (1, ai, n, r) -> dec L (S f) depth bs = Ok (NInt n, r).
Proof. intros H. cbn [dec]. rewrite H. reflexivity. Qed.

Lemma dec_S_bstr L f depth bs ai n r :
  read_head bs = Ok (2, ai, n, r) ->
  dec L (S f) depth bs =
  match take_n n r with
  | Some (a, r') => if all_bytes a then Ok (BStr a, r') else Err EReserved
  | None => Err ETrunc
  end.
Proof. intros H. cbn [dec]. rewrite H. reflexivity. Qed.

Lemma dec_S_tstr L f depth bs ai n r :
  read_head bs = Ok (3, ai, n, r) ->
  dec L (S f) depth bs =
  match take_n n r with
  | Some (a, r') => if all_bytes a then (if utf8_valid a then Ok (TStr a, r') else Err EUtf8) else Err EReserved
  | None => Err ETrunc
  end.
Proof. intros H. cbn [dec]. rewrite H. reflexivity. Qed.

Lemma dec_S_arr L f depth bs ai n r :
  read_head bs = Ok (4, ai, n, r) ->
  dec L (S f) depth bs =
  if max_arr L <? n then Err ESize else
  match depth with
  | O => Err EDepth
  | S d' => match dec_seq (dec L f d') (N.to_nat n) r with
            | Err e => Err e
            | Ok (xs, r') => Ok (Arr xs, r')
            end
  end.
Proof. intros H. cbn [dec]. rewrite H. reflexivity. Qed.

Lemma dec_S_map L f depth bs ai n r :
  read_head bs = Ok (5, ai, n, r) ->
  dec L (S f) depth bs =
  if max_map L <? n then Err ESize else
  match depth with
  | O => Err EDepth
  | S d' => match dec_pairs (dec L f d') (N.to_nat n) r with
            | Err e => Err e
            | Ok (ps, r') =>
                if has_dup (map (fun kv : item * item => encode (fst kv)) ps) then Err EDup
                else Ok (Map ps, r')
            end
  end.
Proof. intros H. cbn [dec]. rewrite H. reflexivity. Qed.

Lemma dec_S_tag L f depth bs ai n r :
  read_head bs = Ok (6, ai, n, r) ->
  dec L (S f) depth bs =
  if negb (tag_allowed n) then Err EBigTag else
  match dec L f depth r with
  | Err e => Err e
  | Ok (y, r') => Ok (Tag n y, r')
  end.
Proof. intros H. cbn [dec]. rewrite H. reflexivity. Qed.

Lemma dec_S_simple L f depth bs ai n r :
  read_head bs = Ok (7, ai, n, r) ->
  dec L (S f) depth bs =
  if ai <? 24 then Ok (Simple n, r)
  else if ai =? 24 then (if n <? 32 then Err ESimple else Ok (Simple n, r))
  else Err EFloat.
Proof. intros H. cbn [dec]. rewrite H. reflexivity. Qed.

(* ------------------------------------------------------------------ *)
(* lengths, heights                                                     *)

Lemma head_length_pos mt n : (1 <= length (head mt n))%nat.
Proof.
  unfold head.
  destruct (n <? 24); [cbn [length]; lia|]. destruct (n <? 256); [cbn [length]; lia|].
  destruct (n <? 65536); [cbn [length]; lia|]. destruct (n <? 4294967296); cbn [length]; lia.
Qed.

Lemma encode_length_pos x : (1 <= length (encode x))%nat.
Proof.
  destruct x as [n|n|b|b|l|l|t y|v]; cbn [encode]; rewrite ?app_length;
    try (pose proof (head_length_pos 0 n); pose proof (head_length_pos 1 n); lia).
  - pose proof (head_length_pos 2 (len b)); lia.
  - pose proof (head_length_pos 3 (len b)); lia.
  - pose proof (head_length_pos 4 (len l)); lia.
  - pose proof (head_length_pos 5 (len l)); lia.
  - pose proof (head_length_pos 6 t); lia.
  - destruct (v <? 24); cbn [length]; lia.
Qed.

Lemma in_concat_length {A} (f : A -> bytes) l y :
  In y l -> (length (f y) <= length (concat (map f l)))%nat.
Proof.
  induction l as [|a l IH]; intros Hy; [destruct Hy|].
  cbn [map concat]. rewrite app_length. destruct Hy as [->|Hy]; [lia|]. specialize (IH Hy). lia.
Qed.

Definition hmax (l : list item) : nat := fold_right (fun y m => Nat.max (height y) m) O l.
Definition hmaxp (l : list (item * item)) : nat :=
  fold_right (fun (kv : item * item) m => match kv with (k, v) => Nat.max (Nat.max (height k) (height v)) m end) O l.

Lemma height_arr l : height (Arr l) = S (hmax l).
Proof. reflexivity. Qed.

Lemma height_map l : height (Map l) = S (hmaxp l).
Proof. reflexivity. Qed.

Lemma hmax_in l y : In y l -> (height y <= hmax l)%nat.
Proof.
  induction l as [|a l IH]; intros Hy; [destruct Hy|].
  cbn [hmax fold_right]. fold (hmax l). destruct Hy as [->|Hy]; [lia|]. specialize (IH Hy). lia.
Qed.

Lemma hmaxp_in l kv : In kv l -> (height (fst kv) <= hmaxp l /\ height (snd kv) <= hmaxp l)%nat.
Proof.
  induction l as [|a l IH]; intros Hy; [destruct Hy|].
  cbn [hmaxp fold_right]. fold (hmaxp l). destruct a as [k v]. destruct Hy as [Hy|Hy]; [subst kv; cbn [fst snd]; lia|].
  specialize (IH Hy). lia.
Qed.

(* ------------------------------------------------------------------ *)
(* sorted keys                                                          *)

Lemma ss_tail a l : strictly_sorted (a :: l) = true -> strictly_sorted l = true.
Proof.
  destruct l as [|b l]; [reflexivity|]. cbn [strictly_sorted]. intros H.
  apply andb_true_iff in H. apply H.
Qed.

Lemma ss_head_lt a l : strictly_sorted (a :: l) = true -> Forall (fun b => lex_ltb a b = true) l.
Proof.
  revert a; induction l as [|b l IH]; intros a H; [constructor|].
  assert (Hab : lex_ltb a b = true /\ strictly_sorted (b :: l) = true).
  { cbn [strictly_sorted] in H. apply andb_true_iff in H. exact H. }
  destruct Hab as [Hab Hs]. constructor; [exact Hab|].
  specialize (IH b Hs). eapply Forall_impl; [|exact IH].
  intros c Hc. cbn beta in Hc. eapply lex_ltb_trans; eassumption.
Qed.

Lemma ss_cons a l :
  Forall (fun b => lex_ltb a b = true) l -> strictly_sorted l = true -> strictly_sorted (a :: l) = true.
Proof.
  intros Hf Hs. destruct l as [|b l]; [reflexivity|].
  change (lex_ltb a b && strictly_sorted (b :: l) = true).
  inversion Hf as [|? ? Hab _]; subst. rewrite Hab, Hs. reflexivity.
Qed.

Lemma lt_all_not_in a l : Forall (fun b => lex_ltb a b = true) l -> existsb (bytes_eqb a) l = false.
Proof.
  intros H. destruct (existsb (bytes_eqb a) l) eqn:E; [|reflexivity].
  apply existsb_exists in E. destruct E as (b & Hb & Hab). apply bytes_eqb_eq in Hab. subst b.
  rewrite Forall_forall in H. specialize (H a Hb). rewrite lex_ltb_irrefl in H. discriminate.
Qed.

Lemma ss_no_dup l : strictly_sorted l = true -> has_dup l = false.
Proof.
  induction l as [|a l IH]; intros H; [reflexivity|].
  cbn [has_dup]. rewrite (lt_all_not_in a l (ss_head_lt a l H)), (IH (ss_tail a l H)). reflexivity.
Qed.

Lemma sort_by_sorted {A} (m : list (bytes * A)) :
  strictly_sorted (map fst m) = true -> sort_by m = m.
Proof.
  induction m as [|p m IH]; intros H; [reflexivity|].
  cbn [sort_by]. cbn [map] in H. rewrite (IH (ss_tail _ _ H)).
  destruct m as [|q m]; [reflexivity|].
  cbn [insert_by]. cbn [map strictly_sorted] in H. apply andb_true_iff in H. destruct H as [H _].
  rewrite (lex_ltb_leb _ _ H). reflexivity.
Qed.

Definition enc_kv (kv : item * item) : bytes * bytes :=
  match kv with (k, v) => (encode k, encode v) end.

Lemma encode_map_unfold l :
  encode (Map l) =
  head 5 (len l) ++ concat (map (fun p : bytes * bytes => fst p ++ snd p) (sort_by (map enc_kv l))).
Proof. reflexivity. Qed.

Lemma map_fst_enc_kv l : map fst (map enc_kv l) = map (fun kv : item * item => encode (fst kv)) l.
Proof. rewrite map_map. apply map_ext. intros [k v]. reflexivity. Qed.

Lemma encode_map_sorted l :
  strictly_sorted (map (fun kv : item * item => encode (fst kv)) l) = true ->
  encode (Map l) =
  head 5 (len l) ++ concat (map (fun kv : item * item => encode (fst kv) ++ encode (snd kv)) l).
Proof.
  intros H. rewrite encode_map_unfold. f_equal.
  rewrite sort_by_sorted by (rewrite map_fst_enc_kv; exact H).
  rewrite map_map. f_equal. apply map_ext. intros [k v]. reflexivity.
Qed.

(* ------------------------------------------------------------------ *)
(* round trip                                                           *)

Lemma take_n_app (b rest : bytes) : take_n (len b) (b ++ rest) = Some (b, rest).
Proof.
  unfold take_n. rewrite len_app.
  destruct (len b <=? len b + len rest) eqn:E; [|lia].
  unfold len at 1. rewrite Nat2N.id. apply take_app. reflexivity.
Qed.

Lemma dec_seq_encode d l rest :
  Forall (fun y => forall rest, d (encode y ++ rest) = Ok (y, rest)) l ->
  dec_seq d (length l) (concat (map encode l) ++ rest) = Ok (l, rest).
Proof.
  induction 1 as [|y l Hy Hl IH]; [reflexivity|].
  cbn [length map concat dec_seq]. rewrite <- app_assoc, Hy, IH. reflexivity.
Qed.

Lemma dec_pairs_encode d l rest :
  Forall (fun kv : item * item =>
            scalar_key (fst kv) = true /\
            (forall rest, d (encode (fst kv) ++ rest) = Ok (fst kv, rest)) /\
            (forall rest, d (encode (snd kv) ++ rest) = Ok (snd kv, rest))) l ->
  dec_pairs d (length l)
    (concat (map (fun kv : item * item => encode (fst kv) ++ encode (snd kv)) l) ++ rest) = Ok (l, rest).
Proof.
  induction 1 as [|[k v] l (Hs & Hk & Hv) Hl IH]; [reflexivity|].
  cbn [fst snd] in *.
  cbn [length map concat dec_pairs fst snd]. rewrite <- !app_assoc, Hk, Hs. cbn [negb].
  rewrite Hv, IH. reflexivity.
Qed.

Theorem dec_encode L (HL : lim64 L) : forall x fuel depth rest,
  wf L x = true -> (height x <= depth)%nat -> (length (encode x) <= fuel)%nat ->
  dec L fuel depth (encode x ++ rest) = Ok (x, rest).
Proof.
  destruct HL as [HLa HLm].
  intros x; induction x as [n|n|b|b|l IH|l IH|t x IH|v] using item_ind';
    intros fuel depth rest Hwf Hh Hf;
    (destruct fuel as [|f]; [match type of Hf with (length (encode ?y) <= _)%nat =>
                                pose proof (encode_length_pos y) end; lia|]).
  - cbn [wf] in Hwf. apply N.ltb_lt in Hwf. cbn [encode].
    apply (dec_S_uint L f depth _ _ _ _ (read_head_head 0 n rest ltac:(lia) Hwf)).
  - cbn [wf] in Hwf. apply N.ltb_lt in Hwf. cbn [encode].
    apply (dec_S_nint L f depth _ _ _ _ (read_head_head 1 n rest ltac:(lia) Hwf)).
  - cbn [wf] in Hwf. apply andb_true_iff in Hwf. destruct Hwf as [Hb Hlen]. apply N.ltb_lt in Hlen.
    cbn [encode]. rewrite <- app_assoc.
    rewrite (dec_S_bstr L f depth _ _ _ _ (read_head_head 2 (len b) _ ltac:(lia) Hlen)).
    rewrite take_n_app, Hb. reflexivity.
  - cbn [wf] in Hwf. apply andb_true_iff in Hwf. destruct Hwf as [Hwf Hu].
    apply andb_true_iff in Hwf. destruct Hwf as [Hb Hlen]. apply N.ltb_lt in Hlen.
    cbn [encode]. rewrite <- app_assoc.
    rewrite (dec_S_tstr L f depth _ _ _ _ (read_head_head 3 (len b) _ ltac:(lia) Hlen)).
    rewrite take_n_app, Hb, Hu. reflexivity.
  - cbn [wf] in Hwf. apply andb_true_iff in Hwf. destruct Hwf as [Hlen Hall].
    rewrite height_arr in Hh. destruct depth as [|d']; [lia|].
    cbn [encode] in Hf |- *. rewrite app_length in Hf. pose proof (head_length_pos 4 (len l)) as Hp.
    rewrite <- app_assoc.
    rewrite (dec_S_arr L f (S d') _ _ _ _ (read_head_head 4 (len l) _ ltac:(lia) ltac:(lia))).
    destruct (max_arr L <? len l) eqn:E; [lia|].
    unfold len at 1. rewrite Nat2N.id.
    rewrite dec_seq_encode; [reflexivity|].
    rewrite Forall_forall in IH |- *. intros y Hy rest'. apply (IH y Hy).
    + rewrite forallb_forall in Hall. apply Hall, Hy.
    + pose proof (hmax_in l y Hy). lia.
    + pose proof (in_concat_length encode l y Hy). lia.
  - cbn [wf] in Hwf. apply andb_true_iff in Hwf. destruct Hwf as [Hwf Hss].
    apply andb_true_iff in Hwf. destruct Hwf as [Hlen Hall].
    rewrite height_map in Hh. destruct depth as [|d']; [lia|].
    rewrite (encode_map_sorted l Hss) in Hf |- *.
    rewrite app_length in Hf. pose proof (head_length_pos 5 (len l)) as Hp.
    rewrite <- app_assoc.
    rewrite (dec_S_map L f (S d') _ _ _ _ (read_head_head 5 (len l) _ ltac:(lia) ltac:(lia))).
    destruct (max_map L <? len l) eqn:E; [lia|].
    unfold len at 1. rewrite Nat2N.id.
    rewrite dec_pairs_encode.
    + rewrite (ss_no_dup _ Hss). reflexivity.
    + rewrite Forall_forall in IH |- *. intros kv Hkv.
      destruct (IH kv Hkv) as [IHk IHv].
      rewrite forallb_forall in Hall. specialize (Hall kv Hkv).
      destruct (hmaxp_in l kv Hkv) as [Hhk Hhv].
      pose proof (in_concat_length (fun kv : item * item => encode (fst kv) ++ encode (snd kv)) l kv Hkv) as Hl.
      cbn beta in Hl. rewrite app_length in Hl.
      destruct kv as [k v]. cbn [fst snd] in *.
      apply andb_true_iff in Hall. destruct Hall as [Hall Hwv].
      apply andb_true_iff in Hall. destruct Hall as [Hsk Hwk].
      match type of Hf with (_ + ?c <= _)%nat =>
        assert (Hl' : (length (encode k) + length (encode v) <= c)%nat) by exact Hl end.
      split; [exact Hsk|]. split; intros rest'.
      * apply IHk; [exact Hwk|lia|lia].
      * apply IHv; [exact Hwv|lia|lia].
  - cbn [wf] in Hwf. apply andb_true_iff in Hwf. destruct Hwf as [Hwf Hwx].
    apply andb_true_iff in Hwf. destruct Hwf as [Ht Hta]. apply N.ltb_lt in Ht.
    cbn [height] in Hh. cbn [encode] in Hf |- *. rewrite app_length in Hf.
    pose proof (head_length_pos 6 t) as Hp. rewrite <- app_assoc.
    rewrite (dec_S_tag L f depth _ _ _ _ (read_head_head 6 t _ ltac:(lia) Ht)).
    rewrite Hta. cbn [negb]. rewrite IH; [reflexivity|exact Hwx|exact Hh|lia].
  - cbn [wf] in Hwf. unfold simple_ok in Hwf. cbn [encode].
    destruct (v <? 24) eqn:E.
    + cbn [app]. change (224 + v) with (7 * 32 + v).
      rewrite (dec_S_simple L f depth _ _ _ _ (read_head_small 7 v rest ltac:(lia) ltac:(lia))).
      rewrite E. reflexivity.
    + cbn [app]. change 248 with (7 * 32 + 24).
      assert (Hv : 32 <= v < 256) by lia.
      assert (Hr : read_head ((7 * 32 + 24) :: v :: rest) = Ok (7, 24, v, rest)).
      { rewrite read_head_ext by lia. cbn [kof take]. unfold all_bytes; cbn [forallb].
        destruct (v <? 256) eqn:E1; [|lia]. cbn [andb]. unfold be_value; cbn [fold_left].
        do 4 f_equal. }
      rewrite (dec_S_simple L f depth _ _ _ _ Hr).
      change (24 <? 24) with false. change (24 =? 24) with true. cbv iota.
      destruct (v <? 32) eqn:E2; [lia|]. reflexivity.
Qed.

Theorem decode_encode L (HL : lim64 L) x : within L x = true -> decode L (encode x) = Ok x.
Proof.
  unfold within. intros H. apply andb_true_iff in H. destruct H as [Hwf Hh].
  apply Nat.leb_le in Hh. unfold decode.
  rewrite <- (app_nil_r (encode x)) at 2.
  rewrite (dec_encode L HL x _ _ [] Hwf Hh); [reflexivity|lia].
Qed.
