(* Schemes_proofs.v — correctness and privacy of the dedicated schemes of model/Schemes.v
   over an arbitrary field (flaws K).

     sum_to_secret_sums    additive.SumToSecret: the summands add up to the secret
     additive_correct      all shares (one per holder, any order) reconstruct the secret
     additive_privacy      any summand can be changed to reach any other secret (all others fixed)
     shamir_correct        >= t distinct holders of the set reconstruct cs_0 (Lagrange at 0)
     shamir_exact          an unqualified ID list is refused
     shamir_privacy        < t holders: every secret is consistent with their shares              *)
From Coq Require Import List NArith Arith Bool Lia Field Ring Permutation.
Import ListNotations.
Require Import V.base.Fld V.model.LinAlg V.model.Poly V.model.Interp V.model.Access V.model.Msp V.model.Schemes.
Require Import V.proofs.LinAlg_proofs V.proofs.Poly_proofs V.proofs.Interp_proofs V.proofs.Span_proofs
               V.proofs.Msp_proofs V.proofs.Families_proofs.

Section SchemesProofs.
Context {F : Type} (K : fops F) (HK : flaws K) (fromN : N -> F).

Add Field Kfield6 : (fl_theory K HK).

Notation "0" := (f0 K).
Notation "1" := (f1 K).
Infix "+" := (fadd K).
Infix "*" := (fmul K).
Infix "-" := (fsub K).

(* ---- additive ---------------------------------------------------------------------------------- *)

Lemma fsum_fold_acc : forall l a, fold_left (fadd K) l a = a + fold_left (fadd K) l 0.
Proof.
  induction l as [|x l IH]; intros a; cbn [fold_left]; [ring|].
  rewrite IH, (IH (0 + x)). ring.
Qed.

Lemma fsum_cons : forall x l, fsum K (x :: l) = x + fsum K l.
Proof. intros. unfold fsum. cbn [fold_left]. rewrite fsum_fold_acc. ring. Qed.

Lemma fsum_app : forall l1 l2, fsum K (l1 ++ l2) = fsum K l1 + fsum K l2.
Proof.
  induction l1 as [|x l IH]; intros l2; cbn [app].
  - unfold fsum at 2. cbn. ring.
  - rewrite !fsum_cons, IH. ring.
Qed.

Theorem sum_to_secret_sums : forall s rs, fsum K (sum_to_secret K s rs) = s.
Proof.
  intros. unfold sum_to_secret. rewrite fsum_app, fsum_cons. unfold fsum at 3. cbn [fold_left]. ring.
Qed.

Lemma dedup_shares_NoDup : forall (l : list (N * F)), NoDup (map fst l) -> dedup_shares K l = l.
Proof.
  induction l as [|s l IH]; intros Hnd; [reflexivity|]. cbn [map] in Hnd. inversion Hnd as [|? ? Hni Hnd']; subst.
  cbn [dedup_shares].
  destruct (existsb _ l) eqn:E.
  - exfalso. apply existsb_exists in E. destruct E as [s' [Hin Hs]]. apply andb_true_iff in Hs.
    destruct Hs as [Hs _]. apply N.eqb_eq in Hs. apply Hni. rewrite Hs. now apply in_map.
  - now rewrite IH.
Qed.

(* every holder presents its share once, in any order: the secret is returned *)
Theorem additive_correct : forall ps (shares : list (N * F)) s rs,
  NoDup (map fst shares) -> seteqb (map fst shares) ps = true ->
  map snd shares = sum_to_secret K s rs ->
  additive_reconstruct K ps shares = Some s.
Proof.
  intros ps shares s rs Hnd Hq Hv. unfold additive_reconstruct.
  assert (E : nodupN (map fst shares) = map fst shares) by (apply nodup_fixed_point; exact Hnd).
  rewrite E, Nat.eqb_refl. cbn [negb is_qualified]. rewrite Hq. cbn [negb].
  rewrite (dedup_shares_NoDup shares Hnd), Hv. now rewrite sum_to_secret_sums.
Qed.

Lemma upd_fsum : forall (l : list F) j x, (j < length l)%nat ->
  fsum K (upd j x l) = fsum K l - nth j l 0 + x.
Proof.
  induction l as [|a l IH]; intros j x Hj; [cbn in Hj; lia|].
  destruct j; cbn [upd nth].
  - rewrite !fsum_cons. ring.
  - rewrite !fsum_cons, IH by (cbn in Hj; lia). ring.
Qed.

(* all summands but one are consistent with every secret *)
Theorem additive_privacy : forall (l : list F) j s', (j < length l)%nat ->
  exists l', length l' = length l /\ fsum K l' = s' /\ forall i, i <> j -> nth i l' 0 = nth i l 0.
Proof.
  intros l j s' Hj. exists (upd j (nth j l 0 + (s' - fsum K l)) l). split; [|split].
  - apply upd_length.
  - rewrite upd_fsum by auto. ring.
  - intros i Hi. now apply nth_upd_other.
Qed.

(* ---- Shamir --------------------------------------------------------------------------------------- *)

Lemma peval_nth0 : forall cs, peval K cs 0 = nth 0 cs 0.
Proof. intros. rewrite (peval_eq_peval_r K HK). destruct cs as [|c cs]; cbn [peval_r nth]; ring. Qed.

Lemma shamir_deal_in : forall ps cs id, In id ps ->
  In (id, poly_eval K cs (fromN id)) (shamir_deal K fromN ps cs).
Proof.
  intros ps cs id Hin. unfold shamir_deal. apply in_map_iff. exists id. split; auto.
  rewrite in_sortN. now apply in_nodupN.
Qed.

Theorem shamir_correct : forall t ps cs ids,
  (forall a b, In a ps -> In b ps -> fromN a = fromN b -> a = b) ->
  NoDup ids -> incl ids ps -> (t <= length ids)%nat -> length cs = t ->
  shamir_reconstruct K fromN t ps (map (fun id => (id, poly_eval K cs (fromN id))) ids) = Some (nth 0 cs 0).
Proof.
  intros t ps cs ids Hinj Hnd Hincl Ht Hcs. unfold shamir_reconstruct.
  set (shares := map (fun id => (id, poly_eval K cs (fromN id))) ids).
  assert (Hfst : map fst shares = ids).
  { unfold shares. rewrite map_map. cbn [fst]. apply map_id. }
  rewrite (dedup_shares_NoDup shares) by (rewrite Hfst; exact Hnd).
  rewrite Hfst.
  assert (Hq : is_qualified (Thr t ps) ids = true).
  { cbn [is_qualified]. apply andb_true_iff. split.
    - apply Nat.leb_le. unfold card. unfold nodupN. rewrite (nodup_fixed_point N.eq_dec Hnd). exact Ht.
    - apply forallb_forall. intros id Hid. apply memN_In. now apply Hincl. }
  rewrite Hq. cbn [negb].
  assert (Hnodes : map (fun s : N * F => fromN (fst s)) shares = map fromN ids).
  { unfold shares. rewrite map_map. reflexivity. }
  rewrite Hnodes.
  assert (Hndn : NoDup (map fromN ids)).
  { apply NoDup_map_inj_rev; [exact Hnd|]. intros a b Ha Hb. apply Hinj; now apply Hincl. }
  unfold lagrange_basis_at. rewrite (basis_at_NoDup K HK _ 0 Hndn). f_equal.
  change (fold_left _ (combine ?a ?b) 0) with (dot K a b).
  assert (Hvals : map snd shares = map (peval_r K cs) (map fromN ids)).
  { unfold shares. rewrite !map_map. cbn [snd]. apply map_ext. intros id. unfold poly_eval.
    apply (peval_eq_peval_r K HK). }
  rewrite Hvals.
  rewrite (lagrange_dot_exact K HK (map fromN ids) cs 0 Hndn) by (rewrite map_length; lia).
  rewrite <- (peval_eq_peval_r K HK). apply peval_nth0.
Qed.

Theorem shamir_exact : forall t ps (shares : list (N * F)),
  is_qualified (Thr t ps) (map fst (dedup_shares K shares)) = false ->
  shamir_reconstruct K fromN t ps shares = None.
Proof. intros t ps shares H. unfold shamir_reconstruct. now rewrite H. Qed.

(* fewer than t holders: for every secret s' there is a dealer polynomial of the same degree bound
   with constant term s' that gives them the same shares *)
Theorem shamir_privacy : forall t cs ids s',
  (forall a b, In a ids -> In b ids -> fromN a = fromN b -> a = b) ->
  (forall id, In id ids -> fromN id <> 0) ->
  NoDup ids -> (length ids < t)%nat -> length cs = t ->
  exists cs', length cs' = t /\ nth 0 cs' 0 = s' /\
    forall id, In id ids -> poly_eval K cs' (fromN id) = poly_eval K cs (fromN id).
Proof.
  intros t cs ids s' Hinj Hnz Hnd Hlt Hcs.
  set (nodes := map fromN ids).
  assert (Hp0 : fprod_sub K 0 nodes <> 0).
  { intro E. apply (fprod_sub_eq_0_iff K HK) in E. unfold nodes in E. apply in_map_iff in E.
    destruct E as [id [E Hid]]. now apply (Hnz id). }
  set (c := finv K (fprod_sub K 0 nodes)).
  set (w := pscale K c (pprod_lin K nodes) ++ repeat 0 (t - S (length nodes))).
  assert (Hwl : length w = t).
  { unfold w. rewrite app_length, (pscale_length K), (pprod_lin_length K), repeat_length.
    unfold nodes. rewrite map_length. lia. }
  assert (Hw0 : peval_r K w 0 = 1).
  { unfold w. rewrite (peval_r_pad K HK), (peval_r_pscale K HK), (peval_r_pprod_lin K HK).
    unfold c. apply (finv_l K HK). exact Hp0. }
  assert (Hwa : forall id, In id ids -> peval_r K w (fromN id) = 0).
  { intros id Hid. unfold w. rewrite (peval_r_pad K HK), (peval_r_pscale K HK), (peval_r_pprod_lin K HK).
    assert (E : fprod_sub K (fromN id) nodes = 0) by (apply (fprod_sub_eq_0_iff K HK); unfold nodes; now apply in_map).
    rewrite E. ring. }
  exists (padd K cs (pscale K (s' - nth 0 cs 0) w)). split; [|split].
  - rewrite (padd_length K), (pscale_length K). lia.
  - rewrite <- peval_nth0, (peval_eq_peval_r K HK), (peval_r_padd K HK), (peval_r_pscale K HK), Hw0.
    rewrite <- (peval_eq_peval_r K HK), peval_nth0. ring.
  - intros id Hid. unfold poly_eval.
    rewrite !(peval_eq_peval_r K HK), (peval_r_padd K HK), (peval_r_pscale K HK), (Hwa id Hid). ring.
Qed.

(* conversion to additive shares over a quorum of >= deg+1 distinct holders: the values sum to cs_0 *)
Definition fsumN (g : N -> F) (l : list N) : F := fold_right (fun i acc => g i + acc) 0 l.

Lemma fsumN_ext_in : forall (g h : N -> F) l, (forall i, In i l -> g i = h i) -> fsumN g l = fsumN h l.
Proof.
  induction l as [|x l IH]; intros H; [reflexivity|]. cbn [fsumN fold_right].
  rewrite (H x) by now left. fold (fsumN g l). fold (fsumN h l). rewrite IH; auto. intros; apply H; now right.
Qed.

Lemma dot_by_index_N : forall (g : N -> F) (Q : list N) (b : list F), NoDup Q -> length b = length Q ->
  fsumN (fun id => match find_index (N.eqb id) Q with Some i => nth i b 0 | None => 0 end * g id) Q = dot K b (map g Q).
Proof.
  intros g Q; induction Q as [|q Q IH]; intros b Hnd Hl.
  - destruct b; [reflexivity|discriminate].
  - destruct b as [|c b]; [discriminate|]. inversion Hnd; subst. cbn [map]. rewrite (dot_cons K HK).
    cbn [fsumN fold_right find_index]. rewrite N.eqb_refl. cbn [nth].
    fold (fsumN (fun id => match (if N.eqb id q then Some O else match find_index (N.eqb id) Q with Some i => Some (S i) | None => None end) with Some i => nth i (c :: b) 0 | None => 0 end * g id) Q).
    rewrite <- (IH b) by (auto; cbn in Hl; lia). f_equal.
    apply fsumN_ext_in. intros id Hid.
    destruct (N.eqb id q) eqn:E; [apply N.eqb_eq in E; subst; contradiction|].
    destruct (find_index (N.eqb id) Q); reflexivity.
Qed.

Theorem shamir_to_additive_sums : forall cs Q,
  (forall a b, In a Q -> In b Q -> fromN a = fromN b -> a = b) ->
  NoDup Q -> (length cs <= length Q)%nat ->
  exists f : N -> F,
    (forall id, In id Q -> shamir_to_additive K fromN (id, poly_eval K cs (fromN id)) Q = Some (f id)) /\
    fsumN f Q = nth 0 cs 0.
Proof.
  intros cs Q Hinj Hnd Hlen.
  assert (EQ : nodupN Q = Q) by (apply nodup_fixed_point; exact Hnd).
  assert (Hndn : NoDup (map fromN Q)) by (apply NoDup_map_inj_rev; auto).
  set (b := basis_coeffs K (map fromN Q) 0).
  exists (fun id => match find_index (N.eqb id) Q with Some i => nth i b 0 | None => 0 end * poly_eval K cs (fromN id)).
  split.
  - intros id Hid. unfold shamir_to_additive. rewrite EQ. unfold lagrange_basis_at.
    rewrite (basis_at_NoDup K HK _ 0 Hndn). cbn [fst snd]. fold b.
    destruct (find_index (N.eqb id) Q) as [i|] eqn:E; [reflexivity|]. exfalso.
    clear -E Hid. induction Q as [|q Q IH]; [contradiction|]. cbn [find_index] in E.
    destruct (N.eqb id q) eqn:Eq; [discriminate|]. destruct (find_index (N.eqb id) Q); [discriminate|].
    destruct Hid as [->|Hid]; [rewrite N.eqb_refl in Eq; discriminate|auto].
  - rewrite (dot_by_index_N (fun id => poly_eval K cs (fromN id)) Q b Hnd)
      by (unfold b; now rewrite (basis_coeffs_length K), map_length).
    assert (Ev : map (fun id => poly_eval K cs (fromN id)) Q = map (peval_r K cs) (map fromN Q)).
    { rewrite map_map. apply map_ext. intros id. unfold poly_eval. apply (peval_eq_peval_r K HK). }
    rewrite Ev. unfold b. rewrite (lagrange_dot_exact K HK (map fromN Q) cs 0 Hndn) by (rewrite map_length; lia).
    rewrite <- (peval_eq_peval_r K HK). apply peval_nth0.
Qed.

End SchemesProofs.

(* ---- ISN ------------------------------------------------------------------------------------------------ *)
Lemma NoDup_app_snoc : forall {A} (l : list A) x, NoDup l -> ~ In x l -> NoDup (l ++ [x]).
Proof.
  intros A l x Hnd Hni. induction l as [|a l IH]; cbn; [constructor; auto; constructor|].
  inversion Hnd; subst. constructor.
  - intro Hin. apply in_app_or in Hin. destruct Hin as [Hin|[->|[]]]; [contradiction|]. apply Hni. now left.
  - apply IH; auto. intro; apply Hni; now right.
Qed.

Lemma in_combine_seq_nth : forall {A} (l : list A) s k (d : A), (k < length l)%nat ->
  In ((s + k)%nat, nth k l d) (combine (seq s (length l)) l).
Proof.
  intros A l; induction l as [|a l IH]; intros s k d Hk; [cbn in Hk; lia|].
  destruct k; cbn [length seq combine nth].
  - left. now rewrite Nat.add_0_r.
  - right. replace (s + S k)%nat with (S s + k)%nat by lia. apply IH. cbn in Hk. lia.
Qed.

Section IsnProofs.
Context {F : Type} (K : fops F) (HK : flaws K).

Add Field Kfield8 : (fl_theory K HK).

Notation "0" := (f0 K).
Infix "+" := (fadd K).
Infix "-" := (fsub K).

(* an unqualified ID list is refused *)
Theorem isn_exact : forall p mus (shares : list (isn_share (F:=F))),
  is_qualified p (map fst shares) = false -> isn_reconstruct K p mus shares = None.
Proof. intros p mus shares H. unfold isn_reconstruct. now rewrite H. Qed.

Lemma combine_seq_upd : forall (l : list F) k x s,
  combine (seq s (length (upd k x l))) (upd k x l) =
  map (fun kv => if Nat.eqb (fst kv) (s + k) then (fst kv, x) else kv) (combine (seq s (length l)) l)
  \/ (length l <= k)%nat.
Proof.
  induction l as [|a l IH]; intros k x s; [right; cbn; lia|].
  destruct k as [|k].
  - left. cbn [upd length seq combine map fst]. rewrite Nat.add_0_r, Nat.eqb_refl. f_equal.
    rewrite <- (map_id (combine (seq (S s) (length l)) l)) at 1. apply map_ext_in.
    intros [i v] Hin. apply in_combine_l in Hin. apply in_seq in Hin. cbn [fst].
    destruct (Nat.eqb i s) eqn:E; [apply Nat.eqb_eq in E; lia|reflexivity].
  - destruct (IH k x (S s)) as [E|E]; [left|right; cbn; lia].
    cbn [upd length seq combine map fst]. rewrite E.
    destruct (Nat.eqb s (s + S k)) eqn:E2; [apply Nat.eqb_eq in E2; lia|]. f_equal.
    apply map_ext. intros [i v]. cbn [fst]. now replace (S s + k)%nat with (s + S k)%nat by lia.
Qed.

(* privacy: holders that all lie in the k-th maximal unqualified set never see summand k, so it can be
   moved to reach any other secret without changing their shares *)
Theorem isn_privacy : forall mus (summands : list F) ids k d,
  length summands = length mus -> (k < length summands)%nat ->
  (forall id, In id ids -> In id (nth k mus [])) ->
  isn_deal mus (upd k (nth k summands 0 + d) summands) ids = isn_deal mus summands ids /\
  fsum K (upd k (nth k summands 0 + d) summands) = fsum K summands + d.
Proof.
  intros mus summands ids k d Hlen Hk Hin. split.
  - unfold isn_deal. apply map_ext_in. intros id Hid. f_equal. rewrite <- Hlen.
    destruct (combine_seq_upd summands k (nth k summands 0 + d) 0) as [E|E]; [|lia].
    rewrite upd_length in E. rewrite E. cbn [plus]. clear E.
    induction (combine (seq 0 (length summands)) summands) as [|[i v] l IH]; [reflexivity|].
    cbn [map filter fst snd]. destruct (Nat.eqb i k) eqn:Ei.
    + apply Nat.eqb_eq in Ei. subst i. cbn [fst].
      assert (Hm : memN id (nth k mus []) = true) by (apply memN_In; auto). rewrite Hm. cbn [negb]. exact IH.
    + cbn [fst]. destruct (negb (memN id (nth i mus []))); [f_equal|]; exact IH.
  - rewrite (upd_fsum K HK) by auto. ring.
Qed.


(* correctness: if every maximal unqualified set misses some listed holder (i.e. the list is
   qualified), the dealt shares of the listed holders reconstruct the sum of all summands *)
Lemma fsum_perm : forall (l l' : list F), Permutation l l' -> fsum K l = fsum K l'.
Proof.
  induction 1 as [| x l l' _ IH | x y l | l l' l'' _ IH1 _ IH2].
  - reflexivity.
  - now rewrite !(fsum_cons K HK), IH.
  - rewrite !(fsum_cons K HK). ring.
  - now rewrite IH1.
Qed.

Lemma map_nth_seq : forall (l : list F), map (fun k => nth k l 0) (seq 0 (length l)) = l.
Proof.
  intros l. apply (nth_ext_eq _ _ 0).
  - now rewrite map_length, seq_length.
  - intros i Hi. rewrite map_length, seq_length in Hi.
    rewrite (nth_map_lt _ (seq 0 (length l)) O 0) by (rewrite seq_length; lia). now rewrite seq_nth by lia.
Qed.

Lemma assoc_dealt : forall mus (summands : list F) id k s,
  ~ In id (nth k mus []) ->
  assoc_nat k (filter (fun kv => negb (memN id (nth (fst kv) mus []))) (combine (seq s (length summands)) summands))
  = if Nat.leb s k && Nat.ltb k (s + length summands) then Some (nth (k - s) summands 0) else None.
Proof.
  intros mus summands; induction summands as [|a l IH]; intros id k s Hni.
  - cbn [length seq combine filter assoc_nat].
    destruct (Nat.leb_spec s k), (Nat.ltb_spec k (s + 0)); cbn [andb]; try reflexivity; lia.
  - assert (Hm : memN id (nth k mus []) = false).
    { destruct (memN id (nth k mus [])) eqn:E; [apply memN_In in E; contradiction|reflexivity]. }
    cbn [length seq combine filter fst].
    destruct (Nat.eqb s k) eqn:Esk.
    + apply Nat.eqb_eq in Esk. subst s. rewrite Hm. cbn [negb assoc_nat]. rewrite Nat.eqb_refl.
      destruct (Nat.leb_spec k k), (Nat.ltb_spec k (k + S (length l))); cbn [andb]; try lia.
      now rewrite Nat.sub_diag.
    + apply Nat.eqb_neq in Esk.
      assert (Hrest : forall rest, assoc_nat k (if negb (memN id (nth s mus [])) then (s, a) :: rest else rest) = assoc_nat k rest).
      { intros rest. destruct (negb (memN id (nth s mus []))); [|reflexivity]. cbn [assoc_nat].
        destruct (Nat.eqb k s) eqn:E; [apply Nat.eqb_eq in E; lia|reflexivity]. }
      rewrite Hrest, (IH id k (S s) Hni).
      destruct (Nat.leb_spec (S s) k), (Nat.ltb_spec k (S s + length l)),
               (Nat.leb_spec s k), (Nat.ltb_spec k (s + S (length l))); cbn [andb]; try reflexivity; try lia.
      replace (k - s)%nat with (S (k - S s)) by lia. reflexivity.
Qed.

Definition chunks_ok (summands : list F) (chunks : list (nat * F)) : Prop :=
  NoDup (map fst chunks) /\ forall k v, In (k, v) chunks -> (k < length summands)%nat /\ v = nth k summands 0.

Lemma assoc_nat_in : forall k (l : list (nat * F)) v, assoc_nat k l = Some v -> In (k, v) l.
Proof.
  induction l as [|[k' v'] l IH]; intros v H; [discriminate|]. cbn [assoc_nat] in H.
  destruct (Nat.eqb k k') eqn:E; [apply Nat.eqb_eq in E; subst; inversion H; now left|right; auto].
Qed.

Lemma assoc_nat_none : forall k (l : list (nat * F)), assoc_nat k l = None -> ~ In k (map fst l).
Proof.
  induction l as [|[k' v'] l IH]; intros H; [intros []|]. cbn [assoc_nat] in H.
  destruct (Nat.eqb k k') eqn:E; [discriminate|]. apply Nat.eqb_neq in E. cbn [map fst]. intros [Hx|Hx]; [congruence|].
  now apply IH.
Qed.

Theorem isn_correct : forall p mus (summands : list F) ids,
  length summands = length mus -> is_qualified p ids = true ->
  (forall k, (k < length mus)%nat -> exists id, In id ids /\ ~ In id (nth k mus [])) ->
  isn_reconstruct K p mus (isn_deal mus summands ids) = Some (fsum K summands).
Proof.
  intros p mus summands ids Hlen Hq Hcover. unfold isn_reconstruct.
  assert (Hfst : map fst (isn_deal mus summands ids) = ids).
  { unfold isn_deal. rewrite map_map. cbn [fst]. apply map_id. }
  rewrite Hfst, Hq. cbn [negb].
  (* the inner loop for one dealt share *)
  set (inner := fun (id : N) (sh : isn_share (F:=F)) (acc : option (list (nat * F))) (ks : list nat) =>
    fold_left (fun acc k =>
      match acc with
      | None => None
      | Some chunks =>
        if memN (fst sh) (nth k mus []) then Some chunks else
        match assoc_nat k (snd sh) with
        | None => None
        | Some c => match assoc_nat k chunks with
                    | Some c0 => if feqb K c0 c then Some chunks else None
                    | None => Some (chunks ++ [(k, c)])
                    end
        end
      end) ks acc).
  assert (Hinner : forall id ks chunks, chunks_ok summands chunks -> (forall k, In k ks -> (k < length mus)%nat) ->
     exists chunks', inner id (id, filter (fun kv => negb (memN id (nth (fst kv) mus []))) (combine (seq 0 (length mus)) summands)) (Some chunks) ks = Some chunks'
        /\ chunks_ok summands chunks' /\ incl (map fst chunks) (map fst chunks')
        /\ forall k, In k ks -> ~ In id (nth k mus []) -> In k (map fst chunks')).
  { intros id ks; induction ks as [|k ks IH]; intros chunks Hok Hks.
    - exists chunks. split; [reflexivity|]. split; [exact Hok|]. split; [apply incl_refl|]. intros k [].
    - unfold inner. cbn [fold_left fst snd]. fold (inner id (id, filter (fun kv => negb (memN id (nth (fst kv) mus []))) (combine (seq 0 (length mus)) summands))).
      assert (Hk : (k < length mus)%nat) by (apply Hks; now left).
      destruct (memN id (nth k mus [])) eqn:Em.
      + destruct (IH chunks Hok (fun k' H' => Hks k' (or_intror H'))) as [c' [E [Hok' [Hinc Hcov]]]].
        exists c'. split; [exact E|]. split; [exact Hok'|]. split; [exact Hinc|].
        intros k' [->|Hk'] Hni; [apply memN_In in Em; contradiction|auto].
      + assert (Hni : ~ In id (nth k mus [])) by (intro H; apply memN_In in H; congruence).
        rewrite <- Hlen. rewrite (assoc_dealt mus summands id k 0 Hni).
        cbn [Nat.leb plus andb]. assert (El : Nat.ltb k (length summands) = true) by (apply Nat.ltb_lt; lia).
        rewrite El, Nat.sub_0_r.
        destruct (assoc_nat k chunks) as [c0|] eqn:Ea.
        * pose proof (assoc_nat_in k chunks c0 Ea) as Hin. destruct Hok as [Hnd Hval].
          destruct (Hval k c0 Hin) as [_ ->].
          assert (Ef : feqb K (nth k summands 0) (nth k summands 0) = true) by (now apply (fl_eqb K HK)).
          rewrite Ef. rewrite Hlen.
          destruct (IH chunks (conj Hnd Hval) (fun k' H' => Hks k' (or_intror H'))) as [c' [E [Hok' [Hinc Hcov]]]].
          exists c'. split; [exact E|]. split; [exact Hok'|]. split; [exact Hinc|].
          intros k' [->|Hk'] Hni'; [|auto]. apply Hinc. apply in_map_iff. exists (k', nth k' summands 0). auto.
        * pose proof (assoc_nat_none k chunks Ea) as Hnin. rewrite Hlen.
          assert (Hok2 : chunks_ok summands (chunks ++ [(k, nth k summands 0)])).
          { destruct Hok as [Hnd Hval]. split.
            - rewrite map_app. cbn [map fst]. apply NoDup_app_snoc; auto.
            - intros k' v' Hin'. apply in_app_or in Hin'. destruct Hin' as [Hin'|[E|[]]]; [auto|].
              inversion E; subst. split; [lia|reflexivity]. }
          destruct (IH _ Hok2 (fun k' H' => Hks k' (or_intror H'))) as [c' [E [Hok' [Hinc Hcov]]]].
          exists c'. split; [exact E|]. split; [exact Hok'|]. split.
          -- intros x Hx. apply Hinc. rewrite map_app. apply in_or_app. now left.
          -- intros k' [->|Hk'] Hni'; [|auto]. apply Hinc. rewrite map_app. apply in_or_app. right. now left. }
  (* the outer loop over the dealt shares *)
  assert (Houter : forall l chunks, chunks_ok summands chunks ->
     exists chunks', fold_left (fun acc sh => inner (fst sh) sh acc (seq 0 (length mus))) (isn_deal mus summands l) (Some chunks) = Some chunks'
        /\ chunks_ok summands chunks' /\ incl (map fst chunks) (map fst chunks')
        /\ forall id k, In id l -> (k < length mus)%nat -> ~ In id (nth k mus []) -> In k (map fst chunks')).
  { induction l as [|id l IH]; intros chunks Hok.
    - exists chunks. split; [reflexivity|]. split; [exact Hok|]. split; [apply incl_refl|]. intros ? ? [].
    - cbn [isn_deal map fold_left fst].
      destruct (Hinner id (seq 0 (length mus)) chunks Hok) as [c1 [E1 [Hok1 [Hinc1 Hcov1]]]].
      { intros k Hk. apply in_seq in Hk. lia. }
      rewrite E1. destruct (IH c1 Hok1) as [c2 [E2 [Hok2 [Hinc2 Hcov2]]]].
      exists c2. split; [exact E2|]. split; [exact Hok2|]. split.
      + intros x Hx. apply Hinc2, Hinc1, Hx.
      + intros id' k [->|Hid'] Hk Hni; [|eauto]. apply Hinc2. apply Hcov1; auto. apply in_seq. lia. }
  destruct (Houter ids [] (conj (NoDup_nil _) (fun k v (H : In (k, v) []) => match H with end))) as [c [E [[Hnd Hval] [_ Hcov]]]].
  unfold inner in E. cbn [fst] in E.
  match goal with |- match ?x with _ => _ end = _ => replace x with (Some c) by (symmetry; exact E) end.
  f_equal.
  (* the chunk keys are a permutation of 0..L-1 *)
  assert (Hperm : Permutation (map fst c) (seq 0 (length summands))).
  { apply NoDup_Permutation; [exact Hnd|apply seq_NoDup|]. intros k. split.
    - intros Hk. apply in_map_iff in Hk. destruct Hk as [[k' v] [Ek Hin]]. cbn in Ek. subst k'.
      apply in_seq. destruct (Hval k v Hin). lia.
    - intros Hk. apply in_seq in Hk. destruct (Hcover k ltac:(lia)) as [id [Hid Hni]]. apply (Hcov id k); auto. lia. }
  assert (Hsnd : map snd c = map (fun k => nth k summands 0) (map fst c)).
  { rewrite map_map. apply map_ext_in. intros [k v] Hin. cbn [fst snd]. now destruct (Hval k v Hin). }
  rewrite Hsnd. rewrite (fsum_perm _ (map (fun k => nth k summands 0) (seq 0 (length summands)))).
  - now rewrite map_nth_seq.
  - now apply Permutation_map.
Qed.

(* ---- ISN: conversion to additive shares ------------------------------------------------------------------ *)

Definition fsumn (g : nat -> F) (l : list nat) : F := fold_right (fun i acc => g i + acc) 0 l.

Lemma fsumn_cons : forall (g : nat -> F) x l, fsumn g (x :: l) = g x + fsumn g l.
Proof. reflexivity. Qed.

Lemma fsumn_ext_in : forall (g h : nat -> F) l, (forall i, In i l -> g i = h i) -> fsumn g l = fsumn h l.
Proof.
  induction l as [|x l IH]; intros H; [reflexivity|]. cbn [fsumn fold_right].
  rewrite (H x) by now left. fold (fsumn g l). fold (fsumn h l). rewrite IH; auto. intros; apply H; now right.
Qed.

Lemma fsumn_add : forall (g h : nat -> F) l, fsumn (fun i => g i + h i) l = fsumn g l + fsumn h l.
Proof.
  induction l as [|x l IH]; [cbn; ring|]. cbn [fsumn fold_right]. fold (fsumn (fun i => g i + h i) l).
  fold (fsumn g l). fold (fsumn h l). rewrite IH. ring.
Qed.

Lemma fsumn_zero : forall l, fsumn (fun _ => 0) l = 0.
Proof. induction l as [|x l IH]; [reflexivity|]. cbn [fsumn fold_right]. fold (fsumn (fun _ : nat => 0) l). rewrite IH. ring. Qed.

Lemma fsumn_summands : forall (l : list F) s, fsumn (fun k => nth (k - s) l 0) (seq s (length l)) = fsum K l.
Proof.
  induction l as [|a l IH]; intros s; [reflexivity|]. cbn [length seq fsumn fold_right].
  fold (fsumn (fun k => nth (k - s) (a :: l) 0) (seq (S s) (length l))). rewrite Nat.sub_diag. cbn [nth].
  rewrite (fsum_cons K HK). f_equal. rewrite <- (IH (S s)). apply fsumn_ext_in. intros k Hk. apply in_seq in Hk.
  replace (k - s)%nat with (S (k - S s)) by lia. reflexivity.
Qed.

(* the pivot of the k-th maximal unqualified set in a quorum: its smallest member outside the set *)
Definition pivot_of (mus : list (list N)) (sq : list N) (k : nat) : option N :=
  find (fun id => negb (memN id (nth k mus []))) sq.

(* the fold of Share.ToAdditive in closed form *)
Lemma isn_fold_closed : forall mus sq holder (chunks : list (nat * F)) a,
  (forall kv, In kv chunks -> pivot_of mus sq (fst kv) <> None) ->
  fold_left (fun acc kv =>
    match acc with
    | None => None
    | Some v =>
      match find (fun id => negb (memN id (nth (fst kv) mus []))) sq with
      | None => None
      | Some p => if N.eqb p holder then Some (v + snd kv) else Some v
      end
    end) chunks (Some a)
  = Some (a + fold_right (fun kv acc =>
              (match pivot_of mus sq (fst kv) with Some p => if N.eqb p holder then snd kv else 0 | None => 0 end) + acc) 0 chunks).
Proof.
  intros mus sq holder chunks; induction chunks as [|kv l IH]; intros a Hp; cbn [fold_left fold_right].
  - f_equal. ring.
  - assert (Hk := Hp kv (or_introl eq_refl)). unfold pivot_of in *.
    destruct (find _ sq) as [p|] eqn:E; [|congruence].
    destruct (N.eqb p holder); rewrite IH by (intros; apply Hp; now right); f_equal; ring.
Qed.

(* sum over the dealt chunks of a holder = sum over all k with an indicator *)
Lemma dealt_chunks_sum : forall mus (summands : list F) id (G : nat -> F -> F) s,
  (forall k, G k 0 = G k 0) ->
  fold_right (fun kv acc => G (fst kv) (snd kv) + acc) 0
    (filter (fun kv => negb (memN id (nth (fst kv) mus []))) (combine (seq s (length summands)) summands))
  = fsumn (fun k => if negb (memN id (nth k mus [])) then G k (nth (k - s) summands 0) else 0) (seq s (length summands)).
Proof.
  intros mus summands id G; induction summands as [|a l IH]; intros s HG; [reflexivity|].
  change (seq s (length (a :: l))) with (s :: seq (S s) (length l)).
  change (combine (s :: seq (S s) (length l)) (a :: l)) with ((s, a) :: combine (seq (S s) (length l)) l).
  rewrite filter_cons_eq. cbn [fst]. rewrite fsumn_cons, Nat.sub_diag. change (nth 0 (a :: l) 0) with a.
  assert (E : fsumn (fun k => if negb (memN id (nth k mus [])) then G k (nth (k - s) (a :: l) 0) else 0) (seq (S s) (length l))
            = fsumn (fun k => if negb (memN id (nth k mus [])) then G k (nth (k - S s) l 0) else 0) (seq (S s) (length l))).
  { apply fsumn_ext_in. intros k Hk. apply in_seq in Hk. replace (k - s)%nat with (S (k - S s)) by lia. reflexivity. }
  rewrite E, <- (IH (S s) HG).
  destruct (negb (memN id (nth s mus []))); cbn [fold_right fst snd]; ring.
Qed.

(* exactly one member of a duplicate-free list equals p, if p is a member *)
Lemma indicator_sum : forall (Q : list N) p (x : F), NoDup Q -> In p Q ->
  fsumN K (fun id => if N.eqb p id then x else 0) Q = x.
Proof.
  induction Q as [|q Q IH]; intros p x Hnd Hin; [contradiction|]. inversion Hnd; subst.
  cbn [fsumN fold_right]. fold (fsumN K (fun id => if N.eqb p id then x else 0) Q).
  destruct (N.eqb p q) eqn:E.
  - apply N.eqb_eq in E. subst q.
    assert (Z : fsumN K (fun id => if N.eqb p id then x else 0) Q = 0).
    { clear -H1 HK. induction Q as [|a Q IH]; [reflexivity|]. cbn [fsumN fold_right].
      fold (fsumN K (fun id => if N.eqb p id then x else 0) Q).
      destruct (N.eqb p a) eqn:E; [apply N.eqb_eq in E; subst; exfalso; apply H1; now left|].
      rewrite IH by (intro; apply H1; now right). ring. }
    rewrite Z. ring.
  - destruct Hin as [->|Hin]; [rewrite N.eqb_refl in E; discriminate|]. rewrite IH by auto. ring.
Qed.

Lemma fsumN_fsumn_swap : forall (a : N -> nat -> F) (Q : list N) (ks : list nat),
  fsumN K (fun id => fsumn (a id) ks) Q = fsumn (fun k => fsumN K (fun id => a id k) Q) ks.
Proof.
  intros a Q ks; induction Q as [|q Q IH].
  - cbn [fsumN fold_right]. symmetry. apply fsumn_zero.
  - cbn [fsumN fold_right]. fold (fsumN K (fun id => fsumn (a id) ks) Q). rewrite IH.
    rewrite <- fsumn_add. apply fsumn_ext_in. intros k _. reflexivity.
Qed.

Lemma find_some_in : forall (f : N -> bool) l x, find f l = Some x -> In x l /\ f x = true.
Proof. intros. now apply find_some. Qed.

Theorem isn_to_additive_sums : forall mus (summands : list F) Q,
  length summands = length mus -> NoDup Q ->
  (forall k, (k < length mus)%nat -> exists id, In id Q /\ ~ In id (nth k mus [])) ->   (* every set misses a member: Q qualified *)
  (forall id, In id Q -> exists k, (k < length mus)%nat /\ ~ In id (nth k mus [])) ->   (* no member lies in every set *)
  exists f : N -> F,
    (forall id, In id Q ->
       isn_to_additive K mus (id, filter (fun kv => negb (memN id (nth (fst kv) mus []))) (combine (seq 0 (length mus)) summands)) Q = Some (f id)) /\
    fsumN K f Q = fsum K summands.
Proof.
  intros mus summands Q Hlen Hnd Hcover Hnonempty.
  set (sq := sortN (nodupN Q)).
  assert (Hsq : forall id, In id sq <-> In id Q) by (intros; unfold sq; now rewrite in_sortN, in_nodupN).
  assert (Hpiv : forall k, (k < length mus)%nat -> exists p, pivot_of mus sq k = Some p /\ In p Q /\ ~ In p (nth k mus [])).
  { intros k Hk. unfold pivot_of. destruct (find _ sq) as [p|] eqn:E.
    - apply find_some in E. destruct E as [Hin Hf]. exists p. split; [reflexivity|]. split; [now apply Hsq|].
      intro Hc. apply memN_In in Hc. rewrite Hc in Hf. discriminate.
    - exfalso. destruct (Hcover k Hk) as [id [Hid Hni]].
      assert (Hx := find_none _ _ E id (proj2 (Hsq id) Hid)). cbn beta in Hx.
      destruct (memN id (nth k mus [])) eqn:Em; [apply memN_In in Em; contradiction|discriminate]. }
  exists (fun id => fsumn (fun k => if negb (memN id (nth k mus [])) then
                        (match pivot_of mus sq k with Some p => if N.eqb p id then nth k summands 0 else 0 | None => 0 end) else 0)
                      (seq 0 (length mus))).
  split.
  - intros id Hid. unfold isn_to_additive. cbn [fst snd].
    assert (Hm : memN id Q = true) by now apply memN_In. rewrite Hm. cbn [negb].
    set (chunks := filter (fun kv => negb (memN id (nth (fst kv) mus []))) (combine (seq 0 (length mus)) summands)).
    assert (Hchunks_ne : chunks <> []).
    { destruct (Hnonempty id Hid) as [k [Hk Hni]]. intro E.
      assert (Hin : In (k, nth k summands 0) chunks).
      { unfold chunks. apply filter_In. split.
        - rewrite <- Hlen. rewrite <- (Nat.add_0_l k) at 1.
          replace (nth k summands 0) with (nth k summands 0) by reflexivity.
          apply (in_combine_seq_nth summands 0 k). lia.
        - cbn [fst]. destruct (memN id (nth k mus [])) eqn:Em; [apply memN_In in Em; contradiction|reflexivity]. }
      rewrite E in Hin. contradiction. }
    destruct chunks as [|c0 cl] eqn:Ech; [congruence|]. rewrite <- Ech. clear Hchunks_ne.
    fold sq.
    rewrite (isn_fold_closed mus sq id chunks 0).
    + f_equal. unfold chunks. rewrite <- Hlen.
      rewrite (dealt_chunks_sum mus summands id
                 (fun k v => match pivot_of mus sq k with Some p => if N.eqb p id then v else 0 | None => 0 end) 0 (fun _ => eq_refl)).
      rewrite Hlen. transitivity (fsumn (fun k => if negb (memN id (nth k mus [])) then
                        (match pivot_of mus sq k with Some p => if N.eqb p id then nth k summands 0 else 0 | None => 0 end) else 0)
                      (seq 0 (length mus))); [|reflexivity].
      rewrite <- Hlen. transitivity (0 + fsumn (fun k => if negb (memN id (nth k mus [])) then
             match pivot_of mus sq k with Some p => if N.eqb p id then nth (k - 0) summands 0 else 0 | None => 0 end else 0) (seq 0 (length summands))); [reflexivity|].
      transitivity (fsumn (fun k => if negb (memN id (nth k mus [])) then
             match pivot_of mus sq k with Some p => if N.eqb p id then nth (k - 0) summands 0 else 0 | None => 0 end else 0) (seq 0 (length summands))); [ring|].
      apply fsumn_ext_in. intros k _. now rewrite Nat.sub_0_r.
    + intros [k v] Hin. unfold chunks in Hin. apply filter_In in Hin. destruct Hin as [Hin _].
      apply in_combine_l in Hin. apply in_seq in Hin. cbn [fst].
      destruct (Hpiv k ltac:(lia)) as [p [E _]]. rewrite E. discriminate.
  - rewrite fsumN_fsumn_swap.
    rewrite <- (fsumn_summands summands 0), Hlen.
    apply fsumn_ext_in. intros k Hk. apply in_seq in Hk. rewrite Nat.sub_0_r.
    destruct (Hpiv k ltac:(lia)) as [p [E [HpQ Hpni]]]. rewrite E.
    transitivity (fsumN K (fun id => if N.eqb p id then nth k summands 0 else 0) Q);
      [|apply (indicator_sum Q p (nth k summands 0) Hnd HpQ)].
    apply fsumN_ext_in. intros id Hid.
    destruct (N.eqb p id) eqn:Ep.
    + apply N.eqb_eq in Ep. subst id.
      destruct (memN p (nth k mus [])) eqn:Em; [apply memN_In in Em; contradiction|reflexivity].
    + destruct (negb (memN id (nth k mus []))); reflexivity.
Qed.

End IsnProofs.
