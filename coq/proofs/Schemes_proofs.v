(* Schemes_proofs.v — correctness and privacy of the dedicated schemes of model/Schemes.v
   over an arbitrary field (flaws K).

     sum_to_secret_sums    additive.SumToSecret: the summands add up to the secret
     additive_correct      all shares (one per holder, any order) reconstruct the secret
     additive_privacy      any summand can be changed to reach any other secret (all others fixed)
     shamir_correct        >= t distinct holders of the set reconstruct cs_0 (Lagrange at 0)
     shamir_exact          an unqualified ID list is refused
     shamir_privacy        < t holders: every secret is consistent with their shares              *)
From Coq Require Import List NArith Arith Bool Lia Field Ring.
Import ListNotations.
Require Import V.base.Fld V.model.LinAlg V.model.Poly V.model.Interp V.model.Access V.model.Msp V.model.Schemes.
Require Import V.proofs.LinAlg_proofs V.proofs.Poly_proofs V.proofs.Interp_proofs V.proofs.Span_proofs
               V.proofs.Msp_proofs V.proofs.Families_proofs.

Section SchemesProofs.
Context {F : Type} (K : fops F) (HK : flaws K) (fromN : N -> F).

Add Field Kfield6 : (fl_theory K HK).

Notation "0" := (f0 K).
Notation "1" := (f1 K).
Infix "+" := (fadd K).
Infix "*" := (fmul K).
Infix "-" := (fsub K).

(* ---- additive ---------------------------------------------------------------------------------- *)

Lemma fsum_fold_acc : forall l a, fold_left (fadd K) l a = a + fold_left (fadd K) l 0.
Proof.
  induction l as [|x l IH]; intros a; cbn [fold_left]; [ring|].
  rewrite IH, (IH (0 + x)). ring.
Qed.

Lemma fsum_cons : forall x l, fsum K (x :: l) = x + fsum K l.
Proof. intros. unfold fsum. cbn [fold_left]. rewrite fsum_fold_acc. ring. Qed.

Lemma fsum_app : forall l1 l2, fsum K (l1 ++ l2) = fsum K l1 + fsum K l2.
Proof.
  induction l1 as [|x l IH]; intros l2; cbn [app].
  - unfold fsum at 2. cbn. ring.
  - rewrite !fsum_cons, IH. ring.
Qed.

Theorem sum_to_secret_sums : forall s rs, fsum K (sum_to_secret K s rs) = s.
Proof.
  intros. unfold sum_to_secret. rewrite fsum_app, fsum_cons. unfold fsum at 3. cbn [fold_left]. ring.
Qed.

Lemma dedup_shares_NoDup : forall (l : list (N * F)), NoDup (map fst l) -> dedup_shares K l = l.
Proof.
  induction l as [|s l IH]; intros Hnd; [reflexivity|]. cbn [map] in Hnd. inversion Hnd as [|? ? Hni Hnd']; subst.
  cbn [dedup_shares].
  destruct (existsb _ l) eqn:E.
  - exfalso. apply existsb_exists in E. destruct E as [s' [Hin Hs]]. apply andb_true_iff in Hs.
    destruct Hs as [Hs _]. apply N.eqb_eq in Hs. apply Hni. rewrite Hs. now apply in_map.
  - now rewrite IH.
Qed.

(* every holder presents its share once, in any order: the secret is returned *)
Theorem additive_correct : forall ps (shares : list (N * F)) s rs,
  NoDup (map fst shares) -> seteqb (map fst shares) ps = true ->
  map snd shares = sum_to_secret K s rs ->
  additive_reconstruct K ps shares = Some s.
Proof.
  intros ps shares s rs Hnd Hq Hv. unfold additive_reconstruct.
  assert (E : nodupN (map fst shares) = map fst shares) by (apply nodup_fixed_point; exact Hnd).
  rewrite E, Nat.eqb_refl. cbn [negb is_qualified]. rewrite Hq. cbn [negb].
  rewrite (dedup_shares_NoDup shares Hnd), Hv. now rewrite sum_to_secret_sums.
Qed.

Lemma upd_fsum : forall (l : list F) j x, (j < length l)%nat ->
  fsum K (upd j x l) = fsum K l - nth j l 0 + x.
Proof.
  induction l as [|a l IH]; intros j x Hj; [cbn in Hj; lia|].
  destruct j; cbn [upd nth].
  - rewrite !fsum_cons. ring.
  - rewrite !fsum_cons, IH by (cbn in Hj; lia). ring.
Qed.

(* all summands but one are consistent with every secret *)
Theorem additive_privacy : forall (l : list F) j s', (j < length l)%nat ->
  exists l', length l' = length l /\ fsum K l' = s' /\ forall i, i <> j -> nth i l' 0 = nth i l 0.
Proof.
  intros l j s' Hj. exists (upd j (nth j l 0 + (s' - fsum K l)) l). split; [|split].
  - apply upd_length.
  - rewrite upd_fsum by auto. ring.
  - intros i Hi. now apply nth_upd_other.
Qed.

(* ---- Shamir --------------------------------------------------------------------------------------- *)

Lemma peval_nth0 : forall cs, peval K cs 0 = nth 0 cs 0.
Proof. intros. rewrite (peval_eq_peval_r K HK). destruct cs as [|c cs]; cbn [peval_r nth]; ring. Qed.

Lemma shamir_deal_in : forall ps cs id, In id ps ->
  In (id, poly_eval K cs (fromN id)) (shamir_deal K fromN ps cs).
Proof.
  intros ps cs id Hin. unfold shamir_deal. apply in_map_iff. exists id. split; auto.
  rewrite in_sortN. now apply in_nodupN.
Qed.

Theorem shamir_correct : forall t ps cs ids,
  (forall a b, In a ps -> In b ps -> fromN a = fromN b -> a = b) ->
  NoDup ids -> incl ids ps -> (t <= length ids)%nat -> length cs = t ->
  shamir_reconstruct K fromN t ps (map (fun id => (id, poly_eval K cs (fromN id))) ids) = Some (nth 0 cs 0).
Proof.
  intros t ps cs ids Hinj Hnd Hincl Ht Hcs. unfold shamir_reconstruct.
  set (shares := map (fun id => (id, poly_eval K cs (fromN id))) ids).
  assert (Hfst : map fst shares = ids).
  { unfold shares. rewrite map_map. cbn [fst]. apply map_id. }
  rewrite (dedup_shares_NoDup shares) by (rewrite Hfst; exact Hnd).
  rewrite Hfst.
  assert (Hq : is_qualified (Thr t ps) ids = true).
  { cbn [is_qualified]. apply andb_true_iff. split.
    - apply Nat.leb_le. unfold card. unfold nodupN. rewrite (nodup_fixed_point N.eq_dec Hnd). exact Ht.
    - apply forallb_forall. intros id Hid. apply memN_In. now apply Hincl. }
  rewrite Hq. cbn [negb].
  assert (Hnodes : map (fun s : N * F => fromN (fst s)) shares = map fromN ids).
  { unfold shares. rewrite map_map. reflexivity. }
  rewrite Hnodes.
  assert (Hndn : NoDup (map fromN ids)).
  { apply NoDup_map_inj_rev; [exact Hnd|]. intros a b Ha Hb. apply Hinj; now apply Hincl. }
  unfold lagrange_basis_at. rewrite (basis_at_NoDup K HK _ 0 Hndn). f_equal.
  change (fold_left _ (combine ?a ?b) 0) with (dot K a b).
  assert (Hvals : map snd shares = map (peval_r K cs) (map fromN ids)).
  { unfold shares. rewrite !map_map. cbn [snd]. apply map_ext. intros id. unfold poly_eval.
    apply (peval_eq_peval_r K HK). }
  rewrite Hvals.
  rewrite (lagrange_dot_exact K HK (map fromN ids) cs 0 Hndn) by (rewrite map_length; lia).
  rewrite <- (peval_eq_peval_r K HK). apply peval_nth0.
Qed.

Theorem shamir_exact : forall t ps (shares : list (N * F)),
  is_qualified (Thr t ps) (map fst (dedup_shares K shares)) = false ->
  shamir_reconstruct K fromN t ps shares = None.
Proof. intros t ps shares H. unfold shamir_reconstruct. now rewrite H. Qed.

(* fewer than t holders: for every secret s' there is a dealer polynomial of the same degree bound
   with constant term s' that gives them the same shares *)
Theorem shamir_privacy : forall t cs ids s',
  (forall a b, In a ids -> In b ids -> fromN a = fromN b -> a = b) ->
  (forall id, In id ids -> fromN id <> 0) ->
  NoDup ids -> (length ids < t)%nat -> length cs = t ->
  exists cs', length cs' = t /\ nth 0 cs' 0 = s' /\
    forall id, In id ids -> poly_eval K cs' (fromN id) = poly_eval K cs (fromN id).
Proof.
  intros t cs ids s' Hinj Hnz Hnd Hlt Hcs.
  set (nodes := map fromN ids).
  assert (Hp0 : fprod_sub K 0 nodes <> 0).
  { intro E. apply (fprod_sub_eq_0_iff K HK) in E. unfold nodes in E. apply in_map_iff in E.
    destruct E as [id [E Hid]]. now apply (Hnz id). }
  set (c := finv K (fprod_sub K 0 nodes)).
  set (w := pscale K c (pprod_lin K nodes) ++ repeat 0 (t - S (length nodes))).
  assert (Hwl : length w = t).
  { unfold w. rewrite app_length, (pscale_length K), (pprod_lin_length K), repeat_length.
    unfold nodes. rewrite map_length. lia. }
  assert (Hw0 : peval_r K w 0 = 1).
  { unfold w. rewrite (peval_r_pad K HK), (peval_r_pscale K HK), (peval_r_pprod_lin K HK).
    unfold c. apply (finv_l K HK). exact Hp0. }
  assert (Hwa : forall id, In id ids -> peval_r K w (fromN id) = 0).
  { intros id Hid. unfold w. rewrite (peval_r_pad K HK), (peval_r_pscale K HK), (peval_r_pprod_lin K HK).
    assert (E : fprod_sub K (fromN id) nodes = 0) by (apply (fprod_sub_eq_0_iff K HK); unfold nodes; now apply in_map).
    rewrite E. ring. }
  exists (padd K cs (pscale K (s' - nth 0 cs 0) w)). split; [|split].
  - rewrite (padd_length K), (pscale_length K). lia.
  - rewrite <- peval_nth0, (peval_eq_peval_r K HK), (peval_r_padd K HK), (peval_r_pscale K HK), Hw0.
    rewrite <- (peval_eq_peval_r K HK), peval_nth0. ring.
  - intros id Hid. unfold poly_eval.
    rewrite !(peval_eq_peval_r K HK), (peval_r_padd K HK), (peval_r_pscale K HK), (Hwa id Hid). ring.
Qed.

End SchemesProofs.

(* ---- ISN ------------------------------------------------------------------------------------------------ *)
Section IsnProofs.
Context {F : Type} (K : fops F) (HK : flaws K).

Add Field Kfield8 : (fl_theory K HK).

Notation "0" := (f0 K).
Infix "+" := (fadd K).
Infix "-" := (fsub K).

(* an unqualified ID list is refused *)
Theorem isn_exact : forall p mus (shares : list (isn_share (F:=F))),
  is_qualified p (map fst shares) = false -> isn_reconstruct K p mus shares = None.
Proof. intros p mus shares H. unfold isn_reconstruct. now rewrite H. Qed.

Lemma combine_seq_upd : forall (l : list F) k x s,
  combine (seq s (length (upd k x l))) (upd k x l) =
  map (fun kv => if Nat.eqb (fst kv) (s + k) then (fst kv, x) else kv) (combine (seq s (length l)) l)
  \/ (length l <= k)%nat.
Proof.
  induction l as [|a l IH]; intros k x s; [right; cbn; lia|].
  destruct k as [|k].
  - left. cbn [upd length seq combine map fst]. rewrite Nat.add_0_r, Nat.eqb_refl. f_equal.
    rewrite <- (map_id (combine (seq (S s) (length l)) l)) at 1. apply map_ext_in.
    intros [i v] Hin. apply in_combine_l in Hin. apply in_seq in Hin. cbn [fst].
    destruct (Nat.eqb i s) eqn:E; [apply Nat.eqb_eq in E; lia|reflexivity].
  - destruct (IH k x (S s)) as [E|E]; [left|right; cbn; lia].
    cbn [upd length seq combine map fst]. rewrite E.
    destruct (Nat.eqb s (s + S k)) eqn:E2; [apply Nat.eqb_eq in E2; lia|]. f_equal.
    apply map_ext. intros [i v]. cbn [fst]. now replace (S s + k)%nat with (s + S k)%nat by lia.
Qed.

(* privacy: holders that all lie in the k-th maximal unqualified set never see summand k, so it can be
   moved to reach any other secret without changing their shares *)
Theorem isn_privacy : forall mus (summands : list F) ids k d,
  length summands = length mus -> (k < length summands)%nat ->
  (forall id, In id ids -> In id (nth k mus [])) ->
  isn_deal mus (upd k (nth k summands 0 + d) summands) ids = isn_deal mus summands ids /\
  fsum K (upd k (nth k summands 0 + d) summands) = fsum K summands + d.
Proof.
  intros mus summands ids k d Hlen Hk Hin. split.
  - unfold isn_deal. apply map_ext_in. intros id Hid. f_equal. rewrite <- Hlen.
    destruct (combine_seq_upd summands k (nth k summands 0 + d) 0) as [E|E]; [|lia].
    rewrite upd_length in E. rewrite E. cbn [plus]. clear E.
    induction (combine (seq 0 (length summands)) summands) as [|[i v] l IH]; [reflexivity|].
    cbn [map filter fst snd]. destruct (Nat.eqb i k) eqn:Ei.
    + apply Nat.eqb_eq in Ei. subst i. cbn [fst].
      assert (Hm : memN id (nth k mus []) = true) by (apply memN_In; auto). rewrite Hm. cbn [negb]. exact IH.
    + cbn [fst]. destruct (negb (memN id (nth i mus []))); [f_equal|]; exact IH.
  - rewrite (upd_fsum K HK) by auto. ring.
Qed.

End IsnProofs.
