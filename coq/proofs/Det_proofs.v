(* Det_proofs.v — the elimination-coded [determinant] of model/LinAlg.v is the Laplace
   (first-column expansion) determinant; multiplicativity on invertible left factors;
   Cramer's rule; Birkhoff interpolation (scalar variant) is correct.
   The determinant theory is developed on entry functions nat -> nat -> F (no list shapes). *)
From Coq Require Import List Arith Bool Lia Field Ring NArith.
Import ListNotations.
Require Import V.base.Fld V.model.LinAlg V.model.Poly V.model.Interp.
Require Import V.proofs.LinAlg_proofs V.proofs.Poly_proofs V.proofs.Interp_proofs V.proofs.Birkhoff_proofs.

Section DetProofs.
Context {F : Type} (K : fops F) (HK : flaws K).
Add Field Kfield_det : (fl_theory K HK).

Local Notation "0" := (f0 K).
Local Notation "1" := (f1 K).
Local Infix "+" := (fadd K).
Local Infix "*" := (fmul K).
Local Infix "-" := (fsub K).
Local Notation "'bsum'" := (bsum K).

(* ---- Laplace expansion along the first column, on entry functions ------------------------ *)

Definition skip (i a : nat) : nat := if Nat.ltb a i then a else S a.
Definition fminor (i : nat) (f : nat -> nat -> F) : nat -> nat -> F := fun a b => f (skip i a) (S b).
Definition sgn (i : nat) : F := if Nat.even i then 1 else fopp K 1.

Fixpoint ldetf (n : nat) (f : nat -> nat -> F) : F :=
  match n with
  | O => 1
  | S m => bsum (S m) (fun i => sgn i * f i O * ldetf m (fminor i f))
  end.

Lemma skip_lt : forall i a m, a < m -> skip i a < S m.
Proof. intros. unfold skip. destruct (Nat.ltb a i); lia. Qed.

Lemma skip_neq : forall i a, skip i a <> i.
Proof.
  intros. unfold skip. destruct (Nat.ltb a i) eqn:E.
  - apply Nat.ltb_lt in E. lia.
  - apply Nat.ltb_ge in E. lia.
Qed.

Lemma ldetf_ext : forall n f g, (forall i j, i < n -> j < n -> f i j = g i j) -> ldetf n f = ldetf n g.
Proof.
  induction n as [|m IH]; intros f g H; [reflexivity|].
  cbn [ldetf]. apply (bsum_ext K). intros i Hi.
  rewrite (H i O) by lia. f_equal. apply IH.
  intros a b Ha Hb. unfold fminor. apply H; [apply skip_lt; auto|lia].
Qed.

Lemma sgn_S : forall i, sgn (S i) = fopp K (sgn i).
Proof.
  intros. unfold sgn. rewrite Nat.even_succ, <- Nat.negb_even.
  destruct (Nat.even i); cbn [negb]; ring.
Qed.

(* replacing one row *)
Definition setrow (r : nat) (u : nat -> F) (f : nat -> nat -> F) : nat -> nat -> F :=
  fun i j => if Nat.eqb i r then u j else f i j.

Definition unskip (i r : nat) : nat := if Nat.ltb r i then r else pred r.

Lemma skip_unskip : forall i r a, i <> r -> (skip i a = r <-> a = unskip i r).
Proof.
  intros i r a H. unfold skip, unskip.
  destruct (Nat.ltb_spec a i); destruct (Nat.ltb_spec r i); lia.
Qed.

Lemma fminor_setrow_same : forall r u f a b, fminor r (setrow r u f) a b = fminor r f a b.
Proof.
  intros. unfold fminor, setrow.
  replace (Nat.eqb (skip r a) r) with false; auto.
  symmetry. apply Nat.eqb_neq. apply skip_neq.
Qed.

Lemma fminor_setrow_other : forall i r u f a b, i <> r ->
  fminor i (setrow r u f) a b = setrow (unskip i r) (fun b => u (S b)) (fminor i f) a b.
Proof.
  intros i r u f a b H. unfold fminor, setrow.
  destruct (Nat.eqb (skip i a) r) eqn:E1.
  - apply Nat.eqb_eq in E1. apply (skip_unskip i r a H) in E1. subst a. now rewrite Nat.eqb_refl.
  - apply Nat.eqb_neq in E1.
    replace (Nat.eqb a (unskip i r)) with false; auto.
    symmetry. apply Nat.eqb_neq. intro E. apply E1. now apply (skip_unskip i r a H).
Qed.

Lemma unskip_lt : forall i r m, i <> r -> r < S m -> i < S m -> unskip i r < m.
Proof.
  intros i r m H Hr Hi. unfold unskip. destruct (Nat.ltb r i) eqn:E.
  - apply Nat.ltb_lt in E. lia.
  - apply Nat.ltb_ge in E. lia.
Qed.

(* multilinearity in each row *)
Lemma ldetf_row_linear : forall n r f u v a b, r < n ->
  ldetf n (setrow r (fun j => a * u j + b * v j) f) =
  a * ldetf n (setrow r u f) + b * ldetf n (setrow r v f).
Proof.
  induction n as [|m IH]; intros r f u v a b Hr; [lia|].
  cbn [ldetf]. rewrite !(bsum_mul_l K HK), <- (bsum_add K HK). apply (bsum_ext K). intros i Hi.
  destruct (Nat.eq_dec i r) as [->|Hne].
  - rewrite (ldetf_ext m (fminor r (setrow r (fun j => a * u j + b * v j) f)) (fminor r f)),
            (ldetf_ext m (fminor r (setrow r u f)) (fminor r f)),
            (ldetf_ext m (fminor r (setrow r v f)) (fminor r f)) by (intros; apply fminor_setrow_same).
    unfold setrow. rewrite Nat.eqb_refl. ring.
  - rewrite (ldetf_ext m (fminor i (setrow r (fun j => a * u j + b * v j) f))
               (setrow (unskip i r) (fun b0 => a * u (S b0) + b * v (S b0)) (fminor i f)))
      by (intros; now rewrite fminor_setrow_other).
    rewrite (ldetf_ext m (fminor i (setrow r u f)) (setrow (unskip i r) (fun b0 => u (S b0)) (fminor i f)))
      by (intros; now rewrite fminor_setrow_other).
    rewrite (ldetf_ext m (fminor i (setrow r v f)) (setrow (unskip i r) (fun b0 => v (S b0)) (fminor i f)))
      by (intros; now rewrite fminor_setrow_other).
    rewrite (IH (unskip i r) (fminor i f) (fun b0 => u (S b0)) (fun b0 => v (S b0)) a b)
      by (apply unskip_lt; auto).
    assert (Hs : forall w, setrow r w f i O = f i O).
    { intros w. unfold setrow. replace (Nat.eqb i r) with false by (symmetry; apply Nat.eqb_neq; auto). reflexivity. }
    rewrite !Hs. ring.
Qed.


Lemma bsum_two : forall n r g, S r < n -> (forall i, i < n -> i <> r -> i <> S r -> g i = 0) ->
  bsum n g = g r + g (S r).
Proof.
  intros n r g Hr Hz.
  rewrite (bsum_ext K n g (fun i => (if Nat.eqb r i then 1 else 0) * g i + (if Nat.eqb (S r) i then 1 else 0) * g i)).
  - rewrite (bsum_add K HK), !(bsum_delta K HK) by lia. reflexivity.
  - intros i Hi. destruct (Nat.eqb_spec r i); destruct (Nat.eqb_spec (S r) i); try lia; try ring.
    rewrite Hz by lia. ring.
Qed.

(* two equal adjacent rows *)
Lemma ldetf_adjacent_equal : forall n r f, S r < n -> (forall j, j < n -> f r j = f (S r) j) -> ldetf n f = 0.
Proof.
  induction n as [|m IH]; intros r f Hr Heq; [lia|].
  cbn [ldetf]. rewrite (bsum_two (S m) r); [ | exact Hr | ].
  - rewrite sgn_S. rewrite (Heq O) by lia.
    rewrite (ldetf_ext m (fminor (S r) f) (fminor r f)); [ring|].
    intros a b Ha Hb. unfold fminor, skip.
    destruct (Nat.ltb_spec a (S r)); destruct (Nat.ltb_spec a r); try lia; auto.
    assert (a = r) by lia. subst a. apply Heq. lia.
  - intros i Hi H1 H2.
    rewrite (IH (unskip i r) (fminor i f)); [ring| |].
    + unfold unskip. destruct (Nat.ltb_spec r i); lia.
    + intros j Hj. unfold fminor, skip, unskip.
      destruct (Nat.ltb_spec r i).
      * destruct (Nat.ltb_spec r i); destruct (Nat.ltb_spec (S r) i); try lia. apply Heq. lia.
      * destruct (Nat.ltb_spec (pred r) i); destruct (Nat.ltb_spec (S (pred r)) i); try lia.
        replace (S (pred r)) with r by lia. apply Heq. lia.
Qed.

Definition frow (f : nat -> nat -> F) (r : nat) : nat -> F := fun j => f r j.

Lemma setrow_same : forall r f i j, setrow r (frow f r) f i j = f i j.
Proof.
  intros. unfold setrow, frow. destruct (Nat.eqb i r) eqn:E; auto. apply Nat.eqb_eq in E. now subst.
Qed.

(* swapping two adjacent rows negates; written with two explicit rows u (at r) and v (at r+1) *)
Lemma ldetf_adjacent_swap : forall n r f u v, S r < n ->
  ldetf n (setrow r u (setrow (S r) v f)) = fopp K (ldetf n (setrow r v (setrow (S r) u f))).
Proof.
  intros n r f u v Hr.
  set (w := fun j => 1 * u j + 1 * v j).
  assert (H0 : ldetf n (setrow r w (setrow (S r) w f)) = 0).
  { apply (ldetf_adjacent_equal n r); auto. intros j Hj. unfold setrow.
    rewrite Nat.eqb_refl. replace (Nat.eqb r (S r)) with false by (symmetry; apply Nat.eqb_neq; lia).
    replace (Nat.eqb (S r) r) with false by (symmetry; apply Nat.eqb_neq; lia).
    rewrite Nat.eqb_refl. reflexivity. }
  assert (Hcomm : forall a b g i j, setrow r a (setrow (S r) b g) i j = setrow (S r) b (setrow r a g) i j).
  { intros. unfold setrow. destruct (Nat.eqb i r) eqn:E1; destruct (Nat.eqb i (S r)) eqn:E2; auto.
    apply Nat.eqb_eq in E1. apply Nat.eqb_eq in E2. lia. }
  unfold w in H0 at 1. rewrite ldetf_row_linear in H0 by lia.
  rewrite (ldetf_ext n (setrow r u (setrow (S r) w f)) (setrow (S r) w (setrow r u f))) in H0 by (intros; apply Hcomm).
  rewrite (ldetf_ext n (setrow r v (setrow (S r) w f)) (setrow (S r) w (setrow r v f))) in H0 by (intros; apply Hcomm).
  unfold w in H0. rewrite !ldetf_row_linear in H0 by lia.
  assert (Huu : ldetf n (setrow (S r) u (setrow r u f)) = 0).
  { apply (ldetf_adjacent_equal n r); auto. intros j Hj. unfold setrow.
    rewrite !Nat.eqb_refl. replace (Nat.eqb r (S r)) with false by (symmetry; apply Nat.eqb_neq; lia). reflexivity. }
  assert (Hvv : ldetf n (setrow (S r) v (setrow r v f)) = 0).
  { apply (ldetf_adjacent_equal n r); auto. intros j Hj. unfold setrow.
    rewrite !Nat.eqb_refl. replace (Nat.eqb r (S r)) with false by (symmetry; apply Nat.eqb_neq; lia). reflexivity. }
  rewrite Huu, Hvv in H0.
  rewrite (ldetf_ext n (setrow r u (setrow (S r) v f)) (setrow (S r) v (setrow r u f))) by (intros; apply Hcomm).
  rewrite (ldetf_ext n (setrow r v (setrow (S r) u f)) (setrow (S r) u (setrow r v f))) by (intros; apply Hcomm).
  set (X := ldetf n (setrow (S r) v (setrow r u f))) in *.
  set (Y := ldetf n (setrow (S r) u (setrow r v f))) in *.
  assert (X = (1 * (1 * 0 + 1 * X) + 1 * (1 * Y + 1 * 0)) - Y) as -> by ring.
  rewrite H0. ring.
Qed.

(* two equal rows anywhere *)
Lemma ldetf_equal_rows : forall d n r f, S (r + d) < n -> (forall j, j < n -> f r j = f (S (r + d)) j) -> ldetf n f = 0.
Proof.
  induction d as [|d IH]; intros n r f Hr Heq.
  - rewrite Nat.add_0_r in *. now apply (ldetf_adjacent_equal n r).
  - (* swap rows r+d+1 and r+d+2, then rows r and r+d+1 are equal *)
    set (s := S (r + d)).
    replace (S (r + S d)) with (S s) in * by (unfold s; lia).
    rewrite (ldetf_ext n f (setrow s (frow f s) (setrow (S s) (frow f (S s)) f))).
    2:{ intros i j _ _. unfold setrow, frow.
        destruct (Nat.eqb i s) eqn:E1; [apply Nat.eqb_eq in E1; now subst|].
        destruct (Nat.eqb i (S s)) eqn:E2; [apply Nat.eqb_eq in E2; now subst|]. reflexivity. }
    rewrite ldetf_adjacent_swap by lia.
    rewrite (IH n r); [ring|unfold s in *; lia|].
    intros j Hj. unfold setrow, frow. fold s.
    replace (Nat.eqb r s) with false by (symmetry; apply Nat.eqb_neq; unfold s; lia).
    replace (Nat.eqb r (S s)) with false by (symmetry; apply Nat.eqb_neq; unfold s; lia).
    rewrite Nat.eqb_refl. apply Heq. auto.
Qed.

Lemma ldetf_equal_rows' : forall n r s f, r <> s -> r < n -> s < n -> (forall j, j < n -> f r j = f s j) -> ldetf n f = 0.
Proof.
  intros n r s f Hne Hr Hs Heq. destruct (Nat.lt_ge_cases r s) as [H|H].
  - apply (ldetf_equal_rows (s - S r) n r); [lia|]. replace (S (r + (s - S r))) with s by lia. auto.
  - apply (ldetf_equal_rows (r - S s) n s); [lia|]. replace (S (s + (r - S s))) with r by lia.
    intros; symmetry; auto.
Qed.

(* adding a multiple of another row *)
Lemma ldetf_add_multiple : forall n r s c f, r <> s -> r < n -> s < n ->
  ldetf n (setrow r (fun j => f r j - c * f s j) f) = ldetf n f.
Proof.
  intros n r s c f Hne Hr Hs.
  rewrite (ldetf_ext n _ (setrow r (fun j => 1 * frow f r j + (fopp K c) * frow f s j) f)).
  2:{ intros i j _ _. unfold setrow, frow. destruct (Nat.eqb i r); auto. ring. }
  rewrite ldetf_row_linear by auto.
  rewrite (ldetf_ext n (setrow r (frow f r) f) f) by (intros; apply setrow_same).
  rewrite (ldetf_equal_rows' n r s (setrow r (frow f s) f)); auto; [ring|].
  intros j Hj. unfold setrow, frow. rewrite Nat.eqb_refl.
  replace (Nat.eqb s r) with false by (symmetry; apply Nat.eqb_neq; lia). reflexivity.
Qed.

(* swapping any two rows negates *)
Lemma ldetf_swap : forall n r s f, r <> s -> r < n -> s < n ->
  ldetf n (fun i j => f (swap_idx r s i) j) = fopp K (ldetf n f).
Proof.
  intros n r s f Hne Hr Hs.
  set (u := frow f r). set (v := frow f s).
  set (w := fun j => 1 * u j + 1 * v j).
  assert (Hcomm : forall a b g i j, setrow r a (setrow s b g) i j = setrow s b (setrow r a g) i j).
  { intros. unfold setrow. destruct (Nat.eqb i r) eqn:E1; destruct (Nat.eqb i s) eqn:E2; auto.
    apply Nat.eqb_eq in E1. apply Nat.eqb_eq in E2. lia. }
  assert (Heq : forall a g, ldetf n (setrow s a (setrow r a g)) = 0).
  { intros a g. apply (ldetf_equal_rows' n r s); auto. intros j Hj. unfold setrow.
    rewrite !Nat.eqb_refl. replace (Nat.eqb r s) with false by (symmetry; apply Nat.eqb_neq; lia). reflexivity. }
  assert (H0 : ldetf n (setrow r w (setrow s w f)) = 0).
  { rewrite (ldetf_ext n _ (setrow s w (setrow r w f))) by (intros; apply Hcomm). apply Heq. }
  unfold w in H0 at 1. rewrite ldetf_row_linear in H0 by lia.
  rewrite (ldetf_ext n (setrow r u (setrow s w f)) (setrow s w (setrow r u f))) in H0 by (intros; apply Hcomm).
  rewrite (ldetf_ext n (setrow r v (setrow s w f)) (setrow s w (setrow r v f))) in H0 by (intros; apply Hcomm).
  unfold w in H0. rewrite !ldetf_row_linear in H0 by lia.
  rewrite !Heq in H0.
  rewrite (ldetf_ext n (fun i j => f (swap_idx r s i) j) (setrow s u (setrow r v f))).
  2:{ intros i j _ _. unfold setrow, swap_idx, u, v, frow.
      destruct (Nat.eqb i r) eqn:E1; destruct (Nat.eqb i s) eqn:E2; auto.
      apply Nat.eqb_eq in E1. apply Nat.eqb_eq in E2. lia. }
  rewrite (ldetf_ext n f (setrow s v (setrow r u f))).
  2:{ intros i j _ _. unfold setrow, u, v, frow.
      destruct (Nat.eqb i s) eqn:E2; [apply Nat.eqb_eq in E2; now subst|].
      destruct (Nat.eqb i r) eqn:E1; [apply Nat.eqb_eq in E1; now subst|]. reflexivity. }
  set (X := ldetf n (setrow s v (setrow r u f))) in *.
  set (Y := ldetf n (setrow s u (setrow r v f))) in *.
  assert (Y = (1 * (1 * 0 + 1 * X) + 1 * (1 * Y + 1 * 0)) - X) as -> by ring.
  rewrite H0. ring.
Qed.

(* scaling a row *)
Lemma ldetf_scale_row : forall n r c f, r < n ->
  ldetf n (fun i j => if Nat.eqb i r then f i j * c else f i j) = ldetf n f * c.
Proof.
  intros n r c f Hr.
  rewrite (ldetf_ext n _ (setrow r (fun j => c * frow f r j + 0 * frow f r j) f)).
  2:{ intros i j _ _. unfold setrow, frow. destruct (Nat.eqb i r) eqn:E; auto.
      apply Nat.eqb_eq in E; subst. ring. }
  rewrite ldetf_row_linear by auto.
  rewrite (ldetf_ext n (setrow r (frow f r) f) f) by (intros; apply setrow_same). ring.
Qed.


(* simultaneous elimination: every row i <> p gets  row_i - c_i * row_p *)
Lemma ldetf_eliminate : forall n p c f, p < n ->
  ldetf n (fun i j => if Nat.eqb i p then f i j else f i j - c i * f p j) = ldetf n f.
Proof.
  intros n p c f Hp.
  set (g := fun t i j => if Nat.eqb i p then f i j else if Nat.ltb i t then f i j - c i * f p j else f i j).
  assert (Hg : forall t, t <= n -> ldetf n (g t) = ldetf n f).
  { induction t as [|t IH]; intros Ht.
    - apply ldetf_ext. intros i j _ _. unfold g. destruct (Nat.eqb i p); auto.
    - rewrite <- IH by lia. destruct (Nat.eq_dec t p) as [->|Hne].
      + apply ldetf_ext. intros i j _ _. unfold g. destruct (Nat.eqb_spec i p); auto.
        destruct (Nat.ltb_spec i (S p)); destruct (Nat.ltb_spec i p); auto; lia.
      + rewrite <- (ldetf_add_multiple n t p (c t) (g t)) by (auto; lia).
        apply ldetf_ext. intros i j _ _. unfold setrow, g.
        destruct (Nat.eqb_spec i t).
        * subst i. rewrite Nat.eqb_refl.
          destruct (Nat.eqb_spec t p); [contradiction|].
          destruct (Nat.ltb_spec t (S t)); [|lia]. destruct (Nat.ltb_spec t t); [lia|]. reflexivity.
        * destruct (Nat.eqb_spec i p); auto.
          destruct (Nat.ltb_spec i (S t)); destruct (Nat.ltb_spec i t); auto; lia. }
  rewrite <- (Hg n) by lia. apply ldetf_ext. intros i j Hi _. unfold g.
  destruct (Nat.eqb i p); auto. destruct (Nat.ltb_spec i n); auto; lia.
Qed.

(* products over indices *)
Fixpoint bprod (n : nat) (g : nat -> F) : F := match n with O => 1 | S m => bprod m g * g m end.

Lemma bprod_ext : forall n g h, (forall i, i < n -> g i = h i) -> bprod n g = bprod n h.
Proof.
  induction n as [|n IH]; intros g h H; cbn [bprod]; auto.
  rewrite (IH g h) by (intros; apply H; lia). rewrite (H n) by lia. reflexivity.
Qed.

Lemma bprod_shift : forall n g, bprod (S n) g = g O * bprod n (fun i => g (S i)).
Proof.
  induction n as [|n IH]; intros g.
  - cbn [bprod]. ring.
  - change (bprod (S (S n)) g) with (bprod (S n) g * g (S n)). rewrite IH. cbn [bprod]. ring.
Qed.

Lemma ldetf_first_col : forall m f, (forall i, 0 < i -> i < S m -> f i O = 0) ->
  ldetf (S m) f = f O O * ldetf m (fminor O f).
Proof.
  intros m f Hz. cbn [ldetf]. rewrite (bsum_shift K HK).
  rewrite (bsum_zero K HK).
  - unfold sgn. cbn [Nat.even]. ring.
  - intros i Hi. rewrite Hz by lia. ring.
Qed.

(* upper triangular: product of the diagonal *)
Lemma ldetf_triangular : forall n f, (forall i j, j < i -> i < n -> f i j = 0) ->
  ldetf n f = bprod n (fun l => f l l).
Proof.
  induction n as [|m IH]; intros f Hz; [reflexivity|].
  rewrite ldetf_first_col by (intros; apply Hz; lia).
  rewrite bprod_shift. f_equal. rewrite IH.
  - apply bprod_ext. intros i Hi. reflexivity.
  - intros i j Hji Hi. unfold fminor, skip. cbn. apply Hz; lia.
Qed.

(* zeros below the diagonal in the first k columns and column k zero from row k on => 0 *)
Lemma ldetf_singular_shape : forall k n f, k < n ->
  (forall i j, j < k -> j < i -> i < n -> f i j = 0) ->
  (forall i, k <= i -> i < n -> f i k = 0) -> ldetf n f = 0.
Proof.
  induction k as [|k IH]; intros n f Hk Hz Hc.
  - destruct n as [|m]; [lia|]. cbn [ldetf]. apply (bsum_zero K HK). intros i Hi.
    rewrite Hc by lia. ring.
  - destruct n as [|m]; [lia|].
    rewrite ldetf_first_col by (intros; apply Hz; lia).
    rewrite (IH m (fminor O f)); [ring|lia| |].
    + intros i j Hj Hji Hi. unfold fminor, skip. cbn. apply Hz; lia.
    + intros i Hki Hi. unfold fminor, skip. cbn. apply Hc; lia.
Qed.

Lemma ldetf_identity : forall n, ldetf n (fun i j => if Nat.eqb i j then 1 else 0) = 1.
Proof.
  intros n. rewrite ldetf_triangular.
  - induction n as [|n IH]; cbn [bprod]; auto. rewrite IH, Nat.eqb_refl. ring.
  - intros i j Hji _. destruct (Nat.eqb_spec i j); auto. lia.
Qed.

(* ---- matrices as lists ------------------------------------------------------------------------------ *)

Definition ldet (n : nat) (M : @matrix F) : F := ldetf n (fun i j => entry K i j M).

Lemma sgn_sq : forall s, (s = 1 \/ s = fopp K 1) -> s * s = 1.
Proof. intros s [->| ->]; ring. Qed.

(* invariant of the determinant loop at step k *)
Record det_inv (n k : nat) (M0 : @matrix F) (st : det_state) : Prop := mk_det_inv {
  di_wf : wf_matrix n n (det_M st);
  di_sign : det_sign st = 1 \/ det_sign st = fopp K 1;
  di_zero : forall i j, j < k -> j < i -> entry K i j (det_M st) = 0;
  di_ldet : ldet n M0 = det_sign st * ldet n (det_M st);
  di_acc : det_acc st = bprod k (fun l => entry K l l (det_M st))
}.

Lemma det_step_inv : forall n k M0 st, det_inv n k M0 st -> k < n ->
  match det_step K k st with
  | None => ldet n M0 = 0
  | Some st' => det_inv n (S k) M0 st'
  end.
Proof.
  intros n k M0 [D sg acc] [Hwf Hsg Hz Hld Hacc] Hk. cbn [det_M det_sign det_acc] in *.
  pose proof Hwf as [HL _].
  unfold det_step. cbn [det_M det_sign det_acc].
  pose proof (find_pivot_row_spec K HK k k D) as Hfp.
  destruct (find_pivot_row K k k D) as [p|].
  - destruct Hfp as (Hp1 & Hp2 & Hp3).
    fold (gj_swapped k p D). set (D1 := gj_swapped k p D).
    assert (HD1 : forall i j, entry K i j D1 = entry K (swap_idx k p i) j D)
      by (intros; apply (entry_gj_swapped K); lia).
    assert (Hwf1 : wf_matrix n n D1).
    { unfold D1, gj_swapped. destruct (Nat.eqb p k); auto. apply wf_swap_rows; auto; lia. }
    assert (Hz1 : forall i j, j < k -> j < i -> entry K i j D1 = 0).
    { intros i j Hj Hji. rewrite HD1. unfold swap_idx.
      destruct (Nat.eqb_spec i k); [apply Hz; lia|]. destruct (Nat.eqb_spec i p); apply Hz; lia. }
    assert (Hld1 : ldet n D1 = (if Nat.eqb p k then 1 else fopp K 1) * ldet n D).
    { unfold ldet. rewrite (ldetf_ext n _ (fun i j => entry K (swap_idx k p i) j D)) by (intros; apply HD1).
      destruct (Nat.eqb_spec p k) as [->|Hne].
      - rewrite (ldetf_ext n _ (fun i j => entry K i j D)); [ring|].
        intros i j _ _. unfold swap_idx. destruct (Nat.eqb_spec i k); subst; auto.
      - rewrite (ldetf_swap n k p (fun i j => entry K i j D)) by lia. ring. }
    set (piv := entry K k k D1).
    assert (Hpiv : piv <> 0).
    { unfold piv. rewrite HD1. unfold swap_idx. rewrite Nat.eqb_refl. exact Hp3. }
    assert (HE : forall i j, i < n -> j < n -> entry K i j (det_elim K k piv D1) =
              if Nat.eqb i k then entry K i j D1
              else entry K i j D1 - (if Nat.ltb k i then fdiv K (entry K i k D1) piv else 0) * entry K k j D1).
    { intros i j Hi Hj. rewrite (entry_det_elim K n n) by auto.
      destruct (Nat.eqb_spec i k) as [->|Hne].
      - rewrite Nat.ltb_irrefl. reflexivity.
      - destruct (Nat.ltb_spec k i); [|ring].
        destruct (Nat.ltb_spec k j); [reflexivity|].
        destruct (Nat.eqb_spec j k) as [->|Hjk].
        + fold piv. rewrite (fdiv_def K HK). field. exact Hpiv.
        + rewrite (Hz1 k j) by lia. ring. }
    constructor; cbn [det_M det_sign det_acc].
    + apply wf_det_elim; auto.
    + destruct (Nat.eqb p k); auto. destruct Hsg as [->| ->]; [right; reflexivity|left; ring].
    + intros i j Hj Hji.
      destruct (Nat.ltb_spec i n).
      2:{ apply (entry_overflow K). unfold det_elim. rewrite mapi_length. destruct Hwf1; lia. }
      rewrite HE by lia.
      destruct (Nat.eqb_spec i k); [apply Hz1; lia|].
      destruct (Nat.ltb_spec k i).
      * destruct (Nat.eq_dec j k) as [->|Hjk].
        -- fold piv. rewrite (fdiv_def K HK). field. exact Hpiv.
        -- rewrite (Hz1 i j), (Hz1 k j) by lia. ring.
      * rewrite (Hz1 i j) by lia. ring.
    + rewrite Hld.
      assert (ldet n (det_elim K k piv D1) = ldet n D1) as ->.
      { unfold ldet.
        rewrite (ldetf_ext n _ (fun i j => if Nat.eqb i k then entry K i j D1
                 else entry K i j D1 - (if Nat.ltb k i then fdiv K (entry K i k D1) piv else 0) * entry K k j D1))
          by (intros; apply HE; auto).
        apply (ldetf_eliminate n k (fun i => if Nat.ltb k i then fdiv K (entry K i k D1) piv else 0)
                 (fun i j => entry K i j D1)). exact Hk. }
      rewrite Hld1. destruct (Nat.eqb p k); ring.
    + cbn [bprod]. rewrite HE by lia. rewrite Nat.eqb_refl. fold piv. f_equal.
      rewrite Hacc. apply bprod_ext. intros l Hl.
      rewrite HE by lia. replace (Nat.eqb l k) with false by (symmetry; apply Nat.eqb_neq; lia).
      replace (Nat.ltb k l) with false by (symmetry; apply Nat.ltb_ge; lia).
      rewrite HD1. rewrite swap_idx_lt by lia. ring.
  - rewrite Hld. unfold ldet.
    rewrite (ldetf_singular_shape k n); [ring|auto| |].
    + intros i j Hj Hji _. apply Hz; auto.
    + intros i Hki _. apply Hfp; auto.
Qed.

Lemma det_loop_inv : forall n todo k M0 st, det_inv n k M0 st -> (k + todo)%nat = n ->
  match det_loop K todo k st with
  | None => ldet n M0 = 0
  | Some st' => det_inv n n M0 st'
  end.
Proof.
  intros n todo; induction todo as [|t IH]; intros k M0 st Hinv Hkn; cbn [det_loop].
  - assert (k = n) by lia. subst k. exact Hinv.
  - pose proof (det_step_inv n k M0 st Hinv ltac:(lia)) as Hs.
    destruct (det_step K k st) as [st'|]; auto. apply (IH (S k)); auto. lia.
Qed.

(* (g) det_value: the coded determinant is the Laplace determinant *)
Theorem det_value : forall n (M : @matrix F), wf_matrix n n M -> determinant K M = ldet n M.
Proof.
  intros n M Hwf. pose proof Hwf as [HL _]. unfold determinant. unfold nrows. rewrite HL.
  assert (Hinit : det_inv n 0 M (mk_det M 1 1)).
  { constructor; cbn [det_M det_sign det_acc bprod].
    - exact Hwf.
    - left; reflexivity.
    - intros; lia.
    - ring.
    - reflexivity. }
  pose proof (det_loop_inv n n 0 M _ Hinit ltac:(lia)) as H.
  destruct (det_loop K n 0 (mk_det M 1 1)) as [st|]; [|now rewrite H].
  destruct H as [Hwf' Hsg Hz Hld Hacc].
  rewrite Hld, Hacc. unfold ldet at 1.
  rewrite (ldetf_triangular n (fun i j => entry K i j (det_M st))) by (intros; apply Hz; lia).
  ring.
Qed.


(* ---- the Laplace determinant under the row operations of the code ------------------------------- *)

Lemma ldet_gj_swapped : forall n k p (a : @matrix F), wf_matrix n n a -> k < n -> p < n ->
  ldet n (gj_swapped k p a) = (if Nat.eqb p k then 1 else fopp K 1) * ldet n a.
Proof.
  intros n k p a [HL _] Hk Hp. unfold ldet.
  rewrite (ldetf_ext n _ (fun i j => entry K (swap_idx k p i) j a))
    by (intros; apply (entry_gj_swapped K); lia).
  destruct (Nat.eqb_spec p k) as [->|Hne].
  - rewrite (ldetf_ext n _ (fun i j => entry K i j a)); [ring|].
    intros i j _ _. unfold swap_idx. destruct (Nat.eqb_spec i k); subst; auto.
  - rewrite (ldetf_swap n k p (fun i j => entry K i j a)) by lia. ring.
Qed.

Lemma ldet_scale_row : forall n k x (a : @matrix F), k < n -> ldet n (scale_row K k x a) = ldet n a * x.
Proof.
  intros n k x a Hk. unfold ldet.
  rewrite (ldetf_ext n _ (fun i j => if Nat.eqb i k then entry K i j a * x else entry K i j a))
    by (intros; apply (entry_scale_row K HK)).
  apply (ldetf_scale_row n k x (fun i j => entry K i j a)). exact Hk.
Qed.

Lemma ldet_eliminate_by : forall n fs k (a : @matrix F), wf_matrix n n a -> k < n ->
  ldet n (eliminate_by K fs k a) = ldet n a.
Proof.
  intros n fs k a Hwf Hk. unfold ldet.
  rewrite (ldetf_ext n _ (fun i j => if Nat.eqb i k then entry K i j a else entry K i j a - nth i fs 0 * entry K k j a))
    by (intros; apply (entry_eliminate_by K HK n n); auto).
  apply (ldetf_eliminate n k (fun i => nth i fs 0) (fun i j => entry K i j a)). exact Hk.
Qed.

(* ---- row operations commute with right multiplication ------------------------------------------------ *)

Lemma mmul_gj_swapped : forall n k p (a B : @matrix F), wf_matrix n n a -> wf_matrix n n B -> 0 < n -> k < n -> p < n ->
  mmul K (gj_swapped k p a) B = gj_swapped k p (mmul K a B).
Proof.
  intros n k p a B Ha HB Hn Hk Hp. pose proof Ha as [HLa _].
  assert (HaB : wf_matrix n n (mmul K a B)) by (apply (wf_mmul K n n n); auto).
  assert (Hsw : forall X : @matrix F, wf_matrix n n X -> wf_matrix n n (gj_swapped k p X)).
  { intros X HX. unfold gj_swapped. destruct (Nat.eqb p k); auto. apply wf_swap_rows; auto. }
  apply (matrix_ext K n n); auto. { apply (wf_mmul K n n n); auto. }
  intros i j Hi Hj.
  assert (Hs : swap_idx k p i < n) by (unfold swap_idx; destruct (Nat.eqb i k); [lia|destruct (Nat.eqb i p); lia]).
  rewrite (entry_gj_swapped K) by (destruct HaB; lia).
  rewrite !(entry_mmul_bsum K HK n n n) by auto.
  apply (bsum_ext K). intros l Hl. rewrite (entry_gj_swapped K) by lia. reflexivity.
Qed.

Lemma mmul_scale_row : forall n k x (a B : @matrix F), wf_matrix n n a -> wf_matrix n n B -> 0 < n ->
  mmul K (scale_row K k x a) B = scale_row K k x (mmul K a B).
Proof.
  intros n k x a B Ha HB Hn.
  assert (HaB : wf_matrix n n (mmul K a B)) by (apply (wf_mmul K n n n); auto).
  apply (matrix_ext K n n); auto using wf_scale_row. { apply (wf_mmul K n n n); auto using wf_scale_row. }
  intros i j Hi Hj. rewrite (entry_scale_row K HK).
  rewrite !(entry_mmul_bsum K HK n n n) by auto using wf_scale_row.
  destruct (Nat.eqb_spec i k).
  - rewrite (bsum_mul_r K HK). apply (bsum_ext K). intros l Hl. rewrite (entry_scale_row K HK).
    destruct (Nat.eqb_spec i k); [ring|contradiction].
  - apply (bsum_ext K). intros l Hl. rewrite (entry_scale_row K HK).
    destruct (Nat.eqb_spec i k); [contradiction|reflexivity].
Qed.

Lemma mmul_eliminate_by : forall n fs k (a B : @matrix F), wf_matrix n n a -> wf_matrix n n B -> 0 < n -> k < n ->
  mmul K (eliminate_by K fs k a) B = eliminate_by K fs k (mmul K a B).
Proof.
  intros n fs k a B Ha HB Hn Hk.
  assert (HaB : wf_matrix n n (mmul K a B)) by (apply (wf_mmul K n n n); auto).
  apply (matrix_ext K n n); auto using wf_eliminate_by. { apply (wf_mmul K n n n); auto using wf_eliminate_by. }
  intros i j Hi Hj. rewrite (entry_eliminate_by K HK n n) by auto.
  rewrite !(entry_mmul_bsum K HK n n n) by auto using wf_eliminate_by.
  destruct (Nat.eqb_spec i k).
  - apply (bsum_ext K). intros l Hl. rewrite (entry_eliminate_by K HK n n) by auto.
    destruct (Nat.eqb_spec i k); [reflexivity|contradiction].
  - rewrite (bsum_mul_l K HK).
    assert (forall X Y : F, X - Y = X + fopp K 1 * Y) as Hsub by (intros; ring).
    rewrite Hsub, (bsum_mul_l K HK), <- (bsum_add K HK).
    apply (bsum_ext K). intros l Hl. rewrite (entry_eliminate_by K HK n n) by auto.
    destruct (Nat.eqb_spec i k); [contradiction|ring].
Qed.

(* one TryInv step with an arbitrary companion matrix out = a·B *)
Lemma inv_step_mul : forall n k a out B, inv_inv K n k a out -> k < n -> 0 < n -> wf_matrix n n B ->
  mmul K a B = out ->
  match inv_step K k (a, out) with
  | None => True
  | Some st' => mmul K (fst st') B = snd st' /\
                exists phi, phi <> 0 /\ ldet n (fst st') = phi * ldet n a /\ ldet n (snd st') = phi * ldet n out
  end.
Proof.
  intros n k a out B [Hwa Hwo Hunit] Hk Hn HB Hmul. pose proof Hwa as [HLa _]. pose proof Hwo as [HLo _].
  unfold inv_step. cbn [fst snd].
  pose proof (find_pivot_row_spec K HK k k a) as Hfp.
  destruct (find_pivot_row K k k a) as [p|]; [|exact I].
  destruct Hfp as (Hp1 & Hp2 & Hp3).
  fold (gj_swapped k p a). fold (gj_swapped k p out). cbn [fst snd].
  set (a1 := gj_swapped k p a). set (o1 := gj_swapped k p out).
  assert (Hwa1 : wf_matrix n n a1).
  { unfold a1, gj_swapped. destruct (Nat.eqb p k); auto. apply wf_swap_rows; auto; lia. }
  assert (Hwo1 : wf_matrix n n o1).
  { unfold o1, gj_swapped. destruct (Nat.eqb p k); auto. apply wf_swap_rows; auto; lia. }
  assert (Hm1 : mmul K a1 B = o1).
  { unfold a1, o1. rewrite (mmul_gj_swapped n) by (auto; lia). now rewrite Hmul. }
  set (e := entry K k k a1).
  assert (He : e <> 0).
  { unfold e, a1. rewrite (entry_gj_swapped K) by lia. unfold swap_idx. rewrite Nat.eqb_refl. exact Hp3. }
  set (x := fdiv K 1 e).
  assert (Hx : x <> 0).
  { unfold x. rewrite (fdiv_def K HK). intro E. apply (finv_neq_0 K HK e He). rewrite <- E. ring. }
  set (a2 := scale_row K k x a1). set (o2 := scale_row K k x o1).
  assert (Hwa2 : wf_matrix n n a2) by (apply wf_scale_row; auto).
  assert (Hwo2 : wf_matrix n n o2) by (apply wf_scale_row; auto).
  assert (Hm2 : mmul K a2 B = o2).
  { unfold a2, o2. rewrite (mmul_scale_row n) by auto. now rewrite Hm1. }
  split.
  - rewrite (mmul_eliminate_by n) by auto. now rewrite Hm2.
  - exists ((if Nat.eqb p k then 1 else fopp K 1) * x). split; [|split].
    + intro E. apply (fmul_eq_0 K HK) in E. destruct E as [E|E]; [|contradiction].
      destruct (Nat.eqb p k); [now apply (f1_neq_0 K HK)|].
      apply (f1_neq_0 K HK). assert (1 = fopp K (fopp K 1)) as -> by ring. rewrite E. ring.
    + rewrite (ldet_eliminate_by n) by auto. unfold a2. rewrite ldet_scale_row by auto.
      unfold a1. rewrite (ldet_gj_swapped n) by (auto; lia). ring.
    + rewrite (ldet_eliminate_by n) by auto. unfold o2. rewrite ldet_scale_row by auto.
      unfold o1. rewrite (ldet_gj_swapped n) by (auto; lia). ring.
Qed.

Lemma inv_loop_mul : forall n todo k a out B, inv_inv K n k a out -> (k + todo)%nat = n -> 0 < n ->
  wf_matrix n n B -> mmul K a B = out ->
  match inv_loop K todo k (a, out) with
  | None => True
  | Some st' => inv_inv K n n (fst st') (snd st') /\ mmul K (fst st') B = snd st' /\
                exists phi, phi <> 0 /\ ldet n (fst st') = phi * ldet n a /\ ldet n (snd st') = phi * ldet n out
  end.
Proof.
  intros n todo; induction todo as [|t IH]; intros k a out B Hinv Hkn Hn HB Hmul; cbn [inv_loop].
  - cbn [fst snd]. assert (k = n) by lia. subst k. split; auto. split; auto.
    exists 1. split; [apply (f1_neq_0 K HK)|split; ring].
  - pose proof (inv_step_spec K HK n k a out Hinv ltac:(lia)) as Hs.
    pose proof (inv_step_mul n k a out B Hinv ltac:(lia) Hn HB Hmul) as Hm.
    destruct (inv_step K k (a, out)) as [[a' out']|]; [|exact I].
    cbn [fst snd] in *. destruct Hs as [Hinv' _]. destruct Hm as (Hmul' & phi1 & Hp1 & Ha1 & Ho1).
    specialize (IH (S k) a' out' B Hinv' ltac:(lia) Hn HB Hmul').
    destruct (inv_loop K t (S k) (a', out')) as [st'|]; [|exact I].
    destruct IH as (Hinv'' & Hmul'' & phi2 & Hp2 & Ha2 & Ho2).
    split; auto. split; auto. exists (phi2 * phi1). split; [|split].
    + intro E. apply (fmul_eq_0 K HK) in E. tauto.
    + rewrite Ha2, Ha1. ring.
    + rewrite Ho2, Ho1. ring.
Qed.

(* success and the left component of the TryInv loop do not depend on the companion matrix *)
Lemma inv_loop_fst_indep : forall todo k a o1 o2,
  match inv_loop K todo k (a, o1), inv_loop K todo k (a, o2) with
  | Some s1, Some s2 => fst s1 = fst s2
  | None, None => True
  | _, _ => False
  end.
Proof.
  induction todo as [|t IH]; intros k a o1 o2; cbn [inv_loop].
  - reflexivity.
  - unfold inv_step. cbn [fst snd]. destruct (find_pivot_row K k k a) as [p|]; [|exact I]. apply IH.
Qed.

(* multiplicativity for an invertible left factor *)
Theorem ldet_mul_invertible : forall n (A B : @matrix F), wf_matrix n n A -> wf_matrix n n B -> 0 < n ->
  try_inv K A <> None -> ldet n (mmul K A B) = ldet n A * ldet n B.
Proof.
  intros n A B HA HB Hn Hinv. pose proof HA as [HLA _].
  assert (HAB : wf_matrix n n (mmul K A B)) by (apply (wf_mmul K n n n); auto).
  assert (Hinit : inv_inv K n 0 A (mmul K A B)).
  { constructor; auto. intros; lia. }
  pose proof (inv_loop_mul n n 0 A (mmul K A B) B Hinit ltac:(lia) Hn HB eq_refl) as H.
  pose proof (inv_loop_fst_indep n 0 A (mmul K A B) (identity K n)) as Hind.
  unfold try_inv in Hinv. unfold nrows in Hinv. rewrite HLA in Hinv.
  destruct (inv_loop K n 0 (A, mmul K A B)) as [[a out]|];
    destruct (inv_loop K n 0 (A, identity K n)) as [s2|]; try contradiction; try congruence.
  cbn [fst snd] in *. clear Hind. destruct H as ([Hwa Hwo Hunit] & Hmul & phi & Hphi & Ha & Ho).
  assert (Hai : a = identity K n).
  { apply (matrix_ext K n n); auto using wf_identity. intros i j Hi Hj.
    rewrite Hunit, (entry_identity K) by auto. reflexivity. }
  subst a. rewrite (mmul_identity_l K HK n n) in Hmul by auto. subst out.
  assert (H1 : ldet n (identity K n) = 1).
  { unfold ldet. rewrite (ldetf_ext n _ (fun i j => if Nat.eqb i j then 1 else 0)).
    - apply ldetf_identity.
    - intros i j Hi Hj. now apply (entry_identity K). }
  rewrite H1 in Ha.
  assert (ldet n (mmul K A B) = (phi * ldet n A) * ldet n (mmul K A B)) as -> by (rewrite <- Ha; ring).
  assert (phi * ldet n A * ldet n (mmul K A B) = ldet n A * (phi * ldet n (mmul K A B))) as -> by ring.
  rewrite <- Ho. reflexivity.
Qed.


(* ---- Cramer's rule for the coded determinant ------------------------------------------------------- *)

Definition mk_matrix (n : nat) (f : nat -> nat -> F) : @matrix F :=
  map (fun i => map (fun j => f i j) (seq 0 n)) (seq 0 n).

Lemma wf_mk_matrix : forall n f, wf_matrix n n (mk_matrix n f).
Proof.
  intros n f. split.
  - unfold mk_matrix. now rewrite map_length, seq_length.
  - apply Forall_forall. intros x Hx. unfold mk_matrix in Hx. apply in_map_iff in Hx.
    destruct Hx as [i [<- _]]. now rewrite map_length, seq_length.
Qed.

Lemma entry_mk_matrix : forall n f i j, i < n -> j < n -> entry K i j (mk_matrix n f) = f i j.
Proof.
  intros n f i j Hi Hj. unfold entry, mk_matrix.
  rewrite (nth_indep _ [] ((fun i => map (fun j => f i j) (seq 0 n)) (nth i (seq 0 n) O)))
    by now rewrite map_length, seq_length.
  rewrite (map_nth (fun i => map (fun j => f i j) (seq 0 n))). rewrite seq_nth by auto. cbn [Nat.add].
  rewrite (nth_indep _ 0 ((fun j => f i j) (nth j (seq 0 n) O))) by now rewrite map_length, seq_length.
  rewrite (map_nth (fun j => f i j)). now rewrite seq_nth.
Qed.

Lemma set_column_spec : forall n c ys (V : @matrix F), wf_matrix n n V -> 0 < n -> c < n -> length ys = n ->
  exists Vc, set_column c ys V = Some Vc /\ wf_matrix n n Vc /\
             forall i j, i < n -> j < n -> entry K i j Vc = if Nat.eqb j c then nth i ys 0 else entry K i j V.
Proof.
  intros n c ys V Hwf Hn Hc Hys. pose proof Hwf as [HL HF].
  unfold set_column. rewrite (ncols_wf n n V Hwf Hn). unfold nrows. rewrite HL, Hys, Nat.eqb_refl.
  replace (Nat.ltb c n) with true by (symmetry; apply Nat.ltb_lt; auto). cbn [andb].
  eexists. split; [reflexivity|].
  assert (Hrow : forall i, i < n -> nth i (map (fun rd => upd c (snd rd) (fst rd)) (combine V ys)) [] =
                                   upd c (nth i ys 0) (nth i V [])).
  { intros i Hi.
    rewrite (nth_indep _ [] ((fun rd : list F * F => upd c (snd rd) (fst rd)) ([], 0)))
      by (rewrite map_length, combine_length; lia).
    rewrite (map_nth (fun rd : list F * F => upd c (snd rd) (fst rd))). rewrite combine_nth by lia. reflexivity. }
  split.
  - split; [rewrite map_length, combine_length; lia|].
    apply Forall_forall. intros x Hx. destruct (In_nth _ _ [] Hx) as [i [Hi Hn']].
    rewrite map_length, combine_length in Hi. rewrite Hrow in Hn' by lia. subst x.
    rewrite upd_length. apply (wf_row_length n n V i Hwf). lia.
  - intros i j Hi Hj. unfold entry at 1. rewrite Hrow by auto. rewrite nth_upd.
    fold (row i V). rewrite (wf_row_length n n V i Hwf Hi).
    replace (Nat.ltb c n) with true by (symmetry; apply Nat.ltb_lt; auto). reflexivity.
Qed.

(* the determinant of the identity with column c replaced by x is x_c *)
Lemma ldetf_identity_col : forall n c (x : nat -> F), c < n ->
  ldetf n (fun l j => if Nat.eqb j c then x l else if Nat.eqb l j then 1 else 0) = x c.
Proof.
  intros n c x Hc.
  set (h := fun i j => if Nat.eqb i c then (if Nat.eqb i j then 1 else 0)
                       else (if Nat.eqb i j then 1 else 0) - fopp K (x i) * (if Nat.eqb c j then 1 else 0)).
  rewrite (ldetf_ext n _ (fun i j => if Nat.eqb i c then h i j * x c else h i j)).
  - rewrite (ldetf_scale_row n c (x c) h Hc). unfold h.
    rewrite (ldetf_eliminate n c (fun i => fopp K (x i)) (fun i j => if Nat.eqb i j then 1 else 0) Hc).
    rewrite ldetf_identity. ring.
  - intros i j Hi Hj. unfold h.
    destruct (Nat.eqb_spec i c) as [->|Hic].
    + rewrite (Nat.eqb_sym j c). destruct (Nat.eqb_spec c j); ring.
    + rewrite (Nat.eqb_sym j c). destruct (Nat.eqb_spec c j) as [<-|Hcj].
      * destruct (Nat.eqb_spec i c); [contradiction|ring].
      * destruct (Nat.eqb_spec i j); ring.
Qed.

Theorem cramer_component : forall n (V N : @matrix F) ys c, wf_matrix n n V -> 0 < n -> length ys = n -> c < n ->
  try_inv K V = Some N ->
  exists Vc, set_column c ys V = Some Vc /\
             determinant K Vc = determinant K V * nth c (mvec K N ys) 0.
Proof.
  intros n V N ys c Hwf Hn Hys Hc Hinv.
  destruct (try_inv_sound K HK n V N Hwf Hn Hinv) as (HwN & HVN & HNV).
  destruct (set_column_spec n c ys V Hwf Hn Hc Hys) as (Vc & Hset & HwVc & HeVc).
  exists Vc. split; auto.
  set (x := mvec K N ys).
  assert (Hxl : length x = n) by (unfold x; rewrite (mvec_length K); destruct HwN; auto).
  assert (HVx : mvec K V x = ys).
  { unfold x. rewrite <- (mvec_mmul K HK n n n) by auto. rewrite HVN. now apply (mvec_identity K HK). }
  set (Xc := mk_matrix n (fun l j => if Nat.eqb j c then nth l x 0 else if Nat.eqb l j then 1 else 0)).
  assert (HwX : wf_matrix n n Xc) by apply wf_mk_matrix.
  assert (HVc : Vc = mmul K V Xc).
  { apply (matrix_ext K n n); auto. { apply (wf_mmul K n n n); auto. }
    intros i j Hi Hj. rewrite HeVc by auto. rewrite (entry_mmul_bsum K HK n n n) by auto.
    destruct (Nat.eqb_spec j c) as [->|Hjc].
    - rewrite <- HVx. rewrite (nth_mvec K), (dot_bsum K HK _ _ n) by (right; lia).
      apply (bsum_ext K). intros l Hl. unfold Xc. rewrite entry_mk_matrix by auto.
      rewrite Nat.eqb_refl. rewrite <- (entry_row K). reflexivity.
    - rewrite (bsum_ext K n _ (fun l => (if Nat.eqb j l then 1 else 0) * entry K i l V)).
      + now rewrite (bsum_delta K HK).
      + intros l Hl. unfold Xc. rewrite entry_mk_matrix by auto.
        replace (Nat.eqb j c) with false by (symmetry; apply Nat.eqb_neq; auto).
        rewrite (Nat.eqb_sym l j). ring. }
  rewrite (det_value n Vc HwVc), (det_value n V Hwf), HVc.
  rewrite (ldet_mul_invertible n V Xc Hwf HwX Hn) by congruence.
  f_equal. unfold ldet, Xc.
  rewrite (ldetf_ext n _ (fun l j => if Nat.eqb j c then nth l x 0 else if Nat.eqb l j then 1 else 0))
    by (intros; apply entry_mk_matrix; auto).
  apply (ldetf_identity_col n c (fun l => nth l x 0) Hc).
Qed.

(* Cramer's rule as the code applies it *)
Theorem cramer_rule : forall n (V : @matrix F) ys, wf_matrix n n V -> 0 < n -> length ys = n ->
  determinant K V <> 0 ->
  exists P, sequence_opt (map (fun c => match set_column c ys V with
                                        | None => None
                                        | Some Vc => Some (fdiv K (determinant K Vc) (determinant K V))
                                        end) (seq 0 n)) = Some P /\
            length P = n /\ mvec K V P = ys.
Proof.
  intros n V ys Hwf Hn Hys Hdet.
  destruct (try_inv K V) as [N|] eqn:Hinv.
  2:{ exfalso. apply Hdet. now apply (det_zero_iff K HK n V Hwf Hn). }
  destruct (try_inv_sound K HK n V N Hwf Hn Hinv) as (HwN & HVN & HNV).
  set (x := mvec K N ys).
  assert (Hxl : length x = n) by (unfold x; rewrite (mvec_length K); destruct HwN; auto).
  exists x. split; [|split; auto].
  - rewrite <- (sequence_opt_map_Some x). f_equal.
    apply (nth_ext_eq _ _ None); [now rewrite !map_length, seq_length|].
    intros c Hc. rewrite map_length, seq_length in Hc.
    rewrite (nth_indep _ None ((fun c => match set_column c ys V with
                                        | None => None
                                        | Some Vc => Some (fdiv K (determinant K Vc) (determinant K V))
                                        end) (nth c (seq 0 n) O))) by now rewrite map_length, seq_length.
    rewrite (map_nth (fun c => match set_column c ys V with
                                        | None => None
                                        | Some Vc => Some (fdiv K (determinant K Vc) (determinant K V))
                                        end)).
    rewrite seq_nth by auto. cbn [Nat.add].
    destruct (cramer_component n V N ys c Hwf Hn Hys Hc Hinv) as (Vc & Hset & Hd).
    rewrite Hset, Hd. fold x.
    rewrite (nth_indep _ None (Some 0)) by (rewrite map_length; lia).
    rewrite (map_nth (@Some F)). f_equal. rewrite (fdiv_def K HK). field. exact Hdet.
  - unfold x. rewrite <- (mvec_mmul K HK n n n) by auto. rewrite HVN. now apply (mvec_identity K HK).
Qed.


(* ---- Birkhoff interpolation (scalar variant) ------------------------------------------------------------ *)

Section BirkhoffInterp.
Variable fkey : F -> Z.

Lemma insert_node_length : forall {Y} (a : F * N * Y) l, length (insert_node fkey a l) = S (length l).
Proof.
  intros Y a l; induction l as [|b t IH]; cbn [insert_node length]; auto.
  destruct (node_lt fkey b a); cbn [length]; auto.
Qed.

Lemma sort_nodes_length : forall {Y} (l : list (F * N * Y)), length (sort_nodes fkey l) = length l.
Proof.
  intros Y l; induction l as [|a t IH]; cbn [sort_nodes fold_right length]; auto.
  fold (sort_nodes fkey t). now rewrite insert_node_length, IH.
Qed.

Lemma insert_node_In : forall {Y} (a x : F * N * Y) l, In x (insert_node fkey a l) <-> x = a \/ In x l.
Proof.
  intros Y a x l; induction l as [|b t IH]; cbn [insert_node In].
  - intuition.
  - destruct (node_lt fkey b a); cbn [In]; rewrite ?IH; intuition.
Qed.

Lemma sort_nodes_In : forall {Y} (x : F * N * Y) l, In x (sort_nodes fkey l) <-> In x l.
Proof.
  intros Y x l; induction l as [|a t IH]; cbn [sort_nodes fold_right In]; [tauto|].
  fold (sort_nodes fkey t). rewrite insert_node_In, IH. intuition.
Qed.

Lemma wf_build_birkhoff : forall xs js n, length xs = length js -> wf_matrix (length xs) n (build_birkhoff K xs js n).
Proof.
  intros xs js n H. unfold build_birkhoff. split.
  - rewrite map_length, combine_length. lia.
  - apply Forall_forall. intros x Hx. apply in_map_iff in Hx. destruct Hx as [xj [<- _]].
    now rewrite map_length, seq_length.
Qed.

(* (g) birkhoff_interp: whenever Interpolate returns a polynomial, every constraint
   P^(j)(x) = y of the input holds (coded Derivative iterated j times, coded Eval) *)
Theorem birkhoff_interp : forall xs js ys P,
  birkhoff_interpolate K fkey xs js ys = Ok P ->
  length P = length xs /\
  forall x j y, In (x, j, y) (combine (combine xs js) ys) ->
    peval K (pderiv_iter K (N.to_nat j) P) x = y.
Proof.
  intros xs js ys P H. unfold birkhoff_interpolate in H.
  destruct (Nat.eqb (length xs) (length js) && Nat.eqb (length xs) (length ys)) eqn:Hlen; cbn [negb] in H; [|discriminate].
  apply andb_true_iff in Hlen. destruct Hlen as [Hl1 Hl2]. apply Nat.eqb_eq in Hl1, Hl2.
  destruct xs as [|x0 xs']; [discriminate|]. set (xs := x0 :: xs') in *.
  set (nodes := sort_nodes fkey (combine (combine xs js) ys)) in *.
  set (xs1 := map (fun n : F * N * F => fst (fst n)) nodes) in *.
  set (js1 := map (fun n : F * N * F => snd (fst n)) nodes) in *.
  set (ys1 := map (@snd (F * N) F) nodes) in *.
  assert (Hnl : length nodes = length xs).
  { unfold nodes. rewrite sort_nodes_length, !combine_length. lia. }
  assert (Hx1 : length xs1 = length xs) by (unfold xs1; now rewrite map_length).
  assert (Hj1 : length js1 = length xs) by (unfold js1; now rewrite map_length).
  assert (Hy1 : length ys1 = length xs) by (unfold ys1; now rewrite map_length).
  set (n := length xs1) in *.
  set (V := build_birkhoff K xs1 js1 n) in *.
  assert (HwV : wf_matrix n n V) by (apply wf_build_birkhoff; lia).
  assert (Hn : 0 < n) by (rewrite Hx1; unfold xs; cbn [length]; lia).
  destruct (fis0 K (determinant K V)) eqn:Hd; [discriminate|].
  apply (fis0_false K HK) in Hd.
  destruct (cramer_rule n V ys1 HwV Hn ltac:(lia) Hd) as (P' & Hseq & HPl & HVP).
  rewrite Hseq in H. inversion H; subst P'; clear H.
  split; [lia|].
  intros x j y Hin.
  apply (proj2 (sort_nodes_In _ _)) in Hin. fold nodes in Hin.
  destruct (In_nth _ _ (0, 0%N, 0) Hin) as [i [Hi Hnth]].
  assert (HVP' : mvec K (build_birkhoff K xs1 js1 (length P)) P = ys1) by (rewrite HPl; exact HVP).
  pose proof (proj1 (birkhoff_system_iff_constraints K HK xs1 js1 ys1 P ltac:(lia) ltac:(lia)) HVP' i ltac:(fold n; lia)) as HC.
  clear HVP'. rename HC into HVP'.
  assert (Hxi : nth i xs1 0 = x).
  { unfold xs1. rewrite (nth_indep _ 0 ((fun n : F * N * F => fst (fst n)) (0, 0%N, 0))) by (rewrite map_length; lia).
    rewrite (map_nth (fun n : F * N * F => fst (fst n))). now rewrite Hnth. }
  assert (Hji : nth i js1 0%N = j).
  { unfold js1. rewrite (nth_indep _ 0%N ((fun n : F * N * F => snd (fst n)) (0, 0%N, 0))) by (rewrite map_length; lia).
    rewrite (map_nth (fun n : F * N * F => snd (fst n))). now rewrite Hnth. }
  assert (Hyi : nth i ys1 0 = y).
  { unfold ys1. rewrite (nth_indep _ 0 ((@snd (F * N) F) (0, 0%N, 0))) by (rewrite map_length; lia).
    rewrite (map_nth (@snd (F * N) F)). now rewrite Hnth. }
  rewrite Hxi, Hji, Hyi in HVP'. exact HVP'.
Qed.

(* an error other than the length/empty refusals is returned exactly when the Birkhoff matrix
   of the sorted nodes is singular *)
Theorem birkhoff_total : forall xs js ys, xs <> [] -> length xs = length js -> length xs = length ys ->
  let nodes := sort_nodes fkey (combine (combine xs js) ys) in
  let V := build_birkhoff K (map (fun n : F * N * F => fst (fst n)) nodes)
                            (map (fun n : F * N * F => snd (fst n)) nodes) (length xs) in
  (determinant K V = 0 -> birkhoff_interpolate K fkey xs js ys = Err ErrSingular) /\
  (determinant K V <> 0 -> exists P, birkhoff_interpolate K fkey xs js ys = Ok P).
Proof.
  intros xs js ys Hne Hl1 Hl2 nodes V. unfold birkhoff_interpolate.
  rewrite <- Hl1, <- Hl2, Nat.eqb_refl. cbn [andb negb].
  destruct xs as [|x0 xs']; [contradiction|]. set (xs := x0 :: xs') in *.
  fold nodes.
  assert (Hnl : length nodes = length xs).
  { unfold nodes. rewrite sort_nodes_length, !combine_length. lia. }
  rewrite !map_length, Hnl. fold V.
  set (xs1 := map (fun n : F * N * F => fst (fst n)) nodes) in *.
  set (js1 := map (fun n : F * N * F => snd (fst n)) nodes) in *.
  set (ys1 := map (@snd (F * N) F) nodes).
  assert (HwV : wf_matrix (length xs) (length xs) V).
  { unfold V. replace (length xs) with (length xs1) at 1 by (unfold xs1; now rewrite map_length).
    apply wf_build_birkhoff. unfold xs1, js1. now rewrite !map_length. }
  split; intros Hd.
  - replace (fis0 K (determinant K V)) with true by (symmetry; now apply (fis0_true K HK)). reflexivity.
  - replace (fis0 K (determinant K V)) with false by (symmetry; now apply (fis0_false K HK)).
    destruct (cramer_rule (length xs) V ys1 HwV ltac:(unfold xs; cbn [length]; lia)
                ltac:(unfold ys1; now rewrite map_length) Hd) as (P & Hseq & _ & _).
    exists P. fold ys1. rewrite Hseq. reflexivity.
Qed.

End BirkhoffInterp.

End DetProofs.
