(* Sigma_proofs.v — lemmas about model/Sigma.v: Maurer's protocol over arbitrary abelian
   groups with an integer action and a homomorphism (completeness, special soundness of
   the coded extractor, the coded simulator), AND and OR composition. *)
From Coq Require Import List ZArith NArith Bool Lia Arith PeanoNat.
From Coq Require Import ZifyN ZifyNat ZifyBool.
Import ListNotations.
Require Import V.base.Bytes V.model.Sigma.
Local Open Scope Z_scope.

(* ---------- extended Euclid: the Bezout identity of the coefficients ---------- *)

Lemma egcd_fuel_bezout n : forall a b g s t,
  egcd_fuel n a b = (g, s, t) -> s * a + t * b = g.
Proof.
  induction n as [|n IH]; intros a b g s t H; cbn [egcd_fuel] in H.
  - injection H as <- <- <-. ring.
  - destruct (b =? 0) eqn:Hb.
    + injection H as <- <- <-. ring.
    + destruct (egcd_fuel n b (a mod b)) as [[g' s'] t'] eqn:E.
      injection H as <- <- <-.
      apply IH in E. apply Z.eqb_neq in Hb.
      rewrite (Z.mod_eq a b Hb) in E. rewrite <- E. ring.
Qed.

Lemma egcd_bezout a b g s t : egcd a b = (g, s, t) -> s * a + t * b = g.
Proof.
  unfold egcd.
  destruct (egcd_fuel _ a b) as [[g' s'] t'] eqn:E. apply egcd_fuel_bezout in E.
  destruct (g' <? 0); intros H; injection H as <- <- <-; lia.
Qed.

(* ---------- abelian groups with an integer action ---------- *)

Section AbGroup.
  Variable G : Type.
  Variable add : G -> G -> G.
  Variable neg : G -> G.
  Variable zero : G.
  Variable smul : Z -> G -> G.
  Hypothesis add_assoc : forall a b c, add a (add b c) = add (add a b) c.
  Hypothesis add_comm : forall a b, add a b = add b a.
  Hypothesis add_0_l : forall a, add zero a = a.
  Hypothesis add_neg_l : forall a, add (neg a) a = zero.
  Hypothesis smul_add : forall m n a, smul (m + n) a = add (smul m a) (smul n a).
  Hypothesis smul_mul : forall m n a, smul (m * n) a = smul m (smul n a).
  Hypothesis smul_1 : forall a, smul 1 a = a.
  Hypothesis smul_distr : forall n a b, smul n (add a b) = add (smul n a) (smul n b).

  Lemma add_0_r a : add a zero = a.
  Proof. rewrite add_comm. apply add_0_l. Qed.

  Lemma add_neg_r a : add a (neg a) = zero.
  Proof. rewrite add_comm. apply add_neg_l. Qed.

  Lemma add_cancel_l a b c : add a b = add a c -> b = c.
  Proof.
    intros H. apply (f_equal (add (neg a))) in H.
    rewrite !add_assoc, add_neg_l, !add_0_l in H. exact H.
  Qed.

  Lemma add_cancel_r a b c : add b a = add c a -> b = c.
  Proof. rewrite (add_comm b a), (add_comm c a). apply add_cancel_l. Qed.

  Lemma neg_unique a b : add a b = zero -> b = neg a.
  Proof. intros H. apply (add_cancel_l a). rewrite H, add_neg_r. reflexivity. Qed.

  Lemma neg_neg a : neg (neg a) = a.
  Proof. symmetry. apply neg_unique. apply add_neg_l. Qed.

  Lemma smul_0_r n : smul n zero = zero.
  Proof.
    apply (add_cancel_l (smul n zero)). rewrite <- smul_distr, add_0_l, add_0_r. reflexivity.
  Qed.

  Lemma smul_0_l a : smul 0 a = zero.
  Proof.
    apply (add_cancel_l (smul 0 a)). rewrite <- smul_add, add_0_r. reflexivity.
  Qed.

  Lemma smul_neg_l n a : smul (- n) a = neg (smul n a).
  Proof.
    apply neg_unique. rewrite <- smul_add. replace (n + - n) with 0 by lia. apply smul_0_l.
  Qed.

  Lemma smul_neg_r n a : smul n (neg a) = neg (smul n a).
  Proof.
    apply neg_unique. rewrite <- smul_distr, add_neg_r. apply smul_0_r.
  Qed.

  (* a + (-b + c) + b = a + c  style facts are done by hand where needed *)
  Lemma sub_add a b : add (add (neg b) a) b = a.
  Proof. rewrite (add_comm (neg b) a), <- add_assoc, add_neg_l. apply add_0_r. Qed.
End AbGroup.

(* ---------- Maurer's protocol ---------- *)

Section MaurerProofs.
  Variables W X : Type.
  Variable wadd : W -> W -> W.
  Variable wneg : W -> W.
  Variable wzero : W.
  Variable wsmul : Z -> W -> W.
  Variable xadd : X -> X -> X.
  Variable xneg : X -> X.
  Variable xzero : X.
  Variable xsmul : Z -> X -> X.
  Variable xeqb : X -> X -> bool.
  Variable phi : W -> X.

  (* the pre-image group is an abelian group with an integer action *)
  Hypothesis wadd_assoc : forall a b c, wadd a (wadd b c) = wadd (wadd a b) c.
  Hypothesis wadd_comm : forall a b, wadd a b = wadd b a.
  Hypothesis wadd_0_l : forall a, wadd wzero a = a.
  Hypothesis wadd_neg_l : forall a, wadd (wneg a) a = wzero.
  Hypothesis wsmul_add : forall m n a, wsmul (m + n) a = wadd (wsmul m a) (wsmul n a).
  Hypothesis wsmul_distr : forall n a b, wsmul n (wadd a b) = wadd (wsmul n a) (wsmul n b).
  (* so is the image group *)
  Hypothesis xadd_assoc : forall a b c, xadd a (xadd b c) = xadd (xadd a b) c.
  Hypothesis xadd_comm : forall a b, xadd a b = xadd b a.
  Hypothesis xadd_0_l : forall a, xadd xzero a = a.
  Hypothesis xadd_neg_l : forall a, xadd (xneg a) a = xzero.
  Hypothesis xsmul_add : forall m n a, xsmul (m + n) a = xadd (xsmul m a) (xsmul n a).
  Hypothesis xsmul_mul : forall m n a, xsmul (m * n) a = xsmul m (xsmul n a).
  Hypothesis xsmul_1 : forall a, xsmul 1 a = a.
  Hypothesis xsmul_distr : forall n a b, xsmul n (xadd a b) = xadd (xsmul n a) (xsmul n b).
  (* phi is a homomorphism compatible with the action *)
  Hypothesis phi_add : forall a b, phi (wadd a b) = xadd (phi a) (phi b).
  Hypothesis phi_smul : forall n a, phi (wsmul n a) = xsmul n (phi a).
  (* Equal decides equality of image-group elements *)
  Hypothesis xeqb_eq : forall a b, xeqb a b = true <-> a = b.

  Let verify := maurer_verify W X xadd xsmul xeqb phi.

  Let X0r := add_0_r X xadd xzero xadd_comm xadd_0_l.
  Let Xcl := add_cancel_l X xadd xneg xzero xadd_assoc xadd_0_l xadd_neg_l.
  Let Xcr := add_cancel_r X xadd xneg xzero xadd_assoc xadd_comm xadd_0_l xadd_neg_l.
  Let Xnu := neg_unique X xadd xneg xzero xadd_assoc xadd_comm xadd_0_l xadd_neg_l.
  Let Xs0r := smul_0_r X xadd xneg xzero xsmul xadd_assoc xadd_comm xadd_0_l xadd_neg_l xsmul_distr.
  Let Xsnl := smul_neg_l X xadd xneg xzero xsmul xadd_assoc xadd_comm xadd_0_l xadd_neg_l xsmul_add xsmul_mul xsmul_1 xsmul_distr.
  Let Xsnr := smul_neg_r X xadd xneg xzero xsmul xadd_assoc xadd_comm xadd_0_l xadd_neg_l xsmul_distr.
  Let Wnr := add_neg_r W wadd wneg wzero wadd_comm wadd_neg_l.
  Let Wsa := sub_add W wadd wneg wzero wadd_assoc wadd_comm wadd_0_l wadd_neg_l.

  Lemma verify_iff x a e z : verify x a e z = true <-> phi z = xadd a (xsmul (chal_int e) x).
  Proof. unfold verify, maurer_verify. apply xeqb_eq. Qed.

  (* completeness: an honest transcript for a valid statement verifies, for every nonce
     and every challenge *)
  Theorem maurer_complete : forall (w k : W) (e : bytes),
    verify (phi w) (maurer_commit W X phi k) e (maurer_respond W wadd wsmul k w e) = true.
  Proof.
    intros w k e. apply verify_iff. unfold maurer_commit, maurer_respond.
    rewrite phi_add, phi_smul. reflexivity.
  Qed.

  (* the coded simulator produces accepting transcripts for every statement (no witness),
     challenge and random response *)
  Theorem maurer_simulator_verifies : forall (x : X) (e : bytes) (z : W),
    verify x (fst (maurer_simulate W X xadd xneg xsmul phi x e z)) e
           (snd (maurer_simulate W X xadd xneg xsmul phi x e z)) = true.
  Proof.
    intros x e z. apply verify_iff. unfold maurer_simulate. cbn [fst snd].
    rewrite <- xadd_assoc, <- xsmul_distr, xadd_neg_l.
    rewrite Xs0r, X0r. reflexivity.
  Qed.

  Lemma phi_zero : phi wzero = xzero.
  Proof.
    apply (Xcl (phi wzero)).
    rewrite <- phi_add, wadd_0_l, X0r. reflexivity.
  Qed.

  Lemma phi_neg a : phi (wneg a) = xneg (phi a).
  Proof.
    apply Xnu.
    rewrite <- phi_add, Wnr. apply phi_zero.
  Qed.

  (* preImageScalarMulI: under phi, the signed multiplication is the integer action *)
  Lemma phi_wsmulI b e : phi (wsmulI W wneg wsmul b e) = xsmul e (phi b).
  Proof.
    unfold wsmulI. destruct (e <? 0) eqn:He; [|apply phi_smul].
    rewrite phi_smul, phi_neg.
    rewrite Xsnr, <- Xsnl.
    f_equal. lia.
  Qed.

  (* difference of two accepting responses with the same first message *)
  Lemma phi_diff x a e1 z1 e2 z2 :
    verify x a e1 z1 = true -> verify x a e2 z2 = true ->
    phi (wadd (wneg z2) z1) = xsmul (chal_int e1 - chal_int e2) x.
  Proof.
    intros H1 H2. apply verify_iff in H1. apply verify_iff in H2.
    (* phi D + phi z2 = phi z1 *)
    assert (HD : xadd (phi (wadd (wneg z2) z1)) (phi z2) = phi z1).
    { rewrite <- phi_add. f_equal.
      apply Wsa. }
    rewrite H1, H2 in HD.
    replace (chal_int e1) with ((chal_int e1 - chal_int e2) + chal_int e2) in HD by lia.
    rewrite xsmul_add in HD.
    (* phi D + (a + e2 x) = a + (d x + e2 x) *)
    set (D := phi (wadd (wneg z2) z1)) in *.
    set (d := chal_int e1 - chal_int e2) in *.
    assert (HD' : xadd (xadd D a) (xsmul (chal_int e2) x) = xadd (xadd (xsmul d x) a) (xsmul (chal_int e2) x)).
    { rewrite <- !xadd_assoc. rewrite HD.
      rewrite (xadd_comm (xsmul d x) (xadd a _)). rewrite <- xadd_assoc.
      f_equal. apply xadd_comm. }
    apply Xcr in HD'. apply Xcr in HD'. exact HD'.
  Qed.

  (* special soundness of the coded extractor: whatever it returns is a pre-image of the
     statement.  The anchor provides u with phi(u) = l*x; the code needs gcd(l, e1-e2) = 1
     (it tests g = 1 on the result of the extended Euclid). *)
  Theorem maurer_special_sound : forall (anchor_pre : X -> W) (ell : Z) (x a : X)
      (e1 : bytes) (z1 : W) (e2 : bytes) (z2 : W) (w : W),
    phi (anchor_pre x) = xsmul ell x ->
    maurer_extract W X wadd wneg wsmul xadd xsmul xeqb phi anchor_pre ell x a e1 z1 e2 z2 = Some w ->
    phi w = x.
  Proof.
    intros anchor_pre ell x a e1 z1 e2 z2 w Hanchor H.
    unfold maurer_extract in H. fold verify in H.
    destruct (verify x a e1 z1) eqn:V1; cbn [negb] in H; [|discriminate].
    destruct (verify x a e2 z2) eqn:V2; cbn [negb] in H; [|discriminate].
    destruct (egcd ell (chal_int e1 - chal_int e2)) as [[g alpha] beta] eqn:E.
    destruct (g =? 1) eqn:Hg; cbn [negb] in H; [|discriminate].
    injection H as <-. apply Z.eqb_eq in Hg. subst g. apply egcd_bezout in E.
    rewrite phi_add, !phi_wsmulI, Hanchor, (phi_diff x a e1 z1 e2 z2 V1 V2).
    rewrite <- !xsmul_mul, <- xsmul_add, E. apply xsmul_1.
  Qed.

  (* and the extractor does answer on two accepting transcripts whenever the extended
     Euclid reports gcd 1 *)
  Theorem maurer_extract_defined : forall (anchor_pre : X -> W) (ell : Z) (x a : X)
      (e1 : bytes) (z1 : W) (e2 : bytes) (z2 : W) alpha beta,
    verify x a e1 z1 = true -> verify x a e2 z2 = true ->
    egcd ell (chal_int e1 - chal_int e2) = (1, alpha, beta) ->
    exists w, maurer_extract W X wadd wneg wsmul xadd xsmul xeqb phi anchor_pre ell x a e1 z1 e2 z2 = Some w.
  Proof.
    intros anchor_pre ell x a e1 z1 e2 z2 alpha beta V1 V2 E.
    unfold maurer_extract. fold verify. rewrite V1, V2, E. cbn. eexists. reflexivity.
  Qed.

  (* a valid statement has exactly the image of its witness *)
  Lemma maurer_valid_iff x w : maurer_valid W X xeqb phi x w = true <-> phi w = x.
  Proof. unfold maurer_valid. apply xeqb_eq. Qed.

  (* with the same (a, z) the verifier accepts for at most one value of e*x: changing the
     statement changes the verdict unless e*x coincides *)
  Lemma verify_statement_unique x x' a e z :
    verify x a e z = true -> verify x' a e z = true -> xsmul (chal_int e) x = xsmul (chal_int e) x'.
  Proof.
    intros H1 H2. apply verify_iff in H1. apply verify_iff in H2. rewrite H1 in H2.
    apply Xcl in H2. exact H2.
  Qed.

  (* changing the commitment alone, or — phi injective — the response alone, rejects *)
  Lemma verify_commitment_unique x a a' e z :
    verify x a e z = true -> verify x a' e z = true -> a = a'.
  Proof.
    intros H1 H2. apply verify_iff in H1. apply verify_iff in H2. rewrite H1 in H2.
    apply Xcr in H2. exact H2.
  Qed.

  Lemma verify_response_unique x a e z z' :
    (forall u v, phi u = phi v -> u = v) ->
    verify x a e z = true -> verify x a e z' = true -> z = z'.
  Proof.
    intros Hinj H1 H2. apply verify_iff in H1. apply verify_iff in H2. apply Hinj. congruence.
  Qed.
End MaurerProofs.

(* ---------- the hypotheses, bundled (used by props/C08.v) ---------- *)

(* an abelian group with an action of the integers *)
Definition ab_action {G : Type} (add : G -> G -> G) (neg : G -> G) (zero : G) (smul : Z -> G -> G) : Prop :=
  (forall a b c, add a (add b c) = add (add a b) c) /\
  (forall a b, add a b = add b a) /\
  (forall a, add zero a = a) /\
  (forall a, add (neg a) a = zero) /\
  (forall m n a, smul (m + n) a = add (smul m a) (smul n a)) /\
  (forall m n a, smul (m * n) a = smul m (smul n a)) /\
  (forall a, smul 1 a = a) /\
  (forall n a b, smul n (add a b) = add (smul n a) (smul n b)).

(* a homomorphism compatible with the actions *)
Definition is_hom {W X : Type} (wadd : W -> W -> W) (wsmul : Z -> W -> W)
           (xadd : X -> X -> X) (xsmul : Z -> X -> X) (phi : W -> X) : Prop :=
  (forall a b, phi (wadd a b) = xadd (phi a) (phi b)) /\
  (forall n a, phi (wsmul n a) = xsmul n (phi a)).

Definition decides_eq {X : Type} (eqb : X -> X -> bool) : Prop := forall a b, eqb a b = true <-> a = b.

Section Bundled.
  Variables W X : Type.
  Variable wadd : W -> W -> W.
  Variable wneg : W -> W.
  Variable wzero : W.
  Variable wsmul : Z -> W -> W.
  Variable xadd : X -> X -> X.
  Variable xneg : X -> X.
  Variable xzero : X.
  Variable xsmul : Z -> X -> X.
  Variable xeqb : X -> X -> bool.
  Variable phi : W -> X.
  Hypothesis HW : ab_action wadd wneg wzero wsmul.
  Hypothesis HX : ab_action xadd xneg xzero xsmul.
  Hypothesis Hphi : is_hom wadd wsmul xadd xsmul phi.
  Hypothesis Heq : decides_eq xeqb.

  Ltac laws :=
    destruct HW as (wa & wc & w0 & wn & wsa & wsm & ws1 & wsd);
    destruct HX as (xa & xc & x0 & xn & xsa & xsm & xs1 & xsd);
    destruct Hphi as (pa & ps).

  Theorem maurer_complete_b : forall (w k : W) (e : bytes),
    maurer_verify W X xadd xsmul xeqb phi (phi w) (maurer_commit W X phi k) e
                  (maurer_respond W wadd wsmul k w e) = true.
  Proof. laws. eapply maurer_complete; eassumption. Qed.

  Theorem maurer_simulator_verifies_b : forall (x : X) (e : bytes) (z : W),
    maurer_verify W X xadd xsmul xeqb phi x
      (fst (maurer_simulate W X xadd xneg xsmul phi x e z)) e
      (snd (maurer_simulate W X xadd xneg xsmul phi x e z)) = true.
  Proof. laws. eapply maurer_simulator_verifies; eassumption. Qed.

  Theorem maurer_special_sound_b : forall (anchor_pre : X -> W) (ell : Z) (x a : X)
      (e1 : bytes) (z1 : W) (e2 : bytes) (z2 : W) (w : W),
    phi (anchor_pre x) = xsmul ell x ->
    maurer_extract W X wadd wneg wsmul xadd xsmul xeqb phi anchor_pre ell x a e1 z1 e2 z2 = Some w ->
    phi w = x.
  Proof. laws. eapply maurer_special_sound; eassumption. Qed.

  Theorem maurer_extract_defined_b : forall (anchor_pre : X -> W) (ell : Z) (x a : X)
      (e1 : bytes) (z1 : W) (e2 : bytes) (z2 : W) alpha beta,
    maurer_verify W X xadd xsmul xeqb phi x a e1 z1 = true ->
    maurer_verify W X xadd xsmul xeqb phi x a e2 z2 = true ->
    egcd ell (chal_int e1 - chal_int e2) = (1, alpha, beta) ->
    exists w, maurer_extract W X wadd wneg wsmul xadd xsmul xeqb phi anchor_pre ell x a e1 z1 e2 z2 = Some w
              /\ (phi (anchor_pre x) = xsmul ell x -> phi w = x).
  Proof.
    intros anchor_pre ell x a e1 z1 e2 z2 alpha beta V1 V2 E.
    destruct (maurer_extract_defined W X wadd wneg wsmul xadd xsmul xeqb phi anchor_pre ell x a e1 z1 e2 z2 alpha beta V1 V2 E) as [w Hw].
    exists w. split; [exact Hw|]. intros Ha. eapply maurer_special_sound_b; eassumption.
  Qed.

  Theorem maurer_response_unique_b : forall x a e z z',
    (forall u v, phi u = phi v -> u = v) ->
    maurer_verify W X xadd xsmul xeqb phi x a e z = true ->
    maurer_verify W X xadd xsmul xeqb phi x a e z' = true -> z = z'.
  Proof. intros x a e z z' Hinj. eapply verify_response_unique; eassumption. Qed.

  Theorem maurer_commitment_unique_b : forall x a a' e z,
    maurer_verify W X xadd xsmul xeqb phi x a e z = true ->
    maurer_verify W X xadd xsmul xeqb phi x a' e z = true -> a = a'.
  Proof. laws. eapply verify_commitment_unique; eassumption. Qed.

  Theorem maurer_statement_unique_b : forall x x' a e z,
    maurer_verify W X xadd xsmul xeqb phi x a e z = true ->
    maurer_verify W X xadd xsmul xeqb phi x' a e z = true ->
    xsmul (chal_int e) x = xsmul (chal_int e) x'.
  Proof. laws. eapply verify_statement_unique; eassumption. Qed.
End Bundled.

(* ---------- a concrete instance of the hypotheses: the integers, phi(w) = n*w ----------
   (the additive analogue of the Paillier n-th-power homomorphism: the anchor is u = x,
   l = n, since phi(x) = n*x) *)

Lemma Z_ab_action : ab_action Z.add Z.opp 0 Z.mul.
Proof. unfold ab_action. repeat split; intros; ring. Qed.

Lemma Zmul_is_hom n : is_hom Z.add Z.mul Z.add Z.mul (Z.mul n).
Proof. unfold is_hom. split; intros; ring. Qed.

Lemma Zeqb_decides : decides_eq Z.eqb.
Proof. intros a b. apply Z.eqb_eq. Qed.
