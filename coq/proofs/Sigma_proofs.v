(* Sigma_proofs.v — lemmas about model/Sigma.v: Maurer's protocol over arbitrary abelian
   groups with an integer action and a homomorphism (completeness, special soundness of
   the coded extractor, the coded simulator), AND and OR composition. *)
From Coq Require Import List ZArith NArith Bool Lia Arith PeanoNat.
From Coq Require Import ZifyN ZifyNat ZifyBool.
Import ListNotations.
Require Import V.base.Bytes V.model.Sigma.
Local Open Scope Z_scope.

(* ---------- extended Euclid: the Bezout identity of the coefficients ---------- *)

Lemma egcd_fuel_bezout n : forall a b g s t,
  egcd_fuel n a b = (g, s, t) -> s * a + t * b = g.
Proof.
  induction n as [|n IH]; intros a b g s t H; cbn [egcd_fuel] in H.
  - injection H as <- <- <-. ring.
  - destruct (b =? 0) eqn:Hb.
    + injection H as <- <- <-. ring.
    + destruct (egcd_fuel n b (a mod b)) as [[g' s'] t'] eqn:E.
      injection H as <- <- <-.
      apply IH in E. apply Z.eqb_neq in Hb.
      rewrite (Z.mod_eq a b Hb) in E. rewrite <- E. ring.
Qed.

Lemma egcd_bezout a b g s t : egcd a b = (g, s, t) -> s * a + t * b = g.
Proof.
  unfold egcd.
  destruct (egcd_fuel _ a b) as [[g' s'] t'] eqn:E. apply egcd_fuel_bezout in E.
  destruct (g' <? 0); intros H; injection H as <- <- <-; lia.
Qed.

(* ---------- abelian groups with an integer action ---------- *)

Section AbGroup.
  Variable G : Type.
  Variable add : G -> G -> G.
  Variable neg : G -> G.
  Variable zero : G.
  Variable smul : Z -> G -> G.
  Hypothesis add_assoc : forall a b c, add a (add b c) = add (add a b) c.
  Hypothesis add_comm : forall a b, add a b = add b a.
  Hypothesis add_0_l : forall a, add zero a = a.
  Hypothesis add_neg_l : forall a, add (neg a) a = zero.
  Hypothesis smul_add : forall m n a, smul (m + n) a = add (smul m a) (smul n a).
  Hypothesis smul_mul : forall m n a, smul (m * n) a = smul m (smul n a).
  Hypothesis smul_1 : forall a, smul 1 a = a.
  Hypothesis smul_distr : forall n a b, smul n (add a b) = add (smul n a) (smul n b).

  Lemma add_0_r a : add a zero = a.
  Proof. rewrite add_comm. apply add_0_l. Qed.

  Lemma add_neg_r a : add a (neg a) = zero.
  Proof. rewrite add_comm. apply add_neg_l. Qed.

  Lemma add_cancel_l a b c : add a b = add a c -> b = c.
  Proof.
    intros H. apply (f_equal (add (neg a))) in H.
    rewrite !add_assoc, add_neg_l, !add_0_l in H. exact H.
  Qed.

  Lemma add_cancel_r a b c : add b a = add c a -> b = c.
  Proof. rewrite (add_comm b a), (add_comm c a). apply add_cancel_l. Qed.

  Lemma neg_unique a b : add a b = zero -> b = neg a.
  Proof. intros H. apply (add_cancel_l a). rewrite H, add_neg_r. reflexivity. Qed.

  Lemma neg_neg a : neg (neg a) = a.
  Proof. symmetry. apply neg_unique. apply add_neg_l. Qed.

  Lemma smul_0_r n : smul n zero = zero.
  Proof.
    apply (add_cancel_l (smul n zero)). rewrite <- smul_distr, add_0_l, add_0_r. reflexivity.
  Qed.

  Lemma smul_0_l a : smul 0 a = zero.
  Proof.
    apply (add_cancel_l (smul 0 a)). rewrite <- smul_add, add_0_r. reflexivity.
  Qed.

  Lemma smul_neg_l n a : smul (- n) a = neg (smul n a).
  Proof.
    apply neg_unique. rewrite <- smul_add. replace (n + - n) with 0 by lia. apply smul_0_l.
  Qed.

  Lemma smul_neg_r n a : smul n (neg a) = neg (smul n a).
  Proof.
    apply neg_unique. rewrite <- smul_distr, add_neg_r. apply smul_0_r.
  Qed.

  (* a + (-b + c) + b = a + c  style facts are done by hand where needed *)
  Lemma sub_add a b : add (add (neg b) a) b = a.
  Proof. rewrite (add_comm (neg b) a), <- add_assoc, add_neg_l. apply add_0_r. Qed.
End AbGroup.

(* ---------- Maurer's protocol ---------- *)

Section MaurerProofs.
  Variables W X : Type.
  Variable wadd : W -> W -> W.
  Variable wneg : W -> W.
  Variable wzero : W.
  Variable wsmul : Z -> W -> W.
  Variable xadd : X -> X -> X.
  Variable xneg : X -> X.
  Variable xzero : X.
  Variable xsmul : Z -> X -> X.
  Variable xeqb : X -> X -> bool.
  Variable phi : W -> X.

  (* the pre-image group is an abelian group with an integer action *)
  Hypothesis wadd_assoc : forall a b c, wadd a (wadd b c) = wadd (wadd a b) c.
  Hypothesis wadd_comm : forall a b, wadd a b = wadd b a.
  Hypothesis wadd_0_l : forall a, wadd wzero a = a.
  Hypothesis wadd_neg_l : forall a, wadd (wneg a) a = wzero.
  Hypothesis wsmul_add : forall m n a, wsmul (m + n) a = wadd (wsmul m a) (wsmul n a).
  Hypothesis wsmul_distr : forall n a b, wsmul n (wadd a b) = wadd (wsmul n a) (wsmul n b).
  (* so is the image group *)
  Hypothesis xadd_assoc : forall a b c, xadd a (xadd b c) = xadd (xadd a b) c.
  Hypothesis xadd_comm : forall a b, xadd a b = xadd b a.
  Hypothesis xadd_0_l : forall a, xadd xzero a = a.
  Hypothesis xadd_neg_l : forall a, xadd (xneg a) a = xzero.
  Hypothesis xsmul_add : forall m n a, xsmul (m + n) a = xadd (xsmul m a) (xsmul n a).
  Hypothesis xsmul_mul : forall m n a, xsmul (m * n) a = xsmul m (xsmul n a).
  Hypothesis xsmul_1 : forall a, xsmul 1 a = a.
  Hypothesis xsmul_distr : forall n a b, xsmul n (xadd a b) = xadd (xsmul n a) (xsmul n b).
  (* phi is a homomorphism compatible with the action *)
  Hypothesis phi_add : forall a b, phi (wadd a b) = xadd (phi a) (phi b).
  Hypothesis phi_smul : forall n a, phi (wsmul n a) = xsmul n (phi a).
  (* Equal decides equality of image-group elements *)
  Hypothesis xeqb_eq : forall a b, xeqb a b = true <-> a = b.

  Let verify := maurer_verify W X xadd xsmul xeqb phi.

  Let X0r := add_0_r X xadd xzero xadd_comm xadd_0_l.
  Let Xcl := add_cancel_l X xadd xneg xzero xadd_assoc xadd_0_l xadd_neg_l.
  Let Xcr := add_cancel_r X xadd xneg xzero xadd_assoc xadd_comm xadd_0_l xadd_neg_l.
  Let Xnu := neg_unique X xadd xneg xzero xadd_assoc xadd_comm xadd_0_l xadd_neg_l.
  Let Xs0r := smul_0_r X xadd xneg xzero xsmul xadd_assoc xadd_comm xadd_0_l xadd_neg_l xsmul_distr.
  Let Xsnl := smul_neg_l X xadd xneg xzero xsmul xadd_assoc xadd_comm xadd_0_l xadd_neg_l xsmul_add xsmul_mul xsmul_1 xsmul_distr.
  Let Xsnr := smul_neg_r X xadd xneg xzero xsmul xadd_assoc xadd_comm xadd_0_l xadd_neg_l xsmul_distr.
  Let Wnr := add_neg_r W wadd wneg wzero wadd_comm wadd_neg_l.
  Let Wsa := sub_add W wadd wneg wzero wadd_assoc wadd_comm wadd_0_l wadd_neg_l.

  Lemma verify_iff x a e z : verify x a e z = true <-> phi z = xadd a (xsmul (chal_int e) x).
  Proof. unfold verify, maurer_verify. apply xeqb_eq. Qed.

  (* completeness: an honest transcript for a valid statement verifies, for every nonce
     and every challenge *)
  Theorem maurer_complete : forall (w k : W) (e : bytes),
    verify (phi w) (maurer_commit W X phi k) e (maurer_respond W wadd wsmul k w e) = true.
  Proof.
    intros w k e. apply verify_iff. unfold maurer_commit, maurer_respond.
    rewrite phi_add, phi_smul. reflexivity.
  Qed.

  (* the coded simulator produces accepting transcripts for every statement (no witness),
     challenge and random response *)
  Theorem maurer_simulator_verifies : forall (x : X) (e : bytes) (z : W),
    verify x (fst (maurer_simulate W X xadd xneg xsmul phi x e z)) e
           (snd (maurer_simulate W X xadd xneg xsmul phi x e z)) = true.
  Proof.
    intros x e z. apply verify_iff. unfold maurer_simulate. cbn [fst snd].
    rewrite <- xadd_assoc, <- xsmul_distr, xadd_neg_l.
    rewrite Xs0r, X0r. reflexivity.
  Qed.

  Lemma phi_zero : phi wzero = xzero.
  Proof.
    apply (Xcl (phi wzero)).
    rewrite <- phi_add, wadd_0_l, X0r. reflexivity.
  Qed.

  Lemma phi_neg a : phi (wneg a) = xneg (phi a).
  Proof.
    apply Xnu.
    rewrite <- phi_add, Wnr. apply phi_zero.
  Qed.

  (* preImageScalarMulI: under phi, the signed multiplication is the integer action *)
  Lemma phi_wsmulI b e : phi (wsmulI W wneg wsmul b e) = xsmul e (phi b).
  Proof.
    unfold wsmulI. destruct (e <? 0) eqn:He; [|apply phi_smul].
    rewrite phi_smul, phi_neg.
    rewrite Xsnr, <- Xsnl.
    f_equal. lia.
  Qed.

  (* difference of two accepting responses with the same first message *)
  Lemma phi_diff x a e1 z1 e2 z2 :
    verify x a e1 z1 = true -> verify x a e2 z2 = true ->
    phi (wadd (wneg z2) z1) = xsmul (chal_int e1 - chal_int e2) x.
  Proof.
    intros H1 H2. apply verify_iff in H1. apply verify_iff in H2.
    (* phi D + phi z2 = phi z1 *)
    assert (HD : xadd (phi (wadd (wneg z2) z1)) (phi z2) = phi z1).
    { rewrite <- phi_add. f_equal.
      apply Wsa. }
    rewrite H1, H2 in HD.
    replace (chal_int e1) with ((chal_int e1 - chal_int e2) + chal_int e2) in HD by lia.
    rewrite xsmul_add in HD.
    (* phi D + (a + e2 x) = a + (d x + e2 x) *)
    set (D := phi (wadd (wneg z2) z1)) in *.
    set (d := chal_int e1 - chal_int e2) in *.
    assert (HD' : xadd (xadd D a) (xsmul (chal_int e2) x) = xadd (xadd (xsmul d x) a) (xsmul (chal_int e2) x)).
    { rewrite <- !xadd_assoc. rewrite HD.
      rewrite (xadd_comm (xsmul d x) (xadd a _)). rewrite <- xadd_assoc.
      f_equal. apply xadd_comm. }
    apply Xcr in HD'. apply Xcr in HD'. exact HD'.
  Qed.

  (* special soundness of the coded extractor: whatever it returns is a pre-image of the
     statement.  The anchor provides u with phi(u) = l*x; the code needs gcd(l, e1-e2) = 1
     (it tests g = 1 on the result of the extended Euclid). *)
  Theorem maurer_special_sound : forall (anchor_pre : X -> W) (ell : Z) (x a : X)
      (e1 : bytes) (z1 : W) (e2 : bytes) (z2 : W) (w : W),
    phi (anchor_pre x) = xsmul ell x ->
    maurer_extract W X wadd wneg wsmul xadd xsmul xeqb phi anchor_pre ell x a e1 z1 e2 z2 = Some w ->
    phi w = x.
  Proof.
    intros anchor_pre ell x a e1 z1 e2 z2 w Hanchor H.
    unfold maurer_extract in H. fold verify in H.
    destruct (verify x a e1 z1) eqn:V1; cbn [negb] in H; [|discriminate].
    destruct (verify x a e2 z2) eqn:V2; cbn [negb] in H; [|discriminate].
    destruct (egcd ell (chal_int e1 - chal_int e2)) as [[g alpha] beta] eqn:E.
    destruct (g =? 1) eqn:Hg; cbn [negb] in H; [|discriminate].
    injection H as <-. apply Z.eqb_eq in Hg. subst g. apply egcd_bezout in E.
    rewrite phi_add, !phi_wsmulI, Hanchor, (phi_diff x a e1 z1 e2 z2 V1 V2).
    rewrite <- !xsmul_mul, <- xsmul_add, E. apply xsmul_1.
  Qed.

  (* and the extractor does answer on two accepting transcripts whenever the extended
     Euclid reports gcd 1 *)
  Theorem maurer_extract_defined : forall (anchor_pre : X -> W) (ell : Z) (x a : X)
      (e1 : bytes) (z1 : W) (e2 : bytes) (z2 : W) alpha beta,
    verify x a e1 z1 = true -> verify x a e2 z2 = true ->
    egcd ell (chal_int e1 - chal_int e2) = (1, alpha, beta) ->
    exists w, maurer_extract W X wadd wneg wsmul xadd xsmul xeqb phi anchor_pre ell x a e1 z1 e2 z2 = Some w.
  Proof.
    intros anchor_pre ell x a e1 z1 e2 z2 alpha beta V1 V2 E.
    unfold maurer_extract. fold verify. rewrite V1, V2, E. cbn. eexists. reflexivity.
  Qed.

  (* a valid statement has exactly the image of its witness *)
  Lemma maurer_valid_iff x w : maurer_valid W X xeqb phi x w = true <-> phi w = x.
  Proof. unfold maurer_valid. apply xeqb_eq. Qed.

  (* with the same (a, z) the verifier accepts for at most one value of e*x: changing the
     statement changes the verdict unless e*x coincides *)
  Lemma verify_statement_unique x x' a e z :
    verify x a e z = true -> verify x' a e z = true -> xsmul (chal_int e) x = xsmul (chal_int e) x'.
  Proof.
    intros H1 H2. apply verify_iff in H1. apply verify_iff in H2. rewrite H1 in H2.
    apply Xcl in H2. exact H2.
  Qed.

  (* changing the commitment alone, or — phi injective — the response alone, rejects *)
  Lemma verify_commitment_unique x a a' e z :
    verify x a e z = true -> verify x a' e z = true -> a = a'.
  Proof.
    intros H1 H2. apply verify_iff in H1. apply verify_iff in H2. rewrite H1 in H2.
    apply Xcr in H2. exact H2.
  Qed.

  Lemma verify_response_unique x a e z z' :
    (forall u v, phi u = phi v -> u = v) ->
    verify x a e z = true -> verify x a e z' = true -> z = z'.
  Proof.
    intros Hinj H1 H2. apply verify_iff in H1. apply verify_iff in H2. apply Hinj. congruence.
  Qed.
End MaurerProofs.

(* ---------- the hypotheses, bundled (used by props/C08.v) ---------- *)

(* an abelian group with an action of the integers *)
Definition ab_action {G : Type} (add : G -> G -> G) (neg : G -> G) (zero : G) (smul : Z -> G -> G) : Prop :=
  (forall a b c, add a (add b c) = add (add a b) c) /\
  (forall a b, add a b = add b a) /\
  (forall a, add zero a = a) /\
  (forall a, add (neg a) a = zero) /\
  (forall m n a, smul (m + n) a = add (smul m a) (smul n a)) /\
  (forall m n a, smul (m * n) a = smul m (smul n a)) /\
  (forall a, smul 1 a = a) /\
  (forall n a b, smul n (add a b) = add (smul n a) (smul n b)).

(* a homomorphism compatible with the actions *)
Definition is_hom {W X : Type} (wadd : W -> W -> W) (wsmul : Z -> W -> W)
           (xadd : X -> X -> X) (xsmul : Z -> X -> X) (phi : W -> X) : Prop :=
  (forall a b, phi (wadd a b) = xadd (phi a) (phi b)) /\
  (forall n a, phi (wsmul n a) = xsmul n (phi a)).

Definition decides_eq {X : Type} (eqb : X -> X -> bool) : Prop := forall a b, eqb a b = true <-> a = b.

Section Bundled.
  Variables W X : Type.
  Variable wadd : W -> W -> W.
  Variable wneg : W -> W.
  Variable wzero : W.
  Variable wsmul : Z -> W -> W.
  Variable xadd : X -> X -> X.
  Variable xneg : X -> X.
  Variable xzero : X.
  Variable xsmul : Z -> X -> X.
  Variable xeqb : X -> X -> bool.
  Variable phi : W -> X.
  Hypothesis HW : ab_action wadd wneg wzero wsmul.
  Hypothesis HX : ab_action xadd xneg xzero xsmul.
  Hypothesis Hphi : is_hom wadd wsmul xadd xsmul phi.
  Hypothesis Heq : decides_eq xeqb.

  Ltac laws :=
    destruct HW as (wa & wc & w0 & wn & wsa & wsm & ws1 & wsd);
    destruct HX as (xa & xc & x0 & xn & xsa & xsm & xs1 & xsd);
    destruct Hphi as (pa & ps).

  Theorem maurer_complete_b : forall (w k : W) (e : bytes),
    maurer_verify W X xadd xsmul xeqb phi (phi w) (maurer_commit W X phi k) e
                  (maurer_respond W wadd wsmul k w e) = true.
  Proof. laws. eapply maurer_complete; eassumption. Qed.

  Theorem maurer_simulator_verifies_b : forall (x : X) (e : bytes) (z : W),
    maurer_verify W X xadd xsmul xeqb phi x
      (fst (maurer_simulate W X xadd xneg xsmul phi x e z)) e
      (snd (maurer_simulate W X xadd xneg xsmul phi x e z)) = true.
  Proof. laws. eapply maurer_simulator_verifies; eassumption. Qed.

  Theorem maurer_special_sound_b : forall (anchor_pre : X -> W) (ell : Z) (x a : X)
      (e1 : bytes) (z1 : W) (e2 : bytes) (z2 : W) (w : W),
    phi (anchor_pre x) = xsmul ell x ->
    maurer_extract W X wadd wneg wsmul xadd xsmul xeqb phi anchor_pre ell x a e1 z1 e2 z2 = Some w ->
    phi w = x.
  Proof. laws. eapply maurer_special_sound; eassumption. Qed.

  Theorem maurer_extract_defined_b : forall (anchor_pre : X -> W) (ell : Z) (x a : X)
      (e1 : bytes) (z1 : W) (e2 : bytes) (z2 : W) alpha beta,
    maurer_verify W X xadd xsmul xeqb phi x a e1 z1 = true ->
    maurer_verify W X xadd xsmul xeqb phi x a e2 z2 = true ->
    egcd ell (chal_int e1 - chal_int e2) = (1, alpha, beta) ->
    exists w, maurer_extract W X wadd wneg wsmul xadd xsmul xeqb phi anchor_pre ell x a e1 z1 e2 z2 = Some w
              /\ (phi (anchor_pre x) = xsmul ell x -> phi w = x).
  Proof.
    intros anchor_pre ell x a e1 z1 e2 z2 alpha beta V1 V2 E.
    destruct (maurer_extract_defined W X wadd wneg wsmul xadd xsmul xeqb phi anchor_pre ell x a e1 z1 e2 z2 alpha beta V1 V2 E) as [w Hw].
    exists w. split; [exact Hw|]. intros Ha. eapply maurer_special_sound_b; eassumption.
  Qed.

  Theorem maurer_response_unique_b : forall x a e z z',
    (forall u v, phi u = phi v -> u = v) ->
    maurer_verify W X xadd xsmul xeqb phi x a e z = true ->
    maurer_verify W X xadd xsmul xeqb phi x a e z' = true -> z = z'.
  Proof. intros x a e z z' Hinj. eapply verify_response_unique; eassumption. Qed.

  Theorem maurer_commitment_unique_b : forall x a a' e z,
    maurer_verify W X xadd xsmul xeqb phi x a e z = true ->
    maurer_verify W X xadd xsmul xeqb phi x a' e z = true -> a = a'.
  Proof. laws. eapply verify_commitment_unique; eassumption. Qed.

  Theorem maurer_statement_unique_b : forall x x' a e z,
    maurer_verify W X xadd xsmul xeqb phi x a e z = true ->
    maurer_verify W X xadd xsmul xeqb phi x' a e z = true ->
    xsmul (chal_int e) x = xsmul (chal_int e) x'.
  Proof. laws. eapply verify_statement_unique; eassumption. Qed.
End Bundled.

(* ---------- a concrete instance of the hypotheses: the integers, phi(w) = n*w ----------
   (the additive analogue of the Paillier n-th-power homomorphism: the anchor is u = x,
   l = n, since phi(x) = n*x) *)

Lemma Z_ab_action : ab_action Z.add Z.opp 0 Z.mul.
Proof. unfold ab_action. repeat split; intros; ring. Qed.

Lemma Zmul_is_hom n : is_hom Z.add Z.mul Z.add Z.mul (Z.mul n).
Proof. unfold is_hom. split; intros; ring. Qed.

Lemma Zeqb_decides : decides_eq Z.eqb.
Proof. intros a b. apply Z.eqb_eq. Qed.

(* ====================================================================== *)
(* composition                                                              *)

(* completeness, simulator correctness and special soundness of an abstract sigma
   protocol, for challenges of the protocol's length *)
Definition sp_complete (P : sproto) (rel : sp_X P -> sp_W P -> Prop) : Prop :=
  forall x w r e, rel x w -> length e = sp_len P ->
    sp_verify P x (fst (sp_commit P x w r)) e
      (sp_respond P x w (fst (sp_commit P x w r)) (snd (sp_commit P x w r)) e) = true.

Definition sp_sim_ok (P : sproto) : Prop :=
  forall x e r, length e = sp_len P ->
    sp_verify P x (fst (sp_sim P x e r)) e (snd (sp_sim P x e r)) = true.

(* [good e1 e2]: the condition on the two challenges the extractor needs (different; for
   Maurer: difference coprime to the anchor's l) *)
Definition sp_special_sound (P : sproto) (rel : sp_X P -> sp_W P -> Prop) (good : bytes -> bytes -> Prop)
           (ext : sp_X P -> sp_A P -> bytes -> sp_Z P -> bytes -> sp_Z P -> sp_W P) : Prop :=
  forall x a e1 z1 e2 z2, good e1 e2 ->
    sp_verify P x a e1 z1 = true -> sp_verify P x a e2 z2 = true -> rel x (ext x a e1 z1 e2 z2).

(* ---------- AND (cartesian.go) ---------- *)

Section And2.
  Variables P0 P1 : sproto.
  Variable rel0 : sp_X P0 -> sp_W P0 -> Prop.
  Variable rel1 : sp_X P1 -> sp_W P1 -> Prop.

  Definition and_rel (x : sp_X (and2 P0 P1)) (w : sp_W (and2 P0 P1)) : Prop :=
    rel0 (fst x) (fst w) /\ rel1 (snd x) (snd w).

  Lemma firstn_len_max0 (e : bytes) : length e = Nat.max (sp_len P0) (sp_len P1) ->
    length (firstn (sp_len P0) e) = sp_len P0.
  Proof. intros H. rewrite firstn_length. lia. Qed.

  Lemma firstn_len_max1 (e : bytes) : length e = Nat.max (sp_len P0) (sp_len P1) ->
    length (firstn (sp_len P1) e) = sp_len P1.
  Proof. intros H. rewrite firstn_length. lia. Qed.

  Theorem and_complete : sp_complete P0 rel0 -> sp_complete P1 rel1 -> sp_complete (and2 P0 P1) and_rel.
  Proof.
    intros C0 C1 [x0 x1] [w0 w1] [r0 r1] e [R0 R1] He. cbn in He, R0, R1.
    specialize (C0 x0 w0 r0 (firstn (sp_len P0) e) R0 (firstn_len_max0 e He)).
    specialize (C1 x1 w1 r1 (firstn (sp_len P1) e) R1 (firstn_len_max1 e He)).
    cbn [and2 sp_verify sp_commit sp_respond fst snd].
    destruct (sp_commit P0 x0 w0 r0) as [a0 s0]. destruct (sp_commit P1 x1 w1 r1) as [a1 s1].
    cbn [fst snd] in *. rewrite C0, C1. reflexivity.
  Qed.

  Theorem and_sim_ok : sp_sim_ok P0 -> sp_sim_ok P1 -> sp_sim_ok (and2 P0 P1).
  Proof.
    intros S0 S1 [x0 x1] e [r0 r1] He. cbn in He.
    specialize (S0 x0 (firstn (sp_len P0) e) r0 (firstn_len_max0 e He)).
    specialize (S1 x1 (firstn (sp_len P1) e) r1 (firstn_len_max1 e He)).
    cbn [and2 sp_verify sp_sim fst snd].
    destruct (sp_sim P0 x0 _ r0) as [a0 z0]. destruct (sp_sim P1 x1 _ r1) as [a1 z1].
    cbn [fst snd] in *. rewrite S0, S1. reflexivity.
  Qed.

  (* the composed verifier accepts exactly when both branches accept, each under its
     prefix of the challenge *)
  Theorem and_verify_iff : forall (x : sp_X (and2 P0 P1)) (a : sp_A (and2 P0 P1)) e (z : sp_Z (and2 P0 P1)),
    sp_verify (and2 P0 P1) x a e z = true <->
    sp_verify P0 (fst x) (fst a) (firstn (sp_len P0) e) (fst z) = true /\
    sp_verify P1 (snd x) (snd a) (firstn (sp_len P1) e) (snd z) = true.
  Proof. intros x a e z. cbn [and2 sp_verify]. apply andb_true_iff. Qed.

  (* soundness: two accepting composed transcripts with the same first message give a
     witness for both statements, when the two challenge prefixes satisfy each branch's
     extraction condition (with equal challenge lengths the prefixes are the challenges) *)
  Theorem and_sound : forall good0 good1 ext0 ext1,
    sp_special_sound P0 rel0 good0 ext0 -> sp_special_sound P1 rel1 good1 ext1 ->
    sp_special_sound (and2 P0 P1) and_rel
      (fun e1 e2 => good0 (firstn (sp_len P0) e1) (firstn (sp_len P0) e2) /\
                    good1 (firstn (sp_len P1) e1) (firstn (sp_len P1) e2))
      (fun x a e1 z1 e2 z2 =>
         (ext0 (fst x) (fst a) (firstn (sp_len P0) e1) (fst z1) (firstn (sp_len P0) e2) (fst z2),
          ext1 (snd x) (snd a) (firstn (sp_len P1) e1) (snd z1) (firstn (sp_len P1) e2) (snd z2))).
  Proof.
    intros good0 good1 ext0 ext1 E0 E1 x a e1 z1 e2 z2 [G0 G1] V1 V2.
    apply and_verify_iff in V1. apply and_verify_iff in V2.
    destruct V1 as [V10 V11]. destruct V2 as [V20 V21].
    split; cbn [fst snd]; [eapply E0|eapply E1]; eassumption.
  Qed.
End And2.

(* ---------- AND (and.go): n copies, one shared challenge ---------- *)

Lemma forallb3_iff {A B C} (f : A -> B -> C -> bool) l1 l2 l3 :
  forallb3 f l1 l2 l3 = true <->
  length l1 = length l2 /\ length l2 = length l3 /\
  forall i a b c, nth_error l1 i = Some a -> nth_error l2 i = Some b -> nth_error l3 i = Some c -> f a b c = true.
Proof.
  revert l2 l3. induction l1 as [|a l1 IH]; intros [|b l2] [|c l3]; cbn [forallb3 length];
    try (split; [discriminate|intros (H1 & H2 & _); discriminate]).
  - split; [|reflexivity]. intros _. repeat split. intros [|i] ? ? ? H; discriminate.
  - rewrite andb_true_iff, IH. split.
    + intros (Hf & Hl1 & Hl2 & Hall). repeat split; try lia.
      intros [|i] a' b' c'; cbn [nth_error].
      * intros [= <-] [= <-] [= <-]. exact Hf.
      * apply Hall.
    + intros (Hl1 & Hl2 & Hall). split; [apply (Hall 0%nat); reflexivity|].
      repeat split; try lia. intros i a' b' c'. apply (Hall (S i)).
Qed.

Theorem andn_verify_iff (P : sproto) (count : nat) xs az e zs :
  andn_verify P count xs az e zs = true <->
  length xs = count /\ length az = count /\ length zs = count /\
  forall i x a z, nth_error xs i = Some x -> nth_error az i = Some a -> nth_error zs i = Some z ->
                  sp_verify P x a e z = true.
Proof.
  unfold andn_verify. rewrite !andb_true_iff, !Nat.eqb_eq, forallb3_iff. split.
  - intros (((H1 & H2) & H3) & _ & _ & H). repeat split; assumption.
  - intros (H1 & H2 & H3 & H). repeat split; try assumption; lia.
Qed.

(* ---------- OR (or.go) ---------- *)

Lemma xor_bytes_comm a b : xor_bytes a b = xor_bytes b a.
Proof.
  revert b. induction a as [|x a IH]; intros [|y b]; cbn [xor_bytes]; try reflexivity.
  rewrite N.lxor_comm, IH. reflexivity.
Qed.

Lemma xor_bytes_assoc a b c : xor_bytes (xor_bytes a b) c = xor_bytes a (xor_bytes b c).
Proof.
  revert b c. induction a as [|x a IH]; intros [|y b] [|z c]; cbn [xor_bytes]; try reflexivity.
  rewrite N.lxor_assoc, IH. reflexivity.
Qed.

Lemma xor_bytes_length a b : length (xor_bytes a b) = Nat.min (length a) (length b).
Proof.
  revert b. induction a as [|x a IH]; intros [|y b]; cbn [xor_bytes length]; try reflexivity.
  rewrite IH. reflexivity.
Qed.

Lemma xor_bytes_nilpotent a : xor_bytes a a = zero_bytes (length a).
Proof.
  induction a as [|x a IH]; cbn [xor_bytes length zero_bytes repeat]; [reflexivity|].
  rewrite N.lxor_nilpotent. unfold zero_bytes in IH. rewrite IH. reflexivity.
Qed.

Lemma xor_bytes_zero_r a n : length a = n -> xor_bytes a (zero_bytes n) = a.
Proof.
  intros <-. induction a as [|x a IH]; cbn [xor_bytes length zero_bytes repeat]; [reflexivity|].
  rewrite N.lxor_0_r. unfold zero_bytes in IH. rewrite IH. reflexivity.
Qed.

Lemma fold_xor_acc l a c : fold_left xor_bytes l (xor_bytes a c) = xor_bytes a (fold_left xor_bytes l c).
Proof.
  revert c. induction l as [|x l IH]; intros c; cbn [fold_left]; [reflexivity|].
  rewrite xor_bytes_assoc. apply IH.
Qed.

Lemma fold_xor_length n l c :
  length c = n -> Forall (fun x => length x = n) l -> length (fold_left xor_bytes l c) = n.
Proof.
  intros Hc Hl. revert c Hc. induction Hl as [|x l Hx _ IH]; intros c Hc; cbn [fold_left]; [exact Hc|].
  apply IH. rewrite xor_bytes_length. lia.
Qed.

Section OrProofs.
  Variable P : sproto.
  Variable rel : sp_X P -> sp_W P -> Prop.
  Variable count : nat.

  Let shares (br : list (sp_A P * bytes * sp_Z P)) : list bytes := map (fun t => snd (fst t)) br.

  (* shares of the branches from index i on: the real share at b, the simulated ones elsewhere *)
  Lemma branches_shares i b eb xs w r sims :
    length xs = length sims ->
    shares (or_branches P i b eb xs w r sims) =
    map (fun p => if Nat.eqb (fst p) b then eb else snd p) (combine (seq i (length sims)) (map fst sims)).
  Proof.
    revert i xs. induction sims as [|[ei ri] sims IH]; intros i [|x xs] Hl; cbn in Hl; try discriminate; [reflexivity|].
    cbn [or_branches length seq map combine shares fst snd].
    destruct (Nat.eqb i b).
    - destruct (sp_commit P x w r) as [a s]. cbn [fst snd]. f_equal. apply IH. lia.
    - destruct (sp_sim P x ei ri) as [a z]. cbn [fst snd]. f_equal. apply IH. lia.
  Qed.

  (* folding the shares: the real share once (if b is in range) and all the others *)
  Lemma fold_shares i b eb (E : list bytes) acc :
    fold_left xor_bytes
      (map (fun p => if Nat.eqb (fst p) b then eb else snd p) (combine (seq i (length E)) E)) acc =
    if (i <=? b)%nat && (b <? i + length E)%nat
    then xor_bytes eb (fold_left xor_bytes (others i b E) acc)
    else fold_left xor_bytes (others i b E) acc.
  Proof.
    revert i acc. induction E as [|x E IH]; intros i acc; cbn [length seq combine map fold_left others fst snd].
    - destruct (i <=? b)%nat eqn:A, (b <? i + 0)%nat eqn:B; cbn [andb]; try reflexivity. lia.
    - destruct (Nat.eqb i b) eqn:Eib.
      + apply Nat.eqb_eq in Eib. subst b. rewrite IH.
        replace ((S i <=? i)%nat) with false by (symmetry; apply Nat.leb_gt; lia). cbn [andb].
        replace ((i <=? i)%nat && (i <? i + S (length E))%nat) with true
          by (symmetry; apply andb_true_iff; split; [apply Nat.leb_le|apply Nat.ltb_lt]; lia).
        rewrite xor_bytes_comm. apply fold_xor_acc.
      + apply Nat.eqb_neq in Eib. rewrite IH. cbn [fold_left].
        replace ((i <=? b)%nat && (b <? i + S (length E))%nat) with ((S i <=? b)%nat && (b <? S i + length E)%nat).
        * reflexivity.
        * destruct (S i <=? b)%nat eqn:A1, (b <? S i + length E)%nat eqn:B1,
                   (i <=? b)%nat eqn:A2, (b <? i + S (length E))%nat eqn:B2; cbn [andb]; try reflexivity; lia.
  Qed.

  Lemma others_length_all n i b (E : list bytes) :
    Forall (fun x => length x = n) E -> Forall (fun x => length x = n) (others i b E).
  Proof.
    intros H. revert i. induction H as [|x E Hx _ IH]; intros i; cbn [others]; [constructor|].
    destruct (Nat.eqb i b); [apply IH|constructor; [exact Hx|apply IH]].
  Qed.

  (* the shares of an OR prover XOR to the challenge *)
  Lemma or_prove_shares_xor b xs w r sims e :
    length xs = length sims -> (b < length sims)%nat -> length e = sp_len P ->
    Forall (fun s => length (fst s) = sp_len P) sims ->
    xor_all (sp_len P) (shares (or_prove P b xs w r sims e)) = e.
  Proof.
    intros Hl Hb He Hs. unfold or_prove, xor_all. rewrite branches_shares by exact Hl.
    pose proof (fold_shares 0 b (or_real_share P b e sims) (map fst sims) (zero_bytes (sp_len P))) as F.
    rewrite map_length in F. unfold bytes in *. rewrite F. clear F.
    replace ((0 <=? b)%nat && (b <? 0 + length sims)%nat) with true
      by (symmetry; apply andb_true_iff; split; [apply Nat.leb_le|apply Nat.ltb_lt]; lia).
    unfold or_real_share.
    set (O := others 0 b (map fst sims)).
    assert (HO : Forall (fun x => length x = sp_len P) O).
    { apply others_length_all. apply Forall_map. exact Hs. }
    rewrite <- (xor_bytes_zero_r e (sp_len P) He) at 1.
    rewrite fold_xor_acc, xor_bytes_assoc, xor_bytes_nilpotent.
    rewrite (fold_xor_length (sp_len P)); [apply xor_bytes_zero_r; exact He| |exact HO].
    unfold zero_bytes. apply repeat_length.
  Qed.

  Lemma or_real_share_length b e sims :
    length e = sp_len P -> Forall (fun s => length (fst s) = sp_len P) sims ->
    length (or_real_share P b e sims) = sp_len P.
  Proof.
    intros He Hs. unfold or_real_share. apply fold_xor_length; [exact He|].
    apply others_length_all. apply Forall_map. exact Hs.
  Qed.

  (* every branch of the prover's output verifies under its share, and the shares have the
     protocol's challenge length *)
  Lemma or_branches_verify i b eb xs w r sims :
    sp_complete P rel -> sp_sim_ok P ->
    length xs = length sims -> length eb = sp_len P ->
    Forall (fun s => length (fst s) = sp_len P) sims ->
    (forall x, nth_error xs (b - i) = Some x -> (i <= b)%nat -> rel x w) ->
    let br := or_branches P i b eb xs w r sims in
    forallb3 (fun xa ei z => sp_verify P (fst xa) (snd xa) ei z)
             (combine xs (map (fun t => fst (fst t)) br)) (shares br) (map snd br) = true /\
    forallb (fun ei => Nat.eqb (length ei) (sp_len P)) (shares br) = true /\
    length br = length xs.
  Proof.
    intros HC HS. revert i xs. induction sims as [|[ei ri] sims IH]; intros i [|x xs] Hl Heb Hs Hrel;
      cbn in Hl; try discriminate.
    - cbn. repeat split.
    - inversion Hs as [|? ? Hei Hs']; subst. cbn [fst] in Hei.
      specialize (IH (S i) xs ltac:(lia) Heb Hs').
      assert (Hrel' : forall x0, nth_error xs (b - S i) = Some x0 -> (S i <= b)%nat -> rel x0 w).
      { intros x0 Hn Hle. apply Hrel; [|lia]. replace (b - i)%nat with (S (b - S i)) by lia. exact Hn. }
      specialize (IH Hrel'). cbn zeta in IH. destruct IH as (IH1 & IH2 & IH3).
      cbn [or_branches].
      destruct (Nat.eqb i b) eqn:Eib.
      + apply Nat.eqb_eq in Eib. subst i.
        assert (Rx : rel x w) by (apply Hrel; [rewrite Nat.sub_diag; reflexivity|lia]).
        pose proof (HC x w r eb Rx Heb) as V.
        destruct (sp_commit P x w r) as [a s]. cbn [fst snd] in V.
        cbn [map combine shares forallb3 forallb fst snd length].
        split; [|split].
        * apply andb_true_iff. split; [exact V|exact IH1].
        * apply andb_true_iff. split; [rewrite Heb; apply Nat.eqb_refl|exact IH2].
        * f_equal. exact IH3.
      + pose proof (HS x ei ri Hei) as V.
        destruct (sp_sim P x ei ri) as [a z]. cbn [fst snd] in V.
        cbn [map combine shares forallb3 forallb fst snd length].
        split; [|split].
        * apply andb_true_iff. split; [exact V|exact IH1].
        * apply andb_true_iff. split; [rewrite Hei; apply Nat.eqb_refl|exact IH2].
        * f_equal. exact IH3.
  Qed.

  (* an OR proof built with exactly one real witness (branch b) and all other branches
     simulated verifies *)
  Theorem or_complete_one_witness : forall b xs w r sims e xb,
    sp_complete P rel -> sp_sim_ok P ->
    length xs = count -> length sims = count -> (b < count)%nat ->
    nth_error xs b = Some xb -> rel xb w ->
    length e = sp_len P ->
    Forall (fun s => length (fst s) = sp_len P) sims ->
    or_verify_branches P count xs e (or_prove P b xs w r sims e) = true.
  Proof.
    intros b xs w r sims e xb HC HS Hx Hsims Hb Hnth Hrel He Hs.
    unfold or_verify_branches, or_verify.
    pose proof (or_real_share_length b e sims He Hs) as Heb.
    destruct (or_branches_verify 0 b (or_real_share P b e sims) xs w r sims HC HS ltac:(lia) Heb Hs) as (V1 & V2 & V3).
    { intros x Hn _. rewrite Nat.sub_0_r in Hn. congruence. }
    fold (or_prove P b xs w r sims e) in V1, V2, V3. fold shares.
    rewrite !map_length, V3, Hx, !Nat.eqb_refl, He, Nat.eqb_refl. cbn [andb].
    apply andb_true_iff. split; [apply andb_true_iff; split|exact V1].
    - exact V2.
    - pose proof (or_prove_shares_xor b xs w r sims e ltac:(lia) ltac:(lia) He Hs) as X.
      unfold shares in X. rewrite X. clear.
      unfold bytes_eqb. rewrite Nat.eqb_refl. cbn [andb].
      induction e as [|x e IH]; cbn; [reflexivity|]. rewrite N.eqb_refl. exact IH.
  Qed.

End OrProofs.

Section OrSound.
  Variable P : sproto.
  Variable count : nat.

  (* soundness of the challenge split: two accepting OR transcripts with the same first
     message and different challenges differ in the share of some branch, and that branch
     has two accepting transcripts with the same first message — the situation the
     branch's extractor needs *)
  Lemma bytes_eqb_eq a b : bytes_eqb a b = true -> a = b.
  Proof.
    unfold bytes_eqb. intros H. apply andb_true_iff in H. destruct H as [Hl H].
    apply Nat.eqb_eq in Hl. revert b Hl H.
    induction a as [|x a IH]; intros [|y b] Hl H; cbn in *; try discriminate; [reflexivity|].
    apply andb_true_iff in H. destruct H as [Hxy H]. apply N.eqb_eq in Hxy. subst y.
    f_equal. apply IH; [lia|exact H].
  Qed.

  Lemma lists_differ_at (l1 l2 : list bytes) :
    length l1 = length l2 -> l1 <> l2 ->
    exists i x y, nth_error l1 i = Some x /\ nth_error l2 i = Some y /\ x <> y.
  Proof.
    revert l2. induction l1 as [|x l1 IH]; intros [|y l2] Hl Hne; cbn in Hl; try discriminate.
    - elim Hne. reflexivity.
    - destruct (list_eq_dec N.eq_dec x y) as [->|Hxy].
      + destruct (IH l2 ltac:(lia)) as (i & a & b & H1 & H2 & H3).
        { intros ->. apply Hne. reflexivity. }
        exists (S i), a, b. repeat split; assumption.
      + exists 0%nat, x, y. repeat split; assumption.
  Qed.

  Theorem or_sound_split : forall xs az e es zs e' es' zs',
    or_verify P count xs az e es zs = true ->
    or_verify P count xs az e' es' zs' = true ->
    e <> e' ->
    exists i x a ei zi ei' zi',
      nth_error xs i = Some x /\ nth_error az i = Some a /\
      nth_error es i = Some ei /\ nth_error zs i = Some zi /\
      nth_error es' i = Some ei' /\ nth_error zs' i = Some zi' /\
      ei <> ei' /\ sp_verify P x a ei zi = true /\ sp_verify P x a ei' zi' = true.
  Proof.
    intros xs az e es zs e' es' zs' V V' Hne.
    unfold or_verify in V, V'. rewrite !andb_true_iff, !Nat.eqb_eq in V, V'.
    destruct V as (((((((Lx & La) & Lz) & Le) & Lc) & Ls) & Hx) & Hv).
    destruct V' as (((((((_ & _) & Lz') & Le') & Lc') & Ls') & Hx') & Hv').
    apply bytes_eqb_eq in Hx. apply bytes_eqb_eq in Hx'.
    assert (Hes : es <> es') by (intros ->; apply Hne; congruence).
    destruct (lists_differ_at es es' ltac:(lia) Hes) as (i & ei & ei' & N1 & N2 & Hd).
    apply forallb3_iff in Hv. apply forallb3_iff in Hv'.
    destruct Hv as (L1 & L2 & Hv). destruct Hv' as (L1' & L2' & Hv').
    assert (Hi : (i < count)%nat) by (apply nth_error_Some_lt in N1 || (assert (nth_error es i <> None) by congruence; apply nth_error_Some in H; lia)).
    destruct (nth_error xs i) as [x|] eqn:Nx; [|apply nth_error_None in Nx; lia].
    destruct (nth_error az i) as [a|] eqn:Na; [|apply nth_error_None in Na; lia].
    destruct (nth_error zs i) as [zi|] eqn:Nz; [|apply nth_error_None in Nz; lia].
    destruct (nth_error zs' i) as [zi'|] eqn:Nz'; [|apply nth_error_None in Nz'; lia].
    assert (Nc : nth_error (combine xs az) i = Some (x, a)).
    { clear - Nx Na. revert xs az Nx Na. induction i as [|i IH]; intros [|x0 xs] [|a0 az] Nx Na; cbn in *; try discriminate.
      - congruence.
      - apply IH; assumption. }
    exists i, x, a, ei, zi, ei', zi'. repeat split; try assumption.
    - exact (Hv i (x, a) ei zi Nc N1 Nz).
    - exact (Hv' i (x, a) ei' zi' Nc N2 Nz').
  Qed.
End OrSound.

(* ---------- Maurer's protocol is an instance of the abstract notions ---------- *)

Section MaurerAsProto.
  Variables W X : Type.
  Variable wadd : W -> W -> W.
  Variable wneg : W -> W.
  Variable wzero : W.
  Variable wsmul : Z -> W -> W.
  Variable xadd : X -> X -> X.
  Variable xneg : X -> X.
  Variable xzero : X.
  Variable xsmul : Z -> X -> X.
  Variable xeqb : X -> X -> bool.
  Variable phi : W -> X.
  Variable len : nat.
  Hypothesis HW : ab_action wadd wneg wzero wsmul.
  Hypothesis HX : ab_action xadd xneg xzero xsmul.
  Hypothesis Hphi : is_hom wadd wsmul xadd xsmul phi.
  Hypothesis Heq : decides_eq xeqb.

  Let MP := maurer_proto W X wadd wsmul xadd xneg xsmul xeqb phi len.

  Theorem maurer_proto_complete : sp_complete MP (fun x w => phi w = x).
  Proof.
    intros x w r e Hr _. cbn in *. subst x.
    apply (maurer_complete_b W X wadd wneg wzero wsmul xadd xneg xzero xsmul xeqb phi HW HX Hphi Heq).
  Qed.

  Theorem maurer_proto_sim_ok : sp_sim_ok MP.
  Proof.
    intros x e r _. cbn.
    apply (maurer_simulator_verifies_b W X wadd wneg wzero wsmul xadd xneg xzero xsmul xeqb phi HW HX Hphi Heq).
  Qed.
End MaurerAsProto.

(* ---------- the exponent instance: Z_q (canonical representatives), phi(w) = g*w ----------
   A prime-order group <G> is Z_q in the exponent; Schnorr's homomorphism w |-> w*G is
   multiplication by the exponent g of G.  The laws hold for every modulus q > 0. *)
From Coq Require Import Eqdep_dec.

Section Zq.
  Variable q : Z.
  Hypothesis q_pos : 0 < q.

  Record zq := mkzq { zv : Z; zok : (zv mod q =? zv) = true }.

  Lemma zq_eq a b : zv a = zv b -> a = b.
  Proof.
    destruct a as [x Hx], b as [y Hy]. cbn. intros ->. f_equal.
    apply UIP_dec. apply Bool.bool_dec.
  Qed.

  Lemma zq_of_ok x : ((x mod q) mod q =? x mod q) = true.
  Proof.
    destruct (Z.eq_dec q 0) as [E|E].
    - rewrite E, !Zmod_0_r. apply Z.eqb_refl.
    - apply Z.eqb_eq. apply Z.mod_mod. exact E.
  Qed.

  Definition zq_of (x : Z) : zq := mkzq (x mod q) (zq_of_ok x).
  Definition zadd (a b : zq) : zq := zq_of (zv a + zv b).
  Definition zneg (a : zq) : zq := zq_of (- zv a).
  Definition zzero : zq := zq_of 0.
  Definition zsmul (n : Z) (a : zq) : zq := zq_of (n * zv a).
  Definition zeqb (a b : zq) : bool := zv a =? zv b.

  Lemma zv_red a : zv a mod q = zv a.
  Proof. destruct a as [x Hx]. cbn. apply Z.eqb_eq. exact Hx. Qed.

  Lemma zq_ab_action : ab_action zadd zneg zzero zsmul.
  Proof.
    unfold ab_action, zadd, zneg, zzero, zsmul. repeat split; intros; apply zq_eq; cbn [zv zq_of].
    - rewrite Zplus_mod_idemp_r, Zplus_mod_idemp_l. f_equal. ring.
    - f_equal. ring.
    - rewrite Z.mod_0_l by lia. cbn. apply zv_red.
    - rewrite Zplus_mod_idemp_l. replace (- zv a + zv a) with 0 by ring. reflexivity.
    - rewrite <- Zplus_mod. f_equal. ring.
    - rewrite Zmult_mod_idemp_r. f_equal. ring.
    - rewrite Z.mul_1_l. apply zv_red.
    - rewrite Zmult_mod_idemp_r, <- Zplus_mod. f_equal. ring.
  Qed.

  Definition zphi (g : Z) (w : zq) : zq := zq_of (g * zv w).

  Lemma zphi_is_hom g : is_hom zadd zsmul zadd zsmul (zphi g).
  Proof.
    unfold is_hom, zphi, zadd, zsmul. split; intros; apply zq_eq; cbn [zv zq_of].
    - rewrite Zmult_mod_idemp_r, <- Zplus_mod. f_equal. ring.
    - rewrite !Zmult_mod_idemp_r. f_equal. ring.
  Qed.

  Lemma zeqb_decides : decides_eq zeqb.
  Proof.
    intros a b. unfold zeqb. rewrite Z.eqb_eq. split; [apply zq_eq|intros ->; reflexivity].
  Qed.

  (* the anchor of the prime-order instances: u = 0, l = q *)
  Lemma zq_anchor g x : zphi g zzero = zsmul q x.
  Proof.
    apply zq_eq. unfold zphi, zzero, zsmul. cbn [zv zq_of].
    rewrite Z.mod_0_l by lia. rewrite Z.mul_0_r, Z.mod_0_l by lia.
    symmetry. rewrite Z.mul_comm. apply Z.mod_mul. lia.
  Qed.
End Zq.

Theorem zq_instance : forall (q g : Z), 0 < q ->
  ab_action (zadd q) (zneg q) (zzero q) (zsmul q) /\
  is_hom (zadd q) (zsmul q) (zadd q) (zsmul q) (zphi q g) /\
  decides_eq (zeqb q) /\
  forall x, zphi q g (zzero q) = zsmul q q x.
Proof.
  intros q g Hq. split; [apply zq_ab_action; exact Hq|]. split; [apply zphi_is_hom; exact Hq|].
  split; [apply zeqb_decides|]. intros x. apply zq_anchor. exact Hq.
Qed.

(* ====================================================================== *)
(* integer powers in a commutative group, and the closed instance for the    *)
(* Paillier-style homomorphism r |-> r^N on the units modulo M (M = N^2)      *)

Section ZPow.
  Variable G : Type.
  Variable mul : G -> G -> G.
  Variable inv : G -> G.
  Variable one : G.
  Variable npow : Z -> G -> G.   (* natural powers; only used with exponents >= 0 *)
  Hypothesis mul_assoc : forall a b c, mul a (mul b c) = mul (mul a b) c.
  Hypothesis mul_comm : forall a b, mul a b = mul b a.
  Hypothesis mul_1_l : forall a, mul one a = a.
  Hypothesis mul_inv_l : forall a, mul (inv a) a = one.
  Hypothesis np_0 : forall x, npow 0 x = one.
  Hypothesis np_1 : forall x, npow 1 x = x.
  Hypothesis np_add : forall m n x, 0 <= m -> 0 <= n -> npow (m + n) x = mul (npow m x) (npow n x).
  Hypothesis np_mul : forall m n x, 0 <= m -> 0 <= n -> npow (m * n) x = npow m (npow n x).
  Hypothesis np_distr : forall n a b, 0 <= n -> npow n (mul a b) = mul (npow n a) (npow n b).

  Definition zpow (n : Z) (x : G) : G := if 0 <=? n then npow n x else npow (- n) (inv x).

  Let m1r := add_0_r G mul one mul_comm mul_1_l.
  Let minvr := add_neg_r G mul inv one mul_comm mul_inv_l.
  Let mcl := add_cancel_l G mul inv one mul_assoc mul_1_l mul_inv_l.
  Let invu := neg_unique G mul inv one mul_assoc mul_comm mul_1_l mul_inv_l.
  Let invinv := neg_neg G mul inv one mul_assoc mul_comm mul_1_l mul_inv_l.

  Lemma np_one n : 0 <= n -> npow n one = one.
  Proof.
    intros Hn. apply (mcl (npow n one)). rewrite <- np_distr by exact Hn. rewrite mul_1_l, m1r. reflexivity.
  Qed.

  Lemma inv_one : inv one = one.
  Proof. symmetry. apply invu. apply mul_1_l. Qed.

  Lemma inv_mul a b : inv (mul a b) = mul (inv a) (inv b).
  Proof.
    symmetry. apply invu.
    rewrite (mul_comm (inv a) (inv b)), mul_assoc, <- (mul_assoc a b (inv b)), minvr, m1r. apply minvr.
  Qed.

  Lemma np_inv n x : 0 <= n -> npow n (inv x) = inv (npow n x).
  Proof.
    intros Hn. apply invu. rewrite <- np_distr by exact Hn. rewrite minvr. apply np_one. exact Hn.
  Qed.

  (* x^m * (x^-1)^k with 0 <= k <= m *)
  Lemma np_cancel m k x : 0 <= k -> k <= m -> mul (npow m x) (npow k (inv x)) = npow (m - k) x.
  Proof.
    intros Hk Hkm. replace m with ((m - k) + k) at 1 by lia.
    rewrite np_add by lia. rewrite <- mul_assoc, <- np_distr by exact Hk.
    rewrite minvr, np_one by exact Hk. apply m1r.
  Qed.

  Lemma zpow_add_mixed m k x : 0 <= m -> 0 < k ->
    zpow (m + - k) x = mul (npow m x) (npow k (inv x)).
  Proof.
    intros Hm Hk. unfold zpow. destruct (0 <=? m + - k) eqn:E.
    - apply Z.leb_le in E. rewrite np_cancel by lia. f_equal; lia.
    - apply Z.leb_gt in E.
      rewrite (mul_comm (npow m x)).
      assert (H : npow m x = npow m (inv (inv x))) by (rewrite invinv; reflexivity).
      rewrite H. rewrite np_cancel by lia. f_equal; lia.
  Qed.

  Theorem zpow_action : ab_action mul inv one zpow.
  Proof.
    unfold ab_action. repeat split; try assumption.
    - (* (m+n) *)
      intros m n x. destruct (Z_le_gt_dec 0 m) as [Hm|Hm], (Z_le_gt_dec 0 n) as [Hn|Hn].
      + unfold zpow. replace (0 <=? m + n) with true by (symmetry; apply Z.leb_le; lia).
        replace (0 <=? m) with true by (symmetry; apply Z.leb_le; lia).
        replace (0 <=? n) with true by (symmetry; apply Z.leb_le; lia). apply np_add; assumption.
      + replace n with (- (- n)) at 1 by lia. rewrite zpow_add_mixed by lia.
        unfold zpow at 1 2. replace (0 <=? m) with true by (symmetry; apply Z.leb_le; lia).
        replace (0 <=? n) with false by (symmetry; apply Z.leb_gt; lia). reflexivity.
      + rewrite Z.add_comm, mul_comm. replace m with (- (- m)) at 1 by lia. rewrite zpow_add_mixed by lia.
        unfold zpow at 1 2. replace (0 <=? n) with true by (symmetry; apply Z.leb_le; lia).
        replace (0 <=? m) with false by (symmetry; apply Z.leb_gt; lia). reflexivity.
      + unfold zpow. replace (0 <=? m + n) with false by (symmetry; apply Z.leb_gt; lia).
        replace (0 <=? m) with false by (symmetry; apply Z.leb_gt; lia).
        replace (0 <=? n) with false by (symmetry; apply Z.leb_gt; lia).
        replace (- (m + n)) with (- m + - n) by lia. apply np_add; lia.
    - (* (m*n) *)
      intros m n x. destruct (Z_le_gt_dec 0 m) as [Hm|Hm], (Z_le_gt_dec 0 n) as [Hn|Hn].
      + unfold zpow. replace (0 <=? m * n) with true by (symmetry; apply Z.leb_le; nia).
        replace (0 <=? m) with true by (symmetry; apply Z.leb_le; lia).
        replace (0 <=? n) with true by (symmetry; apply Z.leb_le; lia). apply np_mul; assumption.
      + unfold zpow at 2 3. replace (0 <=? m) with true by (symmetry; apply Z.leb_le; lia).
        replace (0 <=? n) with false by (symmetry; apply Z.leb_gt; lia).
        destruct (Z.eq_dec m 0) as [->|Hm0].
        * cbn [Z.mul]. unfold zpow. cbn. rewrite !np_0. reflexivity.
        * unfold zpow. replace (0 <=? m * n) with false by (symmetry; apply Z.leb_gt; nia).
          replace (- (m * n)) with (m * - n) by lia. apply np_mul; lia.
      + unfold zpow at 2 3. replace (0 <=? m) with false by (symmetry; apply Z.leb_gt; lia).
        replace (0 <=? n) with true by (symmetry; apply Z.leb_le; lia).
        destruct (Z.eq_dec n 0) as [->|Hn0].
        * rewrite Z.mul_0_r. unfold zpow. cbn. rewrite !np_0, inv_one. symmetry. apply np_one. lia.
        * unfold zpow. replace (0 <=? m * n) with false by (symmetry; apply Z.leb_gt; nia).
          replace (- (m * n)) with (- m * n) by lia. rewrite np_mul by lia. f_equal. apply np_inv. lia.
      + unfold zpow at 2 3. replace (0 <=? m) with false by (symmetry; apply Z.leb_gt; lia).
        replace (0 <=? n) with false by (symmetry; apply Z.leb_gt; lia).
        unfold zpow. replace (0 <=? m * n) with true by (symmetry; apply Z.leb_le; nia).
        replace (m * n) with (- m * - n) by lia. rewrite np_mul by lia. f_equal.
        rewrite np_inv by lia. rewrite invinv. reflexivity.
    - (* n (a*b) *)
      intros n a b. unfold zpow. destruct (0 <=? n) eqn:E.
      + apply Z.leb_le in E. apply np_distr. exact E.
      + apply Z.leb_gt in E. rewrite inv_mul. apply np_distr. lia.
  Qed.

  (* in any commutative group with integer powers, x |-> x^N is a homomorphism compatible
     with the powers, and u = x, l = N is an anchor for it *)
  Theorem power_map_is_hom N : is_hom mul zpow mul zpow (zpow N).
  Proof.
    destruct zpow_action as (_ & _ & _ & _ & _ & Hm & _ & Hd). split.
    - intros a b. apply Hd.
    - intros n a. rewrite <- !Hm. f_equal; lia.
  Qed.
End ZPow.

(* ---------- the units modulo M with their inverses (M = N^2 for Paillier) ---------- *)

From Coq Require Import Zpow_facts.

Section Units.
  Variable M : Z.
  Hypothesis M_pos : 0 < M.

  (* a unit together with its inverse, both as canonical representatives *)
  Record unit_m := mku {
    uv : Z; ui : Z;
    uok : ((uv mod M =? uv) && (ui mod M =? ui) && ((uv * ui) mod M =? 1 mod M)) = true }.

  Lemma u_facts a : uv a mod M = uv a /\ ui a mod M = ui a /\ (uv a * ui a) mod M = 1 mod M.
  Proof.
    destruct a as [v i H]. cbn. apply andb_true_iff in H. destruct H as [H H3].
    apply andb_true_iff in H. destruct H as [H1 H2].
    rewrite Z.eqb_eq in H1, H2, H3. repeat split; assumption.
  Qed.

  Lemma u_eq a b : uv a = uv b -> a = b.
  Proof.
    intros Hv. destruct (u_facts a) as (_ & Ia & Pa). destruct (u_facts b) as (_ & Ib & Pb).
    assert (Hi : ui a = ui b).
    { rewrite <- Ia. rewrite <- (Z.mul_1_r (ui a)). rewrite <- Zmult_mod_idemp_r, <- Pb, Zmult_mod_idemp_r.
      rewrite <- Hv. replace (ui a * (uv a * ui b)) with ((uv a * ui a) * ui b) by ring.
      rewrite <- Zmult_mod_idemp_l, Pa, Zmult_mod_idemp_l, Z.mul_1_l. exact Ib. }
    destruct a as [va ia Ha], b as [vb ib Hb]. cbn in Hv, Hi. subst vb ib.
    f_equal. apply UIP_dec. apply Bool.bool_dec.
  Qed.

  Lemma mk_ok v i : (v * i) mod M = 1 mod M ->
    (((v mod M) mod M =? v mod M) && ((i mod M) mod M =? i mod M) && (((v mod M) * (i mod M)) mod M =? 1 mod M)) = true.
  Proof.
    intros H. rewrite !Z.mod_mod by lia. rewrite !Z.eqb_refl. cbn [andb].
    apply Z.eqb_eq. rewrite <- Zmult_mod. exact H.
  Qed.

  Lemma mul_ok a b : ((uv a * uv b) * (ui a * ui b)) mod M = 1 mod M.
  Proof.
    destruct (u_facts a) as (_ & _ & Pa). destruct (u_facts b) as (_ & _ & Pb).
    replace (uv a * uv b * (ui a * ui b)) with ((uv a * ui a) * (uv b * ui b)) by ring.
    rewrite Zmult_mod, Pa, Pb, <- Zmult_mod. reflexivity.
  Qed.

  Definition umul (a b : unit_m) : unit_m :=
    mku ((uv a * uv b) mod M) ((ui a * ui b) mod M) (mk_ok _ _ (mul_ok a b)).

  Lemma inv_ok a : (ui a * uv a) mod M = 1 mod M.
  Proof. destruct (u_facts a) as (_ & _ & Pa). rewrite Z.mul_comm. exact Pa. Qed.

  Definition uinv (a : unit_m) : unit_m :=
    mku (ui a mod M) (uv a mod M) (mk_ok _ _ (inv_ok a)).

  Lemma one_ok : (1 * 1) mod M = 1 mod M.
  Proof. reflexivity. Qed.

  Definition uone : unit_m := mku (1 mod M) (1 mod M) (mk_ok _ _ one_ok).

  Lemma pow_ok a k : (uv a ^ Z.abs k * ui a ^ Z.abs k) mod M = 1 mod M.
  Proof.
    destruct (u_facts a) as (_ & _ & Pa).
    rewrite <- Z.pow_mul_l. rewrite Zpower_mod by lia. rewrite Pa, <- Zpower_mod by lia.
    rewrite Z.pow_1_l by lia. reflexivity.
  Qed.

  Definition unpow (k : Z) (a : unit_m) : unit_m :=
    mku ((uv a ^ Z.abs k) mod M) ((ui a ^ Z.abs k) mod M) (mk_ok _ _ (pow_ok a k)).

  Definition ueqb (a b : unit_m) : bool := uv a =? uv b.

  Lemma ueqb_decides : decides_eq ueqb.
  Proof. intros a b. unfold ueqb. rewrite Z.eqb_eq. split; [apply u_eq|intros ->; reflexivity]. Qed.

  Lemma umul_assoc a b c : umul a (umul b c) = umul (umul a b) c.
  Proof. apply u_eq. cbn. rewrite Zmult_mod_idemp_r, Zmult_mod_idemp_l. f_equal. ring. Qed.

  Lemma umul_comm a b : umul a b = umul b a.
  Proof. apply u_eq. cbn. f_equal. ring. Qed.

  Lemma umul_1_l a : umul uone a = a.
  Proof.
    apply u_eq. cbn. rewrite Zmult_mod_idemp_l, Z.mul_1_l. apply (proj1 (u_facts a)).
  Qed.

  Lemma umul_inv_l a : umul (uinv a) a = uone.
  Proof.
    apply u_eq. cbn. rewrite Zmult_mod_idemp_l. apply inv_ok.
  Qed.

  Lemma unpow_0 a : unpow 0 a = uone.
  Proof. apply u_eq. cbn [uv unpow uone]. change (Z.abs 0) with 0. rewrite Z.pow_0_r. reflexivity. Qed.

  Lemma unpow_1 a : unpow 1 a = a.
  Proof.
    apply u_eq. cbn [uv unpow]. change (Z.abs 1) with 1. rewrite Z.pow_1_r. apply (proj1 (u_facts a)).
  Qed.

  Lemma unpow_add m n a : 0 <= m -> 0 <= n -> unpow (m + n) a = umul (unpow m a) (unpow n a).
  Proof.
    intros Hm Hn. apply u_eq. cbn [uv unpow umul]. rewrite !Z.abs_eq by lia.
    rewrite Z.pow_add_r by lia. apply Zmult_mod.
  Qed.

  Lemma unpow_mul m n a : 0 <= m -> 0 <= n -> unpow (m * n) a = unpow m (unpow n a).
  Proof.
    intros Hm Hn. apply u_eq. cbn [uv unpow]. rewrite !Z.abs_eq by nia.
    rewrite <- Zpower_mod by lia. rewrite Z.mul_comm, Z.pow_mul_r by lia. reflexivity.
  Qed.

  Lemma unpow_distr n a b : 0 <= n -> unpow n (umul a b) = umul (unpow n a) (unpow n b).
  Proof.
    intros Hn. apply u_eq. cbn [uv unpow umul]. rewrite !Z.abs_eq by lia.
    rewrite <- Zpower_mod by lia. rewrite Z.pow_mul_l. apply Zmult_mod.
  Qed.

  Definition upow : Z -> unit_m -> unit_m := zpow unit_m uinv unpow.

  (* the closed instance: the units modulo M under multiplication with integer powers are an
     abelian group with an integer action; r |-> r^N is a homomorphism compatible with it;
     equality is decided; and (u = x, l = N) is an anchor: phi(x) = x^N = N "times" x *)
  Theorem units_power_instance : forall N : Z,
    ab_action umul uinv uone upow /\
    is_hom umul upow umul upow (upow N) /\
    decides_eq ueqb /\
    forall x, upow N ((fun y => y) x) = upow N x.
  Proof.
    intros N.
    pose proof (zpow_action unit_m umul uinv uone unpow umul_assoc umul_comm umul_1_l umul_inv_l
                  unpow_0 unpow_1 unpow_add unpow_mul unpow_distr) as A.
    pose proof (power_map_is_hom unit_m umul uinv uone unpow umul_assoc umul_comm umul_1_l umul_inv_l
                  unpow_0 unpow_1 unpow_add unpow_mul unpow_distr N) as Hh.
    split; [exact A|]. split; [exact Hh|]. split; [exact ueqb_decides|]. reflexivity.
  Qed.
End Units.

(* ---------- sigor: a share of the wrong length is rejected ---------- *)

(* The coded verifier demands that every challenge share has exactly the protocol's
   challenge length L (it XORs L bytes of each share but hands the whole share to the
   branch verifier, and Maurer-style branch verifiers read a challenge of any length as a
   big-endian integer: with a weaker test an over-long share E_i = (c xor ...) || suffix lets
   a prover without any witness pass both checks).  The model has the exact test: *)
Theorem or_overlong_share_rejected (P : sproto) (count : nat) xs az e es zs i ei :
  nth_error es i = Some ei -> length ei <> sp_len P ->
  or_verify P count xs az e es zs = false.
Proof.
  intros Hn Hl. destruct (or_verify P count xs az e es zs) eqn:V; [|reflexivity].
  unfold or_verify in V. rewrite !andb_true_iff in V.
  destruct V as (((_ & Hs) & _) & _).
  rewrite forallb_forall in Hs. apply nth_error_In in Hn. apply Hs in Hn.
  apply Nat.eqb_eq in Hn. contradiction.
Qed.

(* and an accepted OR transcript has only shares of exactly L bytes *)
Theorem or_accept_share_lengths (P : sproto) (count : nat) xs az e es zs :
  or_verify P count xs az e es zs = true ->
  length e = sp_len P /\ Forall (fun ei => length ei = sp_len P) es.
Proof.
  intros V. unfold or_verify in V. rewrite !andb_true_iff in V.
  destruct V as (((( _ & He) & Hs) & _) & _). split; [apply Nat.eqb_eq; exact He|].
  apply Forall_forall. intros x Hx. rewrite forallb_forall in Hs. apply Nat.eqb_eq. apply Hs. exact Hx.
Qed.

(* ---------- sigand (n-way): accepted transcripts have exactly count components ---------- *)

Theorem andn_accept_lengths (P : sproto) (count : nat) xs az e zs :
  andn_verify P count xs az e zs = true ->
  length xs = count /\ length az = count /\ length zs = count.
Proof.
  intros V. apply andn_verify_iff in V. destruct V as (H1 & H2 & H3 & _). repeat split; assumption.
Qed.

(* a response (or commitment) vector with one component more or fewer is rejected *)
Theorem andn_wrong_response_count (P : sproto) (count : nat) xs az e zs :
  length zs <> count -> andn_verify P count xs az e zs = false.
Proof.
  intros H. destruct (andn_verify P count xs az e zs) eqn:V; [|reflexivity].
  apply andn_accept_lengths in V. destruct V as (_ & _ & V). contradiction.
Qed.

Theorem andn_wrong_commitment_count (P : sproto) (count : nat) xs az e zs :
  length az <> count -> andn_verify P count xs az e zs = false.
Proof.
  intros H. destruct (andn_verify P count xs az e zs) eqn:V; [|reflexivity].
  apply andn_accept_lengths in V. destruct V as (_ & V & _). contradiction.
Qed.
