(* SignLindell17_proofs.v — proofs about model/SignLindell17.v (Lindell17 two-party ECDSA):
     - the integer under the Paillier encryption c3 does not wrap modulo N when the code's
       bound test passes (so the symmetric decryption returns it unchanged),
     - that integer reduces modulo q to  k2^-1 (m' + r (x1 + x2)),
     - the honest run returns the closed-form signature and the verifier accepts it. *)
From Coq Require Import List Bool ZArith Znumtheory Lia Field Ring.
Import ListNotations.
Require Import V.base.Fld V.base.ZpField V.model.SignLindell17.
Local Open Scope Z_scope.

(* ---- 1. no wrap-around ---------------------------------------------------------------- *)

Lemma Zp_mul_range : forall q a b, 0 < q -> 0 <= fmul (Zp q) a b < q.
Proof. intros q a b Hq. cbn [fmul Zp]. apply Z.mod_pos_bound. exact Hq. Qed.

Lemma primary_term_range : forall q s lam x1, 0 < q ->
  Forall (fun x => 0 <= x < 3 * q) x1 ->
  0 <= primary_term q s lam x1 <= q * q * 3 * Z.of_nat (length x1).
Proof.
  intros q s lam x1 Hq. revert x1. induction lam as [|l lam IH]; intros x1 Hx.
  - cbn [primary_term]. split; [lia|].
    apply Z.mul_nonneg_nonneg; [|lia]. apply Z.mul_nonneg_nonneg; [|lia].
    apply Z.mul_nonneg_nonneg; lia.
  - destruct x1 as [|x x1].
    + cbn [primary_term length]. lia.
    + cbn [primary_term]. inversion Hx as [|x' x1' Hx0 Hx1]; subst.
      specialize (IH x1 Hx1). unfold K.
      pose proof (Zp_mul_range q s l Hq) as Hf.
      set (f := fmul (Zp q) s l) in *.
      assert (H1 : 0 <= f * x) by (apply Z.mul_nonneg_nonneg; lia).
      assert (H2 : f * x <= q * (3 * q)) by (apply Z.mul_le_mono_nonneg; lia).
      change (length (x :: x1)) with (S (length x1)). rewrite Nat2Z.inj_succ.
      set (d := Z.of_nat (length x1)) in *.
      lia.
Qed.

Theorem lindell17_no_wrap : forall q N xc inp m',
  0 < q -> 0 <= in_rho inp < q * q ->
  Forall (fun x => 0 <= x < 3 * q) (in_x1 inp) ->
  length (in_lam inp) = length (in_x1 inp) ->
  bound_ok q N (Z.of_nat (length (in_x1 inp))) = true ->
  0 <= c3_int q xc inp m' /\ 2 * c3_int q xc inp m' < N /\
  sym N (c3_int q xc inp m' mod N) = c3_int q xc inp m'.
Proof.
  intros q N xc inp m' Hq Hrho Hx1 _ Hb.
  unfold bound_ok, full_signing_bound in Hb. apply Z.ltb_lt in Hb.
  assert (Hc : 0 <= c3_int q xc inp m' /\ 2 * c3_int q xc inp m' < N).
  { unfold c3_int. cbv zeta. unfold K.
    set (k2inv := finv (Zp q) (in_k2 inp)).
    set (scale := fmul (Zp q) k2inv (r_of q xc inp)).
    pose proof (Zp_mul_range q k2inv m' Hq) as HA.
    pose proof (Zp_mul_range q scale (fopp (Zp q) (in_zeta2 inp)) Hq) as HB.
    pose proof (Zp_mul_range q scale (fadd (Zp q) (in_x2 inp) (in_zeta2 inp)) Hq) as HC.
    pose proof (primary_term_range q scale (in_lam inp) (in_x1 inp) Hq Hx1) as HP.
    set (A := fmul (Zp q) k2inv m') in *.
    set (B := fmul (Zp q) scale (fopp (Zp q) (in_zeta2 inp))) in *.
    set (C := fmul (Zp q) scale (fadd (Zp q) (in_x2 inp) (in_zeta2 inp))) in *.
    set (P := primary_term q scale (in_lam inp) (in_x1 inp)) in *.
    set (d := Z.of_nat (length (in_x1 inp))) in *.
    assert (HR0 : 0 <= in_rho inp * q) by (apply Z.mul_nonneg_nonneg; lia).
    assert (HR1 : in_rho inp * q <= (q * q - 1) * q)
      by (apply Z.mul_le_mono_nonneg_r; lia).
    lia. }
  destruct Hc as [Hc0 Hc1]. split; [exact Hc0|]. split; [exact Hc1|].
  unfold sym. cbv zeta. rewrite Zmod_mod.
  rewrite (Z.mod_small (c3_int q xc inp m') N) by lia.
  assert (E : (N <? 2 * c3_int q xc inp m') = false) by (apply Z.ltb_ge; lia).
  rewrite E. reflexivity.
Qed.

(* ---- 2. reduction modulo q ------------------------------------------------------------ *)

Section L17Mod.
Variable q : Z.
Hypothesis Hq : prime q.
Let Hpos : 0 < q := prime_gt0 q Hq.
Let KS := ZpS q Hpos.
Let HKS : flaws KS := ZpS_flaws_pos q Hpos Hq.

Add Field Kfield_l17 : (fl_theory KS HKS).

(* reduction Z -> Z_q as a ring homomorphism that forgets [mod q] *)
Let phi (x : Z) : ZpT q := zp_of q Hpos x.

Lemma phi_mod : forall x, phi (x mod q) = phi x.
Proof. intros x. apply zpT_eq. cbn [phi zp_of proj1_sig]. apply Zmod_mod. Qed.

Lemma phi_add : forall x y, phi (x + y) = fadd KS (phi x) (phi y).
Proof. intros. apply zp_of_add. Qed.

Lemma phi_mul : forall x y, phi (x * y) = fmul KS (phi x) (phi y).
Proof. intros. apply zp_of_mul. Qed.

Lemma phi_fadd : forall x y, phi (fadd (Zp q) x y) = fadd KS (phi x) (phi y).
Proof. intros. cbn [fadd Zp]. rewrite phi_mod. apply phi_add. Qed.

Lemma phi_fmul : forall x y, phi (fmul (Zp q) x y) = fmul KS (phi x) (phi y).
Proof. intros. cbn [fmul Zp]. rewrite phi_mod. apply phi_mul. Qed.

Lemma phi_fopp : forall x, phi (fopp (Zp q) x) = fopp KS (phi x).
Proof. intros. cbn [fopp Zp]. rewrite phi_mod. apply zp_of_opp. Qed.

Lemma phi_q : phi q = f0 KS.
Proof. apply zpT_eq. cbn [phi zp_of proj1_sig KS ZpS f0 Zp]. apply Z_mod_same_full. Qed.

Lemma phi_0 : phi 0 = f0 KS.
Proof. apply zp_of_0. Qed.

Lemma phi_eq_mod : forall x y, phi x = phi y -> x mod q = y mod q.
Proof. intros x y H. apply (f_equal (@proj1_sig _ _)) in H. exact H. Qed.

Lemma phi_primary : forall s lam x1,
  phi (primary_term q s lam x1) = fmul KS (phi s) (phi (primary_additive q lam x1)).
Proof.
  intros s lam. induction lam as [|l lam IH]; intros x1.
  - cbn [primary_term primary_additive]. rewrite phi_0. ring.
  - destruct x1 as [|x x1].
    + cbn [primary_term primary_additive]. rewrite phi_0. ring.
    + cbn [primary_term primary_additive]. unfold K.
      rewrite phi_add, phi_mul, phi_fmul, IH, phi_fadd, phi_fmul, phi_mod. ring.
Qed.

Theorem lindell17_c3_mod_q : forall xc inp m',
  c3_int q xc inp m' mod q =
  fmul (Zp q) (finv (Zp q) (in_k2 inp))
    (fadd (Zp q) m'
       (fmul (Zp q) (r_of q xc inp)
          (fadd (Zp q) (primary_additive q (in_lam inp) (in_x1 inp)) (in_x2 inp)))).
Proof.
  intros xc inp m'.
  set (rhs := fmul (Zp q) (finv (Zp q) (in_k2 inp)) _).
  assert (Hr : rhs = rhs mod q).
  { unfold rhs. cbn [fmul Zp]. rewrite Zmod_mod. reflexivity. }
  rewrite Hr. apply phi_eq_mod. unfold rhs, c3_int. cbv zeta. unfold K.
  rewrite !phi_add, phi_mul, phi_q, !phi_fmul, phi_primary, !phi_fadd, phi_fopp, !phi_fmul, !phi_fadd.
  ring.
Qed.

End L17Mod.

(* ---- 3. raw field facts of [Zp q] on canonical values (lifted to ZpS, proved by field) -- *)

Section L17Raw.
Variable q : Z.
Hypothesis Hq : prime q.
Let Hpos : 0 < q := prime_gt0 q Hq.
Let KS := ZpS q Hpos.
Let HKS : flaws KS := ZpS_flaws_pos q Hpos Hq.

Add Field Kfield_l17raw : (fl_theory KS HKS).

Lemma lift_canon : forall a, in_Zp q a -> exists a' : ZpT q, proj1_sig a' = a.
Proof. intros a Ha. exists (zp_of q Hpos a). apply zp_of_val_small. exact Ha. Qed.

Lemma lift_nz : forall a' : ZpT q, proj1_sig a' <> 0 -> a' <> f0 KS.
Proof. intros a' H E. apply H. rewrite E. reflexivity. Qed.

Lemma lift_nz_inv : forall a' : ZpT q, a' <> f0 KS -> proj1_sig a' <> 0.
Proof. intros a' H E. apply H. apply zpT_eq. exact E. Qed.

Lemma raw_mul_nz : forall a b, in_Zp q a -> in_Zp q b -> a <> 0 -> b <> 0 ->
  fmul (Zp q) a b <> 0.
Proof.
  intros a b Ha Hb. destruct (lift_canon a Ha) as [a' <-]. destruct (lift_canon b Hb) as [b' <-].
  intros Ha0 Hb0. apply lift_nz in Ha0. apply lift_nz in Hb0.
  change (proj1_sig (fmul KS a' b') <> 0). apply lift_nz_inv.
  intros E. apply Hb0.
  assert (E' : b' = fdiv KS (fmul KS a' b') a') by (field; exact Ha0).
  rewrite E', E. field. exact Ha0.
Qed.

Lemma raw_div_nz : forall t k, in_Zp q t -> in_Zp q k -> t <> 0 -> k <> 0 ->
  fdiv (Zp q) t k <> 0.
Proof.
  intros t k Ht Hk. destruct (lift_canon t Ht) as [t' <-]. destruct (lift_canon k Hk) as [k' <-].
  intros Ht0 Hk0. apply lift_nz in Ht0. apply lift_nz in Hk0.
  change (proj1_sig (fdiv KS t' k') <> 0). apply lift_nz_inv.
  intros E. apply Ht0.
  assert (E' : t' = fmul KS (fdiv KS t' k') k') by (field; exact Hk0).
  rewrite E', E. ring.
Qed.

Lemma raw_opp_nz : forall s, in_Zp q s -> s <> 0 -> fopp (Zp q) s <> 0.
Proof.
  intros s Hs. destruct (lift_canon s Hs) as [s' <-]. intros Hs0. apply lift_nz in Hs0.
  change (proj1_sig (fopp KS s') <> 0). apply lift_nz_inv.
  intros E. apply Hs0.
  assert (E' : s' = fopp KS (fopp KS s')) by ring.
  rewrite E', E. ring.
Qed.

(* k1^-1 (k2^-1 t) = t / (k1 k2) *)
Lemma raw_two_inverses : forall k1 k2 t, in_Zp q k1 -> in_Zp q k2 -> in_Zp q t ->
  k1 <> 0 -> k2 <> 0 ->
  fmul (Zp q) (finv (Zp q) k1) (fmul (Zp q) (finv (Zp q) k2) t) =
  fdiv (Zp q) t (fmul (Zp q) k1 k2).
Proof.
  intros k1 k2 t H1 H2 Ht.
  destruct (lift_canon k1 H1) as [a <-]. destruct (lift_canon k2 H2) as [b <-].
  destruct (lift_canon t Ht) as [c <-]. intros Ha Hb. apply lift_nz in Ha. apply lift_nz in Hb.
  change (proj1_sig (fmul KS (finv KS a) (fmul KS (finv KS b) c)) =
          proj1_sig (fdiv KS c (fmul KS a b))).
  f_equal. field. split; assumption.
Qed.

(* t / (t / k) = k   and   t / (-(t / k)) = -k *)
Lemma raw_div_div : forall t k, in_Zp q t -> in_Zp q k -> t <> 0 -> k <> 0 ->
  fdiv (Zp q) t (fdiv (Zp q) t k) = k.
Proof.
  intros t k Ht Hk. destruct (lift_canon t Ht) as [t' <-]. destruct (lift_canon k Hk) as [k' <-].
  intros Ht0 Hk0. apply lift_nz in Ht0. apply lift_nz in Hk0.
  change (proj1_sig (fdiv KS t' (fdiv KS t' k')) = proj1_sig k').
  f_equal. field. split; assumption.
Qed.

Lemma raw_div_opp_div : forall t k, in_Zp q t -> in_Zp q k -> t <> 0 -> k <> 0 ->
  fdiv (Zp q) t (fopp (Zp q) (fdiv (Zp q) t k)) = fopp (Zp q) k.
Proof.
  intros t k Ht Hk. destruct (lift_canon t Ht) as [t' <-]. destruct (lift_canon k Hk) as [k' <-].
  intros Ht0 Hk0. apply lift_nz in Ht0. apply lift_nz in Hk0.
  change (proj1_sig (fdiv KS t' (fopp KS (fdiv KS t' k'))) = proj1_sig (fopp KS k')).
  f_equal. field. split; [exact Hk0|]. intros E. apply Ht0.
  assert (E' : t' = fopp KS (fopp KS t')) by ring. rewrite E', E. ring.
Qed.

End L17Raw.

(* ---- 4. the honest run ---------------------------------------------------------------- *)

Section L17Valid.
Variable q N : Z.
Hypothesis Hq : prime q.
Variable xc : Z -> Z.
Variable yodd xover high : Z -> bool.
Hypothesis xc_range : forall k, 0 <= xc k < q.
Hypothesis xc_neg : forall k, xc (fopp (Zp q) k) = xc k.
Hypothesis yodd_neg : forall k, 0 < k < q -> yodd (fopp (Zp q) k) = negb (yodd k).
Hypothesis xover_neg : forall k, xover (fopp (Zp q) k) = xover k.

Let Hpos : 0 < q := prime_gt0 q Hq.

Lemma fis0_raw_false : forall a, a <> 0 -> fis0 (Zp q) a = false.
Proof. intros a Ha. unfold fis0. cbn [feqb Zp f0]. apply Z.eqb_neq. exact Ha. Qed.

Lemma feqb_raw_refl : forall a, feqb (Zp q) a a = true.
Proof. intros a. cbn [feqb Zp]. apply Z.eqb_refl. Qed.

(* the verifier accepts the closed form *)
Lemma verify_expected : forall inp m x,
  in_Zp q (in_k1 inp) -> in_Zp q (in_k2 inp) -> in_k1 inp <> 0 -> in_k2 inp <> 0 ->
  xc (big_r q inp) <> 0 ->
  fadd (Zp q) m (fmul (Zp q) (xc (big_r q inp)) x) <> 0 ->
  verify q xc yodd xover m x (expected_sig q xc yodd xover high inp m x) = true.
Proof.
  intros inp m x Hk1 Hk2 Hk10 Hk20 Hrx HT.
  unfold expected_sig, normalise. cbv zeta. unfold K.
  set (k := big_r q inp) in *. set (rx := xc k) in *.
  set (T := fadd (Zp q) m (fmul (Zp q) rx x)) in *.
  assert (Hk : in_Zp q k) by (apply Zp_closed_mul; exact Hpos).
  assert (Hk0 : k <> 0) by (apply raw_mul_nz; assumption).
  assert (HTc : in_Zp q T) by (apply Zp_closed_add; exact Hpos).
  set (s := fdiv (Zp q) T k).
  assert (Hsc : in_Zp q s) by (apply Zp_closed_div; exact Hpos).
  assert (Hs0 : s <> 0) by (apply raw_div_nz; assumption).
  destruct (high s).
  - unfold verify, recid. unfold K. cbn [fst snd]. fold T.
    unfold s at 2 3 4. rewrite (raw_div_opp_div q Hq T k HTc Hk HT Hk0).
    rewrite (fis0_raw_false rx Hrx), (fis0_raw_false _ (raw_opp_nz q Hq s Hsc Hs0)).
    rewrite xc_neg, xover_neg, (yodd_neg k) by (unfold in_Zp in Hk; lia).
    fold rx. rewrite feqb_raw_refl, !eqb_reflx. reflexivity.
  - unfold verify, recid. unfold K. cbn [fst snd]. fold T.
    unfold s at 2 3 4. rewrite (raw_div_div q Hq T k HTc Hk HT Hk0).
    rewrite (fis0_raw_false rx Hrx), (fis0_raw_false s Hs0).
    fold rx. rewrite feqb_raw_refl, !eqb_reflx. reflexivity.
Qed.

Lemma calc_c3_ok : forall inp m',
  in_x1 inp <> [] -> length (in_lam inp) = length (in_x1 inp) -> in_k2 inp <> 0 ->
  bound_ok q N (Z.of_nat (length (in_x1 inp))) = true ->
  calc_c3 q N xc inp m' = Some (c3_int q xc inp m' mod N).
Proof.
  intros inp m' Hne Hlen Hk2 Hb. unfold calc_c3. unfold K.
  rewrite Hlen, Nat.eqb_refl, (fis0_raw_false _ Hk2), Hb. cbn [negb].
  destruct (in_x1 inp); [congruence|reflexivity].
Qed.

Theorem lindell17_signature_valid : forall inp m x,
  in_Zp q (in_k1 inp) -> in_Zp q (in_k2 inp) ->
  0 <= in_rho inp < q * q ->
  Forall (fun x => 0 <= x < 3 * q) (in_x1 inp) ->
  in_x1 inp <> [] ->
  length (in_lam inp) = length (in_x1 inp) ->
  bound_ok q N (Z.of_nat (length (in_x1 inp))) = true ->
  fadd (Zp q) (primary_additive q (in_lam inp) (in_x1 inp)) (in_x2 inp) = x
    (* C02 to_additive_sums for the two-party quorum *) ->
  in_k1 inp <> 0 -> in_k2 inp <> 0 ->
  xc (big_r q inp) <> 0 ->
  fadd (Zp q) m (fmul (Zp q) (xc (big_r q inp)) x) <> 0 ->
  sign q N xc yodd xover high inp m x = Some (expected_sig q xc yodd xover high inp m x) /\
  verify q xc yodd xover m x (expected_sig q xc yodd xover high inp m x) = true.
Proof.
  intros inp m x Hk1 Hk2 Hrho Hx1 Hne Hlen Hb Hx Hk10 Hk20 Hrx HT.
  pose proof (verify_expected inp m x Hk1 Hk2 Hk10 Hk20 Hrx HT) as Hv.
  split; [|exact Hv].
  unfold sign. rewrite (calc_c3_ok inp m Hne Hlen Hk20 Hb).
  destruct (lindell17_no_wrap q N xc inp m Hpos Hrho Hx1 Hlen Hb) as (Hc0 & _ & Hsym).
  unfold round5. cbv zeta. rewrite Hsym.
  assert (Ets : to_scalar q (c3_int q xc inp m) = c3_int q xc inp m mod q).
  { unfold to_scalar.
    assert (E : (c3_int q xc inp m <? 0) = false) by (apply Z.ltb_ge; exact Hc0).
    rewrite E. reflexivity. }
  rewrite Ets, (lindell17_c3_mod_q q Hq xc inp m), Hx. unfold K, r_of.
  set (k := big_r q inp) in *. set (rx := xc k) in *.
  set (T := fadd (Zp q) m (fmul (Zp q) rx x)) in *.
  assert (Hk : in_Zp q k) by (apply Zp_closed_mul; exact Hpos).
  assert (Hk0 : k <> 0) by (apply raw_mul_nz; assumption).
  assert (HTc : in_Zp q T) by (apply Zp_closed_add; exact Hpos).
  rewrite (raw_two_inverses q Hq (in_k1 inp) (in_k2 inp) T Hk1 Hk2 HTc Hk10 Hk20).
  change (fmul (Zp q) (in_k1 inp) (in_k2 inp)) with k.
  rewrite (fis0_raw_false _ Hk10), (fis0_raw_false k Hk0), (fis0_raw_false rx Hrx).
  rewrite (fis0_raw_false _ (raw_div_nz q Hq T k HTc Hk HT Hk0)). cbn [orb].
  change (normalise q high (rx, fdiv (Zp q) T k, recid yodd xover k))
    with (expected_sig q xc yodd xover high inp m x).
  rewrite Hv. reflexivity.
Qed.

End L17Valid.
