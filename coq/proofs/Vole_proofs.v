(* Vole_proofs.v — lemmas about model/Vole.v (random-VOLE multiplication, C09):
   product correctness, completeness of the mu check, and the exact acceptance sets
   when Alice's Mu / Eta / ATilde are altered.  Over an arbitrary field. *)
From Coq Require Import List Bool Arith Lia Field Ring.
Import ListNotations.
Require Import V.base.Fld V.model.Vole.

Section VoleProofs.
Context {F : Type} (K : fops F) (HK : flaws K).
Add Field Kf : (fl_theory K HK).

Local Notation "0" := (f0 K).
Local Notation "1" := (f1 K).
Local Notation "x + y" := (fadd K x y).
Local Notation "x - y" := (fsub K x y).
Local Notation "x * y" := (fmul K x y).
Local Notation vec := (@vec F).
Local Notation mat := (@mat F).

(* ---- tables ---------------------------------------------------------------- *)

Lemma nth_map_seq {A} (f : nat -> A) n i d : i < n -> nth i (map f (seq 0 n)) d = f i.
Proof.
  intros Hi. rewrite (nth_indep _ d (f 0%nat)) by (rewrite map_length, seq_length; exact Hi).
  rewrite (map_nth f (seq 0 n) 0%nat i). rewrite seq_nth by exact Hi. reflexivity.
Qed.

Lemma vget_tab n (f : nat -> F) i : i < n -> vget K (tab n f) i = f i.
Proof. intros Hi. unfold vget, tab. apply nth_map_seq; exact Hi. Qed.

Lemma mget_tab2 n m (f : nat -> nat -> F) j i : j < n -> i < m -> mget K (tab2 n m f) j i = f j i.
Proof.
  intros Hj Hi. unfold mget, tab2. rewrite nth_map_seq by exact Hj. apply vget_tab; exact Hi.
Qed.

Lemma map_seq_ext {A} (f g : nat -> A) n :
  (forall i, i < n -> f i = g i) -> map f (seq 0 n) = map g (seq 0 n).
Proof.
  intros H. apply map_ext_in. intros i Hi. apply in_seq in Hi. apply H. lia.
Qed.

Lemma tab_ext n (f g : nat -> F) : (forall i, i < n -> f i = g i) -> tab n f = tab n g.
Proof. apply map_seq_ext. Qed.

Lemma tab2_ext n m (f g : nat -> nat -> F) :
  (forall j i, j < n -> i < m -> f j i = g j i) -> tab2 n m f = tab2 n m g.
Proof.
  intros H. unfold tab2. apply map_seq_ext. intros j Hj. apply tab_ext. intros i Hi. apply H; assumption.
Qed.

Lemma map_seq_inj {A} (f g : nat -> A) n :
  map f (seq 0 n) = map g (seq 0 n) -> forall i, i < n -> f i = g i.
Proof.
  intros H i Hi.
  rewrite <- (nth_map_seq f n i (f 0%nat) Hi), <- (nth_map_seq g n i (f 0%nat) Hi), H. reflexivity.
Qed.

Lemma tab2_inj n m (f g : nat -> nat -> F) :
  tab2 n m f = tab2 n m g -> forall j i, j < n -> i < m -> f j i = g j i.
Proof.
  intros H j i Hj Hi. unfold tab2 in H.
  pose proof (map_seq_inj _ _ _ H j Hj) as Hr. unfold tab in Hr.
  exact (map_seq_inj _ _ _ Hr i Hi).
Qed.

(* ---- equality tests ------------------------------------------------------------ *)

Lemma veqb_eq a b : veqb K a b = true <-> a = b.
Proof.
  revert b; induction a as [|x a IH]; intros [|y b]; cbn; split; intros H; try reflexivity; try discriminate.
  - apply andb_prop in H as [H1 H2]. apply (fl_eqb K HK) in H1. apply IH in H2. subst; reflexivity.
  - injection H as -> ->. apply andb_true_intro; split; [apply (fl_eqb K HK); reflexivity | apply IH; reflexivity].
Qed.

Lemma mateqb_eq a b : mateqb K a b = true <-> a = b.
Proof.
  revert b; induction a as [|x a IH]; intros [|y b]; cbn; split; intros H; try reflexivity; try discriminate.
  - apply andb_prop in H as [H1 H2]. apply veqb_eq in H1. apply IH in H2. subst; reflexivity.
  - injection H as -> ->. apply andb_true_intro; split; [apply veqb_eq; reflexivity | apply IH; reflexivity].
Qed.

(* ---- loops ----------------------------------------------------------------------- *)

Lemma acc_upto_init n init f : acc_upto K n init f = init + acc_upto K n 0 f.
Proof. induction n as [|n IH]; cbn [acc_upto]; [ring | rewrite IH; ring]. Qed.

Lemma sub_upto_acc n f : sub_upto K n f = 0 - acc_upto K n 0 f.
Proof. induction n as [|n IH]; cbn [sub_upto acc_upto]; [ring | rewrite IH; ring]. Qed.

Lemma acc0_ext n f g : (forall i, i < n -> f i = g i) -> acc_upto K n 0 f = acc_upto K n 0 g.
Proof.
  induction n as [|n IH]; intros H; cbn [acc_upto]; [reflexivity|].
  rewrite IH by (intros i Hi; apply H; lia). rewrite (H n) by lia. reflexivity.
Qed.

Lemma acc0_add n f g : acc_upto K n 0 (fun i => f i + g i) = acc_upto K n 0 f + acc_upto K n 0 g.
Proof. induction n as [|n IH]; cbn [acc_upto]; [ring | rewrite IH; ring]. Qed.

Lemma acc0_sub n f g : acc_upto K n 0 (fun i => f i - g i) = acc_upto K n 0 f - acc_upto K n 0 g.
Proof. induction n as [|n IH]; cbn [acc_upto]; [ring | rewrite IH; ring]. Qed.

Lemma acc0_scal n c f : acc_upto K n 0 (fun i => f i * c) = acc_upto K n 0 f * c.
Proof. induction n as [|n IH]; cbn [acc_upto]; [ring | rewrite IH; ring]. Qed.

(* ---- the honest run ----------------------------------------------------------------- *)

Section Run.
Variable ro_theta : mat -> nat -> nat -> F.
Variables (l rho xi : nat) (g a ahat : vec) (alpha0 alpha1 : mat) (beta : list bool).

Let at_ := alice_atilde K l rho xi a ahat alpha0 alpha1.
Let theta := ro_theta at_.
Let gamma := ot_gamma K xi (l + rho) beta alpha0 alpha1.
Let msg := fst (alice_round3 K ro_theta l rho xi g a ahat alpha0 alpha1).
Let c := snd (alice_round3 K ro_theta l rho xi g a ahat alpha0 alpha1).

Let A0 j i := mget K alpha0 j i.
Let bF j := betaF K beta j.

Lemma gamma_at j i : j < xi -> i < l + rho ->
  mget K gamma j i = if bget beta j then mget K alpha1 j i else mget K alpha0 j i.
Proof. intros Hj Hi. unfold gamma, ot_gamma. rewrite mget_tab2 by assumption. reflexivity. Qed.

Lemma atilde_in j i : j < xi -> i < l ->
  mget K at_ j i = mget K alpha0 j i - mget K alpha1 j i + vget K a i.
Proof.
  intros Hj Hi. unfold at_, alice_atilde. rewrite mget_tab2 by lia.
  destruct (Nat.ltb_spec i l); [reflexivity | lia].
Qed.

Lemma atilde_chk j k : j < xi -> k < rho ->
  mget K at_ j (l + k) = mget K alpha0 j (l + k) - mget K alpha1 j (l + k) + vget K ahat k.
Proof.
  intros Hj Hk. unfold at_, alice_atilde. rewrite mget_tab2 by lia.
  destruct (Nat.ltb_spec (l + k) l); [lia|]. replace (l + k - l)%nat with k by lia. reflexivity.
Qed.

(* with an arbitrary (possibly altered) aTilde = honest + dl, Bob's dDot and dHat *)
Lemma ddot_alt (dl : mat) j i : j < xi -> i < l ->
  bob_ddot K beta gamma (madd K xi (l + rho) at_ dl) j i
  = A0 j i + bF j * (vget K a i + mget K dl j i).
Proof.
  intros Hj Hi. unfold bob_ddot, madd. rewrite mget_tab2 by lia.
  rewrite gamma_at, atilde_in by lia. unfold bF, betaF, A0.
  destruct (bget beta j); ring.
Qed.

Lemma dhat_alt (dl : mat) j k : j < xi -> k < rho ->
  bob_dhat K l beta gamma (madd K xi (l + rho) at_ dl) j k
  = A0 j (l + k) + bF j * (vget K ahat k + mget K dl j (l + k)).
Proof.
  intros Hj Hk. unfold bob_dhat, madd. rewrite mget_tab2 by lia.
  rewrite gamma_at, atilde_chk by lia. unfold bF, betaF, A0.
  destruct (bget beta j); ring.
Qed.

Definition zmat : mat := [].
Lemma mget_zmat j i : mget K zmat j i = 0.
Proof. unfold mget, zmat, vget. destruct j; destruct i; reflexivity. Qed.

Lemma madd_zmat : madd K xi (l + rho) at_ zmat = at_.
Proof.
  unfold madd. unfold at_ at 2. unfold alice_atilde. apply tab2_ext. intros j i Hj Hi.
  rewrite mget_zmat. fold at_.
  unfold at_, alice_atilde. rewrite mget_tab2 by assumption. ring.
Qed.

Lemma msg_atilde : m_atilde msg = at_.
Proof. reflexivity. Qed.
Lemma msg_eta : m_eta msg = alice_eta K l rho a ahat theta.
Proof. reflexivity. Qed.
Lemma msg_mu : m_mu msg = alice_mubold K l rho xi alpha0 theta.
Proof. reflexivity. Qed.

Lemma eta_at k : k < rho ->
  vget K (alice_eta K l rho a ahat theta) k = vget K ahat k + acc_upto K l 0 (fun i => theta i k * vget K a i).
Proof. intros Hk. unfold alice_eta. rewrite vget_tab by exact Hk. apply acc_upto_init. Qed.

(* Bob's recomputed matrix for a message (atilde + dl, eta', _), oracle value th' *)
Lemma muprime_entry (dl : mat) (eta' : vec) mu' th' j k : j < xi -> k < rho ->
  mget K (bob_muprime K l rho xi beta gamma (mk_r3msg (madd K xi (l + rho) at_ dl) eta' mu') th') j k
  = A0 j (l + k) + bF j * (vget K ahat k + mget K dl j (l + k)) - bF j * vget K eta' k
    + acc_upto K l 0 (fun i => th' i k * (A0 j i + bF j * (vget K a i + mget K dl j i))).
Proof.
  intros Hj Hk. unfold bob_muprime. rewrite mget_tab2 by assumption. cbn [m_atilde m_eta].
  rewrite acc_upto_init, dhat_alt by assumption. f_equal.
  apply acc0_ext. intros i Hi. rewrite ddot_alt by assumption. reflexivity.
Qed.

Lemma mubold_entry j k : j < xi -> k < rho ->
  mget K (alice_mubold K l rho xi alpha0 theta) j k
  = A0 j (l + k) + acc_upto K l 0 (fun i => theta i k * A0 j i).
Proof.
  intros Hj Hk. unfold alice_mubold. rewrite mget_tab2 by assumption. apply acc_upto_init.
Qed.

(* the difference between Bob's entry and Alice's entry, for an arbitrary alteration *)
Definition coincidence (dl : mat) (eta' : vec) (th' : nat -> nat -> F) (j k : nat) : F :=
  bF j * (mget K dl j (l + k) - (vget K eta' k - vget K (alice_eta K l rho a ahat theta) k))
  + (acc_upto K l 0 (fun i => th' i k * (A0 j i + bF j * (vget K a i + mget K dl j i)))
     - acc_upto K l 0 (fun i => theta i k * (A0 j i + bF j * vget K a i))).

Lemma entry_diff (dl : mat) (eta' : vec) mu' th' j k : j < xi -> k < rho ->
  mget K (bob_muprime K l rho xi beta gamma (mk_r3msg (madd K xi (l + rho) at_ dl) eta' mu') th') j k
  - mget K (alice_mubold K l rho xi alpha0 theta) j k
  = coincidence dl eta' th' j k.
Proof.
  intros Hj Hk. rewrite muprime_entry, mubold_entry by assumption. unfold coincidence.
  rewrite eta_at by assumption.
  assert (Hs : acc_upto K l 0 (fun i => theta i k * (A0 j i + bF j * vget K a i))
          = acc_upto K l 0 (fun i => theta i k * A0 j i) + bF j * acc_upto K l 0 (fun i => theta i k * vget K a i)).
  { rewrite <- (acc0_ext l (fun i => theta i k * A0 j i + (theta i k * vget K a i) * bF j))
      by (intros; ring).
    rewrite acc0_add, acc0_scal. ring. }
  rewrite Hs. ring.
Qed.

Lemma sub_zero_eq x y : x - y = 0 <-> x = y.
Proof. split; intros H; [ | subst; ring]. replace x with ((x - y) + y) by ring. rewrite H. ring. Qed.

(* Bob's verdict on (atilde + dl, eta', mubold honest): accepts iff every entry coincides *)
Lemma accept_iff (dl : mat) (eta' : vec) :
  let msg' := mk_r3msg (madd K xi (l + rho) at_ dl) eta' (m_mu msg) in
  (exists d, bob_round4 K ro_theta l rho xi g beta gamma msg' = Some d)
  <-> forall j k, j < xi -> k < rho ->
        coincidence dl eta' (ro_theta (madd K xi (l + rho) at_ dl)) j k = 0.
Proof.
  cbn zeta. unfold bob_round4. cbn [m_atilde m_mu].
  set (th' := ro_theta (madd K xi (l + rho) at_ dl)).
  set (M' := bob_muprime K l rho xi beta gamma _ th').
  rewrite msg_mu.
  split.
  - intros [d Hd]. destruct (mateqb K M' _) eqn:E; [|discriminate].
    apply mateqb_eq in E. intros j k Hj Hk.
    pose proof (entry_diff dl eta' (m_mu msg) th' j k Hj Hk) as Hd'. fold M' in Hd'.
    rewrite <- Hd', E. ring.
  - intros H.
    assert (E : M' = alice_mubold K l rho xi alpha0 theta).
    { unfold M', bob_muprime, alice_mubold. apply tab2_ext. intros j k Hj Hk.
      pose proof (entry_diff dl eta' (m_mu msg) th' j k Hj Hk) as Hd.
      rewrite (H j k Hj Hk) in Hd. apply (proj1 (sub_zero_eq _ _)) in Hd.
      unfold bob_muprime, alice_mubold in Hd. rewrite !mget_tab2 in Hd by assumption. exact Hd. }
    rewrite E. destruct (mateqb K _ _) eqn:E2; [eexists; reflexivity|].
    assert (E3 : mateqb K (alice_mubold K l rho xi alpha0 theta) (alice_mubold K l rho xi alpha0 theta) = true)
      by (apply mateqb_eq; reflexivity).
    rewrite E3 in E2; discriminate.
Qed.

Lemma coincidence_honest j k : j < xi -> k < rho ->
  coincidence zmat (m_eta msg) theta j k = 0.
Proof.
  intros Hj Hk. unfold coincidence. rewrite msg_eta, !mget_zmat.
  rewrite (acc0_ext l (fun i => theta i k * (A0 j i + bF j * (vget K a i + mget K zmat j i)))
                      (fun i => theta i k * (A0 j i + bF j * vget K a i)))
    by (intros; rewrite mget_zmat; ring).
  ring.
Qed.

(* ---- vole_check_complete *)
Lemma vole_check_complete_l :
  exists d, bob_round4 K ro_theta l rho xi g beta gamma msg = Some d.
Proof.
  pose proof (accept_iff zmat (m_eta msg)) as H. cbn zeta in H.
  rewrite madd_zmat in H.
  replace (mk_r3msg at_ (m_eta msg) (m_mu msg)) with msg in H by reflexivity.
  apply H. intros j k Hj Hk. fold theta. apply coincidence_honest; assumption.
Qed.

(* ---- vole_product *)
Lemma vole_product_l d :
  bob_round4 K ro_theta l rho xi g beta gamma msg = Some d ->
  forall i, i < l -> vget K c i + vget K d i = vget K a i * bob_b K xi beta g.
Proof.
  intros Hd i Hi. unfold bob_round4 in Hd. destruct (mateqb K _ _); [|discriminate].
  injection Hd as <-. change (m_atilde msg) with at_. change c with (alice_c K l xi g alpha0).
  unfold alice_c, bob_d, bob_b. rewrite !vget_tab by exact Hi.
  rewrite sub_upto_acc. fold at_.
  rewrite (acc0_ext xi (fun j => vget K g j * bob_ddot K beta gamma at_ j i)
                       (fun j => vget K g j * A0 j i + (bF j * vget K g j) * vget K a i)).
  2:{ intros j Hj. rewrite <- madd_zmat. rewrite ddot_alt by assumption. rewrite mget_zmat. ring. }
  rewrite acc0_add, acc0_scal. unfold bF, A0. ring.
Qed.

(* ---- vole_mu_altered: any other mu is rejected *)
Lemma vole_mu_altered_l mu' :
  mu' <> m_mu msg ->
  bob_round4 K ro_theta l rho xi g beta gamma (mk_r3msg (m_atilde msg) (m_eta msg) mu') = None.
Proof.
  intros Hne. destruct vole_check_complete_l as [d Hd].
  unfold bob_round4 in *. cbn [m_atilde m_mu m_eta] in *.
  destruct (mateqb K (bob_muprime K l rho xi beta gamma msg (ro_theta (m_atilde msg))) (m_mu msg)) eqn:E; [|discriminate].
  apply mateqb_eq in E.
  assert (Hsame : bob_muprime K l rho xi beta gamma (mk_r3msg (m_atilde msg) (m_eta msg) mu') (ro_theta (m_atilde msg))
                  = bob_muprime K l rho xi beta gamma msg (ro_theta (m_atilde msg))) by reflexivity.
  rewrite Hsame, E.
  destruct (mateqb K (m_mu msg) mu') eqn:E2; [|reflexivity].
  apply mateqb_eq in E2. congruence.
Qed.

(* ---- vole_eta_altered: exactly which eta' are accepted *)
Lemma vole_eta_altered_l eta' :
  (exists d, bob_round4 K ro_theta l rho xi g beta gamma (mk_r3msg (m_atilde msg) eta' (m_mu msg)) = Some d)
  <-> forall j k, j < xi -> k < rho -> bget beta j = true -> vget K eta' k = vget K (m_eta msg) k.
Proof.
  pose proof (accept_iff zmat eta') as H. cbn zeta in H. rewrite madd_zmat in H.
  rewrite msg_atilde. rewrite H. clear H. fold theta.
  split; intros H j k Hj Hk.
  - intros Hb. specialize (H j k Hj Hk). unfold coincidence in H.
    rewrite (acc0_ext l (fun i => theta i k * (A0 j i + bF j * (vget K a i + mget K zmat j i)))
                        (fun i => theta i k * (A0 j i + bF j * vget K a i))) in H
      by (intros; rewrite mget_zmat; ring).
    rewrite mget_zmat in H. unfold bF, betaF in H. rewrite Hb in H. rewrite msg_eta.
    apply sub_zero_eq.
    replace (vget K eta' k - vget K (alice_eta K l rho a ahat theta) k)
      with (0 - (1 * (0 - (vget K eta' k - vget K (alice_eta K l rho a ahat theta) k))
            + (acc_upto K l 0 (fun i => theta i k * (A0 j i + 1 * vget K a i))
               - acc_upto K l 0 (fun i => theta i k * (A0 j i + 1 * vget K a i))))) by ring.
    rewrite H. ring.
  - unfold coincidence.
    rewrite (acc0_ext l (fun i => theta i k * (A0 j i + bF j * (vget K a i + mget K zmat j i)))
                        (fun i => theta i k * (A0 j i + bF j * vget K a i)))
      by (intros; rewrite mget_zmat; ring).
    rewrite mget_zmat. unfold bF, betaF. specialize (H j k Hj Hk).
    destruct (bget beta j).
    + rewrite (H eq_refl), msg_eta. ring.
    + ring.
Qed.

(* ---- vole_atilde_altered: the exact coincidence set *)
Lemma vole_atilde_altered_l (dl : mat) :
  (exists d, bob_round4 K ro_theta l rho xi g beta gamma
               (mk_r3msg (madd K xi (l + rho) (m_atilde msg) dl) (m_eta msg) (m_mu msg)) = Some d)
  <-> forall j k, j < xi -> k < rho ->
        bF j * mget K dl j (l + k)
        + (acc_upto K l 0 (fun i => ro_theta (madd K xi (l + rho) (m_atilde msg) dl) i k
                                     * (A0 j i + bF j * (vget K a i + mget K dl j i)))
           - acc_upto K l 0 (fun i => theta i k * (A0 j i + bF j * vget K a i))) = 0.
Proof.
  rewrite msg_atilde. rewrite (accept_iff dl (m_eta msg)).
  split; intros H j k Hj Hk; specialize (H j k Hj Hk); unfold coincidence in *; rewrite msg_eta in *.
  - etransitivity; [|exact H]. ring.
  - etransitivity; [|exact H]. ring.
Qed.

End Run.
End VoleProofs.
