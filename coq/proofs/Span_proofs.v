(* Span_proofs.v — row spans, kernels and their duality over an arbitrary field (flaws K),
   on the list representation of model/LinAlg.v.  Used by Msp_proofs.v (C02) and Vss_proofs.v (C05).

   Main facts:
     vecm_lincomb        x·M is the linear combination Σ x_i · row_i
     dot_vecm_mvec       (x·M)·r = x·(M·r)
     span_kernel_excl    t ∈ rowspan(A), A·w = 0  ->  t·w = 0
     span_or_kernel      t ∈ rowspan(A)  \/  exists w, A·w = 0 /\ t·w = 1     (duality)          *)
From Coq Require Import List Arith Bool Lia Field Ring.
Import ListNotations.
Require Import V.base.Fld V.model.LinAlg V.proofs.LinAlg_proofs.

Section Span.
Context {F : Type} (K : fops F) (HK : flaws K).

Add Field Kfield2 : (fl_theory K HK).

Notation "0" := (f0 K).
Notation "1" := (f1 K).
Infix "+" := (fadd K).
Infix "*" := (fmul K).
Infix "-" := (fsub K).

(* ---- vectors ------------------------------------------------------------------------- *)

Definition vadd (u v : list F) : list F := map (fun ab => fst ab + snd ab) (combine u v).
Definition smul (c : F) (u : list F) : list F := map (fun a => c * a) u.

Lemma vadd_length : forall u v, length u = length v -> length (vadd u v) = length u.
Proof. intros. unfold vadd. rewrite map_length, combine_length. lia. Qed.

Lemma smul_length : forall c u, length (smul c u) = length u.
Proof. intros. unfold smul. apply map_length. Qed.

Lemma vadd_cons : forall a u b v, vadd (a :: u) (b :: v) = (a + b) :: vadd u v.
Proof. reflexivity. Qed.

Lemma smul_cons : forall c a u, smul c (a :: u) = (c * a) :: smul c u.
Proof. reflexivity. Qed.

Lemma dot_vadd_l : forall u v r, length u = length v ->
  dot K (vadd u v) r = dot K u r + dot K v r.
Proof.
  induction u as [|a u IH]; intros [|b v] r H; cbn in H; try lia.
  - change (vadd [] []) with (@nil F). rewrite !(dot_nil_l K). ring.
  - destruct r as [|x r].
    + rewrite !(dot_nil_r K). ring.
    + rewrite vadd_cons, !(dot_cons K HK), IH by lia. ring.
Qed.

Lemma dot_smul_l : forall c u r, dot K (smul c u) r = c * dot K u r.
Proof.
  induction u as [|a u IH]; intros r.
  - change (smul c []) with (@nil F). rewrite !(dot_nil_l K). ring.
  - destruct r as [|x r].
    + rewrite !(dot_nil_r K). ring.
    + rewrite smul_cons, !(dot_cons K HK), IH. ring.
Qed.

Lemma dot_vadd_r : forall r u v, length u = length v ->
  dot K r (vadd u v) = dot K r u + dot K r v.
Proof. intros. rewrite (dot_comm K HK), dot_vadd_l by auto. rewrite !(dot_comm K HK r). reflexivity. Qed.

Lemma dot_smul_r : forall c r u, dot K r (smul c u) = c * dot K r u.
Proof. intros. rewrite (dot_comm K HK), dot_smul_l. now rewrite (dot_comm K HK r). Qed.

Lemma nth_vadd : forall u v j, length u = length v -> nth j (vadd u v) 0 = nth j u 0 + nth j v 0.
Proof.
  induction u as [|a u IH]; intros [|b v] j H; cbn in H; try lia.
  - destruct j; cbn; ring.
  - destruct j; cbn [nth vadd map combine fst snd]; [reflexivity|]. apply IH. lia.
Qed.

Lemma nth_smul : forall c u j, nth j (smul c u) 0 = c * nth j u 0.
Proof.
  induction u as [|a u IH]; intros j.
  - destruct j; cbn; ring.
  - destruct j; cbn [nth smul map]; [reflexivity|]. apply IH.
Qed.

Lemma mvec_vadd : forall (M : matrix) u v, length u = length v ->
  mvec K M (vadd u v) = vadd (mvec K M u) (mvec K M v).
Proof.
  induction M as [|r M IH]; intros u v H; [reflexivity|].
  cbn [mvec map]. fold (mvec K M (vadd u v)). fold (mvec K M u). fold (mvec K M v).
  rewrite vadd_cons, dot_vadd_r, IH by auto. reflexivity.
Qed.

Lemma mvec_smul : forall (M : matrix) c u, mvec K M (smul c u) = smul c (mvec K M u).
Proof.
  induction M as [|r M IH]; intros c u; [reflexivity|].
  cbn [mvec map]. fold (mvec K M (smul c u)). fold (mvec K M u).
  rewrite smul_cons, dot_smul_r, IH. reflexivity.
Qed.

Lemma nth_map_seq : forall {B} (f : nat -> B) n s j d,
  nth j (map f (seq s n)) d = if Nat.ltb j n then f (s + j)%nat else d.
Proof.
  intros B f n; induction n as [|n IH]; intros s j d.
  - destruct j; reflexivity.
  - destruct j; cbn [seq map nth].
    + now rewrite Nat.add_0_r.
    + rewrite IH. change (Nat.ltb (S j) (S n)) with (Nat.ltb j n).
      now rewrite Nat.add_succ_r.
Qed.

Lemma nth_unit_vec : forall d i j,
  nth j (unit_vec K d i) 0 = if Nat.ltb j d then (if Nat.eqb i j then 1 else 0) else 0.
Proof. intros. unfold unit_vec. now rewrite nth_map_seq. Qed.

Lemma unit_vec_length : forall d i, length (unit_vec K d i) = d.
Proof. intros. unfold unit_vec. now rewrite map_length, seq_length. Qed.

Lemma dot_unit_r : forall t d j, (j < d)%nat -> dot K t (unit_vec K d j) = nth j t 0.
Proof.
  intros t d j Hj. rewrite (dot_single K HK t (unit_vec K d j) j).
  - rewrite nth_unit_vec. apply Nat.ltb_lt in Hj. rewrite Hj, Nat.eqb_refl. ring.
  - intros k Hk. rewrite nth_unit_vec. destruct (Nat.ltb k d); [|ring].
    destruct (Nat.eqb j k) eqn:E; [apply Nat.eqb_eq in E; lia|ring].
Qed.

(* ---- linear combinations of rows --------------------------------------------------------- *)

(* Σ y_i · row_i as a vector of length d *)
Fixpoint lincomb (d : nat) (y : list F) (A : matrix) : list F :=
  match y, A with
  | c :: y', a :: A' => vadd (smul c a) (lincomb d y' A')
  | _, _ => zero_vec K d
  end.

Definition rows_len (d : nat) (A : @matrix F) : Prop := Forall (fun r => length r = d) A.

Lemma lincomb_length : forall d y A, rows_len d A -> length (lincomb d y A) = d.
Proof.
  intros d y; induction y as [|c y IH]; intros A HA; cbn [lincomb].
  - apply (zero_vec_length K).
  - destruct A as [|a A]; [apply (zero_vec_length K)|].
    inversion HA; subst. rewrite vadd_length; rewrite smul_length; auto. now rewrite IH.
Qed.

Lemma dot_lincomb : forall d y A r, rows_len d A -> length y = length A ->
  dot K (lincomb d y A) r = dot K y (mvec K A r).
Proof.
  intros d y; induction y as [|c y IH]; intros A r HA HL.
  - cbn [lincomb]. now rewrite (dot_zero_l K HK), (dot_nil_l K).
  - destruct A as [|a A]; [cbn in HL; lia|]. inversion HA; subst.
    cbn [lincomb mvec map]. fold (mvec K A r).
    rewrite dot_vadd_l by (rewrite smul_length, lincomb_length; auto).
    rewrite dot_smul_l, (dot_cons K HK), IH by (auto; cbn in HL; lia). reflexivity.
Qed.

Lemma nth_lincomb : forall d y A j, rows_len d A -> length y = length A ->
  nth j (lincomb d y A) 0 = dot K y (col K j A).
Proof.
  intros d y; induction y as [|c y IH]; intros A j HA HL.
  - cbn [lincomb]. now rewrite (nth_zero_vec K), (dot_nil_l K).
  - destruct A as [|a A]; [cbn in HL; lia|]. inversion HA; subst.
    cbn [lincomb col map]. fold (col K j A).
    rewrite nth_vadd by (rewrite smul_length, lincomb_length; auto).
    rewrite nth_smul, (dot_cons K HK), IH by (auto; cbn in HL; lia). reflexivity.
Qed.

(* x·M of the model is that linear combination *)
Lemma vecm_lincomb : forall r c (M : matrix) y, wf_matrix r c M -> (0 < r)%nat -> length y = r ->
  vecm K y M = lincomb c y M.
Proof.
  intros r c M y Hwf Hr Hy. pose proof (ncols_wf r c M Hwf Hr) as Hc. destruct Hwf as [HL HF].
  apply (nth_ext_eq _ _ 0).
  - unfold vecm. rewrite map_length, seq_length, Hc. now rewrite lincomb_length.
  - intros j Hj. unfold vecm in *. rewrite map_length, seq_length, Hc in Hj.
    rewrite nth_lincomb by (auto; lia).
    rewrite (nth_indep _ 0 (dot K y (col K (nth j (seq 0 (ncols M)) O) M)))
      by (rewrite map_length, seq_length; lia).
    rewrite (map_nth (fun j => dot K y (col K j M))). rewrite seq_nth by lia. reflexivity.
Qed.

Lemma dot_vecm_mvec : forall r c (M : matrix) y v, wf_matrix r c M -> (0 < r)%nat -> length y = r ->
  dot K (vecm K y M) v = dot K y (mvec K M v).
Proof.
  intros r c M y v Hwf Hr Hy. rewrite (vecm_lincomb r c M y Hwf Hr Hy).
  destruct Hwf as [HL HF]. apply dot_lincomb; auto. lia.
Qed.

(* ---- span / kernel ----------------------------------------------------------------------------- *)

Definition in_span (d : nat) (A : @matrix F) (t : list F) : Prop :=
  exists y, length y = length A /\ lincomb d y A = t.

Definition in_ker (A : @matrix F) (w : list F) : Prop := Forall (fun a => dot K a w = 0) A.

Lemma in_ker_mvec : forall A w, in_ker A w -> mvec K A w = zero_vec K (length A).
Proof.
  induction A as [|a A IH]; intros w H; [reflexivity|]. inversion H; subst.
  cbn [mvec map length zero_vec repeat]. fold (mvec K A w). now rewrite H2, IH.
Qed.

Theorem span_kernel_excl : forall d A t w, rows_len d A -> in_span d A t -> in_ker A w -> dot K t w = 0.
Proof.
  intros d A t w HA [y [Hy <-]] Hk. rewrite dot_lincomb by auto.
  rewrite (in_ker_mvec A w Hk). apply (dot_zero_r K HK).
Qed.

Lemma in_span_cons_tail : forall d a A t, rows_len d (a :: A) -> length t = d -> in_span d A t -> in_span d (a :: A) t.
Proof.
  intros d a A t HA Ht [y [Hy Hl]]. inversion HA; subst. exists (0 :: y). split; [cbn; lia|].
  cbn [lincomb]. apply (nth_ext_eq _ _ 0).
  - rewrite vadd_length; rewrite smul_length; auto. now rewrite lincomb_length.
  - intros j _. rewrite nth_vadd by (rewrite smul_length, lincomb_length; auto).
    rewrite nth_smul, Hl. ring.
Qed.

(* duality, by induction on the rows *)
Theorem span_or_kernel : forall d A t, rows_len d A -> length t = d ->
  in_span d A t \/ exists w, length w = d /\ in_ker A w /\ dot K t w = 1.
Proof.
  intros d A; induction A as [|a A IH]; intros t HA Ht.
  - (* no rows: t = 0 or some coordinate is non-zero *)
    assert (Hdec : (forall j, nth j t 0 = 0) \/ exists j, (j < length t)%nat /\ nth j t 0 <> 0).
    { clear -HK. induction t as [|x t IHt].
      - left. intros [|j]; reflexivity.
      - destruct (feqb K x 0) eqn:E.
        + apply (fl_eqb K HK) in E. subst x. destruct IHt as [Hz | [j [Hj Hn]]].
          * left. intros [|j]; [reflexivity|apply Hz].
          * right. exists (S j). split; [cbn; lia|exact Hn].
        + right. exists O. split; [cbn; lia|]. cbn. intro Hx. subst x.
          assert (feqb K 0 0 = true) by now apply (fl_eqb K HK). congruence. }
    destruct Hdec as [Hz | [j [Hj Hn]]].
    + left. exists []. split; [reflexivity|]. cbn [lincomb].
      apply (nth_ext_eq _ _ 0); [now rewrite (zero_vec_length K)|].
      intros k _. now rewrite (nth_zero_vec K), Hz.
    + right. exists (smul (finv K (nth j t 0)) (unit_vec K d j)). split; [|split].
      * now rewrite smul_length, unit_vec_length.
      * constructor.
      * rewrite dot_smul_r.
        assert (Hu : dot K t (unit_vec K d j) = nth j t 0) by (apply dot_unit_r; lia).
        rewrite Hu. apply (finv_l K HK). exact Hn.
  - pose proof (Forall_inv HA) as Ha; pose proof (Forall_inv_tail HA) as HA'. cbn beta in Ha.
    destruct (IH a HA' Ha) as [Hspan_a | [u [Hu [Hku Hau]]]].
    + (* a is in the span of the other rows: span and kernel are those of A *)
      destruct (IH t HA' Ht) as [Hs | [w [Hw [Hkw Htw]]]].
      * left. now apply in_span_cons_tail.
      * right. exists w. split; [auto|split; [|auto]].
        constructor; [|exact Hkw]. now apply (span_kernel_excl d A a w).
    + (* some u in the kernel of A has a·u = 1 *)
      set (t' := vadd t (smul (0 - dot K t u) a)).
      assert (Ht' : length t' = d).
      { unfold t'. rewrite vadd_length; rewrite ?smul_length; lia. }
      destruct (IH t' HA' Ht') as [[y [Hy Hl]] | [w' [Hw' [Hkw' Htw']]]].
      * left. exists (dot K t u :: y). split; [cbn; lia|]. cbn [lincomb]. rewrite Hl.
        assert (Hsa : forall c, length (smul c a) = d) by (intros; rewrite smul_length; lia).
        apply (nth_ext_eq _ _ 0).
        { rewrite vadd_length; rewrite Hsa; lia. }
        intros j _. rewrite nth_vadd by (rewrite Hsa; lia).
        unfold t'. rewrite nth_vadd by (rewrite Hsa; lia). rewrite !nth_smul. ring.
      * right. exists (vadd w' (smul (0 - dot K a w') u)).
        assert (Hlen : length w' = length (smul (0 - dot K a w') u)) by (rewrite smul_length; lia).
        split; [rewrite vadd_length; lia|]. split.
        { constructor.
          - rewrite dot_vadd_r, dot_smul_r, Hau by lia.
            unfold in_ker in Hkw'. ring.
          - unfold in_ker in *. rewrite Forall_forall in *. intros b Hb.
            rewrite dot_vadd_r, dot_smul_r by lia. rewrite (Hkw' b Hb), (Hku b Hb). ring. }
        { rewrite dot_vadd_r, dot_smul_r by lia.
          unfold t' in Htw'. rewrite dot_vadd_l, dot_smul_l in Htw' by (rewrite smul_length; lia).
          rewrite <- Htw'. ring. }
Qed.

End Span.
