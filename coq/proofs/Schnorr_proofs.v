(* Schnorr_proofs.v — lemmas about the exponent model of the Schnorr-like signatures
   (model/Schnorr.v).  Section hypotheses (they stay hypotheses of the property theorems):
     n_prime     the group order is prime
     yodd_neg    negation flips the parity of y
     chal_range  the challenge is a scalar
   Collisions of the Fiat–Shamir challenge are not excluded by hypothesis: the alteration theorems
   conclude that the two challenges are equal (a collision of the hash), which is the written coincidence set. *)
From Coq Require Import ZArith Znumtheory Lia List Bool Zdiv Morphisms Setoid.
From Coq Require Import ZifyBool.
Import ListNotations.
Require Import V.model.Schnorr V.proofs.ZnInv_proofs.
Local Open Scope Z_scope.

Arguments be_sig {M} _.
Arguments be_pk {M} _.
Arguments be_m {M} _.

Section SchnorrProofs.
  Variable n : Z.
  Variable yodd : Z -> bool.
  Variable M : Type.
  Variable chal : Z -> Z -> M -> Z.

  Hypothesis n_prime : prime n.
  Hypothesis yodd_neg : forall a, 0 < a < n -> yodd (n - a) = negb (yodd a).
  Hypothesis chal_range : forall a b m, 0 <= chal a b m < n.

  Notation "a == b" := (eqm n a b) (at level 70).
  Notation sadd := (sadd n).
  Notation smul := (smul n).
  Notation sneg := (sneg n).
  Notation xo := (xo n).
  Notation full := (full n).
  Notation even_y := (even_y n yodd).
  Notation gen_verify := (gen_verify n M chal).
  Notation gen_sign := (gen_sign n M chal).
  Notation bip_verify := (bip_verify n yodd M chal).
  Notation bip_sign := (bip_sign n yodd M chal).

  Let n_gt_1 : 1 < n := n_gt_1 n n_prime.

  Lemma smod_range : forall a, 0 <= a mod n < n.
  Proof. intro a. apply Z.mod_pos_bound. lia. Qed.

  Lemma mod0_iff : forall a, (a mod n =? 0) = true <-> a == 0.
  Proof. intro a. rewrite Z.eqb_eq. symmetry. apply (eqm_0_mod n n_prime). Qed.

  Lemma mod0_false : forall a, (a mod n =? 0) = false <-> ~ a == 0.
  Proof. intro a. rewrite <- mod0_iff. destruct (a mod n =? 0); split; congruence. Qed.

  Lemma eqm_eqb : forall a b, (a mod n =? b mod n) = true <-> a == b.
  Proof. intros. rewrite Z.eqb_eq. reflexivity. Qed.

  (* ---- generic variant ------------------------------------------------------------------ *)
  Section Generic.
    Variable neg_resp : bool.
    Variable encR encP : Z -> Z.
    Variable negate_nonce : Z -> bool.

    Definition gen_rhs (rk pk e : Z) : Z := if neg_resp then rk - pk * e else rk + pk * e.

    Theorem gen_accept_iff : forall sg pk m,
      gen_verify neg_resp encR encP sg pk m = true <->
      (~ g_k pk == 0 /\ ~ s_s sg == 0 /\ ~ g_k (s_R sg) == 0 /\ g_tf (s_R sg) = true /\
       s_s sg == gen_rhs (g_k (s_R sg)) (g_k pk) (chal (encR (g_k (s_R sg))) (encP (g_k pk)) m)).
    Proof.
      intros [[tf rk] s] [ptf pk] m. unfold Schnorr.gen_verify. cbn [s_R s_s g_k g_tf].
      destruct (pk mod n =? 0) eqn:Hpk.
      { apply mod0_iff in Hpk. split; [discriminate|]. intros (H & _). contradiction. }
      apply mod0_false in Hpk.
      destruct (s mod n =? 0) eqn:Hs; cbn [orb].
      { apply mod0_iff in Hs. split; [discriminate|]. intros (_ & H & _). contradiction. }
      apply mod0_false in Hs.
      destruct (rk mod n =? 0) eqn:Hrk; cbn [orb].
      { apply mod0_iff in Hrk. split; [discriminate|]. intros (_ & _ & H & _). contradiction. }
      apply mod0_false in Hrk.
      destruct tf; cbn [negb].
      2:{ split; [discriminate|]. intros (_ & _ & _ & H & _). discriminate. }
      set (e := chal (encR rk) (encP pk) m).
      assert (Heq : forall X, (Schnorr.smul n 1 s =? X mod n) = true <-> s == X).
      { intro X. unfold Schnorr.smul. rewrite Z.mul_1_l. apply eqm_eqb. }
      unfold gen_rhs. destruct neg_resp.
      - unfold Schnorr.sadd, Schnorr.sneg, Schnorr.smul at 2.
        assert (Hx : (rk + - (pk * e mod n) mod n) mod n = (rk - pk * e) mod n).
        { change ((rk + - (pk * e mod n) mod n) == (rk - pk * e)).
          rewrite !(mod_eqm n n_prime). apply eqm_ring. ring. }
        rewrite Hx, Heq. tauto.
      - unfold Schnorr.sadd, Schnorr.smul at 2.
        assert (Hx : (rk + pk * e mod n) mod n = (rk + pk * e) mod n).
        { change ((rk + pk * e mod n) == (rk + pk * e)). rewrite !(mod_eqm n n_prime). reflexivity. }
        rewrite Hx, Heq. tauto.
    Qed.

    (* signing: the nonce the variant ends up with, and the response *)
    Definition gen_nonce (k0 : Z) : Z := if negate_nonce k0 then sneg k0 else k0 mod n.
    Definition gen_resp (x k0 : Z) (m : M) : Z :=
      let k := gen_nonce k0 in
      let e := chal (encR k) (encP x) m in
      let op := smul e x in
      sadd k (if neg_resp then sneg op else op).

    Theorem gen_sign_verify : forall x k0 m sg,
      gen_sign neg_resp encR encP negate_nonce x k0 m = Some sg ->
      gen_verify neg_resp encR encP sg (mk_gelt true x) m = true /\
      sg = mk_ssig (mk_gelt true (gen_nonce k0)) (gen_resp x k0 m).
    Proof.
      intros x k0 m sg H. unfold Schnorr.gen_sign in H.
      destruct (k0 mod n =? 0); [discriminate|].
      fold (gen_nonce k0) in H.
      match type of H with (if ?c then _ else _) = _ => destruct c eqn:Hv end; [|discriminate].
      inversion H. subst sg. split; [exact Hv|reflexivity].
    Qed.

    (* Sign succeeds whenever key, nonce and response are non-zero *)
    Theorem gen_sign_total : forall x k0 m,
      ~ x == 0 -> ~ k0 == 0 -> ~ gen_resp x k0 m == 0 ->
      gen_sign neg_resp encR encP negate_nonce x k0 m
        = Some (mk_ssig (mk_gelt true (gen_nonce k0)) (gen_resp x k0 m)).
    Proof.
      intros x k0 m Hx Hk Hs. unfold Schnorr.gen_sign.
      apply mod0_false in Hk. rewrite Hk. fold (gen_nonce k0).
      assert (Hkn : ~ gen_nonce k0 == 0).
      { unfold gen_nonce. apply mod0_false in Hk. destruct (negate_nonce k0).
        - unfold Schnorr.sneg. rewrite (mod_eqm n n_prime). intro H. apply Hk.
          transitivity (- - k0); [apply eqm_ring; ring|]. rewrite H. reflexivity.
        - rewrite (mod_eqm n n_prime). exact Hk. }
      assert (Hv : gen_verify neg_resp encR encP
                     (mk_ssig (mk_gelt true (gen_nonce k0)) (gen_resp x k0 m)) (mk_gelt true x) m = true).
      { apply gen_accept_iff. cbn [s_R s_s g_k g_tf]. repeat split; try assumption.
        unfold gen_resp, gen_rhs. cbv zeta.
        set (e := chal (encR (gen_nonce k0)) (encP x) m).
        destruct neg_resp; unfold Schnorr.sadd, Schnorr.sneg, Schnorr.smul;
          rewrite !(mod_eqm n n_prime); apply eqm_ring; ring. }
      fold (gen_resp x k0 m). unfold gen_resp in Hv |- *. cbv zeta in Hv |- *. rewrite Hv. reflexivity.
    Qed.

    (* a changed message is rejected *)
    Theorem gen_message_changed : forall sg pk m m',
      gen_verify neg_resp encR encP sg pk m = true ->
      gen_verify neg_resp encR encP sg pk m' = true ->
      chal (encR (g_k (s_R sg))) (encP (g_k pk)) m = chal (encR (g_k (s_R sg))) (encP (g_k pk)) m'.
    Proof.
      intros sg pk m m' H H'. apply gen_accept_iff in H, H'.
      destruct H as (Hpk & _ & _ & _ & He). destruct H' as (_ & _ & _ & _ & He').
      set (e := chal (encR (g_k (s_R sg))) (encP (g_k pk)) m) in *.
      set (e' := chal (encR (g_k (s_R sg))) (encP (g_k pk)) m') in *.
      assert (Hee : e == e').
      { apply (eqm_mul_cancel_l n n_prime (g_k pk)); [exact Hpk|].
        rewrite He in He'. unfold gen_rhs in He'. destruct neg_resp.
        - transitivity (g_k (s_R sg) - (g_k (s_R sg) - g_k pk * e)); [apply eqm_ring; ring|].
          rewrite He'. apply eqm_ring. ring.
        - transitivity ((g_k (s_R sg) + g_k pk * e) - g_k (s_R sg)); [apply eqm_ring; ring|].
          rewrite He'. apply eqm_ring. ring. }
      apply (eqm_small n) in Hee; [|apply chal_range|apply chal_range]. exact Hee.
    Qed.

    (* a changed response is rejected *)
    Theorem gen_response_changed : forall R s s' pk m,
      gen_verify neg_resp encR encP (mk_ssig R s) pk m = true ->
      gen_verify neg_resp encR encP (mk_ssig R s') pk m = true -> s == s'.
    Proof.
      intros R s s' pk m H H'. apply gen_accept_iff in H, H'. cbn [s_R s_s] in *.
      destruct H as (_ & _ & _ & _ & He). destruct H' as (_ & _ & _ & _ & He').
      rewrite He, He'. reflexivity.
    Qed.

    (* a changed public key or commitment is rejected unless the two challenges satisfy the written relation *)
    Theorem gen_key_changed : forall sg pk pk' m,
      gen_verify neg_resp encR encP sg pk m = true ->
      gen_verify neg_resp encR encP sg pk' m = true ->
      g_k pk * chal (encR (g_k (s_R sg))) (encP (g_k pk)) m
        == g_k pk' * chal (encR (g_k (s_R sg))) (encP (g_k pk')) m.
    Proof.
      intros sg pk pk' m H H'. apply gen_accept_iff in H, H'.
      destruct H as (_ & _ & _ & _ & He). destruct H' as (_ & _ & _ & _ & He').
      rewrite He in He'. unfold gen_rhs in He'.
      set (e := chal _ (encP (g_k pk)) m) in *. set (e' := chal _ (encP (g_k pk')) m) in *.
      destruct neg_resp.
      - transitivity (g_k (s_R sg) - (g_k (s_R sg) - g_k pk * e)); [apply eqm_ring; ring|].
        rewrite He'. apply eqm_ring. ring.
      - transitivity ((g_k (s_R sg) + g_k pk * e) - g_k (s_R sg)); [apply eqm_ring; ring|].
        rewrite He'. apply eqm_ring. ring.
    Qed.
  End Generic.

  (* ---- x-only encodings and parity -------------------------------------------------------------- *)
  Lemma sneg_small : forall a, 0 < a < n -> sneg a = n - a.
  Proof. intros a Ha. unfold Schnorr.sneg. apply (eqm_opp_small n). exact Ha. Qed.

  Lemma xo_small : forall a, 0 < a < n -> xo a = Z.min a (n - a).
  Proof.
    intros a Ha. unfold Schnorr.xo. rewrite Z.mod_small by lia.
    try rewrite (eqm_opp_small n a Ha); try reflexivity.
  Qed.

  Lemma xo_neg : forall a, 0 < a < n -> xo (n - a) = xo a.
  Proof.
    intros a Ha. rewrite !xo_small by lia. replace (n - (n - a)) with a by ring. apply Z.min_comm.
  Qed.

  Lemma xo_eq_iff : forall a b, 0 < a < n -> 0 < b < n -> (xo a = xo b <-> a = b \/ a = n - b).
  Proof. intros a b Ha Hb. rewrite !xo_small by lia. lia. Qed.

  Lemma even_y_small : forall a, 0 < a < n -> even_y a = if yodd a then n - a else a.
  Proof.
    intros a Ha. unfold Schnorr.even_y. rewrite Z.mod_small by lia.
    assert (H0 : (a =? 0) = false) by lia. rewrite H0. rewrite (sneg_small a Ha). reflexivity.
  Qed.

  Lemma even_y_even : forall a, 0 < a < n -> yodd (even_y a) = false /\ 0 < even_y a < n /\ xo (even_y a) = xo a.
  Proof.
    intros a Ha. rewrite (even_y_small a Ha). destruct (yodd a) eqn:Hy.
    - rewrite (yodd_neg a Ha), Hy. repeat split; try lia; try (apply xo_neg; exact Ha); try reflexivity.
    - repeat split; try lia; try exact Hy.
  Qed.

  (* ---- BIP-340 ------------------------------------------------------------------------------------- *)
  (* R' = s·G − e·P *)
  Definition bip_R' (s P e : Z) : Z := sadd s (sneg (smul P e)).

  Theorem bip_accept_iff : forall sg pk m,
    bip_verify sg pk m = true <->
    (~ s_s sg == 0 /\ ~ g_k (s_R sg) == 0 /\ ~ g_k pk == 0 /\ g_tf pk = true /\
     let P := even_y (g_k pk) in
     let R' := bip_R' (s_s sg) P (chal (xo (g_k (s_R sg))) (xo P) m) in
     R' <> 0 /\ yodd R' = false /\ xo R' = xo (g_k (s_R sg))).
  Proof.
    intros [[tf rk] s] [ptf pk] m. unfold Schnorr.bip_verify. cbn [s_R s_s g_k g_tf].
    destruct (s mod n =? 0) eqn:Hs; cbn [orb].
    { apply mod0_iff in Hs. split; [discriminate|]. intros (H & _). contradiction. }
    apply mod0_false in Hs.
    destruct (rk mod n =? 0) eqn:Hrk.
    { apply mod0_iff in Hrk. split; [discriminate|]. intros (_ & H & _). contradiction. }
    apply mod0_false in Hrk.
    destruct (pk mod n =? 0) eqn:Hpk.
    { apply mod0_iff in Hpk. split; [discriminate|]. intros (_ & _ & H & _). contradiction. }
    apply mod0_false in Hpk.
    destruct ptf; cbn [negb].
    2:{ split; [discriminate|]. intros (_ & _ & _ & H & _). discriminate. }
    cbv zeta. fold (bip_R' s (even_y pk) (chal (xo rk) (xo (even_y pk)) m)).
    set (R' := bip_R' s (even_y pk) (chal (xo rk) (xo (even_y pk)) m)).
    destruct (R' =? 0) eqn:HR0.
    { split; [discriminate|]. intros (_ & _ & _ & _ & H & _). lia. }
    destruct (yodd R') eqn:Hy.
    { split; [discriminate|]. intros (_ & _ & _ & _ & _ & H & _). discriminate. }
    rewrite Z.eqb_eq. split.
    - intro H. repeat split; try assumption. lia.
    - intros (_ & _ & _ & _ & _ & _ & H). exact H.
  Qed.

  (* (R, s) and (−R, s) have the same x-only serialisation and the same verdict *)
  Theorem bip_R_negation_same_verdict : forall tf rk s pk m,
    0 < rk < n ->
    bip_verify (mk_ssig (mk_gelt tf (n - rk)) s) pk m = bip_verify (mk_ssig (mk_gelt tf rk) s) pk m.
  Proof.
    intros tf rk s pk m Hrk. unfold Schnorr.bip_verify. cbn [s_R s_s g_k g_tf].
    rewrite (xo_neg rk Hrk).
    assert (H0 : ((n - rk) mod n =? 0) = (rk mod n =? 0)).
    { rewrite !Z.mod_small by lia. lia. }
    rewrite H0. reflexivity.
  Qed.

  (* the nonce and response the signer ends up with *)
  Definition bip_d (d0 : Z) : Z := if yodd d0 then sneg d0 else d0 mod n.
  Definition bip_k (k0 : Z) : Z := if yodd k0 then sneg k0 else k0 mod n.
  Definition bip_s (d0 k0 : Z) (m : M) : Z :=
    sadd (bip_k k0) (smul (chal (xo (bip_k k0)) (xo d0) m) (bip_d d0)).

  Theorem bip_sign_verify : forall d0 k0 m sg,
    bip_sign d0 k0 m = Some sg ->
    bip_verify sg (mk_gelt true (d0 mod n)) m = true /\
    sg = mk_ssig (mk_gelt true (bip_k k0)) (bip_s d0 k0 m).
  Proof.
    intros d0 k0 m sg H. unfold Schnorr.bip_sign in H.
    destruct (d0 mod n =? 0); [discriminate|]. destruct (k0 mod n =? 0); [discriminate|].
    fold (bip_d d0) (bip_k k0) in H.
    match type of H with (if ?c then _ else _) = _ => destruct c eqn:Hv end; [|discriminate].
    inversion H. subst sg. split; [exact Hv|reflexivity].
  Qed.

  Theorem bip_sign_total : forall d0 k0 m,
    0 < d0 < n -> 0 < k0 < n -> ~ bip_s d0 k0 m == 0 ->
    bip_sign d0 k0 m = Some (mk_ssig (mk_gelt true (bip_k k0)) (bip_s d0 k0 m)) /\
    yodd (bip_k k0) = false.
  Proof.
    intros d0 k0 m Hd Hk Hs.
    assert (Hkk : bip_k k0 = even_y k0).
    { unfold bip_k. rewrite (even_y_small k0 Hk), (sneg_small k0 Hk), Z.mod_small by lia. reflexivity. }
    assert (Hdd : bip_d d0 = even_y d0).
    { unfold bip_d. rewrite (even_y_small d0 Hd), (sneg_small d0 Hd), Z.mod_small by lia. reflexivity. }
    destruct (even_y_even k0 Hk) as (Hky & Hkr & Hkx). destruct (even_y_even d0 Hd) as (Hdy & Hdr & Hdx).
    split; [|rewrite Hkk; exact Hky].
    unfold Schnorr.bip_sign.
    assert (Hd0 : (d0 mod n =? 0) = false) by (rewrite Z.mod_small; lia).
    assert (Hk0 : (k0 mod n =? 0) = false) by (rewrite Z.mod_small; lia).
    rewrite Hd0, Hk0. fold (bip_d d0) (bip_k k0). fold (bip_s d0 k0 m).
    assert (Hv : bip_verify (mk_ssig (mk_gelt true (bip_k k0)) (bip_s d0 k0 m)) (mk_gelt true (d0 mod n)) m = true).
    { apply bip_accept_iff. cbn [s_R s_s g_k g_tf]. rewrite (Z.mod_small d0 n) by lia.
      assert (HR : bip_R' (bip_s d0 k0 m) (even_y d0) (chal (xo (bip_k k0)) (xo (even_y d0)) m) = bip_k k0).
      { rewrite Hdx. unfold bip_R', bip_s. rewrite Hdd.
        set (e := chal (xo (bip_k k0)) (xo d0) m).
        apply (eqm_small n); [apply smod_range|rewrite Hkk; lia|].
        unfold Schnorr.sadd, Schnorr.sneg, Schnorr.smul. rewrite !(mod_eqm n n_prime).
        apply eqm_ring. ring. }
      repeat split.
      - exact Hs.
      - rewrite Hkk. intro H0. apply (proj1 (eqm_0_mod n n_prime _)) in H0. rewrite Z.mod_small in H0; lia.
      - intro H0. apply (proj1 (eqm_0_mod n n_prime _)) in H0. rewrite Z.mod_small in H0; lia.
      - cbv zeta. rewrite HR, Hkk. lia.
      - cbv zeta. rewrite HR, Hkk. exact Hky.
      - cbv zeta. rewrite HR. reflexivity. }
    rewrite Hv. reflexivity.
  Qed.

  (* a changed message is rejected *)
  Theorem bip_message_changed : forall sg pk m m',
    0 < g_k (s_R sg) < n -> 0 < g_k pk < n ->
    bip_verify sg pk m = true -> bip_verify sg pk m' = true ->
    chal (xo (g_k (s_R sg))) (xo (even_y (g_k pk))) m = chal (xo (g_k (s_R sg))) (xo (even_y (g_k pk))) m'.
  Proof.
    intros sg pk m m' HR Hpk H H'. apply bip_accept_iff in H, H'.
    destruct H as (_ & _ & _ & _ & H). destruct H' as (_ & _ & _ & _ & H'). cbv zeta in H, H'.
    destruct (even_y_even (g_k pk) Hpk) as (_ & HPr & _).
    set (P := even_y (g_k pk)) in *.
    set (e := chal (xo (g_k (s_R sg))) (xo P) m) in *.
    set (e' := chal (xo (g_k (s_R sg))) (xo P) m') in *.
    destruct H as (H0 & Hy & Hx). destruct H' as (H0' & Hy' & Hx').
    assert (Hr1 : 0 < bip_R' (s_s sg) P e < n) by (pose proof (smod_range (s_s sg + Schnorr.sneg n (Schnorr.smul n P e))); unfold bip_R', Schnorr.sadd in *; lia).
    assert (Hr2 : 0 < bip_R' (s_s sg) P e' < n) by (pose proof (smod_range (s_s sg + Schnorr.sneg n (Schnorr.smul n P e'))); unfold bip_R', Schnorr.sadd in *; lia).
    assert (Hsame : bip_R' (s_s sg) P e = bip_R' (s_s sg) P e').
    { rewrite <- Hx' in Hx. apply xo_eq_iff in Hx; [|exact Hr1|exact Hr2].
      destruct Hx as [Hx|Hx]; [exact Hx|].
      rewrite Hx in Hy. rewrite (yodd_neg _ Hr2), Hy' in Hy. discriminate. }
    assert (Hee : e == e').
    { apply (eqm_mul_cancel_l n n_prime P).
      - intro HP0. apply (proj1 (eqm_0_mod n n_prime _)) in HP0. rewrite Z.mod_small in HP0; lia.
      - assert (A : bip_R' (s_s sg) P e == s_s sg - P * e).
        { unfold bip_R', Schnorr.sadd, Schnorr.sneg, Schnorr.smul. rewrite !(mod_eqm n n_prime). apply eqm_ring. ring. }
        assert (B : bip_R' (s_s sg) P e' == s_s sg - P * e').
        { unfold bip_R', Schnorr.sadd, Schnorr.sneg, Schnorr.smul. rewrite !(mod_eqm n n_prime). apply eqm_ring. ring. }
        rewrite Hsame in A. rewrite A in B.
        transitivity (s_s sg - (s_s sg - P * e)); [apply eqm_ring; ring|].
        rewrite B. apply eqm_ring. ring. }
    apply (eqm_small n) in Hee; [|apply chal_range|apply chal_range]. exact Hee.
  Qed.

  (* a signature whose recomputed commitment has odd y is rejected whatever its x-coordinate *)
  Theorem bip_odd_R_rejected : forall sg pk m,
    yodd (bip_R' (s_s sg) (even_y (g_k pk)) (chal (xo (g_k (s_R sg))) (xo (even_y (g_k pk))) m)) = true ->
    bip_verify sg pk m = false.
  Proof.
    intros sg pk m Hy. destruct (bip_verify sg pk m) eqn:H; [|reflexivity].
    apply bip_accept_iff in H. destruct H as (_ & _ & _ & _ & H). cbv zeta in H.
    destruct H as (_ & Hy' & _). congruence.
  Qed.
  (* ---- BIP-340 batch verification -------------------------------------------------------------------- *)
  Notation batch_left := (batch_left n M).
  Notation batch_right := (batch_right n yodd M chal).
  Notation batch_term := (batch_term n yodd M chal).
  Notation bip_batch_verify := (bip_batch_verify n yodd M chal).

  Definition entry_ok (e : bentry M) : Prop :=
    0 < g_k (s_R (be_sig e)) < n /\ 0 < g_k (be_pk e) < n.

  (* what a single accepted signature satisfies, in the form the batch equation uses *)
  Lemma single_equation : forall sg pk m,
    0 < g_k (s_R sg) < n -> 0 < g_k pk < n ->
    bip_verify sg pk m = true ->
    s_s sg == even_y (g_k (s_R sg)) + even_y (g_k pk) * chal (xo (g_k (s_R sg))) (xo (g_k pk)) m.
  Proof.
    intros sg pk m HR Hpk H. apply bip_accept_iff in H. destruct H as (_ & _ & _ & _ & H). cbv zeta in H.
    destruct (even_y_even (g_k pk) Hpk) as (_ & _ & HPx). rewrite HPx in H.
    set (P := even_y (g_k pk)) in *. set (e := chal (xo (g_k (s_R sg))) (xo (g_k pk)) m) in *.
    destruct H as (H0 & Hy & Hx).
    assert (Hr : 0 < bip_R' (s_s sg) P e < n).
    { pose proof (smod_range (s_s sg + Schnorr.sneg n (Schnorr.smul n P e))). unfold bip_R', Schnorr.sadd in *. lia. }
    assert (HRe : bip_R' (s_s sg) P e = even_y (g_k (s_R sg))).
    { rewrite (even_y_small _ HR). apply xo_eq_iff in Hx; [|exact Hr|exact HR].
      destruct Hx as [Hx|Hx].
      - rewrite Hx in Hy. rewrite Hy. exact Hx.
      - rewrite Hx in Hy. rewrite (yodd_neg _ HR) in Hy. destruct (yodd (g_k (s_R sg))); [exact Hx|discriminate]. }
    rewrite <- HRe.
    assert (A : bip_R' (s_s sg) P e == s_s sg - P * e).
    { unfold bip_R', Schnorr.sadd, Schnorr.sneg, Schnorr.smul. rewrite !(mod_eqm n n_prime). apply eqm_ring. ring. }
    rewrite A. apply eqm_ring. ring.
  Qed.

  Lemma batch_left_range : forall coefs es, 0 <= batch_left coefs es < n.
  Proof.
    intros coefs es. destruct coefs as [|a cs]; [cbn; lia|]. destruct es as [|e r]; [cbn; lia|].
    cbn [Schnorr.batch_left]. unfold Schnorr.sadd. apply smod_range.
  Qed.

  Lemma batch_right_range : forall coefs es, 0 <= batch_right coefs es < n.
  Proof.
    intros coefs es. destruct coefs as [|a cs]; [cbn; lia|]. destruct es as [|e r]; [cbn; lia|].
    cbn [Schnorr.batch_right]. unfold Schnorr.sadd. apply smod_range.
  Qed.

  Lemma batch_term_eqm : forall a e,
    batch_term a e == a * (even_y (g_k (s_R (be_sig e))) +
                           even_y (g_k (be_pk e)) * chal (xo (g_k (s_R (be_sig e)))) (xo (g_k (be_pk e))) (be_m e)).
  Proof.
    intros a e. unfold Schnorr.batch_term. cbv zeta. unfold Schnorr.sadd, Schnorr.smul.
    rewrite !(mod_eqm n n_prime). apply eqm_ring. ring.
  Qed.

  (* completeness: if every signature verifies on its own, the batch equation holds for every choice of coefficients *)
  Lemma batch_equation_complete : forall es coefs,
    length coefs = length es ->
    (forall e, In e es -> entry_ok e /\ bip_verify (be_sig e) (be_pk e) (be_m e) = true) ->
    batch_left coefs es = batch_right coefs es.
  Proof.
    induction es as [|e r IH]; intros coefs Hl Hall; destruct coefs as [|a cs]; try discriminate; [reflexivity|].
    cbn [Schnorr.batch_left Schnorr.batch_right].
    rewrite (IH cs) by (try (cbn in Hl; lia); intros e' He'; apply Hall; right; exact He').
    destruct (Hall e (or_introl eq_refl)) as [[HR Hpk] Hv].
    unfold Schnorr.sadd. change (Schnorr.smul n a (s_s (be_sig e)) + batch_right cs r == batch_term a e + batch_right cs r).
    rewrite batch_term_eqm. unfold Schnorr.smul. rewrite (mod_eqm n n_prime).
    rewrite (single_equation _ _ _ HR Hpk Hv). reflexivity.
  Qed.

  Theorem bip_batch_complete : forall es coefs,
    es <> [] -> length coefs = length es ->
    (forall e, In e es -> entry_ok e /\ bip_verify (be_sig e) (be_pk e) (be_m e) = true) ->
    bip_batch_verify coefs es = true.
  Proof.
    intros es coefs Hne Hl Hall. unfold Schnorr.bip_batch_verify.
    destruct es as [|e0 r0]; [contradiction|]. set (es := e0 :: r0) in *.
    rewrite Hl, Nat.eqb_refl. cbn [negb].
    assert (Hex : existsb (fun e => g_k (be_pk e) mod n =? 0) es = false).
    { destruct (existsb (fun e => g_k (be_pk e) mod n =? 0) es) eqn:E; [|reflexivity].
      apply existsb_exists in E. destruct E as (e & Hin & He). destruct (Hall e Hin) as [[_ Hpk] _].
      rewrite Z.mod_small in He by lia. lia. }
    rewrite Hex. apply Z.eqb_eq. apply batch_equation_complete; assumption.
  Qed.

  (* a batch of one signature is exactly single verification (BatchVerify itself does not look at s = 0) *)
  Theorem bip_batch_one_equiv_single : forall sg pk m,
    0 < g_k (s_R sg) < n -> 0 < g_k pk < n -> ~ s_s sg == 0 -> g_tf pk = true ->
    bip_batch_verify [1] [mk_bentry M sg pk m] = bip_verify sg pk m.
  Proof.
    intros sg pk m HR Hpk Hs Htf.
    destruct (bip_verify sg pk m) eqn:Hv.
    - apply bip_batch_complete; [discriminate|reflexivity|].
      intros e [He|[]]. subst e. cbn [be_sig be_pk be_m]. split; [split; assumption|exact Hv].
    - destruct (bip_batch_verify [1] [mk_bentry M sg pk m]) eqn:Hb; [|reflexivity].
      exfalso. unfold Schnorr.bip_batch_verify in Hb. cbn [length Nat.eqb negb existsb be_pk orb] in Hb.
      assert (Hz : (g_k pk mod n =? 0) = false) by (rewrite Z.mod_small; lia). rewrite Hz in Hb.
      apply Z.eqb_eq in Hb. cbn [Schnorr.batch_left Schnorr.batch_right be_sig] in Hb.
      assert (He : s_s sg == even_y (g_k (s_R sg)) + even_y (g_k pk) * chal (xo (g_k (s_R sg))) (xo (g_k pk)) m).
      { transitivity (Schnorr.sadd n (Schnorr.smul n 1 (s_s sg)) 0).
        - unfold Schnorr.sadd, Schnorr.smul. rewrite !(mod_eqm n n_prime). apply eqm_ring. ring.
        - rewrite Hb. unfold Schnorr.sadd at 1. rewrite (mod_eqm n n_prime).
          rewrite (batch_term_eqm 1 (mk_bentry M sg pk m)). cbn [be_sig be_pk be_m]. apply eqm_ring. ring. }
      assert (Hacc : bip_verify sg pk m = true).
      { apply bip_accept_iff. destruct (even_y_even (g_k pk) Hpk) as (_ & HPr & HPx).
        destruct (even_y_even (g_k (s_R sg)) HR) as (HRy & HRr & HRx).
        assert (HR' : bip_R' (s_s sg) (even_y (g_k pk)) (chal (xo (g_k (s_R sg))) (xo (g_k pk)) m) = even_y (g_k (s_R sg))).
        { apply (eqm_small n); [apply smod_range|lia|].
          unfold bip_R', Schnorr.sadd, Schnorr.sneg, Schnorr.smul. rewrite !(mod_eqm n n_prime).
          rewrite He. apply eqm_ring. ring. }
        cbv zeta. rewrite HPx, HR'.
        repeat split; try assumption; try lia.
        - intro H0. apply (proj1 (eqm_0_mod n n_prime _)) in H0. rewrite Z.mod_small in H0; lia.
        - intro H0. apply (proj1 (eqm_0_mod n n_prime _)) in H0. rewrite Z.mod_small in H0; lia. }
      congruence.
  Qed.

  (* negating every response: both batches can pass only if the left-hand side vanishes *)
  Definition neg_s (e : bentry M) : bentry M :=
    mk_bentry M (mk_ssig (s_R (be_sig e)) (sneg (s_s (be_sig e)))) (be_pk e) (be_m e).

  Lemma batch_right_neg_s : forall es coefs, batch_right coefs (map neg_s es) = batch_right coefs es.
  Proof.
    induction es as [|e r IH]; intros coefs; destruct coefs as [|a cs]; try reflexivity.
    cbn [map Schnorr.batch_right]. rewrite IH. reflexivity.
  Qed.

  Lemma batch_left_neg_s : forall es coefs, batch_left coefs (map neg_s es) == - batch_left coefs es.
  Proof.
    induction es as [|e r IH]; intros coefs; destruct coefs as [|a cs]; try (cbn; reflexivity).
    cbn [map Schnorr.batch_left neg_s be_sig s_s]. unfold Schnorr.sadd. rewrite !(mod_eqm n n_prime).
    rewrite IH. unfold Schnorr.smul, Schnorr.sneg. rewrite !(mod_eqm n n_prime). apply eqm_ring. ring.
  Qed.

  Theorem bip_batch_all_s_negated : forall es coefs,
    2 < n ->
    bip_batch_verify coefs es = true -> bip_batch_verify coefs (map neg_s es) = true ->
    batch_left coefs es = 0.
  Proof.
    intros es coefs Hn2 H H'. unfold Schnorr.bip_batch_verify in H, H'.
    destruct es as [|e0 r0]; [discriminate|]. set (es := e0 :: r0) in *.
    change (map neg_s es) with (neg_s e0 :: map neg_s r0) in H'.
    destruct (negb (Nat.eqb (length coefs) (length es))); [discriminate|].
    destruct (negb (Nat.eqb (length coefs) (length (neg_s e0 :: map neg_s r0)))); [discriminate|].
    destruct (existsb _ es); [discriminate|]. destruct (existsb _ (neg_s e0 :: map neg_s r0)); [discriminate|].
    apply Z.eqb_eq in H, H'. change (neg_s e0 :: map neg_s r0) with (map neg_s es) in H'.
    rewrite batch_right_neg_s in H'. rewrite <- H in H'.
    pose proof (batch_left_neg_s es coefs) as Hneg. rewrite H' in Hneg.
    assert (H2 : 2 * batch_left coefs es == 0).
    { transitivity (batch_left coefs es + batch_left coefs es); [apply eqm_ring; ring|].
      rewrite Hneg at 1. apply eqm_ring. ring. }
    apply (eqm_mul_0 n n_prime) in H2. destruct H2 as [H2|H2].
    - apply (proj1 (eqm_0_mod n n_prime _)) in H2. rewrite Z.mod_small in H2; lia.
    - apply (eqm_small n); [apply batch_left_range|lia|exact H2].
  Qed.

  Theorem bip_batch_one_s_negated_rejected : forall e,
    2 < n -> ~ s_s (be_sig e) == 0 ->
    bip_batch_verify [1] [e] = true -> bip_batch_verify [1] [neg_s e] = false.
  Proof.
    intros e Hn2 Hs H. destruct (bip_batch_verify [1] [neg_s e]) eqn:H'; [|reflexivity].
    pose proof (bip_batch_all_s_negated [e] [1] Hn2 H H') as H0. exfalso. apply Hs.
    cbn [Schnorr.batch_left] in H0. unfold Schnorr.sadd, Schnorr.smul in H0.
    transitivity ((1 * s_s (be_sig e)) mod n + 0); [rewrite (mod_eqm n n_prime); apply eqm_ring; ring|].
    apply (eqm_0_mod n n_prime). exact H0.
  Qed.

  (* one response changed: rejected whenever its coefficient is non-zero (the verifier draws non-zero coefficients) *)
  Definition set_s (e : bentry M) (s' : Z) : bentry M :=
    mk_bentry M (mk_ssig (s_R (be_sig e)) s') (be_pk e) (be_m e).

  Lemma batch_left_app : forall l1 c1 l2 c2,
    length c1 = length l1 ->
    batch_left (c1 ++ c2) (l1 ++ l2) == batch_left c1 l1 + batch_left c2 l2.
  Proof.
    induction l1 as [|e r IH]; intros c1 l2 c2 Hl; destruct c1 as [|a cs]; try discriminate.
    - cbn [app Schnorr.batch_left]. apply eqm_ring. ring.
    - cbn [app Schnorr.batch_left]. unfold Schnorr.sadd. rewrite !(mod_eqm n n_prime).
      rewrite IH by (cbn in Hl; lia). apply eqm_ring. ring.
  Qed.

  Lemma batch_right_app : forall l1 c1 l2 c2,
    length c1 = length l1 ->
    batch_right (c1 ++ c2) (l1 ++ l2) == batch_right c1 l1 + batch_right c2 l2.
  Proof.
    induction l1 as [|e r IH]; intros c1 l2 c2 Hl; destruct c1 as [|a cs]; try discriminate.
    - cbn [app Schnorr.batch_right]. apply eqm_ring. ring.
    - cbn [app Schnorr.batch_right]. unfold Schnorr.sadd. rewrite !(mod_eqm n n_prime).
      rewrite IH by (cbn in Hl; lia). apply eqm_ring. ring.
  Qed.

  Theorem bip_batch_one_s_changed : forall l1 c1 e a l2 c2 s',
    length c1 = length l1 -> ~ a == 0 ->
    bip_batch_verify (c1 ++ a :: c2) (l1 ++ e :: l2) = true ->
    bip_batch_verify (c1 ++ a :: c2) (l1 ++ set_s e s' :: l2) = true ->
    s_s (be_sig e) == s'.
  Proof.
    intros l1 c1 e a l2 c2 s' Hl Ha H H'. unfold Schnorr.bip_batch_verify in H, H'.
    destruct (l1 ++ e :: l2) as [|x xs] eqn:E1; [discriminate|].
    destruct (l1 ++ set_s e s' :: l2) as [|y ys] eqn:E2; [discriminate|].
    destruct (negb (Nat.eqb (length (c1 ++ a :: c2)) (length (x :: xs)))); [discriminate|].
    destruct (negb (Nat.eqb (length (c1 ++ a :: c2)) (length (y :: ys)))); [discriminate|].
    destruct (existsb _ (x :: xs)); [discriminate|]. destruct (existsb _ (y :: ys)); [discriminate|].
    apply Z.eqb_eq in H, H'. rewrite <- E1 in H. rewrite <- E2 in H'.
    assert (A : batch_left (c1 ++ a :: c2) (l1 ++ e :: l2) == batch_left (c1 ++ a :: c2) (l1 ++ set_s e s' :: l2)).
    { rewrite H, H'. rewrite !batch_right_app by exact Hl. cbn [Schnorr.batch_right]. reflexivity. }
    rewrite !batch_left_app in A by exact Hl. cbn [Schnorr.batch_left set_s be_sig s_s] in A.
    unfold Schnorr.sadd, Schnorr.smul in A. rewrite !(mod_eqm n n_prime) in A.
    apply (eqm_mul_cancel_l n n_prime a); [exact Ha|].
    transitivity ((batch_left c1 l1 + (a * s_s (be_sig e) + batch_left c2 l2)) - batch_left c1 l1 - batch_left c2 l2);
      [apply eqm_ring; ring|].
    rewrite A. apply eqm_ring. ring.
  Qed.

  (* VerifierTrait.BatchVerify (generic variant, Mina): accepts iff every entry verifies *)
  Theorem gen_batch_iff : forall neg_resp encR encP es,
    gen_batch_verify n M chal neg_resp encR encP es = true <->
    forall e, In e es -> gen_verify neg_resp encR encP (be_sig e) (be_pk e) (be_m e) = true.
  Proof. intros. unfold Schnorr.gen_batch_verify. apply forallb_forall. Qed.

  (* ---- wire forms: only the canonical representative of every component is accepted ------------------ *)
  Theorem bip_wire_accept_iff : forall p lift_even px rx s m,
    bip_verify_wire n yodd M chal p lift_even px rx s m = true <->
    (0 <= px < p /\ 0 <= rx < p /\ 0 <= s < n /\
     exists P R, lift_even px = Some P /\ lift_even rx = Some R /\
                 bip_verify (mk_ssig (mk_gelt true R) s) (mk_gelt true P) m = true).
  Proof.
    intros p lift_even px rx s m. unfold Schnorr.bip_verify_wire, Schnorr.canonical.
    destruct ((0 <=? px) && (px <? p)) eqn:H1; cbn [negb]; [|split; [discriminate|intros (H & _); lia]].
    destruct ((0 <=? rx) && (rx <? p)) eqn:H2; cbn [negb]; [|split; [discriminate|intros (_ & H & _); lia]].
    destruct ((0 <=? s) && (s <? n)) eqn:H3; cbn [negb]; [|split; [discriminate|intros (_ & _ & H & _); lia]].
    destruct (lift_even px) as [P|]; [|split; [discriminate|intros (_ & _ & _ & P & R & H & _); discriminate]].
    destruct (lift_even rx) as [R|]; [|split; [discriminate|intros (_ & _ & _ & P' & R & _ & H & _); discriminate]].
    split.
    - intro H. repeat split; try lia. exists P, R. repeat split; exact H.
    - intros (_ & _ & _ & P' & R' & HP & HR & H). inversion HP. inversion HR. subst. exact H.
  Qed.

  Theorem mina_wire_accept_iff : forall p lift_even rx s pk m,
    mina_verify_wire n M chal p lift_even rx s pk m = true <->
    (0 <= rx < p /\ 0 <= s < n /\
     exists R, lift_even rx = Some R /\ mina_verify n M chal (mk_ssig (mk_gelt true R) s) pk m = true).
  Proof.
    intros p lift_even rx s pk m. unfold Schnorr.mina_verify_wire, Schnorr.canonical.
    destruct ((0 <=? rx) && (rx <? p)) eqn:H2; cbn [negb]; [|split; [discriminate|intros (H & _); lia]].
    destruct ((0 <=? s) && (s <? n)) eqn:H3; cbn [negb]; [|split; [discriminate|intros (_ & H & _); lia]].
    destruct (lift_even rx) as [R|]; [|split; [discriminate|intros (_ & _ & R & H & _); discriminate]].
    split.
    - intro H. repeat split; try lia. exists R. split; [reflexivity|exact H].
    - intros (_ & _ & R' & HR & H). inversion HR. subst. exact H.
  Qed.

  (* c + k·modulus (k >= 1) is never accepted in place of c *)
  Theorem wire_shifted_component_rejected : forall p lift_even px rx s m k,
    0 <= s -> 0 < n -> 1 <= k ->
    bip_verify_wire n yodd M chal p lift_even px rx (s + k * n) m = false /\
    forall pk, mina_verify_wire n M chal p lift_even rx (s + k * n) pk m = false.
  Proof.
    intros p lift_even px rx s m k Hs Hn Hk.
    assert (Hc : Schnorr.canonical n (s + k * n) = false) by (unfold Schnorr.canonical; nia).
    split; [|intro pk]; unfold Schnorr.bip_verify_wire, Schnorr.mina_verify_wire; rewrite Hc; cbn [negb];
      repeat match goal with |- (if ?c then _ else _) = _ => destruct c end; reflexivity.
  Qed.
End SchnorrProofs.

(* Mina: the generic verifier with x-only R and full P in the challenge, even-y nonces *)
Definition mina_accept_iff n M chal Hp := gen_accept_iff n M chal Hp false (xo n) (full n) (fun _ => false).
Definition mina_message_changed n M chal Hp Hr := gen_message_changed n M chal Hp Hr false (xo n) (full n) (fun _ => false).

(* ---- a concrete instance of the section hypotheses (order 7, parities of the toy curve
        y^2 = x^3 + 7 over F_13, challenge (a + 2b + 3m) mod 7) ------------------------------------- *)
Definition toy_par (k : Z) : bool := match k with 1 => true | 2 => true | 4 => true | _ => false end.
Definition toy_chal (a b m : Z) : Z := (a + 2 * b + 3 * m) mod 7.

Lemma schnorr_toy_instance :
  (forall a, 0 < a < 7 -> toy_par (7 - a) = negb (toy_par a)) /\
  (forall a b m, 0 <= toy_chal a b m < 7) /\
  (exists sg, bip_sign 7 toy_par Z toy_chal 3 2 5 = Some sg /\ bip_verify 7 toy_par Z toy_chal sg (mk_gelt true 3) 5 = true) /\
  (exists sg, gen_sign 7 Z toy_chal true (full 7) (full 7) toy_par 3 2 5 = Some sg) /\
  (exists sg, mina_sign 7 toy_par Z toy_chal 3 2 4 = Some sg /\ mina_verify 7 Z toy_chal sg (mk_gelt true 3) 4 = true).
Proof.
  split; [|split; [|split; [|split]]].
  - intros a Ha. assert (Hc : a = 1 \/ a = 2 \/ a = 3 \/ a = 4 \/ a = 5 \/ a = 6) by lia.
    destruct Hc as [H|[H|[H|[H|[H|H]]]]]; subst a; reflexivity.
  - intros. unfold toy_chal. apply Z.mod_pos_bound. lia.
  - eexists. split; vm_compute; reflexivity.
  - eexists. vm_compute. reflexivity.
  - eexists. split; vm_compute; reflexivity.
Qed.
