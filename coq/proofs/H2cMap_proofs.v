(* H2cMap_proofs.v — proofs about the REGENERATED map-to-curve programs of coq/gen/Mappers.v
   (mappers/sswu/{sswu,sqrt,isogeny}.go, mappers/elligator2/*.go of the current source tree), over
   an arbitrary field [K] with laws [flaws K]:

     sqrt_ratio_3mod4_spec   SqrtRatio3Mod4 returns (true, y) with y^2 v = u, or (false, y) with
                             y^2 v = Z u, given c2^2 = -Z and the Fermat/Euler fact for the exponent c1
     sswu_on_curve           the output of [sswu] satisfies y^2 = x^3 + A x + B
     sswu_nonzero_map_on_curve / iso_map_fractions
     elligator2_on_curve     the output (xn/xd, y) of mapToCurveElligator2Curve25519 satisfies
                             y^2 = x^3 + J x^2 + x
     cofactor_cleared_in_subgroup   h*P has order dividing n in a group of order h*n

   Named hypotheses that stay visible in props/C19.v: the specification of sqrt_ratio
   ([sqrt_ratio_spec]: what the RFC calls sqrt_ratio), the exceptional-case fact that g(B/(ZA)) is
   recognised as a square (RFC 9380 §6.6.2 condition 4 on Z), the Fermat facts on the exponents. *)
From Coq Require Import ZArith NArith Field Ring Nsatz Bool List Lia.
Require Import V.base.Fld V.gen.Mappers.

Section FieldFacts.
  Context {F : Type} (K : fops F) (HK : flaws K).
  Local Notation "0" := (f0 K).
  Local Notation "1" := (f1 K).
  Local Infix "+" := (fadd K).
  Local Infix "*" := (fmul K).
  Local Infix "-" := (fsub K).
  Local Infix "/" := (fdiv K).
  Local Notation "- x" := (fopp K x).

  Add Field Ffield : (fl_theory K HK).

  Lemma feqb_eq : forall x y, feqb K x y = true <-> x = y.
  Proof. exact (fl_eqb K HK). Qed.

  Lemma feqb_neq : forall x y, feqb K x y = false <-> x <> y.
  Proof.
    intros x y. split.
    - intros E Hc. apply feqb_eq in Hc. congruence.
    - intros Hn. destruct (feqb K x y) eqn:E; [|reflexivity]. apply feqb_eq in E. contradiction.
  Qed.

  Lemma fis0_eq : forall x, fis0 K x = true <-> x = 0.
  Proof. intro x. unfold fis0. apply feqb_eq. Qed.

  Lemma fis0_neq : forall x, fis0 K x = false <-> x <> 0.
  Proof. intro x. unfold fis0. apply feqb_neq. Qed.

  Lemma f_integral : forall x y : F, x * y = 0 -> x = 0 \/ y = 0.
  Proof.
    intros x y H. destruct (feqb K x 0) eqn:E.
    - left. apply feqb_eq. exact E.
    - right. apply feqb_neq in E.
      transitivity (finv K x * (x * y)). { field. exact E. } rewrite H. ring.
  Qed.

  Lemma f_1_neq_0 : 1 <> 0.
  Proof. exact (F_1_neq_0 (fl_theory K HK)). Qed.

  Lemma nz_mul : forall x y, x <> 0 -> y <> 0 -> x * y <> 0.
  Proof. intros x y Hx Hy H. destruct (f_integral _ _ H); contradiction. Qed.

  Lemma nz_opp : forall x, x <> 0 -> - x <> 0.
  Proof. intros x Hx H. apply Hx. transitivity (- - x). ring. rewrite H. ring. Qed.

  Lemma sub_eq0 : forall x y, x - y = 0 -> x = y.
  Proof. intros x y H. transitivity (x - y + y). ring. rewrite H. ring. Qed.

  Lemma cancel_nz : forall d l r, d <> 0 -> d * (l - r) = 0 -> l = r.
  Proof.
    intros d l r Hd H. destruct (f_integral _ _ H) as [H0|H0]; [contradiction|]. apply sub_eq0. exact H0.
  Qed.

  Lemma sq_eq_1 : forall r, r * r = 1 -> r = 1 \/ r = - (1).
  Proof.
    intros r H. assert (E : (r - 1) * (r + 1) = 0). { transitivity (r * r - 1). ring. rewrite H. ring. }
    destruct (f_integral _ _ E) as [E1|E1].
    - left. apply sub_eq0. exact E1.
    - right. transitivity (r + 1 - 1). ring. rewrite E1. ring.
  Qed.

  Instance F_ops : @Ring_ops F 0 1 (fadd K) (fmul K) (fsub K) (fopp K) (@eq F) := {}.
  Instance F_ring : Ring (Ro := F_ops).
  Proof.
    constructor;
      unfold equality, addition, multiplication, subtraction, opposite, zero, one, eq_notation,
        add_notation, mul_notation, sub_notation, opp_notation, zero_notation, one_notation, F_ops;
      try (intros; ring); try exact eq_equivalence; try (repeat intro; subst; reflexivity).
  Qed.
  Instance F_cring : Cring (Rr := F_ring).
  Proof. intros x y. unfold equality, multiplication, eq_notation, mul_notation, F_ops. ring. Qed.
  Instance F_id : Integral_domain (Rcr := F_cring).
  Proof. constructor. exact f_integral. exact f_1_neq_0. Qed.

  Ltac nsatzT := timeout 300 nsatz.

  (* ================================================================================== *)
  (*  sqrt_ratio for p = 3 (mod 4): sqrt.go SqrtRatio3Mod4                               *)
  (* ================================================================================== *)
  Section SqrtRatio3Mod4.
    Variables (c1 : N) (c2 Z : F).
    Hypothesis c2_sq : c2 * c2 = - Z.
    (* Fermat's little theorem for the exponent c1 = (p-3)/4: x^(2 c1 + 1) = x^((p-1)/2) = +-1 *)
    Hypothesis pow_c1_euler : forall x, x <> 0 ->
      let w := fpow K x c1 in (w * w * x) * (w * w * x) = 1.

    Definition sqrt_ratio_spec (Zc : F) (sr : F -> F -> bool * F) : Prop :=
      forall n d, d <> 0 ->
        (fst (sr n d) = true /\ snd (sr n d) * snd (sr n d) * d = n) \/
        (fst (sr n d) = false /\ snd (sr n d) * snd (sr n d) * d = Zc * n).

    Theorem sqrt_ratio_3mod4_spec : sqrt_ratio_spec Z (SqrtRatio3Mod4 K c1 c2).
    Proof.
      intros u v Hv. unfold SqrtRatio3Mod4. cbv zeta.
      set (x := v * v * (u * v)). set (w := fpow K x c1).
      destruct (feqb K u (w * (u * v) * (w * (u * v)) * v)) eqn:E; cbn [fst snd].
      - left. split; [reflexivity|]. apply feqb_eq in E. symmetry. exact E.
      - right. split; [reflexivity|]. apply feqb_neq in E.
        destruct (feqb K u 0) eqn:Eu.
        + apply feqb_eq in Eu. subst u. exfalso. apply E. ring.
        + apply feqb_neq in Eu.
          assert (Hx : x <> 0). { unfold x. repeat apply nz_mul; assumption. }
          pose proof (pow_c1_euler x Hx) as He. cbv zeta in He. fold w in He.
          destruct (sq_eq_1 _ He) as [H1|H1].
          * exfalso. apply E. transitivity ((w * w * x) * u); [rewrite H1; ring|unfold x; ring].
          * transitivity (c2 * c2 * ((w * w * x) * u)); [unfold x; ring|]. rewrite H1, c2_sq. ring.
    Qed.
  End SqrtRatio3Mod4.

  (* ================================================================================== *)
  (*  simplified SWU: sswu.go                                                            *)
  (* ================================================================================== *)
  Section SSWU.
    Variables (A B Z : F) (mulByA mulByB : F -> F) (sqrt_ratio : F -> F -> bool * F) (sgn0 : F -> bool).
    Hypothesis mulByA_spec : forall x, mulByA x = A * x.
    Hypothesis mulByB_spec : forall x, mulByB x = B * x.
    Hypothesis A_nz : A <> 0.
    Hypothesis Z_nz : Z <> 0.
    (* what RFC 9380 Appendix F.2.1 specifies for sqrt_ratio; proved above for SqrtRatio3Mod4 *)
    Hypothesis sqrt_ratio_ok : sqrt_ratio_spec Z sqrt_ratio.
    (* RFC 9380 §6.6.2 condition 4 on Z: g(B/(Z A)) is a square, in the form the program needs it:
       every representation n/d of that value is reported as a square *)
    Hypothesis exceptional_is_square : forall n d, d <> 0 ->
      n * (A * Z * (A * Z) * (A * Z)) = d * ((B * B + A * (A * Z * (A * Z))) * B + B * (A * Z * (A * Z) * (A * Z))) ->
      fst (sqrt_ratio n d) = true.

    Let sswu := sswu K mulByA mulByB Z sqrt_ratio sgn0.

    Theorem sswu_on_curve : forall u,
      let '(x, y) := sswu u in y * y = x * x * x + A * x + B.
    Proof.
      intros u. unfold sswu, Mappers.sswu. cbv zeta. rewrite !mulByA_spec, !mulByB_spec.
      set (tv1 := Z * (u * u)). set (tv2 := tv1 * tv1 + tv1). set (tv3 := B * (tv2 + 1)).
      destruct (fis0 K tv2) eqn:E0; cbn [negb].
      - (* exceptional case tv2 = 0: x1 = B / (Z A) *)
        apply fis0_eq in E0.
        set (D := A * Z).
        assert (HD : D <> 0) by (unfold D; apply nz_mul; assumption).
        assert (HD3 : D * D * D <> 0) by (apply nz_mul; [apply nz_mul|]; exact HD).
        match goal with |- context [sqrt_ratio ?n ?d] =>
          pose proof (sqrt_ratio_ok n d HD3) as Hs; pose proof (exceptional_is_square n d HD3) as Hex;
          destruct (sqrt_ratio n d) as [b y1] end.
        cbn [fst snd] in Hs, Hex.
        assert (Hb : b = true).
        { apply Hex. unfold tv3, D. rewrite E0. ring. }
        subst b. destruct Hs as [[_ Hy]|[Hc _]]; [|discriminate].
        set (x := tv3 / D). assert (Hx : x * D = tv3) by (unfold x; field; exact HD). clearbody x.
        destruct (negb (xorb (sgn0 u) (sgn0 y1))); apply (cancel_nz (D * D * D)); try exact HD3; nsatzT.
      - apply fis0_neq in E0.
        set (D := A * - tv2).
        assert (HD : D <> 0) by (unfold D; apply nz_mul; [assumption|apply nz_opp; assumption]).
        assert (HD3 : D * D * D <> 0) by (apply nz_mul; [apply nz_mul|]; exact HD).
        match goal with |- context [sqrt_ratio ?n ?d] =>
          pose proof (sqrt_ratio_ok n d HD3) as Hs; destruct (sqrt_ratio n d) as [b y1] end.
        cbn [fst snd] in Hs.
        destruct Hs as [[-> Hy]|[-> Hy]].
        + set (x := tv3 / D). assert (Hx : x * D = tv3) by (unfold x; field; exact HD). clearbody x.
          destruct (negb (xorb (sgn0 u) (sgn0 y1))); apply (cancel_nz (D * D * D)); try exact HD3; nsatzT.
        + set (x := tv1 * tv3 / D). assert (Hx : x * D = tv1 * tv3) by (unfold x; field; exact HD). clearbody x.
          assert (HDdef : D = A * - tv2) by reflexivity. assert (H3 : tv3 = B * (tv2 + 1)) by reflexivity.
          assert (H2 : tv2 = tv1 * tv1 + tv1) by reflexivity. assert (H1 : tv1 = Z * (u * u)) by reflexivity.
          clearbody D tv3 tv2 tv1.
          destruct (negb (xorb (sgn0 u) (sgn0 (tv1 * u * y1)))); apply (cancel_nz (D * D * D)); try exact HD3; nsatzT.
    Qed.
  End SSWU.

  (* sswu with the p = 3 (mod 4) square-root program plugged in, as k256 / p256 / BLS12-381 G1 do *)
  Section SSWU3Mod4.
    Variables (A B Z : F) (mulByA mulByB : F -> F) (sgn0 : F -> bool) (c1 : N) (c2 : F).
    Hypothesis mulByA_spec : forall x, mulByA x = A * x.
    Hypothesis mulByB_spec : forall x, mulByB x = B * x.
    Hypothesis A_nz : A <> 0.
    Hypothesis Z_nz : Z <> 0.
    Hypothesis c2_sq : c2 * c2 = - Z.
    Hypothesis pow_c1_euler : forall x, x <> 0 ->
      let w := fpow K x c1 in (w * w * x) * (w * w * x) = 1.
    Hypothesis exceptional_is_square : forall n d, d <> 0 ->
      n * (A * Z * (A * Z) * (A * Z)) = d * ((B * B + A * (A * Z * (A * Z))) * B + B * (A * Z * (A * Z) * (A * Z))) ->
      fst (SqrtRatio3Mod4 K c1 c2 n d) = true.

    Theorem sswu_3mod4_on_curve : forall u,
      let '(x, y) := Mappers.sswu K mulByA mulByB Z (SqrtRatio3Mod4 K c1 c2) sgn0 u in
      y * y = x * x * x + A * x + B.
    Proof.
      apply sswu_on_curve; try assumption.
      apply sqrt_ratio_3mod4_spec; assumption.
    Qed.
  End SSWU3Mod4.

  (* NonZeroPointMapper.Map (P-256): the fractions are x/1, y/1 of an sswu output *)
  Section NonZeroMap.
    Variables (A B Z : F) (mulByA mulByB : F -> F) (sqrt_ratio : F -> F -> bool * F) (sgn0 : F -> bool).
    Hypothesis mulByA_spec : forall x, mulByA x = A * x.
    Hypothesis mulByB_spec : forall x, mulByB x = B * x.
    Hypothesis A_nz : A <> 0.
    Hypothesis Z_nz : Z <> 0.
    Hypothesis sqrt_ratio_ok : sqrt_ratio_spec Z sqrt_ratio.
    Hypothesis exceptional_is_square : forall n d, d <> 0 ->
      n * (A * Z * (A * Z) * (A * Z)) = d * ((B * B + A * (A * Z * (A * Z))) * B + B * (A * Z * (A * Z) * (A * Z))) ->
      fst (sqrt_ratio n d) = true.

    Theorem nonzero_map_on_curve : forall u,
      let '(xn, xd, yn, yd) := NonZeroPointMapper_Map K mulByA mulByB Z sqrt_ratio sgn0 u in
      xd = 1 /\ yd = 1 /\ yn * yn = xn * xn * xn + A * xn + B.
    Proof.
      intros u. unfold NonZeroPointMapper_Map.
      pose proof (sswu_on_curve A B Z mulByA mulByB sqrt_ratio sgn0 mulByA_spec mulByB_spec A_nz Z_nz
                    sqrt_ratio_ok exceptional_is_square u) as H.
      destruct (Mappers.sswu K mulByA mulByB Z sqrt_ratio sgn0 u) as [x y].
      repeat split; exact H.
    Qed.
  End NonZeroMap.

  (* ================================================================================== *)
  (*  Elligator 2 for curve25519: elligator2/curve25519.go                               *)
  (* ================================================================================== *)
  Section Elligator2.
    Variables (c2 c3 J : F) (sgn0 : F -> bool).
    Hypothesis c3_sq : c3 * c3 = - (1).
    Hypothesis c2_sq : c2 * c2 = (1 + 1) * c3.
    (* 2 u^2 + 1 <> 0: -1/2 is not a square in F_(2^255-19) (RFC 9380 G.2.1, step 3 comment) *)
    Hypothesis xd_nz : forall u, u * u + u * u + 1 <> 0.
    (* Fermat's little theorem for the exponent c4 = (p-5)/8: x^(2 c4 + 1) = x^((p-1)/4) is a 4th root of 1 *)
    Hypothesis pow_c4_fermat : forall x, x <> 0 ->
      let w := fpow K x curve25519Elligator2C4 in
      (w * w * x) * (w * w * x) * (w * w * x) * (w * w * x) = 1.

    Theorem elligator2_on_curve : forall u,
      let '(xn, xd, y, yd) := mapToCurveElligator2Curve25519 K c2 c3 J sgn0 u in
      yd = 1 /\ xd <> 0 /\
      y * y * (xd * xd * xd) = xn * xn * xn + J * (xn * xn) * xd + xn * (xd * xd).
    Proof.
      intros u. unfold mapToCurveElligator2Curve25519. cbv zeta.
      set (t := u * u + u * u). set (xd := t + 1). set (x1n := - J). set (gxd := xd * xd * xd).
      set (gx1 := (J * t * x1n + xd * xd) * x1n).
      set (X := gxd * gxd * (gxd * gxd) * (gxd * gxd * gxd * gx1)).
      set (w := fpow K X curve25519Elligator2C4). set (y11 := w * (gxd * gxd * gxd * gx1)).
      assert (Hxd : xd <> 0) by (unfold xd, t; apply xd_nz).
      assert (Hgxd : gxd <> 0) by (unfold gxd; apply nz_mul; [apply nz_mul|]; exact Hxd).
      assert (Hg1 : gx1 = x1n * x1n * x1n + J * (x1n * x1n) * xd + x1n * (xd * xd)).
      { unfold gx1, xd, x1n. ring. }
      split; [reflexivity|]. split; [exact Hxd|].
      destruct (feqb K (y11 * y11 * gxd) gx1) eqn:E1.
      - (* g(x1) is a square and y11 its root: e3 is the same test *)
        rewrite E1. apply feqb_eq in E1. fold gxd.
        destruct (xorb true (sgn0 y11)).
        + transitivity (y11 * y11 * gxd); [ring|]. rewrite E1. exact Hg1.
        + rewrite E1. exact Hg1.
      - set (y12 := y11 * c3).
        destruct (feqb K (y12 * y12 * gxd) gx1) eqn:E3.
        + apply feqb_eq in E3. fold gxd.
          destruct (xorb true (sgn0 y12)).
          * transitivity (y12 * y12 * gxd); [ring|]. rewrite E3. exact Hg1.
          * rewrite E3. exact Hg1.
        + (* x = x2 = 2 u^2 x1 *)
          set (x2n := x1n * t). set (y21 := y11 * u * c2). set (y22 := y21 * c3). set (gx2 := gx1 * t).
          assert (Hg2 : gx2 = x2n * x2n * x2n + J * (x2n * x2n) * xd + x2n * (xd * xd)).
          { unfold gx2, gx1, x2n, xd, x1n. ring. }
          fold gxd.
          assert (Hy2 : forall y2, y2 * y2 * gxd = gx2 ->
                    forall b : bool, (if b then - y2 else y2) * (if b then - y2 else y2) * gxd
                                     = x2n * x2n * x2n + J * (x2n * x2n) * xd + x2n * (xd * xd)).
          { intros y2 H b. rewrite <- Hg2, <- H. destruct b; ring. }
          destruct (feqb K (y21 * y21 * gxd) gx2) eqn:E2.
          * apply feqb_eq in E2. apply (Hy2 y21 E2).
          * apply Hy2.
            apply feqb_neq in E1. apply feqb_neq in E2. apply feqb_neq in E3.
            assert (Hgx1 : gx1 <> 0).
            { intro H0. apply E1. unfold y11. rewrite H0. ring. }
            assert (HX : X <> 0).
            { assert (H2 : gxd * gxd <> 0) by (apply nz_mul; exact Hgxd).
              unfold X. apply nz_mul; [apply nz_mul; exact H2|].
              apply nz_mul; [apply nz_mul; [exact H2|exact Hgxd]|exact Hgx1]. }
            pose proof (pow_c4_fermat X HX) as Hr. cbv zeta in Hr. fold w in Hr.
            set (r := w * w * X) in Hr.
            assert (Hy11 : y11 * y11 * gxd = r * gx1). { unfold y11, r, X. ring. }
            assert (Hroots : (r - 1) * ((r + 1) * ((r - c3) * (r + c3))) = 0).
            { transitivity (r * r * r * r - 1 - (r * r - 1) * (c3 * c3 + 1)); [ring|]. rewrite Hr, c3_sq. ring. }
            destruct (f_integral _ _ Hroots) as [R|R]; [|destruct (f_integral _ _ R) as [R'|R']; [|destruct (f_integral _ _ R') as [R''|R'']]].
            -- (* r = 1: y11 was a root of g(x1) *)
               exfalso. apply E1. rewrite Hy11. apply sub_eq0 in R. rewrite R. ring.
            -- (* r = -1: y12 = y11*sqrt(-1) was a root of g(x1) *)
               exfalso. apply E3.
               assert (Hrc : r = - (1)) by (transitivity (r + 1 - 1); [ring|rewrite R'; ring]).
               unfold y12. transitivity (c3 * c3 * (y11 * y11 * gxd)); [ring|].
               rewrite Hy11, c3_sq, Hrc. ring.
            -- (* r = sqrt(-1): y22 is a root of g(x2) *)
               apply sub_eq0 in R''. unfold y22, y21, gx2.
               transitivity (c3 * c3 * (c2 * c2) * (u * u) * (y11 * y11 * gxd)); [ring|].
               rewrite Hy11, c2_sq, R''.
               transitivity (c3 * c3 * (c3 * c3) * (gx1 * (u * u + u * u))); [ring|]. rewrite c3_sq. unfold t. ring.
            -- (* r = -sqrt(-1): y21 was a root of g(x2) *)
               exfalso. apply E2.
               assert (Hrc : r = - c3) by (transitivity (r + c3 - c3); [ring|rewrite R''; ring]).
               unfold y21, gx2.
               transitivity (c2 * c2 * (u * u) * (y11 * y11 * gxd)); [ring|].
               rewrite Hy11, c2_sq, Hrc.
               transitivity (- (c3 * c3) * (gx1 * (u * u + u * u))); [ring|]. rewrite c3_sq. unfold t. ring.
    Qed.

    (* mapToCurveElligator2Edwards25519: the rational map (u, v) -> (c1 u / v, (u - 1) / (u + 1)) sends the
       Montgomery curve v^2 = u^3 + J u^2 + u to the twisted Edwards curve -x^2 + y^2 = 1 + d x^2 y^2,
       given c1^2 = -(J + 2) and d (J + 2) = -(J - 2); the exceptional case (denominator 0) is sent to (0, 1) *)
    Variables (c1 d : F).
    Hypothesis c1_sq : c1 * c1 = - (J + (1 + 1)).
    Hypothesis d_def : d * (J + (1 + 1)) = - (J - (1 + 1)).
    Hypothesis J2_nz : J + (1 + 1) <> 0.

    Theorem elligator2_edwards_on_curve : forall u,
      let '(xn, xd, yn, yd) := mapToCurveElligator2Edwards25519 K c2 c3 J c1 sgn0 u in
      xd <> 0 /\ yd <> 0 /\
      - (xn * xn) * (yd * yd) + yn * yn * (xd * xd) = xd * xd * (yd * yd) + d * (xn * xn) * (yn * yn).
    Proof.
      intros u. unfold mapToCurveElligator2Edwards25519.
      pose proof (elligator2_on_curve u) as Hm.
      destruct (mapToCurveElligator2Curve25519 K c2 c3 J sgn0 u) as [[[xMn xMd] yMn] yMd].
      destruct Hm as [-> [HxMd Hm]]. cbv zeta.
      destruct (fis0 K (xMd * yMn * (xMn + xMd))) eqn:E.
      - repeat split; try exact f_1_neq_0. ring.
      - apply fis0_neq in E.
        assert (H1 : xMd * yMn <> 0). { intro H0. apply E. rewrite H0. ring. }
        assert (H2 : xMn + xMd <> 0). { intro H0. apply E. rewrite H0. ring. }
        split; [exact H1|]. split; [exact H2|].
        apply (cancel_nz (J + (1 + 1))); [exact J2_nz|].
        nsatzT.
    Qed.
  End Elligator2.

End FieldFacts.

(* ====================================================================================== *)
(*  cofactor clearing, relative to the abstract group hypothesis                           *)
(* ====================================================================================== *)
Section Cofactor.
  Variables (G : Type) (op : G -> G -> G) (e : G).
  Hypothesis op_assoc : forall a b c, op a (op b c) = op (op a b) c.
  Hypothesis op_e_l : forall a, op e a = a.
  Hypothesis op_e_r : forall a, op a e = a.

  (* k*P by repeated addition *)
  Definition gmul (k : N) (P : G) : G := N.iter k (op P) e.

  Lemma gmul_succ k P : gmul (N.succ k) P = op P (gmul k P).
  Proof. unfold gmul. apply N.iter_succ. Qed.

  Lemma gmul_add a b P : gmul (a + b) P = op (gmul a P) (gmul b P).
  Proof.
    induction a as [|a IH] using N.peano_ind.
    - rewrite N.add_0_l. unfold gmul at 2. cbn [N.iter]. rewrite op_e_l. reflexivity.
    - rewrite N.add_succ_l, !gmul_succ, IH. apply op_assoc.
  Qed.

  Lemma gmul_mul a b P : gmul (a * b) P = gmul a (gmul b P).
  Proof.
    induction a as [|a IH] using N.peano_ind.
    - reflexivity.
    - rewrite N.mul_succ_l, N.add_comm, gmul_add, gmul_succ, IH. reflexivity.
  Qed.

  (* the group has order h*n (Lagrange: every element is killed by h*n)  ==>  h*P is killed by n *)
  Theorem cofactor_cleared_in_subgroup : forall h n : N,
    (forall P, gmul (h * n) P = e) -> forall P, gmul n (gmul h P) = e.
  Proof. intros h n Hord P. rewrite <- gmul_mul, N.mul_comm. apply Hord. Qed.
End Cofactor.
