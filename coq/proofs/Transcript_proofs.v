(* Transcript_proofs.v — unique decodability of the hagrid framing (regenerated
   from source), injectivity of extraction inputs, clone independence. *)
From Coq Require Import List NArith Bool Lia Arith PeanoNat.
From Coq Require Import ZifyN ZifyNat ZifyBool.
Import ListNotations.
Require Import V.base.Bytes V.gen.Hagrid V.model.Transcript.
Local Open Scope N_scope.

(* ------------------------------------------------------------------ *)
(* framing pieces                                                       *)

Lemma lp_prefix_free (a b r1 r2 : bytes) :
  len a < 2^64 -> len b < 2^64 ->
  be64 (len a) ++ a ++ r1 = be64 (len b) ++ b ++ r2 -> a = b /\ r1 = r2.
Proof.
  intros Ha Hb H.
  apply app_inj_length in H; [|rewrite !be64_length; reflexivity].
  destruct H as [H8 H].
  apply be64_inj in H8; [|assumption|assumption].
  apply len_inj in H8.
  apply app_inj_length in H; [|exact H8]. exact H.
Qed.

Definition enc_msgs (ms : list bytes) : bytes :=
  flat_map (fun m => be64 (len m) ++ m) ms.

Lemma enc_msgs_prefix_free (ms ms' : list bytes) (r1 r2 : bytes) :
  length ms = length ms' ->
  Forall (fun m => len m < 2^64) ms -> Forall (fun m => len m < 2^64) ms' ->
  enc_msgs ms ++ r1 = enc_msgs ms' ++ r2 -> ms = ms' /\ r1 = r2.
Proof.
  revert ms'; induction ms as [|m ms IH]; intros [|m' ms'] Hl Hv Hv' H; cbn in Hl; try discriminate.
  - cbn in H. split; [reflexivity|exact H].
  - cbn [enc_msgs flat_map] in H. rewrite <- !app_assoc in H.
    inversion Hv as [|? ? Hm Hms]; subst. inversion Hv' as [|? ? Hm' Hms']; subst.
    apply lp_prefix_free in H; [|assumption|assumption].
    destruct H as [-> H].
    destruct (IH ms' (eq_add_S _ _ Hl) Hms Hms' H) as [-> ->].
    split; reflexivity.
Qed.

(* The five tags regenerated from the source must be pairwise distinct for the
   framing to be unambiguous; this is re-checked against the current constants. *)
Lemma tags_distinct :
  domainTag <> appendTag /\ domainTag <> extractTag /\ appendTag <> extractTag /\
  extractedTag <> continuedTag.
Proof. repeat split; intro H; vm_compute in H; discriminate. Qed.

(* ------------------------------------------------------------------ *)
(* items: performed operations, plus the pending-extraction terminator *)

Inductive item :=
| IOp (o : op)
| IFin (l : bytes) (n : N).

Definition enc_item (i : item) : bytes :=
  match i with
  | IOp o => enc_op o
  | IFin l n => ExtractBytes_pre l n ++ ExtractBytes_clone
  end.

Definition valid_item (i : item) : Prop :=
  match i with
  | IOp o => valid_op o
  | IFin l n => len l < 2^64 /\ 0 < n < 2^64
  end.

Lemma cons_inj_tag (t t' : N) (a b : bytes) : [t] ++ a = [t'] ++ b -> t = t' /\ a = b.
Proof. cbn. intros H; injection H as -> ->. split; reflexivity. Qed.

Lemma ext_core_prefix_free l n t l' n' t' r1 r2 :
  len l < 2^64 -> len l' < 2^64 -> n < 2^64 -> n' < 2^64 ->
  (be64 (len l) ++ l ++ be64 n ++ [t] ++ r1) = (be64 (len l') ++ l' ++ be64 n' ++ [t'] ++ r2) ->
  l = l' /\ n = n' /\ t = t' /\ r1 = r2.
Proof.
  intros Hl Hl' Hn Hn' H.
  apply lp_prefix_free in H; [|assumption|assumption].
  destruct H as [-> H].
  apply app_inj_length in H; [|rewrite !be64_length; reflexivity].
  destruct H as [H8 H]. apply be64_inj in H8; [|assumption|assumption]. subst n'.
  apply cons_inj_tag in H. destruct H as [-> ->]. repeat split; reflexivity.
Qed.

Theorem item_prefix_free (i j : item) (r1 r2 : bytes) :
  valid_item i -> valid_item j ->
  enc_item i ++ r1 = enc_item j ++ r2 -> i = j /\ r1 = r2.
Proof.
  pose proof tags_distinct as (Tda & Tde & Tae & Tec).
  intros Vi Vj H.
  destruct i as [[s|l ms|l n]|l n], j as [[s'|l' ms'|l' n']|l' n'];
    cbn [enc_item enc_op] in H;
    unfold AppendDomainSeparator, AppendBytes, ExtractBytes_pre,
         ExtractBytes_live, ExtractBytes_clone in H;
    rewrite <- ?app_assoc in H;
    pose proof (cons_inj_tag _ _ _ _ H) as [Ht H'];
    try (exfalso; congruence); clear H Ht.
  - (* Dom / Dom *)
    cbn in Vi, Vj. apply lp_prefix_free in H'; [|assumption|assumption].
    destruct H' as [-> ->]. split; reflexivity.
  - (* App / App *)
    cbn in Vi, Vj. destruct Vi as (Vl & Vc & Vm), Vj as (Vl' & Vc' & Vm').
    apply lp_prefix_free in H'; [|assumption|assumption].
    destruct H' as [-> H'].
    apply app_inj_length in H'; [|rewrite !be64_length; reflexivity].
    destruct H' as [H8 H']. apply be64_inj in H8; [|assumption|assumption].
    apply len_inj in H8.
    apply (enc_msgs_prefix_free ms ms' r1 r2 H8 Vm Vm') in H'.
    destruct H' as [-> ->]. split; reflexivity.
  - (* Ext / Ext *)
    cbn in Vi, Vj. destruct Vi as (Vl & Vn0 & Vn), Vj as (Vl' & Vn0' & Vn').
    apply ext_core_prefix_free in H'; try assumption.
    destruct H' as (-> & -> & _ & ->). split; reflexivity.
  - (* Ext / Fin : same header, different final tag *)
    cbn in Vi, Vj. destruct Vi as (Vl & Vn0 & Vn), Vj as (Vl' & Vn0' & Vn').
    apply ext_core_prefix_free in H'; try assumption.
    destruct H' as (_ & _ & Ht & _). exfalso. apply Tec. symmetry. exact Ht.
  - (* Fin / Ext *)
    cbn in Vi, Vj. destruct Vi as (Vl & Vn0 & Vn), Vj as (Vl' & Vn0' & Vn').
    apply ext_core_prefix_free in H'; try assumption.
    destruct H' as (_ & _ & Ht & _). exfalso. apply Tec. exact Ht.
  - (* Fin / Fin *)
    cbn in Vi, Vj. destruct Vi as (Vl & Vn0 & Vn), Vj as (Vl' & Vn0' & Vn').
    apply ext_core_prefix_free in H'; try assumption.
    destruct H' as (-> & -> & _ & ->). split; reflexivity.
Qed.

Lemma enc_item_nonempty i : enc_item i <> [].
Proof.
  destruct i as [[s|l ms|l n]|l n]; cbn; discriminate.
Qed.

Definition enc_items (is : list item) : bytes := flat_map enc_item is.

(* A uniquely decodable code: equal streams come from equal item lists, and more
   generally of two streams one of which extends the other, the item lists are
   in the prefix relation — here in the form needed below. *)
Theorem enc_items_inj (a b : list item) :
  Forall valid_item a -> Forall valid_item b ->
  enc_items a = enc_items b -> a = b.
Proof.
  revert b; induction a as [|i a IH]; intros [|j b] Va Vb H.
  - reflexivity.
  - exfalso. cbn in H. symmetry in H. apply app_eq_nil in H. destruct H as [H _].
    exact (enc_item_nonempty j H).
  - exfalso. cbn in H. apply app_eq_nil in H. destruct H as [H _].
    exact (enc_item_nonempty i H).
  - cbn [enc_items flat_map] in H.
    inversion Va as [|? ? Vi Va']; subst. inversion Vb as [|? ? Vj Vb']; subst.
    apply item_prefix_free in H; [|assumption|assumption].
    destruct H as [-> H]. f_equal. apply IH; assumption.
Qed.

Lemma enc_items_ops h : enc_items (map IOp h) = live h.
Proof.
  unfold enc_items, live. induction h as [|o h IH]; cbn; [reflexivity|].
  rewrite IH. reflexivity.
Qed.

Lemma Forall_valid_ops h : Forall valid_op h -> Forall valid_item (map IOp h).
Proof. intros H. apply Forall_map. exact H. Qed.

Lemma map_IOp_inj a b : map IOp a = map IOp b -> a = b.
Proof.
  revert b; induction a as [|x a IH]; intros [|y b] H; cbn in H; try discriminate; [reflexivity|].
  injection H as -> H. f_equal. apply IH. exact H.
Qed.

(* --- C19 (i): the live stream determines the whole history ------------------ *)
Theorem live_injective (h1 h2 : list op) :
  Forall valid_op h1 -> Forall valid_op h2 -> live h1 = live h2 -> h1 = h2.
Proof.
  intros V1 V2 H. rewrite <- !enc_items_ops in H.
  apply enc_items_inj in H; [|apply Forall_valid_ops; assumption|apply Forall_valid_ops; assumption].
  apply map_IOp_inj. exact H.
Qed.

Lemma ext_input_items h l n : ext_input h l n = enc_items (map IOp h ++ [IFin l n]).
Proof.
  unfold ext_input, enc_items. rewrite flat_map_app. fold (enc_items (map IOp h)).
  rewrite enc_items_ops. cbn. rewrite app_nil_r. reflexivity.
Qed.

(* --- C19 (ii): the hash input of an extraction determines everything that was
       done before it (all operations incl. earlier extractions) and the request *)
Theorem ext_input_injective h1 l1 n1 h2 l2 n2 :
  Forall valid_op h1 -> Forall valid_op h2 ->
  len l1 < 2^64 -> 0 < n1 < 2^64 -> len l2 < 2^64 -> 0 < n2 < 2^64 ->
  ext_input h1 l1 n1 = ext_input h2 l2 n2 -> h1 = h2 /\ l1 = l2 /\ n1 = n2.
Proof.
  intros V1 V2 Hl1 Hn1 Hl2 Hn2 H. rewrite !ext_input_items in H.
  apply enc_items_inj in H.
  - apply app_inj_tail_length in H; [|reflexivity]. destruct H as [Hm Hf].
    injection Hf as -> ->. apply map_IOp_inj in Hm. subst. repeat split; reflexivity.
  - apply Forall_app; split; [apply Forall_valid_ops; assumption|].
    constructor; [cbn; split; assumption|constructor].
  - apply Forall_app; split; [apply Forall_valid_ops; assumption|].
    constructor; [cbn; split; assumption|constructor].
Qed.

(* An extraction input never coincides with a live stream that continues: the
   "extracted" fork cannot be extended into the "continued" one. *)
Theorem ext_input_not_live_prefix h1 l1 n1 h2 rest :
  Forall valid_op h1 -> Forall valid_op h2 ->
  len l1 < 2^64 -> 0 < n1 < 2^64 ->
  live h2 = ext_input h1 l1 n1 ++ rest -> False.
Proof.
  intros V1. revert h2. induction h1 as [|o h1 IH]; intros h2 V2 Hl Hn H.
  - unfold ext_input in H. cbn [live flat_map app] in H.
    destruct h2 as [|o2 h2]; [cbn in H; discriminate H|].
    cbn [live flat_map] in H. inversion V2 as [|? ? Vo2 V2']; subst.
    change (enc_item (IOp o2) ++ flat_map enc_op h2 = enc_item (IFin l1 n1) ++ rest) in H.
    apply item_prefix_free in H; [|exact Vo2|cbn; split; assumption].
    destruct H as [H _]. discriminate H.
  - destruct h2 as [|o2 h2].
    + unfold ext_input in H. cbn in H. symmetry in H.
      apply app_eq_nil in H. destruct H as [H _].
      apply app_eq_nil in H. destruct H as [H _].
      apply app_eq_nil in H. destruct H as [H _].
      exact (enc_item_nonempty (IOp o) H).
    + inversion V1 as [|? ? Vo V1']; subst. inversion V2 as [|? ? Vo2 V2']; subst.
      unfold ext_input in H. cbn [live flat_map] in H. rewrite <- !app_assoc in H.
      change (enc_item (IOp o2) ++ flat_map enc_op h2 =
              enc_item (IOp o) ++ flat_map enc_op h1 ++ ExtractBytes_pre l1 n1 ++ ExtractBytes_clone ++ rest) in H.
      apply item_prefix_free in H; [|assumption|assumption].
      destruct H as [_ H]. apply (IH V1' h2 V2' Hl Hn).
      unfold ext_input, live. rewrite <- !app_assoc. exact H.
Qed.

(* ------------------------------------------------------------------ *)
(* the concrete machine refines the history view                        *)

Definition performed_ops (h : list op) : list op := filter performed h.

Lemma step_absorbed t o :
  sp_absorbed (fst (step t o)) =
  sp_absorbed t ++ (if performed o then enc_op o else []).
Proof.
  destruct o as [s|l ms|l n]; cbn [step performed enc_op]; try reflexivity.
  destruct (ExtractBytes_refuses l n); cbn; [rewrite app_nil_r; reflexivity|].
  rewrite <- app_assoc. reflexivity.
Qed.

Lemma step_custom t o : sp_custom (fst (step t o)) = sp_custom t.
Proof.
  destruct o as [s|l ms|l n]; cbn [step]; try reflexivity.
  destruct (ExtractBytes_refuses l n); reflexivity.
Qed.

Lemma run_fst t h : fst (run t h) = fold_left (fun t o => fst (step t o)) h t.
Proof.
  revert t; induction h as [|o h IH]; intros t; cbn [run fold_left]; [reflexivity|].
  destruct (step t o) as [t1 out] eqn:E. specialize (IH t1).
  destruct (run t1 h) as [t2 outs]. cbn in *. exact IH.
Qed.

Theorem run_absorbed t h :
  sp_absorbed (fst (run t h)) = sp_absorbed t ++ live (performed_ops h) /\
  sp_custom (fst (run t h)) = sp_custom t.
Proof.
  rewrite run_fst. revert t; induction h as [|o h IH]; intros t; cbn [fold_left].
  - cbn. rewrite app_nil_r. split; reflexivity.
  - destruct (IH (fst (step t o))) as [Ha Hc]. rewrite Ha, Hc, step_absorbed, step_custom.
    split; [|reflexivity]. unfold performed_ops. cbn [filter].
    destruct (performed o); cbn [live flat_map]; rewrite ?app_nil_r, <- ?app_assoc; reflexivity.
Qed.

(* the k-th output of a run on a fresh transcript is the XOF call on ext_input of
   the operations performed before it *)
Lemma step_output t o :
  snd (step t o) =
  match o with
  | Ext l n => if ExtractBytes_refuses l n then None
               else Some {| xc_custom := sp_custom t;
                            xc_input := sp_absorbed t ++ ExtractBytes_pre l n ++ ExtractBytes_clone;
                            xc_len := n |}
  | _ => None
  end.
Proof.
  destruct o as [s|l ms|l n]; cbn [step]; try reflexivity.
  destruct (ExtractBytes_refuses l n); cbn; [reflexivity|].
  rewrite <- app_assoc. reflexivity.
Qed.

Lemma run_app t h1 h2 :
  run t (h1 ++ h2) =
  let '(t1, o1) := run t h1 in let '(t2, o2) := run t1 h2 in (t2, o1 ++ o2).
Proof.
  revert t; induction h1 as [|o h1 IH]; intros t; cbn [run app].
  - destruct (run t h2); reflexivity.
  - destruct (step t o) as [t1 out]. rewrite IH.
    destruct (run t1 h1) as [t2 outs]. destruct (run t2 h2). reflexivity.
Qed.

Theorem output_is_ext_input name h l n :
  ExtractBytes_refuses l n = false ->
  snd (step (fst (run (new_transcript name) h)) (Ext l n)) =
  Some {| xc_custom := NewTranscript_S name;
          xc_input := ext_input (performed_ops h) l n; xc_len := n |}.
Proof.
  intros Hr. rewrite step_output, Hr.
  destruct (run_absorbed (new_transcript name) h) as [Ha Hc]. rewrite Ha, Hc.
  cbn [new_transcript sp_absorbed sp_custom app]. unfold ext_input. reflexivity.
Qed.

Lemma refuses_iff l n : ExtractBytes_refuses l n = false <-> 0 < n.
Proof. unfold ExtractBytes_refuses. destruct (N.eqb_spec n 0); split; intros; try lia; congruence. Qed.

Lemma custom_injective n1 n2 : NewTranscript_S n1 = NewTranscript_S n2 -> n1 = n2.
Proof. unfold NewTranscript_S. apply app_inv_head. Qed.

(* --- C19 main statement: two extractions (anywhere, on any transcripts) feed the
       XOF with the same (customisation, input, length) iff they were made under
       the same protocol name, after the same performed operations, with the same
       label and length. *)
Theorem outputs_equal_iff name1 h1 l1 n1 name2 h2 l2 n2 :
  Forall valid_op h1 -> Forall valid_op h2 ->
  len l1 < 2^64 -> 0 < n1 < 2^64 -> len l2 < 2^64 -> 0 < n2 < 2^64 ->
  (snd (step (fst (run (new_transcript name1) h1)) (Ext l1 n1)) =
   snd (step (fst (run (new_transcript name2) h2)) (Ext l2 n2))
   <-> name1 = name2 /\ performed_ops h1 = performed_ops h2 /\ l1 = l2 /\ n1 = n2).
Proof.
  intros V1 V2 Hl1 Hn1 Hl2 Hn2.
  rewrite !output_is_ext_input by (apply refuses_iff; lia).
  split.
  - intros H.
    remember (NewTranscript_S name1) as c1 eqn:E1. remember (NewTranscript_S name2) as c2 eqn:E2.
    injection H as Hc Hi Hn. subst c1 c2.
    apply custom_injective in Hc.
    apply ext_input_injective in Hi; try assumption.
    + destruct Hi as (Hh & Hl & _). repeat split; assumption.
    + unfold performed_ops. apply Forall_forall. intros x Hx. apply filter_In in Hx.
      rewrite Forall_forall in V1. apply V1. tauto.
    + unfold performed_ops. apply Forall_forall. intros x Hx. apply filter_In in Hx.
      rewrite Forall_forall in V2. apply V2. tauto.
  - intros (-> & -> & -> & ->). reflexivity.
Qed.

Lemma valid_performed o : valid_op o -> performed o = true.
Proof.
  destruct o as [s|l ms|l n]; cbn; try reflexivity.
  intros (_ & Hn & _). apply negb_true_iff. apply refuses_iff. exact Hn.
Qed.

Lemma performed_ops_valid h : Forall valid_op h -> performed_ops h = h.
Proof.
  induction 1 as [|o h Ho _ IH]; unfold performed_ops in *; cbn [filter]; [reflexivity|].
  rewrite (valid_performed o Ho), IH. reflexivity.
Qed.

(* a refused extraction (length 0) leaves no trace *)
Theorem refused_no_effect t l : step t (Ext l 0) = (t, None).
Proof. reflexivity. Qed.

(* ------------------------------------------------------------------ *)
(* clones                                                               *)

Lemma nth_error_set_nth_same {A} i (x : A) l :
  (i < length l)%nat -> nth_error (set_nth i x l) i = Some x.
Proof.
  revert i; induction l as [|y l IH]; intros [|i] H; cbn in *; try lia; [reflexivity|].
  apply IH. lia.
Qed.

Lemma nth_error_set_nth_other {A} i j (x : A) l :
  i <> j -> nth_error (set_nth i x l) j = nth_error l j.
Proof.
  revert i j; induction l as [|y l IH]; intros [|i] [|j] H; cbn; try reflexivity; try congruence.
  apply IH. congruence.
Qed.

Lemma set_nth_length {A} i (x : A) l : length (set_nth i x l) = length l.
Proof. revert i; induction l as [|y l IH]; intros [|i]; cbn; congruence. Qed.

(* operations on transcript i leave every other transcript's state untouched *)
Theorem cstep_other st c j :
  (j < length st)%nat ->
  (forall o, c <> Do j o) ->
  nth_error (fst (cstep st c)) j = nth_error st j.
Proof.
  intros Hj Hc. destruct c as [i o|i]; cbn [cstep].
  - destruct (nth_error st i) as [t|] eqn:E; [|reflexivity].
    destruct (step t o) as [t' out]. cbn [fst].
    apply nth_error_set_nth_other. intro; subst. apply (Hc o). reflexivity.
  - destruct (nth_error st i) as [t|]; [|reflexivity]. cbn [fst].
    rewrite nth_error_app1 by exact Hj. reflexivity.
Qed.

(* a clone starts as an exact copy ... *)
Theorem clone_is_copy st i t :
  nth_error st i = Some t ->
  nth_error (fst (cstep st (CloneOf i))) (length st) = Some t /\
  nth_error (fst (cstep st (CloneOf i))) i = Some t.
Proof.
  intros E. cbn [cstep]. rewrite E. cbn [fst]. split.
  - rewrite nth_error_app2 by lia. rewrite Nat.sub_diag. reflexivity.
  - rewrite nth_error_app1; [exact E|]. apply nth_error_Some. congruence.
Qed.

Definition touches (j : nat) (c : cmd) : bool :=
  match c with Do i _ => Nat.eqb i j | CloneOf _ => false end.

Lemma crun_fst st cs : fst (crun st cs) = fold_left (fun s c => fst (cstep s c)) cs st.
Proof.
  revert st; induction cs as [|c cs IH]; intros st; cbn [crun fold_left]; [reflexivity|].
  destruct (cstep st c) as [s1 out]. specialize (IH s1). destruct (crun s1 cs). exact IH.
Qed.

Lemma cstep_length_mono st c : (length st <= length (fst (cstep st c)))%nat.
Proof.
  destruct c as [i o|i]; cbn [cstep]; destruct (nth_error st i) as [t|]; cbn; try lia.
  - destruct (step t o). cbn. rewrite set_nth_length. lia.
  - rewrite app_length. cbn. lia.
Qed.

(* ... and afterwards evolves independently: whatever is done to other
   transcripts (including the origin, and further clones), transcript j's state
   is unchanged *)
Theorem clone_independent st cs j :
  (j < length st)%nat ->
  forallb (fun c => negb (touches j c)) cs = true ->
  nth_error (fst (crun st cs)) j = nth_error st j.
Proof.
  rewrite crun_fst. revert st; induction cs as [|c cs IH]; intros st Hj Hall; cbn [fold_left]; [reflexivity|].
  cbn [forallb] in Hall. apply andb_true_iff in Hall. destruct Hall as [Hc Hall].
  rewrite IH; [| pose proof (cstep_length_mono st c); lia | exact Hall].
  apply cstep_other; [exact Hj|].
  intros o ->. cbn in Hc. rewrite Nat.eqb_refl in Hc. discriminate.
Qed.

(* operating on transcript j of a store = operating on that transcript alone *)
Theorem cstep_do st j o t :
  nth_error st j = Some t ->
  nth_error (fst (cstep st (Do j o))) j = Some (fst (step t o)) /\
  snd (cstep st (Do j o)) = snd (step t o).
Proof.
  intros E. cbn [cstep]. rewrite E. destruct (step t o) as [t' out]. cbn [fst snd]. split; [|reflexivity].
  apply nth_error_set_nth_same. apply nth_error_Some. congruence.
Qed.
