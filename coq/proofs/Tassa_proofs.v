(* Tassa_proofs.v — hierarchical access structures and the dedicated Tassa scheme, on top of C20's
   Birkhoff / determinant theorems (proofs/{Birkhoff,Det,DetCol}_proofs.v).

     accepts_if_nonsingular          any MSP: a selection of D rows with non-zero determinant is accepted
     induced_hier_shape              the hierarchical MSP: one Birkhoff row per holder, by ascending ID
     hier_sub_rows                   the rows selected by an ID list are the Birkhoff matrix of its members
     hier_accepts_if_birkhoff_nonsingular
     hier_qualified_accepted         under the NAMED hypothesis [tassa_wellposed] (Tassa's theorem)
     tassa_deal_is_kw_deal           the dedicated dealing (derivatives of one polynomial) is the KW dealing
                                     of the hierarchical MSP
     tassa_reconstruct_correct_if_nonsingular                                                        *)
From Coq Require Import List NArith ZArith Arith Bool Lia Field Ring.
Import ListNotations.
Require Import V.base.Fld V.model.LinAlg V.model.Poly V.model.Interp V.model.Access V.model.Msp V.model.Kw V.model.Schemes.
Require Import V.proofs.LinAlg_proofs V.proofs.Poly_proofs V.proofs.Interp_proofs V.proofs.Birkhoff_proofs
               V.proofs.Det_proofs V.proofs.Span_proofs V.proofs.Msp_proofs V.proofs.Kw_proofs
               V.proofs.Families_proofs V.proofs.Hier_proofs.

Lemma NoDup_app_parts : forall {A} (a b : list A), NoDup (a ++ b) ->
  NoDup b /\ forall x, In x a -> ~ In x b.
Proof.
  intros A a; induction a as [|h a IH]; intros b H; [split; [exact H|intros ? []]|].
  cbn [app] in H. inversion H; subst. destruct (IH b H3) as [Hb Hd]. split; [exact Hb|].
  intros x [->|Hx]; [intro Hin; apply H2; apply in_or_app; now right|auto].
Qed.

Lemma combine_map_map2 : forall {A B C} (f : A -> B) (g : A -> C) (l : list A),
  combine (map f l) (map g l) = map (fun a => (f a, g a)) l.
Proof. induction l as [|a l IH]; [reflexivity|]. cbn [map combine]. now rewrite IH. Qed.

Section Tassa.
Context {F : Type} (K : fops F) (HK : flaws K) (fromN : N -> F).
Implicit Type m : @msp F.

Add Field KfieldT : (fl_theory K HK).

Notation "0" := (f0 K).
Notation "1" := (f1 K).
Infix "+" := (fadd K).
Infix "*" := (fmul K).
Infix "-" := (fsub K).

(* ---- any MSP: D selected rows with non-zero determinant span e0 ---------------------------------- *)

Theorem accepts_if_nonsingular : forall m ids, wf_msp m -> ids <> [] ->
  (forall id, In id ids -> In id (msp_lab m)) ->
  length (sel_filter m ids) = msp_D m ->
  determinant K (sub_rows (msp_M m) (sel_filter m ids)) <> 0 ->
  accepts K m ids = true.
Proof.
  intros m ids Hwf Hne Hknown Hlen Hdet.
  pose proof (sel_rows_known m ids Hne Hknown) as Hs.
  apply (accepts_iff_span K HK m ids Hwf). exists (sel_filter m ids). split; [exact Hs|].
  pose proof Hwf as [n [d [Hwfm [Hlab [Hd Hn]]]]].
  assert (HD : msp_D m = d) by now apply (msp_D_wf m n d).
  set (rows := sel_filter m ids) in *.
  assert (Hlt : Forall (fun i => (i < n)%nat) rows).
  { apply Forall_forall. intros i Hi. apply sel_filter_lt in Hi. lia. }
  pose proof (sub_rows_wf n d _ rows Hwfm Hlt) as HwfS. rewrite Hlen, HD in HwfS.
  set (A := sub_rows (msp_M m) rows) in *.
  destruct (try_inv K A) as [Ni|] eqn:Ei.
  2:{ exfalso. apply Hdet. now apply (det_zero_iff K HK d A HwfS Hd). }
  destruct (try_inv_sound K HK d A Ni HwfS Hd Ei) as [HwN [_ HNA]].
  set (y := row 0 Ni).
  assert (Hy : length y = d) by (apply (wf_row_length d d Ni 0 HwN Hd)).
  exists y. split.
  - destruct HwfS as [HL _]. lia.
  - rewrite HD. rewrite <- (vecm_lincomb K HK d d A y HwfS Hd Hy).
    unfold target. rewrite HD. rewrite <- (row_identity K d 0 Hd), <- HNA.
    unfold mmul, row, y. destruct HwN as [HLN _]. destruct Ni as [|r0 Ni']; [cbn in HLN; lia|]. reflexivity.
Qed.

(* ---- the hierarchical MSP ---------------------------------------------------------------------------- *)

Definition rank0 (levels : list (nat * list N)) (id : N) : nat :=
  match hier_rank levels id with Some j => j | None => O end.

Definition hier_row (levels : list (nat * list N)) (k : nat) (id : N) : list F :=
  map (fun c => phi K c (fromN id) (N.of_nat (rank0 levels id))) (seq 0 k).

Definition hier_holders (levels : list (nat * list N)) : list N := sortN (nodupN (flat_map snd levels)).
Definition hier_k (levels : list (nat * list N)) : nat := fst (last levels (O, [])).

Lemma induced_hier_shape : forall q levels m, induced_hier K fromN q levels = Some m ->
  m = zmsp (map (fun id => (id, hier_row levels (hier_k levels) id)) (hier_holders levels)) /\
  (0 < hier_k levels)%nat /\
  (forall id, In id (hier_holders levels) -> hier_rank levels id <> None).
Proof.
  intros q levels m Hind. unfold induced_hier in Hind.
  destruct (negb (hier_constraints q levels)); [discriminate|].
  fold (hier_holders levels) in Hind. fold (hier_k levels) in Hind.
  set (hs := hier_holders levels) in *. set (k := hier_k levels) in *.
  destruct k as [|k'] eqn:Ek; [discriminate|]. rewrite <- Ek in *.
  set (g := fun id => match hier_rank levels id with
                      | None => None
                      | Some j => Some (map (fun c => phi K c (fromN id) (N.of_nat j)) (seq 0 k))
                      end) in *.
  destruct (forallb _ (map g hs)) eqn:Eall; [|discriminate].
  unfold new_msp in Hind. destruct (_ && _) eqn:Echk; [|discriminate]. inversion Hind; subst m. clear Hind.
  assert (Hrows : flat_map (fun r => match r with Some x => [x] | None => [] end) (map g hs)
                  = map (hier_row levels k) hs /\ forall id, In id hs -> hier_rank levels id <> None).
  { clear -Eall. induction hs as [|h hs IH]; [split; [reflexivity|intros ? []]|].
    cbn [map forallb] in Eall. apply andb_true_iff in Eall. destruct Eall as [E1 E2].
    destruct (IH E2) as [IH1 IH2]. split.
    - cbn [map flat_map]. unfold g in E1. unfold g at 1, hier_row at 1, rank0.
      destruct (hier_rank levels h); [|discriminate E1]. cbn [app]. now rewrite IH1.
    - intros id [->|Hid]; [|auto]. unfold g in E1. destruct (hier_rank levels id); [discriminate|discriminate E1]. }
  destruct Hrows as [Hrows Hsome]. rewrite Hrows.
  split; [|split; [lia|exact Hsome]].
  unfold zmsp. rewrite !map_map. cbn [fst snd]. now rewrite map_id.
Qed.

Lemma hier_wf : forall levels, (0 < hier_k levels)%nat -> hier_holders levels <> [] ->
  wf_msp (zmsp (map (fun id => (id, hier_row levels (hier_k levels) id)) (hier_holders levels))).
Proof.
  intros levels Hk Hne. exists (length (hier_holders levels)), (hier_k levels). unfold zmsp. cbn [msp_M msp_lab].
  rewrite !map_map. cbn [fst snd]. split; [split|split; [|split]].
  - now rewrite map_length.
  - apply Forall_forall. intros r Hr. apply in_map_iff in Hr. destruct Hr as [id [<- _]].
    unfold hier_row. now rewrite map_length, seq_length.
  - now rewrite map_length.
  - exact Hk.
  - destruct (hier_holders levels); [congruence|cbn; lia].
Qed.

(* the rows selected by an ID list: the Birkhoff matrix (as birkhoff.BuildVandermondeMatrix builds it)
   of the listed holders in ascending ID order *)
Definition members (levels : list (nat * list N)) (ids : list N) : list N :=
  filter (fun id => memN id ids) (hier_holders levels).

Lemma hier_sub_rows : forall levels ids,
  let m := zmsp (map (fun id => (id, hier_row levels (hier_k levels) id)) (hier_holders levels)) in
  sub_rows (msp_M m) (sel_filter m ids) =
  build_birkhoff K (map fromN (members levels ids))
                   (map (fun id => N.of_nat (rank0 levels id)) (members levels ids)) (hier_k levels).
Proof.
  intros levels ids m. unfold m. rewrite sub_rows_zipped.
  unfold build_birkhoff, members.
  induction (hier_holders levels) as [|h hs IH]; [reflexivity|].
  cbn [map filter fst snd]. destruct (memN h ids); cbn [map combine fst snd]; rewrite IH; reflexivity.
Qed.

Theorem hier_accepts_if_birkhoff_nonsingular : forall q levels m ids,
  induced_hier K fromN q levels = Some m -> ids <> [] ->
  (forall id, In id ids -> In id (msp_lab m)) ->
  length (members levels ids) = hier_k levels ->
  determinant K (build_birkhoff K (map fromN (members levels ids))
                   (map (fun id => N.of_nat (rank0 levels id)) (members levels ids)) (hier_k levels)) <> 0 ->
  accepts K m ids = true.
Proof.
  intros q levels m ids Hind Hne Hknown Hlen Hdet.
  destruct (induced_hier_shape q levels m Hind) as [-> [Hk _]].
  set (mm := zmsp (map (fun id => (id, hier_row levels (hier_k levels) id)) (hier_holders levels))) in *.
  assert (Hlab : msp_lab mm = hier_holders levels).
  { unfold mm, zmsp. cbn [msp_lab]. rewrite map_map. cbn [fst]. apply map_id. }
  assert (Hhne : hier_holders levels <> []).
  { destruct ids as [|i0 ids']; [congruence|]. specialize (Hknown i0 (or_introl eq_refl)). rewrite Hlab in Hknown.
    intro E. rewrite E in Hknown. contradiction. }
  pose proof (hier_wf levels Hk Hhne) as Hwf. fold mm in Hwf.
  assert (HD : msp_D mm = hier_k levels).
  { destruct Hwf as [n [d [Hw [_ [_ Hn]]]]]. rewrite (msp_D_wf _ n d Hw Hn).
    destruct Hw as [_ HF]. unfold mm, zmsp in HF. cbn [msp_M] in HF. rewrite map_map in HF. cbn [snd] in HF.
    destruct (hier_holders levels) as [|h hs]; [congruence|]. cbn [map] in HF.
    pose proof (Forall_inv HF) as Hh. cbn beta in Hh. rewrite <- Hh.
    unfold hier_row. now rewrite map_length, seq_length. }
  assert (Hsel : length (sel_filter mm ids) = length (members levels ids)).
  { pose proof (hier_sub_rows levels ids) as E. cbv zeta in E. fold mm in E.
    apply (f_equal (@length _)) in E. unfold sub_rows in E at 1. rewrite map_length in E. rewrite E.
    unfold build_birkhoff. now rewrite map_length, combine_length, !map_length, Nat.min_id. }
  apply (accepts_if_nonsingular mm ids Hwf Hne Hknown).
  - rewrite Hsel, HD. exact Hlen.
  - pose proof (hier_sub_rows levels ids) as E. cbv zeta in E. fold mm in E. rewrite E. exact Hdet.
Qed.

(* ---- qualified => accepted, under Tassa's theorem as a NAMED hypothesis ------------------------------- *)

Section Wellposed.
Variables (q : Z) (levels : list (nat * list N)).

(* Tassa, "Hierarchical threshold secret sharing" (J. Cryptology 2007), Theorem 3: for holder IDs that
   increase from level to level in a sufficiently large field, every authorised set contains k holders
   whose Birkhoff interpolation problem is well posed (non-singular matrix).  NOT proved here; the code's
   CheckConstraints enforces Tassa's sufficient condition.  Everything else about the hierarchical family
   is proved relative to this one statement. *)
Hypothesis tassa_wellposed : forall S, (forall id, In id S -> In id (hier_holders levels)) ->
  hier_eval S [] levels = true ->
  exists T, T <> [] /\ incl T S /\ length (members levels T) = hier_k levels /\
    determinant K (build_birkhoff K (map fromN (members levels T))
                     (map (fun id => N.of_nat (rank0 levels id)) (members levels T)) (hier_k levels)) <> 0.

Theorem hier_qualified_accepted : forall m ids,
  induced_hier K fromN q levels = Some m ->
  (forall id, In id ids -> In id (msp_lab m)) ->
  is_qualified (Hier levels) ids = true -> accepts K m ids = true.
Proof.
  intros m ids Hind Hknown Hq.
  destruct (induced_hier_shape q levels m Hind) as [Em [Hk _]].
  assert (Hlab : msp_lab m = hier_holders levels).
  { rewrite Em. unfold zmsp. cbn [msp_lab]. rewrite map_map. cbn [fst]. apply map_id. }
  assert (Hknown' : forall id, In id ids -> In id (hier_holders levels)) by (intros; rewrite <- Hlab; auto).
  destruct (tassa_wellposed ids Hknown' Hq) as [T [HTne [HTincl [HTlen HTdet]]]].
  assert (HknownT : forall id, In id T -> In id (msp_lab m)) by (intros; apply Hknown; now apply HTincl).
  pose proof (hier_accepts_if_birkhoff_nonsingular q levels m T Hind HTne HknownT HTlen HTdet) as HaccT.
  assert (Hhne : hier_holders levels <> []).
  { destruct T as [|t0 T']; [congruence|]. specialize (HknownT t0 (or_introl eq_refl)). rewrite Hlab in HknownT.
    intro E. rewrite E in HknownT. contradiction. }
  assert (Hwf : wf_msp m) by (rewrite Em; now apply hier_wf).
  exact (monotone K HK m T ids Hwf HTincl Hknown HaccT).
Qed.

End Wellposed.

(* ---- the dedicated Tassa dealing is the KW dealing of the hierarchical MSP ------------------------------ *)

Fixpoint tgo (cs : list F) (d : nat) (ls : list (nat * list N)) : list (N * F) :=
  match ls with
  | [] => []
  | (t, ps) :: rest => map (fun id => (id, peval K (pderiv_iter K d cs) (fromN id))) ps ++ tgo cs t rest
  end.

Lemma tassa_deal_tgo : forall levels cs, tassa_deal K fromN levels cs = tgo cs O levels.
Proof. intros. unfold tassa_deal. generalize O. induction levels as [|[t ps] rest IH]; intros d; cbn; [reflexivity|]. now rewrite IH. Qed.

Lemma tgo_ids : forall cs ls d, map fst (tgo cs d ls) = flat_map snd ls.
Proof.
  intros cs ls; induction ls as [|[t ps] rest IH]; intros d; [reflexivity|].
  cbn [tgo flat_map snd]. rewrite map_app, map_map, IH. cbn [fst]. now rewrite map_id.
Qed.

Lemma tgo_rank : forall cs ls d id v, NoDup (flat_map snd ls) -> In (id, v) (tgo cs d ls) ->
  exists j, hier_rank_from d ls id = Some j /\ v = peval K (pderiv_iter K j cs) (fromN id).
Proof.
  intros cs ls; induction ls as [|[t ps] rest IH]; intros d id v Hnd Hin; [contradiction|].
  cbn [tgo] in Hin. cbn [flat_map snd] in Hnd. cbn [hier_rank_from]. apply in_app_or in Hin. destruct Hin as [Hin|Hin].
  - apply in_map_iff in Hin. destruct Hin as [id' [E Hid]]. inversion E; subst.
    assert (Hm : memN id ps = true) by now apply memN_In. rewrite Hm. eauto.
  - assert (Hidr : In id (flat_map snd rest)).
    { rewrite <- (tgo_ids cs rest t). apply in_map_iff. exists (id, v). auto. }
    assert (Hm : memN id ps = false).
    { destruct (memN id ps) eqn:E; [|reflexivity]. apply memN_In in E. exfalso.
      destruct (NoDup_app_parts _ _ Hnd) as [_ Hd]. exact (Hd id E Hidr). }
    rewrite Hm. apply IH; auto. now destruct (NoDup_app_parts _ _ Hnd).
Qed.

Lemma members_single : forall levels id, In id (hier_holders levels) -> members levels [id] = [id].
Proof.
  intros levels id Hin. unfold members.
  assert (Hnd : NoDup (hier_holders levels)) by (unfold hier_holders; apply sortN_NoDup, nodupN_NoDup).
  induction (hier_holders levels) as [|h hs IH]; [contradiction|]. inversion Hnd; subst.
  cbn [filter memN existsb]. destruct (N.eqb h id) eqn:E; cbn [orb].
  - apply N.eqb_eq in E. subst h. f_equal.
    clear -H1. induction hs as [|a hs IH]; [reflexivity|]. cbn [filter memN existsb].
    destruct (N.eqb a id) eqn:E; [apply N.eqb_eq in E; subst; exfalso; apply H1; now left|].
    cbn [orb]. apply IH. intro; apply H1; now right.
  - destruct Hin as [->|Hin]; [rewrite N.eqb_refl in E; discriminate|]. now apply IH.
Qed.

Lemma rows_of_sel_single : forall m id, rows_of m id = sel_filter m [id].
Proof.
  intros. unfold rows_of, sel_filter. apply filter_ext. intros i. cbn [memN existsb]. now rewrite orb_false_r.
Qed.

Theorem tassa_deal_is_kw_deal : forall q levels m cs id v,
  induced_hier K fromN q levels = Some m -> NoDup (flat_map snd levels) ->
  length cs = hier_k levels ->
  In (id, v) (tassa_deal K fromN levels cs) ->
  share_of K m (mvec K (msp_M m) cs) id = (id, [v]).
Proof.
  intros q levels m cs id v Hind Hnd Hcs Hin. rewrite tassa_deal_tgo in Hin.
  destruct (tgo_rank cs levels O id v Hnd Hin) as [j [Hj ->]].
  destruct (induced_hier_shape q levels m Hind) as [-> [Hk _]].
  assert (Hidh : In id (hier_holders levels)).
  { unfold hier_holders. rewrite in_sortN, in_nodupN. rewrite <- (tgo_ids cs levels O). apply in_map_iff. eexists; split; [|exact Hin]. reflexivity. }
  unfold share_of. f_equal.
  set (mm := zmsp (map (fun id0 => (id0, hier_row levels (hier_k levels) id0)) (hier_holders levels))).
  assert (E : map (fun i => nth i (mvec K (msp_M mm) cs) 0) (rows_of mm id) =
              mvec K (sub_rows (msp_M mm) (rows_of mm id)) cs).
  { unfold sub_rows, mvec at 2. rewrite map_map. apply map_ext. intros i. apply (nth_mvec K). }
  rewrite E, rows_of_sel_single.
  pose proof (hier_sub_rows levels [id]) as Hs. cbv zeta in Hs. fold mm in Hs. rewrite Hs.
  rewrite (members_single levels id Hidh). cbn [map]. rewrite <- Hcs.
  rewrite (build_birkhoff_mvec K HK). cbn [combine map fst snd]. rewrite Nat2N.id.
  unfold rank0, hier_rank. rewrite Hj. reflexivity.
Qed.

(* ---- Tassa Reconstruct ---------------------------------------------------------------------------------- *)

Lemma rank_defined : forall ls r id, In id (flat_map snd ls) -> hier_rank_from r ls id <> None.
Proof.
  induction ls as [|[t ps] rest IH]; intros r id Hin; [contradiction|]. cbn [flat_map snd] in Hin. cbn [hier_rank_from].
  destruct (memN id ps) eqn:E; [discriminate|]. apply in_app_or in Hin. destruct Hin as [Hin|Hin].
  - apply memN_In in Hin. congruence.
  - now apply IH.
Qed.

Lemma coeff_eq_pad : forall (p : list F) n, coeff_eq K (p ++ repeat 0 n) p.
Proof.
  intros p n i. destruct (Nat.ltb i (length p)) eqn:E.
  - apply Nat.ltb_lt in E. now rewrite app_nth1.
  - apply Nat.ltb_ge in E. rewrite (nth_overflow p) by lia. apply nth_app_zeros. lia.
Qed.

Lemma pderiv_iter_pad_eval : forall j (p : list F) n x,
  peval K (pderiv_iter K j (p ++ repeat 0 n)) x = peval K (pderiv_iter K j p) x.
Proof.
  intros j p n x. rewrite !(peval_eq_peval_r K HK). apply (peval_r_coeff_eq K HK).
  intros i. rewrite !(pderiv_iter_nth K HK). now rewrite coeff_eq_pad.
Qed.

Lemma ptrim_len_pad : forall (p : list F) n, ptrim_len K (p ++ repeat 0 n) = ptrim_len K p.
Proof.
  induction p as [|c p IH]; intros n.
  - cbn [app]. induction n as [|n IHn]; [reflexivity|]. cbn [repeat ptrim_len]. rewrite IHn.
    assert (E : fis0 K 0 = true) by now apply (fis0_true K HK). now rewrite E.
  - cbn [app ptrim_len]. now rewrite IH.
Qed.

Lemma ptrim_len_full : forall (p : list F), p <> [] -> nth (pred (length p)) p 0 <> 0 -> ptrim_len K p = length p.
Proof.
  induction p as [|c p IH]; intros Hne Hl; [congruence|]. cbn [ptrim_len length].
  destruct p as [|c' p'].
  - cbn [ptrim_len]. cbn in Hl. destruct (fis0 K c) eqn:E; [apply (fis0_true K HK) in E; contradiction|reflexivity].
  - rewrite IH; [reflexivity|discriminate|]. exact Hl.
Qed.

Lemma build_birkhoff_wf : forall xs js n, length xs = n -> length js = n -> wf_matrix n n (build_birkhoff K xs js n).
Proof.
  intros xs js n Hx Hj. unfold build_birkhoff. split.
  - rewrite map_length, combine_length. lia.
  - apply Forall_forall. intros r Hr. apply in_map_iff in Hr. destruct Hr as [xj [<- _]]. now rewrite map_length, seq_length.
Qed.

(* a non-singular system has at most one solution *)
Lemma nonsingular_unique : forall n (V : matrix) P Q, wf_matrix n n V -> (0 < n)%nat ->
  determinant K V <> 0 -> length P = n -> length Q = n -> mvec K V P = mvec K V Q -> P = Q.
Proof.
  intros n V P Q Hwf Hn Hdet HP HQ E.
  destruct (try_inv K V) as [Ni|] eqn:Ei.
  2:{ exfalso. apply Hdet. now apply (det_zero_iff K HK n V Hwf Hn). }
  destruct (try_inv_sound K HK n V Ni Hwf Hn Ei) as [HwN [_ HNV]].
  rewrite <- (mvec_identity K HK n P HP), <- (mvec_identity K HK n Q HQ), <- HNV.
  rewrite !(mvec_mmul K HK n n n Ni V) by auto. now rewrite E.
Qed.

Theorem tassa_reconstruct_correct_if_nonsingular : forall (fkey : F -> Z) levels cs S,
  NoDup S -> (2 <= length S)%nat -> incl S (flat_map snd levels) ->
  is_qualified (Hier levels) S = true ->
  length cs = hier_k levels -> (0 < hier_k levels)%nat -> nth (pred (hier_k levels)) cs 0 <> 0 ->
  (hier_k levels <= length S)%nat ->
  let xs := map fromN S in
  let js := map (fun id => N.of_nat (rank0 levels id)) S in
  let ys := map (fun id => peval K (pderiv_iter K (rank0 levels id) cs) (fromN id)) S in
  let nodes := sort_nodes fkey (combine (combine xs js) ys) in
  determinant K (build_birkhoff K (map (fun n : F * N * F => fst (fst n)) nodes)
                                  (map (fun n : F * N * F => snd (fst n)) nodes) (length S)) <> 0 ->
  tassa_reconstruct K fromN fkey levels (combine S ys) = Some (nth 0 cs 0).
Proof.
  intros fkey levels cs S Hnd Hlen2 Hincl Hq Hcs Hk Hlead HkS xs js ys nodes Hdet.
  set (n := length S) in *.
  assert (Hlx : length xs = n) by (unfold xs; apply map_length).
  assert (Hlj : length js = n) by (unfold js; apply map_length).
  assert (Hly : length ys = n) by (unfold ys; apply map_length).
  unfold tassa_reconstruct.
  assert (Hfst : map fst (combine S ys) = S) by (apply map_fst_combine; lia).
  assert (Hsnd : map snd (combine S ys) = ys) by (apply map_snd_combine; lia).
  assert (Hlc : @length (@fshare F) (combine S ys) = n) by (unfold fshare; rewrite combine_length, Hly; apply Nat.min_id).
  cbv zeta. rewrite Hfst, Hsnd, Hlc.
  assert (E2 : Nat.ltb n 2 = false) by (apply Nat.ltb_ge; exact Hlen2). rewrite E2.
  assert (End : nodupN S = S) by (apply nodup_fixed_point; exact Hnd). rewrite End, Nat.eqb_refl. cbn [negb].
  assert (Esub : subsetb S (flat_map snd levels) = true).
  { apply forallb_forall. intros id Hid. apply memN_In. now apply Hincl. }
  rewrite Esub, Hq. cbn [andb negb].
  assert (Ejs : fold_right (fun id acc => match acc, hier_rank levels id with
                                    | Some l, Some j => Some (N.of_nat j :: l)
                                    | _, _ => None
                                    end) (Some []) S = Some js).
  { unfold js. clear -Hincl. induction S as [|id S IH]; [reflexivity|]. cbn [fold_right map].
    rewrite IH by (intros x Hx; apply Hincl; now right).
    pose proof (rank_defined levels O id (Hincl id (or_introl eq_refl))) as Hr. unfold rank0, hier_rank in *.
    destruct (hier_rank_from O levels id); [reflexivity|congruence]. }
  rewrite Ejs. fold xs.
  assert (Hxne : xs <> []) by (destruct xs; [cbn in Hlx; lia|discriminate]).
  destruct (birkhoff_total K HK fkey xs js ys Hxne ltac:(lia) ltac:(lia)) as [_ Htot].
  fold nodes in Htot. rewrite Hlx in Htot. destruct (Htot Hdet) as [P HP]. rewrite HP.
  destruct (birkhoff_interp K HK fkey xs js ys P HP) as [HlP Hcons]. rewrite Hlx in HlP.
  (* the dealt polynomial, padded, meets the same constraints *)
  set (Q := cs ++ repeat 0 (n - hier_k levels)).
  assert (HlQ : length Q = n) by (unfold Q; rewrite app_length, repeat_length; lia).
  assert (HconsQ : forall x j y, In (x, j, y) (combine (combine xs js) ys) ->
            peval K (pderiv_iter K (N.to_nat j) Q) x = y).
  { intros x j y Hin. unfold xs, js, ys in Hin. rewrite combine_map_map2, combine_map_map2 in Hin.
    apply in_map_iff in Hin. destruct Hin as [id [E _]]. inversion E; subst. rewrite Nat2N.id.
    unfold Q. apply pderiv_iter_pad_eval. }
  (* both solve the sorted system *)
  set (xs' := map (fun nd : F * N * F => fst (fst nd)) nodes) in *.
  set (js' := map (fun nd : F * N * F => snd (fst nd)) nodes) in *.
  set (ys' := map (fun nd : F * N * F => snd nd) nodes).
  assert (Hln : length nodes = n).
  { unfold nodes. rewrite sort_nodes_length, !combine_length. lia. }
  assert (Hsolve : forall R, length R = n ->
            (forall x j y, In (x, j, y) (combine (combine xs js) ys) -> peval K (pderiv_iter K (N.to_nat j) R) x = y) ->
            mvec K (build_birkhoff K xs' js' n) R = ys').
  { intros R HR HcR. rewrite <- HR.
    apply (birkhoff_system_iff_constraints K HK xs' js' ys' R).
    - unfold xs', js'. now rewrite !map_length.
    - unfold xs', ys'. now rewrite !map_length.
    - intros i Hi. unfold xs' in Hi. rewrite map_length in Hi.
      unfold xs', js', ys'.
      rewrite (nth_map_lt (fun nd : F * N * F => fst (fst nd)) nodes (0, 0%N, 0) 0 i Hi).
      rewrite (nth_map_lt (fun nd : F * N * F => snd (fst nd)) nodes (0, 0%N, 0) 0%N i Hi).
      rewrite (nth_map_lt (fun nd : F * N * F => snd nd) nodes (0, 0%N, 0) 0 i Hi).
      apply HcR. apply (sort_nodes_In fkey). fold nodes.
      destruct (nth i nodes (0, 0%N, 0)) as [[x j] y] eqn:En. cbn [fst snd]. rewrite <- En. now apply nth_In. }
  assert (EPQ : P = Q).
  { apply (nonsingular_unique n (build_birkhoff K xs' js' n) P Q); auto; try lia.
    - apply build_birkhoff_wf; unfold xs', js'; now rewrite map_length.
    - now rewrite (Hsolve P HlP Hcons), (Hsolve Q HlQ HconsQ). }
  rewrite EPQ. unfold pdegree, Q. rewrite ptrim_len_pad.
  assert (Hcne : cs <> []) by (destruct cs; [cbn in Hcs; lia|discriminate]).
  rewrite (ptrim_len_full cs Hcne) by (rewrite Hcs; exact Hlead).
  rewrite Hcs. destruct (hier_k levels) as [|k'] eqn:Ek; [lia|]. fold (hier_k levels). rewrite Ek, Nat.eqb_refl.
  f_equal. apply app_nth1. lia.
Qed.

End Tassa.
