(* Bls_proofs.v — lemmas about the exponent / linear-form model of BLS signatures (model/Bls.v).
   Section hypotheses (they stay hypotheses of the property theorems):
     q_gt_1      the group order exceeds 1 (only the ring structure of Z_q is used)
     pkenc_inj / pkenc_len   the public-key encoding is injective and of fixed length (used only
                 by the statements that say message augmentation / a proof of possession binds the key) *)
From Coq Require Import ZArith Lia List Bool Zdiv Morphisms Setoid.
From Coq Require Import ZifyBool.
Import ListNotations.
Require Import V.model.Bls V.proofs.ZnInv_proofs.
Local Open Scope Z_scope.

Lemma bytes_eqb_eq : forall a b, bytes_eqb a b = true <-> a = b.
Proof.
  induction a as [|x a IH]; destruct b as [|y b]; cbn [bytes_eqb]; split; intro H;
    try reflexivity; try discriminate.
  - apply andb_true_iff in H. destruct H as [H1 H2]. apply Z.eqb_eq in H1. apply IH in H2. congruence.
  - inversion H. subst. rewrite Z.eqb_refl. cbn. apply IH. reflexivity.
Qed.

Lemma hin_eqb_eq : forall a b, hin_eqb a b = true <-> a = b.
Proof.
  intros [d p] [d' p']. unfold hin_eqb. cbn [fst snd]. rewrite andb_true_iff, Z.eqb_eq, bytes_eqb_eq.
  split; [intros [H1 H2]; congruence|intro H; inversion H; tauto].
Qed.

Lemma hin_eqb_refl : forall a, hin_eqb a a = true.
Proof. intro a. apply hin_eqb_eq. reflexivity. Qed.

Lemma hin_eqb_neq : forall a b, a <> b -> hin_eqb a b = false.
Proof. intros a b H. destruct (hin_eqb a b) eqn:E; [apply hin_eqb_eq in E; contradiction|reflexivity]. Qed.

Section BlsProofs.
  Variable q : Z.
  Variable pkenc : Z -> list Z.
  Hypothesis q_gt_1 : 1 < q.

  Notation "a == b" := (eqm q a b) (at level 70).
  Notation coef := (coef q).
  Notation const := (const q).
  Notation form_is0 := (form_is0 q).
  Notation form_eqb := (form_eqb q).
  Notation k_is_id := (k_is_id q).
  Notation s_is_id := (s_is_id q).
  Notation core_sign := (core_sign q).
  Notation core_verify := (core_verify q).
  Notation core_aggregate_verify := (core_aggregate_verify q).
  Notation agg_guard := (agg_guard q).
  Notation augment := (augment q pkenc).
  Notation pop_verify := (pop_verify q pkenc).
  Notation bls_sign := (bls_sign q pkenc).
  Notation bls_verify := (bls_verify q pkenc).

  (* equality of signature-group elements: coefficient-wise mod q *)
  Definition feq (f g : form) : Prop := const f = const g /\ forall h, coef f h = coef g h.

  Lemma feq_refl : forall f, feq f f.
  Proof. intro f. split; reflexivity. Qed.

  Lemma feq_sym : forall f g, feq f g -> feq g f.
  Proof. intros f g [H1 H2]. split; [symmetry; exact H1|intro h; symmetry; apply H2]. Qed.

  Lemma feq_trans : forall f g k, feq f g -> feq g k -> feq f k.
  Proof. intros f g k [A1 A2] [B1 B2]. split; [congruence|intro h; rewrite A2; apply B2]. Qed.

  Lemma coef_terms_app : forall a b h, coef_terms (a ++ b) h = coef_terms a h + coef_terms b h.
  Proof.
    induction a as [|[h' c] a IH]; intros b h; cbn [coef_terms app]; [lia|]. rewrite IH. lia.
  Qed.

  Lemma coef_terms_scale : forall a ts h,
    coef_terms (map (fun t => (fst t, a * snd t)) ts) h = a * coef_terms ts h.
  Proof.
    induction ts as [|[h' c] ts IH]; intro h; cbn [coef_terms map fst snd]; [lia|].
    rewrite IH. destruct (hin_eqb h' h); lia.
  Qed.

  Lemma coef_terms_nomatch : forall ts h,
    (forall t, In t ts -> hin_eqb (fst t) h = false) -> coef_terms ts h = 0.
  Proof.
    induction ts as [|[h' c] ts IH]; intros h H; cbn [coef_terms]; [reflexivity|].
    pose proof (H (h', c) (or_introl eq_refl)) as E. cbn [fst] in E. rewrite E. rewrite IH; [lia|].
    intros t Ht. apply H. right. exact Ht.
  Qed.

  Lemma mod_q_range : forall a, 0 <= a mod q < q.
  Proof. intro a. apply Z.mod_pos_bound. lia. Qed.

  Lemma form_is0_iff : forall f, form_is0 f = true <-> (const f = 0 /\ forall h, coef f h = 0).
  Proof.
    intro f. unfold Bls.form_is0. rewrite andb_true_iff, Z.eqb_eq, forallb_forall. split.
    - intros [Hc Hall]. split; [exact Hc|]. intro h.
      destruct (existsb (fun t => hin_eqb (fst t) h) (snd f)) eqn:Hex.
      + apply existsb_exists in Hex. destruct Hex as (t & Hin & Ht). apply hin_eqb_eq in Ht. subst h.
        specialize (Hall t Hin). apply Z.eqb_eq in Hall. exact Hall.
      + unfold Bls.coef. rewrite coef_terms_nomatch; [apply Z.mod_0_l; lia|].
        intros t Hin. destruct (hin_eqb (fst t) h) eqn:E; [|reflexivity].
        assert (Hex' : existsb (fun t => hin_eqb (fst t) h) (snd f) = true)
          by (apply existsb_exists; exists t; split; assumption).
        congruence.
    - intros [Hc Hall]. split; [exact Hc|]. intros t _. apply Z.eqb_eq. apply Hall.
  Qed.

  Lemma const_fadd : forall f g, const (fadd f g) = (const f + const g) mod q.
  Proof. intros. unfold Bls.const, fadd. cbn [fst]. apply Zplus_mod. Qed.

  Lemma coef_fadd : forall f g h, coef (fadd f g) h = (coef f h + coef g h) mod q.
  Proof. intros. unfold Bls.coef, fadd. cbn [snd]. rewrite coef_terms_app. apply Zplus_mod. Qed.

  Lemma const_fscale : forall a f, const (fscale a f) = (a * const f) mod q.
  Proof. intros. unfold Bls.const, fscale. cbn [fst]. rewrite Zmult_mod_idemp_r. reflexivity. Qed.

  Lemma coef_fscale : forall a f h, coef (fscale a f) h = (a * coef f h) mod q.
  Proof.
    intros. unfold Bls.coef, fscale. cbn [snd]. rewrite coef_terms_scale, Zmult_mod_idemp_r. reflexivity.
  Qed.

  Lemma coef_fbasis : forall h0 h, coef (fbasis h0) h = if hin_eqb h0 h then 1 else 0.
  Proof.
    intros. unfold Bls.coef, fbasis. cbn [snd coef_terms].
    destruct (hin_eqb h0 h); [apply Z.mod_small; lia|apply Z.mod_0_l; lia].
  Qed.

  Lemma const_fbasis : forall h0, const (fbasis h0) = 0.
  Proof. intro. unfold Bls.const, fbasis. cbn [fst]. apply Z.mod_0_l. lia. Qed.

  Lemma coef_fgen : forall c h, coef (fgen c) h = 0.
  Proof. intros. unfold Bls.coef, fgen. cbn [snd coef_terms]. apply Z.mod_0_l. lia. Qed.

  Lemma const_fgen : forall c, const (fgen c) = c mod q.
  Proof. intros. reflexivity. Qed.

  Lemma const_fzero : const fzero = 0.
  Proof. unfold Bls.const, fzero. cbn [fst]. apply Z.mod_0_l. lia. Qed.

  Lemma coef_fzero : forall h, coef fzero h = 0.
  Proof. intro. unfold Bls.coef, fzero. cbn [snd coef_terms]. apply Z.mod_0_l. lia. Qed.

  (* a·H(h0): coefficient a at h0, zero elsewhere *)
  Lemma coef_scaled_basis : forall a h0 h,
    coef (fscale a (fbasis h0)) h = if hin_eqb h0 h then a mod q else 0.
  Proof.
    intros. rewrite coef_fscale, coef_fbasis. destruct (hin_eqb h0 h).
    - rewrite Z.mul_1_r. reflexivity.
    - rewrite Z.mul_0_r. apply Z.mod_0_l. lia.
  Qed.

  Lemma const_scaled_basis : forall a h0, const (fscale a (fbasis h0)) = 0.
  Proof. intros. rewrite const_fscale, const_fbasis, Z.mul_0_r. apply Z.mod_0_l. lia. Qed.

  Lemma mod_diff_0 : forall a b, (a - b) mod q = 0 <-> a mod q = b mod q.
  Proof.
    intros a b. split; intro H.
    - replace a with ((a - b) + b) by ring. rewrite Zplus_mod, H, Z.add_0_l. apply Z.mod_mod. lia.
    - rewrite Zminus_mod, H, Z.sub_diag. apply Z.mod_0_l. lia.
  Qed.

  Lemma modsub0 : forall a b, (a mod q + (-1 * (b mod q)) mod q) mod q = 0 <-> a mod q = b mod q.
  Proof.
    intros a b. rewrite <- Zplus_mod. replace (a + -1 * (b mod q)) with (a - b mod q) by ring.
    rewrite Zminus_mod_idemp_r. apply mod_diff_0.
  Qed.

  Lemma modneg0 : forall a b, ((- a) mod q + b mod q) mod q = 0 <-> b mod q = a mod q.
  Proof.
    intros a b. rewrite <- Zplus_mod. replace (- a + b) with (b - a) by ring. apply mod_diff_0.
  Qed.

  Lemma form_eqb_iff : forall f g, form_eqb f g = true <-> feq f g.
  Proof.
    intros f g. unfold Bls.form_eqb, fneg. rewrite form_is0_iff. unfold feq.
    rewrite const_fadd, const_fscale. unfold Bls.const. rewrite modsub0.
    split; intros [Hc Hh]; (split; [exact Hc|]); intro h; specialize (Hh h).
    - rewrite coef_fadd, coef_fscale in Hh. unfold Bls.coef in *. apply modsub0. exact Hh.
    - rewrite coef_fadd, coef_fscale. unfold Bls.coef in *. apply modsub0. exact Hh.
  Qed.

  Lemma form_is0_feq : forall f g, feq f g -> form_is0 f = form_is0 g.
  Proof.
    intros f g [Hc Hh].
    destruct (form_is0 f) eqn:Ef, (form_is0 g) eqn:Eg; try reflexivity.
    - apply form_is0_iff in Ef. destruct Ef as [A B].
      assert (form_is0 g = true) by (apply form_is0_iff; split; [congruence|intro h; rewrite <- Hh; apply B]).
      congruence.
    - apply form_is0_iff in Eg. destruct Eg as [A B].
      assert (form_is0 f = true) by (apply form_is0_iff; split; [congruence|intro h; rewrite Hh; apply B]).
      congruence.
  Qed.

  Lemma scaled_basis_nonzero : forall a h0, a mod q <> 0 -> form_is0 (fscale a (fbasis h0)) = false.
  Proof.
    intros a h0 Ha. destruct (form_is0 (fscale a (fbasis h0))) eqn:E; [|reflexivity].
    apply form_is0_iff in E. destruct E as [_ E]. specialize (E h0).
    rewrite coef_scaled_basis, hin_eqb_refl in E. contradiction.
  Qed.

  (* the pairing check  −a·H(h0) + σ = 0  says σ = a·H(h0) *)
  Lemma pairing_check_iff : forall a h0 f,
    form_is0 (fadd (fscale (- a) (fbasis h0)) f) = true <-> feq f (fscale a (fbasis h0)).
  Proof.
    intros a h0 f. rewrite form_is0_iff. unfold feq.
    rewrite const_fadd, !const_scaled_basis, Z.add_0_l.
    assert (Hcc : const f mod q = const f) by (unfold Bls.const; apply Z.mod_mod; lia).
    rewrite Hcc.
    split; intros [Hc Hh]; (split; [exact Hc|]); intro h; specialize (Hh h).
    - rewrite coef_fadd, !coef_scaled_basis in *. destruct (hin_eqb h0 h).
      + unfold Bls.coef in *. apply modneg0 in Hh. exact Hh.
      + rewrite Z.add_0_l in Hh. unfold Bls.coef in *. rewrite Z.mod_mod in Hh by lia. exact Hh.
    - rewrite coef_fadd, !coef_scaled_basis in *. destruct (hin_eqb h0 h).
      + unfold Bls.coef in *. apply modneg0. exact Hh.
      + rewrite Z.add_0_l. unfold Bls.coef in *. rewrite Z.mod_mod by lia. exact Hh.
  Qed.

  (* ---- CoreVerify ----------------------------------------------------------------------------- *)
  Theorem core_verify_iff : forall pk payload sg dst,
    core_verify pk payload sg dst = true <->
    (s_sub sg = true /\ k_sub pk = true /\ k_a pk mod q <> 0 /\
     feq (s_f sg) (fscale (k_a pk) (fbasis (dst, payload)))).
  Proof.
    intros [ksub a] payload [ssub f] dst. unfold Bls.core_verify, Bls.s_is_id, Bls.k_is_id.
    cbn [s_sub s_f k_sub k_a].
    destruct ssub; cbn [andb negb].
    2:{ split; [discriminate|]. intros (H & _). discriminate. }
    destruct ksub; cbn [andb negb].
    2:{ destruct (form_is0 f); (split; [discriminate|]); intros (_ & H & _); discriminate. }
    destruct (a mod q =? 0) eqn:Ha.
    { destruct (form_is0 f); (split; [discriminate|]); intros (_ & _ & H & _); lia. }
    assert (Ha' : a mod q <> 0) by lia.
    destruct (form_is0 f) eqn:Hf.
    - split; [discriminate|]. intros (_ & _ & _ & He).
      rewrite (form_is0_feq _ _ He), (scaled_basis_nonzero a (dst, payload) Ha') in Hf. discriminate.
    - rewrite pairing_check_iff. tauto.
  Qed.

  (* ---- signing and single verification ----------------------------------------------------------- *)
  Definition honest (x : Z) (dst : Z) (payload : list Z) : form := fscale x (fbasis (dst, payload)).

  Lemma core_sign_verify : forall x dst payload,
    x mod q <> 0 ->
    core_sign x dst payload = Some (mk_sel true (honest x dst payload)) /\
    core_verify (mk_kel true x) payload (mk_sel true (honest x dst payload)) dst = true.
  Proof.
    intros x dst payload Hx. split.
    - unfold Bls.core_sign. assert (H : (x mod q =? 0) = false) by lia. rewrite H. reflexivity.
    - apply core_verify_iff. cbn [s_sub s_f k_sub k_a]. repeat split; try assumption; reflexivity.
  Qed.

  Lemma honest_not_id : forall x dst payload, x mod q <> 0 -> s_is_id (mk_sel true (honest x dst payload)) = false.
  Proof. intros. unfold Bls.s_is_id. cbn [s_sub s_f andb]. apply scaled_basis_nonzero. assumption. Qed.

  Lemma key_not_id : forall x, x mod q <> 0 -> k_is_id (mk_kel true x) = false.
  Proof. intros x Hx. unfold Bls.k_is_id. cbn [k_sub k_a andb]. lia. Qed.

  Theorem bls_sign_verify : forall sc x m,
    x mod q <> 0 -> m <> [] ->
    exists sg, bls_sign sc x m = Some sg /\ bls_verify sc sg (mk_kel true x) m = true.
  Proof.
    intros sc x m Hx Hm. destruct m as [|b m]; [contradiction|]. clear Hm.
    pose proof (key_not_id x Hx) as Hkid.
    destruct sc; unfold Bls.bls_sign, Bls.bls_verify.
    - destruct (core_sign_verify x dst_basic (b :: m) Hx) as [Hs Hv]. rewrite Hs.
      eexists. split; [reflexivity|]. cbn [b_v b_pop k_sub s_sub negb].
      rewrite Hkid, (honest_not_id x dst_basic (b :: m) Hx). exact Hv.
    - unfold Bls.augment. rewrite Hkid. cbn [k_sub negb k_a].
      destruct (core_sign_verify x dst_aug (pkenc (x mod q) ++ b :: m) Hx) as [Hs Hv]. rewrite Hs.
      eexists. split; [reflexivity|]. cbn [b_v b_pop k_sub s_sub negb].
      rewrite ?Hkid, (honest_not_id x dst_aug _ Hx). cbn [k_a]. exact Hv.
    - destruct (core_sign_verify x dst_pop_proof (pkenc (x mod q)) Hx) as [Hs1 Hv1]. rewrite Hs1.
      destruct (core_sign_verify x dst_pop_sig (b :: m) Hx) as [Hs2 Hv2]. rewrite Hs2.
      eexists. split; [reflexivity|]. cbn [b_v b_pop k_sub s_sub negb].
      rewrite Hkid, (honest_not_id x dst_pop_sig (b :: m) Hx).
      unfold Bls.pop_verify. rewrite Hkid. cbn [k_sub negb k_a]. rewrite Hv1. exact Hv2.
  Qed.

  (* the acceptance sets of the three schemes *)
  Theorem bls_accept_iff_basic : forall sg pop pk m,
    bls_verify Basic (mk_bsig sg pop) pk m = true <->
    (m <> [] /\ s_sub sg = true /\ k_sub pk = true /\ k_a pk mod q <> 0 /\
     feq (s_f sg) (fscale (k_a pk) (fbasis (dst_basic, m)))).
  Proof.
    intros sg pop pk m. unfold Bls.bls_verify. cbn [b_v b_pop].
    destruct m as [|b m]; [split; [discriminate|intros (H & _); contradiction]|].
    destruct (k_sub pk) eqn:Hks; cbn [negb].
    2:{ split; [discriminate|]. intros (_ & _ & H & _). discriminate. }
    destruct (k_is_id pk) eqn:Hkid.
    { split; [discriminate|]. intros (_ & _ & _ & H & _). unfold Bls.k_is_id in Hkid. rewrite Hks in Hkid. cbn in Hkid. lia. }
    destruct (s_sub sg) eqn:Hss; cbn [negb].
    2:{ split; [discriminate|]. intros (_ & H & _). discriminate. }
    destruct (s_is_id sg) eqn:Hsid.
    { split; [discriminate|]. intros (_ & _ & _ & Ha & He).
      unfold Bls.s_is_id in Hsid. rewrite Hss in Hsid. cbn [andb] in Hsid.
      rewrite (form_is0_feq _ _ He), (scaled_basis_nonzero _ _ Ha) in Hsid. discriminate. }
    rewrite core_verify_iff, Hss, Hks. split; [intros (_ & _ & A & B)|intros (_ & _ & _ & A & B)];
      repeat split; try assumption; try reflexivity; try discriminate; try (destruct B; assumption).
  Qed.

  Theorem bls_accept_iff_aug : forall sg pop pk m,
    bls_verify Aug (mk_bsig sg pop) pk m = true <->
    (m <> [] /\ s_sub sg = true /\ k_sub pk = true /\ k_a pk mod q <> 0 /\
     feq (s_f sg) (fscale (k_a pk) (fbasis (dst_aug, pkenc (k_a pk mod q) ++ m)))).
  Proof.
    intros sg pop pk m. unfold Bls.bls_verify. cbn [b_v b_pop].
    destruct m as [|b m]; [split; [discriminate|intros (H & _); contradiction]|].
    destruct (k_sub pk) eqn:Hks; cbn [negb].
    2:{ split; [discriminate|]. intros (_ & _ & H & _). discriminate. }
    destruct (k_is_id pk) eqn:Hkid.
    { split; [discriminate|]. intros (_ & _ & _ & H & _). unfold Bls.k_is_id in Hkid. rewrite Hks in Hkid. cbn in Hkid. lia. }
    destruct (s_sub sg) eqn:Hss; cbn [negb].
    2:{ split; [discriminate|]. intros (_ & H & _). discriminate. }
    destruct (s_is_id sg) eqn:Hsid.
    { split; [discriminate|]. intros (_ & _ & _ & Ha & He).
      unfold Bls.s_is_id in Hsid. rewrite Hss in Hsid. cbn [andb] in Hsid.
      rewrite (form_is0_feq _ _ He), (scaled_basis_nonzero _ _ Ha) in Hsid. discriminate. }
    unfold Bls.augment. rewrite Hkid, Hks. cbn [negb].
    rewrite core_verify_iff, Hss, Hks. split; [intros (_ & _ & A & B)|intros (_ & _ & _ & A & B)];
      repeat split; try assumption; try reflexivity; try discriminate; try (destruct B; assumption).
  Qed.

  (* proof of possession: valid exactly when it is a·H_pop(enc(a·G)) *)
  Theorem pop_verify_iff : forall pk pop,
    pop_verify pk pop = true <->
    (s_sub pop = true /\ k_sub pk = true /\ k_a pk mod q <> 0 /\
     feq (s_f pop) (fscale (k_a pk) (fbasis (dst_pop_proof, pkenc (k_a pk mod q))))).
  Proof.
    intros pk pop. unfold Bls.pop_verify.
    destruct (k_is_id pk) eqn:Hkid.
    { split; [discriminate|]. intros (_ & Hks & Ha & _). unfold Bls.k_is_id in Hkid. rewrite Hks in Hkid. cbn in Hkid. lia. }
    destruct (k_sub pk) eqn:Hks; cbn [negb].
    2:{ split; [discriminate|]. intros (_ & H & _). discriminate. }
    rewrite core_verify_iff, Hks. tauto.
  Qed.

  Theorem bls_accept_iff_pop : forall sg pop pk m,
    bls_verify Pop (mk_bsig sg pop) pk m = true <->
    (m <> [] /\ s_sub sg = true /\ k_sub pk = true /\ k_a pk mod q <> 0 /\
     (exists pp, pop = Some pp /\ pop_verify pk pp = true) /\
     feq (s_f sg) (fscale (k_a pk) (fbasis (dst_pop_sig, m)))).
  Proof.
    intros sg pop pk m. unfold Bls.bls_verify. cbn [b_v b_pop].
    destruct m as [|b m]; [split; [discriminate|intros (H & _); contradiction]|].
    destruct (k_sub pk) eqn:Hks; cbn [negb].
    2:{ split; [discriminate|]. intros (_ & _ & H & _). discriminate. }
    destruct (k_is_id pk) eqn:Hkid.
    { split; [discriminate|]. intros (_ & _ & _ & H & _). unfold Bls.k_is_id in Hkid. rewrite Hks in Hkid. cbn in Hkid. lia. }
    destruct (s_sub sg) eqn:Hss; cbn [negb].
    2:{ split; [discriminate|]. intros (_ & H & _). discriminate. }
    destruct (s_is_id sg) eqn:Hsid.
    { split; [discriminate|]. intros (_ & _ & _ & Ha & _ & He).
      unfold Bls.s_is_id in Hsid. rewrite Hss in Hsid. cbn [andb] in Hsid.
      rewrite (form_is0_feq _ _ He), (scaled_basis_nonzero _ _ Ha) in Hsid. discriminate. }
    destruct pop as [pp|].
    2:{ split; [discriminate|]. intros (_ & _ & _ & _ & (pp & H & _) & _). discriminate. }
    destruct (pop_verify pk pp) eqn:Hpv.
    2:{ split; [discriminate|]. intros (_ & _ & _ & _ & (pp' & H & H') & _). inversion H. subst pp'. congruence. }
    rewrite core_verify_iff, Hss, Hks. split; [intros (_ & _ & A & B)|intros (_ & _ & _ & A & _ & B)];
      repeat split; try assumption; try reflexivity; try discriminate; try (destruct B; assumption); try (exists pp; split; [reflexivity|exact Hpv]).
  Qed.

  (* ---- binding -------------------------------------------------------------------------------------- *)
  Lemma scaled_basis_inj : forall a h a' h',
    a mod q <> 0 -> feq (fscale a (fbasis h)) (fscale a' (fbasis h')) -> h = h' /\ a mod q = a' mod q.
  Proof.
    intros a h a' h' Ha [_ Hh]. pose proof (Hh h) as H1.
    rewrite !coef_scaled_basis, hin_eqb_refl in H1.
    destruct (hin_eqb h' h) eqn:E; [|contradiction].
    apply hin_eqb_eq in E. subst h'. split; [reflexivity|exact H1].
  Qed.

  Hypothesis pkenc_inj : forall a b, 0 <= a < q -> 0 <= b < q -> pkenc a = pkenc b -> a = b.
  Hypothesis pkenc_len : forall a b, length (pkenc a) = length (pkenc b).

  (* a proof of possession is valid for one key only *)
  Theorem pop_binds_key : forall pk pk' pop,
    pop_verify pk pop = true -> pop_verify pk' pop = true -> k_a pk mod q = k_a pk' mod q.
  Proof.
    intros pk pk' pop H H'. apply pop_verify_iff in H, H'.
    destruct H as (_ & _ & Ha & He). destruct H' as (_ & _ & Ha' & He').
    pose proof (feq_trans _ _ _ (feq_sym _ _ He) He') as E.
    apply scaled_basis_inj in E; [|exact Ha]. tauto.
  Qed.

  Lemma app_eq_same_length : forall (A : Type) (a a' b b' : list A),
    length a = length a' -> a ++ b = a' ++ b' -> a = a' /\ b = b'.
  Proof.
    induction a as [|x a IH]; destruct a' as [|x' a']; cbn; intros b b' Hl H; try discriminate.
    - tauto.
    - inversion H. inversion Hl. destruct (IH a' b b' H3 H2). subst. tauto.
  Qed.

  (* under message augmentation a signature is valid for one (key, message) pair only *)
  Theorem aug_binds_key_and_message : forall sg pop pop' pk pk' m m',
    bls_verify Aug (mk_bsig sg pop) pk m = true -> bls_verify Aug (mk_bsig sg pop') pk' m' = true ->
    k_a pk mod q = k_a pk' mod q /\ m = m'.
  Proof.
    intros sg pop pop' pk pk' m m' H H'. apply bls_accept_iff_aug in H, H'.
    destruct H as (_ & _ & _ & Ha & He). destruct H' as (_ & _ & _ & Ha' & He').
    pose proof (feq_trans _ _ _ (feq_sym _ _ He) He') as E.
    apply scaled_basis_inj in E; [|exact Ha]. destruct E as [Eh Ea]. inversion Eh as [Hp].
    apply app_eq_same_length in Hp; [|apply pkenc_len]. tauto.
  Qed.

  (* a changed message is rejected (basic scheme; the other schemes are analogous through their payload) *)
  Theorem basic_message_changed : forall sg pop pop' pk m m',
    bls_verify Basic (mk_bsig sg pop) pk m = true -> bls_verify Basic (mk_bsig sg pop') pk m' = true -> m = m'.
  Proof.
    intros sg pop pop' pk m m' H H'. apply bls_accept_iff_basic in H, H'.
    destruct H as (_ & _ & _ & Ha & He). destruct H' as (_ & _ & _ & _ & He').
    pose proof (feq_trans _ _ _ (feq_sym _ _ He) He') as E.
    apply scaled_basis_inj in E; [|exact Ha]. destruct E as [Eh _]. inversion Eh. reflexivity.
  Qed.

  Theorem basic_key_changed : forall sg pop pop' pk pk' m,
    bls_verify Basic (mk_bsig sg pop) pk m = true -> bls_verify Basic (mk_bsig sg pop') pk' m = true ->
    k_a pk mod q = k_a pk' mod q.
  Proof.
    intros sg pop pop' pk pk' m H H'. apply bls_accept_iff_basic in H, H'.
    destruct H as (_ & _ & _ & Ha & He). destruct H' as (_ & _ & _ & _ & He').
    pose proof (feq_trans _ _ _ (feq_sym _ _ He) He') as E.
    apply scaled_basis_inj in E; [|exact Ha]. tauto.
  Qed.

  (* ---- aggregates ----------------------------------------------------------------------------------- *)
  Lemma agg_guard_iff : forall pks,
    agg_guard pks = true <-> forall pk, In pk pks -> k_sub pk = true /\ k_a pk mod q <> 0.
  Proof.
    induction pks as [|pk r IH]; cbn [Bls.agg_guard].
    - split; [intros _ pk []|reflexivity].
    - unfold Bls.k_is_id at 1. destruct (k_sub pk) eqn:Hks; cbn [andb negb].
      + destruct (k_a pk mod q =? 0) eqn:Ha.
        * split; [discriminate|]. intro H. destruct (H pk (or_introl eq_refl)) as [_ H']. lia.
        * rewrite IH. split.
          -- intros H pk' [Hp|Hp]; [subst pk'; split; [exact Hks|lia]|apply H; exact Hp].
          -- intros H pk' Hp. apply H. right. exact Hp.
      + split; [discriminate|]. intro H. destruct (H pk (or_introl eq_refl)) as [H' _]. congruence.
  Qed.

  Theorem bls_aggregate_iff : forall pks payloads sg dst,
    core_aggregate_verify pks payloads sg dst = true <->
    (pks <> [] /\ length pks = length payloads /\ s_sub sg = true /\ form_is0 (s_f sg) = false /\
     (forall pk, In pk pks -> k_sub pk = true /\ k_a pk mod q <> 0) /\
     feq (s_f sg) (agg_sum pks payloads dst)).
  Proof.
    intros pks payloads sg dst. unfold Bls.core_aggregate_verify.
    destruct pks as [|pk0 r]; [split; [discriminate|intros (H & _); contradiction]|].
    set (pks := pk0 :: r).
    destruct (Nat.eqb (length pks) (length payloads)) eqn:Hl; cbn [negb].
    2:{ split; [discriminate|]. intros (_ & H & _). apply Nat.eqb_neq in Hl. contradiction. }
    apply Nat.eqb_eq in Hl.
    unfold Bls.s_is_id. destruct (s_sub sg) eqn:Hss; cbn [andb negb].
    2:{ split; [discriminate|]. intros (_ & _ & H & _). discriminate. }
    destruct (form_is0 (s_f sg)) eqn:Hz.
    { split; [discriminate|]. intros (_ & _ & _ & H & _). discriminate. }
    destruct (agg_guard pks) eqn:Hg; cbn [negb].
    2:{ split; [discriminate|]. intros (_ & _ & _ & _ & H & _). pose proof (proj2 (agg_guard_iff pks) H). congruence. }
    pose proof (proj1 (agg_guard_iff pks) Hg) as Hg'. clear Hg. rename Hg' into Hg.
    fold (Bls.form_eqb q (agg_sum pks payloads dst) (s_f sg)). rewrite form_eqb_iff.
    split.
    - intro H. repeat split; try assumption; try discriminate; try (apply feq_sym in H; apply H).
      + apply (Hg pk H0).
      + apply (Hg pk H0).
    - intros (_ & _ & _ & _ & _ & H). apply feq_sym. exact H.
  Qed.

  (* an identity or out-of-subgroup public key anywhere in the list makes the aggregate fail *)
  Theorem aggregate_bad_key_rejected : forall pks payloads sg dst pk,
    In pk pks -> (k_sub pk = false \/ k_a pk mod q = 0) ->
    core_aggregate_verify pks payloads sg dst = false.
  Proof.
    intros pks payloads sg dst pk Hin Hbad.
    destruct (core_aggregate_verify pks payloads sg dst) eqn:H; [|reflexivity].
    apply bls_aggregate_iff in H. destruct H as (_ & _ & _ & _ & Hg & _).
    destruct (Hg pk Hin) as [A B]. destruct Hbad; [congruence|contradiction].
  Qed.

  Lemma coef_agg_sum_notin : forall pks payloads dst m,
    ~ In m payloads -> coef (agg_sum pks payloads dst) (dst, m) = 0.
  Proof.
    induction pks as [|pk r IH]; intros payloads dst m Hn; cbn [agg_sum]; [apply coef_fzero|].
    destruct payloads as [|m0 ms]; [apply coef_fzero|].
    rewrite coef_fadd, coef_scaled_basis.
    rewrite hin_eqb_neq by (intro E; inversion E; apply Hn; left; assumption).
    rewrite IH by (intro E; apply Hn; right; exact E). apply Z.mod_0_l. lia.
  Qed.

  Lemma const_agg_sum : forall pks payloads dst, const (agg_sum pks payloads dst) = 0.
  Proof.
    induction pks as [|pk r IH]; intros payloads dst; cbn [agg_sum]; [apply const_fzero|].
    destruct payloads as [|m0 ms]; [apply const_fzero|].
    rewrite const_fadd, const_scaled_basis, IH. apply Z.mod_0_l. lia.
  Qed.

  Lemma coef_agg_sum_app : forall l1 p1 l2 p2 dst h,
    length l1 = length p1 ->
    coef (agg_sum (l1 ++ l2) (p1 ++ p2) dst) h = (coef (agg_sum l1 p1 dst) h + coef (agg_sum l2 p2 dst) h) mod q.
  Proof.
    induction l1 as [|pk r IH]; intros p1 l2 p2 dst h Hl; destruct p1 as [|m0 ms]; try discriminate.
    - cbn [app agg_sum]. rewrite coef_fzero, Z.add_0_l. unfold Bls.coef. rewrite Z.mod_mod by lia. reflexivity.
    - cbn [app agg_sum]. rewrite !coef_fadd. rewrite IH by (cbn in Hl; lia).
      rewrite Zplus_mod_idemp_r, Zplus_mod_idemp_l. f_equal. ring.
  Qed.

  (* missing contributor: the aggregate of the other signers is rejected for the full key list *)
  Theorem aggregate_missing_rejected : forall l1 p1 pk m l2 p2 sg dst,
    length l1 = length p1 -> ~ In m (p1 ++ p2) -> k_a pk mod q <> 0 ->
    feq (s_f sg) (agg_sum (l1 ++ l2) (p1 ++ p2) dst) ->
    core_aggregate_verify (l1 ++ pk :: l2) (p1 ++ m :: p2) sg dst = false.
  Proof.
    intros l1 p1 pk m l2 p2 sg dst Hl Hn Ha He.
    destruct (core_aggregate_verify (l1 ++ pk :: l2) (p1 ++ m :: p2) sg dst) eqn:H; [|reflexivity].
    apply bls_aggregate_iff in H. destruct H as (_ & _ & _ & _ & _ & He').
    pose proof (feq_trans _ _ _ (feq_sym _ _ He) He') as [_ E]. specialize (E (dst, m)).
    rewrite coef_agg_sum_notin in E by exact Hn.
    rewrite coef_agg_sum_app in E by exact Hl. cbn [agg_sum] in E.
    rewrite coef_fadd, coef_scaled_basis, hin_eqb_refl in E.
    rewrite !coef_agg_sum_notin in E by (intro X; apply Hn; apply in_or_app; tauto).
    rewrite Z.add_0_l, Z.add_0_r in E. rewrite !Z.mod_mod in E by lia. congruence.
  Qed.

  (* foreign contributor: an extra term on a fresh message, or any multiple of the generator, is rejected *)
  Theorem aggregate_foreign_rejected : forall pks payloads sg dst b m' c0,
    ~ In m' payloads -> (b mod q <> 0 \/ c0 mod q <> 0) ->
    feq (s_f sg) (fadd (agg_sum pks payloads dst) (fadd (fscale b (fbasis (dst, m'))) (fgen c0))) ->
    core_aggregate_verify pks payloads sg dst = false.
  Proof.
    intros pks payloads sg dst b m' c0 Hn Hb He.
    destruct (core_aggregate_verify pks payloads sg dst) eqn:H; [|reflexivity].
    apply bls_aggregate_iff in H. destruct H as (_ & _ & _ & _ & _ & He').
    pose proof (feq_trans _ _ _ (feq_sym _ _ He) He') as [Ec E]. specialize (E (dst, m')).
    rewrite !coef_fadd, coef_scaled_basis, hin_eqb_refl, coef_fgen in E.
    rewrite coef_agg_sum_notin in E by exact Hn.
    rewrite !const_fadd, const_scaled_basis, const_fgen, const_agg_sum in Ec.
    rewrite ?Z.add_0_l, ?Z.add_0_r, ?Z.mod_mod in E by lia.
    rewrite ?Z.add_0_l, ?Z.add_0_r, ?Z.mod_mod in Ec by lia.
    destruct Hb; contradiction.
  Qed.
  (* ---- FastAggregateVerify (POP, one common message) agrees with the general aggregate check ------------ *)
  Lemma agg_sum_same_message : forall pks m dst,
    feq (agg_sum pks (map (fun _ => m) pks) dst) (fscale (k_a (agg_pk q pks)) (fbasis (dst, m))).
  Proof.
    induction pks as [|pk r IH]; intros m dst; cbn [agg_sum map agg_pk fold_right k_a].
    - split.
      + rewrite const_fzero, const_scaled_basis. reflexivity.
      + intro h. rewrite coef_fzero, coef_scaled_basis. destruct (hin_eqb (dst, m) h); [|reflexivity].
        symmetry. apply Z.mod_0_l. lia.
    - destruct (IH m dst) as [Hc Hh]. cbn [agg_pk k_a] in Hc, Hh. split.
      + rewrite const_fadd, !const_scaled_basis, Hc, const_scaled_basis. apply Z.mod_0_l. lia.
      + intro h. rewrite coef_fadd, Hh, !coef_scaled_basis. destruct (hin_eqb (dst, m) h).
        * rewrite Z.mod_mod by lia. rewrite Zplus_mod_idemp_l, Zplus_mod_idemp_r. reflexivity.
        * apply Z.mod_0_l. lia.
  Qed.

  Lemma scaled_basis_zero : forall a h0, a mod q = 0 -> form_is0 (fscale a (fbasis h0)) = true.
  Proof.
    intros a h0 Ha. apply form_is0_iff. split; [apply const_scaled_basis|].
    intro h. rewrite coef_scaled_basis. destruct (hin_eqb h0 h); [exact Ha|reflexivity].
  Qed.

  Theorem fast_aggregate_verify_equiv : forall pks m sg dst,
    pks <> [] -> (forall pk, In pk pks -> k_sub pk = true /\ k_a pk mod q <> 0) ->
    core_verify (agg_pk q pks) m sg dst = core_aggregate_verify pks (map (fun _ => m) pks) sg dst.
  Proof.
    intros pks m sg dst Hne Hg.
    pose proof (agg_sum_same_message pks m dst) as Hs.
    destruct (core_verify (agg_pk q pks) m sg dst) eqn:A;
      destruct (core_aggregate_verify pks (map (fun _ => m) pks) sg dst) eqn:B; try reflexivity.
    - apply core_verify_iff in A. destruct A as (A1 & _ & A3 & A4).
      assert (B' : core_aggregate_verify pks (map (fun _ => m) pks) sg dst = true).
      { apply bls_aggregate_iff. repeat split; try assumption.
        - rewrite map_length. reflexivity.
        - rewrite (form_is0_feq _ _ A4). apply scaled_basis_nonzero. exact A3.
        - apply (Hg pk H).
        - apply (Hg pk H).
        - destruct (feq_trans _ _ _ A4 (feq_sym _ _ Hs)) as [X _]. exact X.
        - destruct (feq_trans _ _ _ A4 (feq_sym _ _ Hs)) as [_ X]. exact X. }
      congruence.
    - apply bls_aggregate_iff in B. destruct B as (_ & _ & B3 & B4 & _ & B6).
      assert (A' : core_verify (agg_pk q pks) m sg dst = true).
      { apply core_verify_iff. pose proof (feq_trans _ _ _ B6 Hs) as E.
        split; [exact B3|]. split; [reflexivity|]. split; [|exact E].
        intro Hz. rewrite (form_is0_feq _ _ E), (scaled_basis_zero _ _ Hz) in B4. discriminate. }
      congruence.
  Qed.
End BlsProofs.

(* ---- a concrete instance: order 7, one-byte key encoding; two signers on two messages --------------- *)
Definition toy_pkenc (a : Z) : list Z := [a].

Lemma bls_toy_instance :
  1 < 7 /\ (forall a b, length (toy_pkenc a) = length (toy_pkenc b)) /\
  (exists sg, bls_sign 7 toy_pkenc Pop 3 [1; 2] = Some sg /\ bls_verify 7 toy_pkenc Pop sg (mk_kel true 3) [1; 2] = true) /\
  core_aggregate_verify 7 [mk_kel true 3; mk_kel true 5] [[1]; [2]]
    (mk_sel true (fadd (fscale 3 (fbasis (1, [1]))) (fscale 5 (fbasis (1, [2]))))) 1 = true /\
  core_aggregate_verify 7 [mk_kel true 3; mk_kel true 5] [[1]; [2]]
    (mk_sel true (fscale 3 (fbasis (1, [1])))) 1 = false /\
  aggregate_verify 7 toy_pkenc Aug (mk_sel true (fadd (fscale 3 (fbasis (2, [3; 9]))) (fscale 5 (fbasis (2, [5; 9])))))
    [mk_kel true 3; mk_kel true 5] [[9]; [9]] [] = true.
Proof.
  split; [lia|]. split; [reflexivity|]. split; [eexists; split; vm_compute; reflexivity|].
  repeat split; vm_compute; reflexivity.
Qed.
